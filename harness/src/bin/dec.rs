//! C11 correspondence: every decoder reachable from the network / the API is fed valid encodings,
//! structure-aware mutations of them, splices and random bytes, at protocol versions 1, 2, 3, 1000,
//! under a counting global allocator (largest single request), `catch_unwind` and a watchdog, in a
//! child process (so that an abort is observed by the parent instead of killing the run).
//!
//! Lines (see lean/GrinVerif/Drv/CodecD.lean):
//!   codec dec <D> <bin|buf> <ver> <hex> => ok <consumed> <canon> <maxreq> | err <E> <maxreq> | panic <maxreq>
//!   codec hex <utf8-hex>                => ok <bytes> <maxreq> | err <maxreq> | panic <maxreq>
//!   codec merklehex <utf8-hex>          => ok <canon> <maxreq> | err <maxreq> | panic <maxreq>
//!   codec bound <D> <k> <len>           => <ok|err> <maxreq>
//!
//! Oracle evaluated here on the implementation (`#ORACLE-FAIL C11 …`): a panic, abort, hang
//! (> 20 s without progress) or an allocation request above `16·len + k_D` in any decoder.  The five
//! defects this harness found first (`MerkleProof::read` capacity, `MerkleProof::from_hex` unwrap,
//! `util::from_hex` char boundary, `Segment::validate` unwrap) are repaired in /repo; their witnesses are
//! replayed as regression probes (`#ORACLE-FAIL` if one of them panics or over-allocates again).
use grin_chain::txhashset::BitmapSegment;
use grin_core::core::hash::Hash;
use grin_core::core::merkle_proof::MerkleProof;
use grin_core::core::pmmr::segment::{Segment, SegmentIdentifier, SegmentProof};
use grin_core::core::{
	Block, BlockHeader, CompactBlock, HeaderVersion, Input, Inputs, KernelFeatures, Output, OutputFeatures,
	OutputIdentifier, ShortId, Transaction, TxKernel, UntrustedBlock, UntrustedBlockHeader, UntrustedCompactBlock,
};
use grin_util::secp::pedersen::Commitment;
use grin_core::global::{self, ChainTypes};
use grin_core::pow::{Difficulty, Proof, ProofOfWork};
use grin_core::ser::{
	self, BufReader, DeserializationMode, ProtocolVersion, Readable, Writeable,
};
use grin_p2p::msg::{
	BanReason, GetPeerAddrs, Hand, Locator, MsgHeaderWrapper, OutputBitmapSegmentResponse,
	OutputSegmentResponse, PeerAddrs, PeerError, Ping, Pong, SegmentRequest, SegmentResponse, Shake,
	TxHashSetArchive, TxHashSetRequest,
};
use grin_p2p::types::{Capabilities, PeerAddr, ReasonForBan};
use grin_util::secp::pedersen::RangeProof;
use grin_keychain::BlindingFactor;
use grin_p2p::msg::Type;
use grin_p2p::verif_export::Codec;
use croaring::Bitmap;
use grin_core::core::pmmr::{self, ReadablePMMR, ReadonlyPMMR, VecBackend, PMMR};
use gvharness::elem::Elem;
use gvharness::*;
use std::alloc::{GlobalAlloc, Layout, System};
use std::collections::BTreeMap;
use std::io::{BufRead, Write};
use std::sync::atomic::{AtomicU64, AtomicUsize, Ordering};

// ---------------------------------------------------------------------------------------------
// counting allocator

static MAX_REQ: AtomicUsize = AtomicUsize::new(0);
/// bytes currently allocated, and the largest value since the last reset (live peak)
static LIVE: AtomicUsize = AtomicUsize::new(0);
static PEAK: AtomicUsize = AtomicUsize::new(0);

fn live_add(n: usize) {
	let now = LIVE.fetch_add(n, Ordering::Relaxed) + n;
	PEAK.fetch_max(now, Ordering::Relaxed);
}
fn live_sub(n: usize) {
	LIVE.fetch_sub(n, Ordering::Relaxed);
}
/// requests above this are refused (null) after a note on stderr: the process then aborts exactly as
/// it does when the system allocator fails
const REFUSE_ABOVE: usize = 1 << 32;

struct Counting;

fn note(size: usize) {
	MAX_REQ.fetch_max(size, Ordering::Relaxed);
}

fn refuse(size: usize) {
	// no allocation, no locks: raw write to stderr
	let mut buf = [0u8; 48];
	let pre = b"#ALLOC-REFUSED ";
	buf[..pre.len()].copy_from_slice(pre);
	let mut n = size;
	let mut digits = [0u8; 24];
	let mut k = 0;
	if n == 0 {
		digits[0] = b'0';
		k = 1;
	}
	while n > 0 {
		digits[k] = b'0' + (n % 10) as u8;
		n /= 10;
		k += 1;
	}
	let mut p = pre.len();
	for i in (0..k).rev() {
		buf[p] = digits[i];
		p += 1;
	}
	buf[p] = b'\n';
	p += 1;
	unsafe {
		libc::write(2, buf.as_ptr() as *const libc::c_void, p);
	}
}

unsafe impl GlobalAlloc for Counting {
	unsafe fn alloc(&self, l: Layout) -> *mut u8 {
		note(l.size());
		if l.size() > REFUSE_ABOVE {
			refuse(l.size());
			return std::ptr::null_mut();
		}
		live_add(l.size());
		System.alloc(l)
	}
	unsafe fn alloc_zeroed(&self, l: Layout) -> *mut u8 {
		note(l.size());
		if l.size() > REFUSE_ABOVE {
			refuse(l.size());
			return std::ptr::null_mut();
		}
		live_add(l.size());
		System.alloc_zeroed(l)
	}
	unsafe fn dealloc(&self, p: *mut u8, l: Layout) {
		live_sub(l.size());
		System.dealloc(p, l)
	}
	unsafe fn realloc(&self, p: *mut u8, l: Layout, new_size: usize) -> *mut u8 {
		note(new_size);
		if new_size > REFUSE_ABOVE {
			refuse(new_size);
			return std::ptr::null_mut();
		}
		if new_size >= l.size() {
			live_add(new_size - l.size());
		} else {
			live_sub(l.size() - new_size);
		}
		System.realloc(p, l, new_size)
	}
}

#[global_allocator]
static GLOBAL: Counting = Counting;

static HEARTBEAT: AtomicU64 = AtomicU64::new(0);
/// where the segment size sweep is (for the watchdog): leaves, height, idx, variant, claimed size, bitmap, function
static SWEEP_AT: [AtomicU64; 7] = [AtomicU64::new(0), AtomicU64::new(0), AtomicU64::new(0), AtomicU64::new(0), AtomicU64::new(0), AtomicU64::new(0), AtomicU64::new(0)];

/// live peak (above the level at the start) of the last `measured` call
static LAST_PEAK: AtomicUsize = AtomicUsize::new(0);

/// run `f` under `catch_unwind`, returning its result and the largest allocation request it made
/// (the live peak above the starting level is left in `LAST_PEAK`)
fn measured<R, F: FnOnce() -> R + std::panic::UnwindSafe>(f: F) -> (Result<R, String>, usize) {
	HEARTBEAT.fetch_add(1, Ordering::Relaxed);
	MAX_REQ.store(0, Ordering::Relaxed);
	let base = LIVE.load(Ordering::Relaxed);
	PEAK.store(base, Ordering::Relaxed);
	let r = catch(f);
	let m = MAX_REQ.load(Ordering::Relaxed);
	LAST_PEAK.store(PEAK.load(Ordering::Relaxed).saturating_sub(base), Ordering::Relaxed);
	(r, m)
}

// ---------------------------------------------------------------------------------------------

const VERSIONS: [u32; 4] = [1, 2, 3, 1000];

#[derive(Default)]
struct DStat {
	cases: u64,
	ok: u64,
	err: u64,
	panic: u64,
	max_ratio_milli: u64,
	max_req: usize,
	kinds: BTreeMap<String, u64>,
}

struct Ctx {
	out: Out,
	rng: Rng,
	thorough: bool,
	stats: BTreeMap<String, DStat>,
	oracle_fails: u64,
	resize_cases: BTreeMap<String, u64>,
}

fn err_name(e: &ser::Error) -> String {
	match e {
		ser::Error::IOErr(_, _) => "IOErr".to_string(),
		ser::Error::UnexpectedData { .. } => "UnexpectedData".to_string(),
		ser::Error::CorruptedData => "CorruptedData".to_string(),
		ser::Error::CountError => "CountError".to_string(),
		ser::Error::TooLargeReadErr => "TooLargeReadErr".to_string(),
		ser::Error::SortError => "SortError".to_string(),
		ser::Error::DuplicateError => "DuplicateError".to_string(),
		ser::Error::InvalidBlockVersion => "InvalidBlockVersion".to_string(),
		ser::Error::UnsupportedProtocolVersion => "UnsupportedProtocolVersion".to_string(),
		_ => "Other".to_string(),
	}
}

/// outcome of one real decode: class text (without maxreq), largest request
enum Out1 {
	Ok(usize, String),
	Err(String),
	Panic(String),
}

fn read_with<T: Readable>(buf: bool, bytes: &[u8], ver: u32) -> (Result<Result<(T, usize), ser::Error>, String>, usize) {
	if buf {
		let mut b = bytes::Bytes::copy_from_slice(bytes);
		measured(move || {
			let mut rdr = BufReader::new(&mut b, ProtocolVersion(ver));
			let r = T::read(&mut rdr);
			let n = rdr.bytes_read() as usize;
			r.map(|v| (v, n))
		})
	} else {
		let owned = bytes.to_vec();
		measured(move || {
			let mut slice = &owned[..];
			let r = ser::deserialize::<T, _>(&mut slice, ProtocolVersion(ver), DeserializationMode::default());
			let n = owned.len() - slice.len();
			r.map(|v| (v, n))
		})
	}
}

fn classify<T, F: Fn(&T) -> String>(r: Result<Result<(T, usize), ser::Error>, String>, canon: F) -> Out1 {
	match r {
		Ok(Ok((v, n))) => Out1::Ok(n, canon(&v)),
		Ok(Err(e)) => Out1::Err(err_name(&e)),
		Err(p) => Out1::Panic(p),
	}
}

fn canon_w<T: Writeable>(ver: u32) -> impl Fn(&T) -> String {
	move |v: &T| match ser::ser_vec(v, ProtocolVersion(ver)) {
		Ok(b) => hex(&b),
		Err(_) => "E".to_string(),
	}
}

impl Ctx {
	/// record one case; `known_defective` = the model predicts the panics of this decoder, so a panic
	/// is left to the driver's comparison instead of being an oracle failure here
	fn emit(&mut self, lhs: &str, dname: &str, len: usize, k: usize, o: Out1, maxreq: usize, known_defective: bool) {
		let st = self.stats.entry(dname.to_string()).or_default();
		st.cases += 1;
		st.max_req = st.max_req.max(maxreq);
		let ratio = (maxreq as u64 * 1000) / (len.max(1) as u64);
		st.max_ratio_milli = st.max_ratio_milli.max(ratio);
		let rhs = match &o {
			Out1::Ok(n, c) => {
				st.ok += 1;
				if c.is_empty() {
					format!("ok {}", maxreq)
				} else {
					format!("ok {} {} {}", n, c, maxreq)
				}
			}
			Out1::Err(e) => {
				st.err += 1;
				*st.kinds.entry(e.clone()).or_insert(0) += 1;
				if e.is_empty() {
					format!("err {}", maxreq)
				} else {
					format!("err {} {}", e, maxreq)
				}
			}
			Out1::Panic(_) => {
				st.panic += 1;
				format!("panic {}", maxreq)
			}
		};
		if let Out1::Panic(msg) = &o {
			if !known_defective {
				self.oracle_fails += 1;
				self.out.raw(&format!("#ORACLE-FAIL C11 panic in {} ({}): {}", dname, msg.replace('\n', " "), lhs));
			}
		}
		if maxreq > 16 * len + k && !known_defective {
			self.oracle_fails += 1;
			self.out.raw(&format!(
				"#ORACLE-FAIL C11 over-allocation in {}: request {} > 16*{}+{}: {}",
				dname, maxreq, len, k, lhs
			));
		}
		self.out.line(lhs, &rhs);
	}

	fn dec<T: Readable, F: Fn(&T) -> String>(&mut self, d: &str, buf: bool, ver: u32, bytes: &[u8], k: usize, canon: F, known_defective: bool) {
		let (r, maxreq) = read_with::<T>(buf, bytes, ver);
		let o = classify(r, canon);
		let lhs = format!("codec dec {} {} {} {}", d, if buf { "buf" } else { "bin" }, ver, hex(bytes));
		self.emit(&lhs, d, bytes.len(), k, o, maxreq, known_defective);
	}

	/// decoders modelled by other domains: only no-panic and the allocation bound
	fn bound<T: Readable>(&mut self, d: &str, ver: u32, bytes: &[u8], k: usize) {
		let (r, maxreq) = read_with::<T>(true, bytes, ver);
		let o = match r {
			Ok(Ok(_)) => Out1::Ok(0, String::new()),
			Ok(Err(_)) => Out1::Err(String::new()),
			Err(p) => Out1::Panic(p),
		};
		if let Out1::Panic(msg) = &o {
			self.oracle_fails += 1;
			self.out.raw(&format!("#ORACLE-FAIL C11 panic in {} ver {} ({}): input {}", d, ver, msg.replace('\n', " "), hex(bytes)));
		}
		if maxreq > 16 * bytes.len() + k {
			self.oracle_fails += 1;
			self.out.raw(&format!(
				"#ORACLE-FAIL C11 over-allocation in {} ver {}: request {} > 16*{}+{}: input {}",
				d, ver, maxreq, bytes.len(), k, hex(bytes)
			));
		}
		let lhs = format!("codec bound {}@{} {} {}", d, ver, k, bytes.len());
		// `emit` would re-check; record stats and the line directly
		let st = self.stats.entry(d.to_string()).or_default();
		st.cases += 1;
		st.max_req = st.max_req.max(maxreq);
		let ratio = (maxreq as u64 * 1000) / (bytes.len().max(1) as u64);
		st.max_ratio_milli = st.max_ratio_milli.max(ratio);
		let rhs = match o {
			Out1::Ok(..) => {
				st.ok += 1;
				format!("ok {}", maxreq)
			}
			Out1::Err(_) => {
				st.err += 1;
				format!("err {}", maxreq)
			}
			Out1::Panic(_) => {
				st.panic += 1;
				format!("panic {}", maxreq)
			}
		};
		self.out.line(&lhs, &rhs);
	}
}

// ---------------------------------------------------------------------------------------------
// mutation engine

const BOUNDARY: [u64; 8] = [0, 1, u64::MAX, 1 << 32, 1 << 63, u64::MAX - 1, 0xffff_ffff, 0x1_0000_0000 - 2];

/// offsets to mutate: all of them for short inputs (or `dense`), otherwise the first 24 (tags and
/// counts live there) plus an even sample of the rest
fn offsets(n: usize, dense: bool) -> Vec<usize> {
	if (dense && n <= 160) || n <= 40 {
		return (0..n).collect();
	}
	let mut v: Vec<usize> = (0..24).collect();
	let step = (n - 24) / 24 + 1;
	let mut i = 24;
	while i < n {
		v.push(i);
		i += step;
	}
	if *v.last().unwrap() != n - 1 {
		v.push(n - 1);
	}
	v
}

/// structure-aware mutations of a valid encoding: truncation at every (sampled) offset, bytes swept
/// over tag values, every u64/u32/u16/u8 window set to boundary and huge values (`caps` = limits of
/// the type's count fields, tried as max-1, max, max+1), splices with `other`
fn mutations(rng: &mut Rng, base: &[u8], caps: &[u64], other: &[u8], dense: bool) -> Vec<Vec<u8>> {
	let mut v: Vec<Vec<u8>> = vec![base.to_vec()];
	let n = base.len();
	let offs = offsets(n, dense);
	// truncations
	for &i in &offs {
		v.push(base[..i].to_vec());
	}
	// tag sweeps
	let tags: &[u8] = if dense { &[0u8, 1, 2, 3, 4, 0x7f, 0x80, 0xff] } else { &[0u8, 1, 2, 3, 0xff] };
	for &i in &offs {
		for &t in tags {
			if base[i] != t {
				let mut m = base.to_vec();
				m[i] = t;
				v.push(m);
			}
		}
	}
	// length / count fields
	let mut vals: Vec<u64> = if dense { BOUNDARY.to_vec() } else { BOUNDARY[..5].to_vec() };
	for c in caps {
		vals.push(c.wrapping_sub(1));
		vals.push(*c);
		vals.push(c.wrapping_add(1));
	}
	for &i in &offs {
		for w in [8usize, 4, 2, 1] {
			if i + w <= n {
				for val in &vals {
					let be = val.to_be_bytes();
					let mut m = base.to_vec();
					m[i..i + w].copy_from_slice(&be[8 - w..]);
					if m != base {
						v.push(m);
					}
				}
			}
		}
	}
	// splices
	for _ in 0..6 {
		if !other.is_empty() && n > 0 {
			let a = rng.below(n as u64 + 1) as usize;
			let b = rng.below(other.len() as u64 + 1) as usize;
			let mut m = base[..a].to_vec();
			m.extend_from_slice(&other[b..]);
			v.push(m);
		}
	}
	// appended junk
	let mut m = base.to_vec();
	m.extend_from_slice(&rng.bytes(9));
	v.push(m);
	v
}

fn random_inputs(rng: &mut Rng, count: usize, maxlen: u64) -> Vec<Vec<u8>> {
	(0..count)
		.map(|_| {
			let l = rng.below(maxlen + 1) as usize;
			let mut b = rng.bytes(l);
			// bias the leading bytes towards small values so that tags / counts are often plausible
			if rng.chance(1, 2) {
				for x in b.iter_mut().take(12) {
					if rng.chance(2, 3) {
						*x = (rng.below(4)) as u8;
					}
				}
			}
			b
		})
		.collect()
}

// ---------------------------------------------------------------------------------------------
// value generators

fn hash32(rng: &mut Rng) -> Hash {
	Hash::from_vec(&rng.bytes(32))
}

fn pick_u64(rng: &mut Rng) -> u64 {
	match rng.below(6) {
		0 => 0,
		1 => 1,
		2 => u64::MAX,
		3 => rng.below(1 << 20),
		_ => rng.next(),
	}
}

fn gen_addr(rng: &mut Rng) -> PeerAddr {
	use std::net::{IpAddr, Ipv4Addr, Ipv6Addr, SocketAddr};
	let port = pick_u64(rng) as u16;
	if rng.chance(1, 2) {
		let b = rng.bytes(4);
		PeerAddr(SocketAddr::new(IpAddr::V4(Ipv4Addr::new(b[0], b[1], b[2], b[3])), port))
	} else {
		let mut s = [0u16; 8];
		let mode = rng.below(5);
		for (i, x) in s.iter_mut().enumerate() {
			*x = match mode {
				0 => rng.next() as u16,
				1 => {
					if i < 6 {
						0
					} else {
						rng.next() as u16
					}
				} // ::a.b.c.d
				2 => {
					if i < 5 {
						0
					} else if i == 5 {
						0xffff
					} else {
						rng.next() as u16
					}
				} // ::ffff:a.b.c.d
				3 => {
					if i == 7 {
						1
					} else {
						0
					}
				} // ::1
				_ => {
					if i == 0 {
						0x2001
					} else {
						rng.below(3) as u16
					}
				}
			};
		}
		PeerAddr(SocketAddr::new(
			IpAddr::V6(Ipv6Addr::new(s[0], s[1], s[2], s[3], s[4], s[5], s[6], s[7])),
			port,
		))
	}
}

fn gen_agent(rng: &mut Rng) -> String {
	match rng.below(4) {
		0 => String::new(),
		1 => "MW/Grin 5.4.0".to_string(),
		2 => "grïn/€/𝔾 5".to_string(),
		_ => (0..rng.below(40)).map(|_| (b'a' + rng.below(26) as u8) as char).collect(),
	}
}

fn sv<T: Writeable>(v: &T, ver: u32) -> Vec<u8> {
	ser::ser_vec(v, ProtocolVersion(ver)).unwrap()
}

fn be64(x: u64) -> [u8; 8] {
	x.to_be_bytes()
}

/// wire bytes of a `Segment<T>` with the given leaf encodings (positions strictly increasing)
fn gen_segment_bytes(rng: &mut Rng, leaf: &dyn Fn(&mut Rng) -> Vec<u8>) -> Vec<u8> {
	let mut b = vec![rng.below(14) as u8];
	b.extend_from_slice(&be64(rng.below(1 << 20)));
	let nh = rng.below(5);
	b.extend_from_slice(&be64(nh));
	let mut p = 0u64;
	for _ in 0..nh {
		p += 1 + rng.below(9);
		b.extend_from_slice(&be64(p));
	}
	for _ in 0..nh {
		b.extend_from_slice(&rng.bytes(32));
	}
	let nl = rng.below(5);
	b.extend_from_slice(&be64(nl));
	let mut p = 0u64;
	for _ in 0..nl {
		p += 1 + rng.below(9);
		b.extend_from_slice(&be64(p));
	}
	for _ in 0..nl {
		b.extend_from_slice(&leaf(rng));
	}
	let np = rng.below(5);
	b.extend_from_slice(&be64(np));
	for _ in 0..np {
		b.extend_from_slice(&rng.bytes(32));
	}
	b
}

fn gen_kernel_bytes(rng: &mut Rng, ver: u32) -> Vec<u8> {
	let fee = {
		let raw = (rng.below(1 << 30) + 1).to_be_bytes();
		ser::deserialize::<grin_core::core::FeeFields, _>(&mut &raw[..], ProtocolVersion(1), DeserializationMode::default()).unwrap()
	};
	let features = match rng.below(3) {
		0 => KernelFeatures::Plain { fee },
		1 => KernelFeatures::Coinbase,
		_ => KernelFeatures::HeightLocked {
			fee,
			lock_height: pick_u64(rng),
		},
	};
	let mut k = TxKernel::with_features(features);
	k.excess = grin_util::secp::pedersen::Commitment::from_vec(rng.bytes(33));
	sv(&k, ver)
}

// ---------------------------------------------------------------------------------------------
// the streams

fn budget(cx: &Ctx, quick: usize, thorough: usize) -> usize {
	if cx.thorough {
		thorough
	} else {
		quick
	}
}

/// one native decoder: valid samples × mutations, then random bytes, with both readers
fn stream<T: Readable + Writeable>(
	cx: &mut Ctx,
	d: &str,
	k: usize,
	caps: &[u64],
	gen: &dyn Fn(&mut Rng, u32) -> Vec<u8>,
	samples: usize,
	randoms: usize,
) {
	let other = {
		let mut r = Rng::new(cx.rng.next());
		let mut o = r.bytes(40);
		o[0] = 0;
		o
	};
	for s in 0..samples {
		let ver = VERSIONS[s % 4];
		let mut r = Rng::new(cx.rng.next());
		let base = gen(&mut r, ver);
		let ms = mutations(&mut r, &base, caps, &other, cx.thorough);
		for (i, m) in ms.iter().enumerate() {
			let buf = (i + s) % 2 == 0;
			cx.dec::<T, _>(d, buf, ver, m, k, canon_w::<T>(ver), false);
			if i == 0 {
				cx.dec::<T, _>(d, !buf, ver, m, k, canon_w::<T>(ver), false);
			}
		}
	}
	let mut r = Rng::new(cx.rng.next());
	for (i, m) in random_inputs(&mut r, randoms, 120).iter().enumerate() {
		cx.dec::<T, _>(d, i % 2 == 0, VERSIONS[i % 4], m, k, canon_w::<T>(VERSIONS[i % 4]), false);
	}
}

fn hdr_stream(cx: &mut Ctx) {
	let nets: [(&str, ChainTypes, [u8; 2]); 3] = [
		("A", ChainTypes::AutomatedTesting, [73, 43]),
		("M", ChainTypes::Mainnet, [97, 61]),
		("T", ChainTypes::Testnet, [83, 59]),
	];
	for (tag, ct, magic) in nets.iter() {
		global::set_local_chain_type(*ct);
		let mbw: u64 = global::max_block_weight();
		let mbs = mbw / 21 * 708;
		let d = format!("hdr:{}", tag);
		let canon = |h: &MsgHeaderWrapper| match h {
			MsgHeaderWrapper::Known(h) => format!("known:{}:{}", h.msg_type as u8, h.msg_len),
			MsgHeaderWrapper::Unknown(len, t) => format!("unknown:{}:{}", len, t),
		};
		// every type byte × boundary lengths around every plausible limit
		let mut lens: Vec<u64> = vec![0, 1, 2, 10, 11, 12, 63, 64, 65, 511, 512, 513, u64::MAX, 1 << 63, 1 << 32];
		for base in [16u64, 4, 128, 88, 32, 40, 41, 64, 365, 4 + 19 * 256, 1 + 32 * 20, 2 + 365 * 512, mbs, mbs / 10, 2 * mbs] {
			for f in [1u64, 4] {
				let l = base * f;
				lens.push(l.wrapping_sub(1));
				lens.push(l);
				lens.push(l + 1);
			}
		}
		for t in 0..=255u8 {
			let tl: Vec<u64> = if t <= 30 || t == 255 || cx.thorough { lens.clone() } else { vec![0, 4 * mbs, 4 * mbs + 1] };
			for l in tl {
				let mut b = vec![magic[0], magic[1], t];
				b.extend_from_slice(&be64(l));
				cx.dec::<MsgHeaderWrapper, _>(&d, (t as u64 + l) % 2 == 0, 1 + (t as u32 % 3), &b, 256, canon, false);
			}
		}
		// wrong magic, truncation, junk
		let mut good = vec![magic[0], magic[1], 3];
		good.extend_from_slice(&be64(16));
		let mut r = Rng::new(cx.rng.next());
		for m in mutations(&mut r, &good, &[64, 65], &[1, 2, 3], cx.thorough) {
			cx.dec::<MsgHeaderWrapper, _>(&d, m.len() % 2 == 0, 1000, &m, 256, canon, false);
		}
		for m in random_inputs(&mut r, 200, 14) {
			cx.dec::<MsgHeaderWrapper, _>(&d, false, 2, &m, 256, canon, false);
		}
	}
	global::set_local_chain_type(ChainTypes::AutomatedTesting);
}

fn native_streams(cx: &mut Ctx) {
	let s = budget(cx, 2, 6);
	let rn = budget(cx, 150, 800);
	stream::<Hand>(cx, "hand", 100_000 + 4096, &[100_000], &|r, _| {
		sv(
			&Hand {
				version: ProtocolVersion(*r.pick(&[1u32, 2, 3, 1000, u32::MAX])),
				capabilities: Capabilities::from_bits_truncate(r.next() as u32),
				nonce: pick_u64(r),
				genesis: hash32(r),
				total_difficulty: Difficulty::from_num(pick_u64(r)),
				sender_addr: gen_addr(r),
				receiver_addr: gen_addr(r),
				user_agent: gen_agent(r),
			},
			1,
		)
	}, s, rn);
	stream::<Shake>(cx, "shake", 100_000 + 4096, &[100_000], &|r, _| {
		sv(
			&Shake {
				version: ProtocolVersion(*r.pick(&[1u32, 2, 3, 1000, 0])),
				capabilities: Capabilities::from_bits_truncate(r.next() as u32),
				genesis: hash32(r),
				total_difficulty: Difficulty::from_num(pick_u64(r)),
				user_agent: gen_agent(r),
			},
			1,
		)
	}, s, rn);
	stream::<PeerAddr>(cx, "peeraddr", 4096, &[], &|r, _| sv(&gen_addr(r), 1), budget(cx, 4, 12), rn);
	stream::<PeerError>(cx, "peererror", 100_000 + 4096, &[100_000], &|r, _| {
		sv(
			&PeerError {
				code: r.next() as u32,
				message: gen_agent(r),
			},
			1,
		)
	}, s, rn);
	stream::<SegmentIdentifier>(cx, "segid", 4096, &[], &|r, _| {
		sv(
			&SegmentIdentifier {
				height: r.next() as u8,
				idx: pick_u64(r),
			},
			1,
		)
	}, s, rn);
	// bodies, by message type byte
	stream::<Ping>(cx, "body:3", 4096, &[], &|r, _| {
		sv(&Ping { total_difficulty: Difficulty::from_num(pick_u64(r)), height: pick_u64(r) }, 1)
	}, s, rn);
	stream::<Pong>(cx, "body:4", 4096, &[], &|r, _| {
		sv(&Pong { total_difficulty: Difficulty::from_num(pick_u64(r)), height: pick_u64(r) }, 1)
	}, s, rn);
	stream::<GetPeerAddrs>(cx, "body:5", 4096, &[], &|r, _| {
		sv(&GetPeerAddrs { capabilities: Capabilities::from_bits_truncate(r.next() as u32) }, 1)
	}, s, rn);
	stream::<PeerAddrs>(cx, "body:6", 8192 + 4096, &[256], &|r, _| {
		let n = *r.pick(&[0usize, 1, 2, 5, 17]);
		sv(&PeerAddrs { peers: (0..n).map(|_| gen_addr(r)).collect() }, 1)
	}, budget(cx, 3, 8), rn);
	stream::<Locator>(cx, "body:7", 4096, &[20], &|r, _| {
		let n = *r.pick(&[0usize, 1, 2, 19, 20]);
		sv(&Locator { hashes: (0..n).map(|_| hash32(r)).collect() }, 1)
	}, s, rn);
	for t in [10u8, 12, 19, 20] {
		stream::<Hash>(cx, &format!("body:{}", t), 4096, &[], &|r, _| sv(&hash32(r), 1), 1, rn / 4);
	}
	stream::<TxHashSetRequest>(cx, "body:16", 4096, &[], &|r, _| {
		sv(&TxHashSetRequest { hash: hash32(r), height: pick_u64(r) }, 1)
	}, s, rn);
	stream::<TxHashSetArchive>(cx, "body:17", 4096, &[], &|r, _| {
		sv(&TxHashSetArchive { hash: hash32(r), height: pick_u64(r), bytes: pick_u64(r) }, 1)
	}, s, rn);
	stream::<BanReason>(cx, "body:18", 4096, &[7], &|r, _| {
		let reasons = [
			ReasonForBan::None,
			ReasonForBan::BadBlock,
			ReasonForBan::BadCompactBlock,
			ReasonForBan::BadBlockHeader,
			ReasonForBan::BadTxHashSet,
			ReasonForBan::ManualBan,
			ReasonForBan::FraudHeight,
			ReasonForBan::BadHandshake,
		];
		sv(&BanReason { ban_reason: *r.pick(&reasons) }, 1)
	}, s, rn);
	for t in [21u8, 23, 25, 27] {
		stream::<SegmentRequest>(cx, &format!("body:{}", t), 4096, &[], &|r, _| {
			sv(
				&SegmentRequest {
					block_hash: hash32(r),
					identifier: SegmentIdentifier { height: r.next() as u8, idx: pick_u64(r) },
				},
				1,
			)
		}, 1, rn / 4);
	}
}

/// structurally valid Hand / Shake / PeerError encodings whose string field is made of multi-byte UTF-8:
/// the first `len` bytes of (`prefix` ASCII bytes, then a 1-, 2-, 3- or 4-byte character repeated), for
/// every length and every prefix 0..3 — so every byte offset of the string lies, in some input, inside
/// a multi-byte character, and the string ends inside one whenever `(len - prefix) % k != 0`.
/// A value or an error, never a panic.
fn utf8_string_streams(cx: &mut Ctx) {
	let agent = |k: usize, prefix: usize, len: usize| -> Vec<u8> {
		let ch: &str = ["a", "é", "€", "😀"][k - 1];
		let mut b: Vec<u8> = vec![b'x'; prefix];
		while b.len() < len + 4 {
			b.extend_from_slice(ch.as_bytes());
		}
		b.truncate(len);
		b
	};
	let mut r = Rng::new(cx.rng.next());
	let hand0 = sv(
		&Hand {
			version: ProtocolVersion(3),
			capabilities: Capabilities::from_bits_truncate(15),
			nonce: 4711,
			genesis: hash32(&mut r),
			total_difficulty: Difficulty::from_num(5),
			sender_addr: gen_addr(&mut r),
			receiver_addr: gen_addr(&mut r),
			user_agent: String::new(),
		},
		1,
	);
	let shake0 = sv(&Shake { version: ProtocolVersion(2), capabilities: Capabilities::from_bits_truncate(15), genesis: hash32(&mut r), total_difficulty: Difficulty::from_num(5), user_agent: String::new() }, 1);
	let err0 = sv(&PeerError { code: 7, message: String::new() }, 1);
	// where the 8-byte length prefix of the (empty) string sits, counted from the end
	let splice = |base: &[u8], tail: usize, s: &[u8]| -> Vec<u8> {
		let at = base.len() - tail - 8;
		let mut b = base[..at].to_vec();
		b.extend_from_slice(&(s.len() as u64).to_be_bytes());
		b.extend_from_slice(s);
		b.extend_from_slice(&base[base.len() - tail..]);
		b
	};
	let dense = if cx.thorough { 140 } else { 72 };
	let mut lens: Vec<usize> = (0..=dense).collect();
	lens.extend_from_slice(&[255, 256, 257, 258, 259, 260, 511, 512, 513, 1023, 1024, 1025, 4095, 4096, 4097, 4098, 4099]);
	let mut n = 0usize;
	for &len in &lens {
		for k in 1..=4usize {
			for prefix in 0..4usize {
				if prefix > len {
					continue;
				}
				let ua = agent(k, prefix, len);
				n += 1;
				let ver = VERSIONS[n % 4];
				let buf = n % 2 == 0;
				cx.dec::<Hand, _>("hand", buf, ver, &splice(&hand0, 32, &ua), 100_000 + 4096, canon_w::<Hand>(ver), false);
				cx.dec::<Shake, _>("shake", !buf, ver, &splice(&shake0, 32, &ua), 100_000 + 4096, canon_w::<Shake>(ver), false);
				cx.dec::<PeerError, _>("peererror", buf, ver, &splice(&err0, 0, &ua), 100_000 + 4096, canon_w::<PeerError>(ver), false);
				// the announced length one more / one less than the bytes of the string (cuts the last character
				// or takes a byte of what follows into the string)
				if len > 0 && len <= dense && prefix == len % 4 {
					let mut b = splice(&hand0, 32, &ua);
					let at = hand0.len() - 32 - 8;
					b[at..at + 8].copy_from_slice(&((len - 1) as u64).to_be_bytes());
					cx.dec::<Hand, _>("hand", buf, ver, &b, 100_000 + 4096, canon_w::<Hand>(ver), false);
					b[at..at + 8].copy_from_slice(&((len + 1) as u64).to_be_bytes());
					cx.dec::<Hand, _>("hand", !buf, ver, &b, 100_000 + 4096, canon_w::<Hand>(ver), false);
				}
			}
		}
	}
	cx.out.raw(&format!("#STAT utf8 strings: {} (length, character width 1..4, ASCII prefix 0..3) combinations x Hand / Shake / PeerError, lengths 0..={} and around 256, 512, 1024, 4096", n, dense));
}

// ---------------------------------------------------------------------------------------------
// stateless segment checks against EVERY claimed MMR size, valid or not

/// Genuine segments cut from MMRs of 1..N leaves at heights 0..3 (after a wire round trip) and
/// mutated-but-decodable ones are validated against every claimed `mmr_size` from 0 to the true size + 8 —
/// sizes that are no valid MMR size (2, 5, 6, 9, 12, 13 …: `pmmr::peaks` answers an empty vector for them)
/// as well as valid ones —, without a bitmap and with full / sparse / empty bitmaps: `Segment::root`,
/// `first_unpruned_parent`, `validate`, `validate_with`, and on the proof directly
/// `SegmentProof::reconstruct_root` / `validate` / `validate_with` with the segment's own range, the true
/// range and ranges beyond the last peak.  A header's `output_mmr_size` / `kernel_mmr_size` is chosen by
/// whoever mined it, so each of these sizes can reach the checks.  A value or an error, never a panic or a hang.
fn segment_size_sweep(cx: &mut Ctx) {
	let maxn: u64 = if cx.thorough { 40 } else { 20 };
	let mut rng = Rng::new(cx.rng.next());
	let mut ba = VecBackend::<Elem>::new();
	let mut size = 0u64;
	let mut calls = 0u64;
	let mut outcomes: BTreeMap<String, u64> = BTreeMap::new();
	let mut invalid_sizes_hit = std::collections::BTreeSet::new();
	for _n in 1..=maxn {
		let e = Elem(rng.bytes(8));
		let mut pm = PMMR::at(&mut ba, size);
		pm.push(&e).unwrap();
		size = pm.size;
		let root = pm.root().unwrap();
		let mmr = ReadonlyPMMR::<Elem, _>::at(&ba, size);
		let n_leaves = pmmr::n_leaves(size);
		// bitmaps over the leaf indices: all, every third, none
		let full: Bitmap = (0..n_leaves as u32).collect();
		let sparse: Bitmap = (0..n_leaves as u32).filter(|i| i % 3 == 0).collect();
		let empty = Bitmap::new();
		let bitmaps: [Option<&Bitmap>; 4] = [None, Some(&full), Some(&sparse), Some(&empty)];
		let other_root = Hash::from_vec(&rng.bytes(32));
		for height in 0..=3u8 {
			let cap = 1u64 << height;
			let nseg = (n_leaves + cap - 1) / cap;
			for idx in 0..nseg {
				let id = SegmentIdentifier { height, idx };
				let genuine = match Segment::<Elem>::from_pmmr(id, &mmr, false) {
					Ok(s) => s,
					Err(_) => continue,
				};
				let bytes = sv(&genuine, 1);
				// the wire round trip, then mutated-but-decodable variants
				let mut variants: Vec<(Segment<Elem>, Vec<u8>)> = vec![];
				if let Ok(s) = ser::deserialize::<Segment<Elem>, _>(&mut &bytes[..], ProtocolVersion(1), DeserializationMode::default()) {
					variants.push((s, bytes.clone()));
				}
				let mut tries = 0;
				while variants.len() < 3 && tries < 30 {
					tries += 1;
					let mut b = bytes.clone();
					let i = rng.below(b.len() as u64) as usize;
					match rng.below(3) {
						0 => b[i] ^= 1 << rng.below(8),
						1 => b[i] = b[i].wrapping_add(1),
						_ => {
							// the identifier's index / a position field
							let j = 1 + 7 + 8 * rng.below(((b.len() - 9) / 8).max(1) as u64) as usize;
							if j < b.len() {
								b[j] = b[j].wrapping_add(1 + rng.below(4) as u8);
							}
						}
					}
					if b == bytes {
						continue;
					}
					if let Ok(Ok(s)) = catch(std::panic::AssertUnwindSafe(|| ser::deserialize::<Segment<Elem>, _>(&mut &b[..], ProtocolVersion(1), DeserializationMode::default()))) {
						variants.push((s, b));
					}
				}
				let (true_first, true_last) = id.segment_pos_range(size);
				for (vi, (seg, wire)) in variants.iter().enumerate() {
					for claimed in 0..=size + 8 {
						if pmmr::peaks(claimed).is_empty() && claimed > 0 {
							invalid_sizes_hit.insert(claimed);
						}
						for (bi, bm) in bitmaps.iter().enumerate() {
							let merged = {
								use grin_core::ser::PMMRIndexHashable;
								(root, other_root).hash_with_index(claimed)
							};
							for f in 0..4u64 {
								for (k, v) in [n_leaves, height as u64, idx, vi as u64, claimed, bi as u64, f].iter().enumerate() {
									SWEEP_AT[k].store(*v, Ordering::Relaxed);
								}
								calls += 1;
								let bm2 = *bm;
								let (r, maxreq) = measured(std::panic::AssertUnwindSafe(|| match f {
									0 => seg.root(claimed, bm2).map(|_| ()).map_err(|e| format!("{:?}", e)),
									1 => seg.first_unpruned_parent(claimed, bm2).map(|_| ()).map_err(|e| format!("{:?}", e)),
									2 => seg.validate(claimed, bm2, root).map_err(|e| format!("{:?}", e)),
									_ => seg.validate_with(claimed, bm2, merged, claimed, other_root, bi % 2 == 0).map_err(|e| format!("{:?}", e)),
								}));
								let fname = ["root", "first_unpruned_parent", "validate", "validate_with"][f as usize];
								match &r {
									Err(msg) => {
										cx.oracle_fails += 1;
										cx.out.raw(&format!(
											"#ORACLE-FAIL C11 segment-validate-panics-on-mmr-size Segment::{} panicked ({}): claimed mmr_size {} (valid MMR size: {}), true size {} ({} leaves), segment (height {}, idx {}) {} bitmap {} ; Segment<Elem> wire {}",
											fname, msg.replace('\n', " "), claimed, claimed == 0 || !pmmr::peaks(claimed).is_empty(), size, n_leaves, height, idx,
											if vi == 0 { "genuine" } else { "mutated" }, ["none", "all leaves", "every third leaf", "empty"][bi], hex(wire)
										));
									}
									Ok(res) => {
										let cl = match res {
											Ok(()) => "Ok".to_string(),
											Err(e) => e.chars().take_while(|c| c.is_alphanumeric()).collect::<String>(),
										};
										*outcomes.entry(format!("{} {} -> {}", fname, if vi == 0 { "genuine" } else { "mutated" }, cl)).or_insert(0) += 1;
										// the genuine segment against the true size and root is valid
										if vi == 0 && claimed == size && bi <= 1 && f == 2 && res.is_err() {
											cx.oracle_fails += 1;
											cx.out.raw(&format!("#ORACLE-FAIL C11 harness: the genuine segment (height {}, idx {}) of the MMR of size {} does not validate: {:?}", height, idx, size, res));
										}
									}
								}
								if maxreq > (1 << 20) {
									cx.oracle_fails += 1;
									cx.out.raw(&format!("#ORACLE-FAIL C11 segment-validate-over-allocates Segment::{} requested {} bytes: claimed mmr_size {} segment (height {}, idx {}) wire {}", fname, maxreq, claimed, height, idx, hex(wire)));
								}
							}
						}
						// the proof on its own: the identifier's range for the claimed size, the true range, ranges beyond the last peak
						let p: &SegmentProof = seg.proof();
						let (cf, cl) = id.segment_pos_range(claimed);
						let ranges = [(cf, cl), (true_first, true_last), (claimed, claimed + cap), (claimed.saturating_sub(1), claimed + 1), (true_last + 1, true_last + 2 * cap), (0, claimed.saturating_sub(1))];
						for (ri, (first, last)) in ranges.iter().enumerate() {
							for unpruned in [*first, last.wrapping_add(1), 0] {
								for f in 4..7u64 {
									for (k, v) in [n_leaves, height as u64, idx, vi as u64, claimed, ri as u64, f].iter().enumerate() {
										SWEEP_AT[k].store(*v, Ordering::Relaxed);
									}
									calls += 1;
									let (first, last) = (*first, *last);
									let (r, _) = measured(std::panic::AssertUnwindSafe(|| match f {
										4 => p.reconstruct_root(claimed, first, last, other_root, unpruned).map(|_| ()).map_err(|e| format!("{:?}", e)),
										5 => p.validate(claimed, root, first, last, other_root, unpruned).map_err(|e| format!("{:?}", e)),
										_ => p.validate_with(claimed, root, first, last, other_root, unpruned, claimed, other_root, ri % 2 == 0).map_err(|e| format!("{:?}", e)),
									}));
									let fname = ["reconstruct_root", "validate", "validate_with"][(f - 4) as usize];
									match &r {
										Err(msg) => {
											cx.oracle_fails += 1;
											cx.out.raw(&format!(
												"#ORACLE-FAIL C11 segment-validate-panics-on-mmr-size SegmentProof::{} panicked ({}): claimed last_pos / mmr_size {} (valid MMR size: {}), segment range {}..={}, unpruned pos {}, proof of {} hashes (from the segment (height {}, idx {}) of the MMR of size {}); Segment<Elem> wire {}",
												fname, msg.replace('\n', " "), claimed, claimed == 0 || !pmmr::peaks(claimed).is_empty(), first, last, unpruned, p.size(), height, idx, size, hex(wire)
											));
										}
										Ok(res) => {
											let cl = match res {
												Ok(()) => "Ok".to_string(),
												Err(e) => e.chars().take_while(|c| c.is_alphanumeric()).collect::<String>(),
											};
											*outcomes.entry(format!("SegmentProof::{} -> {}", fname, cl)).or_insert(0) += 1;
										}
									}
								}
							}
						}
					}
				}
			}
		}
	}
	for a in SWEEP_AT.iter() {
		a.store(0, Ordering::Relaxed);
	}
	for (k, v) in outcomes {
		cx.out.raw(&format!("#STAT segment size sweep: {}: {}", k, v));
	}
	cx.out.raw(&format!(
		"#STAT segment size sweep: {} calls, MMRs of 1..={} leaves, claimed sizes 0..=true+8; claimed sizes that are no valid MMR size: {:?}",
		calls, maxn, invalid_sizes_hit.iter().take(40).collect::<Vec<_>>()
	));
}

fn segment_streams(cx: &mut Ctx) {
	let s = budget(cx, 2, 5);
	let rn = budget(cx, 150, 800);
	let caps = [1_000_000u64, 1024];
	stream::<SegmentProof>(cx, "segproof", 32 * 1024 + 4096, &caps, &|r, _| {
		let n = r.below(6);
		let mut b = be64(n).to_vec();
		for _ in 0..n {
			b.extend_from_slice(&r.bytes(32));
		}
		b
	}, s, rn);
	stream::<Segment<OutputIdentifier>>(cx, "seg:outid", 81920 + 1024 * 40 + 4096, &caps, &|r, _| {
		gen_segment_bytes(r, &|r| {
			let mut b = vec![r.below(2) as u8];
			b.extend_from_slice(&r.bytes(33));
			b
		})
	}, s, rn);
	stream::<Segment<RangeProof>>(cx, "seg:rproof", 81920 + 1024 * 688 + 4096, &caps, &|r, _| {
		gen_segment_bytes(r, &|r| {
			let mut b = be64(675).to_vec();
			b.extend_from_slice(&r.bytes(675));
			b
		})
	}, budget(cx, 2, 3), rn);
	stream::<Segment<TxKernel>>(cx, "seg:kernel", 81920 + 1024 * 128 + 4096, &caps, &|r, ver| {
		gen_segment_bytes(r, &|r| gen_kernel_bytes(r, ver))
	}, s, rn);
}

/// `MerkleProof::read` (pre-allocation capped at 64 hashes since 28eb6068d): every path_len in-process
fn merkle_stream(cx: &mut Ctx) {
	let s = budget(cx, 3, 8);
	for i in 0..s {
		let mut r = Rng::new(cx.rng.next());
		let n = *r.pick(&[0usize, 1, 2, 7, 20, 64, 65]);
		let base = sv(&MerkleProof { mmr_size: pick_u64(&mut r), path: (0..n).map(|_| hash32(&mut r)).collect() }, 1);
		for (j, m) in mutations(&mut r, &base, &[1 << 58, 1 << 16, 64], &[0; 40], cx.thorough).iter().enumerate() {
			cx.dec::<MerkleProof, _>("merkle", (i + j) % 2 == 0, 1, m, 4096, canon_w::<MerkleProof>(1), false);
		}
	}
	let mut r = Rng::new(cx.rng.next());
	for (j, m) in random_inputs(&mut r, budget(cx, 300, 1500), 100).iter().enumerate() {
		cx.dec::<MerkleProof, _>("merkle", j % 2 == 0, 1, m, 4096, canon_w::<MerkleProof>(1), false);
	}
}

/// `MerkleProof::verify` on decoded proofs (the stateless check a Merkle proof from hex / from the
/// wire goes through): genuine proofs of every leaf of MMRs of 1..N leaves after a wire round trip,
/// with the `mmr_size` field set to every value 0..true+8 (sizes that are no MMR size included) and
/// to huge values, the claimed position moved, the path shortened / lengthened, and long random
/// paths. Every call under `catch_unwind`, the allocation counter and the watchdog (this stream runs
/// in a child of its own: a stack overflow is an abort). Small cases are also `pmmr verify` lines,
/// recomputed by the PMMR model (the verdict is a spec value there).
fn merkle_verify_stream(cx: &mut Ctx) {
	let maxn: u64 = if cx.thorough { 40 } else { 22 };
	let mut rng = Rng::new(cx.rng.next());
	let mut ba = VecBackend::<Elem>::new();
	let mut size = 0u64;
	let mut elems: Vec<Elem> = vec![];
	let mut calls = 0u64;
	let mut outcomes: BTreeMap<String, u64> = BTreeMap::new();
	let mut worst_ratio = 0usize;
	let huge: [u64; 7] = [1 << 32, 1 << 62, (1 << 63) - 1, 1 << 63, u64::MAX - 2, u64::MAX - 1, u64::MAX];
	// one call: verdict or panic; oracle on panic and on memory
	let mut call = |cx: &mut Ctx, pr: &MerkleProof, root: Hash, el: &Elem, pos: u64, what: &str, line: bool, calls: &mut u64, outcomes: &mut BTreeMap<String, u64>, worst: &mut usize| {
		*calls += 1;
		let (p2, e2) = (pr.clone(), el.clone());
		let (r, maxreq) = measured(move || p2.verify(root, &e2, pos).is_ok());
		let peak = LAST_PEAK.load(Ordering::Relaxed);
		let input_len = 16 + 32 * pr.path.len();
		let verdict = match &r {
			Ok(v) => v.to_string(),
			Err(_) => "panic".to_string(),
		};
		*outcomes.entry(format!("{} -> {}", what, verdict)).or_insert(0) += 1;
		if let Err(m) = &r {
			cx.oracle_fails += 1;
			cx.out.raw(&format!(
				"#ORACLE-FAIL C11 merkleproof-verify-panics ({}) {}: proof {} claimed position {} root {} element {}",
				m.replace('\n', " "), what, hex(&sv(pr, 1)), pos, hex(root.as_bytes()), hex(&el.0)
			));
		}
		// the proof is cloned once per level of the recursion: anything above a small multiple of the
		// input per level is not explained by that
		let ratio = peak / input_len.max(1);
		if ratio > *worst {
			*worst = ratio;
		}
		if maxreq > 2 * input_len + 4096 {
			cx.oracle_fails += 1;
			cx.out.raw(&format!(
				"#ORACLE-FAIL C11 merkleproof-verify-over-allocates: single request of {} bytes for a proof of {} bytes ({}): proof {} claimed position {}",
				maxreq, input_len, what, hex(&sv(pr, 1)), pos
			));
		}
		if line {
			cx.out.line(
				&format!("pmmr verify {} {} {} {} {}", hex(root.as_bytes()), pr.mmr_size, hex_list(&pr.path.iter().map(|h| h.as_bytes().to_vec()).collect::<Vec<_>>()), hex(&el.0), pos),
				&verdict,
			);
		}
	};
	for n in 1..=maxn {
		let e = Elem(rng.bytes(8));
		let mut pm = PMMR::at(&mut ba, size);
		if pm.push(&e).is_err() {
			break;
		}
		size = pm.size;
		let root = match pm.root() {
			Ok(r) => r,
			Err(_) => break,
		};
		elems.push(e);
		let other_root = Hash::from_vec(&rng.bytes(32));
		let mmr = ReadonlyPMMR::<Elem, _>::at(&ba, size);
		for i in 0..n {
			let pos = pmmr::insertion_to_pmmr_index(i);
			let genuine = match mmr.merkle_proof(pos) {
				Ok(p) => p,
				Err(_) => continue,
			};
			// what arrives: the proof after its wire form
			let pr = match ser::deserialize::<MerkleProof, _>(&mut &sv(&genuine, 1)[..], ProtocolVersion(1), DeserializationMode::default()) {
				Ok(p) => p,
				Err(_) => continue,
			};
			let el = &elems[i as usize];
			// the honest call must accept
			let ok = catch(std::panic::AssertUnwindSafe(|| pr.verify(root, el, pos).is_ok())).unwrap_or(false);
			if !ok {
				cx.oracle_fails += 1;
				cx.out.raw(&format!("#ORACLE-FAIL C11 merkleproof-verify honest proof refused after the wire round trip: proof {} position {}", hex(&sv(&pr, 1)), pos));
			}
			// every claimed size, valid or not, x claimed positions
			let positions = [pos, 0, pos + 1, size.saturating_sub(1), size, size + 1];
			for s in 0..=size + 8 {
				let mut q = pr.clone();
				q.mmr_size = s;
				for (k, p2) in positions.iter().enumerate() {
					let line = (calls + k as u64) % 7 == 0 || s == size;
					call(cx, &q, root, el, *p2, if s == size { "true size" } else { "claimed size" }, line && k < 3, &mut calls, &mut outcomes, &mut worst_ratio);
				}
				call(cx, &q, other_root, el, pos, "other root", false, &mut calls, &mut outcomes, &mut worst_ratio);
			}
			// huge sizes and positions (release arithmetic inside pmmr::family / peaks): oracle only
			if i % 3 == 0 || n < 6 {
				for s in huge.iter() {
					let mut q = pr.clone();
					q.mmr_size = *s;
					for p2 in [pos, size, 1 << 32, (1 << 63) - 1, 1 << 63, u64::MAX - 1, u64::MAX].iter() {
						call(cx, &q, root, el, *p2, "huge size/position", false, &mut calls, &mut outcomes, &mut worst_ratio);
					}
				}
				for p2 in huge.iter() {
					call(cx, &pr, root, el, *p2, "huge position", false, &mut calls, &mut outcomes, &mut worst_ratio);
				}
			}
			// the path shortened / lengthened
			let mut variants: Vec<MerkleProof> = vec![];
			if !pr.path.is_empty() {
				let mut q = pr.clone();
				q.path.remove(0);
				variants.push(q);
				let mut q = pr.clone();
				q.path.pop();
				variants.push(q);
				let mut q = pr.clone();
				q.path.insert(0, pr.path[0]);
				variants.push(q);
			}
			let mut q = pr.clone();
			q.path.push(root);
			variants.push(q);
			let mut q = pr.clone();
			for _ in 0..rng.range(1, 70) {
				q.path.push(Hash::from_vec(&rng.bytes(32)));
			}
			variants.push(q);
			let mut q = pr.clone();
			q.path.clear();
			variants.push(q);
			for (k, q) in variants.iter().enumerate() {
				for p2 in [pos, 0, size].iter() {
					call(cx, q, root, el, *p2, "path length", k < 4 && q.path.len() < 12, &mut calls, &mut outcomes, &mut worst_ratio);
				}
			}
		}
	}
	// long paths: the recursion is one level per path hash and every level clones what is left
	let lens: &[usize] = if cx.thorough { &[0, 1, 2, 3, 5, 8, 13, 21, 34, 64, 65, 256, 1024, 2048, 4096] } else { &[0, 1, 2, 3, 5, 8, 13, 21, 34, 64, 65, 256, 1024, 2048] };
	let el = Elem(rng.bytes(8));
	for len in lens.iter() {
		// one peak, twenty peaks, no MMR size at all (no peaks), the largest size
		for s in [(1u64 << 20) - 1, 2 * ((1u64 << 20) - 1) - 20, (1u64 << 20) + 1, u64::MAX].iter() {
			let pr = MerkleProof { mmr_size: *s, path: (0..*len).map(|_| Hash::from_vec(&rng.bytes(32))).collect() };
			let root = Hash::from_vec(&rng.bytes(32));
			calls += 1;
			let (p2, e2) = (pr.clone(), el.clone());
			let (r, maxreq) = measured(move || p2.verify(root, &e2, 0).is_ok());
			let peak = LAST_PEAK.load(Ordering::Relaxed);
			let input_len = 16 + 32 * len;
			cx.out.raw(&format!(
				"#STAT merkle verify long path: {} hashes ({} bytes), mmr_size {} -> {}; largest request {} bytes, live peak {} bytes = {} x input",
				len, input_len, s,
				match &r { Ok(v) => v.to_string(), Err(m) => format!("PANIC {}", m.replace('\n', " ")) },
				maxreq, peak, peak / input_len
			));
			// the instrumented model says exactly how much is alive at the bottom of the recursion
			cx.out.line(&format!("ser mvlive {} {} {}", len, s, peak), "as-model");
			if r.is_err() {
				cx.oracle_fails += 1;
				cx.out.raw(&format!("#ORACLE-FAIL C11 merkleproof-verify-panics on a random path of {} hashes with mmr_size {}", len, s));
			}
			// repaired in /repo b3a89a045 (one clone of the path, not one per level): before that a
			// path of 2048 hashes (64 KB) held 67 MB
			if *len >= 256 {
				regress(
					cx,
					"merkleproof-verify-quadratic-memory",
					peak <= 2 * input_len + 8192,
					format!("MerkleProof::verify on a path of {} hashes ({} bytes) with mmr_size {} holds {} bytes live", len, input_len, s, peak),
				);
			}
		}
	}
	// how deep the recursion can go is not part of the allocation claim; one deliberately deep call on
	// request (VERIF_MV_DEEP=<hashes>): a stack overflow shows as an abort of this child
	if let Ok(v) = std::env::var("VERIF_MV_DEEP") {
		if let Ok(n) = v.parse::<usize>() {
			let pr = MerkleProof { mmr_size: u64::MAX, path: (0..n).map(|_| Hash::from_vec(&rng.bytes(32))).collect() };
			let root = Hash::from_vec(&rng.bytes(32));
			cx.out.raw(&format!("#STAT merkle verify deep: starting a path of {} hashes", n));
			cx.out.flush();
			let e2 = el.clone();
			let (r, _) = measured(move || pr.verify(root, &e2, 0).is_ok());
			cx.out.raw(&format!("#STAT merkle verify deep: {} hashes -> {:?}, live peak {}", n, r, LAST_PEAK.load(Ordering::Relaxed)));
		}
	}
	for (k, v) in outcomes.iter() {
		cx.out.raw(&format!("#STAT merkle verify: {}: {}", k, v));
	}
	cx.out.raw(&format!("#STAT merkle verify: {} calls, MMRs of 1..={} leaves, claimed sizes 0..=true+8 and huge; largest live peak / input length on these = {}", calls, maxn, worst_ratio));
}

fn hex_streams(cx: &mut Ctx) {
	// util::from_hex on arbitrary strings, MerkleProof::from_hex on strings whose decoded path_len is safe
	let mut strings: Vec<String> = vec![
		"".into(), "0".into(), "00".into(), "0x".into(), "0x0x00".into(), "0X00".into(), " 00 ".into(), "\t0a0B\n".into(),
		"zz".into(), "+f".into(), "-f".into(), "+-".into(), "++".into(), "f+".into(), "0g".into(), "€a".into(), "a€".into(),
		"é".into(), "éé".into(), "aé0".into(), "𝔾".into(), "𝔾00".into(), "0𝔾0".into(), "\u{a0}00\u{3000}".into(),
		"\u{2003}ff".into(), "ff\u{85}".into(), "0x\u{a0}".into(), "00€".into(), "0€0".into(), "\u{1680}".into(),
		"x0".into(), "0x0".into(), "0x+1".into(), "¡¡".into(), "ÿ".into(), "0ÿ".into(),
	];
	let alphabet: Vec<char> = "0123456789abcdefABCDEF+-xX \t\nzg€éÿ𝔾\u{a0}\u{2028}".chars().collect();
	let mut r = Rng::new(cx.rng.next());
	for _ in 0..budget(cx, 2500, 12000) {
		let n = r.below(12);
		let ascii_only = r.chance(1, 2);
		let s: String = (0..n)
			.map(|_| {
				let c = *r.pick(&alphabet);
				if ascii_only && !c.is_ascii() {
					'0'
				} else {
					c
				}
			})
			.collect();
		strings.push(s);
	}
	for s in &strings {
		let owned = s.clone();
		let (res, maxreq) = measured(move || grin_util::from_hex(&owned));
		let o = match res {
			Ok(Ok(b)) => Out1::Ok(0, hex(&b)),
			Ok(Err(_)) => Out1::Err(String::new()),
			Err(p) => Out1::Panic(p),
		};
		// print `ok <bytes>` without a consumed count
		let lhs = format!("codec hex {}", hex(s.as_bytes()));
		let st = cx.stats.entry("hex".to_string()).or_default();
		st.cases += 1;
		st.max_req = st.max_req.max(maxreq);
		let rhs = match &o {
			Out1::Ok(_, c) => {
				st.ok += 1;
				format!("ok {} {}", c, maxreq)
			}
			Out1::Err(_) => {
				st.err += 1;
				format!("err {}", maxreq)
			}
			Out1::Panic(msg) => {
				st.panic += 1;
				cx.oracle_fails += 1;
				cx.out.raw(&format!("#ORACLE-FAIL C11 panic in util::from_hex ({}) on the string with UTF-8 bytes {}", msg.replace('\n', " "), hex(s.as_bytes())));
				format!("panic {}", maxreq)
			}
		};
		if maxreq > 16 * s.len() + 4096 {
			cx.oracle_fails += 1;
			cx.out.raw(&format!("#ORACLE-FAIL C11 over-allocation in util::from_hex: {} bytes for the string {}", maxreq, hex(s.as_bytes())));
		}
		cx.out.line(&lhs, &rhs);
	}
	// the other decoders from hex strings in the anchor files: Hash::from_hex, ShortId::from_hex,
	// BlockHeader::from_pre_pow_and_proof (hex of the pre-pow part + nonce + proof -> header). Oracle
	// only: a value or an error, never a panic, never more than a small multiple of the string.
	{
		let mut all: Vec<String> = strings.clone();
		// around honest pre-pow strings: truncated at every length class, a non-hex / multi-byte
		// character at every tenth offset, extended, upper case
		global::set_local_chain_type(ChainTypes::AutomatedTesting);
		let h = mined_header(&mut r);
		let pp = h.pre_pow();
		let good: String = pp[..pp.len().saturating_sub(8)].iter().map(|b| format!("{:02x}", b)).collect();
		for cut in [0usize, 1, 2, 3, 4, 19, 20, 21, good.len() / 2, good.len().saturating_sub(2), good.len().saturating_sub(1), good.len()].iter() {
			all.push(good[..(*cut).min(good.len())].to_string());
		}
		for i in (0..good.len()).step_by(10) {
			for c in ["g", "€", "é", " ", "+"].iter() {
				let mut m = good.clone();
				m.replace_range(i..i + 1, c);
				all.push(m);
			}
		}
		all.push(format!("{}00", good));
		all.push(format!("{}{}", good, good));
		all.push(good.to_uppercase());
		all.push(good.clone());
		let mut outcomes: BTreeMap<String, u64> = BTreeMap::new();
		for s in &all {
			let s1 = s.clone();
			let (r1, m1) = measured(move || Hash::from_hex(&s1).is_ok());
			let s2 = s.clone();
			let (r2, m2) = measured(move || ShortId::from_hex(&s2).is_ok());
			let (s3, nonce, proof) = (s.clone(), h.pow.nonce, h.pow.proof.clone());
			let (r3, m3) = measured(move || BlockHeader::from_pre_pow_and_proof(s3, nonce, proof).is_ok());
			for (name, r, m) in [("Hash::from_hex", r1, m1), ("ShortId::from_hex", r2, m2), ("BlockHeader::from_pre_pow_and_proof", r3, m3)] {
				let cls = match &r {
					Ok(true) => "ok",
					Ok(false) => "err",
					Err(_) => "panic",
				};
				*outcomes.entry(format!("{} -> {}", name, cls)).or_insert(0) += 1;
				if let Err(msg) = &r {
					cx.oracle_fails += 1;
					cx.out.raw(&format!("#ORACLE-FAIL C11 panic in {} ({}) on the string with UTF-8 bytes {}", name, msg.replace('\n', " "), hex(s.as_bytes())));
				}
				if m > 16 * s.len() + 4096 {
					cx.oracle_fails += 1;
					cx.out.raw(&format!("#ORACLE-FAIL C11 over-allocation in {}: {} bytes for the string {}", name, m, hex(s.as_bytes())));
				}
			}
		}
		// the honest string must rebuild the header
		let (s3, nonce, proof) = (good.clone(), h.pow.nonce, h.pow.proof.clone());
		match catch(move || BlockHeader::from_pre_pow_and_proof(s3, nonce, proof)) {
			Ok(Ok(r)) if r == h => {}
			other => {
				cx.oracle_fails += 1;
				cx.out.raw(&format!("#ORACLE-FAIL C11 BlockHeader::from_pre_pow_and_proof does not rebuild the header from its own pre-pow hex {}: {:?}", good, other.map(|x| x.map(|_| "another header").map_err(|e| format!("{:?}", e)))));
			}
		}
		for (k, v) in outcomes.iter() {
			cx.out.raw(&format!("#STAT hex decoders: {}: {}", k, v));
		}
	}
	// MerkleProof::from_hex
	let mut hexes: Vec<String> = vec!["zz".into(), "0".into(), "".into(), "00".into(), "€a".into(), " 0x00 ".into()];
	for _ in 0..budget(cx, 200, 1000) {
		let n = *r.pick(&[0usize, 1, 2, 3]);
		let p = MerkleProof { mmr_size: pick_u64(&mut r), path: (0..n).map(|_| hash32(&mut r)).collect() };
		let mut h = p.to_hex();
		match r.below(6) {
			0 => {
				h.truncate(r.below(h.len() as u64 + 1) as usize);
			}
			1 => {
				let i = r.below(h.len() as u64) as usize;
				h.replace_range(i..i + 1, "g");
			}
			2 => h = format!(" 0x{} ", h),
			3 => {
				// path_len → n+1 (short read) or 0
				let v = if r.chance(1, 2) { n as u64 + 1 } else { 0 };
				h.replace_range(16..32, &format!("{:016x}", v));
			}
			_ => {}
		}
		hexes.push(h);
	}
	for h in &hexes {
		let owned = h.clone();
		let (res, maxreq) = measured(move || MerkleProof::from_hex(&owned));
		let st = cx.stats.entry("merklehex".to_string()).or_default();
		st.cases += 1;
		st.max_req = st.max_req.max(maxreq);
		let rhs = match res {
			Ok(Ok(p)) => {
				st.ok += 1;
				format!("ok {} {}", hex(&sv(&p, 1)), maxreq)
			}
			Ok(Err(_)) => {
				st.err += 1;
				format!("err {}", maxreq)
			}
			Err(msg) => {
				st.panic += 1;
				cx.oracle_fails += 1;
				cx.out.raw(&format!("#ORACLE-FAIL C11 panic in MerkleProof::from_hex ({}) on the string with UTF-8 bytes {}", msg.replace('\n', " "), hex(h.as_bytes())));
				format!("panic {}", maxreq)
			}
		};
		if maxreq > 16 * h.len() + 4096 {
			cx.oracle_fails += 1;
			cx.out.raw(&format!("#ORACLE-FAIL C11 over-allocation in MerkleProof::from_hex: {} bytes for the string {}", maxreq, hex(h.as_bytes())));
		}
		cx.out.line(&format!("codec merklehex {}", hex(h.as_bytes())), &rhs);
	}
}

/// payload decoders owned by other domains: no-panic and allocation bound only
fn payload_streams(cx: &mut Ctx) {
	let rn = budget(cx, 120, 800);
	let mut r = Rng::new(cx.rng.next());
	let mbs_k = 1 << 20; // additive constant granted to the big payload types
	for v in VERSIONS {
		for m in random_inputs(&mut r, rn, 300) {
			cx.bound::<Transaction>("tx", v, &m, mbs_k);
			cx.bound::<UntrustedBlock>("block", v, &m, mbs_k);
			cx.bound::<UntrustedCompactBlock>("cblock", v, &m, mbs_k);
			cx.bound::<UntrustedBlockHeader>("header", v, &m, mbs_k);
			cx.bound::<BitmapSegment>("bitmapseg", v, &m, mbs_k);
			cx.bound::<OutputBitmapSegmentResponse>("resp:22", v, &m, mbs_k);
			cx.bound::<OutputSegmentResponse>("resp:24", v, &m, mbs_k);
			cx.bound::<SegmentResponse<RangeProof>>("resp:26", v, &m, mbs_k);
			cx.bound::<SegmentResponse<TxKernel>>("resp:28", v, &m, mbs_k);
		}
	}
	// structured: a valid transaction body skeleton with count fields mutated
	for v in VERSIONS {
		// offset (32) + counts: v1/v2 body = u64 × 3 counts
		let mut base = r.bytes(32);
		base.extend_from_slice(&be64(1));
		base.extend_from_slice(&be64(1));
		base.extend_from_slice(&be64(1));
		base.extend_from_slice(&r.bytes(200));
		for m in mutations(&mut r, &base, &[1_000_000, 250, 40000], &[0; 64], cx.thorough) {
			cx.bound::<Transaction>("tx", v, &m, mbs_k);
			cx.bound::<UntrustedBlock>("block", v, &m, mbs_k);
		}
	}
}


// ---------------------------------------------------------------------------------------------
// mutation family "consistent resize": a length / count field is changed AND the bytes / items it
// announces are inserted or removed, so the object stays self-consistent and the reader does not
// simply run into the end of the input

fn u64_at(b: &[u8], i: usize) -> u64 {
	let mut a = [0u8; 8];
	a.copy_from_slice(&b[i..i + 8]);
	u64::from_be_bytes(a)
}

/// new lengths tried for a field of length `l`: L±1, L+2, 2L, L+100, 10 000, 100 000, and just above the
/// reader caps (675 range proof, 100 000 `read_fixed_bytes`)
fn resize_targets(l: u64, big: bool) -> Vec<u64> {
	let mut v = vec![l.saturating_sub(1), l + 1, l + 2, 2 * l, l + 100, 674, 675, 676, 677];
	if big {
		v.extend_from_slice(&[10_000, 99_999, 100_000, 100_001]);
	}
	v.sort_unstable();
	v.dedup();
	v.retain(|x| *x != l);
	v
}

/// every 8-byte big-endian field whose value equals (is covered by) a run of bytes that really
/// follows it is treated as a length prefix: resize it together with its payload
fn resize_u64_fields(rng: &mut Rng, base: &[u8], max_big_fields: usize) -> Vec<Vec<u8>> {
	let n = base.len();
	let mut out = vec![];
	let mut fields = 0;
	let mut i = 0;
	while i + 8 <= n {
		let l = u64_at(base, i);
		if l >= 1 && l <= 200_000 && i + 8 + l as usize <= n {
			fields += 1;
			for t in resize_targets(l, fields <= max_big_fields) {
				let mut m = base[..i].to_vec();
				m.extend_from_slice(&t.to_be_bytes());
				let payload = &base[i + 8..i + 8 + l as usize];
				if t <= l {
					m.extend_from_slice(&payload[..t as usize]);
				} else {
					m.extend_from_slice(payload);
					m.extend_from_slice(&rng.bytes((t - l) as usize));
				}
				m.extend_from_slice(&base[i + 8 + l as usize..]);
				out.push(m);
			}
			// skip past the field itself (its payload may contain further fields)
			i += 8;
		} else {
			i += 1;
		}
	}
	out
}

/// `prefix ++ three u64 counts ++ three sections of items` (transaction body, compact block body)
#[derive(Clone)]
struct Parts {
	prefix: Vec<u8>,
	secs: [Vec<Vec<u8>>; 3],
}
impl Parts {
	fn bytes(&self) -> Vec<u8> {
		let mut b = self.prefix.clone();
		for s in &self.secs {
			b.extend_from_slice(&(s.len() as u64).to_be_bytes());
		}
		for s in &self.secs {
			for it in s {
				b.extend_from_slice(it);
			}
		}
		b
	}
	/// counted lists resized consistently: an item dropped / duplicated / the list doubled
	fn resized(&self) -> Vec<Vec<u8>> {
		let mut v = vec![];
		for s in 0..3 {
			let n = self.secs[s].len();
			if n == 0 {
				continue;
			}
			let mut q = self.clone();
			q.secs[s].pop();
			v.push(q.bytes());
			for extra in [1usize, 2, n] {
				let mut q = self.clone();
				for k in 0..extra {
					let it = self.secs[s][k % n].clone();
					q.secs[s].push(it);
				}
				v.push(q.bytes());
			}
		}
		v
	}
}

fn output_bytes(rng: &mut Rng, plen: u64) -> Vec<u8> {
	let mut b = vec![rng.below(2) as u8];
	b.extend_from_slice(&rng.bytes(33));
	b.extend_from_slice(&be64(plen));
	b.extend_from_slice(&rng.bytes(plen as usize));
	b
}

fn input_bytes(rng: &mut Rng, ver: u32) -> Vec<u8> {
	let mut b = if ver >= 3 { vec![] } else { vec![rng.below(2) as u8] };
	b.extend_from_slice(&rng.bytes(33));
	b
}

fn body_parts(rng: &mut Rng, ver: u32, prefix: Vec<u8>, ni: usize, no: usize, nk: usize) -> Parts {
	Parts {
		prefix,
		secs: [
			(0..ni).map(|_| input_bytes(rng, ver)).collect(),
			(0..no).map(|_| output_bytes(rng, 675)).collect(),
			(0..nk).map(|_| gen_kernel_bytes(rng, ver)).collect(),
		],
	}
}

/// a header that passes `UntrustedBlockHeader::read` on AutomatedTesting (real cuckatoo-10 solution)
fn mined_header(rng: &mut Rng) -> BlockHeader {
	let mut h = BlockHeader {
		version: HeaderVersion(5),
		height: 1000 + rng.below(1 << 30),
		prev_hash: hash32(rng),
		prev_root: hash32(rng),
		timestamp: chrono::DateTime::<chrono::Utc>::from_timestamp(1_600_000_000 + rng.below(100_000_000) as i64, 0).unwrap(),
		output_root: hash32(rng),
		range_proof_root: hash32(rng),
		kernel_root: hash32(rng),
		total_kernel_offset: BlindingFactor::from_slice(&rng.bytes(32)),
		output_mmr_size: 4,
		kernel_mmr_size: 3,
		pow: ProofOfWork {
			total_difficulty: Difficulty::from_num(rng.below(1 << 40)),
			secondary_scaling: rng.next() as u32,
			nonce: rng.next(),
			proof: Proof { edge_bits: 10, nonces: vec![0; 8] },
		},
	};
	grin_core::pow::pow_size(&mut h, Difficulty::from_num(1), global::proofsize(), global::min_edge_bits()).expect("mine header");
	h
}

fn segment_bytes_counts(rng: &mut Rng, leaf: &dyn Fn(&mut Rng) -> Vec<u8>, nh: u64, nl: u64, np: u64) -> Vec<u8> {
	let mut b = vec![rng.below(14) as u8];
	b.extend_from_slice(&be64(rng.below(1 << 20)));
	b.extend_from_slice(&be64(nh));
	for p in 0..nh {
		b.extend_from_slice(&be64(2 * p + 1));
	}
	for _ in 0..nh {
		b.extend_from_slice(&rng.bytes(32));
	}
	b.extend_from_slice(&be64(nl));
	for p in 0..nl {
		b.extend_from_slice(&be64(3 * p + 1));
	}
	for _ in 0..nl {
		b.extend_from_slice(&leaf(rng));
	}
	b.extend_from_slice(&be64(np));
	for _ in 0..np {
		b.extend_from_slice(&rng.bytes(32));
	}
	b
}

/// a valid `BitmapSegment` encoding: identifier, `n_blocks`, blocks in the three modes, proof
fn bitmap_segment_bytes(rng: &mut Rng, blocks: &[Vec<u8>], np: u64) -> Vec<u8> {
	let mut b = vec![9u8];
	b.extend_from_slice(&be64(rng.below(1000)));
	b.extend_from_slice(&(blocks.len() as u16).to_be_bytes());
	for bl in blocks {
		b.extend_from_slice(bl);
	}
	b.extend_from_slice(&be64(np));
	for _ in 0..np {
		b.extend_from_slice(&rng.bytes(32));
	}
	b
}

fn bitmap_block_bytes(rng: &mut Rng, n_chunks: u8, mode: u8, entries: u16) -> Vec<u8> {
	let mut b = vec![n_chunks, mode];
	if mode == 0 {
		b.extend_from_slice(&rng.bytes(n_chunks as usize * 128));
	} else {
		b.extend_from_slice(&entries.to_be_bytes());
		let n_bits = (n_chunks as u64 * 1024).max(1);
		for _ in 0..entries {
			b.extend_from_slice(&(rng.below(n_bits) as u16).to_be_bytes());
		}
	}
	b
}

impl Ctx {
	fn resize_dec<T: Readable + Writeable>(&mut self, d: &str, ver: u32, cases: Vec<Vec<u8>>, k: usize) {
		*self.resize_cases.entry(d.to_string()).or_insert(0) += cases.len() as u64;
		for (i, m) in cases.iter().enumerate() {
			self.dec::<T, _>(d, i % 2 == 0, ver, m, k, canon_w::<T>(ver), false);
		}
	}
	fn resize_bound<T: Readable>(&mut self, d: &str, ver: u32, cases: Vec<Vec<u8>>, k: usize) {
		*self.resize_cases.entry(d.to_string()).or_insert(0) += cases.len() as u64;
		for m in cases.iter() {
			self.bound::<T>(d, ver, m, k);
		}
	}
}

fn consistent_resize_streams(cx: &mut Ctx) {
	let mut r = Rng::new(cx.rng.next());
	let big = if cx.thorough { 3 } else { 1 };
	// ---- native types with a length-prefixed string
	let hand = sv(
		&Hand {
			version: ProtocolVersion(2),
			capabilities: Capabilities::default(),
			nonce: 7,
			genesis: hash32(&mut r),
			total_difficulty: Difficulty::from_num(5),
			sender_addr: gen_addr(&mut r),
			receiver_addr: gen_addr(&mut r),
			user_agent: "MW/Grin 5.4.0".to_string(),
		},
		1,
	);
	let cases = resize_u64_fields(&mut r, &hand, big);
	cx.resize_dec::<Hand>("hand", 1, cases, 100_000 + 4096);
	let shake = sv(
		&Shake {
			version: ProtocolVersion(2),
			capabilities: Capabilities::default(),
			genesis: hash32(&mut r),
			total_difficulty: Difficulty::from_num(5),
			user_agent: "MW/Grin 5.4.0".to_string(),
		},
		1,
	);
	let cases = resize_u64_fields(&mut r, &shake, big);
	cx.resize_dec::<Shake>("shake", 1, cases, 100_000 + 4096);
	let pe = sv(&PeerError { code: 3, message: "some error text".to_string() }, 1);
	let cases = resize_u64_fields(&mut r, &pe, big);
	cx.resize_dec::<PeerError>("peererror", 1, cases, 100_000 + 4096);
	// ---- counted lists of the native bodies, with the items present
	let mut cases = vec![];
	for n in [19u8, 20, 21, 40, 255] {
		let mut b = vec![n];
		b.extend_from_slice(&r.bytes(n as usize * 32));
		cases.push(b);
	}
	cx.resize_dec::<Locator>("body:7", 1, cases, 4096);
	let mut cases = vec![];
	for n in [1u32, 255, 256, 257, 512] {
		let mut b = n.to_be_bytes().to_vec();
		for _ in 0..n {
			b.extend_from_slice(&sv(&gen_addr(&mut r), 1));
		}
		cases.push(b);
	}
	cx.resize_dec::<PeerAddrs>("body:6", 1, cases, 8192 + 4096);
	let mut cases = vec![];
	for n in [0u64, 1, 63, 64, 65, 200] {
		let mut b = be64(9).to_vec();
		b.extend_from_slice(&be64(n));
		b.extend_from_slice(&r.bytes(n as usize * 32));
		cases.push(b);
		// one hash too many / too few for the announced length
		let mut c = be64(9).to_vec();
		c.extend_from_slice(&be64(n + 1));
		c.extend_from_slice(&r.bytes(n as usize * 32));
		cases.push(c);
	}
	cx.resize_dec::<MerkleProof>("merkle", 1, cases, 4096);
	// ---- segments: hash / leaf / proof lists resized with their items, range proofs resized inside
	let counts: Vec<(u64, u64, u64)> = vec![(0, 0, 0), (1, 1, 1), (3, 2, 4), (33, 5, 2), (0, 40, 0), (2, 0, 70)];
	for (nh, nl, np) in counts.iter().copied() {
		let out_leaf = |r: &mut Rng| {
			let mut b = vec![r.below(2) as u8];
			b.extend_from_slice(&r.bytes(33));
			b
		};
		let b = segment_bytes_counts(&mut r, &out_leaf, nh, nl, np);
		cx.resize_dec::<Segment<OutputIdentifier>>("seg:outid", 1, vec![b], 81920 + 1024 * 40 + 4096);
		let ver = VERSIONS[(nh as usize + nl as usize) % 4];
		let b = segment_bytes_counts(&mut r, &|r| gen_kernel_bytes(r, ver), nh, nl, np);
		cx.resize_dec::<Segment<TxKernel>>("seg:kernel", ver, vec![b], 81920 + 1024 * 128 + 4096);
		let mut pb = be64(np).to_vec();
		pb.extend_from_slice(&r.bytes(np as usize * 32));
		cx.resize_dec::<SegmentProof>("segproof", 1, vec![pb], 32 * 1024 + 4096);
	}
	// the pre-allocation caps (1024 items) crossed with the items really present
	let b = segment_bytes_counts(&mut r, &|r| { let mut b = vec![0u8]; b.extend_from_slice(&r.bytes(33)); b }, 1025, 1025, 1025);
	cx.resize_dec::<Segment<OutputIdentifier>>("seg:outid", 1, vec![b], 81920 + 1024 * 40 + 4096);
	// range-proof segment: every proof length around the nominal size and the reader caps, bytes present
	for plen in [0u64, 1, 674, 675, 676, 677, 775, 1350, 10_000, 99_999, 100_000, 100_001] {
		for nl in [1u64, 3] {
			let b = segment_bytes_counts(&mut r, &|r| { let mut b = be64(plen).to_vec(); b.extend_from_slice(&r.bytes(plen as usize)); b }, 2, nl, 1);
			if b.len() <= 120_000 || nl == 1 {
				cx.resize_dec::<Segment<RangeProof>>("seg:rproof", 1, vec![b.clone()], 81920 + 1024 * 688 + 4096);
				// the same bytes behind a block hash: the `RangeProofSegment` response
				let mut resp = r.bytes(32);
				resp.extend_from_slice(&b);
				cx.resize_bound::<SegmentResponse<RangeProof>>("resp:26", 1, vec![resp], 1 << 20);
			}
		}
	}
	let base = segment_bytes_counts(&mut r, &|r| { let mut b = be64(675).to_vec(); b.extend_from_slice(&r.bytes(675)); b }, 2, 2, 2);
	let cases = resize_u64_fields(&mut r, &base, big);
	cx.resize_dec::<Segment<RangeProof>>("seg:rproof", 1, cases, 81920 + 1024 * 688 + 4096);
	// ---- payload types that embed range proofs, kernels, the proof-of-work array, bitmap blocks
	let k = 1 << 20;
	for plen in [0u64, 1, 674, 675, 676, 677, 775, 1350, 10_000, 99_999, 100_000, 100_001] {
		let b = output_bytes(&mut r, plen);
		cx.resize_bound::<Output>("output", 1, vec![b], k);
	}
	let header = mined_header(&mut r);
	for v in VERSIONS {
		let hb = sv(&header, v);
		// header alone: the packed nonce array resized together with `edge_bits`
		let tail = 1 + 10; // edge_bits + pack_len(10 bits x 8 nonces)
		let mut cases = vec![hb.clone()];
		for eb in [0u8, 1, 7, 8, 9, 10, 11, 29, 31, 32, 62, 63, 64, 255] {
			for delta in [-1i64, 0, 1] {
				let mut m = hb[..hb.len() - tail].to_vec();
				m.push(eb);
				let want = ((eb as i64 * 8 + 7) / 8 + delta).max(0) as usize;
				m.extend_from_slice(&r.bytes(want));
				cases.push(m);
			}
		}
		cx.resize_bound::<UntrustedBlockHeader>("header", v, cases, k);
		// transaction / block / compact block bodies
		for (ni, no, nk) in [(1usize, 1usize, 1usize), (2, 3, 2), (0, 1, 1), (3, 11, 1)] {
			let offset = r.bytes(32);
			let tx = body_parts(&mut r, v, offset, ni, no, nk);
			let mut cases = vec![tx.bytes()];
			cases.extend(tx.resized());
			cases.extend(resize_u64_fields(&mut r, &tx.bytes(), big));
			cx.resize_bound::<Transaction>("tx", v, cases, k);
			let blk = body_parts(&mut r, v, hb.clone(), ni, no, nk);
			let mut cases = vec![blk.bytes()];
			cases.extend(blk.resized());
			// only the fields of the body (the header is fixed-size): skip the prefix when locating fields
			let bb = blk.bytes();
			for m in resize_u64_fields(&mut r, &bb[hb.len()..], big) {
				let mut x = hb.clone();
				x.extend_from_slice(&m);
				cases.push(x);
			}
			cx.resize_bound::<UntrustedBlock>("block", v, cases, k);
			let mut prefix = hb.clone();
			prefix.extend_from_slice(&be64(r.next()));
			let cb = Parts {
				prefix: prefix.clone(),
				secs: [
					(0..no.min(3)).map(|_| output_bytes(&mut r, 675)).collect(),
					(0..nk).map(|_| gen_kernel_bytes(&mut r, v)).collect(),
					(0..ni + 2).map(|_| r.bytes(6)).collect(),
				],
			};
			let mut cases = vec![cb.bytes()];
			cases.extend(cb.resized());
			let cbb = cb.bytes();
			for m in resize_u64_fields(&mut r, &cbb[prefix.len()..], big) {
				let mut x = prefix.clone();
				x.extend_from_slice(&m);
				cases.push(x);
			}
			cx.resize_bound::<UntrustedCompactBlock>("cblock", v, cases, k);
		}
	}
	// bitmap segments: block lists and the entry lists inside the blocks resized with their items
	let mut cases = vec![];
	for (n_chunks, mode, entries) in [(3u8, 0u8, 0u16), (64, 0, 0), (64, 1, 5), (10, 2, 300), (1, 1, 0), (65, 0, 0), (0, 1, 0), (64, 1, 65535)] {
		let bl = bitmap_block_bytes(&mut r, n_chunks, mode, entries);
		for nb in [1usize, 2, 3] {
			let mut blocks: Vec<Vec<u8>> = (0..nb - 1).map(|_| bitmap_block_bytes(&mut r, 64, 0, 0)).collect();
			blocks.push(bl.clone());
			for np in [0u64, 2, 1025] {
				cases.push(bitmap_segment_bytes(&mut r, &blocks, np));
			}
		}
		// entry count one more / one less than the entries present
		if mode != 0 && entries > 0 && entries < 65535 {
			for d in [entries - 1, entries + 1] {
				let mut b2 = bl.clone();
				b2[2..4].copy_from_slice(&d.to_be_bytes());
				cases.push(bitmap_segment_bytes(&mut r, &[b2], 1));
			}
		}
	}
	cx.resize_bound::<BitmapSegment>("bitmapseg", 1, cases.clone(), k);
	let resp: Vec<Vec<u8>> = cases
		.iter()
		.map(|c| {
			let mut x = r.bytes(32);
			x.extend_from_slice(c);
			x.extend_from_slice(&r.bytes(32));
			x
		})
		.collect();
	cx.resize_bound::<OutputBitmapSegmentResponse>("resp:22", 1, resp, k);
	let rc = std::mem::take(&mut cx.resize_cases);
	let parts: Vec<String> = rc.iter().map(|(d, n)| format!("{}={}", d, n)).collect();
	cx.out.raw(&format!("#STAT consistent-resize cases per decoder: {}", parts.join(" ")));
}

// ---------------------------------------------------------------------------------------------
// the decoders of the consensus objects, compared line by line with the instrumented models of
// lean/GrinVerif/Model/DecSer.lean:
//   codec decs <D> <bin|buf> <ver> <extra> <hex> => ok <consumed> <canon> <maxreq> <peak> | err <E> <maxreq> <peak>
//                                                   | panic <maxreq> <peak>
//   codec memsize <T> => <size_of::<T>()>
// `extra` = `-`, or `<now>:<ftl>:<pow>` for the readers that run the UntrustedBlockHeader checks (the
// clock, the future time limit and the verdict of pow::verify_size on the decoded header are inputs of the
// model).  `maxreq` = largest single allocation request, `peak` = live peak above the level at the start;
// both must stay below the model's requested allocation (+ 1 KiB for error strings and the like).

/// additive constant of the proven bound `93·len + k` (AutomatedTesting, proof size 8), with the 1 KiB slack
const SER_K: usize = 1_100_000;

impl Ctx {
	fn decs<T: Readable, F: FnOnce(T) -> String>(&mut self, d: &str, buf: bool, ver: u32, extra: &str, bytes: &[u8], canon: F) {
		let (r, maxreq) = read_with::<T>(buf, bytes, ver);
		let peak = LAST_PEAK.load(Ordering::Relaxed);
		let lhs = format!("codec decs {} {} {} {} {}", d, if buf { "buf" } else { "bin" }, ver, extra, hex(bytes));
		let dname = format!("s:{}", d);
		let st = self.stats.entry(dname.clone()).or_default();
		st.cases += 1;
		st.max_req = st.max_req.max(maxreq).max(peak);
		let ratio = (maxreq.max(peak) as u64 * 1000) / (bytes.len().max(1) as u64);
		st.max_ratio_milli = st.max_ratio_milli.max(ratio);
		let rhs = match r {
			Ok(Ok((v, n))) => {
				st.ok += 1;
				format!("ok {} {} {} {}", n, canon(v), maxreq, peak)
			}
			Ok(Err(e)) => {
				st.err += 1;
				let en = err_name(&e);
				*st.kinds.entry(en.clone()).or_insert(0) += 1;
				format!("err {} {} {}", en, maxreq, peak)
			}
			Err(msg) => {
				st.panic += 1;
				self.oracle_fails += 1;
				self.out.raw(&format!("#ORACLE-FAIL C11 panic in {} ({}): {}", d, msg.replace('\n', " "), lhs));
				format!("panic {} {}", maxreq, peak)
			}
		};
		if maxreq.max(peak) > 93 * bytes.len() + SER_K {
			self.oracle_fails += 1;
			self.out.raw(&format!(
				"#ORACLE-FAIL C11 over-allocation in {}: request {} / live peak {} > 93*{}+{}: {}",
				d, maxreq, peak, bytes.len(), SER_K, lhs
			));
		}
		self.out.line(&lhs, &rhs);
	}
}

fn canon_v<T: Writeable>(ver: u32) -> impl FnOnce(T) -> String {
	move |v: T| match ser::ser_vec(&v, ProtocolVersion(ver)) {
		Ok(b) => hex(&b),
		Err(_) => "E".to_string(),
	}
}

/// clock, future time limit and the verdict of `verify_size` on the header at the front of `bytes`
fn header_extra(bytes: &[u8], ver: u32) -> String {
	let now = chrono::Utc::now().timestamp();
	let ftl = global::get_future_time_limit();
	let pow = match ser::deserialize::<BlockHeader, _>(&mut &bytes[..], ProtocolVersion(ver), DeserializationMode::default()) {
		Ok(h) => catch(std::panic::AssertUnwindSafe(|| grin_core::pow::verify_size(&h).is_ok())).unwrap_or(false),
		Err(_) => false,
	};
	format!("{}:{}:{}", now, ftl, pow as u8)
}

fn rand_commit(rng: &mut Rng) -> Commitment {
	Commitment::from_vec(rng.bytes(33))
}

fn gen_output(rng: &mut Rng, coinbase: bool) -> Output {
	let mut proof = [0u8; 675];
	proof.copy_from_slice(&rng.bytes(675));
	Output::new(
		if coinbase { OutputFeatures::Coinbase } else { OutputFeatures::Plain },
		rand_commit(rng),
		RangeProof { proof, plen: 675 },
	)
}

fn gen_kernel(rng: &mut Rng, coinbase: bool) -> TxKernel {
	let fee = {
		let raw = (rng.below(1 << 30) + 1).to_be_bytes();
		ser::deserialize::<grin_core::core::FeeFields, _>(&mut &raw[..], ProtocolVersion(1), DeserializationMode::default()).unwrap()
	};
	let features = if coinbase {
		KernelFeatures::Coinbase
	} else if rng.chance(1, 2) {
		KernelFeatures::Plain { fee }
	} else {
		KernelFeatures::HeightLocked { fee, lock_height: pick_u64(rng) }
	};
	let mut k = TxKernel::with_features(features);
	k.excess = rand_commit(rng);
	let mut sig = [0u8; 64];
	sig.copy_from_slice(&rng.bytes(64));
	k.excess_sig = grin_util::secp::Signature::from_raw_data(&sig).unwrap();
	k
}

/// a transaction that passes `Transaction::read` (sorted, no duplicates, no coinbase items, light enough)
fn gen_tx(rng: &mut Rng, ni: usize, no: usize, nk: usize, coinbase: bool) -> Transaction {
	let inputs: Vec<Input> = (0..ni)
		.map(|_| Input::new(if rng.chance(1, 4) { OutputFeatures::Coinbase } else { OutputFeatures::Plain }, rand_commit(rng)))
		.collect();
	let outputs: Vec<Output> = (0..no).map(|i| gen_output(rng, coinbase && i == 0)).collect();
	let kernels: Vec<TxKernel> = (0..nk).map(|i| gen_kernel(rng, coinbase && i == 0)).collect();
	Transaction::new(Inputs::from(inputs.as_slice()), &outputs, &kernels)
}

/// the sections of a serialised body as `Parts` (items in their serialised, sorted order)
fn tx_parts(tx: &Transaction, ver: u32, prefix: Vec<u8>) -> Parts {
	let ib = sv(&tx.body.inputs, ver);
	let isz = if ver >= 3 { 33 } else { 34 };
	Parts {
		prefix,
		secs: [
			ib.chunks(isz).map(|c| c.to_vec()).collect(),
			tx.body.outputs.iter().map(|o| sv(o, ver)).collect(),
			tx.body.kernels.iter().map(|k| sv(k, ver)).collect(),
		],
	}
}

fn ser_streams(cx: &mut Ctx) {
	let mut r = Rng::new(cx.rng.next());
	let big = if cx.thorough { 3 } else { 1 };
	let rn = budget(cx, 40, 300);
	// in-memory sizes the allocation model uses
	for (name, sz) in [
		("commitment", std::mem::size_of::<Commitment>()),
		("input", std::mem::size_of::<Input>()),
		("outputid", std::mem::size_of::<OutputIdentifier>()),
		("rangeproof", std::mem::size_of::<RangeProof>()),
		("output", std::mem::size_of::<Output>()),
		("kernel", std::mem::size_of::<TxKernel>()),
		("shortid", std::mem::size_of::<ShortId>()),
	] {
		cx.out.line(&format!("codec memsize {}", name), &sz.to_string());
	}
	let other = r.bytes(48);
	let header = mined_header(&mut r);
	for (vi, v) in VERSIONS.iter().copied().enumerate() {
		// the byte-level mutation families run at one version (all of them in the thorough tier); valid
		// encodings, item-level resizes, boundary counts and random bytes run at every version
		let full = vi == 0 || cx.thorough;
		// ---- items
		let mut cases: Vec<Vec<u8>> = vec![];
		for plen in [675u64, 0, 1, 674, 676, 100_000, 100_001, u64::MAX] {
			let have = plen.min(700) as usize;
			let mut b = vec![r.below(3) as u8];
			b.extend_from_slice(&r.bytes(33));
			b.extend_from_slice(&be64(plen));
			b.extend_from_slice(&r.bytes(have));
			cases.push(b);
		}
		let base = sv(&gen_output(&mut r, false), v);
		if full {
			cases.extend(mutations(&mut r, &base[..60], &[675, 100_000], &other, cx.thorough).into_iter().map(|mut m| {
				m.extend_from_slice(&base[60..]);
				m
			}));
		}
		cases.extend(resize_u64_fields(&mut r, &base, big));
		cases.extend(random_inputs(&mut r, rn, 80));
		for (i, m) in cases.iter().enumerate() {
			cx.decs::<Output, _>("output", i % 2 == 0, v, "-", m, canon_v::<Output>(v));
			if i % 3 == 0 {
				cx.decs::<RangeProof, _>("rproof", i % 2 == 1, v, "-", &m[m.len().min(34)..], canon_v::<RangeProof>(v));
			}
		}
		let mut cases: Vec<Vec<u8>> = vec![];
		for j in 0..3 {
			let kb = sv(&gen_kernel(&mut r, j == 0), v);
			cases.push(kb.clone());
			if full && j > 0 {
				cases.extend(mutations(&mut r, &kb[..40], &[], &other, cx.thorough).into_iter().map(|mut m| {
					m.extend_from_slice(&kb[40..]);
					m
				}));
			}
		}
		// every feature byte, NRD included (disabled: must be refused)
		for fb in 0..=5u8 {
			let mut b = vec![fb];
			b.extend_from_slice(&r.bytes(130));
			cases.push(b.clone());
			for z in 1..18 {
				b[z] = 0;
			}
			cases.push(b);
		}
		cases.extend(random_inputs(&mut r, rn, 130));
		for (i, m) in cases.iter().enumerate() {
			cx.decs::<TxKernel, _>("kernel", i % 2 == 0, v, "-", m, canon_v::<TxKernel>(v));
		}
		let ib = sv(&Input::new(OutputFeatures::Plain, rand_commit(&mut r)), v);
		let mut cases = if full { mutations(&mut r, &ib, &[], &other, cx.thorough) } else { vec![ib.clone()] };
		cases.extend(random_inputs(&mut r, rn, 40));
		for (i, m) in cases.iter().enumerate() {
			cx.decs::<Input, _>("input", i % 2 == 0, v, "-", m, canon_v::<Input>(v));
			cx.decs::<OutputIdentifier, _>("outid", i % 2 == 1, v, "-", m, canon_v::<OutputIdentifier>(v));
		}
		// ---- transactions: valid ones (several shapes), mutations of one, consistent resizes, random
		let mut cases: Vec<Vec<u8>> = vec![];
		for (ni, no, nk) in [(0usize, 0usize, 0usize), (1, 1, 1), (2, 3, 2), (0, 1, 1), (5, 2, 1), (3, 9, 3), (1, 10, 2), (1, 11, 1)] {
			let tx = gen_tx(&mut r, ni, no, nk, false);
			let b = sv(&tx, v);
			cases.push(b.clone());
			let parts = tx_parts(&tx, v, b[..32].to_vec());
			debug_assert_eq!(parts.bytes(), b);
			cases.extend(parts.resized());
			if (ni, no, nk) == (1, 1, 1) {
				if full || vi == 2 {
					// offset, counts, the input and the head of the output; then the kernel at the end
					let cut = 150.min(b.len());
					cases.extend(mutations(&mut r, &b[..cut], &[1_000_000, 250, 226, 11], &other, cx.thorough).into_iter().map(|mut m| {
						m.extend_from_slice(&b[cut..]);
						m
					}));
					let kcut = b.len() - 120;
					cases.extend(mutations(&mut r, &b[kcut..], &[], &other, false).into_iter().map(|m| {
						let mut x = b[..kcut].to_vec();
						x.extend_from_slice(&m);
						x
					}));
				}
				cases.extend(resize_u64_fields(&mut r, &b, big));
			}
			// an input that spends an output of the same transaction: refused by verify_cut_through
			if ni > 0 && no > 0 {
				let base = gen_tx(&mut r, ni, no, nk, false);
				let spent = base.body.outputs[r.below(no as u64) as usize].identifier.commit;
				let mut ins: Vec<Input> = (1..ni).map(|_| Input::new(OutputFeatures::Plain, rand_commit(&mut r))).collect();
				ins.push(Input::new(OutputFeatures::Plain, spent));
				let ct = Transaction::new(Inputs::from(ins.as_slice()), &base.body.outputs, &base.body.kernels);
				cases.push(sv(&ct, v));
			}
			// a coinbase item inside a transaction: refused by verify_features
			let cb = gen_tx(&mut r, ni, no.max(1), nk.max(1), true);
			cases.push(sv(&cb, v));
			// unsorted / duplicated items
			let off = r.bytes(32);
			let mut un = body_parts(&mut r, v, off, ni.min(3), no.min(3), nk.min(3));
			cases.push(un.bytes());
			if no > 0 {
				let dup = un.secs[1][0].clone();
				un.secs[1].push(dup);
				cases.push(un.bytes());
			}
		}
		// counts at the weight limit and the read_multi cap, with nothing behind them
		for (ni, no, nk) in [(250u64, 0u64, 0u64), (251, 0, 0), (0, 11, 6), (0, 12, 0), (0, 0, 83), (0, 0, 84), (1_000_000, 0, 0), (1_000_001, 0, 0), (u64::MAX, u64::MAX, u64::MAX), (0, 1 << 62, 0)] {
			let mut b = r.bytes(32);
			b.extend_from_slice(&be64(ni));
			b.extend_from_slice(&be64(no));
			b.extend_from_slice(&be64(nk));
			b.extend_from_slice(&r.bytes(100));
			cases.push(b);
		}
		cases.extend(random_inputs(&mut r, rn, 300));
		for (i, m) in cases.iter().enumerate() {
			cx.decs::<Transaction, _>("tx", i % 2 == 0, v, "-", m, canon_v::<Transaction>(v));
		}
		// ---- headers
		let hb = sv(&header, v);
		let tail = 1 + 10;
		let mut cases = vec![hb.clone()];
		for eb in [0u8, 1, 7, 8, 9, 10, 11, 29, 31, 32, 62, 63, 64, 255] {
			for delta in [-1i64, 0, 1] {
				let mut m = hb[..hb.len() - tail].to_vec();
				m.push(eb);
				let want = ((eb as i64 * 8 + 7) / 8 + delta).max(0) as usize;
				m.extend_from_slice(&r.bytes(want));
				cases.push(m);
			}
		}
		if full {
			cases.extend(mutations(&mut r, &hb, &[63, 64], &other, true));
		}
		// timestamps around the representable range and the future time limit
		let now = chrono::Utc::now().timestamp();
		for ts in [i64::MIN, i64::MAX, -8334601228800, -8334601228801, 8210266790400, 8210266790401, now + 200, now + 400, now + 100_000] {
			let mut m = hb.clone();
			m[10..18].copy_from_slice(&ts.to_be_bytes());
			cases.push(m);
		}
		cases.extend(random_inputs(&mut r, rn, 300));
		for (i, m) in cases.iter().enumerate() {
			cx.decs::<BlockHeader, _>("header", i % 2 == 0, v, "-", m, canon_v::<BlockHeader>(v));
			let ex = header_extra(m, v);
			cx.decs::<UntrustedBlockHeader, _>("uheader", i % 2 == 1, v, &ex, m, |h| canon_v::<BlockHeader>(v)(BlockHeader::from(h)));
		}
		// ---- blocks and compact blocks behind the mined header
		let mut cases: Vec<Vec<u8>> = vec![];
		let mut ccases: Vec<Vec<u8>> = vec![];
		for (ni, no, nk) in [(0usize, 1usize, 1usize), (1, 2, 2), (3, 4, 2), (2, 11, 3), (0, 0, 0)] {
			let tx = gen_tx(&mut r, ni, no, nk, no > 0 && nk > 0);
			let blk = Block { header: header.clone(), body: tx.body.clone() };
			let b = sv(&blk, v);
			cases.push(b.clone());
			let parts = tx_parts(&tx, v, hb.clone());
			cases.extend(parts.resized());
			if (ni, no, nk) == (1, 2, 2) {
				for m in resize_u64_fields(&mut r, &b[hb.len()..], big) {
					let mut x = hb.clone();
					x.extend_from_slice(&m);
					cases.push(x);
				}
				let body_only = b[hb.len()..].to_vec();
				let ms = if full { mutations(&mut r, &body_only[..body_only.len().min(200)], &[250, 11], &other, false) } else { vec![] };
				for m in ms {
					let mut x = hb.clone();
					x.extend_from_slice(&m);
					x.extend_from_slice(&body_only[body_only.len().min(200)..]);
					cases.push(x);
				}
			}
			let cb = CompactBlock::from(blk);
			let cbb = sv(&cb, v);
			ccases.push(cbb.clone());
			if (ni, no, nk) == (1, 2, 2) {
				for m in resize_u64_fields(&mut r, &cbb[hb.len()..], big) {
					let mut x = hb.clone();
					x.extend_from_slice(&m);
					ccases.push(x);
				}
				let tailb = cbb[hb.len()..].to_vec();
				let ms = if full { mutations(&mut r, &tailb[..tailb.len().min(120)], &[1_000_000], &other, false) } else { vec![] };
				for m in ms {
					let mut x = hb.clone();
					x.extend_from_slice(&m);
					x.extend_from_slice(&tailb[tailb.len().min(120)..]);
					ccases.push(x);
				}
			}
		}
		// compact bodies without a weight limit: many zero-length-proof outputs (42 wire bytes, 728 in memory),
		// sorted by hash so that the read succeeds; and counts at the read_multi cap with nothing behind them
		for n in [30usize, 200] {
			let mut outs: Vec<Output> = (0..n).map(|_| gen_output(&mut r, true)).collect();
			outs.sort_unstable();
			let mut b = hb.clone();
			b.extend_from_slice(&be64(7));
			b.extend_from_slice(&be64(n as u64));
			b.extend_from_slice(&be64(0));
			b.extend_from_slice(&be64(0));
			for o in &outs {
				let ob = sv(o, v);
				b.extend_from_slice(&ob[..34]);
				b.extend_from_slice(&be64(0));
			}
			ccases.push(b);
		}
		for (a, b2, c) in [(1_000_000u64, 0u64, 0u64), (1_000_001, 0, 0), (0, 1_000_000, 1_000_000), (0, 0, u64::MAX), (3, 3, 3)] {
			let mut b = hb.clone();
			b.extend_from_slice(&be64(7));
			b.extend_from_slice(&be64(a));
			b.extend_from_slice(&be64(b2));
			b.extend_from_slice(&be64(c));
			b.extend_from_slice(&r.bytes(60));
			ccases.push(b);
		}
		for (i, m) in cases.iter().enumerate() {
			let ex = header_extra(m, v);
			cx.decs::<UntrustedBlock, _>("ublock", i % 2 == 0, v, &ex, m, |b| canon_v::<Block>(v)(Block::from(b)));
		}
		for (i, m) in ccases.iter().enumerate() {
			let ex = header_extra(m, v);
			cx.decs::<UntrustedCompactBlock, _>("ucblock", i % 2 == 0, v, &ex, m, |b| canon_v::<CompactBlock>(v)(CompactBlock::from(b)));
		}
	}
	// ---- bitmap segments and the segment responses (no protocol-version dependence: versions rotate)
	let mut cases: Vec<Vec<u8>> = vec![];
	for (n_chunks, mode, entries) in [(3u8, 0u8, 0u16), (64, 0, 0), (64, 1, 5), (10, 2, 300), (1, 1, 0), (65, 0, 0), (0, 1, 0), (0, 0, 0), (64, 1, 5000), (2, 3, 0), (64, 2, 4097)] {
		let bl = bitmap_block_bytes(&mut r, n_chunks, mode, entries);
		for nb in [1usize, 2, 3] {
			let mut blocks: Vec<Vec<u8>> = (0..nb - 1).map(|_| bitmap_block_bytes(&mut r, 64, (nb % 3) as u8, 3)).collect();
			blocks.push(bl.clone());
			for np in [0u64, 2, 1025] {
				cases.push(bitmap_segment_bytes(&mut r, &blocks, np));
			}
		}
		if mode != 0 && entries > 0 && entries < 65535 {
			for d in [entries - 1, entries + 1] {
				let mut b2 = bl.clone();
				b2[2..4].copy_from_slice(&d.to_be_bytes());
				cases.push(bitmap_segment_bytes(&mut r, &[b2], 1));
			}
		}
	}
	// 128 four-byte blocks that each reserve 8 KiB; heights around the cap; block counts around the cap
	for (h, nb) in [(13u8, 128u16), (13, 129), (14, 1), (12, 64), (12, 65), (0, 1), (0, 2), (63, 1), (64, 1), (255, 1), (9, 0), (9, 9)] {
		let mut b = vec![h];
		b.extend_from_slice(&be64(r.below(4)));
		b.extend_from_slice(&nb.to_be_bytes());
		for _ in 0..nb.min(130) {
			b.extend_from_slice(&[64, 1, 0, 0]);
		}
		b.extend_from_slice(&be64(0));
		cases.push(b);
	}
	// a block count above the cap with no block behind it: refused (TooLargeReadErr) before any read
	for (h, nb) in [(13u8, 129u16), (12, 65), (6, 2), (0, 2), (5, 1), (13, 128), (6, 1)] {
		let mut b = vec![h];
		b.extend_from_slice(&be64(1));
		b.extend_from_slice(&nb.to_be_bytes());
		cases.push(b);
	}
	let base = {
		let blocks = vec![bitmap_block_bytes(&mut r, 64, 1, 5), bitmap_block_bytes(&mut r, 10, 2, 7)];
		bitmap_segment_bytes(&mut r, &blocks, 2)
	};
	cases.extend(mutations(&mut r, &base, &[128, 64, 13], &other, cx.thorough));
	cases.extend(random_inputs(&mut r, rn * 2, 60));
	for (i, m) in cases.iter().enumerate() {
		let v = VERSIONS[i % 4];
		cx.decs::<BitmapSegment, _>("bitmapseg", i % 2 == 0, v, "-", m, canon_v::<BitmapSegment>(v));
		if i % 2 == 0 {
			let mut x = r.bytes(32);
			x.extend_from_slice(m);
			x.extend_from_slice(&r.bytes(32));
			cx.decs::<OutputBitmapSegmentResponse, _>("resp:22", i % 4 == 0, v, "-", &x, canon_v::<OutputBitmapSegmentResponse>(v));
		}
	}
	let counts: Vec<(u64, u64, u64)> = vec![(0, 0, 0), (1, 1, 1), (3, 2, 4), (2, 5, 2)];
	for (j, (nh, nl, np)) in counts.iter().copied().enumerate() {
		let v = VERSIONS[j % 4];
		let out_leaf = |r: &mut Rng| {
			let mut b = vec![r.below(2) as u8];
			b.extend_from_slice(&r.bytes(33));
			b
		};
		let mut b = r.bytes(32);
		b.extend_from_slice(&segment_bytes_counts(&mut r, &out_leaf, nh, nl, np));
		b.extend_from_slice(&r.bytes(32));
		let mut ms = vec![b.clone()];
		if j == 2 {
			ms.extend(mutations(&mut r, &b, &[1_000_000, 1024], &other, false));
		}
		for (i, m) in ms.iter().enumerate() {
			cx.decs::<OutputSegmentResponse, _>("resp:24", i % 2 == 0, v, "-", m, canon_v::<OutputSegmentResponse>(v));
		}
		let mut b = r.bytes(32);
		b.extend_from_slice(&segment_bytes_counts(&mut r, &|r| { let l = *r.pick(&[675u64, 0, 676, 10]); let mut b = be64(l).to_vec(); b.extend_from_slice(&r.bytes(l.min(675) as usize)); b }, nh, nl, np));
		let mut ms = vec![b.clone()];
		if j == 1 {
			ms.extend(mutations(&mut r, &b, &[1_000_000, 1024, 675], &other, false));
		}
		for (i, m) in ms.iter().enumerate() {
			cx.decs::<SegmentResponse<RangeProof>, _>("resp:26", i % 2 == 0, v, "-", m, canon_v::<SegmentResponse<RangeProof>>(v));
		}
		let mut b = r.bytes(32);
		b.extend_from_slice(&segment_bytes_counts(&mut r, &|r| gen_kernel_bytes(r, v), nh, nl, np));
		let mut ms = vec![b.clone()];
		if j == 3 {
			ms.extend(mutations(&mut r, &b, &[1_000_000, 1024], &other, false));
		}
		for (i, m) in ms.iter().enumerate() {
			cx.decs::<SegmentResponse<TxKernel>, _>("resp:28", i % 2 == 0, v, "-", m, canon_v::<SegmentResponse<TxKernel>>(v));
		}
	}
	for (i, m) in random_inputs(&mut r, rn, 200).iter().enumerate() {
		let v = VERSIONS[i % 4];
		cx.decs::<OutputSegmentResponse, _>("resp:24", i % 2 == 0, v, "-", m, canon_v::<OutputSegmentResponse>(v));
		cx.decs::<SegmentResponse<RangeProof>, _>("resp:26", i % 2 == 1, v, "-", m, canon_v::<SegmentResponse<RangeProof>>(v));
		cx.decs::<SegmentResponse<TxKernel>, _>("resp:28", i % 2 == 0, v, "-", m, canon_v::<SegmentResponse<TxKernel>>(v));
	}
	// ---- Proof::read with proof size 42 (UserTesting): 42·edge_bits is not a multiple of 8 for odd edge_bits,
	// so the padding bits of the last byte exist and must be zero
	global::set_local_chain_type(ChainTypes::UserTesting);
	let mut pad_cases = 0;
	for eb in [1u64, 2, 3, 7, 8, 9, 15, 16, 17, 29, 31, 32, 33, 61, 62, 63, 0, 64, 255] {
		let plen = ((eb * 42 + 7) / 8) as usize;
		let pad = (plen as u64 * 8).saturating_sub(eb * 42) as u32;
		for variant in 0..5 {
			let mut body = r.bytes(plen);
			if pad > 0 && pad < 8 && !body.is_empty() {
				let last = body.len() - 1;
				body[last] &= 0xffu8 >> pad;
				if variant == 2 {
					body[last] |= 1u8 << (8 - 1 - r.below(pad as u64) as u32);
					pad_cases += 1;
				}
			}
			if variant == 3 && !body.is_empty() {
				body.pop();
			}
			if variant == 4 {
				body.extend_from_slice(&r.bytes(3));
			}
			let mut b = vec![eb as u8];
			b.extend_from_slice(&body);
			cx.decs::<Proof, _>("proof42", variant % 2 == 0, 1, "-", &b, canon_v::<Proof>(1));
		}
	}
	cx.out.raw(&format!("#STAT Proof::read at proof size 42: {} cases with a non-zero padding bit", pad_cases));
	global::set_local_chain_type(ChainTypes::AutomatedTesting);
	// ---- the header whose `height + 1` wraps (release) / overflows (debug): accepted by the shipped reader
	let mut h = mined_header(&mut r);
	h.height = u64::MAX;
	h.version = grin_core::consensus::header_version(u64::MAX);
	h.output_mmr_size = 0;
	h.kernel_mmr_size = 0;
	grin_core::pow::pow_size(&mut h, Difficulty::from_num(1), global::proofsize(), global::min_edge_bits()).expect("mine header");
	let hb = sv(&h, 1);
	let ex = header_extra(&hb, 1);
	let (res, _) = read_with::<UntrustedBlockHeader>(true, &hb, 1);
	cx.out.raw(&format!(
		"#STAT probe header with height 2^64-1 (height + 1 wraps in UntrustedBlockHeader::read; a debug build panics there): release reader answers {}",
		match &res { Ok(Ok(_)) => "ok".to_string(), Ok(Err(e)) => format!("err {}", err_name(e)), Err(p) => format!("PANIC {}", p.replace('\n', " ")) }
	));
	cx.decs::<UntrustedBlockHeader, _>("uheader", true, 1, &ex, &hb, |h| canon_v::<BlockHeader>(1)(BlockHeader::from(h)));
}

// ---------------------------------------------------------------------------------------------
// truncation at EVERY offset: every proper prefix of several valid encodings of every modelled type is fed
// to BOTH readers (`ser::deserialize` = BinReader, and `BufReader::new(&mut bytes, version)` + `T::read` =
// the path of p2p/src/codec.rs) at protocol versions 0, 1, 2, 3 and local (1000).  Versions 0 / 1 use the
// fixed-width kernel layout whose unused fields are zero padding read through `Reader::read_empty_bytes`;
// the cuts land inside that padding, inside fixed-size arrays, inside length-prefixed fields and between
// items.  Verdict class and consumed length are compared with the model for both readers; a panic is an
// #ORACLE-FAIL with the input, reader and version (an abort is reported by the parent process).

const PVERSIONS: [u32; 5] = [0, 1, 2, 3, 1000];

fn gen_output_p(rng: &mut Rng, coinbase: bool, plen: usize) -> Output {
	let mut proof = [0u8; 675];
	proof.copy_from_slice(&rng.bytes(675));
	Output::new(
		if coinbase { OutputFeatures::Coinbase } else { OutputFeatures::Plain },
		rand_commit(rng),
		RangeProof { proof, plen },
	)
}

/// like `gen_tx`, with range proofs of `plen` bytes (the reader accepts any length ≤ 675) and the kernel
/// variants cycling Plain / HeightLocked (and Coinbase first when `coinbase`)
fn gen_tx_p(rng: &mut Rng, ni: usize, no: usize, nk: usize, coinbase: bool, plen: usize) -> Transaction {
	let inputs: Vec<Input> = (0..ni)
		.map(|i| Input::new(if i % 2 == 1 { OutputFeatures::Coinbase } else { OutputFeatures::Plain }, rand_commit(rng)))
		.collect();
	let outputs: Vec<Output> = (0..no).map(|i| gen_output_p(rng, coinbase && i == 0, plen)).collect();
	let kernels: Vec<TxKernel> = (0..nk).map(|i| gen_kernel(rng, coinbase && i == 0)).collect();
	Transaction::new(Inputs::from(inputs.as_slice()), &outputs, &kernels)
}

/// wire bytes of a kernel of the given feature byte at `ver` (v0/v1: 17-byte fixed layout with zero padding)
fn kernel_bytes_variant(rng: &mut Rng, fb: u8, ver: u32) -> Vec<u8> {
	let fee = (rng.below(1 << 30) + 1).to_be_bytes();
	let mut b = vec![fb];
	if ver <= 1 {
		match fb {
			0 => {
				b.extend_from_slice(&fee);
				b.extend_from_slice(&[0; 8]);
			}
			1 => b.extend_from_slice(&[0; 16]),
			2 => {
				b.extend_from_slice(&fee);
				b.extend_from_slice(&be64(pick_u64(rng)));
			}
			_ => {
				b.extend_from_slice(&fee);
				b.extend_from_slice(&[0; 6]);
				b.extend_from_slice(&(1 + rng.below(10080) as u16).to_be_bytes());
			}
		}
	} else {
		match fb {
			0 => b.extend_from_slice(&fee),
			1 => {}
			2 => {
				b.extend_from_slice(&fee);
				b.extend_from_slice(&be64(pick_u64(rng)));
			}
			_ => {
				b.extend_from_slice(&fee);
				b.extend_from_slice(&(1 + rng.below(10080) as u16).to_be_bytes());
			}
		}
	}
	b.extend_from_slice(&rng.bytes(33));
	b.extend_from_slice(&rng.bytes(64));
	b
}

impl Ctx {
	/// every proper prefix (and the whole encoding) through both readers, `decs` op
	fn prefixes_s<T: Readable + Writeable>(&mut self, d: &str, ver: u32, bytes: &[u8], with_header: bool) {
		*self.resize_cases.entry(format!("{}@{}", d, ver)).or_insert(0) += 2 * (bytes.len() as u64 + 1);
		for i in 0..=bytes.len() {
			let m = &bytes[..i];
			for buf in [false, true] {
				let ex = if with_header { header_extra(m, ver) } else { "-".to_string() };
				self.decs::<T, _>(d, buf, ver, &ex, m, canon_v::<T>(ver));
			}
		}
	}
	/// the same through the `dec` op (native message bodies, segments)
	fn prefixes_d<T: Readable + Writeable>(&mut self, d: &str, ver: u32, bytes: &[u8], k: usize) {
		*self.resize_cases.entry(format!("{}@{}", d, ver)).or_insert(0) += 2 * (bytes.len() as u64 + 1);
		for i in 0..=bytes.len() {
			for buf in [false, true] {
				self.dec::<T, _>(d, buf, ver, &bytes[..i], k, canon_w::<T>(ver), false);
			}
		}
	}
}

fn prefix_streams(cx: &mut Ctx) {
	let mut r = Rng::new(cx.rng.next());
	let header = mined_header(&mut r);
	let reps = budget(cx, 1, 3);
	for v in PVERSIONS {
		for _ in 0..reps {
			// ---- kernels of every variant (NRD needs the feature flag: separate decoder name)
			for fb in [0u8, 1, 2] {
				let kb = kernel_bytes_variant(&mut r, fb, v);
				cx.prefixes_s::<TxKernel>("kernel", v, &kb, false);
			}
			global::set_local_nrd_enabled(true);
			let kb = kernel_bytes_variant(&mut r, 3, v);
			cx.prefixes_s::<TxKernel>("kernel:nrd", v, &kb, false);
			global::set_local_nrd_enabled(false);
			cx.prefixes_s::<TxKernel>("kernel", v, &kb, false);
			// ---- inputs, output identifiers, outputs, range proofs
			let ib = sv(&Input::new(OutputFeatures::Coinbase, rand_commit(&mut r)), v);
			cx.prefixes_s::<Input>("input", v, &ib, false);
			cx.prefixes_s::<OutputIdentifier>("outid", v, &ib, false);
			let ob = sv(&gen_output_p(&mut r, false, 675), v);
			cx.prefixes_s::<Output>("output", v, &ob, false);
			cx.prefixes_s::<RangeProof>("rproof", v, &ob[34..], false);
			let ob = sv(&gen_output_p(&mut r, true, 9), v);
			cx.prefixes_s::<Output>("output", v, &ob, false);
			// ---- transactions: one with a full-size proof, one with two of everything and short proofs
			let tx = gen_tx_p(&mut r, 1, 1, 1, false, 675);
			cx.prefixes_s::<Transaction>("tx", v, &sv(&tx, v), false);
			let tx = gen_tx_p(&mut r, 2, 2, 2, false, 12);
			cx.prefixes_s::<Transaction>("tx", v, &sv(&tx, v), false);
			let tx = gen_tx_p(&mut r, 0, 1, 1, false, 0);
			cx.prefixes_s::<Transaction>("tx", v, &sv(&tx, v), false);
		}
		// ---- headers, blocks, compact blocks behind the mined header
		let hb = sv(&header, v);
		cx.prefixes_s::<BlockHeader>("header", v, &hb, false);
		*cx.resize_cases.entry(format!("uheader@{}", v)).or_insert(0) += 2 * (hb.len() as u64 + 1);
		for i in 0..=hb.len() {
			for buf in [false, true] {
				let ex = header_extra(&hb[..i], v);
				cx.decs::<UntrustedBlockHeader, _>("uheader", buf, v, &ex, &hb[..i], |h| canon_v::<BlockHeader>(v)(BlockHeader::from(h)));
			}
		}
		let shapes: Vec<(usize, usize, usize, usize)> = if cx.thorough { vec![(0, 1, 1, 7), (1, 2, 2, 20), (1, 1, 1, 675)] } else { vec![(0, 1, 1, 7), (1, 2, 2, 20)] };
		for (ni, no, nk, plen) in shapes {
			let tx = gen_tx_p(&mut r, ni, no, nk, true, plen);
			let blk = Block { header: header.clone(), body: tx.body.clone() };
			let bb = sv(&blk, v);
			*cx.resize_cases.entry(format!("ublock@{}", v)).or_insert(0) += 2 * (bb.len() as u64 + 1);
			// the prefixes of the header part are covered by `uheader`: start a few bytes before its end
			for i in (hb.len() - 12)..=bb.len() {
				for buf in [false, true] {
					let ex = header_extra(&bb[..i], v);
					cx.decs::<UntrustedBlock, _>("ublock", buf, v, &ex, &bb[..i], |b| canon_v::<Block>(v)(Block::from(b)));
				}
			}
			let cbb = sv(&CompactBlock::from(blk), v);
			*cx.resize_cases.entry(format!("ucblock@{}", v)).or_insert(0) += 2 * (cbb.len() as u64 + 1);
			for i in (hb.len() - 12)..=cbb.len() {
				for buf in [false, true] {
					let ex = header_extra(&cbb[..i], v);
					cx.decs::<UntrustedCompactBlock, _>("ucblock", buf, v, &ex, &cbb[..i], |b| canon_v::<CompactBlock>(v)(CompactBlock::from(b)));
				}
			}
		}
		// ---- bitmap segments (each block mode) and the four segment responses
		let blocks = vec![bitmap_block_bytes(&mut r, 64, 1, 5), bitmap_block_bytes(&mut r, 64, 2, 3), bitmap_block_bytes(&mut r, 2, 0, 0)];
		let bs = bitmap_segment_bytes(&mut r, &blocks, 2);
		cx.prefixes_s::<BitmapSegment>("bitmapseg", v, &bs, false);
		let mut x = r.bytes(32);
		x.extend_from_slice(&bs);
		x.extend_from_slice(&r.bytes(32));
		cx.prefixes_s::<OutputBitmapSegmentResponse>("resp:22", v, &x, false);
		let out_leaf = |r: &mut Rng| {
			let mut b = vec![r.below(2) as u8];
			b.extend_from_slice(&r.bytes(33));
			b
		};
		let seg = segment_bytes_counts(&mut r, &out_leaf, 2, 2, 1);
		cx.prefixes_d::<Segment<OutputIdentifier>>("seg:outid", v, &seg, 81920 + 1024 * 40 + 4096);
		let mut x = r.bytes(32);
		x.extend_from_slice(&seg);
		x.extend_from_slice(&r.bytes(32));
		cx.prefixes_s::<OutputSegmentResponse>("resp:24", v, &x, false);
		let seg = segment_bytes_counts(&mut r, &|r| { let mut b = be64(40).to_vec(); b.extend_from_slice(&r.bytes(40)); b }, 1, 2, 1);
		cx.prefixes_d::<Segment<RangeProof>>("seg:rproof", v, &seg, 81920 + 1024 * 688 + 4096);
		let mut x = r.bytes(32);
		x.extend_from_slice(&seg);
		cx.prefixes_s::<SegmentResponse<RangeProof>>("resp:26", v, &x, false);
		let seg = {
			let i = std::cell::Cell::new(0u8);
			segment_bytes_counts(&mut r, &|r| { i.set((i.get() + 1) % 3); kernel_bytes_variant(r, i.get(), v) }, 1, 3, 1)
		};
		cx.prefixes_d::<Segment<TxKernel>>("seg:kernel", v, &seg, 81920 + 1024 * 128 + 4096);
		let mut x = r.bytes(32);
		x.extend_from_slice(&seg);
		cx.prefixes_s::<SegmentResponse<TxKernel>>("resp:28", v, &x, false);
		let mut pb = be64(3).to_vec();
		pb.extend_from_slice(&r.bytes(96));
		cx.prefixes_d::<SegmentProof>("segproof", v, &pb, 32 * 1024 + 4096);
		// ---- the message bodies that msg.rs defines
		let hand = sv(
			&Hand {
				version: ProtocolVersion(v),
				capabilities: Capabilities::default(),
				nonce: r.next(),
				genesis: hash32(&mut r),
				total_difficulty: Difficulty::from_num(pick_u64(&mut r)),
				sender_addr: gen_addr(&mut r),
				receiver_addr: gen_addr(&mut r),
				user_agent: "MW/Grin 5.4.0 é".to_string(),
			},
			1,
		);
		cx.prefixes_d::<Hand>("hand", v, &hand, 100_000 + 4096);
		let shake = sv(
			&Shake {
				version: ProtocolVersion(v),
				capabilities: Capabilities::default(),
				genesis: hash32(&mut r),
				total_difficulty: Difficulty::from_num(pick_u64(&mut r)),
				user_agent: "MW/Grin 5.4.0".to_string(),
			},
			1,
		);
		cx.prefixes_d::<Shake>("shake", v, &shake, 100_000 + 4096);
		for _ in 0..3 {
			cx.prefixes_d::<PeerAddr>("peeraddr", v, &sv(&gen_addr(&mut r), 1), 4096);
		}
		cx.prefixes_d::<PeerError>("peererror", v, &sv(&PeerError { code: 7, message: "bad things".to_string() }, 1), 100_000 + 4096);
		cx.prefixes_d::<SegmentIdentifier>("segid", v, &sv(&SegmentIdentifier { height: 9, idx: pick_u64(&mut r) }, 1), 4096);
		cx.prefixes_d::<Ping>("body:3", v, &sv(&Ping { total_difficulty: Difficulty::from_num(pick_u64(&mut r)), height: pick_u64(&mut r) }, 1), 4096);
		cx.prefixes_d::<Pong>("body:4", v, &sv(&Pong { total_difficulty: Difficulty::from_num(pick_u64(&mut r)), height: pick_u64(&mut r) }, 1), 4096);
		cx.prefixes_d::<GetPeerAddrs>("body:5", v, &sv(&GetPeerAddrs { capabilities: Capabilities::default() }, 1), 4096);
		cx.prefixes_d::<PeerAddrs>("body:6", v, &sv(&PeerAddrs { peers: (0..4).map(|_| gen_addr(&mut r)).collect() }, 1), 8192 + 4096);
		cx.prefixes_d::<Locator>("body:7", v, &sv(&Locator { hashes: (0..3).map(|_| hash32(&mut r)).collect() }, 1), 4096);
		cx.prefixes_d::<Hash>("body:10", v, &sv(&hash32(&mut r), 1), 4096);
		cx.prefixes_d::<TxHashSetRequest>("body:16", v, &sv(&TxHashSetRequest { hash: hash32(&mut r), height: pick_u64(&mut r) }, 1), 4096);
		cx.prefixes_d::<TxHashSetArchive>("body:17", v, &sv(&TxHashSetArchive { hash: hash32(&mut r), height: 5, bytes: pick_u64(&mut r) }, 1), 4096);
		cx.prefixes_d::<BanReason>("body:18", v, &sv(&BanReason { ban_reason: ReasonForBan::BadBlock }, 1), 4096);
		cx.prefixes_d::<SegmentRequest>("body:21", v, &sv(&SegmentRequest { block_hash: hash32(&mut r), identifier: SegmentIdentifier { height: 11, idx: 3 } }, 1), 4096);
		cx.prefixes_d::<MerkleProof>("merkle", v, &sv(&MerkleProof { mmr_size: 11, path: (0..3).map(|_| hash32(&mut r)).collect() }, 1), 4096);
	}
	let rc = std::mem::take(&mut cx.resize_cases);
	let total: u64 = rc.values().sum();
	let parts: Vec<String> = rc.iter().map(|(d, n)| format!("{}={}", d, n)).collect();
	cx.out.raw(&format!("#STAT every-prefix cases (decoder@version = prefixes x 2 readers), total {}: {}", total, parts.join(" ")));
}

// ---------------------------------------------------------------------------------------------
// the `Reader` methods the payload decoders use, called once directly on each concrete reader (BinReader,
// BufReader, StreamingReader) on buffers that are exactly long enough, one byte short, and empty:
//   codec rdr <method> <bin|buf|stream> <arg> <hex> => ok <value> <consumed> | err <E> | panic

fn reader_method_lines(cx: &mut Ctx) {
	use grin_core::ser::{BinReader, Reader, StreamingReader};
	let mut r = Rng::new(cx.rng.next());
	let mut jobs: Vec<(&str, u64, Vec<u8>)> = vec![];
	for (m, w) in [("u8", 1usize), ("u16", 2), ("u32", 4), ("u64", 8), ("i64", 8), ("i32", 4)] {
		let mut full = r.bytes(w);
		if m == "i64" || m == "i32" {
			full[0] |= 0x80;
		}
		jobs.push((m, 0, full.clone()));
		jobs.push((m, 0, full[..w - 1].to_vec()));
		jobs.push((m, 0, vec![]));
	}
	for n in [0u64, 1, 4, 33, 675] {
		let full = r.bytes(n as usize);
		jobs.push(("fixed", n, full.clone()));
		if n > 0 {
			jobs.push(("fixed", n, full[..n as usize - 1].to_vec()));
			jobs.push(("fixed", n, vec![]));
		}
		let mut p = be64(n).to_vec();
		p.extend_from_slice(&full);
		jobs.push(("lenprefix", 0, p.clone()));
		jobs.push(("lenprefix", 0, p[..p.len() - 1].to_vec()));
		for cut in [0usize, 7, 8] {
			jobs.push(("lenprefix", 0, p[..cut.min(p.len())].to_vec()));
		}
	}
	for n in [0u64, 1, 6, 8, 16] {
		let z = vec![0u8; n as usize];
		jobs.push(("empty", n, z.clone()));
		if n > 0 {
			jobs.push(("empty", n, z[..n as usize - 1].to_vec()));
			jobs.push(("empty", n, vec![]));
			for pos in [0usize, n as usize - 1] {
				let mut nz = z.clone();
				nz[pos] = 1 + r.below(255) as u8;
				jobs.push(("empty", n, nz.clone()));
				// a non-zero byte followed by a truncated tail
				jobs.push(("empty", n, nz[..pos + 1].to_vec()));
			}
		}
	}
	for (val, have) in [(7u64, vec![7u8]), (7, vec![8]), (7, vec![]), (0, vec![0, 1]), (255, vec![255])] {
		jobs.push(("expect", val, have));
	}
	let mut n_lines = 0u64;
	for (m, arg, bytes) in jobs.iter() {
		for rdk in ["bin", "buf", "stream"] {
			let owned = bytes.clone();
			let m2 = m.to_string();
			let arg2 = *arg;
			let (res, _maxreq) = measured(move || {
				fn run<R: Reader>(rd: &mut R, m: &str, arg: u64) -> Result<String, ser::Error> {
					Ok(match m {
						"u8" => rd.read_u8()?.to_string(),
						"u16" => rd.read_u16()?.to_string(),
						"u32" => rd.read_u32()?.to_string(),
						"u64" => rd.read_u64()?.to_string(),
						"i64" => rd.read_i64()?.to_string(),
						"i32" => rd.read_i32()?.to_string(),
						"fixed" => hex(&rd.read_fixed_bytes(arg as usize)?),
						"lenprefix" => hex(&rd.read_bytes_len_prefix()?),
						"empty" => {
							rd.read_empty_bytes(arg as usize)?;
							"-".to_string()
						}
						_ => rd.expect_u8(arg as u8)?.to_string(),
					})
				}
				match rdk {
					"bin" => {
						let mut slice = &owned[..];
						let mut rd = BinReader::new(&mut slice, ProtocolVersion(1), DeserializationMode::default());
						let v = run(&mut rd, &m2, arg2);
						v.map(|s| (s, owned.len() - slice.len()))
					}
					"buf" => {
						let mut b = bytes::Bytes::copy_from_slice(&owned);
						let mut rd = BufReader::new(&mut b, ProtocolVersion(1));
						let v = run(&mut rd, &m2, arg2);
						let n = rd.bytes_read() as usize;
						v.map(|s| (s, n))
					}
					_ => {
						let mut slice = &owned[..];
						let v = {
							let mut rd = StreamingReader::new(&mut slice, ProtocolVersion(1));
							run(&mut rd, &m2, arg2)
						};
						v.map(|s| (s, owned.len() - slice.len()))
					}
				}
			});
			let lhs = format!("codec rdr {} {} {} {}", m, rdk, arg, hex(bytes));
			let rhs = match res {
				Ok(Ok((v, n))) => format!("ok {} {}", v, n),
				Ok(Err(e)) => format!("err {}", err_name(&e)),
				Err(p) => {
					cx.oracle_fails += 1;
					cx.out.raw(&format!("#ORACLE-FAIL C11 panic in Reader::{} of {} ({}): {}", m, rdk, p.replace('\n', " "), lhs));
					"panic".to_string()
				}
			};
			cx.out.line(&lhs, &rhs);
			n_lines += 1;
		}
	}
	cx.out.raw(&format!("#STAT Reader methods called directly on BinReader / BufReader / StreamingReader (exact, one byte short, empty buffers): {} lines", n_lines));
}

// ---------------------------------------------------------------------------------------------
// unknown message types with announced lengths around and far above the limit: the refusal must
// happen at the header, on the handshake path (`read_header`, `read_message` -> `read_discard`) and in
// the real `Codec`, without the announced length ever reaching the allocator

fn unknown_type_oracle(cx: &mut Ctx) {
	let dmax: u64 = global::max_block_weight() / 21 * 708;
	let lens: Vec<u64> = vec![4 * dmax - 1, 4 * dmax, 4 * dmax + 1, 4 * dmax + 2, 1 << 28, 1 << 40, 1 << 63, u64::MAX];
	let mut cases = 0u64;
	let types: Vec<u8> = if cx.thorough { (29..=255).collect() } else { (29..=255).step_by(1).collect() };
	for t in types {
		let mut over = false;
		for &len in &lens {
			if over {
				break; // an over-allocation was already reported for this type: do not go for the abort
			}
			let mut w = vec![73u8, 43, t];
			w.extend_from_slice(&be64(len));
			let must_refuse = len > 4 * dmax;
			cases += 1;
			// (a) read_header
			let w1 = w.clone();
			let (r, maxreq) = measured(move || grin_p2p::msg::read_header(&mut &w1[..], ProtocolVersion(1)).map(|_| ()).map_err(|e| format!("{:?}", e)));
			let refused = matches!(&r, Ok(Err(e)) if e.contains("TooLargeReadErr"));
			if let Err(p) = &r {
				cx.oracle_fails += 1;
				over = true;
				cx.out.raw(&format!("#ORACLE-FAIL C11 panic {} in read_header for an 11-byte input (unknown type {}, announced len {}): {}", p.replace('\n', " "), t, len, hex(&w)));
			} else if must_refuse && !refused {
				cx.oracle_fails += 1;
				cx.out.raw(&format!("#ORACLE-FAIL C11 read_header accepts unknown type {} with announced len {} above the limit {}: {}", t, len, 4 * dmax, hex(&w)));
			}
			if maxreq > 4096 {
				cx.oracle_fails += 1;
				over = true;
				cx.out.raw(&format!("#ORACLE-FAIL C11 over-allocation: {} bytes requested for an 11-byte input in read_header (unknown type {}, announced len {}): {}", maxreq, t, len, hex(&w)));
			}
			// (b) read_message (handshake): header, then `read_discard(msg_len)` for an unknown type
			let w2 = w.clone();
			let (r, maxreq) = measured(move || {
				grin_p2p::msg::read_message::<Hand, _>(&mut &w2[..], ProtocolVersion(1), Type::Hand).map(|_| ()).map_err(|e| format!("{:?}", e))
			});
			let limit = if must_refuse { 4096 } else { 4 * dmax as usize + 4096 };
			match &r {
				Err(p) => {
					cx.oracle_fails += 1;
					over = true;
					cx.out.raw(&format!("#ORACLE-FAIL C11 panic {} in read_message for an 11-byte input (unknown type {}, announced len {}): {}", p.replace('\n', " "), t, len, hex(&w)));
				}
				Ok(_) if maxreq > limit => {
					cx.oracle_fails += 1;
					over = true;
					cx.out.raw(&format!("#ORACLE-FAIL C11 over-allocation: {} bytes requested for an 11-byte input in read_message/read_discard (unknown type {}, announced len {}): {}", maxreq, t, len, hex(&w)));
				}
				_ => {}
			}
			let cls = match &r {
				Ok(Ok(())) => "ok".to_string(),
				Ok(Err(e)) if e.contains("TooLargeReadErr") => "err Ser:TooLargeReadErr".to_string(),
				Ok(Err(e)) if e.contains("BadMessage") => "err BadMessage".to_string(),
				Ok(Err(e)) if e.contains("Connection") => "err Connection".to_string(),
				Ok(Err(e)) if e.contains("Serialization") => "err Ser:Other".to_string(),
				Ok(Err(_)) => "err Other".to_string(),
				Err(_) => "panic".to_string(),
			};
			cx.out.line(&format!("codec rmsg hand {}", hex(&w)), &format!("{} {}", cls, maxreq));
			// (c) the real Codec over loopback (a sample of the type bytes: one connection per case)
			if !over && (t % 16 == 13 || t == 255 || cx.thorough) {
				let listener = std::net::TcpListener::bind("127.0.0.1:0").unwrap();
				let addr = listener.local_addr().unwrap();
				let w3 = w.clone();
				let th = std::thread::spawn(move || {
					let mut s = std::net::TcpStream::connect(addr).unwrap();
					let _ = s.write_all(&w3);
					let _ = s.shutdown(std::net::Shutdown::Write);
					let mut sink = [0u8; 8];
					let _ = std::io::Read::read(&mut s, &mut sink);
				});
				let (stream, _) = listener.accept().unwrap();
				let mut codec = Codec::new(ProtocolVersion(1), stream);
				MAX_REQ.store(0, Ordering::Relaxed);
				let res = catch(std::panic::AssertUnwindSafe(|| {
					let (r, n) = codec.read();
					(r.map(|_| ()).map_err(|e| format!("{:?}", e)), n)
				}));
				let maxreq = MAX_REQ.load(Ordering::Relaxed);
				let limit = if must_refuse { 65536 } else { 2 * (4 * dmax as usize) + 65536 };
				match &res {
					Err(p) => {
						cx.oracle_fails += 1;
						over = true;
						cx.out.raw(&format!("#ORACLE-FAIL C11 panic {} in Codec::read for an 11-byte input (unknown type {}, announced len {}): {}", p.replace('\n', " "), t, len, hex(&w)));
					}
					Ok((r, n)) => {
						if maxreq > limit {
							cx.oracle_fails += 1;
							over = true;
							cx.out.raw(&format!("#ORACLE-FAIL C11 over-allocation: {} bytes requested for an 11-byte input in Codec::read (unknown type {}, announced len {}): {}", maxreq, t, len, hex(&w)));
						}
						let refused = matches!(r, Err(e) if e.contains("TooLargeReadErr"));
						if must_refuse && (!refused || *n != 11) {
							cx.oracle_fails += 1;
							cx.out.raw(&format!("#ORACLE-FAIL C11 Codec::read does not refuse unknown type {} with announced len {} at the header (result {:?}, {} bytes read): {}", t, len, r, n, hex(&w)));
						}
					}
				}
				let _ = codec.stream().shutdown(std::net::Shutdown::Both);
				let _ = th.join();
			}
		}
	}
	cx.out.raw(&format!("#STAT unknown-type over-limit oracle: {} (type byte, announced length) cases through read_header, read_message and a sample through the real Codec", cases));
}

// ---------------------------------------------------------------------------------------------
// regression probes: the witnesses of the defects repaired in /repo (fixed: entries of known_findings.json)

fn regress(cx: &mut Ctx, tag: &str, ok: bool, detail: String) {
	if ok {
		cx.out.raw(&format!("#STAT regression probe {}: repaired behaviour confirmed ({})", tag, detail));
	} else {
		cx.oracle_fails += 1;
		cx.out.raw(&format!("#ORACLE-FAIL C11 regression of repaired defect {}: {}", tag, detail));
	}
}

fn probe_in_process(cx: &mut Ctx) {
	// 1. MerkleProof::read: path_len = 2^58 (was: capacity-overflow panic) and 2^32 (was: 128 GiB request)
	for (tag, pl) in [("merkleproof-read-capacity-panic", 1u64 << 58), ("merkleproof-read-prealloc", 1u64 << 32)] {
		for buf in [false, true] {
			let mut w = be64(0).to_vec();
			w.extend_from_slice(&be64(pl));
			let (r, maxreq) = read_with::<MerkleProof>(buf, &w, 1);
			let ok = matches!(r, Ok(Err(_))) && maxreq <= 4096;
			regress(cx, tag, ok, format!(
				"MerkleProof::read on {} via {}: {} largest request {}",
				hex(&w), if buf { "BufReader" } else { "BinReader" },
				match &r { Ok(Ok(_)) => "ok".to_string(), Ok(Err(e)) => format!("err {}", err_name(e)), Err(p) => format!("PANIC {}", p) },
				maxreq
			));
		}
	}
	// 2. util::from_hex / Hash::from_hex on a multi-byte character
	let (r, _) = measured(|| grin_util::from_hex("€a"));
	regress(cx, "util-from-hex-char-boundary", matches!(r, Ok(Err(_))), format!("util::from_hex(\"€a\") -> {}", match &r { Ok(Ok(_)) => "ok".into(), Ok(Err(_)) => "err".into(), Err(p) => format!("PANIC {}", p.replace('\n', " ")) }));
	let (r, _) = measured(|| Hash::from_hex("€a").is_err());
	regress(cx, "util-from-hex-char-boundary", matches!(r, Ok(true)), format!("Hash::from_hex(\"€a\") -> {:?}", r.map_err(|p| format!("PANIC {}", p.replace('\n', " ")))));
	// 3. MerkleProof::from_hex on non-hex / odd length / non-ASCII
	for h in ["zz", "0", "€a"] {
		let hs = h.to_string();
		let (r, _) = measured(move || MerkleProof::from_hex(&hs).is_err());
		regress(cx, "merkleproof-from-hex-unwrap", matches!(r, Ok(true)), format!("MerkleProof::from_hex({:?}) -> {:?}", h, r.map_err(|p| format!("PANIC {}", p.replace('\n', " ")))));
	}
	// 4. Segment::validate on an unsolicited identifier whose range holds no position: must be Err
	for (h, idx) in [(0u8, 1u64 << 40), (11, 5), (200, 1), (63, 3)] {
		let mut b = vec![h];
		b.extend_from_slice(&be64(idx));
		b.extend_from_slice(&be64(0)); // no hashes
		b.extend_from_slice(&be64(0)); // no leaves
		b.extend_from_slice(&be64(0)); // empty proof
		let seg: Segment<TxKernel> = ser::deserialize(&mut &b[..], ProtocolVersion(1), DeserializationMode::default()).unwrap();
		let (r, _) = measured(move || seg.validate(10, None, Hash::from_vec(&[0u8; 32])).is_err());
		regress(cx, "segment-validate-unwrap", matches!(r, Ok(true)), format!(
			"Segment::<TxKernel>::validate(10, None, _) for identifier (height={}, idx={}) from {} -> {:?}",
			h, idx, hex(&b), r.map_err(|p| format!("PANIC {}", p.replace('\n', " ")))
		));
	}
}

// ---------------------------------------------------------------------------------------------

fn child_main(mode: &str) {
	quiet_panics();
	global::set_local_chain_type(ChainTypes::AutomatedTesting);
	// watchdog: no progress for 20 s = hang
	std::thread::spawn(|| {
		let mut last = HEARTBEAT.load(Ordering::Relaxed);
		let mut idle = 0;
		loop {
			std::thread::sleep(std::time::Duration::from_secs(2));
			let now = HEARTBEAT.load(Ordering::Relaxed);
			if now == last {
				idle += 1;
			} else {
				idle = 0;
				last = now;
			}
			if idle >= 10 {
				println!("\n#ORACLE-FAIL C11 hang: no progress for 20 s after case #{}", now);
				if SWEEP_AT[0].load(Ordering::Relaxed) > 0 {
					let v: Vec<u64> = SWEEP_AT.iter().map(|a| a.load(Ordering::Relaxed)).collect();
					println!("#ORACLE-FAIL C11 segment-validate-hangs-on-mmr-size the call in flight: MMR of {} leaves, segment (height {}, idx {}), variant {}, claimed mmr_size {}, bitmap #{}, function #{} (0 root, 1 first_unpruned_parent, 2 validate, 3 validate_with, 4.. proof level)", v[0], v[1], v[2], v[3], v[4], v[5], v[6]);
				}
				std::process::exit(3);
			}
		}
	});
	let mut cx = Ctx {
		out: Out::stdout(),
		rng: Rng::new(seed_from_env()),
		thorough: tier_thorough(),
		stats: BTreeMap::new(),
		oracle_fails: 0,
		resize_cases: BTreeMap::new(),
	};
	match mode {
		"main" => {
			hdr_stream(&mut cx);
			native_streams(&mut cx);
			utf8_string_streams(&mut cx);
			segment_streams(&mut cx);
			segment_size_sweep(&mut cx);
			merkle_stream(&mut cx);
			hex_streams(&mut cx);
			payload_streams(&mut cx);
			consistent_resize_streams(&mut cx);
			ser_streams(&mut cx);
			prefix_streams(&mut cx);
			reader_method_lines(&mut cx);
			unknown_type_oracle(&mut cx);
			probe_in_process(&mut cx);
		}
		"mverify" => {
			merkle_verify_stream(&mut cx);
		}
		_ => {}
	}
	let stats = std::mem::take(&mut cx.stats);
	for (d, s) in stats {
		let kinds: Vec<String> = s.kinds.iter().map(|(k, v)| format!("{}={}", k, v)).collect();
		cx.out.raw(&format!(
			"#STAT decoder {}: cases={} ok={} err={} panic={} max_request={} max_request/len={}.{:03} errors[{}]",
			d, s.cases, s.ok, s.err, s.panic, s.max_req, s.max_ratio_milli / 1000, s.max_ratio_milli % 1000, kinds.join(",")
		));
	}
	cx.out.raw(&format!("#STAT oracle failures: {}", cx.oracle_fails));
	cx.out.flush();
	HEARTBEAT.fetch_add(1, Ordering::Relaxed);
}

/// run a child, copy its stdout through; returns (exit status description, stderr text, last line)
fn run_child(mode: &str, sink: &mut dyn Write) -> (Option<i32>, Option<i32>, String, String) {
	use std::os::unix::process::ExitStatusExt;
	let exe = std::env::current_exe().unwrap();
	let mut ch = std::process::Command::new(exe)
		.arg("child")
		.arg(mode)
		.stdout(std::process::Stdio::piped())
		.stderr(std::process::Stdio::piped())
		.spawn()
		.expect("spawn child");
	let so = ch.stdout.take().unwrap();
	let mut se = ch.stderr.take().unwrap();
	let t = std::thread::spawn(move || {
		let mut s = String::new();
		let _ = std::io::Read::read_to_string(&mut se, &mut s);
		s
	});
	let mut last = String::new();
	let rd = std::io::BufReader::new(so);
	for line in rd.lines() {
		match line {
			Ok(l) => {
				let _ = writeln!(sink, "{}", l);
				if !l.starts_with('#') && !l.is_empty() {
					last = l;
				}
			}
			Err(_) => break,
		}
	}
	let st = ch.wait().unwrap();
	let err = t.join().unwrap_or_default();
	(st.code(), st.signal(), err, last)
}

// ---------------------------------------------------------------------------------------------
// `dec powsweep`: READ-TIME proof-of-work validation under EVERY chain type and in EVERY hard-fork
// window. `UntrustedBlockHeader::read` calls `pow::verify_size`, which dispatches on (chain type,
// edge_bits, header version): on Mainnet / Testnet a 29-bit header of version 1 / 2 / 3 / 4+ goes to the
// cuckaroo / cuckarood / cuckaroom / cuckarooz verifier, 31+ bits to cuckatoo; the test chain types send
// everything to cuckatoo. Each of the five verifiers must be reached from the wire readers: headers with
// (version, height) pairs from each window, edge_bits min / 29 / 31 / 32, and nonce lists of many shapes
// (all even, all odd, 22 + 20, balanced, ascending or not, repeated, maximal) are decoded as Header, Block
// and CompactBlock messages through both readers, every call under `catch`. No real work is needed: a
// verifier must refuse these without panicking. Oracle on the implementation only (no model lines).

fn nonce_shapes(rng: &mut Rng, n: usize, edge_bits: u8) -> Vec<(String, Vec<u64>)> {
	let mask: u64 = if edge_bits >= 63 { u64::MAX >> 1 } else { (1u64 << edge_bits) - 1 };
	let asc = |f: &dyn Fn(u64) -> u64| -> Vec<u64> { (0..n as u64).map(|i| f(i) & mask).collect() };
	let mut v: Vec<(String, Vec<u64>)> = vec![
		("all-even-ascending".into(), asc(&|i| 2 * i)),
		("all-odd-ascending".into(), asc(&|i| 2 * i + 1)),
		("balanced-alternating".into(), asc(&|i| i)),
		("all-zero".into(), vec![0; n]),
		("all-max".into(), vec![mask; n]),
		("descending".into(), (0..n as u64).rev().map(|i| (3 * i + 1) & mask).collect()),
		("top-of-range-ascending".into(), asc(&|i| mask - (n as u64) + i)),
	];
	// k of one parity then n - k of the other, sorted ascending (the shape the parity-split verifiers walk)
	for k in [n / 2 + 1, n / 2 - 1, n - 1, 1] {
		for first_even in [true, false] {
			let mut l: Vec<u64> = vec![];
			for i in 0..n as u64 {
				let par = if (i < k as u64) == first_even { 0 } else { 1 };
				l.push(((2 * (i * 7 + 3)) | par) & mask);
			}
			l.sort();
			v.push((format!("{}-{}-then-{}-ascending", k, if first_even { "even" } else { "odd" }, n - k), l));
		}
	}
	for j in 0..4 {
		let mut l: Vec<u64> = (0..n).map(|_| rng.next() & mask).collect();
		if j % 2 == 0 {
			l.sort();
		}
		if j == 2 {
			for x in l.iter_mut() {
				*x &= !1;
			}
		}
		if j == 3 {
			for x in l.iter_mut() {
				*x |= 1;
			}
		}
		v.push((format!("random-{}", j), l));
	}
	v
}

fn pow_sweep() {
	quiet_panics();
	let stdout = std::io::stdout();
	let mut sink = std::io::BufWriter::new(stdout.lock());
	let mut rng = Rng::new(seed_from_env() ^ 0x90f);
	let mut fails = 0u64;
	let mut stats: BTreeMap<String, u64> = BTreeMap::new();
	let chains = [(ChainTypes::Mainnet, "Mainnet"), (ChainTypes::Testnet, "Testnet"), (ChainTypes::AutomatedTesting, "AutomatedTesting"), (ChainTypes::UserTesting, "UserTesting")];
	for (ct, cname) in chains.iter() {
		global::set_local_chain_type(*ct);
		// heights: the start, the inside and the last block of every hard-fork window of this chain type
		let mut bounds: Vec<u64> = vec![0];
		let mut h = 0u64;
		let mut last_v = grin_core::consensus::header_version(0);
		// find the window starts by bisection-free scan over the known schedule sizes
		for cand in [3u64, 6, 9, 12, 185_040, 262_080, 298_080, 524_160, 552_960, 642_240, 786_240, 1_048_320] {
			let v = grin_core::consensus::header_version(cand);
			if v != last_v && cand > h {
				bounds.push(cand);
				last_v = v;
				h = cand;
			}
		}
		let mut heights: Vec<u64> = vec![];
		for (i, b) in bounds.iter().enumerate() {
			heights.push(*b);
			heights.push(*b + 1);
			let end = bounds.get(i + 1).cloned().unwrap_or(*b + 100_000);
			heights.push(*b + (end - *b) / 2);
			heights.push(end - 1);
		}
		heights.sort();
		heights.dedup();
		let n = global::proofsize();
		let mut ebs: Vec<u8> = vec![global::min_edge_bits(), 29, 31, 32];
		ebs.sort();
		ebs.dedup();
		for height in heights.iter() {
			let version = grin_core::consensus::header_version(*height);
			for eb in ebs.iter() {
				for (shape, nonces) in nonce_shapes(&mut rng, n, *eb) {
					let hd = BlockHeader {
						version,
						height: *height,
						prev_hash: hash32(&mut rng),
						prev_root: hash32(&mut rng),
						timestamp: chrono::DateTime::<chrono::Utc>::from_timestamp(1_600_000_000, 0).unwrap(),
						output_root: hash32(&mut rng),
						range_proof_root: hash32(&mut rng),
						kernel_root: hash32(&mut rng),
						total_kernel_offset: BlindingFactor::from_slice(&rng.bytes(32)),
						output_mmr_size: 4,
						kernel_mmr_size: 3,
						pow: ProofOfWork { total_difficulty: Difficulty::from_num(5), secondary_scaling: 1, nonce: rng.next(), proof: Proof { edge_bits: *eb, nonces: nonces.clone() } },
					};
					let hb = match catch(std::panic::AssertUnwindSafe(|| ser::ser_vec(&hd, ProtocolVersion(2)))) {
						Ok(Ok(b)) => b,
						_ => {
							*stats.entry(format!("powsweep {} header not writable", cname)).or_insert(0) += 1;
							continue;
						}
					};
					let mut block = hb.clone();
					block.extend_from_slice(&[0u8; 24]);
					let mut cblock = hb.clone();
					cblock.extend_from_slice(&rng.bytes(8));
					cblock.extend_from_slice(&[0u8; 24]);
					for (what, bytes) in [("Header", &hb), ("Block", &block), ("CompactBlock", &cblock)] {
						for buf in [false, true] {
							let r: Result<String, String> = match what {
								"Header" => read_with::<UntrustedBlockHeader>(buf, bytes, 2).0.map(|r| if r.is_ok() { "ok".into() } else { "err".into() }),
								"Block" => read_with::<UntrustedBlock>(buf, bytes, 2).0.map(|r| if r.is_ok() { "ok".into() } else { "err".into() }),
								_ => read_with::<UntrustedCompactBlock>(buf, bytes, 2).0.map(|r| if r.is_ok() { "ok".into() } else { "err".into() }),
							};
							match r {
								Ok(c) => *stats.entry(format!("powsweep {} v{} eb{} {} {}", cname, version.0, eb, what, c)).or_insert(0) += 1,
								Err(msg) => {
									fails += 1;
									if fails <= 30 {
										let _ = writeln!(sink, "#ORACLE-FAIL C11 read-time pow validation panicked: {} v{} h{} edge_bits {} {} ({}, {}; {}) nonces {}", cname, version.0, height, eb, what, if buf { "BufReader" } else { "BinReader" }, shape, msg.replace('\n', " "), nat_list(&nonces));
									}
								}
							}
						}
					}
				}
			}
		}
	}
	for (k, v) in stats.iter() {
		let _ = writeln!(sink, "#STAT {} = {}", k, v);
	}
	let _ = writeln!(sink, "#STAT powsweep oracle failures = {}", fails);
	let _ = sink.flush();
}

fn main() {
	let args: Vec<String> = std::env::args().collect();
	if args.len() >= 2 && args[1] == "powsweep" {
		pow_sweep();
		return;
	}
	if args.len() >= 3 && args[1] == "child" {
		child_main(&args[2]);
		return;
	}
	let stdout = std::io::stdout();
	let mut sink = std::io::BufWriter::new(stdout.lock());
	// 1. the main stream in a child: an abort / hang of the real code is observed here
	let (code, sig, err, last) = run_child("main", &mut sink);
	if code != Some(0) {
		let tail: String = err.chars().rev().take(300).collect::<String>().chars().rev().collect();
		if code == Some(3) {
			// the child printed its own #ORACLE-FAIL hang line
		} else {
			let _ = writeln!(
				sink,
				"#ORACLE-FAIL C11 abort: decoder process died (exit {:?} signal {:?}) after line [{}]; stderr tail: {}",
				code,
				sig,
				last.chars().take(400).collect::<String>(),
				tail.replace('\n', " | ")
			);
		}
	}
	// 2. MerkleProof::verify on decoded proofs, in a child of its own (deep recursion: an abort
	// must not take the main stream with it)
	let (code, sig, err, last) = run_child("mverify", &mut sink);
	if code != Some(0) && code != Some(3) {
		let tail: String = err.chars().rev().take(300).collect::<String>().chars().rev().collect();
		let _ = writeln!(
			sink,
			"#ORACLE-FAIL C11 abort: MerkleProof::verify process died (exit {:?} signal {:?}) after line [{}]; stderr tail: {}",
			code,
			sig,
			last.chars().take(400).collect::<String>(),
			tail.replace('\n', " | ")
		);
	}
	let _ = sink.flush();
}
