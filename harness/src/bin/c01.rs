//! C01 single-field corruption sweep on real transactions and blocks: every kernel signature
//! index, every range proof index, fee / offset / dropped / duplicated / foreign kernel, forged
//! coinbase value, flag and extra coinbase pairs. The property itself says each of these must be
//! refused, so the oracle is evaluated on the implementation directly ("corrupted … accepted").
use grin_core::core::transaction::{self, Transaction, Weighting};
use grin_core::core::{Block, KernelFeatures, OutputFeatures};
use grin_core::global::{self, ChainTypes};
use grin_core::libtx::{build, reward, ProofBuilder};
use grin_core::pow::Difficulty;
use grin_keychain::{BlindingFactor, ExtKeychain, ExtKeychainPath, Keychain};
use gvharness::*;

fn key(d: u32, i: u32) -> grin_keychain::Identifier {
	ExtKeychainPath::new(2, d, i, 0, 0).to_identifier()
}

fn simple_tx(kc: &ExtKeychain, n: u32, fee: u32, value: u64) -> Transaction {
	build::transaction(
		KernelFeatures::Plain { fee: fee.into() },
		&[build::input(value, key(1, n)), build::output(value - fee as u64, key(2, n))],
		kc,
		&ProofBuilder::new(kc),
	)
	.unwrap()
}

/// a valid transaction whose kernel excess is the whole blinding sum (offset zero)
fn zero_offset_tx(kc: &ExtKeychain, n: u32, fee: u32, value: u64) -> Transaction {
	use grin_core::core::TxKernel;
	use grin_core::libtx::aggsig;
	let pb = ProofBuilder::new(kc);
	let (tx, blind_sum) = build::partial_transaction(
		Transaction::empty(),
		&[build::input(value, key(1, n)), build::output(value - fee as u64, key(2, n))],
		kc,
		&pb,
	)
	.unwrap();
	let secp = kc.secp();
	let mut kernel = TxKernel::with_features(KernelFeatures::Plain { fee: fee.into() });
	let msg = kernel.msg_to_sign().unwrap();
	let skey = blind_sum.secret_key(secp).unwrap();
	kernel.excess = secp.commit(0, skey.clone()).unwrap();
	let pubkey = kernel.excess.to_pubkey(secp).unwrap();
	kernel.excess_sig = aggsig::sign_single(secp, &msg, &skey, None, Some(&pubkey)).unwrap();
	let mut tx = tx.replace_kernel(kernel);
	tx.offset = BlindingFactor::zero();
	tx
}

fn verdict_tx_w(tx: &Transaction, w: Weighting) -> String {
	match catch(std::panic::AssertUnwindSafe(|| tx.validate(w))) {
		Ok(Ok(_)) => "ok".into(),
		Ok(Err(e)) => format!("err:{}", format!("{:?}", e).chars().take_while(|c| c.is_alphanumeric()).collect::<String>()),
		Err(_) => "panic".into(),
	}
}

/// the weightings a transaction is validated under in the node: as a transaction (pool admission),
/// as a limited transaction (mineable-set selection), as a block body, and with no limit (every
/// aggregate the pool builds)
thread_local! {
	/// quick tier, per-index sweeps: only the two weightings the pool uses (AsTransaction, NoLimit)
	static LIGHT: std::cell::Cell<bool> = std::cell::Cell::new(false);
}

fn weightings() -> Vec<(&'static str, Weighting)> {
	if LIGHT.with(|l| l.get()) {
		return vec![("AsTransaction", Weighting::AsTransaction), ("NoLimit", Weighting::NoLimit)];
	}
	vec![
		("AsTransaction", Weighting::AsTransaction),
		("AsLimitedTransaction(max)", Weighting::AsLimitedTransaction(global::max_block_weight())),
		("AsLimitedTransaction(10000)", Weighting::AsLimitedTransaction(10_000)),
		("AsBlock", Weighting::AsBlock),
		("NoLimit", Weighting::NoLimit),
	]
}

/// `Transaction::validate` under EVERY weighting. All bodies of this sweep are far below every weight
/// limit, so the weighting must not matter: one verdict when they agree, `MIXED[..]` (always an
/// oracle failure) when they do not.
fn verdict_tx(tx: &Transaction) -> String {
	let vs: Vec<(&str, String)> = weightings().into_iter().map(|(n, w)| (n, verdict_tx_w(tx, w))).collect();
	if vs.iter().all(|(_, v)| *v == vs[0].1) {
		vs[0].1.clone()
	} else {
		let l: Vec<String> = vs.iter().map(|(n, v)| format!("{}={}", n, v)).collect();
		format!("MIXED[{}]", l.join(","))
	}
}

/// a fee-field word as it arrives from the wire: `FeeFields::read` takes any u64
fn fee_from_word(w: u64) -> grin_core::core::FeeFields {
	use grin_core::ser::{self, DeserializationMode, ProtocolVersion};
	let bytes = w.to_be_bytes();
	ser::deserialize::<grin_core::core::FeeFields, _>(&mut &bytes[..], ProtocolVersion(2), DeserializationMode::default()).unwrap()
}

/// the transaction written to bytes and read back (so that every kernel really went through
/// `TxKernel::read` / `FeeFields::read`); None when the reader refuses it
fn through_bytes(tx: &Transaction) -> Option<Transaction> {
	use grin_core::ser::{self, DeserializationMode, ProtocolVersion};
	// protocol version 3: inputs as bare commitments (what libtx builds), kernels in the v2 layout
	let v = ser::ser_vec(tx, ProtocolVersion(3)).ok()?;
	ser::deserialize::<Transaction, _>(&mut &v[..], ProtocolVersion(3), DeserializationMode::default()).ok()
}

fn verdict_block(b: &Block, prev_offset: &BlindingFactor) -> String {
	match catch(std::panic::AssertUnwindSafe(|| b.validate(prev_offset))) {
		Ok(Ok(_)) => "ok".into(),
		Ok(Err(e)) => format!("err:{}", format!("{:?}", e).chars().take_while(|c| c.is_alphanumeric()).collect::<String>()),
		Err(_) => "panic".into(),
	}
}

fn expect_reject(out: &mut Out, lhs: &str, v: &str, n_bad: &mut u64) {
	out.line(lhs, v);
	if v == "ok" || v == "panic" || v.starts_with("MIXED") {
		*n_bad += 1;
		out.raw(&format!("#ORACLE-FAIL C01 corrupted object accepted (or panic): {} => {}", lhs, v));
	}
}

fn main() {
	quiet_panics();
	// Mainnet weight limits so that transactions and blocks with many kernels are possible
	global::set_local_chain_type(ChainTypes::Mainnet);
	global::set_local_accept_fee_base(1);
	global::set_local_nrd_enabled(true);
	let mut rng = Rng::new(seed_from_env());
	let thorough = tier_thorough();
	let mut out = Out::stdout();
	let kc = ExtKeychain::from_seed(&[9u8; 32], false).unwrap();
	let mut bad = 0u64;
	let mut cases = 0u64;
	// sizes chosen around the batch sizes a verifier might use
	let sizes: Vec<usize> = if thorough { vec![1, 2, 3, 31, 32, 33, 34, 40, 64, 65, 66, 70] } else { vec![1, 2, 33, 34, 66] };
	let maxn = *sizes.iter().max().unwrap();
	let txs: Vec<Transaction> = (0..maxn as u32 + 2).map(|i| simple_tx(&kc, i, 2 + (i % 5), 1_000_000 + i as u64 * 17)).collect();
	for n in sizes {
		let agg = transaction::aggregate(&txs[..n]).unwrap();
		out.line(&format!("c01 tx valid n={}", n), &verdict_tx(&agg));
		if verdict_tx(&agg) != "ok" {
			out.raw(&format!("#ORACLE-FAIL C01 valid aggregate of {} transactions rejected", n));
		}
		let nk = agg.kernels().len();
		// every kernel signature index: the signature of another kernel (well-formed, wrong).
		// The kernel hash covers the signature, so the body is re-sorted after the swap (otherwise
		// the sort check fires first and the signature check is never reached); (victim, donor)
		// pairs are chosen so that the corrupted kernel lands on EVERY sorted index once.
		{
			let mut covered: Vec<Option<Transaction>> = vec![None; nk];
			let mut left = nk;
			'search: for j in 0..nk {
				for d in 0..nk + 1 {
					let sig = if d < nk {
						if d == j {
							continue;
						}
						agg.kernels()[d].excess_sig.clone()
					} else {
						txs[n].kernels()[0].excess_sig.clone()
					};
					let mut t = agg.clone();
					t.body.kernels[j].excess_sig = sig.clone();
					let marker = t.body.kernels[j].clone();
					t.body.kernels.sort_unstable();
					let idx = t.body.kernels.iter().position(|k| *k == marker).unwrap();
					if covered[idx].is_none() {
						covered[idx] = Some(t);
						left -= 1;
						if left == 0 {
							break 'search;
						}
					}
				}
			}
			for (i, t) in covered.iter().enumerate() {
				if let Some(t) = t {
					cases += 1;
					LIGHT.with(|l| l.set(!thorough && nk > 8 && i % 8 != 0));
					expect_reject(&mut out, &format!("c01 tx n={} sig-of-another-kernel sorted-index={}", n, i), &verdict_tx(t), &mut bad);
					LIGHT.with(|l| l.set(false));
				}
			}
			out.raw(&format!("#STAT c01 n={} signature corruption landed on {} of {} sorted kernel indices", n, nk - left, nk));
		}
		// every output index: the range proof of another output
		let no = agg.outputs().len();
		for i in 0..no {
			let mut t = agg.clone();
			let donor = if no > 1 { (i + 1) % no } else { 0 };
			let p = if no > 1 { agg.outputs()[donor].proof } else { txs[n].outputs()[0].proof };
			t.body.outputs[i].proof = p;
			cases += 1;
			LIGHT.with(|l| l.set(!thorough && no > 8 && i % 8 != 0));
			expect_reject(&mut out, &format!("c01 tx n={} proof-swapped index={}", n, i), &verdict_tx(&t), &mut bad);
			LIGHT.with(|l| l.set(false));
		}
		// forged / missing range proof and forged / missing signature (not another object's, but
		// bytes that are nobody's), first / middle / last index; like everything in this sweep under
		// every weighting
		for i in [0usize, no / 2, no - 1] {
			let mut t = agg.clone();
			let mut p = t.body.outputs[i].proof;
			p.proof[p.plen / 2] ^= 0x40;
			t.body.outputs[i].proof = p;
			cases += 1;
			expect_reject(&mut out, &format!("c01 tx n={} proof-forged index={}", n, i), &verdict_tx(&t), &mut bad);
			let mut t = agg.clone();
			t.body.outputs[i].proof = grin_util::secp::pedersen::RangeProof::zero();
			cases += 1;
			expect_reject(&mut out, &format!("c01 tx n={} proof-missing index={}", n, i), &verdict_tx(&t), &mut bad);
		}
		for i in [0usize, nk / 2, nk - 1] {
			for (what, forged) in [("sig-forged", true), ("sig-missing", false)] {
				let mut t = agg.clone();
				let mut raw = [0u8; 64];
				if forged {
					raw.copy_from_slice(t.body.kernels[i].excess_sig.as_ref());
					raw[40] ^= 0x04;
				}
				t.body.kernels[i].excess_sig = grin_util::secp::Signature::from_raw_data(&raw).unwrap();
				let marker = t.body.kernels[i].clone();
				t.body.kernels.sort_unstable();
				let idx = t.body.kernels.iter().position(|k| *k == marker).unwrap();
				cases += 1;
				expect_reject(&mut out, &format!("c01 tx n={} {} sorted-index={}", n, what, idx), &verdict_tx(&t), &mut bad);
			}
		}
		// a fee changed (the signature covers the fee), at a few indices incl. first/last/32
		for i in [0usize, nk / 2, nk - 1, 32.min(nk - 1)] {
			let mut t = agg.clone();
			if let KernelFeatures::Plain { fee } = t.body.kernels[i].features {
				t.body.kernels[i].features = KernelFeatures::Plain { fee: ((fee.fee() + 1) as u32).into() };
			}
			t.body.kernels.sort_unstable();
			cases += 1;
			expect_reject(&mut out, &format!("c01 tx n={} fee+1 index={}", n, i), &verdict_tx(&t), &mut bad);
		}
		// offset changed
		{
			let mut t = agg.clone();
			let mut b = [0u8; 32];
			b[31] = 1 + rng.below(200) as u8;
			t.offset = BlindingFactor::from_slice(&b);
			cases += 1;
			expect_reject(&mut out, &format!("c01 tx n={} offset-replaced", n), &verdict_tx(&t), &mut bad);
		}
		// a zero-offset transaction whose offset field is overwritten by a value that is not a
		// scalar of the group (all ones, the group order n, n + 1): such bytes must not be read as
		// "no offset"
		if n == 1 {
			let order: [u8; 32] = [
				0xFF, 0xFF, 0xFF, 0xFF, 0xFF, 0xFF, 0xFF, 0xFF, 0xFF, 0xFF, 0xFF, 0xFF, 0xFF, 0xFF, 0xFF, 0xFE, 0xBA, 0xAE, 0xDC, 0xE6, 0xAF, 0x48,
				0xA0, 0x3B, 0xBF, 0xD2, 0x5E, 0x8C, 0xD0, 0x36, 0x41, 0x41,
			];
			let mut order1 = order;
			order1[31] += 1;
			let z = zero_offset_tx(&kc, 900 + n as u32, 3, 2_000_000);
			out.line("c01 tx zero-offset valid", &verdict_tx(&z));
			if verdict_tx(&z) != "ok" {
				out.raw("#ORACLE-FAIL C01 valid zero-offset transaction rejected");
			}
			for (what, bytes) in [("all-ones", [0xFFu8; 32]), ("group-order", order), ("group-order+1", order1)] {
				let mut t = z.clone();
				t.offset = BlindingFactor::from_slice(&bytes);
				cases += 1;
				expect_reject(&mut out, &format!("c01 tx zero-offset offset-replaced-by-non-scalar {}", what), &verdict_tx(&t), &mut bad);
			}
		}
		// kernel dropped / duplicated / foreign
		if nk > 1 {
			let mut t = agg.clone();
			t.body.kernels.remove(rng.below(nk as u64) as usize);
			cases += 1;
			expect_reject(&mut out, &format!("c01 tx n={} kernel-dropped", n), &verdict_tx(&t), &mut bad);
		}
		{
			let mut t = agg.clone();
			let k = t.body.kernels[rng.below(nk as u64) as usize].clone();
			t.body.kernels.push(k);
			t.body.kernels.sort_unstable();
			cases += 1;
			expect_reject(&mut out, &format!("c01 tx n={} kernel-duplicated", n), &verdict_tx(&t), &mut bad);
		}
		{
			let mut t = agg.clone();
			let i = rng.below(nk as u64) as usize;
			t.body.kernels[i] = txs[n + 1].kernels()[0].clone();
			t.body.kernels.sort_unstable();
			cases += 1;
			expect_reject(&mut out, &format!("c01 tx n={} kernel-foreign", n), &verdict_tx(&t), &mut bad);
		}
		// an output amount changed: the output of another transaction in place of one of ours
		{
			let mut t = agg.clone();
			let i = rng.below(no as u64) as usize;
			t.body.outputs[i] = txs[n + 1].outputs()[0].clone();
			t.body.outputs.sort_unstable();
			cases += 1;
			expect_reject(&mut out, &format!("c01 tx n={} output-foreign-amount", n), &verdict_tx(&t), &mut bad);
		}
		// ---- the same body as a block with a coinbase
		let prev = grin_core::core::BlockHeader::default();
		let fees: u64 = txs[..n].iter().map(|t| t.fee()).sum();
		let rw = reward::output(&kc, &ProofBuilder::new(&kc), &key(3, n as u32), fees, false).unwrap();
		let blk = Block::new(&prev, &txs[..n], Difficulty::min_dma(), rw).unwrap();
		let po = prev.total_kernel_offset();
		out.line(&format!("c01 block valid n={}", n), &verdict_block(&blk, &po));
		if verdict_block(&blk, &po) != "ok" {
			out.raw(&format!("#ORACLE-FAIL C01 valid block of {} transactions rejected: {}", n, verdict_block(&blk, &po)));
		}
		let bk = blk.kernels().len();
		for i in 0..bk {
			let mut b = blk.clone();
			let donor = (i + 1) % bk;
			b.body.kernels[i].excess_sig = blk.kernels()[donor].excess_sig.clone();
			let marker = b.body.kernels[i].clone();
			b.body.kernels.sort_unstable();
			let i = b.body.kernels.iter().position(|k| *k == marker).unwrap();
			cases += 1;
			expect_reject(&mut out, &format!("c01 block n={} sig-of-another-kernel victim={} sorted-index={}", n, donor, i), &verdict_block(&b, &po), &mut bad);
		}
		// every output of the block in turn - the coinbase output included - with the range proof
		// of another output (well-formed, wrong); plus the coinbase output with the proof of a
		// coinbase output of another block
		let bo = blk.outputs().len();
		for i in 0..bo {
			if !thorough && bo > 8 && i > 2 && i + 3 < bo && !blk.outputs()[i].is_coinbase() {
				continue;
			}
			let mut b = blk.clone();
			let donor = (i + 1) % bo;
			b.body.outputs[i].proof = blk.outputs()[donor].proof;
			cases += 1;
			let what = if blk.outputs()[i].is_coinbase() { "coinbase-output" } else { "output" };
			expect_reject(&mut out, &format!("c01 block n={} proof-swapped {} index={}", n, what, i), &verdict_block(&b, &po), &mut bad);
		}
		{
			let other = reward::output(&kc, &ProofBuilder::new(&kc), &key(6, n as u32), fees, false).unwrap();
			let mut b = blk.clone();
			let i = b.body.outputs.iter().position(|o| o.is_coinbase()).unwrap();
			b.body.outputs[i].proof = other.0.proof;
			cases += 1;
			expect_reject(&mut out, &format!("c01 block n={} coinbase-output with the proof of another coinbase", n), &verdict_block(&b, &po), &mut bad);
		}
		// forged coinbase value: reward claimed for fees +- 1
		for d in [-1i64, 1] {
			let rw2 = reward::output(&kc, &ProofBuilder::new(&kc), &key(4, n as u32), (fees as i64 + d) as u64, false).unwrap();
			let b = Block::new(&prev, &txs[..n], Difficulty::min_dma(), rw2).unwrap();
			cases += 1;
			expect_reject(&mut out, &format!("c01 block n={} coinbase-claim{:+}", n, d), &verdict_block(&b, &po), &mut bad);
		}
		// forged coinbase flag on every plain output in turn
		let plain_idx: Vec<usize> = blk.outputs().iter().enumerate().filter(|(_, o)| !o.is_coinbase()).map(|(i, _)| i).collect();
		for i in plain_idx.iter().take(if thorough { 70 } else { 6 }) {
			let mut b = blk.clone();
			b.body.outputs[*i].identifier.features = OutputFeatures::Coinbase;
			b.body.outputs.sort_unstable();
			cases += 1;
			expect_reject(&mut out, &format!("c01 block n={} forged-coinbase-flag output={}", n, i), &verdict_block(&b, &po), &mut bad);
		}
		// coinbase flag removed from the coinbase output
		{
			let mut b = blk.clone();
			let i = b.body.outputs.iter().position(|o| o.is_coinbase()).unwrap();
			b.body.outputs[i].identifier.features = OutputFeatures::Plain;
			b.body.outputs.sort_unstable();
			cases += 1;
			expect_reject(&mut out, &format!("c01 block n={} coinbase-flag-removed", n), &verdict_block(&b, &po), &mut bad);
		}
		// a second coinbase output + kernel pair (a whole extra reward) added to the block
		{
			let rw3 = reward::output(&kc, &ProofBuilder::new(&kc), &key(5, n as u32), 0, false).unwrap();
			let mut b = blk.clone();
			b.body.outputs.push(rw3.0);
			b.body.kernels.push(rw3.1);
			b.body.outputs.sort_unstable();
			b.body.kernels.sort_unstable();
			cases += 1;
			expect_reject(&mut out, &format!("c01 block n={} second-coinbase-pair", n), &verdict_block(&b, &po), &mut bad);
		}
	}
	// ---- fees near the 40-bit limit of a single kernel: the TOTAL of an aggregate / a block is not
	// limited to 40 bits; the honest objects must validate and their corrupted variants must not
	{
		use std::convert::TryFrom;
		let big: u64 = (1u64 << 40) - 7;
		let mk = |i: u32| -> Transaction {
			let value = (1u64 << 41) + i as u64 * 1000;
			build::transaction(
				KernelFeatures::Plain { fee: grin_core::core::FeeFields::try_from(big - i as u64).unwrap() },
				&[build::input(value, key(7, i)), build::output(value - (big - i as u64), key(8, i))],
				&kc,
				&ProofBuilder::new(&kc),
			)
			.unwrap()
		};
		let big_txs: Vec<Transaction> = (0..3u32).map(mk).collect();
		for k in [2usize, 3] {
			let agg = transaction::aggregate(&big_txs[..k]).unwrap();
			let v = verdict_tx(&agg);
			out.line(&format!("c01 tx valid big-fees kernels={} total-fee-bits>40", k), &v);
			if v != "ok" {
				out.raw(&format!("#ORACLE-FAIL C01 valid aggregate of {} transactions paying {} nanogrin each (total above 2^40) rejected: {}", k, big, v));
			}
			// the same aggregate keeping a surplus: one output's amount raised by the part of the
			// fees above 2^40 - 1 must not balance
			let mut t = agg.clone();
			t.body.outputs[0] = mk(5).outputs()[0].clone();
			t.body.outputs.sort_unstable();
			cases += 1;
			expect_reject(&mut out, &format!("c01 tx big-fees kernels={} output-foreign-amount", k), &verdict_tx(&t), &mut bad);
			let prev = grin_core::core::BlockHeader::default();
			let fees: u64 = big_txs[..k].iter().map(|t| t.fee()).sum();
			let rw = reward::output(&kc, &ProofBuilder::new(&kc), &key(9, k as u32), fees, false).unwrap();
			let blk = Block::new(&prev, &big_txs[..k], Difficulty::min_dma(), rw).unwrap();
			let po = prev.total_kernel_offset();
			let vb = verdict_block(&blk, &po);
			out.line(&format!("c01 block valid big-fees kernels={}", k), &vb);
			if vb != "ok" {
				out.raw(&format!("#ORACLE-FAIL C01 valid block collecting {} nanogrin of fees (above 2^40) rejected: {}", fees, vb));
			}
			// a coinbase claiming only 2^40 - 1 of those fees (the rest left for someone else)
			let rw2 = reward::output(&kc, &ProofBuilder::new(&kc), &key(10, k as u32), (1u64 << 40) - 1, false).unwrap();
			let b2 = Block::new(&prev, &big_txs[..k], Difficulty::min_dma(), rw2).unwrap();
			cases += 1;
			expect_reject(&mut out, &format!("c01 block big-fees kernels={} coinbase-claims-only-2^40-1", k), &verdict_block(&b2, &po), &mut bad);
		}
	}
	// ---- kernels with a fee shift (the priority hint of the fee field): the value given up is the
	// FULL declared fee, whatever the shift; honest objects validate, a transaction keeping the part
	// of its fee that the shift hides must not balance
	{
		let mk = |i: u32, shift: u64, fee: u64, given_up: u64| -> Option<Transaction> {
			let value = 900_000_000u64 + i as u64 * 1000;
			build::transaction(
				KernelFeatures::Plain { fee: grin_core::core::FeeFields::new(shift, fee).ok()? },
				&[build::input(value, key(11, i)), build::output(value - given_up, key(12, i))],
				&kc,
				&ProofBuilder::new(&kc),
			)
			.ok()
		};
		let mut honest = vec![];
		for (i, shift) in [1u64, 2, 4, 8, 15].iter().enumerate() {
			let fee = 4_000_000u64 + i as u64;
			if let Some(t) = mk(i as u32, *shift, fee, fee) {
				let v = verdict_tx(&t);
				out.line(&format!("c01 tx valid fee-shift={}", shift), &v);
				if v != "ok" {
					out.raw(&format!("#ORACLE-FAIL C01 valid transaction declaring fee {} with fee shift {} and giving up exactly {} rejected: {}", fee, shift, fee, v));
				}
				honest.push(t);
			}
			// declares `fee`, gives up only fee >> shift (libtx builds what it is told: the kernel
			// excess then simply does not match the declared fee)
			if let Some(t) = mk(100 + i as u32, *shift, fee, fee >> shift) {
				cases += 1;
				expect_reject(&mut out, &format!("c01 tx fee-shift={} gives-up-only-shifted-fee", shift), &verdict_tx(&t), &mut bad);
			}
		}
		if honest.len() >= 2 {
			// mixed shifts in one aggregate and in a block collecting the full fees
			let agg = transaction::aggregate(&honest).unwrap();
			let v = verdict_tx(&agg);
			out.line("c01 tx valid fee-shift aggregate", &v);
			if v != "ok" {
				out.raw(&format!("#ORACLE-FAIL C01 valid aggregate of transactions with fee shifts rejected: {}", v));
			}
			let prev = grin_core::core::BlockHeader::default();
			let fees: u64 = honest.iter().map(|t| t.fee()).sum();
			let rw = reward::output(&kc, &ProofBuilder::new(&kc), &key(13, 0), fees, false).unwrap();
			let blk = Block::new(&prev, &honest, Difficulty::min_dma(), rw).unwrap();
			let po = prev.total_kernel_offset();
			let vb = verdict_block(&blk, &po);
			out.line("c01 block valid fee-shift", &vb);
			if vb != "ok" {
				out.raw(&format!("#ORACLE-FAIL C01 valid block collecting the full fees {} of fee-shifted kernels rejected: {}", fees, vb));
			}
			let shifted: u64 = honest.iter().map(|t| t.fee() >> t.body.fee_shift()).sum();
			let rw2 = reward::output(&kc, &ProofBuilder::new(&kc), &key(13, 1), shifted, false).unwrap();
			let b2 = Block::new(&prev, &honest, Difficulty::min_dma(), rw2).unwrap();
			cases += 1;
			expect_reject(&mut out, "c01 block fee-shift coinbase-claims-only-shifted-fees", &verdict_block(&b2, &po), &mut bad);
		}
	}
	// ---- fee fields read from bytes: layout {reserved: 20, fee_shift: 4, fee: 40}; the reader takes
	// any u64. Whatever the reserved bits 44..63 hold, fee() is the low 40 bits, fee_shift() bits
	// 40..43, the overage of a transaction the sum of the 40-bit fees (never negative), and the value
	// given up by a valid transaction exactly that.
	{
		const FEE_MASK: u64 = (1u64 << 40) - 1;
		let mut patterns: Vec<(String, u64)> = (44..64u32).map(|b| (format!("bit{}", b), 1u64 << b)).collect();
		patterns.push(("all-reserved".into(), !0u64 << 44));
		for k in 0..(if thorough { 24 } else { 8 }) {
			patterns.push((format!("random{}", k), rng.next() & (!0u64 << 44)));
		}
		let mut n_words = 0u64;
		for (pi, (pname, reserved)) in patterns.iter().enumerate() {
			let shift = if pname == "bit63" { 0 } else { [0u64, 1, 7, 15][pi % 4] };
			let fee = if pname == "bit63" { 2 } else { 3_000_000u64 + pi as u64 * 13 };
			let word = reserved | (shift << 40) | fee;
			let ff = fee_from_word(word);
			n_words += 1;
			// accessors against the specification (mask)
			let got = format!("fee={} fee_shift={}", ff.fee(), ff.fee_shift());
			let want = format!("fee={} fee_shift={}", word & FEE_MASK, (word >> 40) & 15);
			out.line(&format!("c01 feefields word={:#018x} ({})", word, pname), &got);
			if got != want {
				bad += 1;
				out.raw(&format!("#ORACLE-FAIL C01 FeeFields read from the bytes of {:#018x} ({}): {} but the layout {{reserved:20, fee_shift:4, fee:40}} says {}", word, pname, got, want));
			}
			// honest: declares `word`, gives up exactly the 40-bit fee
			let value = 900_000_000u64 + pi as u64 * 1000;
			let i = pi as u32;
			let honest = build::transaction(
				KernelFeatures::Plain { fee: ff },
				&[build::input(value, key(14, i)), build::output(value - fee, key(15, i))],
				&kc,
				&ProofBuilder::new(&kc),
			)
			.ok()
			.and_then(|t| through_bytes(&t));
			match honest {
				Some(t) => {
					let got = format!("fee={} fee_shift={} shifted_fee={} overage={}", t.fee(), t.body.fee_shift(), t.shifted_fee(), t.overage());
					let want = format!("fee={} fee_shift={} shifted_fee={} overage={}", fee, shift, fee >> shift, fee as i64);
					out.line(&format!("c01 feefields tx word={:#018x} ({}) totals", word, pname), &got);
					if got != want {
						bad += 1;
						out.raw(&format!("#ORACLE-FAIL C01 transaction whose kernel carries the fee-field word {:#018x} ({}): {} but the 40-bit fee / 4-bit shift give {}", word, pname, got, want));
					}
					let v = verdict_tx(&t);
					out.line(&format!("c01 feefields tx word={:#018x} ({}) gives-up-the-40-bit-fee", word, pname), &v);
					if v != "ok" {
						bad += 1;
						out.raw(&format!("#ORACLE-FAIL C01 valid transaction (input {}, output {}, kernel fee-field word {:#018x} read from bytes: 40-bit fee {}) refused: {}", value, value - fee, word, fee, v));
					}
					// the same transaction in a block whose coinbase claims exactly the 40-bit fee
					let prev = grin_core::core::BlockHeader::default();
					let po = prev.total_kernel_offset();
					let rw = reward::output(&kc, &ProofBuilder::new(&kc), &key(16, i), fee, false).unwrap();
					if let Ok(blk) = Block::new(&prev, &[t.clone()], Difficulty::min_dma(), rw) {
						let vb = verdict_block(&blk, &po);
						out.line(&format!("c01 feefields block word={:#018x} ({}) coinbase-claims-the-40-bit-fee", word, pname), &vb);
						if vb != "ok" {
							bad += 1;
							out.raw(&format!("#ORACLE-FAIL C01 valid block (one transaction with kernel fee-field word {:#018x}, coinbase claiming reward + {}) refused: {}", word, fee, vb));
						}
					}
					// a coinbase claiming the word as a number (low 63 bits) instead
					if pi % 3 == 0 {
						let claim = word & (FEE_MASK | (1u64 << 44) | (1u64 << 50));
						if claim != fee {
							let rw2 = reward::output(&kc, &ProofBuilder::new(&kc), &key(17, i), claim, false).unwrap();
							if let Ok(b2) = Block::new(&prev, &[t.clone()], Difficulty::min_dma(), rw2) {
								cases += 1;
								expect_reject(&mut out, &format!("c01 feefields block word={:#018x} ({}) coinbase-claims-reserved-bits-as-fee", word, pname), &verdict_block(&b2, &po), &mut bad);
							}
						}
					}
				}
				None => {
					bad += 1;
					out.raw(&format!("#ORACLE-FAIL C01 harness: transaction with fee-field word {:#018x} could not be built / written / read back", word));
				}
			}
			// inflating: the reserved bits read as value. If bit 63 leaked into the fee the overage
			// (an i64) would be negative: 5 in, 2^63 + 3 out would balance. For the other bits the
			// transaction burns the reserved bits as if they were fee (the miner would claim them).
			if reserved >> 63 == 1 {
				// bit 63 alone leaking: outputs may exceed inputs by 2^63 - fee; the whole word read as
				// an i64: by 2^64 - word
				let mut deltas = vec![(1u64 << 63) - fee];
				let neg = (!word).wrapping_add(1);
				if neg != deltas[0] && neg <= (1u64 << 63) {
					deltas.push(neg);
				}
				for (di, d) in deltas.iter().enumerate() {
					let vin = 5u64;
					let vout = vin + d;
					if let Some(t) = build::transaction(
						KernelFeatures::Plain { fee: ff },
						&[build::input(vin, key(18, i * 2 + di as u32)), build::output(vout, key(19, i * 2 + di as u32))],
						&kc,
						&ProofBuilder::new(&kc),
					)
					.ok()
					.and_then(|t| through_bytes(&t))
					{
						cases += 1;
						expect_reject(
							&mut out,
							&format!("c01 feefields tx word={:#018x} ({}) inflating: input={} output={} (value minted if bit 63 reached the overage)", word, pname, vin, vout),
							&verdict_tx(&t),
							&mut bad,
						);
					}
				}
			}
			{
				// gives up the whole word below bit 63 as if it were the fee
				let burn = word & !(1u64 << 63);
				if burn != fee && burn < (1u64 << 62) {
					let vin = burn + 1000;
					if let Some(t) = build::transaction(
						KernelFeatures::Plain { fee: ff },
						&[build::input(vin, key(20, i)), build::output(1000, key(21, i))],
						&kc,
						&ProofBuilder::new(&kc),
					)
					.ok()
					.and_then(|t| through_bytes(&t))
					{
						cases += 1;
						expect_reject(
							&mut out,
							&format!("c01 feefields tx word={:#018x} ({}) gives-up-reserved-bits-as-fee: input={} output=1000", word, pname, vin),
							&verdict_tx(&t),
							&mut bad,
						);
					}
				}
			}
		}
		// an aggregate of transactions with different reserved patterns: totals and balance
		{
			let words: Vec<u64> = vec![(1u64 << 63) | 2_000_001, (1u64 << 44) | (3u64 << 40) | 2_000_002, (0xABCDEu64 << 44) | 2_000_003];
			let txs_w: Vec<Transaction> = words
				.iter()
				.enumerate()
				.filter_map(|(i, w)| {
					let value = 700_000_000u64 + i as u64;
					build::transaction(
						KernelFeatures::Plain { fee: fee_from_word(*w) },
						&[build::input(value, key(22, i as u32)), build::output(value - (w & FEE_MASK), key(23, i as u32))],
						&kc,
						&ProofBuilder::new(&kc),
					)
					.ok()
				})
				.collect();
			if txs_w.len() == words.len() {
				if let Some(agg) = transaction::aggregate(&txs_w).ok().and_then(|t| through_bytes(&t)) {
					let want_fee: u64 = words.iter().map(|w| w & FEE_MASK).sum();
					let got = format!("fee={} fee_shift={} overage={}", agg.fee(), agg.body.fee_shift(), agg.overage());
					let want = format!("fee={} fee_shift={} overage={}", want_fee, 3, want_fee as i64);
					out.line("c01 feefields aggregate of three reserved patterns totals", &got);
					if got != want {
						bad += 1;
						out.raw(&format!("#ORACLE-FAIL C01 aggregate of kernels with fee-field words {:x?}: {} but the 40-bit fees / 4-bit shifts give {}", words, got, want));
					}
					let v = verdict_tx(&agg);
					out.line("c01 feefields aggregate of three reserved patterns valid", &v);
					if v != "ok" {
						bad += 1;
						out.raw(&format!("#ORACLE-FAIL C01 valid aggregate of kernels with fee-field words {:x?} refused: {}", words, v));
					}
				}
			}
		}
		out.raw(&format!("#STAT c01 fee-field words read from bytes={}", n_words));
	}

	// ---- inputs that only the commitment-level scans / the sum itself can refuse
	{
		use grin_core::core::transaction::{Input, Inputs};
		use grin_core::core::CommitWrapper;
		use grin_core::ser::{self, DeserializationMode, ProtocolVersion};
		use grin_util::secp::pedersen::Commitment;
		let pb = ProofBuilder::new(&kc);
		let read_verdict_tx = |t: &Transaction| -> String {
			match catch(std::panic::AssertUnwindSafe(|| t.validate_read())) {
				Ok(Ok(_)) => "ok".into(),
				Ok(Err(e)) => format!("err:{}", format!("{:?}", e).chars().take_while(|c| c.is_alphanumeric()).collect::<String>()),
				Err(_) => "panic".into(),
			}
		};
		let read_verdict_block = |b: &Block| -> String {
			match catch(std::panic::AssertUnwindSafe(|| b.validate_read())) {
				Ok(Ok(_)) => "ok".into(),
				Ok(Err(e)) => format!("err:{}", format!("{:?}", e).chars().take_while(|c| c.is_alphanumeric()).collect::<String>()),
				Err(_) => "panic".into(),
			}
		};
		// the object written at protocol version `v` and read back (the reader runs validate_read)
		let wire_tx = |t: &Transaction, v: u32| -> String {
			match ser::ser_vec(t, ProtocolVersion(v)) {
				Ok(bytes) => match catch(std::panic::AssertUnwindSafe(|| ser::deserialize::<Transaction, _>(&mut &bytes[..], ProtocolVersion(v), DeserializationMode::default()))) {
					Ok(Ok(_)) => "ok".into(),
					Ok(Err(_)) => "err:read".into(),
					Err(_) => "panic".into(),
				},
				Err(_) => "err:write".into(),
			}
		};
		let wire_block = |b: &Block, v: u32| -> String {
			match ser::ser_vec(b, ProtocolVersion(v)) {
				// the reader the network side uses (`UntrustedBlock`: header checks, then validate_read)
				Ok(bytes) => match catch(std::panic::AssertUnwindSafe(|| ser::deserialize::<grin_core::core::UntrustedBlock, _>(&mut &bytes[..], ProtocolVersion(v), DeserializationMode::default()))) {
					Ok(Ok(_)) => "ok".into(),
					Ok(Err(_)) => "err:read".into(),
					Err(_) => "panic".into(),
				},
				Err(_) => "err:write".into(),
			}
		};
		// (1) ONE output spent twice inside one body: two inputs with the same commitment whose
		// feature bytes differ (Plain / Coinbase), in features-and-commit form - as hashed objects
		// they are distinct and sortable; everything else is made to fit (the kernel excess accounts
		// for the commitment twice, the output carries twice the value), so the ONLY thing wrong is
		// the repeated commitment: the scan over commitments must refuse it at read time
		for (n, value, fee) in [(0u32, 500_000u64, 3u32), (1, 77_777, 9), (2, 1_000_003, 1)] {
			let kin = key(7, n);
			let built = build::transaction(
				KernelFeatures::Plain { fee: fee.into() },
				&[build::input(value, kin.clone()), build::input(value, kin.clone()), build::output(2 * value - fee as u64, key(8, n))],
				&kc,
				&pb,
			);
			let base = match built {
				Ok(t) => t,
				Err(e) => {
					out.raw(&format!("#STAT c01 same-commitment-twice: builder refused the base body: {:?}", e));
					continue;
				}
			};
			let commit = {
				let v: Vec<CommitWrapper> = base.inputs().into();
				v[0].commitment()
			};
			let mut pair = vec![Input { features: OutputFeatures::Plain, commit }, Input { features: OutputFeatures::Coinbase, commit }];
			pair.sort_unstable();
			for form in ["features-and-commit(plain,coinbase)", "features-and-commit(plain,plain)", "commit-only"] {
				let mut t = base.clone();
				t.body.inputs = match form {
					"features-and-commit(plain,coinbase)" => Inputs::FeaturesAndCommit(pair.clone()),
					"features-and-commit(plain,plain)" => Inputs::FeaturesAndCommit(vec![Input { features: OutputFeatures::Plain, commit }, Input { features: OutputFeatures::Plain, commit }]),
					_ => Inputs::CommitOnly(vec![CommitWrapper::from(commit), CommitWrapper::from(commit)]),
				};
				cases += 3;
				expect_reject(&mut out, &format!("c01 tx same-commitment-twice {} case={} validate_read", form, n), &read_verdict_tx(&t), &mut bad);
				expect_reject(&mut out, &format!("c01 tx same-commitment-twice {} case={} validate", form, n), &verdict_tx(&t), &mut bad);
				let v = if form == "commit-only" { 3 } else { 2 };
				expect_reject(&mut out, &format!("c01 tx same-commitment-twice {} case={} wire-v{}", form, n, v), &wire_tx(&t, v), &mut bad);
				// the same body as a block (headers are made under the chain type they are hashed under)
				global::set_local_chain_type(ChainTypes::AutomatedTesting);
				let prev = grin_core::core::BlockHeader::default();
				let rw = reward::output(&kc, &pb, &key(9, n), fee as u64, false).unwrap();
				// the block is assembled around the transaction with its inputs still de-duplicated,
				// then given the repeated input
				// a header that passes the untrusted reader: AutomatedTesting parameters (version for
				// height 1, small graphs) and a REAL proof of work found by the repo's own miner; the
				// proof covers the header, not the body, so the body can be changed afterwards
				let built = Block::new(&prev, &[base.clone()], Difficulty::min_dma(), rw).ok().and_then(|mut b| {
					grin_core::pow::pow_size(&mut b.header, Difficulty::min_dma(), global::proofsize(), global::min_edge_bits()).ok().map(|_| b)
				});
				if let Some(mut b) = built {
					// the block before the change, its single input in the form under test
					let honest = {
						let mut h = b.clone();
						if form != "commit-only" {
							h.body.inputs = Inputs::FeaturesAndCommit(vec![Input { features: OutputFeatures::Plain, commit }]);
						}
						h
					};
					let honest_wire = wire_block(&honest, v);
					b.body.inputs = t.body.inputs.clone();
					cases += 3;
					expect_reject(&mut out, &format!("c01 block same-commitment-twice {} case={} validate_read", form, n), &read_verdict_block(&b), &mut bad);
					expect_reject(&mut out, &format!("c01 block same-commitment-twice {} case={} validate", form, n), &verdict_block(&b, &prev.total_kernel_offset()), &mut bad);
					if honest_wire == "ok" {
						expect_reject(&mut out, &format!("c01 block same-commitment-twice {} case={} wire-v{}", form, n, v), &wire_block(&b, v), &mut bad);
					} else {
						bad += 1;
						out.raw(&format!("#ORACLE-FAIL C01 harness: the honest block (real proof of work, AutomatedTesting) does not pass the untrusted reader at v{}: {}", v, honest_wire));
					}
				} else {
					out.raw("#STAT c01 same-commitment-twice: Block::new refused the base transaction (or no proof of work found)");
				}
				global::set_local_chain_type(ChainTypes::Mainnet);
			}
		}
		// (2) an extra input whose 33 bytes are NOT a point of the curve, added to a body that balances
		// without it (kernel excesses + offset cancel exactly): if the error of the commitment sum
		// were swallowed (the bad term read as zero) the body would verify
		let secp = kc.secp();
		let mut bogus: Vec<(String, Commitment)> = vec![];
		bogus.push(("all-zero".into(), Commitment::from_vec(vec![0u8; 33])));
		bogus.push(("x=ff..ff".into(), Commitment::from_vec({
			let mut v = vec![0xffu8; 33];
			v[0] = 0x08;
			v
		})));
		bogus.push(("tag-byte-0x02".into(), Commitment::from_vec({
			let mut v = txs[0].outputs()[0].commitment().0.to_vec();
			v[0] = 0x02;
			v
		})));
		// x coordinates that are not on the curve (found by search: the library refuses them)
		let mut x = 5u8;
		while bogus.len() < 6 && x < 200 {
			let mut v = vec![0u8; 33];
			v[0] = 0x08;
			v[32] = x;
			let c = Commitment::from_vec(v);
			if secp.commit_sum(vec![c], vec![]).is_err() {
				bogus.push((format!("x={}-not-on-curve", x), c));
			}
			x += 1;
		}
		for (what, c) in &bogus {
			let is_point = secp.commit_sum(vec![*c], vec![]).is_ok();
			out.raw(&format!("#STAT c01 non-point input {}: library accepts the bytes as a point={}", what, is_point));
			if is_point {
				continue;
			}
			if what == "all-zero" {
				// 33 zero bytes are how the library writes the commitment to zero; `sum_commits`
				// (core/src/core/committed.rs) filters exactly this value out of both sides of every
				// sum BY DESIGN, so a body with such an extra "input" balances statelessly (it is
				// refused against the chain state: no such output). Recorded as an observation, no oracle.
				let mut t = txs[3].clone();
				let mut v: Vec<CommitWrapper> = txs[3].inputs().into();
				v.push(CommitWrapper::from(*c));
				v.sort_unstable();
				t.body.inputs = Inputs::CommitOnly(v);
				out.raw(&format!("#STAT c01 extra all-zero input (the zero commitment, dropped from every sum by design): validate={}", verdict_tx(&t)));
				continue;
			}
			for (n, form) in [(3usize, "commit-only"), (4, "features-and-commit")] {
				let base = &txs[n];
				let mut t = base.clone();
				t.body.inputs = match form {
					"commit-only" => {
						let mut v: Vec<CommitWrapper> = base.inputs().into();
						v.push(CommitWrapper::from(*c));
						v.sort_unstable();
						Inputs::CommitOnly(v)
					}
					_ => {
						let v0: Vec<CommitWrapper> = base.inputs().into();
						let mut v: Vec<Input> = v0.iter().map(|w| Input { features: OutputFeatures::Plain, commit: w.commitment() }).collect();
						v.push(Input { features: OutputFeatures::Plain, commit: *c });
						v.sort_unstable();
						Inputs::FeaturesAndCommit(v)
					}
				};
				cases += 1;
				expect_reject(&mut out, &format!("c01 tx extra-input-not-a-curve-point {} {} validate", what, form), &verdict_tx(&t), &mut bad);
				out.line(&format!("c01 tx extra-input-not-a-curve-point {} {} validate_read", what, form), &read_verdict_tx(&t));
				// sum in isolation: the error must come out of the sum, not a zero
				let sum = {
					use grin_core::core::Committed;
					match catch(std::panic::AssertUnwindSafe(|| t.sum_commitments(t.overage()))) {
						Ok(Ok(_)) => "ok".to_string(),
						Ok(Err(_)) => "err".to_string(),
						Err(_) => "panic".to_string(),
					}
				};
				cases += 1;
				expect_reject(&mut out, &format!("c01 tx extra-input-not-a-curve-point {} {} sum_commitments", what, form), &sum, &mut bad);
				let prev = grin_core::core::BlockHeader::default();
				let rw = reward::output(&kc, &pb, &key(10, n as u32), base.fee(), false).unwrap();
				if let Ok(mut b) = Block::new(&prev, &[base.clone()], Difficulty::min_dma(), rw) {
					b.body.inputs = t.body.inputs.clone();
					cases += 1;
					expect_reject(&mut out, &format!("c01 block extra-input-not-a-curve-point {} {} validate", what, form), &verdict_block(&b, &prev.total_kernel_offset()), &mut bad);
				}
			}
		}
	}

	// ---- TWO faults in one transaction: the verdict must be the FIRST failing stage of the code's
	// order (Transaction::validate: features, then the body - weight, NRD duplicates, sorted,
	// cut-through, range proofs, signatures -, then the kernel sums; validate_read: body checks
	// first, features last)
	{
		use grin_core::core::transaction::Inputs;
		use grin_core::core::CommitWrapper;
		let base = transaction::aggregate(&txs[..3]).unwrap();
		let expect = |out: &mut Out, what: &str, got: String, want: &str, bad: &mut u64, cases: &mut u64| {
			*cases += 1;
			out.line(&format!("c01 tx two-faults {}", what), &got);
			if got != format!("err:{}", want) {
				*bad += 1;
				out.raw(&format!("#ORACLE-FAIL C01 two faults in one transaction ({}): the first failing stage of the code's order is {} but the verdict is {}", what, want, got));
			}
		};
		let read_v = |t: &Transaction| -> String {
			match catch(std::panic::AssertUnwindSafe(|| t.validate_read())) {
				Ok(Ok(_)) => "ok".into(),
				Ok(Err(e)) => format!("err:{}", format!("{:?}", e).chars().take_while(|c| c.is_alphanumeric()).collect::<String>()),
				Err(_) => "panic".into(),
			}
		};
		let bad_sig = |t: &mut Transaction| {
			let s = t.body.kernels[1].excess_sig.clone();
			t.body.kernels[0].excess_sig = s;
			t.body.kernels.sort_unstable();
		};
		let swap_proofs = |t: &mut Transaction| {
			let p0 = t.body.outputs[0].proof;
			t.body.outputs[0].proof = t.body.outputs[1].proof;
			t.body.outputs[1].proof = p0;
		};
		let w = Weighting::AsTransaction;
		// signature + unsorted outputs
		let mut t = base.clone();
		bad_sig(&mut t);
		t.body.outputs.swap(0, 1);
		expect(&mut out, "signature+unsorted-outputs validate", verdict_tx_w(&t, w), "Serialization", &mut bad, &mut cases);
		// signature + swapped range proofs
		let mut t = base.clone();
		bad_sig(&mut t);
		swap_proofs(&mut t);
		expect(&mut out, "signature+rangeproofs-swapped validate", verdict_tx_w(&t, w), "Secp", &mut bad, &mut cases);
		// kernel sums (fee+1) + signature: the fee is signed, so a changed fee is a bad signature first
		let mut t = base.clone();
		if let KernelFeatures::Plain { fee } = t.body.kernels[0].features {
			t.body.kernels[0].features = KernelFeatures::Plain { fee: (fee.fee() as u32 + 1).into() };
			t.body.kernels.sort_unstable();
			expect(&mut out, "fee+1 (signature, then kernel sums) validate", verdict_tx_w(&t, w), "IncorrectSignature", &mut bad, &mut cases);
		}
		// cut-through (spends an output it creates) + swapped range proofs
		let mut t = base.clone();
		{
			let own = t.body.outputs[0].commitment();
			let mut v: Vec<CommitWrapper> = t.inputs().into();
			v.push(CommitWrapper::from(own));
			v.sort_unstable();
			t.body.inputs = Inputs::CommitOnly(v);
			swap_proofs(&mut t);
		}
		expect(&mut out, "cut-through+rangeproofs-swapped validate", verdict_tx_w(&t, w), "CutThrough", &mut bad, &mut cases);
		expect(&mut out, "cut-through+rangeproofs-swapped validate_read", read_v(&t), "CutThrough", &mut bad, &mut cases);
		// overweight (a weight limit below the body) + the same input twice
		let mut t = base.clone();
		{
			let mut v: Vec<CommitWrapper> = t.inputs().into();
			let first = v[0].clone();
			v.push(first);
			v.sort_unstable();
			t.body.inputs = Inputs::CommitOnly(v);
		}
		expect(&mut out, "overweight+input-twice validate(AsLimitedTransaction(1))", verdict_tx_w(&t, Weighting::AsLimitedTransaction(1)), "TooHeavy", &mut bad, &mut cases);
		expect(&mut out, "input-twice+signature validate", { let mut t2 = t.clone(); bad_sig(&mut t2); verdict_tx_w(&t2, w) }, "Serialization", &mut bad, &mut cases);
		// a coinbase-flagged output + unsorted outputs: `validate` looks at the features first,
		// `validate_read` at the body first
		let mut t = base.clone();
		t.body.outputs[0].identifier.features = OutputFeatures::Coinbase;
		t.body.outputs.sort_unstable();
		t.body.outputs.swap(0, 1);
		expect(&mut out, "coinbase-flagged-output+unsorted-outputs validate", verdict_tx_w(&t, w), "InvalidOutputFeatures", &mut bad, &mut cases);
		expect(&mut out, "coinbase-flagged-output+unsorted-outputs validate_read", read_v(&t), "Serialization", &mut bad, &mut cases);
		// the same pairs as a block (Block::validate: body first, then lock heights / coinbase / sums)
		let prev = grin_core::core::BlockHeader::default();
		let fees: u64 = txs[..3].iter().map(|t| t.fee()).sum();
		let rw = reward::output(&kc, &ProofBuilder::new(&kc), &key(11, 0), fees, false).unwrap();
		if let Ok(blk) = Block::new(&prev, &txs[..3], Difficulty::min_dma(), rw) {
			let po = prev.total_kernel_offset();
			let mut expect_b = |out: &mut Out, what: &str, b: &Block, want: &str| {
				cases += 1;
				// keep one level of nesting: `Transaction(Serialization)` / `Transaction(IncorrectSignature)`
				let got = match catch(std::panic::AssertUnwindSafe(|| b.validate(&po))) {
					Ok(Ok(_)) => "ok".to_string(),
					Ok(Err(e)) => format!("err:{}", format!("{:?}", e).chars().take_while(|c| c.is_alphanumeric() || *c == '(').collect::<String>().trim_end_matches('(').replace('(', ":")),
					Err(_) => "panic".to_string(),
				};
				out.line(&format!("c01 block two-faults {}", what), &got);
				if got != format!("err:{}", want) {
					bad += 1;
					out.raw(&format!("#ORACLE-FAIL C01 two faults in one block ({}): the first failing stage of the code's order is {} but the verdict is {}", what, want, got));
				}
			};
			let mut b = blk.clone();
			b.body.kernels[0].excess_sig = blk.kernels()[1].excess_sig.clone();
			b.body.kernels.sort_unstable();
			b.body.outputs.swap(0, 1);
			expect_b(&mut out, "signature+unsorted-outputs", &b, "Transaction:Serialization:SortError");
			let mut b = blk.clone();
			b.body.kernels[0].excess_sig = blk.kernels()[1].excess_sig.clone();
			b.body.kernels.sort_unstable();
			// the coinbase output loses its flag: coinbase sum wrong - after the signature
			if let Some(i) = b.body.outputs.iter().position(|o| o.is_coinbase()) {
				b.body.outputs[i].identifier.features = OutputFeatures::Plain;
				b.body.outputs.sort_unstable();
				expect_b(&mut out, "signature+coinbase-flag-removed", &b, "Transaction:IncorrectSignature");
			}
		}
	}
	out.raw(&format!("#STAT c01 weightings per transaction verdict={}", weightings().len()));
	out.raw(&format!("#STAT c01 corruption cases={} accepted={}", cases, bad));
	out.flush();
}
