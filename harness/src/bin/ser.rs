//! C10 correspondence: encoders / decoders of the consensus and wire objects.
//!
//! Lines (see lean/GrinVerif/Drv/SerD.lean):
//!   ser const <name> => <value>
//!   ser prim <kind> <hex> => ok <value> <consumed> | err <E>
//!   ser dec <Type> <ver> <nrd> <chain> <hex> => ok <consumed> <enc@1> <enc@2> <enc@3> <hash|none> | err <E>
//!   ser enc <Type> <ver> <chain> <value tokens…> => <enc|E:err> <hash|none>
//!
//! The property oracle is evaluated here on the implementation:
//!   * a valid encoding decodes to an equal value (inputs by commitment at v>=3), re-encodes to the
//!     identical bytes, and keeps its hash under every version;
//!   * whatever the decoder accepts re-encodes to exactly the bytes it consumed (canonical form);
//!   * each canonical-form violation is refused.
use chrono::{DateTime, Utc};
use grin_chain::txhashset::{BitmapAccumulator, BitmapChunk, BitmapSegment};
use grin_chain::types::{CommitPos, Tip};
use grin_core::core::pmmr::segment::{Segment, SegmentIdentifier, SegmentProof};
use grin_core::core::pmmr::{ReadonlyPMMR, VecBackend, PMMR};
use grin_core::core::hash::{Hash, Hashed};
use grin_core::core::merkle_proof::MerkleProof;
use grin_core::core::HeaderEntry;
use grin_core::core::{
	Block, BlockHeader, CommitWrapper, CompactBlock, HeaderVersion, Input, Inputs, KernelFeatures,
	NRDRelativeHeight, Output, OutputFeatures, OutputIdentifier, ShortId, Transaction,
	TransactionBody, TxKernel,
};
use grin_core::global::{self, ChainTypes};
use grin_core::pow::{Difficulty, Proof, ProofOfWork};
use grin_core::ser::{
	self, BinReader, DeserializationMode, PMMRable, ProtocolVersion, Readable, Reader, Writeable,
};
use grin_keychain::BlindingFactor;
use grin_util::secp::pedersen::{Commitment, RangeProof};
use grin_util::secp::Signature;
use grin_p2p::msg::{
	BanReason, GetPeerAddrs, Hand, Headers, Locator, MsgHeader, MsgHeaderWrapper,
	OutputBitmapSegmentResponse, OutputSegmentResponse, PeerAddrs, PeerError, Ping, Pong,
	SegmentRequest, SegmentResponse, Shake, TxHashSetArchive, TxHashSetRequest, Type,
};
use grin_p2p::types::{Capabilities, PeerAddr, ReasonForBan};
use gvharness::*;
use std::collections::{BTreeMap, BTreeSet};
use std::net::{Ipv4Addr, Ipv6Addr, SocketAddr, SocketAddrV4, SocketAddrV6};
use std::panic::AssertUnwindSafe;

/// protocol versions every value is written and read at: 0 (a peer may announce it; behaves like 1),
/// 1 (= local db version), 2, 3, 1000 (= local) and ProtocolVersion::MAX
const VERSIONS: [u32; 6] = [0, 1, 2, 3, 1000, u32::MAX];
const TS_MAX: i64 = 8210266790400;
const TS_MIN: i64 = -8334601228800;

struct Ctx {
	out: Out,
	rng: Rng,
	stats: BTreeMap<String, u64>,
	/// deliberately generated EMPTY / SINGLETON / MAXIMAL instances per serialisable type
	/// (`#STAT empties <type>=<count>`)
	empties: BTreeMap<String, u64>,
	/// oracle failures already printed (the same object is not reported twice)
	reported: BTreeSet<String>,
	thorough: bool,
}

impl Ctx {
	fn stat(&mut self, k: String) {
		*self.stats.entry(k).or_insert(0) += 1;
	}
	/// count one deliberately generated corner instance (`what` = `<Type>:<corner>`)
	fn corner(&mut self, what: &str) {
		*self.empties.entry(what.to_string()).or_insert(0) += 1;
	}
	/// print a `#ORACLE-FAIL C10 …` line (once per distinct text) together with whatever the
	/// generators had to report, and go on
	fn oracle_fail(&mut self, text: String) {
		self.flush_gen_fails();
		if self.reported.insert(text.clone()) {
			self.out.raw(&format!("#ORACLE-FAIL C10 {}", text));
		}
	}
	/// failures met inside the value generators (which have no `Ctx` at hand)
	fn flush_gen_fails(&mut self) {
		let pending: Vec<String> = GEN_FAILS.with(|g| std::mem::take(&mut *g.borrow_mut()));
		for t in pending {
			if self.reported.insert(t.clone()) {
				self.out.raw(&format!("#ORACLE-FAIL C10 {}", t));
			}
		}
	}
}

thread_local! {
	/// oracle failures met by the generators: an honest value whose constructor / own decoder /
	/// own encoder failed. Printed by the next `Ctx::flush_gen_fails`.
	static GEN_FAILS: std::cell::RefCell<Vec<String>> = std::cell::RefCell::new(Vec::new());
}

fn gen_fail(text: String) {
	GEN_FAILS.with(|g| g.borrow_mut().push(text));
}

/// panic message as one token-free phrase
fn one_line(msg: &str) -> String {
	msg.replace('\n', " ")
}

fn set_env(chain: char, nrd: bool) {
	global::set_local_chain_type(match chain {
		'A' => ChainTypes::AutomatedTesting,
		_ => ChainTypes::Mainnet,
	});
	global::set_local_nrd_enabled(nrd);
}

fn err_name(e: &ser::Error) -> String {
	match e {
		ser::Error::IOErr(_, k) => {
			if *k == std::io::ErrorKind::UnexpectedEof {
				"IOErr".to_string()
			} else {
				format!("IOErr:{:?}", k)
			}
		}
		ser::Error::UnexpectedData { .. } => "UnexpectedData".to_string(),
		ser::Error::CorruptedData => "CorruptedData".to_string(),
		ser::Error::CountError => "CountError".to_string(),
		ser::Error::TooLargeReadErr => "TooLargeReadErr".to_string(),
		ser::Error::HexError(_) => "HexError".to_string(),
		ser::Error::SortError => "SortError".to_string(),
		ser::Error::DuplicateError => "DuplicateError".to_string(),
		ser::Error::InvalidBlockVersion => "InvalidBlockVersion".to_string(),
		ser::Error::UnsupportedProtocolVersion => "UnsupportedProtocolVersion".to_string(),
		// a variant the code under test may gain: the harness must keep building
		#[allow(unreachable_patterns)]
		_ => "Other".to_string(),
	}
}

/// NB: `Proof::write` consults the thread-local chain type (`global::proofsize()`): callers make
/// sure `set_env` was called for the chain the value was generated for.
///
/// Every call of an implementation encoder goes through here: an error is the error's enum name, a
/// panic is `panic(<message>)` — a result the caller reports, never a crash of the harness.
fn enc_at<T: Writeable>(x: &T, v: u32) -> Result<Vec<u8>, String> {
	match catch(AssertUnwindSafe(|| ser::ser_vec(x, ProtocolVersion(v)))) {
		Ok(Ok(b)) => Ok(b),
		Ok(Err(e)) => Err(err_name(&e)),
		Err(msg) => Err(format!("panic({})", one_line(&msg).replace(' ', "_"))),
	}
}

/// Every call of an implementation decoder goes through here: `Ok((value, bytes consumed))`, or the
/// error's enum name, or `panic(<message>)`.
fn dec_full<T: Readable>(bytes: &[u8], v: u32) -> Result<(T, usize), String> {
	let b2 = bytes.to_vec();
	let r = catch(move || {
		let mut src = &b2[..];
		let r = ser::deserialize::<T, _>(&mut src, ProtocolVersion(v), DeserializationMode::default());
		(r, src.len())
	});
	match r {
		Ok((Ok(x), rest)) => Ok((x, bytes.len().saturating_sub(rest))),
		Ok((Err(e), _)) => Err(err_name(&e)),
		Err(msg) => Err(format!("panic({})", one_line(&msg).replace(' ', "_"))),
	}
}

/// the same decode through the codec's reader: `BufReader` over a `bytes::Bytes` (p2p/src/codec.rs)
fn dec_buf<T: Readable>(bytes: &[u8], v: u32) -> Result<(T, usize), String> {
	let mut b = bytes::Bytes::copy_from_slice(bytes);
	let r = catch(move || {
		let mut rdr = ser::BufReader::new(&mut b, ProtocolVersion(v));
		let r = T::read(&mut rdr);
		let n = rdr.bytes_read() as usize;
		(r, n)
	});
	match r {
		Ok((Ok(x), n)) => Ok((x, n)),
		Ok((Err(e), _)) => Err(err_name(&e)),
		Err(msg) => Err(format!("panic({})", one_line(&msg).replace(' ', "_"))),
	}
}

/// … and through `StreamingReader` (the reader of the node's data files)
fn dec_stream<T: Readable>(bytes: &[u8], v: u32) -> Result<(T, usize), String> {
	let b2 = bytes.to_vec();
	let r = catch(move || {
		let mut src = &b2[..];
		let r = {
			let mut rdr = ser::StreamingReader::new(&mut src, ProtocolVersion(v));
			T::read(&mut rdr)
		};
		(r, src.len())
	});
	match r {
		Ok((Ok(x), rest)) => Ok((x, bytes.len().saturating_sub(rest))),
		Ok((Err(e), _)) => Err(err_name(&e)),
		Err(msg) => Err(format!("panic({})", one_line(&msg).replace(' ', "_"))),
	}
}

/// The READER dimension: every input of every `dec_case` (all types x versions x mutation streams) is
/// decoded through all three `Reader` implementations of the tree; "accepted by one iff accepted by all,
/// same value (compared through its re-encoding), same bytes consumed, same error kind". A
/// reader-specific behaviour (an overridden trait method, another cap, another refusal) is an oracle
/// failure with the input. `StreamingReader` has no `read_fixed_bytes` cap by design: it is not run on
/// inputs the capped readers refuse with `TooLargeReadErr` (it would request what the bytes announce).
fn readers_agree<T: Ty>(cx: &mut Ctx, v: u32, bytes: &[u8]) {
	fn summary<T: Ty>(r: Result<(T, usize), String>, v: u32, with_consumed: bool) -> String {
		match r {
			Ok((x, n)) => format!("ok {} {}", if with_consumed { n.to_string() } else { "-".to_string() }, show_enc(&enc_at(&x, v))),
			Err(e) => format!("err {}", e),
		}
	}
	let wc = !T::READER_REST_VARIES;
	let bin = summary::<T>(dec_full::<T>(bytes, v), v, wc);
	let buf = summary::<T>(dec_buf::<T>(bytes, v), v, wc);
	if bin != buf {
		let cut = |s: &String| if s.len() > 300 { format!("{}…", &s[..300]) } else { s.clone() };
		cx.oracle_fail(format!("{} readers disagree (reader-specific behaviour): BinReader -> {} but BufReader -> {} on {} [version {}]", T::NAME, cut(&bin), cut(&buf), shown(bytes), v));
	}
	if bin != "err TooLargeReadErr" {
		let st = summary::<T>(dec_stream::<T>(bytes, v), v, wc);
		if bin != st {
			let cut = |s: &String| if s.len() > 300 { format!("{}…", &s[..300]) } else { s.clone() };
			cx.oracle_fail(format!("{} readers disagree (reader-specific behaviour): BinReader -> {} but StreamingReader -> {} on {} [version {}]", T::NAME, cut(&bin), cut(&st), shown(bytes), v));
		}
		cx.stat(format!("readers x3 {}", if bin.starts_with("ok") { "ok" } else { "err" }));
	} else {
		cx.stat("readers x2 (TooLargeReadErr: the uncapped StreamingReader is not run)".to_string());
	}
}

/// `hash()` of an implementation value under `catch`
fn hash_of<T: Ty>(x: &T) -> Result<Option<String>, String> {
	catch(AssertUnwindSafe(|| x.hash_hex())).map_err(|m| format!("panic({})", one_line(&m)))
}

/// hex of an encoding for an oracle line: whole up to 64 KiB, else the head and the length (the whole
/// input is on the `ser dec` / `ser enc` line printed just before)
fn shown(bytes: &[u8]) -> String {
	if bytes.len() <= 65536 {
		hex(bytes)
	} else {
		format!("{}… (first 256 of {} bytes; the whole encoding is on the preceding `ser` line)", hex(bytes.get(..256).unwrap_or(bytes)), bytes.len())
	}
}

/// The encoding of an honestly produced value at version `v`; a value that cannot be written is an
/// oracle failure (printed with the value's description) and `None`.
fn own_enc<T: Ty>(cx: &mut Ctx, x: &T, v: u32) -> Option<Vec<u8>> {
	match enc_at(x, v) {
		Ok(b) => Some(b),
		Err(e) => {
			let d = catch(AssertUnwindSafe(|| x.describe())).unwrap_or_else(|_| UNDESCRIBABLE.to_string());
			cx.oracle_fail(format!("{} cannot be encoded: {} ({}) [version {}]", T::NAME, d, e, v));
			None
		}
	}
}

/// placeholder inside a description whose value could not be taken apart (its writer failed)
const UNDESCRIBABLE: &str = "?";

/// copy of the implementation encoding `b` with `with` written at `off`; `None` when `b` is too short
/// for that (it does not have the documented layout — reported by `layout_fail`, never indexed blindly)
fn patched(b: &[u8], off: usize, with: &[u8]) -> Option<Vec<u8>> {
	let mut m = b.to_vec();
	m.get_mut(off..off.checked_add(with.len())?)?.copy_from_slice(with);
	Some(m)
}

fn layout_fail(cx: &mut Ctx, name: &str, b: &[u8], v: u32) {
	cx.oracle_fail(format!("{} re-encodes differently: its encoding does not have the documented layout ({} bytes): {} [version {}]", name, b.len(), shown(b), v));
}

fn show_enc(r: &Result<Vec<u8>, String>) -> String {
	match r {
		Ok(b) => hex(b),
		Err(e) => format!("E:{}", e),
	}
}

// ---------------------------------------------------------------------------------------------
// per-type glue

/// a piece of the canonical encoding: plain bytes or a range proof (8-byte length + 675 bytes)
enum Seg {
	Plain(usize),
	Proof,
}

trait Ty: Readable + Writeable + Sized {
	const NAME: &'static str;
	/// is `hash()` an identity hash that must not depend on the protocol version?
	/// (false for Transaction: its hash covers the `Inputs` variant, and the property only names
	/// headers, kernels, outputs and blocks)
	const HASH_STABLE: bool = true;
	/// does the number of bytes a FAILED / open-ended read leaves behind depend on the reader? (the
	/// count-less `Vec<T>` loop and `BanReason`'s swallowed short read): only verdict and value are compared
	const READER_REST_VARIES: bool = false;
	fn hash_hex(&self) -> Option<String>;
	/// value equality as the property means it, `self` = original, `d` = decoded at version `v`
	fn same(&self, d: &Self, v: u32) -> bool;
	/// value tokens for an `enc` line
	fn describe(&self) -> String;
	/// layout of the encoding at version `v` (where the range proofs sit)
	fn segs(&self, v: u32) -> Vec<Seg> {
		vec![Seg::Plain(enc_at(self, v).map(|b| b.len()).unwrap_or(0))]
	}
	/// recorded findings (tags) that explain exactly why the accepted bytes `input` re-encode to
	/// `canon` != `input`; empty = not explained (an oracle failure)
	fn known_noncanon(_input: &[u8], _canon: &[u8], _x: &Self, _v: u32) -> Vec<String> {
		vec![]
	}
	/// recorded findings that explain exactly why the decoded value `d` differs from `self`
	fn known_differs(&self, _d: &Self, _v: u32) -> Vec<String> {
		vec![]
	}
	/// does the writer refuse this (honest) value at version `v` by design? Only non-empty
	/// `Inputs::CommitOnly` below version 3 (`UnsupportedProtocolVersion`): every other writer error
	/// on an honest value is an oracle failure.
	fn writer_may_refuse(&self, _v: u32) -> bool {
		false
	}
}

fn commit_only_below_v3(i: &Inputs, v: u32) -> bool {
	v < 3 && matches!(i, Inputs::CommitOnly(l) if !l.is_empty())
}

fn hh(h: Hash) -> Option<String> {
	Some(hex(h.as_bytes()))
}

fn kf_tokens(f: &KernelFeatures) -> String {
	match f {
		KernelFeatures::Plain { fee } => format!("P {}", u64::from(*fee)),
		KernelFeatures::Coinbase => "C".to_string(),
		KernelFeatures::HeightLocked { fee, lock_height } => {
			format!("H {} {}", u64::from(*fee), lock_height)
		}
		KernelFeatures::NoRecentDuplicate {
			fee,
			relative_height,
		} => format!("N {} {}", u64::from(*fee), u64::from(*relative_height)),
	}
}

fn of_tok(f: OutputFeatures) -> &'static str {
	match f {
		OutputFeatures::Plain => "0",
		OutputFeatures::Coinbase => "1",
	}
}

impl Ty for KernelFeatures {
	const NAME: &'static str = "KernelFeatures";
	fn hash_hex(&self) -> Option<String> {
		None
	}
	fn same(&self, d: &Self, _v: u32) -> bool {
		self == d
	}
	fn describe(&self) -> String {
		kf_tokens(self)
	}
}

fn kernel_same(a: &TxKernel, b: &TxKernel) -> bool {
	a.features == b.features
		&& a.excess == b.excess
		&& a.excess_sig.as_ref() == b.excess_sig.as_ref()
}

impl Ty for TxKernel {
	const NAME: &'static str = "TxKernel";
	fn hash_hex(&self) -> Option<String> {
		hh(self.hash())
	}
	fn same(&self, d: &Self, _v: u32) -> bool {
		kernel_same(self, d)
	}
	fn describe(&self) -> String {
		format!(
			"{} {} {}",
			kf_tokens(&self.features),
			hex(&self.excess.0),
			hex(self.excess_sig.as_ref())
		)
	}
}

impl Ty for OutputFeatures {
	const NAME: &'static str = "OutputFeatures";
	fn hash_hex(&self) -> Option<String> {
		None
	}
	fn same(&self, d: &Self, _v: u32) -> bool {
		self == d
	}
	fn describe(&self) -> String {
		of_tok(*self).to_string()
	}
}

impl Ty for Input {
	const NAME: &'static str = "Input";
	fn hash_hex(&self) -> Option<String> {
		hh(self.hash())
	}
	fn same(&self, d: &Self, _v: u32) -> bool {
		self.features == d.features && self.commit == d.commit
	}
	fn describe(&self) -> String {
		format!("{} {}", of_tok(self.features), hex(&self.commit.0))
	}
}

impl Ty for CommitWrapper {
	const NAME: &'static str = "CommitWrapper";
	fn hash_hex(&self) -> Option<String> {
		hh(self.hash())
	}
	fn same(&self, d: &Self, _v: u32) -> bool {
		self.commitment() == d.commitment()
	}
	fn describe(&self) -> String {
		hex(&self.commitment().0)
	}
}

impl Ty for OutputIdentifier {
	const NAME: &'static str = "OutputIdentifier";
	fn hash_hex(&self) -> Option<String> {
		hh(self.hash())
	}
	fn same(&self, d: &Self, _v: u32) -> bool {
		self.features == d.features && self.commit == d.commit
	}
	fn describe(&self) -> String {
		format!("{} {}", of_tok(self.features), hex(&self.commit.0))
	}
}

fn rp_same(a: &RangeProof, b: &RangeProof) -> bool {
	a.plen == b.plen && a.proof[..] == b.proof[..]
}

impl Ty for RangeProof {
	const NAME: &'static str = "RangeProof";
	fn hash_hex(&self) -> Option<String> {
		hh(self.hash())
	}
	fn same(&self, d: &Self, _v: u32) -> bool {
		rp_same(self, d)
	}
	fn describe(&self) -> String {
		format!("{} {}", self.plen, hex(&self.proof[..]))
	}
	fn segs(&self, _v: u32) -> Vec<Seg> {
		vec![Seg::Proof]
	}
}

fn output_same(a: &Output, b: &Output) -> bool {
	a.identifier.features == b.identifier.features
		&& a.identifier.commit == b.identifier.commit
		&& rp_same(&a.proof, &b.proof)
}

fn output_tokens(o: &Output) -> String {
	format!(
		"{} {} {} {}",
		of_tok(o.identifier.features),
		hex(&o.identifier.commit.0),
		o.proof.plen,
		hex(&o.proof.proof[..])
	)
}

impl Ty for Output {
	const NAME: &'static str = "Output";
	fn hash_hex(&self) -> Option<String> {
		hh(self.identifier.hash())
	}
	fn same(&self, d: &Self, _v: u32) -> bool {
		output_same(self, d)
	}
	fn describe(&self) -> String {
		output_tokens(self)
	}
	fn segs(&self, _v: u32) -> Vec<Seg> {
		vec![Seg::Plain(34), Seg::Proof]
	}
}

fn inputs_same(a: &Inputs, d: &Inputs, v: u32) -> bool {
	if a.is_empty() && d.is_empty() {
		// `Inputs::default()` is `CommitOnly([])`, every version writes nothing for it and v1/v2
		// read back `FeaturesAndCommit([])`: no commitments either way
		return true;
	}
	if v >= 3 {
		// compared by commitment: the decoded side is commit-only
		let ca: Vec<CommitWrapper> = a.into();
		let cd: Vec<CommitWrapper> = d.into();
		ca.len() == cd.len()
			&& ca
				.iter()
				.zip(cd.iter())
				.all(|(x, y)| x.commitment() == y.commitment())
	} else {
		match (a, d) {
			(Inputs::FeaturesAndCommit(x), Inputs::FeaturesAndCommit(y)) => {
				x.len() == y.len()
					&& x.iter()
						.zip(y.iter())
						.all(|(p, q)| p.features == q.features && p.commit == q.commit)
			}
			_ => false,
		}
	}
}

fn body_same(a: &TransactionBody, d: &TransactionBody, v: u32) -> bool {
	inputs_same(&a.inputs, &d.inputs, v)
		&& a.outputs.len() == d.outputs.len()
		&& a.outputs
			.iter()
			.zip(d.outputs.iter())
			.all(|(x, y)| output_same(x, y))
		&& a.kernels.len() == d.kernels.len()
		&& a.kernels
			.iter()
			.zip(d.kernels.iter())
			.all(|(x, y)| kernel_same(x, y))
}

fn inputs_tokens(i: &Inputs) -> String {
	match i {
		Inputs::CommitOnly(l) => {
			let mut s = format!("CO {}", l.len());
			for c in l {
				s.push_str(&format!(" {}", hex(&c.commitment().0)));
			}
			s
		}
		Inputs::FeaturesAndCommit(l) => {
			let mut s = format!("FC {}", l.len());
			for c in l {
				s.push_str(&format!(" {} {}", of_tok(c.features), hex(&c.commit.0)));
			}
			s
		}
	}
}

fn body_tokens(b: &TransactionBody) -> String {
	let mut s = inputs_tokens(&b.inputs);
	s.push_str(&format!(" {}", b.outputs.len()));
	for o in &b.outputs {
		s.push(' ');
		s.push_str(&output_tokens(o));
	}
	s.push_str(&format!(" {}", b.kernels.len()));
	for k in &b.kernels {
		s.push(' ');
		s.push_str(&k.describe());
	}
	s
}

fn body_segs(b: &TransactionBody, v: u32, prefix: usize) -> Vec<Seg> {
	let in_sz = if v >= 3 { 33 } else { 34 };
	let mut segs = vec![Seg::Plain(prefix + 24 + b.inputs.len() * in_sz)];
	for _ in &b.outputs {
		segs.push(Seg::Plain(34));
		segs.push(Seg::Proof);
	}
	let klen: usize = b
		.kernels
		.iter()
		.map(|k| enc_at(k, v).map(|x| x.len()).unwrap_or(0))
		.sum();
	segs.push(Seg::Plain(klen));
	segs
}

impl Ty for TransactionBody {
	const NAME: &'static str = "TransactionBody";
	fn writer_may_refuse(&self, v: u32) -> bool {
		commit_only_below_v3(&self.inputs, v)
	}
	fn hash_hex(&self) -> Option<String> {
		None
	}
	fn same(&self, d: &Self, v: u32) -> bool {
		body_same(self, d, v)
	}
	fn describe(&self) -> String {
		body_tokens(self)
	}
	fn segs(&self, v: u32) -> Vec<Seg> {
		body_segs(self, v, 0)
	}
}

impl Ty for Transaction {
	const NAME: &'static str = "Transaction";
	fn writer_may_refuse(&self, v: u32) -> bool {
		commit_only_below_v3(&self.body.inputs, v)
	}
	const HASH_STABLE: bool = false;
	fn hash_hex(&self) -> Option<String> {
		hh(self.hash())
	}
	fn same(&self, d: &Self, v: u32) -> bool {
		self.offset == d.offset && body_same(&self.body, &d.body, v)
	}
	fn describe(&self) -> String {
		format!("{} {}", hex(self.offset.as_ref()), body_tokens(&self.body))
	}
	fn segs(&self, v: u32) -> Vec<Seg> {
		body_segs(&self.body, v, 32)
	}
}

fn proof_tokens(p: &Proof) -> String {
	format!("{} {}", p.edge_bits, nat_list(&p.nonces))
}

impl Ty for Proof {
	const NAME: &'static str = "Proof";
	fn hash_hex(&self) -> Option<String> {
		hh(self.hash())
	}
	fn same(&self, d: &Self, _v: u32) -> bool {
		self == d
	}
	fn describe(&self) -> String {
		proof_tokens(self)
	}
}

fn pow_tokens(p: &ProofOfWork) -> String {
	format!(
		"{} {} {} {}",
		p.total_difficulty.to_num(),
		p.secondary_scaling,
		p.nonce,
		proof_tokens(&p.proof)
	)
}

impl Ty for ProofOfWork {
	const NAME: &'static str = "ProofOfWork";
	fn hash_hex(&self) -> Option<String> {
		None
	}
	fn same(&self, d: &Self, _v: u32) -> bool {
		self == d
	}
	fn describe(&self) -> String {
		pow_tokens(self)
	}
}

fn header_tokens(h: &BlockHeader) -> String {
	format!(
		"{} {} {} {} {} {} {} {} {} {} {} {}",
		h.version.0,
		h.height,
		h.timestamp.timestamp(),
		hex(h.prev_hash.as_bytes()),
		hex(h.prev_root.as_bytes()),
		hex(h.output_root.as_bytes()),
		hex(h.range_proof_root.as_bytes()),
		hex(h.kernel_root.as_bytes()),
		hex(h.total_kernel_offset.as_ref()),
		h.output_mmr_size,
		h.kernel_mmr_size,
		pow_tokens(&h.pow)
	)
}

impl Ty for BlockHeader {
	const NAME: &'static str = "BlockHeader";
	fn hash_hex(&self) -> Option<String> {
		hh(self.hash())
	}
	fn same(&self, d: &Self, _v: u32) -> bool {
		self == d
	}
	fn describe(&self) -> String {
		header_tokens(self)
	}
}

impl Ty for Block {
	const NAME: &'static str = "Block";
	fn writer_may_refuse(&self, v: u32) -> bool {
		commit_only_below_v3(&self.body.inputs, v)
	}
	fn hash_hex(&self) -> Option<String> {
		hh(self.hash())
	}
	fn same(&self, d: &Self, v: u32) -> bool {
		self.header == d.header && body_same(&self.body, &d.body, v)
	}
	fn describe(&self) -> String {
		format!("{} {}", header_tokens(&self.header), body_tokens(&self.body))
	}
	fn segs(&self, v: u32) -> Vec<Seg> {
		let hl = enc_at(&self.header, v).map(|b| b.len()).unwrap_or(0);
		body_segs(&self.body, v, hl)
	}
}

impl Ty for ShortId {
	const NAME: &'static str = "ShortId";
	fn hash_hex(&self) -> Option<String> {
		hh(self.hash())
	}
	fn same(&self, d: &Self, _v: u32) -> bool {
		self.as_ref() == d.as_ref()
	}
	fn describe(&self) -> String {
		hex(self.as_ref())
	}
}

impl Ty for CompactBlock {
	const NAME: &'static str = "CompactBlock";
	fn hash_hex(&self) -> Option<String> {
		hh(self.hash())
	}
	fn same(&self, d: &Self, _v: u32) -> bool {
		self.header == d.header
			&& self.nonce == d.nonce
			&& self.out_full().len() == d.out_full().len()
			&& self
				.out_full()
				.iter()
				.zip(d.out_full().iter())
				.all(|(x, y)| output_same(x, y))
			&& self.kern_full().len() == d.kern_full().len()
			&& self
				.kern_full()
				.iter()
				.zip(d.kern_full().iter())
				.all(|(x, y)| kernel_same(x, y))
			&& self.kern_ids().len() == d.kern_ids().len()
			&& self
				.kern_ids()
				.iter()
				.zip(d.kern_ids().iter())
				.all(|(x, y)| x.as_ref() == y.as_ref())
	}
	fn describe(&self) -> String {
		let mut s = format!("{} {} {}", header_tokens(&self.header), self.nonce, self.out_full().len());
		for o in self.out_full() {
			s.push(' ');
			s.push_str(&output_tokens(o));
		}
		s.push_str(&format!(" {}", self.kern_full().len()));
		for k in self.kern_full() {
			s.push(' ');
			s.push_str(&k.describe());
		}
		s.push_str(&format!(" {}", self.kern_ids().len()));
		for k in self.kern_ids() {
			s.push(' ');
			s.push_str(&hex(k.as_ref()));
		}
		s
	}
	fn segs(&self, v: u32) -> Vec<Seg> {
		let hl = enc_at(&self.header, v).map(|b| b.len()).unwrap_or(0);
		let mut segs = vec![Seg::Plain(hl + 8 + 24)];
		for _ in self.out_full() {
			segs.push(Seg::Plain(34));
			segs.push(Seg::Proof);
		}
		let klen: usize = self
			.kern_full()
			.iter()
			.map(|k| enc_at(k, v).map(|x| x.len()).unwrap_or(0))
			.sum();
		segs.push(Seg::Plain(klen + 6 * self.kern_ids().len()));
		segs
	}
}

impl Ty for Tip {
	const NAME: &'static str = "Tip";
	fn hash_hex(&self) -> Option<String> {
		None
	}
	fn same(&self, d: &Self, _v: u32) -> bool {
		self == d
	}
	fn describe(&self) -> String {
		format!(
			"{} {} {} {}",
			self.height,
			hex(self.last_block_h.as_bytes()),
			hex(self.prev_block_h.as_bytes()),
			self.total_difficulty.to_num()
		)
	}
}

impl Ty for NRDRelativeHeight {
	const NAME: &'static str = "NRDRelativeHeight";
	fn hash_hex(&self) -> Option<String> {
		hh(self.hash())
	}
	fn same(&self, d: &Self, _v: u32) -> bool {
		self == d
	}
	fn describe(&self) -> String {
		u64::from(*self).to_string()
	}
}

// ---------------------------------------------------------------------------------------------
// one decode observation + the oracles

/// Does `input` differ from the canonical re-encoding `canon` only by range-proof length fields
/// (the decoder reads `min(len, 675)` bytes and always yields `plen = 675`)?
fn only_proof_len_differs(input: &[u8], canon: &[u8], segs: &[Seg]) -> bool {
	let (mut ic, mut rc) = (0usize, 0usize);
	let mut seen = false;
	for s in segs {
		match s {
			Seg::Plain(n) => {
				if ic + n > input.len() || rc + n > canon.len() || input[ic..ic + n] != canon[rc..rc + n] {
					return false;
				}
				ic += n;
				rc += n;
			}
			Seg::Proof => {
				if ic + 8 > input.len() || rc + 8 + 675 > canon.len() {
					return false;
				}
				let mut lb = [0u8; 8];
				lb.copy_from_slice(&input[ic..ic + 8]);
				let l = u64::from_be_bytes(lb);
				let m = std::cmp::min(l, 675) as usize;
				if l != 675 {
					seen = true;
				}
				if ic + 8 + m > input.len() || input[ic + 8..ic + 8 + m] != canon[rc + 8..rc + 8 + m] {
					return false;
				}
				if canon[rc + 8 + m..rc + 8 + 675].iter().any(|b| *b != 0) {
					return false;
				}
				ic += 8 + m;
				rc += 8 + 675;
			}
		}
	}
	seen && ic == input.len() && rc == canon.len()
}

#[derive(Clone, Copy, PartialEq)]
enum Expect {
	/// a valid encoding of `orig`: must decode to an equal value
	Valid,
	/// touches a canonical-form rule: must be refused
	Reject,
	/// anything goes, only the canonical-form oracle applies
	Any,
}

/// Print one `ser dec` line and evaluate the oracles. Returns the decoded value.
/// Nothing in here can take the harness down: the decoder, every re-encoding and every hash run
/// under `catch`; a failure is printed as `#ORACLE-FAIL C10 …` with the object and the run goes on.
fn dec_case<T: Ty>(
	cx: &mut Ctx,
	v: u32,
	nrd: bool,
	chain: char,
	bytes: &[u8],
	orig: Option<&T>,
	expect: Expect,
	what: &str,
) -> Option<T> {
	set_env(chain, nrd);
	cx.flush_gen_fails();
	readers_agree::<T>(cx, v, bytes);
	let lhs = format!(
		"ser dec {} {} {} {} {}",
		T::NAME,
		v,
		if nrd { 1 } else { 0 },
		chain,
		hex(bytes)
	);
	match dec_full::<T>(bytes, v) {
		Err(en) if en.starts_with("panic(") => {
			cx.out.line(&lhs, "panic");
			cx.oracle_fail(format!("decoder of {} panicked {} on {} [version {}]", T::NAME, en, shown(bytes), v));
			if expect == Expect::Valid {
				cx.oracle_fail(format!("{} does not decode from its own encoding: {} ({}) [version {}]", T::NAME, shown(bytes), en, v));
			}
			cx.stat(format!("{} v{} {} panic", T::NAME, v, what));
			None
		}
		Err(en) => {
			cx.out.line(&lhs, &format!("err {}", en));
			cx.stat(format!("{} v{} {} err:{}", T::NAME, v, what, en));
			if expect == Expect::Valid {
				cx.oracle_fail(format!("{} does not decode from its own encoding: {} ({}) [version {}]", T::NAME, shown(bytes), en, v));
			}
			None
		}
		Ok((x, consumed)) => {
			let consumed = consumed.min(bytes.len());
			let eaten = bytes.get(..consumed).unwrap_or(bytes);
			let e1 = enc_at(&x, 1);
			let e2 = enc_at(&x, 2);
			let e3 = enc_at(&x, 3);
			let hs = match hash_of(&x) {
				Ok(h) => h,
				Err(m) => {
					cx.oracle_fail(format!("{} hash computation of the decoded value failed {}: {} [version {}]", T::NAME, m, shown(bytes), v));
					None
				}
			};
			cx.out.line(
				&lhs,
				&format!(
					"ok {} {} {} {} {}",
					consumed,
					show_enc(&e1),
					show_enc(&e2),
					show_enc(&e3),
					hs.clone().unwrap_or_else(|| "none".to_string())
				),
			);
			cx.stat(format!("{} v{} {} ok", T::NAME, v, what));
			// canonical form: what was accepted re-encodes to exactly the bytes consumed
			let ev = enc_at(&x, v);
			match &ev {
				Ok(re) if re[..] == *eaten => {}
				Ok(re) => {
					let layout = catch(AssertUnwindSafe(|| x.segs(v))).unwrap_or_default();
					if only_proof_len_differs(eaten, re, &layout) {
						cx.out.raw(&format!(
							"#KNOWN-PROBE C10 rangeproof-length-normalised: {} v{} accepts a range proof length field != 675 and re-encodes it as 675 ({} bytes in, {} bytes out)",
							T::NAME, v, consumed, re.len()
						));
						cx.stat(format!("{} v{} probe:rangeproof-length-normalised", T::NAME, v));
					} else {
						let tags = catch(AssertUnwindSafe(|| T::known_noncanon(eaten, re, &x, v))).unwrap_or_default();
						if tags.is_empty() {
							let kind = if expect == Expect::Valid { "its own encoding" } else { "an accepted non-canonical encoding" };
							cx.oracle_fail(format!(
								"{} re-encodes differently ({}): in={} out={} [version {}]",
								T::NAME,
								kind,
								shown(eaten),
								shown(re),
								v
							));
						}
						for t in tags {
							let shown = if consumed <= 400 {
								hex(eaten)
							} else {
								format!("{}… (first 80 of {} bytes; the whole input is on the preceding `ser dec` line)", hex(eaten.get(..80).unwrap_or(eaten)), consumed)
							};
							cx.out.raw(&format!(
								"#KNOWN-PROBE C10 {}: {} v{} accepts a non-canonical encoding and re-encodes it differently ({} bytes in, {} bytes out): {}",
								t, T::NAME, v, consumed, re.len(), shown
							));
							cx.stat(format!("{} v{} probe:{}", T::NAME, v, t));
						}
					}
				}
				Err(e) => {
					cx.oracle_fail(format!(
						"{} re-encodes differently: the decoded value cannot be re-encoded at its own version ({}): {} [version {}]",
						T::NAME,
						e,
						shown(bytes),
						v
					));
				}
			}
			if expect == Expect::Reject {
				cx.oracle_fail(format!("{} canonical-form violation ({}) accepted: {} [version {}]", T::NAME, what, shown(bytes), v));
			}
			if let (Some(o), Expect::Valid) = (orig, expect) {
				if consumed != bytes.len() {
					cx.oracle_fail(format!("{} decodes from its own encoding leaving {} of {} bytes unread: {} [version {}]", T::NAME, bytes.len() - consumed, bytes.len(), shown(bytes), v));
				}
				let same = catch(AssertUnwindSafe(|| o.same(&x, v)));
				if same != Ok(true) {
					let tags = catch(AssertUnwindSafe(|| o.known_differs(&x, v))).unwrap_or_default();
					if tags.is_empty() {
						cx.oracle_fail(format!("{} decodes from its own encoding to a different value: {} [version {}]", T::NAME, shown(bytes), v));
					}
					for t in tags {
						cx.out.raw(&format!(
							"#KNOWN-PROBE C10 {}: {} v{} written and read back is not the value that was written: {}",
							t, T::NAME, v, if bytes.len() <= 400 { hex(bytes) } else { format!("{}… (first 80 of {} bytes; the whole encoding is on the preceding `ser dec` line)", hex(bytes.get(..80).unwrap_or(bytes)), bytes.len()) }
						));
						cx.stat(format!("{} v{} probe:{}", T::NAME, v, t));
					}
				}
				if T::HASH_STABLE {
					match hash_of(o) {
						Ok(ho) if ho == hs => {}
						Ok(ho) => cx.oracle_fail(format!("{} hash differs across encode/decode: {:?} -> {:?} on {} [version {}]", T::NAME, ho, hs, shown(bytes), v)),
						Err(m) => cx.oracle_fail(format!("{} hash computation failed {}: {} [version {}]", T::NAME, m, shown(bytes), v)),
					}
				}
			}
			Some(x)
		}
	}
}

/// `ser enc` line: the model must produce the same bytes / error from the described value
fn enc_case<T: Ty>(cx: &mut Ctx, v: u32, chain: char, x: &T) -> Result<Vec<u8>, String> {
	set_env(chain, true);
	cx.flush_gen_fails();
	let e = enc_at(x, v);
	let d = catch(AssertUnwindSafe(|| x.describe())).unwrap_or_else(|_| UNDESCRIBABLE.to_string());
	if d.contains(UNDESCRIBABLE) {
		// the value cannot be taken apart (its own writer failed): no line for the model, but not silent
		cx.oracle_fail(format!("{} cannot be described field by field, its writer failed: {} [version {}]", T::NAME, show_enc(&e), v));
		cx.stat(format!("{} v{} enc undescribable", T::NAME, v));
		return e;
	}
	let lhs = format!("ser enc {} {} {} {}", T::NAME, v, chain, d);
	let hs = match hash_of(x) {
		Ok(h) => h,
		Err(m) => {
			cx.oracle_fail(format!("{} hash computation failed {}: {} [version {}]", T::NAME, m, d, v));
			None
		}
	};
	cx.out.line(
		&lhs,
		&format!(
			"{} {}",
			show_enc(&e),
			hs.unwrap_or_else(|| "none".to_string())
		),
	);
	cx.stat(format!("{} v{} enc {}", T::NAME, v, if e.is_ok() { "ok" } else { "err" }));
	if let Err(en) = &e {
		if en.starts_with("panic(") {
			cx.oracle_fail(format!("encoder of {} panicked {} on {} [version {}]", T::NAME, en, d, v));
		}
	}
	e
}

/// valid value: `enc` line + decode at every version + hash stays the same at every version
fn roundtrip_all<T: Ty>(cx: &mut Ctx, chain: char, nrd: bool, x: &T, with_enc_line: bool) {
	let h0 = match hash_of(x) {
		Ok(h) => h,
		Err(m) => {
			cx.oracle_fail(format!("{} hash computation failed {}", T::NAME, m));
			None
		}
	};
	for v in VERSIONS.iter() {
		let e = if with_enc_line {
			enc_case(cx, *v, chain, x)
		} else {
			set_env(chain, nrd);
			enc_at(x, *v)
		};
		match e {
			Ok(bytes) => {
				if let Some(d) = dec_case::<T>(cx, *v, nrd, chain, &bytes, Some(x), Expect::Valid, "valid") {
					if T::HASH_STABLE && hash_of(&d).ok().flatten() != h0 {
						cx.oracle_fail(format!("{} hash differs between versions (identity hash depends on protocol version {}): {}", T::NAME, v, shown(&bytes)));
					}
				}
			}
			Err(en) => {
				// writers that legitimately refuse (CommitOnly inputs below version 3) say so through
				// `writer_may_refuse`; anything else is an honest value that cannot be written
				if !x.writer_may_refuse(*v) {
					let d = catch(AssertUnwindSafe(|| x.describe())).unwrap_or_else(|_| UNDESCRIBABLE.to_string());
					cx.oracle_fail(format!("{} cannot be encoded: {} ({}) [version {}]", T::NAME, d, en, v));
				}
				cx.stat(format!("{} v{} valid enc-err:{}", T::NAME, v, en));
			}
		}
	}
}

/// truncations and single-byte perturbations of a valid encoding
fn generic_mutations<T: Ty>(cx: &mut Ctx, v: u32, nrd: bool, chain: char, bytes: &[u8], n_trunc: usize, n_flip: usize) {
	if bytes.is_empty() {
		return;
	}
	if bytes.len() <= n_trunc {
		for l in 0..bytes.len() {
			dec_case::<T>(cx, v, nrd, chain, &bytes[..l], None, Expect::Any, "trunc");
		}
	} else {
		for _ in 0..n_trunc {
			let l = cx.rng.below(bytes.len() as u64) as usize;
			dec_case::<T>(cx, v, nrd, chain, &bytes[..l], None, Expect::Any, "trunc");
		}
	}
	for _ in 0..n_flip {
		let mut b = bytes.to_vec();
		let i = cx.rng.below(b.len() as u64) as usize;
		let nv = match cx.rng.below(4) {
			0 => 0u8,
			1 => 0xff,
			2 => b[i] ^ (1 << cx.rng.below(8)),
			_ => cx.rng.next() as u8,
		};
		if nv == b[i] {
			b[i] ^= 1;
		} else {
			b[i] = nv;
		}
		dec_case::<T>(cx, v, nrd, chain, &b, None, Expect::Any, "byte");
	}
}

// ---------------------------------------------------------------------------------------------
// generators

fn pick_u64(rng: &mut Rng) -> u64 {
	match rng.below(8) {
		0 => 0,
		1 => 1,
		2 => u64::MAX,
		3 => (1u64 << 40) - 1,
		4 => 1u64 << rng.below(64),
		5 => rng.below(1000),
		_ => rng.next(),
	}
}

fn fee_fields(raw: u64) -> grin_core::core::FeeFields {
	// the only way to build an arbitrary raw FeeFields is to read it (its own encoding: 8 bytes
	// big-endian); a reader that refuses it is reported and the low 32 bits are used instead
	let b = raw.to_be_bytes();
	match dec_full::<grin_core::core::FeeFields>(&b, 1) {
		Ok((f, _)) => f,
		Err(e) => {
			gen_fail(format!("FeeFields does not decode from its own encoding: {} ({}) [version 1]", hex(&b), e));
			grin_core::core::FeeFields::from(raw as u32)
		}
	}
}

fn gen_kernel_features(rng: &mut Rng, variant: u64) -> KernelFeatures {
	match variant % 4 {
		0 => KernelFeatures::Plain {
			fee: fee_fields(pick_u64(rng)),
		},
		1 => KernelFeatures::Coinbase,
		2 => KernelFeatures::HeightLocked {
			fee: fee_fields(pick_u64(rng)),
			lock_height: pick_u64(rng),
		},
		_ => {
			let fee = fee_fields(pick_u64(rng));
			let rh = match rng.below(4) {
				0 => 1,
				1 => 10080,
				_ => rng.range(1, 10080),
			};
			match catch(move || NRDRelativeHeight::new(rh)) {
				Ok(Ok(relative_height)) => KernelFeatures::NoRecentDuplicate { fee, relative_height },
				other => {
					gen_fail(format!("NRDRelativeHeight::new refuses the in-range relative height {} ({})", rh, if other.is_ok() { "error" } else { "panic" }));
					KernelFeatures::HeightLocked { fee, lock_height: rh }
				}
			}
		}
	}
}

/// sorting by the implementation's `Ord` (= by `hash()`): under `catch` like every hash computation
fn sort_by_impl<T: Ord>(v: &mut Vec<T>, what: &str) {
	if let Err(m) = catch(AssertUnwindSafe(|| v.sort_unstable())) {
		gen_fail(format!("hash / ordering of {} panicked while sorting ({})", what, one_line(&m)));
	}
}

fn commit(rng: &mut Rng) -> Commitment {
	Commitment::from_vec(rng.bytes(33))
}

fn sig(rng: &mut Rng) -> Signature {
	let b = rng.bytes(64);
	let mut a = [0u8; 64];
	a.copy_from_slice(&b);
	// secp library, a plain copy of the 64 bytes (what `from_raw_data` does, without its `Result`)
	Signature::from(grin_util::secp::ffi::Signature::from_data(a))
}

fn gen_kernel(rng: &mut Rng, variant: u64) -> TxKernel {
	TxKernel {
		features: gen_kernel_features(rng, variant),
		excess: commit(rng),
		excess_sig: sig(rng),
	}
}

fn range_proof(rng: &mut Rng, plen: usize, junk_after: bool) -> RangeProof {
	let mut proof = [0u8; 675];
	let b = rng.bytes(675);
	for i in 0..675 {
		if i < plen || junk_after {
			proof[i] = b[i];
		}
	}
	RangeProof { proof, plen }
}

fn gen_output(rng: &mut Rng, coinbase: bool) -> Output {
	Output::new(
		if coinbase {
			OutputFeatures::Coinbase
		} else {
			OutputFeatures::Plain
		},
		commit(rng),
		range_proof(rng, 675, false),
	)
}

fn gen_input(rng: &mut Rng, coinbase: bool) -> Input {
	Input::new(
		if coinbase {
			OutputFeatures::Coinbase
		} else {
			OutputFeatures::Plain
		},
		commit(rng),
	)
}

fn hash32(rng: &mut Rng) -> Hash {
	Hash::from_vec(&rng.bytes(32))
}

/// a sorted, duplicate-free body (sorting by the real `Ord` = hash order)
fn gen_body(rng: &mut Rng, ni: usize, no: usize, nk: usize, commit_only: bool, tx_like: bool, nrd: bool) -> TransactionBody {
	let mut ins: Vec<Input> = (0..ni)
		.map(|_| {
			let cb = rng.chance(1, 4);
			gen_input(rng, cb)
		})
		.collect();
	let mut outs: Vec<Output> = (0..no)
		.map(|_| {
			let cb = !tx_like && rng.chance(1, 4);
			gen_output(rng, cb)
		})
		.collect();
	let mut kers: Vec<TxKernel> = (0..nk)
		.map(|_| {
			let mut variant = rng.below(4);
			if tx_like && variant == 1 {
				variant = 0;
			}
			if !nrd && variant == 3 {
				variant = 2;
			}
			gen_kernel(rng, variant)
		})
		.collect();
	sort_by_impl(&mut ins, "ins");
	sort_by_impl(&mut outs, "outs");
	sort_by_impl(&mut kers, "kers");
	let inputs = if commit_only {
		let mut cw: Vec<CommitWrapper> = ins.iter().map(|i| i.into()).collect();
		sort_by_impl(&mut cw, "cw");
		Inputs::CommitOnly(cw)
	} else {
		Inputs::FeaturesAndCommit(ins)
	};
	TransactionBody {
		inputs,
		outputs: outs,
		kernels: kers,
	}
}

fn gen_proof(rng: &mut Rng, edge_bits: u8, proofsize: usize) -> Proof {
	let mode = rng.below(4);
	let nonces: Vec<u64> = (0..proofsize)
		.map(|_| {
			let m = if edge_bits >= 64 { u64::MAX } else { (1u64 << edge_bits) - 1 };
			match mode {
				0 => 0,
				1 => m,
				_ => rng.next() & m,
			}
		})
		.collect();
	Proof { edge_bits, nonces }
}

fn pick_ts(rng: &mut Rng) -> i64 {
	match rng.below(8) {
		0 => 0,
		1 => -1,
		2 => TS_MAX,
		3 => TS_MIN,
		4 => 1_600_000_000 + rng.below(400_000_000) as i64,
		5 => TS_MIN + rng.below(100000) as i64,
		6 => TS_MAX - rng.below(100000) as i64,
		_ => (rng.next() % (TS_MAX as u64)) as i64 * if rng.chance(1, 2) { 1 } else { -1 },
	}
}

fn proofsize_of(chain: char) -> usize {
	if chain == 'A' {
		8
	} else {
		42
	}
}

fn gen_header(rng: &mut Rng, chain: char) -> BlockHeader {
	let ps = proofsize_of(chain);
	// edge bits for which pack_len >= 8
	let eb = loop {
		let e = rng.range(1, 63) as u8;
		if (e as usize * ps + 7) / 8 >= 8 {
			break e;
		}
	};
	BlockHeader {
		version: HeaderVersion(match rng.below(4) {
			0 => 0,
			1 => 65535,
			_ => rng.range(1, 5) as u16,
		}),
		height: pick_u64(rng),
		prev_hash: hash32(rng),
		prev_root: hash32(rng),
		// `pick_ts` stays inside chrono's range; the epoch otherwise
		timestamp: DateTime::<Utc>::from_timestamp(pick_ts(rng), 0).unwrap_or_default(),
		output_root: hash32(rng),
		range_proof_root: hash32(rng),
		kernel_root: hash32(rng),
		total_kernel_offset: BlindingFactor::from_slice(&rng.bytes(32)),
		output_mmr_size: pick_u64(rng),
		kernel_mmr_size: pick_u64(rng),
		pow: ProofOfWork {
			total_difficulty: Difficulty::from_num(pick_u64(rng)),
			secondary_scaling: pick_u64(rng) as u32,
			nonce: pick_u64(rng),
			proof: gen_proof(rng, eb, ps),
		},
	}
}

// ---------------------------------------------------------------------------------------------
// sections

fn consts(cx: &mut Ctx) {
	if let (Some(hi), Some(lo)) = (chrono::NaiveDate::MAX.and_hms_opt(0, 0, 0), chrono::NaiveDate::MIN.and_hms_opt(0, 0, 0)) {
		cx.out.line("ser const ts_max", &hi.and_utc().timestamp().to_string());
		cx.out.line("ser const ts_min", &lo.and_utc().timestamp().to_string());
	}
	cx.out.line(
		"ser const max_proof_size",
		&grin_util::secp::constants::MAX_PROOF_SIZE.to_string(),
	);
	cx.out.line("ser const nrd_max", &grin_core::consensus::WEEK_HEIGHT.to_string());
	cx.out.line("ser const local_version", &ProtocolVersion::local().value().to_string());
	cx.out.line("ser const db_version", &ProtocolVersion::local_db().value().to_string());
	set_env('A', false);
	cx.out.line("ser const max_block_weight_A", &global::max_block_weight().to_string());
	cx.out.line("ser const proofsize_A", &global::proofsize().to_string());
	set_env('M', false);
	cx.out.line("ser const max_block_weight_M", &global::max_block_weight().to_string());
	cx.out.line("ser const proofsize_M", &global::proofsize().to_string());
}

fn prim_line(cx: &mut Ctx, kind: &str, bytes: &[u8]) {
	let mut src = &bytes[..];
	let mut rd = BinReader::new(&mut src, ProtocolVersion(1), DeserializationMode::default());
	// `kind` is the harness' own text: `<name>` or `<name>:<number>`
	let (name, arg) = match kind.split_once(':') {
		Some((n, a)) => (n, a.parse::<u64>().unwrap_or(0)),
		None => (kind, 0),
	};
	let res: Result<Result<String, ser::Error>, String> = catch(AssertUnwindSafe(|| match name {
		"u8" => rd.read_u8().map(|x| x.to_string()),
		"u16" => rd.read_u16().map(|x| x.to_string()),
		"u32" => rd.read_u32().map(|x| x.to_string()),
		"u64" => rd.read_u64().map(|x| x.to_string()),
		"i64" => rd.read_i64().map(|x| x.to_string()),
		"bytes" => rd.read_bytes_len_prefix().map(|x| hex(&x)),
		"fixed" => rd.read_fixed_bytes(arg as usize).map(|x| hex(&x)),
		"empty" => rd.read_empty_bytes(arg as usize).map(|_| "unit".to_string()),
		_ => rd.expect_u8(arg as u8).map(|x| x.to_string()),
	}));
	let lhs = format!("ser prim {} {}", kind, hex(bytes));
	match res {
		Ok(Ok(s)) => {
			let consumed = bytes.len().saturating_sub(src.len());
			cx.out.line(&lhs, &format!("ok {} {}", s, consumed));
			cx.stat(format!("prim {} ok", name));
		}
		Ok(Err(e)) => {
			cx.out.line(&lhs, &format!("err {}", err_name(&e)));
			cx.stat(format!("prim {} err:{}", name, err_name(&e)));
		}
		Err(m) => {
			cx.out.line(&lhs, "panic");
			cx.oracle_fail(format!("primitive reader {} panicked ({}) on {}", kind, one_line(&m), hex(bytes)));
			cx.stat(format!("prim {} panic", name));
		}
	}
}

fn prims(cx: &mut Ctx) {
	let n = if cx.thorough { 2000 } else { 300 };
	for i in 0..n {
		let len = match i % 6 {
			0 => cx.rng.below(3) as usize,
			1 => cx.rng.below(9) as usize,
			_ => cx.rng.range(8, 40) as usize,
		};
		let mut b = cx.rng.bytes(len);
		if cx.rng.chance(1, 3) {
			for x in b.iter_mut().take(7) {
				*x = 0;
			}
		}
		for kind in ["u8", "u16", "u32", "u64", "i64", "bytes"].iter() {
			prim_line(cx, kind, &b);
		}
		let k = cx.rng.below(12);
		prim_line(cx, &format!("fixed:{}", k), &b);
		let z = cx.rng.below(6) as usize;
		let mut zb = vec![0u8; z];
		zb.extend_from_slice(&b);
		let ne = cx.rng.below(8);
		prim_line(cx, &format!("empty:{}", ne), &zb);
		let e = if cx.rng.chance(1, 2) && !b.is_empty() { b[0] as u64 } else { cx.rng.below(256) };
		prim_line(cx, &format!("expect:{}", e), &b);
	}
	// the caps
	let mut big = (100_001u64).to_be_bytes().to_vec();
	big.extend_from_slice(&[1, 2, 3]);
	prim_line(cx, "bytes", &big);
	prim_line(cx, "fixed:100001", &[1, 2, 3]);
	prim_line(cx, "fixed:100000", &[1, 2, 3]);
	let mut ok = (3u64).to_be_bytes().to_vec();
	ok.extend_from_slice(&[1, 2, 3, 4]);
	prim_line(cx, "bytes", &ok);
	prim_line(cx, "bytes", &u64::MAX.to_be_bytes());
	// the empty instances of the length-carrying primitives, on purpose
	prim_line(cx, "bytes", &[0u8; 8]); // a length-prefixed byte string of length 0
	prim_line(cx, "bytes", &[0, 0, 0, 0, 0, 0, 0, 0, 0xaa]); // … followed by something
	prim_line(cx, "bytes", &[0, 0, 0, 0, 0, 0, 0, 1, 0xaa]); // length 1
	prim_line(cx, "fixed:0", &[]);
	prim_line(cx, "fixed:0", &[1, 2]);
	prim_line(cx, "fixed:1", &[1, 2]);
	prim_line(cx, "empty:0", &[]);
	prim_line(cx, "empty:0", &[7]);
	cx.corner("read_bytes_len_prefix:0-bytes");
	cx.corner("read_bytes_len_prefix:0-bytes");
	cx.corner("read_bytes_len_prefix:1-byte");
	cx.corner("read_fixed_bytes:0-bytes");
	cx.corner("read_fixed_bytes:0-bytes");
	cx.corner("read_fixed_bytes:1-byte");
	cx.corner("read_empty_bytes:0-bytes");
	cx.corner("read_empty_bytes:0-bytes");
}

fn kernels(cx: &mut Ctx) {
	let n = if cx.thorough { 400 } else { 60 };
	for i in 0..n {
		let k = gen_kernel(&mut cx.rng, i as u64);
		let is_nrd = k.is_nrd();
		roundtrip_all(cx, 'A', true, &k, true);
		roundtrip_all(cx, 'M', true, &k.features, true);
		if is_nrd {
			// NRD kernels are refused while the feature flag is off
			for v in VERSIONS.iter() {
				set_env('A', true);
				if let Some(b) = own_enc(cx, &k, *v) {
					dec_case::<TxKernel>(cx, *v, false, 'A', &b, None, Expect::Any, "nrd-disabled");
				}
			}
		}
		for v in VERSIONS.iter() {
			set_env('A', true);
			let b = match own_enc(cx, &k, *v) {
				Some(b) => b,
				None => continue,
			};
			generic_mutations::<TxKernel>(cx, *v, true, 'A', &b, 12, 12);
			// unknown feature tags
			for _ in 0..3 {
				let t = cx.rng.range(4, 255) as u8;
				match patched(&b, 0, &[t]) {
					Some(m) => {
						dec_case::<TxKernel>(cx, *v, true, 'A', &m, None, Expect::Reject, "unknown-kernel-tag");
					}
					None => layout_fail(cx, "TxKernel", &b, *v),
				}
			}
			if *v <= 1 {
				// reserved bytes of the fixed-size v1 features must be zero
				let (lo, hi) = match k.features {
					KernelFeatures::Plain { .. } => (9, 17),
					KernelFeatures::Coinbase => (1, 17),
					KernelFeatures::HeightLocked { .. } => (0, 0),
					KernelFeatures::NoRecentDuplicate { .. } => (9, 15),
				};
				for p in lo..hi {
					let nz = if cx.rng.chance(1, 2) { 1 } else { cx.rng.range(1, 255) as u8 };
					match patched(&b, p, &[nz]) {
						Some(m) => {
							dec_case::<TxKernel>(cx, *v, true, 'A', &m, None, Expect::Reject, "reserved-bytes");
						}
						None => layout_fail(cx, "TxKernel", &b, *v),
					}
				}
			}
			if is_nrd {
				// relative height outside 1..=WEEK_HEIGHT
				let off = if *v <= 1 { 15 } else { 9 };
				for rh in [0u16, 10081, 65535, 20000].iter() {
					match patched(&b, off, &rh.to_be_bytes()) {
						Some(m) => {
							dec_case::<TxKernel>(cx, *v, true, 'A', &m, None, Expect::Reject, "nrd-height-range");
						}
						None => layout_fail(cx, "TxKernel", &b, *v),
					}
				}
			}
		}
	}
	// NRDRelativeHeight on its own, all interesting u16s
	for rh in [0u16, 1, 2, 10079, 10080, 10081, 32768, 65535].iter() {
		dec_case::<NRDRelativeHeight>(cx, 1, true, 'A', &rh.to_be_bytes(), None, Expect::Any, "range");
	}
}

fn outputs_inputs(cx: &mut Ctx) {
	let n = if cx.thorough { 200 } else { 30 };
	for i in 0..n {
		let o = gen_output(&mut cx.rng, i % 2 == 1);
		roundtrip_all(cx, 'A', false, &o, i < 6);
		roundtrip_all(cx, 'A', false, &o.identifier, true);
		roundtrip_all(cx, 'A', false, &o.proof, i < 6);
		let inp = gen_input(&mut cx.rng, i % 3 == 1);
		roundtrip_all(cx, 'A', false, &inp, true);
		let cw: CommitWrapper = inp.into();
		roundtrip_all(cx, 'A', false, &cw, true);
		roundtrip_all(cx, 'A', false, &inp.features, true);
		let sid = ShortId::from_bytes(&cx.rng.bytes(6));
		roundtrip_all(cx, 'A', false, &sid, true);
		set_env('A', false);
		let (b, bi) = match (own_enc(cx, &o, 1), own_enc(cx, &inp, 2)) {
			(Some(b), Some(bi)) => (b, bi),
			_ => continue,
		};
		generic_mutations::<Output>(cx, 1, false, 'A', &b, 6, 10);
		generic_mutations::<Input>(cx, 2, false, 'A', &bi, 34, 6);
		// unknown output feature tags
		for _ in 0..3 {
			let t = cx.rng.range(2, 255) as u8;
			match (patched(&b, 0, &[t]), patched(&bi, 0, &[t])) {
				(Some(m), Some(mi)) => {
					dec_case::<Output>(cx, 1, false, 'A', &m, None, Expect::Reject, "unknown-output-tag");
					dec_case::<Input>(cx, 3, false, 'A', &mi, None, Expect::Reject, "unknown-output-tag");
					dec_case::<OutputIdentifier>(cx, 3, false, 'A', &mi, None, Expect::Reject, "unknown-output-tag");
				}
				_ => layout_fail(cx, "Output / Input", &b, 1),
			}
			dec_case::<OutputFeatures>(cx, 1, false, 'A', &[t], None, Expect::Reject, "unknown-output-tag");
		}
		// range proof length field (the decoder reads min(len, 675) and always yields plen = 675)
		for l in [0u64, 1, 674, 676, 1000, 100_001, u64::MAX].iter() {
			let take = std::cmp::min(*l, 675) as usize;
			match (b.get(..34), b.get(42..42 + take)) {
				(Some(head), Some(body)) => {
					let mut m = head.to_vec();
					m.extend_from_slice(&l.to_be_bytes());
					m.extend_from_slice(body);
					dec_case::<Output>(cx, 1, false, 'A', &m, None, Expect::Any, "proof-len-field");
					dec_case::<RangeProof>(cx, 1, false, 'A', m.get(34..).unwrap_or(&[]), None, Expect::Any, "proof-len-field");
				}
				_ => layout_fail(cx, "Output", &b, 1),
			}
		}
	}
	// in-memory range proofs with plen < 675 (never produced by a decoder): encoder side + what comes back
	for (plen, junk) in [(0usize, false), (1, false), (10, true), (674, false), (674, true), (300, true)].iter() {
		let mut o = gen_output(&mut cx.rng, false);
		o.proof = range_proof(&mut cx.rng, *plen, *junk);
		for v in [1u32, 3].iter() {
			if let Ok(b) = enc_case(cx, *v, 'A', &o) {
				if let Some(d) = dec_case::<Output>(cx, *v, false, 'A', &b, None, Expect::Any, "short-plen") {
					if !output_same(&o, &d) {
						cx.out.raw(&format!(
							"#KNOWN-PROBE C10 rangeproof-short-plen: Output with plen={} junk_after={} does not decode to an equal value / re-encode identically (decoded plen={})",
							plen, junk, d.proof.plen
						));
					}
				}
			}
		}
	}
}

/// body-like encodings assembled from parts so entries can be swapped / duplicated / miscounted
struct Parts {
	prefix: Vec<u8>,
	counts: [u64; 3],
	secs: [Vec<Vec<u8>>; 3],
}

impl Parts {
	fn bytes(&self) -> Vec<u8> {
		let mut b = self.prefix.clone();
		for c in self.counts.iter() {
			b.extend_from_slice(&c.to_be_bytes());
		}
		for s in self.secs.iter() {
			for e in s {
				b.extend_from_slice(e);
			}
		}
		b
	}
}

/// the encodings of a list of honest entries; an entry that cannot be written is reported, and `None`
fn own_encs<T: Ty>(cx: &mut Ctx, l: &[T], v: u32) -> Option<Vec<Vec<u8>>> {
	let mut out = Vec::with_capacity(l.len());
	for x in l {
		out.push(own_enc(cx, x, v)?);
	}
	Some(out)
}

fn body_parts(cx: &mut Ctx, b: &TransactionBody, v: u32, prefix: Vec<u8>) -> Option<Parts> {
	let ins: Vec<Vec<u8>> = if v >= 3 {
		// `From<&Inputs> for Vec<CommitWrapper>` sorts by hash: under `catch` like every hash computation
		let cw: Vec<CommitWrapper> = match catch(AssertUnwindSafe(|| (&b.inputs).into())) {
			Ok(cw) => cw,
			Err(m) => {
				cx.oracle_fail(format!("Inputs hash computation failed (conversion to commitments panicked: {}) [version {}]", one_line(&m), v));
				return None;
			}
		};
		own_encs(cx, &cw, v)?
	} else {
		match &b.inputs {
			Inputs::FeaturesAndCommit(l) => own_encs(cx, l, v)?,
			Inputs::CommitOnly(_) => vec![],
		}
	};
	let outs = own_encs(cx, &b.outputs, v)?;
	let kers = own_encs(cx, &b.kernels, v)?;
	Some(Parts {
		prefix,
		counts: [ins.len() as u64, b.outputs.len() as u64, b.kernels.len() as u64],
		secs: [ins, outs, kers],
	})
}

/// structural perturbations touching the canonical-form rules of a body-like encoding
fn parts_mutations<T: Ty>(cx: &mut Ctx, v: u32, nrd: bool, chain: char, p: &Parts, body_weight_check: bool) {
	let valid = p.bytes();
	for s in 0..3 {
		let n = p.secs[s].len();
		if n >= 2 {
			// swap two neighbours -> unsorted
			let i = cx.rng.below(n as u64 - 1) as usize;
			let mut q = Parts { prefix: p.prefix.clone(), counts: p.counts, secs: p.secs.clone() };
			q.secs[s].swap(i, i + 1);
			if q.bytes() != valid {
				dec_case::<T>(cx, v, nrd, chain, &q.bytes(), None, Expect::Reject, "unsorted");
			}
			// swap first and last
			let mut q = Parts { prefix: p.prefix.clone(), counts: p.counts, secs: p.secs.clone() };
			q.secs[s].swap(0, n - 1);
			if q.bytes() != valid {
				dec_case::<T>(cx, v, nrd, chain, &q.bytes(), None, Expect::Reject, "unsorted");
			}
		}
		if n >= 1 {
			// duplicate an entry (count adjusted)
			let i = cx.rng.below(n as u64) as usize;
			let mut q = Parts { prefix: p.prefix.clone(), counts: p.counts, secs: p.secs.clone() };
			let e = q.secs[s][i].clone();
			q.secs[s].insert(i, e);
			q.counts[s] += 1;
			dec_case::<T>(cx, v, nrd, chain, &q.bytes(), None, Expect::Reject, "duplicate");
			// overwrite the neighbour with a copy (count unchanged)
			if n >= 2 {
				let mut q = Parts { prefix: p.prefix.clone(), counts: p.counts, secs: p.secs.clone() };
				let j = if i + 1 < n { i + 1 } else { i - 1 };
				q.secs[s][j] = q.secs[s][i].clone();
				dec_case::<T>(cx, v, nrd, chain, &q.bytes(), None, Expect::Reject, "duplicate");
			}
		}
		// count fields +-1 and extreme
		for delta in [1i64, -1].iter() {
			let c = p.counts[s] as i64 + delta;
			if c >= 0 {
				let mut q = Parts { prefix: p.prefix.clone(), counts: p.counts, secs: p.secs.clone() };
				q.counts[s] = c as u64;
				dec_case::<T>(cx, v, nrd, chain, &q.bytes(), None, Expect::Any, "count+-1");
			}
		}
		let extremes: &[u64] = if body_weight_check {
			&[250, 251, 40_000, 40_001, 1_000_001, u64::MAX, u64::MAX / 21 + 1]
		} else {
			&[1_000_000, 1_000_001, u64::MAX]
		};
		for big in extremes.iter() {
			let mut q = Parts { prefix: p.prefix.clone(), counts: p.counts, secs: p.secs.clone() };
			q.counts[s] = *big;
			dec_case::<T>(cx, v, nrd, chain, &q.bytes(), None, Expect::Reject, "count-over-content");
		}
	}
}

fn bodies(cx: &mut Ctx) {
	let n = if cx.thorough { 120 } else { 24 };
	for i in 0..n {
		// AutomatedTesting: max block weight 250 (tx 226); sizes from empty to the limit
		let chain = if i % 6 == 5 { 'M' } else { 'A' };
		let (ni, no, nk) = match i % 8 {
			0 => (0, 0, 0),
			1 => (1, 1, 1),
			2 => (0, 1, 1),
			3 => (3, 2, 2),
			4 => (cx.rng.below(8) as usize, cx.rng.below(5) as usize, cx.rng.below(6) as usize),
			5 => (20, 8, 12),          // weight 224
			6 => (40, 5, 15),          // weight 190
			_ => (2, cx.rng.below(9) as usize, 1 + cx.rng.below(4) as usize),
		};
		let commit_only = i % 3 == 2;
		let body = gen_body(&mut cx.rng, ni, no, nk, commit_only, false, true);
		let tot = ni + no + nk;
		// the corners, counted: nothing at all; no inputs; exactly one kernel; one of each
		if tot == 0 {
			cx.corner("TransactionBody:0-inputs-0-outputs-0-kernels");
			cx.corner("Block:empty-body");
		}
		if ni == 0 && tot > 0 {
			cx.corner("TransactionBody:0-inputs");
			cx.corner("Block:0-inputs");
		}
		if nk == 1 {
			cx.corner("TransactionBody:1-kernel");
			cx.corner("Block:1-kernel");
		}
		if (ni, no, nk) == (1, 1, 1) {
			cx.corner("TransactionBody:1-input-1-output-1-kernel");
		}
		cx.stat(format!(
			"body entries {} inputs-variant {}",
			match tot {
				0 => "0",
				1..=3 => "1-3",
				4..=20 => "4-20",
				21..=100 => "21-100",
				_ => ">100",
			},
			if commit_only { "CommitOnly" } else { "FeaturesAndCommit" }
		));
		let with_enc = no <= 3;
		roundtrip_all(cx, chain, true, &body, with_enc);
		let blk = Block {
			header: gen_header(&mut cx.rng, chain),
			body: body.clone(),
		};
		roundtrip_all(cx, chain, true, &blk, with_enc && i % 2 == 0);
		// transaction: no coinbase, within tx weight, distinct commitments
		let (ti, to, tk) = if i % 8 == 5 { (16, 8, 14) } else { (ni.min(30), no, nk.max(1)) };
		if ti == 0 {
			cx.corner(if to == 0 { "Transaction:0-inputs-0-outputs-1-kernel" } else { "Transaction:0-inputs" });
		}
		if tk == 1 {
			cx.corner("Transaction:1-kernel");
		}
		let tbody = gen_body(&mut cx.rng, ti, to, tk, commit_only, true, true);
		let tx = Transaction {
			offset: BlindingFactor::from_slice(&cx.rng.bytes(32)),
			body: tbody,
		};
		roundtrip_all(cx, chain, true, &tx, with_enc);

		for v in [1u32, 2, 3].iter() {
			if commit_only && *v < 3 {
				continue;
			}
			set_env(chain, true);
			let hb = match own_enc(cx, &blk.header, *v) {
				Some(hb) => hb,
				None => continue,
			};
			let (p, pb, pt) = match (
				body_parts(cx, &body, *v, vec![]),
				body_parts(cx, &body, *v, hb),
				body_parts(cx, &tx.body, *v, tx.offset.as_ref().to_vec()),
			) {
				(Some(p), Some(pb), Some(pt)) => (p, pb, pt),
				_ => continue,
			};
			parts_mutations::<TransactionBody>(cx, *v, true, chain, &p, true);
			parts_mutations::<Block>(cx, *v, true, chain, &pb, true);
			parts_mutations::<Transaction>(cx, *v, true, chain, &pt, true);
			let bb = p.bytes();
			generic_mutations::<TransactionBody>(cx, *v, true, chain, &bb, 8, 12);
			let tb = pt.bytes();
			generic_mutations::<Transaction>(cx, *v, true, chain, &tb, 6, 10);
		}
		// transaction-only read-time rules (`validate_read`): coinbase features, cut-through,
		// duplicate NRD excess, tx weight
		if i % 4 == 1 {
			let mut t2 = tx.clone();
			let mut o = gen_output(&mut cx.rng, true);
			o.identifier.features = OutputFeatures::Coinbase;
			t2.body.outputs.push(o);
			sort_by_impl(&mut t2.body.outputs, "t2.body.outputs");
			for v in [2u32, 3].iter() {
				if let Ok(b) = enc_at(&t2, *v) {
					dec_case::<Transaction>(cx, *v, true, chain, &b, None, Expect::Any, "tx-coinbase-output");
				}
			}
			let mut t3 = tx.clone();
			t3.body.kernels.push(gen_kernel(&mut cx.rng, 1));
			sort_by_impl(&mut t3.body.kernels, "t3.body.kernels");
			for v in [1u32, 3].iter() {
				if let Ok(b) = enc_at(&t3, *v) {
					dec_case::<Transaction>(cx, *v, true, chain, &b, None, Expect::Any, "tx-coinbase-kernel");
				}
			}
			// cut-through: an input spending an output of the same tx
			if !tx.body.outputs.is_empty() {
				let mut t4 = tx.clone();
				let c = t4.body.outputs[0].identifier.commit;
				let mut ins: Vec<Input> = match &t4.body.inputs {
					Inputs::FeaturesAndCommit(l) => l.clone(),
					Inputs::CommitOnly(l) => l.iter().map(|c| Input::new(OutputFeatures::Plain, c.commitment())).collect(),
				};
				ins.push(Input::new(OutputFeatures::Plain, c));
				sort_by_impl(&mut ins, "ins");
				t4.body.inputs = Inputs::FeaturesAndCommit(ins);
				for v in [2u32, 3].iter() {
					if let Ok(b) = enc_at(&t4, *v) {
						dec_case::<Transaction>(cx, *v, true, chain, &b, None, Expect::Any, "tx-cut-through");
					}
				}
			}
			// two NRD kernels with the same excess
			let mut t5 = tx.clone();
			let k1 = gen_kernel(&mut cx.rng, 3);
			let mut k2 = gen_kernel(&mut cx.rng, 3);
			k2.excess = k1.excess;
			t5.body.kernels.push(k1);
			t5.body.kernels.push(k2);
			sort_by_impl(&mut t5.body.kernels, "t5.body.kernels");
			for v in [1u32, 2].iter() {
				if let Ok(b) = enc_at(&t5, *v) {
					dec_case::<Transaction>(cx, *v, true, chain, &b, None, Expect::Any, "tx-nrd-duplicate");
					dec_case::<Transaction>(cx, *v, false, chain, &b, None, Expect::Any, "tx-nrd-disabled");
				}
			}
		}
	}
	// `Inputs::default()` is `CommitOnly([])`; v1/v2 read an empty list back as `FeaturesAndCommit([])`,
	// which the derived `PartialEq` of `TransactionBody` does not consider equal (no commitments differ)
	{
		set_env('A', false);
		let empty = TransactionBody::empty();
		for v in [1u32, 2, 3].iter() {
			let b = match own_enc(cx, &empty, *v) {
				Some(b) => b,
				None => continue,
			};
			cx.corner("TransactionBody:empty()");
			let d: TransactionBody = match dec_full::<TransactionBody>(&b, *v) {
				Ok((d, _)) => d,
				Err(e) => {
					cx.oracle_fail(format!("TransactionBody does not decode from its own encoding: {} ({}) [version {}]", hex(&b), e, v));
					continue;
				}
			};
			if d != empty {
				cx.out.raw(&format!(
					"#KNOWN-PROBE C10 empty-inputs-variant: TransactionBody::empty() (Inputs::CommitOnly([])) written and read at v{} comes back as Inputs::{} and `==` is false (same, empty, commitment set)",
					v,
					d.inputs.version_str()
				));
				cx.stat(format!("TransactionBody v{} probe:empty-inputs-variant", v));
			}
		}
	}
	// weight boundary (AutomatedTesting 250): block body at 250 / 251, tx at 226 / 227
	for (ni, no, nk, what) in [(19usize, 10usize, 7usize, "w250"), (20, 10, 7, "w251"), (16, 10, 0, "w226"), (17, 10, 0, "w227")].iter() {
		let body = gen_body(&mut cx.rng, *ni, *no, *nk, false, true, true);
		for v in [1u32, 3].iter() {
			set_env('A', true);
			if let Some(b) = own_enc(cx, &body, *v) {
				dec_case::<TransactionBody>(cx, *v, true, 'A', &b, None, Expect::Any, what);
			}
			let tx = Transaction {
				offset: BlindingFactor::from_slice(&[7u8; 32]),
				body: body.clone(),
			};
			set_env('A', true);
			if let Some(tb) = own_enc(cx, &tx, *v) {
				dec_case::<Transaction>(cx, *v, true, 'A', &tb, None, Expect::Any, what);
			}
		}
	}
	weight_boundary(cx);
	// a few big mainnet bodies
	let nbig = if cx.thorough { 4 } else { 1 };
	for _ in 0..nbig {
		let body = gen_body(&mut cx.rng, 300, 60, 80, false, false, true);
		roundtrip_all(cx, 'M', true, &body, false);
	}
}

/// Bodies and blocks whose weight (inputs*1 + outputs*21 + kernels*3) is exactly
/// `global::max_block_weight()`, one below and one above, on both chain types and under every
/// protocol version: at or below the limit a body decodes from its own encoding to an equal value,
/// one above it is refused (`TransactionBody::read` tests `weight > max_block_weight()`).
fn weight_boundary(cx: &mut Ctx) {
	for chain in ['A', 'M'].iter() {
		set_env(*chain, true);
		let max = global::max_block_weight();
		// (inputs, outputs, kernels) at max - 1, max, max + 1
		let comps: [(usize, usize, usize); 3] = if *chain == 'A' {
			[(0, 10, 13), (1, 10, 13), (2, 10, 13)]
		} else {
			[(18, 1902, 13), (19, 1902, 13), (20, 1902, 13)]
		};
		for (k, (ni, no, nk)) in comps.iter().enumerate() {
			let w = (*ni + 21 * *no + 3 * *nk) as u64;
			let what = ["weight-max-1", "weight-max", "weight-max+1"][k];
			if w + 1 != max + k as u64 {
				cx.oracle_fail(format!("weight boundary composition {}/{}/{} = {} does not sit at max_block_weight {} {:+}", ni, no, nk, w, max, k as i64 - 1));
				continue;
			}
			// Mainnet encodings are 1.4 MB each: the quick tier keeps the limit itself and one above,
			// at the two input formats; the thorough tier does everything
			let versions: Vec<u32> = if *chain == 'A' || cx.thorough {
				VERSIONS.to_vec()
			} else if k == 0 {
				vec![]
			} else {
				vec![2, 3]
			};
			if versions.is_empty() {
				continue;
			}
			set_env(*chain, true);
			let body = gen_body(&mut cx.rng, *ni, *no, *nk, false, false, true);
			let co_body = gen_body(&mut cx.rng, *ni, *no, *nk, true, false, true);
			let blk = Block {
				header: gen_header(&mut cx.rng, *chain),
				body: body.clone(),
			};
			for v in versions.iter() {
				set_env(*chain, true);
				let exp = if k < 2 { Expect::Valid } else { Expect::Reject };
				if let Some(bb) = own_enc(cx, &body, *v) {
					dec_case::<TransactionBody>(cx, *v, true, *chain, &bb, Some(&body), exp, what);
				}
				if *chain == 'A' || cx.thorough || *v == 3 {
					set_env(*chain, true);
					if let Some(kb) = own_enc(cx, &blk, *v) {
						dec_case::<Block>(cx, *v, true, *chain, &kb, Some(&blk), exp, what);
					}
				}
				if *v >= 3 && (*chain == 'A' || cx.thorough) {
					set_env(*chain, true);
					if let Some(cb) = own_enc(cx, &co_body, *v) {
						dec_case::<TransactionBody>(cx, *v, true, *chain, &cb, Some(&co_body), exp, what);
					}
				}
			}
			if *chain == 'A' {
				for v in [1u32, 3].iter() {
					let _ = enc_case(cx, *v, 'A', &body);
				}
			}
		}
	}
}

fn proofs_headers(cx: &mut Ctx) {
	for chain in ['A', 'M'].iter() {
		let ps = proofsize_of(*chain);
		let reps = if cx.thorough { 6 } else { 2 };
		for eb in 1u8..=63 {
			for _ in 0..reps {
				let p = gen_proof(&mut cx.rng, eb, ps);
				set_env(*chain, false);
				let plen = (eb as usize * ps + 7) / 8;
				// the writer itself works for every width; the reader refuses pack_len < 8
				let e = enc_case(cx, 1, *chain, &p);
				if let Ok(b) = e {
					let exp = if plen >= 8 { Expect::Valid } else { Expect::Reject };
					dec_case::<Proof>(cx, 1, false, *chain, &b, Some(&p), exp, if plen >= 8 { "valid" } else { "pack-len<8" });
					if plen >= 8 {
						dec_case::<Proof>(cx, 3, false, *chain, &b, Some(&p), Expect::Valid, "valid");
						// padding bits above proofsize*edge_bits must be zero
						let used = eb as usize * ps;
						for bit in used..plen * 8 {
							match b.get(1 + bit / 8).and_then(|x| patched(&b, 1 + bit / 8, &[*x | (1 << (bit % 8))])) {
								Some(m) => {
									dec_case::<Proof>(cx, 1, false, *chain, &m, None, Expect::Reject, "padding-bits");
								}
								None => layout_fail(cx, "Proof", &b, 1),
							}
						}
						generic_mutations::<Proof>(cx, 1, false, *chain, &b, 3, 3);
					}
				}
			}
		}
		// edge_bits 0 and 64..=255
		set_env(*chain, false);
		let p31 = gen_proof(&mut cx.rng, 31, ps);
		if let Some(good) = own_enc(cx, &p31, 1) {
			for eb in (0u16..1).chain(64..=255) {
				match patched(&good, 0, &[eb as u8]) {
					Some(mut m) => {
						// give it enough bytes whatever it would want to read
						m.extend_from_slice(&vec![0u8; 2000]);
						dec_case::<Proof>(cx, 1, false, *chain, &m, None, Expect::Reject, "edge-bits-range");
					}
					None => layout_fail(cx, "Proof", &good, 1),
				}
			}
		}
		let n = if cx.thorough { 300 } else { 50 };
		for i in 0..n {
			set_env(*chain, false);
			let h = gen_header(&mut cx.rng, *chain);
			roundtrip_all(cx, *chain, false, &h, true);
			roundtrip_all(cx, *chain, false, &h.pow, i < 10);
			set_env(*chain, false);
			if let Some(b) = own_enc(cx, &h, 1) {
				generic_mutations::<BlockHeader>(cx, 1, false, *chain, &b, 10, 16);
				// timestamp out of chrono's date range
				for ts in [TS_MAX + 1, TS_MIN - 1, i64::MAX, i64::MIN, TS_MAX + 86400, TS_MAX, TS_MIN].iter() {
					let exp = if *ts > TS_MAX || *ts < TS_MIN { Expect::Reject } else { Expect::Any };
					match patched(&b, 10, &ts.to_be_bytes()) {
						Some(m) => {
							dec_case::<BlockHeader>(cx, 2, false, *chain, &m, None, exp, "timestamp-range");
						}
						None => layout_fail(cx, "BlockHeader", &b, 1),
					}
				}
			}
			let tip = Tip {
				height: pick_u64(&mut cx.rng),
				last_block_h: catch(AssertUnwindSafe(|| h.hash())).unwrap_or_else(|_| hash32(&mut cx.rng)),
				prev_block_h: h.prev_hash,
				total_difficulty: h.pow.total_difficulty,
			};
			roundtrip_all(cx, *chain, false, &tip, true);
			if i < 10 {
				if let Some(tb) = own_enc(cx, &tip, 1) {
					generic_mutations::<Tip>(cx, 1, false, *chain, &tb, 80, 4);
				}
			}
		}
	}
}

fn compact_blocks(cx: &mut Ctx) {
	let n = if cx.thorough { 60 } else { 14 };
	for i in 0..n {
		let chain = if i % 5 == 4 { 'M' } else { 'A' };
		set_env(chain, true);
		let h = gen_header(&mut cx.rng, chain);
		let (no, nk, nid) = match i % 5 {
			0 => (0usize, 0usize, 0usize),
			1 => (1, 1, 0),
			2 => (1, 1, 5),
			3 => (2, 3, cx.rng.below(40) as usize),
			_ => (cx.rng.below(3) as usize, cx.rng.below(4) as usize, cx.rng.below(200) as usize),
		};
		let mut outs: Vec<Output> = (0..no).map(|_| gen_output(&mut cx.rng, true)).collect();
		let mut kers: Vec<TxKernel> = (0..nk).map(|j| gen_kernel(&mut cx.rng, if j % 2 == 0 { 1 } else { j as u64 })).collect();
		let mut ids: Vec<ShortId> = (0..nid).map(|_| ShortId::from_bytes(&cx.rng.bytes(6))).collect();
		sort_by_impl(&mut outs, "outs");
		sort_by_impl(&mut kers, "kers");
		sort_by_impl(&mut ids, "ids");
		ids.dedup();
		let nonce = pick_u64(&mut cx.rng);
		for v in [1u32, 2, 1000].iter() {
			set_env(chain, true);
			// `CompactBlock.body` is private: build the encoding from its parts and read it
			let parts = (own_enc(cx, &h, *v), own_encs(cx, &outs, *v), own_encs(cx, &kers, *v), own_encs(cx, &ids, *v));
			let p = match parts {
				(Some(mut prefix), Some(eo), Some(ek), Some(ei)) => {
					prefix.extend_from_slice(&nonce.to_be_bytes());
					Parts {
						prefix,
						counts: [outs.len() as u64, kers.len() as u64, ids.len() as u64],
						secs: [eo, ek, ei],
					}
				}
				_ => continue,
			};
			let bytes = p.bytes();
			if no == 0 && nk == 0 && ids.is_empty() {
				cx.corner("CompactBlock:0-outputs-0-kernels-0-ids");
			}
			if no == 1 && nk == 1 && ids.is_empty() {
				cx.corner("CompactBlock:1-output-1-kernel-0-ids");
			}
			if let Some(cb) = dec_case::<CompactBlock>(cx, *v, true, chain, &bytes, None, Expect::Any, "valid") {
				// now we own a value: full round trip + hash = header hash under every version
				if hash_of(&cb).ok().flatten() != hash_of(&h).ok().flatten() {
					cx.oracle_fail(format!("CompactBlock hash is not the header hash: {} [version {}]", shown(&bytes), v));
				}
				if *v == 1 {
					roundtrip_all(cx, chain, true, &cb, no <= 1 && nid <= 5);
				}
			} else {
				cx.oracle_fail(format!("CompactBlock does not decode from its own encoding (header, nonce, counts, sorted duplicate-free outputs / kernels / short ids): {} [version {}]", shown(&bytes), v));
			}
			parts_mutations::<CompactBlock>(cx, *v, true, chain, &p, false);
			generic_mutations::<CompactBlock>(cx, *v, true, chain, &bytes, 6, 10);
		}
	}
}

// ---------------------------------------------------------------------------------------------
// MMR segments (core/src/core/pmmr/segment.rs, chain/src/txhashset/bitmap_accumulator.rs)

/// The hashes of a `SegmentProof`. It has no accessor for them: go through its own serialisation
/// (count, then 32 bytes each). `None`: its writer failed or wrote something else (the callers
/// report that; nothing is indexed blindly).
fn proof_hashes(p: &SegmentProof) -> Option<Vec<Hash>> {
	let bytes = enc_at(p, 1).ok()?;
	let mut n8 = [0u8; 8];
	n8.copy_from_slice(bytes.get(0..8)?);
	let n = u64::from_be_bytes(n8) as usize;
	if n != p.size() || bytes.len() != 8 + 32 * n {
		return None;
	}
	(0..n).map(|i| bytes.get(8 + 32 * i..8 + 32 * (i + 1)).map(Hash::from_vec)).collect()
}

/// tokens of the proof's hashes, `?` if they cannot be had (see `UNDESCRIBABLE`)
fn proof_tokens_of(p: &SegmentProof) -> String {
	match proof_hashes(p) {
		Some(hs) => hashes_tokens(&hs),
		None => UNDESCRIBABLE.to_string(),
	}
}

/// the encoding a `SegmentProof` with these hashes has: count, then the hashes
fn proof_bytes(hs: &[Hash]) -> Vec<u8> {
	let mut bytes = (hs.len() as u64).to_be_bytes().to_vec();
	for h in hs {
		bytes.extend_from_slice(h.as_bytes());
	}
	bytes
}

/// A `SegmentProof` with the given hashes. Its field is private and it has no constructor, so the only
/// way to one with chosen hashes is its own reader — which is exactly what is under test: the result
/// of the decode is handled, never unwrapped.
fn mk_proof(hs: &[Hash]) -> Result<SegmentProof, String> {
	dec_full::<SegmentProof>(&proof_bytes(hs), 1).map(|(p, _)| p)
}

thread_local! {
	/// Honest proofs by size, made by `SegmentProof::generate` (through `Segment::from_pmmr` over
	/// in-memory MMRs) — not by the decoder. Filled by `honest_pool`.
	static HONEST_PROOFS: std::cell::RefCell<BTreeMap<usize, Vec<SegmentProof>>> = std::cell::RefCell::new(BTreeMap::new());
}

/// An in-memory MMR of `n` generated leaves and every honest segment of heights `0..=max_h` over it,
/// as `Segment::from_pmmr` produces them. A whole MMR that fits into one segment (idx 0,
/// n <= 2^height) comes with an EMPTY Merkle proof.
fn honest_segments_of<T>(cx: &mut Ctx, n: u64, max_h: u8) -> Vec<Segment<T>>
where
	T: Item + PMMRable<E = T> + std::fmt::Debug,
{
	let mut ba = VecBackend::<T>::new();
	let mut size = 0u64;
	for i in 0..n {
		let e = T::gen(&mut cx.rng, i as usize);
		let pushed = catch(AssertUnwindSafe(|| {
			let mut p = PMMR::at(&mut ba, size);
			p.push(&e).map(|_| p.size)
		}));
		match pushed {
			Ok(Ok(sz)) => size = sz,
			other => {
				cx.stat(format!("honest {} MMR push failed ({})", T::SEG_NAME, if other.is_ok() { "error" } else { "panic" }));
				return vec![];
			}
		}
	}
	let mut out = vec![];
	for h in 0..=max_h {
		let count = (n + (1u64 << h) - 1) >> h;
		for idx in 0..count {
			let id = SegmentIdentifier { height: h, idx };
			let r = catch(AssertUnwindSafe(|| {
				let mmr = ReadonlyPMMR::at(&ba, size);
				Segment::<T>::from_pmmr(id, &mmr, false)
			}));
			match r {
				Ok(Ok(s)) => out.push(s),
				Ok(Err(e)) => cx.stat(format!("honest {} from_pmmr error {:?}", T::SEG_NAME, e)),
				Err(_) => cx.stat(format!("honest {} from_pmmr panic", T::SEG_NAME)),
			}
		}
	}
	out
}

/// fill `HONEST_PROOFS` (once per run): proofs of 0, 1, 2, … hashes that no decoder had a hand in
fn honest_pool(cx: &mut Ctx) {
	if HONEST_PROOFS.with(|p| !p.borrow().is_empty()) {
		return;
	}
	for n in [1u64, 2, 3, 4, 5, 7, 8, 11, 16, 23, 32, 47, 64, 95, 128, 255, 511, 1023].iter() {
		for s in honest_segments_of::<OutputIdentifier>(cx, *n, if *n <= 16 { 4 } else { 0 }) {
			let (_, _, _, _, _, pf) = s.parts();
			HONEST_PROOFS.with(|p| {
				let mut p = p.borrow_mut();
				let e = p.entry(pf.size()).or_insert_with(Vec::new);
				if e.len() < 6 && !e.contains(&pf) {
					e.push(pf);
				}
			});
		}
	}
	let sizes: Vec<String> = HONEST_PROOFS.with(|p| p.borrow().iter().map(|(k, v)| format!("{}:{}", k, v.len())).collect());
	cx.out.raw(&format!("#STAT honest SegmentProof pool (from Segment::from_pmmr, size:count) = {}", sizes.join(" ")));
	if HONEST_PROOFS.with(|p| p.borrow().get(&0).is_none()) {
		cx.stat("honest SegmentProof pool has no empty proof".to_string());
	}
}

/// A proof with these hashes through the reader; when the reader refuses its own format that is an
/// oracle failure (printed with the encoding) and an honest proof **of the same size** from the pool
/// stands in, so that the objects containing it are still built and checked. The hashes of the
/// returned proof are `proof_hashes(&p)`, not necessarily `hs`.
fn proof_for(cx: &mut Ctx, hs: &[Hash]) -> Option<SegmentProof> {
	match mk_proof(hs) {
		Ok(p) => Some(p),
		Err(e) => {
			cx.oracle_fail(format!("SegmentProof does not decode from its own encoding: {} ({}) [version 1]", hex(&proof_bytes(hs)), e));
			honest_pool(cx);
			let k = cx.rng.below(6) as usize;
			let alt = HONEST_PROOFS.with(|p| p.borrow().get(&hs.len()).and_then(|v| v.get(k % v.len().max(1)).cloned()));
			if alt.is_none() {
				cx.stat(format!("skipped: no SegmentProof of {} hashes can be constructed", hs.len()));
			}
			alt
		}
	}
}

fn hashes_tokens(hs: &[Hash]) -> String {
	let mut s = hs.len().to_string();
	for h in hs {
		s.push(' ');
		s.push_str(&hex(h.as_bytes()));
	}
	s
}

impl Ty for SegmentIdentifier {
	const NAME: &'static str = "SegmentIdentifier";
	fn hash_hex(&self) -> Option<String> {
		None
	}
	fn same(&self, d: &Self, _v: u32) -> bool {
		self == d
	}
	fn describe(&self) -> String {
		format!("{} {}", self.height, self.idx)
	}
}

impl Ty for SegmentProof {
	const NAME: &'static str = "SegmentProof";
	fn hash_hex(&self) -> Option<String> {
		None
	}
	fn same(&self, d: &Self, _v: u32) -> bool {
		self == d
	}
	fn describe(&self) -> String {
		proof_tokens_of(self)
	}
}

/// leaf types of the three PIBD segment kinds
trait Item: Readable + Writeable + Clone {
	const SEG_NAME: &'static str;
	const RESP_NAME: &'static str;
	fn tok(&self) -> String;
	fn eq_item(&self, o: &Self) -> bool;
	fn item_seg(&self, v: u32) -> Seg;
	fn gen(rng: &mut Rng, i: usize) -> Self;
}

impl Item for OutputIdentifier {
	const SEG_NAME: &'static str = "OutputSegment";
	const RESP_NAME: &'static str = "-";
	fn tok(&self) -> String {
		format!("{} {}", of_tok(self.features), hex(&self.commit.0))
	}
	fn eq_item(&self, o: &Self) -> bool {
		self.features == o.features && self.commit == o.commit
	}
	fn item_seg(&self, _v: u32) -> Seg {
		Seg::Plain(34)
	}
	fn gen(rng: &mut Rng, i: usize) -> Self {
		gen_output(rng, i % 3 == 1).identifier
	}
}

impl Item for RangeProof {
	const SEG_NAME: &'static str = "RangeProofSegment";
	const RESP_NAME: &'static str = "RangeProofSegmentResponse";
	fn tok(&self) -> String {
		format!("{} {}", self.plen, hex(&self.proof[..]))
	}
	fn eq_item(&self, o: &Self) -> bool {
		rp_same(self, o)
	}
	fn item_seg(&self, _v: u32) -> Seg {
		Seg::Proof
	}
	fn gen(rng: &mut Rng, _i: usize) -> Self {
		range_proof(rng, 675, false)
	}
}

impl Item for TxKernel {
	const SEG_NAME: &'static str = "KernelSegment";
	const RESP_NAME: &'static str = "KernelSegmentResponse";
	fn tok(&self) -> String {
		self.describe()
	}
	fn eq_item(&self, o: &Self) -> bool {
		kernel_same(self, o)
	}
	fn item_seg(&self, v: u32) -> Seg {
		Seg::Plain(enc_at(self, v).map(|b| b.len()).unwrap_or(0))
	}
	fn gen(rng: &mut Rng, i: usize) -> Self {
		gen_kernel(rng, i as u64)
	}
}

fn seg_tokens<T: Item>(s: &Segment<T>) -> String {
	let (id, hp, hs, lp, ld, pf) = s.clone().parts();
	let mut out = format!("{} {} {} {} {} {}", id.height, id.idx, nat_list(&hp), hashes_tokens(&hs), nat_list(&lp), ld.len());
	for d in &ld {
		out.push(' ');
		out.push_str(&d.tok());
	}
	out.push(' ');
	out.push_str(&proof_tokens_of(&pf));
	out
}

fn seg_same<T: Item>(a: &Segment<T>, b: &Segment<T>) -> bool {
	let (ia, hpa, hsa, lpa, lda, pfa) = a.clone().parts();
	let (ib, hpb, hsb, lpb, ldb, pfb) = b.clone().parts();
	ia == ib
		&& hpa == hpb
		&& hsa == hsb
		&& lpa == lpb
		&& lda.len() == ldb.len()
		&& lda.iter().zip(ldb.iter()).all(|(x, y)| x.eq_item(y))
		&& pfa == pfb
}

fn seg_segs<T: Item>(s: &Segment<T>, v: u32, prefix: usize, suffix: usize) -> Vec<Seg> {
	let (_, _hp, hs, _lp, ld, pf) = s.clone().parts();
	let mut segs = vec![Seg::Plain(prefix + 9 + 8 + hs.len() * 40 + 8 + ld.len() * 8)];
	for d in &ld {
		segs.push(d.item_seg(v));
	}
	segs.push(Seg::Plain(8 + 32 * pf.size() + suffix));
	segs
}

impl<T: Item> Ty for Segment<T> {
	const NAME: &'static str = T::SEG_NAME;
	fn hash_hex(&self) -> Option<String> {
		None
	}
	fn same(&self, d: &Self, _v: u32) -> bool {
		seg_same(self, d)
	}
	fn describe(&self) -> String {
		seg_tokens(self)
	}
	fn segs(&self, v: u32) -> Vec<Seg> {
		seg_segs(self, v, 0, 0)
	}
}

impl<T: Item> Ty for SegmentResponse<T> {
	const NAME: &'static str = T::RESP_NAME;
	fn hash_hex(&self) -> Option<String> {
		None
	}
	fn same(&self, d: &Self, _v: u32) -> bool {
		self.block_hash == d.block_hash && seg_same(&self.segment, &d.segment)
	}
	fn describe(&self) -> String {
		format!("{} {}", hex(self.block_hash.as_bytes()), seg_tokens(&self.segment))
	}
	fn segs(&self, v: u32) -> Vec<Seg> {
		seg_segs(&self.segment, v, 32, 0)
	}
}

impl Ty for OutputSegmentResponse {
	const NAME: &'static str = "OutputSegmentResponse";
	fn hash_hex(&self) -> Option<String> {
		None
	}
	fn same(&self, d: &Self, _v: u32) -> bool {
		self.response.block_hash == d.response.block_hash
			&& seg_same(&self.response.segment, &d.response.segment)
			&& self.output_bitmap_root == d.output_bitmap_root
	}
	fn describe(&self) -> String {
		format!(
			"{} {} {}",
			hex(self.response.block_hash.as_bytes()),
			seg_tokens(&self.response.segment),
			hex(self.output_bitmap_root.as_bytes())
		)
	}
}

// ---- bitmap segments: the harness keeps its own picture of the blocks (bits) ----

/// bits of one block, `n_chunks * 1024` of them
#[derive(Clone, PartialEq)]
struct BlockBits(Vec<bool>);

impl BlockBits {
	fn to_bytes(&self) -> Vec<u8> {
		// BitVec::to_bytes: bit i -> byte i/8, mask 0x80 >> (i%8)
		let mut out = vec![0u8; self.0.len() / 8];
		for (i, b) in self.0.iter().enumerate() {
			if *b {
				out[i / 8] |= 0x80 >> (i % 8);
			}
		}
		out
	}
	/// harness-side encoder of a block in a chosen mode (0 raw, 1 positive, 2 negative);
	/// `order`: 0 ascending, 1 descending, 2 ascending with the first index repeated
	fn encode(&self, mode: u8, order: u8) -> Vec<u8> {
		let mut out = vec![(self.0.len() / 1024) as u8, mode];
		match mode {
			0 => out.extend_from_slice(&self.to_bytes()),
			_ => {
				let want = mode == 1;
				let mut idx: Vec<u16> = self.0.iter().enumerate().filter(|(_, b)| **b == want).map(|(i, _)| i as u16).collect();
				if order == 1 {
					idx.reverse();
				}
				if order == 2 && !idx.is_empty() {
					let f = idx[0];
					idx.insert(0, f);
				}
				out.extend_from_slice(&(idx.len() as u16).to_be_bytes());
				for i in idx {
					out.extend_from_slice(&i.to_be_bytes());
				}
			}
		}
		out
	}
	/// the mode `BitmapBlock::write` picks
	fn canonical_mode(&self) -> u8 {
		let pos = self.0.iter().filter(|b| **b).count();
		let neg = self.0.len() - pos;
		if pos < 4096 {
			1
		} else if neg < 4096 {
			2
		} else {
			0
		}
	}
}

/// the blocks of a (valid) bitmap segment, through `into_segment` and the chunks' own bytes
fn bitmap_blocks(s: &BitmapSegment) -> Option<(SegmentIdentifier, Vec<BlockBits>, Vec<Hash>)> {
	let s2 = s.clone();
	let seg: Segment<BitmapChunk> = catch(AssertUnwindSafe(move || s2.into_segment())).ok()?.ok()?;
	let (id, _, _, _, chunks, proof) = seg.parts();
	let mut blocks = vec![];
	for group in chunks.chunks(64) {
		let mut bits = vec![];
		for c in group {
			let mut cb = vec![false; 1024];
			for i in c.set_iter(0) {
				cb[i as usize] = true;
			}
			bits.extend_from_slice(&cb);
		}
		blocks.push(BlockBits(bits));
	}
	Some((id, blocks, proof_hashes(&proof)?))
}

fn bitmap_tokens(s: &BitmapSegment) -> String {
	match bitmap_blocks(s) {
		Some((id, blocks, pf)) => {
			let mut out = format!("{} {} {}", id.height, id.idx, blocks.len());
			for b in &blocks {
				out.push_str(&format!(" {} {}", b.0.len() / 1024, hex(&b.to_bytes())));
			}
			out.push(' ');
			out.push_str(&hashes_tokens(&pf));
			out
		}
		// `into_segment` refused / panicked or the proof's writer failed: no description the model could use
		None => UNDESCRIBABLE.to_string(),
	}
}

/// block byte ranges of an encoded bitmap segment starting at `off`; None if the walk runs out
fn walk_bitmap(b: &[u8], off: usize) -> Option<(Vec<(usize, usize)>, usize)> {
	let mut i = off + 9;
	if b.len() < i + 2 {
		return None;
	}
	let n = u16::from_be_bytes([b[i], b[i + 1]]) as usize;
	i += 2;
	let mut ranges = vec![];
	for _ in 0..n {
		let st = i;
		if b.len() < i + 2 {
			return None;
		}
		let nch = b[i] as usize;
		let mode = b[i + 1];
		i += 2;
		if mode == 0 {
			i += nch * 128;
		} else {
			if b.len() < i + 2 {
				return None;
			}
			let k = u16::from_be_bytes([b[i], b[i + 1]]) as usize;
			i += 2 + 2 * k;
		}
		if i > b.len() {
			return None;
		}
		ranges.push((st, i));
	}
	Some((ranges, i))
}

/// input and canon differ only inside block encodings (same chunk counts)?
fn bitmap_only_blocks_differ(input: &[u8], canon: &[u8], off: usize) -> bool {
	let (ri, ei) = match walk_bitmap(input, off) {
		Some(x) => x,
		None => return false,
	};
	let (rc, ec) = match walk_bitmap(canon, off) {
		Some(x) => x,
		None => return false,
	};
	if ri.len() != rc.len() || input[..off + 11] != canon[..off + 11] || input[ei..] != canon[ec..] {
		return false;
	}
	ri.iter().zip(rc.iter()).all(|(a, c)| input[a.0] == canon[c.0])
}

impl Ty for BitmapSegment {
	const NAME: &'static str = "BitmapSegment";
	fn hash_hex(&self) -> Option<String> {
		None
	}
	fn same(&self, d: &Self, _v: u32) -> bool {
		self == d
	}
	fn describe(&self) -> String {
		bitmap_tokens(self)
	}
	fn known_noncanon(input: &[u8], canon: &[u8], x: &Self, v: u32) -> Vec<String> {
		// same value, other block encoding (mode / index order / repeated index)
		match dec_full::<BitmapSegment>(canon, v) {
			Ok((y, _)) if &y == x && bitmap_only_blocks_differ(input, canon, 0) => vec!["bitmapblock-noncanonical-accepted".to_string()],
			_ => vec![],
		}
	}
}

impl Ty for OutputBitmapSegmentResponse {
	const NAME: &'static str = "OutputBitmapSegmentResponse";
	fn hash_hex(&self) -> Option<String> {
		None
	}
	fn same(&self, d: &Self, _v: u32) -> bool {
		self.block_hash == d.block_hash && self.segment == d.segment && self.output_root == d.output_root
	}
	fn describe(&self) -> String {
		format!("{} {} {}", hex(self.block_hash.as_bytes()), bitmap_tokens(&self.segment), hex(self.output_root.as_bytes()))
	}
	fn known_noncanon(input: &[u8], canon: &[u8], x: &Self, v: u32) -> Vec<String> {
		match dec_full::<OutputBitmapSegmentResponse>(canon, v) {
			Ok((y, _)) if y.segment == x.segment && bitmap_only_blocks_differ(input, canon, 32) => vec!["bitmapblock-noncanonical-accepted".to_string()],
			_ => vec![],
		}
	}
}

// ---------------------------------------------------------------------------------------------
// handshake and sync messages (p2p/src/msg.rs, p2p/src/types.rs)

const CAPS_ALL: u32 = 0x7f;

fn addr_tokens(a: &PeerAddr) -> String {
	match a.0 {
		SocketAddr::V4(s) => format!("4 {} {}", hex(&s.ip().octets()), s.port()),
		SocketAddr::V6(s) => {
			let segs: Vec<u64> = s.ip().segments().iter().map(|x| *x as u64).collect();
			format!("6 {} {} {} {}", nat_list(&segs), s.port(), s.flowinfo(), s.scope_id())
		}
	}
}

/// why does `d` (decoded) differ from `o` (written)? Ok(None): equal; Ok(Some(tag)): recorded finding
fn addr_diff(o: &PeerAddr, d: &PeerAddr) -> Result<Option<&'static str>, ()> {
	if o.0 == d.0 {
		return Ok(None);
	}
	match (o.0, d.0) {
		(SocketAddr::V6(a), SocketAddr::V4(b)) => {
			if a.ip().to_ipv4_mapped() == Some(*b.ip()) && a.port() == b.port() {
				Ok(Some("peeraddr-v6-mapped-to-v4"))
			} else {
				Err(())
			}
		}
		(SocketAddr::V6(a), SocketAddr::V6(b)) => {
			if a.ip() == b.ip() && a.port() == b.port() && b.flowinfo() == 0 && b.scope_id() == 0 {
				Ok(Some("peeraddr-v6-flowinfo-scope-dropped"))
			} else {
				Err(())
			}
		}
		_ => Err(()),
	}
}

/// byte-level normaliser of one encoded `PeerAddr`: what a reader-then-writer makes of it
fn norm_addr(inp: &[u8], i: &mut usize, out: &mut Vec<u8>, tags: &mut BTreeSet<&'static str>) -> bool {
	if *i >= inp.len() {
		return false;
	}
	let tag = inp[*i];
	if tag == 0 {
		if inp.len() < *i + 7 {
			return false;
		}
		out.extend_from_slice(&inp[*i..*i + 7]);
		*i += 7;
		return true;
	}
	if inp.len() < *i + 19 {
		return false;
	}
	let b = &inp[*i + 1..*i + 19];
	if tag != 1 {
		// tags 2..255 are refused since the repair of PeerAddr::read: accepting one is an oracle failure
		return false;
	}
	// only IPv4-mapped addresses (::ffff:a.b.c.d) are turned into V4 since the repair
	let mapped = b[..10].iter().all(|x| *x == 0) && b[10] == 0xff && b[11] == 0xff;
	if mapped {
		tags.insert("peeraddr-v6-mapped-to-v4");
		out.push(0);
		out.extend_from_slice(&b[12..16]);
		out.extend_from_slice(&b[16..18]);
	} else {
		out.push(1);
		out.extend_from_slice(b);
	}
	*i += 19;
	true
}

fn norm_caps(inp: &[u8], i: &mut usize, out: &mut Vec<u8>, tags: &mut BTreeSet<&'static str>) -> bool {
	if inp.len() < *i + 4 {
		return false;
	}
	let c = u32::from_be_bytes([inp[*i], inp[*i + 1], inp[*i + 2], inp[*i + 3]]);
	if c & !CAPS_ALL != 0 {
		tags.insert("capabilities-unknown-bits-dropped");
	}
	out.extend_from_slice(&(c & CAPS_ALL).to_be_bytes());
	*i += 4;
	true
}

fn norm_copy(inp: &[u8], i: &mut usize, n: usize, out: &mut Vec<u8>) -> bool {
	if inp.len() < *i + n {
		return false;
	}
	out.extend_from_slice(&inp[*i..*i + n]);
	*i += n;
	true
}

fn norm_result(ok: bool, out: Vec<u8>, canon: &[u8], tags: BTreeSet<&'static str>) -> Vec<String> {
	if ok && out[..] == canon[..] {
		tags.iter().map(|t| t.to_string()).collect()
	} else {
		vec![]
	}
}

impl Ty for PeerAddr {
	const NAME: &'static str = "PeerAddr";
	fn hash_hex(&self) -> Option<String> {
		None
	}
	fn same(&self, d: &Self, _v: u32) -> bool {
		// `PeerAddr: PartialEq` ignores the port of non-loopback addresses: compare the socket address
		self.0 == d.0
	}
	fn describe(&self) -> String {
		addr_tokens(self)
	}
	fn known_noncanon(input: &[u8], canon: &[u8], _x: &Self, _v: u32) -> Vec<String> {
		let (mut i, mut out, mut tags) = (0, vec![], BTreeSet::new());
		let ok = norm_addr(input, &mut i, &mut out, &mut tags) && i == input.len();
		norm_result(ok, out, canon, tags)
	}
	fn known_differs(&self, d: &Self, _v: u32) -> Vec<String> {
		match addr_diff(self, d) {
			Ok(Some(t)) => vec![t.to_string()],
			_ => vec![],
		}
	}
}

fn addrs_diff(o: &[PeerAddr], d: &[PeerAddr]) -> Vec<String> {
	if o.len() != d.len() {
		return vec![];
	}
	let mut tags = BTreeSet::new();
	for (a, b) in o.iter().zip(d.iter()) {
		match addr_diff(a, b) {
			Ok(None) => {}
			Ok(Some(t)) => {
				tags.insert(t);
			}
			Err(()) => return vec![],
		}
	}
	tags.iter().map(|t| t.to_string()).collect()
}

fn hand_rest_same(a: &Hand, d: &Hand) -> bool {
	a.version == d.version
		&& a.capabilities == d.capabilities
		&& a.nonce == d.nonce
		&& a.genesis == d.genesis
		&& a.total_difficulty == d.total_difficulty
		&& a.user_agent == d.user_agent
}

impl Ty for Hand {
	const NAME: &'static str = "Hand";
	fn hash_hex(&self) -> Option<String> {
		None
	}
	fn same(&self, d: &Self, _v: u32) -> bool {
		hand_rest_same(self, d) && self.sender_addr.0 == d.sender_addr.0 && self.receiver_addr.0 == d.receiver_addr.0
	}
	fn describe(&self) -> String {
		format!(
			"{} {} {} {} {} {} {} {}",
			self.version.value(),
			self.capabilities.bits(),
			self.nonce,
			hex(self.genesis.as_bytes()),
			self.total_difficulty.to_num(),
			addr_tokens(&self.sender_addr),
			addr_tokens(&self.receiver_addr),
			hex(self.user_agent.as_bytes())
		)
	}
	fn known_noncanon(input: &[u8], canon: &[u8], _x: &Self, _v: u32) -> Vec<String> {
		let (mut i, mut out, mut tags) = (0, vec![], BTreeSet::new());
		let ok = norm_copy(input, &mut i, 4, &mut out)
			&& norm_caps(input, &mut i, &mut out, &mut tags)
			&& norm_copy(input, &mut i, 16, &mut out)
			&& norm_addr(input, &mut i, &mut out, &mut tags)
			&& norm_addr(input, &mut i, &mut out, &mut tags);
		let rest = input.len() - i.min(input.len());
		let ok = ok && norm_copy(input, &mut i, rest, &mut out);
		norm_result(ok, out, canon, tags)
	}
	fn known_differs(&self, d: &Self, _v: u32) -> Vec<String> {
		if !hand_rest_same(self, d) {
			return vec![];
		}
		addrs_diff(&[self.sender_addr, self.receiver_addr], &[d.sender_addr, d.receiver_addr])
	}
}

impl Ty for Shake {
	const NAME: &'static str = "Shake";
	fn hash_hex(&self) -> Option<String> {
		None
	}
	fn same(&self, d: &Self, _v: u32) -> bool {
		self.version == d.version
			&& self.capabilities == d.capabilities
			&& self.genesis == d.genesis
			&& self.total_difficulty == d.total_difficulty
			&& self.user_agent == d.user_agent
	}
	fn describe(&self) -> String {
		format!(
			"{} {} {} {} {}",
			self.version.value(),
			self.capabilities.bits(),
			hex(self.genesis.as_bytes()),
			self.total_difficulty.to_num(),
			hex(self.user_agent.as_bytes())
		)
	}
	fn known_noncanon(input: &[u8], canon: &[u8], _x: &Self, _v: u32) -> Vec<String> {
		let (mut i, mut out, mut tags) = (0, vec![], BTreeSet::new());
		let ok = norm_copy(input, &mut i, 4, &mut out) && norm_caps(input, &mut i, &mut out, &mut tags);
		let rest = input.len() - i.min(input.len());
		let ok = ok && norm_copy(input, &mut i, rest, &mut out);
		norm_result(ok, out, canon, tags)
	}
}

impl Ty for GetPeerAddrs {
	const NAME: &'static str = "GetPeerAddrs";
	fn hash_hex(&self) -> Option<String> {
		None
	}
	fn same(&self, d: &Self, _v: u32) -> bool {
		self.capabilities == d.capabilities
	}
	fn describe(&self) -> String {
		self.capabilities.bits().to_string()
	}
	fn known_noncanon(input: &[u8], canon: &[u8], _x: &Self, _v: u32) -> Vec<String> {
		let (mut i, mut out, mut tags) = (0, vec![], BTreeSet::new());
		let ok = norm_caps(input, &mut i, &mut out, &mut tags) && i == input.len();
		norm_result(ok, out, canon, tags)
	}
}

impl Ty for PeerAddrs {
	const NAME: &'static str = "PeerAddrs";
	fn hash_hex(&self) -> Option<String> {
		None
	}
	fn same(&self, d: &Self, _v: u32) -> bool {
		self.peers.len() == d.peers.len() && self.peers.iter().zip(d.peers.iter()).all(|(a, b)| a.0 == b.0)
	}
	fn describe(&self) -> String {
		let mut s = self.peers.len().to_string();
		for p in &self.peers {
			s.push(' ');
			s.push_str(&addr_tokens(p));
		}
		s
	}
	fn known_noncanon(input: &[u8], canon: &[u8], x: &Self, _v: u32) -> Vec<String> {
		let (mut i, mut out, mut tags) = (0, vec![], BTreeSet::new());
		let mut ok = norm_copy(input, &mut i, 4, &mut out);
		for _ in 0..x.peers.len() {
			ok = ok && norm_addr(input, &mut i, &mut out, &mut tags);
		}
		norm_result(ok && i == input.len(), out, canon, tags)
	}
	fn known_differs(&self, d: &Self, _v: u32) -> Vec<String> {
		addrs_diff(&self.peers, &d.peers)
	}
}

impl Ty for PeerError {
	const NAME: &'static str = "PeerError";
	fn hash_hex(&self) -> Option<String> {
		None
	}
	fn same(&self, d: &Self, _v: u32) -> bool {
		self.code == d.code && self.message == d.message
	}
	fn describe(&self) -> String {
		format!("{} {}", self.code, hex(self.message.as_bytes()))
	}
}

impl Ty for Locator {
	const NAME: &'static str = "Locator";
	fn hash_hex(&self) -> Option<String> {
		None
	}
	fn same(&self, d: &Self, _v: u32) -> bool {
		self.hashes == d.hashes
	}
	fn describe(&self) -> String {
		hashes_tokens(&self.hashes)
	}
}

impl Ty for Ping {
	const NAME: &'static str = "Ping";
	fn hash_hex(&self) -> Option<String> {
		None
	}
	fn same(&self, d: &Self, _v: u32) -> bool {
		self.total_difficulty == d.total_difficulty && self.height == d.height
	}
	fn describe(&self) -> String {
		format!("{} {}", self.total_difficulty.to_num(), self.height)
	}
}

impl Ty for Pong {
	const NAME: &'static str = "Pong";
	fn hash_hex(&self) -> Option<String> {
		None
	}
	fn same(&self, d: &Self, _v: u32) -> bool {
		self.total_difficulty == d.total_difficulty && self.height == d.height
	}
	fn describe(&self) -> String {
		format!("{} {}", self.total_difficulty.to_num(), self.height)
	}
}

impl Ty for BanReason {
	const READER_REST_VARIES: bool = true;
	const NAME: &'static str = "BanReason";
	fn hash_hex(&self) -> Option<String> {
		None
	}
	fn same(&self, d: &Self, _v: u32) -> bool {
		self.ban_reason == d.ban_reason
	}
	fn describe(&self) -> String {
		(self.ban_reason as i32).to_string()
	}
	fn known_noncanon(input: &[u8], canon: &[u8], _x: &Self, _v: u32) -> Vec<String> {
		if input.len() < 4 && canon == [0u8, 0, 0, 0] {
			vec!["banreason-short-read-as-none".to_string()]
		} else {
			vec![]
		}
	}
}

impl Ty for TxHashSetRequest {
	const NAME: &'static str = "TxHashSetRequest";
	fn hash_hex(&self) -> Option<String> {
		None
	}
	fn same(&self, d: &Self, _v: u32) -> bool {
		self.hash == d.hash && self.height == d.height
	}
	fn describe(&self) -> String {
		format!("{} {}", hex(self.hash.as_bytes()), self.height)
	}
}

impl Ty for TxHashSetArchive {
	const NAME: &'static str = "TxHashSetArchive";
	fn hash_hex(&self) -> Option<String> {
		None
	}
	fn same(&self, d: &Self, _v: u32) -> bool {
		self.hash == d.hash && self.height == d.height && self.bytes == d.bytes
	}
	fn describe(&self) -> String {
		format!("{} {} {}", hex(self.hash.as_bytes()), self.height, self.bytes)
	}
}

impl Ty for SegmentRequest {
	const NAME: &'static str = "SegmentRequest";
	fn hash_hex(&self) -> Option<String> {
		None
	}
	fn same(&self, d: &Self, _v: u32) -> bool {
		self.block_hash == d.block_hash && self.identifier == d.identifier
	}
	fn describe(&self) -> String {
		format!("{} {} {}", hex(self.block_hash.as_bytes()), self.identifier.height, self.identifier.idx)
	}
}

// ---------------------------------------------------------------------------------------------
// sections: segments

/// strictly increasing 0-based positions
fn gen_positions(rng: &mut Rng, n: usize, style: u64) -> Vec<u64> {
	let mut v = Vec::with_capacity(n);
	let mut cur: u64 = match style % 4 {
		0 => 0,
		1 => rng.below(1000),
		2 => 1u64 << 40,
		_ => u64::MAX - 1 - (4 * n as u64 + 4),
	};
	for _ in 0..n {
		v.push(cur);
		cur += 1 + if style % 4 == 3 { rng.below(3) } else { rng.below(7) };
	}
	v
}

fn gen_seg_id(rng: &mut Rng) -> SegmentIdentifier {
	SegmentIdentifier {
		height: *rng.pick(&[0u8, 1, 9, 11, 13, 63, 64, 255]),
		idx: match rng.below(4) {
			0 => 0,
			1 => rng.below(100),
			2 => 1u64 << 40,
			_ => u64::MAX,
		},
	}
}

/// `None` only when no proof of `np` hashes can be constructed at all (reported by `proof_for`)
fn gen_segment<T: Item>(cx: &mut Ctx, nh: usize, nl: usize, np: usize, style: u64) -> Option<Segment<T>> {
	let id = gen_seg_id(&mut cx.rng);
	let hp = gen_positions(&mut cx.rng, nh, style);
	let hs: Vec<Hash> = (0..nh).map(|_| hash32(&mut cx.rng)).collect();
	let lp = gen_positions(&mut cx.rng, nl, style / 4);
	let ld: Vec<T> = (0..nl).map(|i| T::gen(&mut cx.rng, i)).collect();
	let pf: Vec<Hash> = (0..np).map(|_| hash32(&mut cx.rng)).collect();
	let proof = proof_for(cx, &pf)?;
	Some(Segment::from_parts(id, hp, hs, lp, ld, proof))
}

/// a segment encoding in parts so that positions / counts can be perturbed
struct SegParts {
	prefix: Vec<u8>,
	id: Vec<u8>,
	n_hashes: u64,
	hash_pos: Vec<u64>, // 1-based wire values
	hashes: Vec<Vec<u8>>,
	n_leaves: u64,
	leaf_pos: Vec<u64>,
	leaves: Vec<Vec<u8>>,
	n_proof: u64,
	proof: Vec<Vec<u8>>,
	suffix: Vec<u8>,
}

impl SegParts {
	/// `None`: a part of the honest segment cannot be written (reported here)
	fn of<T: Item>(cx: &mut Ctx, s: &Segment<T>, v: u32, prefix: Vec<u8>, suffix: Vec<u8>) -> Option<SegParts> {
		let (id, hp, hs, lp, ld, pf) = s.clone().parts();
		let pfh = match proof_hashes(&pf) {
			Some(h) => h,
			None => {
				cx.oracle_fail(format!("SegmentProof cannot be encoded as count + hashes: {} hashes, writer gives {} [version 1]", pf.size(), show_enc(&enc_at(&pf, 1))));
				return None;
			}
		};
		let id_bytes = own_enc(cx, &id, v)?;
		let mut leaves = Vec::with_capacity(ld.len());
		for d in &ld {
			match enc_at(d, v) {
				Ok(b) => leaves.push(b),
				Err(e) => {
					cx.oracle_fail(format!("a leaf of {} cannot be encoded: {} ({}) [version {}]", T::SEG_NAME, d.tok(), e, v));
					return None;
				}
			}
		}
		Some(SegParts {
			prefix,
			id: id_bytes,
			n_hashes: hs.len() as u64,
			hash_pos: hp.iter().map(|p| p.wrapping_add(1)).collect(),
			hashes: hs.iter().map(|h| h.as_bytes().to_vec()).collect(),
			n_leaves: ld.len() as u64,
			leaf_pos: lp.iter().map(|p| p.wrapping_add(1)).collect(),
			leaves,
			n_proof: pfh.len() as u64,
			proof: pfh.iter().map(|h| h.as_bytes().to_vec()).collect(),
			suffix,
		})
	}
	fn bytes(&self) -> Vec<u8> {
		let mut b = self.prefix.clone();
		b.extend_from_slice(&self.id);
		b.extend_from_slice(&self.n_hashes.to_be_bytes());
		for p in &self.hash_pos {
			b.extend_from_slice(&p.to_be_bytes());
		}
		for h in &self.hashes {
			b.extend_from_slice(h);
		}
		b.extend_from_slice(&self.n_leaves.to_be_bytes());
		for p in &self.leaf_pos {
			b.extend_from_slice(&p.to_be_bytes());
		}
		for h in &self.leaves {
			b.extend_from_slice(h);
		}
		b.extend_from_slice(&self.n_proof.to_be_bytes());
		for h in &self.proof {
			b.extend_from_slice(h);
		}
		b.extend_from_slice(&self.suffix);
		b
	}
	fn dup(&self) -> SegParts {
		SegParts {
			prefix: self.prefix.clone(),
			id: self.id.clone(),
			n_hashes: self.n_hashes,
			hash_pos: self.hash_pos.clone(),
			hashes: self.hashes.clone(),
			n_leaves: self.n_leaves,
			leaf_pos: self.leaf_pos.clone(),
			leaves: self.leaves.clone(),
			n_proof: self.n_proof,
			proof: self.proof.clone(),
			suffix: self.suffix.clone(),
		}
	}
}

fn pos_mut(q: &mut SegParts, which: usize) -> &mut Vec<u64> {
	if which == 0 {
		&mut q.hash_pos
	} else {
		&mut q.leaf_pos
	}
}

/// perturbations touching the canonical-form rules of a segment encoding
fn seg_mutations<T: Ty>(cx: &mut Ctx, v: u32, p: &SegParts) {
	let nrd = true;
	for which in 0..2 {
		let n = if which == 0 { p.hash_pos.len() } else { p.leaf_pos.len() };
		if n >= 2 {
			let i = cx.rng.below(n as u64 - 1) as usize;
			// swap neighbours -> not increasing
			let mut q = p.dup();
			pos_mut(&mut q, which).swap(i, i + 1);
			dec_case::<T>(cx, v, nrd, 'A', &q.bytes(), None, Expect::Reject, "positions-unsorted");
			// equal neighbours
			let mut q = p.dup();
			{
				let pv = pos_mut(&mut q, which);
				pv[i + 1] = pv[i];
			}
			dec_case::<T>(cx, v, nrd, 'A', &q.bytes(), None, Expect::Reject, "positions-duplicate");
			// last below first
			let mut q = p.dup();
			{
				let pv = pos_mut(&mut q, which);
				pv[n - 1] = pv[0].saturating_sub(1);
			}
			dec_case::<T>(cx, v, nrd, 'A', &q.bytes(), None, Expect::Reject, "positions-unsorted");
		}
		if n >= 1 {
			// a zero on the wire (positions are 1-based there)
			let mut q = p.dup();
			pos_mut(&mut q, which)[0] = 0;
			dec_case::<T>(cx, v, nrd, 'A', &q.bytes(), None, Expect::Reject, "position-zero");
			// the largest wire value is fine as the last one
			let mut q = p.dup();
			pos_mut(&mut q, which)[n - 1] = u64::MAX;
			dec_case::<T>(cx, v, nrd, 'A', &q.bytes(), None, Expect::Any, "position-max");
		}
	}
	// counts: +-1, the cap and beyond
	for which in 0..3 {
		let cur = [p.n_hashes, p.n_leaves, p.n_proof][which];
		let mut vals = vec![cur + 1, 1_000_000, 1_000_001, u64::MAX, 1u64 << 32];
		if cur > 0 {
			vals.push(cur - 1);
		}
		for c in vals {
			let mut q = p.dup();
			match which {
				0 => q.n_hashes = c,
				1 => q.n_leaves = c,
				_ => q.n_proof = c,
			}
			let exp = if c > 1_000_000 { Expect::Reject } else { Expect::Any };
			dec_case::<T>(cx, v, nrd, 'A', &q.bytes(), None, exp, if c > 1_000_000 { "count-over-cap" } else { "count-vs-content" });
		}
	}
	// a position list longer / shorter than the count says
	if !p.hash_pos.is_empty() {
		let mut q = p.dup();
		q.hash_pos.pop();
		dec_case::<T>(cx, v, nrd, 'A', &q.bytes(), None, Expect::Any, "count-vs-content");
	}
}

/// the corners of the size space, counted for `#STAT empties`
fn seg_corners<T: Item>(cx: &mut Ctx, nh: usize, nl: usize, np: usize, origin: &str) {
	let n = T::SEG_NAME;
	match np {
		0 => cx.corner(&format!("{}:proof-0-hashes({})", n, origin)),
		1 => cx.corner(&format!("{}:proof-1-hash({})", n, origin)),
		_ => {}
	}
	if nh == 0 && nl == 0 {
		cx.corner(&format!("{}:0-hashes-0-leaves({})", n, origin));
	}
	if nh == 0 && nl >= 1 {
		cx.corner(&format!("{}:0-hashes-k-leaves({})", n, origin));
	}
	if nh >= 1 && nl == 0 {
		cx.corner(&format!("{}:k-hashes-0-leaves-fully-pruned({})", n, origin));
	}
	if nh == 1 && nl == 0 {
		cx.corner(&format!("{}:1-hash-0-leaves({})", n, origin));
	}
	if nh == 0 && nl == 1 {
		cx.corner(&format!("{}:0-hashes-1-leaf({})", n, origin));
	}
	if nh == 0 && nl >= 1 && np == 0 {
		cx.corner(&format!("{}:whole-MMR-in-one-segment({})", n, origin));
	}
}

/// everything that is done with one honest segment value
fn segment_cases<T: Item>(cx: &mut Ctx, s: &Segment<T>, i: usize, perturb: bool)
where
	Segment<T>: Ty,
{
	let (_, _, hs, _, ld, pf) = s.clone().parts();
	let (nh, nl) = (hs.len(), ld.len());
	cx.stat(format!(
		"{} hashes {} leaves {} proof {}",
		T::SEG_NAME,
		match nh { 0 => "0", 1 => "1", 2..=5 => "2-5", _ => ">5" },
		match nl { 0 => "0", 1 => "1", 2..=8 => "2-8", 9..=64 => "9-64", _ => ">64" },
		match pf.size() { 0 => "0", 1 => "1", 2..=5 => "2-5", _ => ">5" }
	));
	if nl > 64 {
		// big segments: one decode per wire format, no perturbations (line size)
		for v in [1u32, 1000].iter() {
			set_env('A', true);
			if let Some(b) = own_enc(cx, s, *v) {
				dec_case::<Segment<T>>(cx, *v, true, 'A', &b, Some(s), Expect::Valid, "valid");
			}
		}
		return;
	}
	roundtrip_all(cx, 'A', true, s, nl <= 8);
	if !perturb {
		return;
	}
	for v in [1u32, 2, 1000].iter() {
		set_env('A', true);
		let p = match SegParts::of(cx, s, *v, vec![], vec![]) {
			Some(p) => p,
			None => continue,
		};
		let bytes = p.bytes();
		match enc_at(s, *v) {
			Ok(real) if real == bytes => {}
			other => cx.oracle_fail(format!(
				"{} re-encodes differently: its encoding is not id, count, positions, hashes, count, positions, leaves, proof: writer {} assembled {} [version {}]",
				T::SEG_NAME,
				show_enc(&other),
				shown(&bytes),
				v
			)),
		}
		seg_mutations::<Segment<T>>(cx, *v, &p);
		if nl <= 12 {
			generic_mutations::<Segment<T>>(cx, *v, true, 'A', &bytes, 6, 10);
		}
		if T::SEG_NAME != "OutputSegment" && i % 2 == 1 {
			let resp = SegmentResponse { block_hash: hash32(&mut cx.rng), segment: s.clone() };
			if *v == 1 {
				roundtrip_all(cx, 'A', true, &resp, nl <= 2);
			}
			if let Some(pr) = SegParts::of(cx, s, *v, resp.block_hash.as_bytes().to_vec(), vec![]) {
				seg_mutations::<SegmentResponse<T>>(cx, *v, &pr);
			}
		}
	}
}

fn segments_of<T>(cx: &mut Ctx, n: usize, big: usize)
where
	T: Item + PMMRable<E = T> + std::fmt::Debug,
	Segment<T>: Ty,
{
	for i in 0..n {
		// (pruned-subtree hashes, leaves, proof hashes): every list empty / singleton on purpose
		let (nh, nl, np) = match i % 14 {
			0 => (0, 0, 0),
			1 => (1, 1, 1),
			2 => (0, 2, 3),
			3 => (5, 0, 0), // fully pruned, empty proof
			4 => (cx.rng.below(12) as usize, cx.rng.below(20) as usize, cx.rng.below(10) as usize),
			5 => (2, 8, 2),
			6 => (40, if T::SEG_NAME == "RangeProofSegment" { 12 } else { 64 }, 20),
			7 => (3, big, 7),
			8 => (0, 1 + cx.rng.below(8) as usize, 0), // the whole MMR in one segment: empty proof
			9 => (1, 0, 1),                            // fully pruned: the one hash from_pmmr keeps
			10 => (0, 1, 0),                           // one leaf, nothing else
			11 => (1 + cx.rng.below(6) as usize, 0, 1), // k hashes, no leaves
			12 => (0, 0, 1),
			_ => (1, 0, 0),
		};
		let style = cx.rng.next();
		let s: Segment<T> = match gen_segment(cx, nh, nl, np, style) {
			Some(s) => s,
			None => continue,
		};
		seg_corners::<T>(cx, nh, nl, np, "from_parts");
		segment_cases(cx, &s, i, true);
	}
	// honest segments over in-memory MMRs, proofs by `SegmentProof::generate` (no decoder involved in
	// making the value): 1, 2, 3, … leaves, every height up to 3, every index. idx 0 with
	// n <= 2^height is the whole MMR in one segment, whose proof is EMPTY.
	let sizes: &[u64] = if cx.thorough { &[1, 2, 3, 4, 5, 6, 7, 8, 9, 11, 16, 21] } else if T::SEG_NAME == "RangeProofSegment" { &[1, 2, 3, 5] } else { &[1, 2, 3, 4, 5, 7, 8] };
	for (k, n_leaves) in sizes.iter().enumerate() {
		for s in honest_segments_of::<T>(cx, *n_leaves, 3) {
			let (_, _, hs, _, ld, pf) = s.clone().parts();
			seg_corners::<T>(cx, hs.len(), ld.len(), pf.size(), "from_pmmr");
			let small = pf.size() <= 1 || *n_leaves <= 3;
			segment_cases(cx, &s, k, small && (cx.thorough || T::SEG_NAME == "OutputSegment" || pf.size() == 0));
		}
	}
}

fn segments(cx: &mut Ctx) {
	cx.out.line("ser const max_segment_read_items", "1000000");
	honest_pool(cx);
	// identifiers and proofs on their own
	for i in 0..(if cx.thorough { 200 } else { 40 }) {
		let id = gen_seg_id(&mut cx.rng);
		roundtrip_all(cx, 'A', false, &id, true);
		if let Some(b) = own_enc(cx, &id, 1) {
			generic_mutations::<SegmentIdentifier>(cx, 1, false, 'A', &b, 9, 3);
		}
		// 0 and 1 hashes first, deliberately; then the rest
		let np = match i {
			0 | 1 => 0usize,
			2 | 3 => 1,
			_ => *cx.rng.pick(&[0usize, 1, 2, 10, 33]),
		};
		let hs: Vec<Hash> = (0..np).map(|_| hash32(&mut cx.rng)).collect();
		let pf = match proof_for(cx, &hs) {
			Some(pf) => pf,
			None => continue,
		};
		match np {
			0 => cx.corner("SegmentProof:0-hashes(reader)"),
			1 => cx.corner("SegmentProof:1-hash(reader)"),
			_ => {}
		}
		roundtrip_all(cx, 'A', false, &pf, true);
		if let Some(pb) = own_enc(cx, &pf, 1) {
			for c in [np as u64 + 1, 1_000_000, 1_000_001, u64::MAX].iter() {
				let exp = if *c > 1_000_000 { Expect::Reject } else { Expect::Any };
				match patched(&pb, 0, &c.to_be_bytes()) {
					Some(m) => {
						dec_case::<SegmentProof>(cx, 1, false, 'A', &m, None, exp, "count-over-cap");
					}
					None => layout_fail(cx, "SegmentProof", &pb, 1),
				}
			}
			generic_mutations::<SegmentProof>(cx, 1, false, 'A', &pb, 8, 4);
		}
	}
	// the honest proofs of the pool (made by `SegmentProof::generate`), the empty one first
	let pool: Vec<SegmentProof> = HONEST_PROOFS.with(|p| p.borrow().values().flat_map(|v| v.iter().take(2).cloned()).collect());
	for pf in pool.iter() {
		match pf.size() {
			0 => cx.corner("SegmentProof:0-hashes(from_pmmr)"),
			1 => cx.corner("SegmentProof:1-hash(from_pmmr)"),
			_ => {}
		}
		roundtrip_all(cx, 'A', false, pf, true);
	}
	let n = if cx.thorough { 56 } else { 16 };
	let big = if cx.thorough { 2000 } else { 300 };
	segments_of::<OutputIdentifier>(cx, n, big);
	segments_of::<TxKernel>(cx, n, big / 2);
	segments_of::<RangeProof>(cx, n, 20);
	// OutputSegmentResponse
	for i in 0..(if cx.thorough { 24 } else { 8 }) {
		let style = cx.rng.next();
		// i = 0: no hashes, one leaf, EMPTY proof; i = 4: one hash, one leaf, one proof hash
		let s: Segment<OutputIdentifier> = match gen_segment(cx, i % 4, 1 + i % 5, i % 3, style) {
			Some(s) => s,
			None => continue,
		};
		if i % 3 == 0 {
			cx.corner("OutputSegmentResponse:proof-0-hashes");
		}
		let r = OutputSegmentResponse {
			response: SegmentResponse { block_hash: hash32(&mut cx.rng), segment: s.clone() },
			output_bitmap_root: hash32(&mut cx.rng),
		};
		roundtrip_all(cx, 'A', false, &r, true);
		if let Some(p) = SegParts::of(cx, &s, 1, r.response.block_hash.as_bytes().to_vec(), r.output_bitmap_root.as_bytes().to_vec()) {
			seg_mutations::<OutputSegmentResponse>(cx, 1, &p);
			generic_mutations::<OutputSegmentResponse>(cx, 1, false, 'A', &p.bytes(), 8, 8);
		}
	}
	// honest whole-MMR output segments (empty proof) inside the two response messages
	for n_leaves in [1u64, 2, 4].iter() {
		for s in honest_segments_of::<OutputIdentifier>(cx, *n_leaves, 2) {
			let (_, _, _, _, _, pf) = s.clone().parts();
			if pf.size() > 1 {
				continue;
			}
			cx.corner(if pf.size() == 0 { "OutputSegmentResponse:proof-0-hashes(from_pmmr)" } else { "OutputSegmentResponse:proof-1-hash(from_pmmr)" });
			let r = OutputSegmentResponse {
				response: SegmentResponse { block_hash: hash32(&mut cx.rng), segment: s },
				output_bitmap_root: hash32(&mut cx.rng),
			};
			roundtrip_all(cx, 'A', false, &r, true);
		}
	}
	// a leaf position of u64::MAX cannot be written: `1 + pos` wraps to 0 (release arithmetic), which the reader refuses
	if let Some(pf) = proof_for(cx, &[]) {
		let s: Segment<OutputIdentifier> = Segment::from_parts(
			SegmentIdentifier { height: 0, idx: 0 },
			vec![],
			vec![],
			vec![u64::MAX],
			vec![OutputIdentifier::gen(&mut cx.rng, 0)],
			pf,
		);
		if let Ok(b) = enc_at(&s, 1) {
			cx.out.line(&format!("ser enc OutputSegment 1 A {}", seg_tokens(&s)), &format!("{} none", hex(&b)));
			dec_case::<Segment<OutputIdentifier>>(cx, 1, false, 'A', &b, None, Expect::Any, "pos-u64max-wraps");
		}
	}
}

// ---------------------------------------------------------------------------------------------
// sections: bitmap segments

/// bits of a block with `n_chunks` chunks and roughly the requested number of set bits
fn gen_block_bits(rng: &mut Rng, n_chunks: usize, kind: u64) -> BlockBits {
	let nbits = n_chunks * 1024;
	let target: usize = match kind % 12 {
		0 => 0,
		1 => 1,
		2 => nbits,
		3 => nbits.saturating_sub(1),
		4 => 4095.min(nbits),
		5 => 4096.min(nbits),
		6 => 4097.min(nbits),
		7 => nbits.saturating_sub(4095),
		8 => nbits.saturating_sub(4096),
		9 => nbits.saturating_sub(4097),
		10 => nbits / 2,
		_ => rng.below(nbits as u64 + 1) as usize,
	};
	let mut bits = vec![false; nbits];
	// choose `target` distinct positions: partial Fisher-Yates over indices
	if target * 2 <= nbits {
		let mut idx: Vec<u32> = (0..nbits as u32).collect();
		for i in 0..target {
			let j = i + rng.below((nbits - i) as u64) as usize;
			idx.swap(i, j);
			bits[idx[i] as usize] = true;
		}
	} else {
		for b in bits.iter_mut() {
			*b = true;
		}
		let clear = nbits - target;
		let mut idx: Vec<u32> = (0..nbits as u32).collect();
		for i in 0..clear {
			let j = i + rng.below((nbits - i) as u64) as usize;
			idx.swap(i, j);
			bits[idx[i] as usize] = false;
		}
	}
	BlockBits(bits)
}

/// `proof`: an honestly made or reader-made `SegmentProof` (see `proof_for`)
fn bitmap_segment_from(id: SegmentIdentifier, blocks: &[BlockBits], pf: SegmentProof) -> Option<BitmapSegment> {
	// chunk construction and the conversion both run under `catch`
	catch(AssertUnwindSafe(move || {
		let mut chunks = vec![];
		for b in blocks {
			for c in b.0.chunks(1024) {
				let mut ch = BitmapChunk::new();
				for (i, v) in c.iter().enumerate() {
					if *v {
						ch.set(i as u64, true);
					}
				}
				chunks.push(ch);
			}
		}
		let lp: Vec<u64> = (0..chunks.len() as u64).map(|i| 2 * i + 1).collect();
		BitmapSegment::from(Segment::from_parts(id, vec![], vec![], lp, chunks, pf))
	}))
	.ok()
}

/// hand-assembled encoding: id, block count, blocks (each in the given mode / order), proof
fn bitmap_bytes(id: &SegmentIdentifier, n_blocks: u16, blocks: &[(BlockBits, u8, u8)], proof: &[Hash]) -> Vec<u8> {
	let mut b = vec![id.height];
	b.extend_from_slice(&id.idx.to_be_bytes());
	b.extend_from_slice(&n_blocks.to_be_bytes());
	for (bits, mode, order) in blocks {
		b.extend_from_slice(&bits.encode(*mode, *order));
	}
	b.extend_from_slice(&(proof.len() as u64).to_be_bytes());
	for h in proof {
		b.extend_from_slice(h.as_bytes());
	}
	b
}

fn bitmaps(cx: &mut Ctx) {
	let n = if cx.thorough { 120 } else { 36 };
	for i in 0..n {
		// (height, chunks): one block unless stated
		let (h, n_chunks): (u8, usize) = match i % 12 {
			0 => (0, 1),
			1 => (3, 8),
			2 => (3, 5),
			3 => (6, 64),
			4 => (4, 16),
			5 => (7, 65),
			6 => (7, 128),
			7 => (13, 8),
			8 => (9, 8),
			9 => (5, 32),
			10 => (2, 4),
			_ => (8, 1 + cx.rng.below(if i < 12 { 100 } else { 60 }) as usize),
		};
		let idx = match i % 3 {
			0 => 0,
			1 => cx.rng.below(1000),
			_ => ((1u64 << 63) >> h) - 1, // the last identifier whose leaves stay below 2^63
		};
		let id = SegmentIdentifier { height: h, idx };
		let mut blocks = vec![];
		let mut left = n_chunks;
		let kind0 = (i / 12) as u64 + cx.rng.below(3) * 4;
		while left > 0 {
			let c = left.min(64);
			// full 64-chunk blocks are expensive for the model: keep most of them sparse
			let kind = if c == 64 && blocks.len() > 0 { 1 } else { kind0 + blocks.len() as u64 };
			blocks.push(gen_block_bits(&mut cx.rng, c, kind));
			left -= c;
		}
		// i % 4 = 0: EMPTY proof (the whole bitmap MMR in one segment), 1: a single hash
		let np = (i % 4) as usize;
		let wanted: Vec<Hash> = (0..np).map(|_| hash32(&mut cx.rng)).collect();
		let pf = match proof_for(cx, &wanted) {
			Some(pf) => pf,
			None => continue,
		};
		// the hashes the proof really has (an honest stand-in has its own)
		let proof: Vec<Hash> = match proof_hashes(&pf) {
			Some(h) => h,
			None => {
				cx.oracle_fail(format!("SegmentProof cannot be encoded as count + hashes: {} hashes, writer gives {} [version 1]", pf.size(), show_enc(&enc_at(&pf, 1))));
				continue;
			}
		};
		for b in &blocks {
			let pos = b.0.iter().filter(|x| **x).count();
			cx.stat(format!(
				"BitmapBlock chunks {} mode {} set-bits {}",
				match b.0.len() / 1024 { 1 => "1", 2..=7 => "2-7", 8..=63 => "8-63", _ => "64" },
				["raw", "positive", "negative"][b.canonical_mode() as usize],
				match pos { 0 => "0".to_string(), 4095 => "4095".to_string(), 4096 => "4096".to_string(), 4097 => "4097".to_string(), x if x == b.0.len() => "all".to_string(), x if x + 4095 == b.0.len() => "all-4095".to_string(), x if x + 4096 == b.0.len() => "all-4096".to_string(), _ => "other".to_string() }
			));
		}
		let seg = match bitmap_segment_from(id, &blocks, pf) {
			Some(s) => s,
			None => {
				cx.stat("BitmapSegment::from panicked".to_string());
				continue;
			}
		};
		if np <= 1 {
			cx.corner(if np == 0 { "BitmapSegment:proof-0-hashes" } else { "BitmapSegment:proof-1-hash" });
		}
		if blocks.len() == 1 {
			cx.corner("BitmapSegment:1-block");
			if n_chunks == 1 {
				cx.corner("BitmapSegment:1-block-of-1-chunk");
			}
		}
		// the writer's bytes are the harness' own canonical assembly
		let canon: Vec<(BlockBits, u8, u8)> = blocks.iter().map(|b| (b.clone(), b.canonical_mode(), 0)).collect();
		let expect = bitmap_bytes(&id, blocks.len() as u16, &canon, &proof);
		let real = match own_enc(cx, &seg, 1) {
			Some(r) => r,
			None => continue,
		};
		if real != expect {
			cx.oracle_fail(format!("BitmapSegment re-encodes differently: the writer does not follow the threshold rule (positive < 4096 set, negative < 4096 clear, else raw): h={} idx={} chunks={}: writer {} expected {}", h, idx, n_chunks, shown(&real), shown(&expect)));
		}
		let small = n_chunks <= 16;
		if n_chunks >= 64 {
			// blocks of 64 chunks are expensive for the model (65536-bit numbers): the first round only,
			// one decode and one encode each
			if i < 12 {
				dec_case::<BitmapSegment>(cx, 1, false, 'A', &real, Some(&seg), Expect::Valid, "valid");
				let _ = enc_case(cx, 3, 'A', &seg);
			}
			continue;
		}
		roundtrip_all(cx, 'A', false, &seg, small);
		if i % 4 == 0 {
			let r = OutputBitmapSegmentResponse { block_hash: hash32(&mut cx.rng), segment: seg.clone(), output_root: hash32(&mut cx.rng) };
			if np == 0 {
				cx.corner("OutputBitmapSegmentResponse:proof-0-hashes");
			}
			for v in [1u32, 1000].iter() {
				if let Some(b) = own_enc(cx, &r, *v) {
					dec_case::<OutputBitmapSegmentResponse>(cx, *v, false, 'A', &b, Some(&r), Expect::Valid, "valid");
				}
			}
			if small {
				let _ = enc_case(cx, 2, 'A', &r);
			}
		}
		if !small {
			continue;
		}
		// the same value in the other encodings: accepted by the reader, never produced by the writer
		for (bi, b) in blocks.iter().enumerate() {
			for (mode, order) in [(0u8, 0u8), (1, 0), (2, 0), (1, 1), (2, 1), (1, 2), (2, 2)].iter() {
				let n_idx = b.0.iter().filter(|x| **x == (*mode == 1)).count();
				if *mode != 0 && n_idx + 1 > 65535 {
					continue;
				}
				if *mode == b.canonical_mode() && *order == 0 {
					continue;
				}
				let mut alt = canon.clone();
				alt[bi] = (b.clone(), *mode, *order);
				let bytes = bitmap_bytes(&id, blocks.len() as u16, &alt, &proof);
				if bytes == expect {
					continue;
				}
				let what = match (*mode, *order) {
					(_, 1) => "block-indices-descending",
					(_, 2) => "block-index-repeated",
					(0, _) => "block-raw-against-threshold",
					(1, _) => "block-positive-against-threshold",
					_ => "block-negative-against-threshold",
				};
				dec_case::<BitmapSegment>(cx, 1, false, 'A', &bytes, None, Expect::Any, what);
			}
		}
		// refusals
		let rej = |cx: &mut Ctx, bytes: Vec<u8>, what: &str| {
			dec_case::<BitmapSegment>(cx, 1, false, 'A', &bytes, None, Expect::Reject, what);
		};
		let base = expect.clone();
		for m in [3u8, 4, 128, 255].iter() {
			let mut b = base.clone();
			b[12] = *m; // mode byte of the first block
			rej(cx, b, "unknown-block-mode");
		}
		for c in [65u8, 66, 200, 255].iter() {
			let mut b = base.clone();
			b[11] = *c; // chunk count of the first block
			rej(cx, b, "block-chunks-over-64");
		}
		{
			let mut b = base.clone();
			b[9] = 0;
			b[10] = 0;
			rej(cx, b, "zero-blocks");
			let maxb = ((1usize << h) + 63) / 64;
			let mut b = base.clone();
			b[9..11].copy_from_slice(&((maxb + 1) as u16).to_be_bytes());
			rej(cx, b, "blocks-over-identifier");
			let mut b = base.clone();
			b[9..11].copy_from_slice(&0xffffu16.to_be_bytes());
			rej(cx, b, "blocks-over-identifier");
		}
		for hh in [14u8, 63, 64, 255].iter() {
			let mut b = base.clone();
			b[0] = *hh;
			rej(cx, b, "height-over-13");
		}
		if h > 0 {
			// idx * 2^h overflows
			let mut b = base.clone();
			b[1..9].copy_from_slice(&u64::MAX.to_be_bytes());
			rej(cx, b, "leaf-offset-overflow");
		}
		{
			// offset + n_chunks - 1 overflows: last admissible idx with every chunk present
			let id2 = SegmentIdentifier { height: h, idx: u64::MAX >> h };
			let bytes = bitmap_bytes(&id2, blocks.len() as u16, &canon, &proof);
			dec_case::<BitmapSegment>(cx, 1, false, 'A', &bytes, None, Expect::Reject, "leaf-index-over-2^63");
			// leaf indices from 2^63 on have no MMR position: refused
			let id3 = SegmentIdentifier { height: h, idx: (1u64 << 63) >> h };
			let bytes = bitmap_bytes(&id3, blocks.len() as u16, &canon, &proof);
			dec_case::<BitmapSegment>(cx, 1, false, 'A', &bytes, None, Expect::Reject, "leaf-index-over-2^63");
			if h > 0 && (1usize << h) <= 16 {
				// every chunk present, the last leaf index is 2^63 - 1: still fine
				let id4 = SegmentIdentifier { height: h, idx: ((1u64 << 63) >> h) - 1 };
				let full: Vec<(BlockBits, u8, u8)> = {
					let mut v = vec![];
					let mut left = 1usize << h;
					while left > 0 && v.len() < 2 {
						let c = left.min(64);
						v.push((gen_block_bits(&mut cx.rng, c, 1), 1u8, 0u8));
						left -= c;
					}
					v
				};
				let bytes = bitmap_bytes(&id4, full.len() as u16, &full, &proof);
				if dec_case::<BitmapSegment>(cx, 1, false, 'A', &bytes, None, Expect::Any, "leaf-index-last-below-2^63").is_none() {
					cx.oracle_fail(format!("BitmapSegment does not decode from its own encoding: a full segment whose last leaf index is 2^63-1 is refused: {} [version 1]", hex(&bytes)));
				}
			}
		}
		// an index at / beyond the block's bit length
		{
			let b0 = &blocks[0];
			let nbits = b0.0.len();
			if nbits < 65536 {
				let mut e = vec![(nbits / 1024) as u8, 1, 0, 1];
				e.extend_from_slice(&(nbits as u16).to_be_bytes());
				let mut bytes = base[..11].to_vec();
				bytes.extend_from_slice(&e);
				for (bits, mode, order) in canon.iter().skip(1) {
					bytes.extend_from_slice(&bits.encode(*mode, *order));
				}
				bytes.extend_from_slice(&(proof.len() as u64).to_be_bytes());
				for hsh in &proof {
					bytes.extend_from_slice(hsh.as_bytes());
				}
				rej(cx, bytes, "block-index-out-of-range");
			}
		}
		// more chunks than the identifier's height allows / empty last block / short non-final block
		{
			let over = (1usize << h) + 1;
			if over <= 64 {
				let bb = gen_block_bits(&mut cx.rng, over, 1);
				let bytes = bitmap_bytes(&id, 1, &[(bb, 1, 0)], &proof);
				rej(cx, bytes, "chunks-over-identifier");
			}
			let empty = BlockBits(vec![]);
			let mut with_empty = canon.clone();
			with_empty.push((empty, 1, 0));
			if blocks.len() + 1 <= ((1usize << h) + 63) / 64 {
				let bytes = bitmap_bytes(&id, blocks.len() as u16 + 1, &with_empty, &proof);
				rej(cx, bytes, "empty-last-block");
			}
			let only_empty = bitmap_bytes(&id, 1, &[(BlockBits(vec![]), 1, 0)], &proof);
			rej(cx, only_empty, "empty-last-block");
		}
		generic_mutations::<BitmapSegment>(cx, 1, false, 'A', &base, 6, 12);
	}
	// honest bitmap segments: a `BitmapAccumulator` over `n_out` outputs, every segment of heights
	// 0..=3 as `Segment::from_pmmr` produces it (proof by `SegmentProof::generate`, no decoder
	// involved), turned into the wire type. Up to 1024 outputs there is ONE chunk and the height-0
	// segment 0 is the whole MMR: one block of one chunk and an EMPTY proof.
	let outs: &[u64] = if cx.thorough { &[1, 2, 1000, 1024, 1025, 2048, 2049, 3000, 4096, 5000] } else { &[1, 1024, 1025, 2048, 3000] };
	for n_out in outs.iter() {
		let mut unspent: Vec<u64> = (0..*n_out).filter(|_| cx.rng.chance(1, 2)).collect();
		if unspent.last() != Some(&(n_out - 1)) {
			unspent.push(n_out - 1);
		}
		let mut acc = BitmapAccumulator::new();
		match catch(AssertUnwindSafe(|| acc.init(unspent.iter().cloned(), *n_out))) {
			Ok(Ok(())) => {}
			_ => {
				cx.stat(format!("honest BitmapAccumulator init failed n_out={}", n_out));
				continue;
			}
		}
		let n_chunks = (*n_out + 1023) / 1024;
		for h in 0u8..=3 {
			let count = (n_chunks + (1u64 << h) - 1) >> h;
			for idx in 0..count {
				let id = SegmentIdentifier { height: h, idx };
				let made = catch(AssertUnwindSafe(|| {
					let mmr = acc.readonly_pmmr();
					Segment::<BitmapChunk>::from_pmmr(id, &mmr, false).map(BitmapSegment::from)
				}));
				let seg = match made {
					Ok(Ok(s)) => s,
					_ => {
						cx.stat(format!("honest BitmapSegment from_pmmr failed n_out={} h={} idx={}", n_out, h, idx));
						continue;
					}
				};
				let np = match catch(AssertUnwindSafe(|| bitmap_blocks(&seg))).ok().flatten() {
					Some((_, blocks, pf)) => {
						if blocks.len() == 1 {
							cx.corner("BitmapSegment:1-block(from_pmmr)");
							if blocks.first().map(|b| b.0.len()) == Some(1024) {
								cx.corner("BitmapSegment:1-block-of-1-chunk(from_pmmr)");
							}
						}
						pf.len()
					}
					None => {
						cx.oracle_fail(format!("BitmapSegment made by from_pmmr (n_out={} h={} idx={}) cannot be turned back into a segment / its proof cannot be written", n_out, h, idx));
						continue;
					}
				};
				if np <= 1 {
					cx.corner(if np == 0 { "BitmapSegment:proof-0-hashes(from_pmmr)" } else { "BitmapSegment:proof-1-hash(from_pmmr)" });
				}
				cx.stat(format!("BitmapSegment honest chunks {} proof {}", n_chunks.min(1u64 << h), match np { 0 => "0", 1 => "1", _ => ">1" }));
				roundtrip_all(cx, 'A', false, &seg, true);
				if np == 0 {
					let r = OutputBitmapSegmentResponse { block_hash: hash32(&mut cx.rng), segment: seg.clone(), output_root: hash32(&mut cx.rng) };
					cx.corner("OutputBitmapSegmentResponse:proof-0-hashes(from_pmmr)");
					roundtrip_all(cx, 'A', false, &r, true);
				}
			}
		}
	}
	// two blocks where the first is not full
	{
		let id = SegmentIdentifier { height: 7, idx: 1 };
		let b1 = gen_block_bits(&mut cx.rng, 63, 1);
		let b2 = gen_block_bits(&mut cx.rng, 2, 1);
		let bytes = bitmap_bytes(&id, 2, &[(b1, 1, 0), (b2, 1, 0)], &[]);
		dec_case::<BitmapSegment>(cx, 1, false, 'A', &bytes, None, Expect::Reject, "short-non-final-block");
	}
	// a segment without chunks writes a block count of 0, which its own reader refuses
	{
		let id = SegmentIdentifier { height: 3, idx: 0 };
		if let Some(seg) = proof_for(cx, &[]).and_then(|pf| bitmap_segment_from(id, &[], pf)) {
			cx.corner("BitmapSegment:0-blocks(writer only; its own reader refuses it: known finding)");
			if let Ok(b) = enc_at(&seg, 1) {
				if dec_full::<BitmapSegment>(&b, 1).is_err() {
					cx.out.raw(&format!("#KNOWN-PROBE C10 bitmapsegment-empty-own-encoding-refused: BitmapSegment::from(a segment without leaves) writes {} (block count 0), which BitmapSegment::read refuses", hex(&b)));
				}
			}
		}
	}
}

// ---------------------------------------------------------------------------------------------
// sections: messages

const ALL_TYPES: [Type; 29] = [
	Type::Error, Type::Hand, Type::Shake, Type::Ping, Type::Pong, Type::GetPeerAddrs, Type::PeerAddrs,
	Type::GetHeaders, Type::Header, Type::Headers, Type::GetBlock, Type::Block, Type::GetCompactBlock,
	Type::CompactBlock, Type::StemTransaction, Type::Transaction, Type::TxHashSetRequest,
	Type::TxHashSetArchive, Type::BanReason, Type::GetTransaction, Type::TransactionKernel,
	Type::GetOutputBitmapSegment, Type::OutputBitmapSegment, Type::GetOutputSegment, Type::OutputSegment,
	Type::GetRangeProofSegment, Type::RangeProofSegment, Type::GetKernelSegment, Type::KernelSegment,
];

const ALL_REASONS: [ReasonForBan; 8] = [
	ReasonForBan::None, ReasonForBan::BadBlock, ReasonForBan::BadCompactBlock, ReasonForBan::BadBlockHeader,
	ReasonForBan::BadTxHashSet, ReasonForBan::ManualBan, ReasonForBan::FraudHeight, ReasonForBan::BadHandshake,
];

/// harness-side copy of `max_msg_size` (private in p2p/src/msg.rs), used to aim lengths at the
/// limit and for the Rust-side oracle; the model's table is regenerated from the source
fn max_msg_size_copy(t: u8, mbw: u64) -> u64 {
	let mbs = mbw / 21 * 708;
	match t {
		0 => 0,
		1 => 128,
		2 => 88,
		3 | 4 => 16,
		5 => 4,
		6 => 4 + 19 * 256,
		7 => 1 + 32 * 20,
		8 => 365,
		9 => 2 + 365 * 512,
		10 | 12 | 19 | 20 => 32,
		11 | 14 | 15 => mbs,
		13 => mbs / 10,
		16 => 40,
		17 | 18 => 64,
		21 | 23 | 25 | 27 => 41,
		22 | 24 | 26 | 28 => 2 * mbs,
		_ => mbs,
	}
}

fn hdr_line(cx: &mut Ctx, chain: char, bytes: &[u8], what: &str) -> Option<(bool, u8, u64)> {
	set_env(chain, false);
	let lhs = format!("ser hdr {} {}", chain, hex(bytes));
	match dec_full::<MsgHeaderWrapper>(bytes, 1) {
		Ok((MsgHeaderWrapper::Known(h), consumed)) => {
			cx.out.line(&lhs, &format!("known {} {} {}", h.msg_type as u8, h.msg_len, consumed));
			cx.stat(format!("MsgHeader {} {} known", chain, what));
			// canonical form: the header re-encodes to the bytes consumed
			match enc_at(&h, 1) {
				Ok(re) if Some(&re[..]) == bytes.get(..consumed) => {}
				other => cx.oracle_fail(format!("MsgHeader re-encodes differently: in={} out={} [version 1]", hex(bytes), show_enc(&other))),
			}
			Some((true, h.msg_type as u8, h.msg_len))
		}
		Ok((MsgHeaderWrapper::Unknown(len, t), consumed)) => {
			cx.out.line(&lhs, &format!("unknown {} {} {}", t, len, consumed));
			cx.stat(format!("MsgHeader {} {} unknown", chain, what));
			Some((false, t, len))
		}
		Err(e) if e.starts_with("panic(") => {
			cx.out.line(&lhs, "panic");
			cx.oracle_fail(format!("decoder of MsgHeader panicked {} on {}", e, hex(bytes)));
			cx.stat(format!("MsgHeader {} {} panic", chain, what));
			None
		}
		Err(e) => {
			cx.out.line(&lhs, &format!("err {}", e));
			cx.stat(format!("MsgHeader {} {} err:{}", chain, what, e));
			None
		}
	}
}

fn msg_headers(cx: &mut Ctx) {
	for chain in ['A', 'M'].iter() {
		set_env(*chain, false);
		let mbw = global::max_block_weight();
		let magic: [u8; 2] = if *chain == 'M' { [97, 61] } else { [73, 43] };
		let mk = |t: u8, len: u64| -> Vec<u8> {
			let mut b = vec![magic[0], magic[1], t];
			b.extend_from_slice(&len.to_be_bytes());
			b
		};
		for ty in ALL_TYPES.iter() {
			let t = *ty as u8;
			let lim = max_msg_size_copy(t, mbw) * 4;
			let lens = [0u64, 1, lim.saturating_sub(1), lim, lim + 1, u64::MAX, cx.rng.below(lim + 1), pick_u64(&mut cx.rng)];
			for len in lens.iter() {
				// the real writer
				let h = MsgHeader::new(*ty, *len);
				set_env(*chain, false);
				let eb = enc_at(&h, 1);
				cx.out.line(&format!("ser enc MsgHeader{} 1 {} {} {}", chain, chain, t, len), &format!("{} none", show_enc(&eb)));
				let b = match eb {
					Ok(b) => b,
					Err(e) => {
						cx.oracle_fail(format!("MsgHeader cannot be encoded: type {} length {} ({}) [version 1]", t, len, e));
						continue;
					}
				};
				if *len == 0 {
					cx.corner("MsgHeader:zero-length-body");
				}
				if b != mk(t, *len) {
					cx.oracle_fail(format!("MsgHeader re-encodes differently: writer output is not magic, type, length: {}", hex(&b)));
				}
				let r = hdr_line(cx, *chain, &b, if *len <= lim { "within-limit" } else { "over-limit" });
				match (r, *len <= lim) {
					(Some((true, t2, l2)), true) if t2 == t && l2 == *len => {}
					(None, false) => {}
					_ => cx.oracle_fail(format!("MsgHeader does not decode from its own encoding: type {} length {} (limit {}): header does not round-trip / limit not applied: {}", t, len, lim, hex(&b))),
				}
			}
		}
		// unknown type bytes come back as Unknown(len, type), over the default limit they are refused
		let lim = max_msg_size_copy(255, mbw) * 4;
		for t in [29u8, 30, 64, 128, 200, 255].iter() {
			for len in [0u64, 7, lim, lim + 1, u64::MAX].iter() {
				let b = mk(*t, *len);
				let r = hdr_line(cx, *chain, &b, "unknown-type");
				match (r, *len <= lim) {
					(Some((false, t2, l2)), true) if t2 == *t && l2 == *len => {}
					(None, false) => {}
					_ => cx.oracle_fail(format!("MsgHeader: unknown type {} length {}: not Unknown(len, type) / limit not applied: {}", t, len, hex(&b))),
				}
			}
		}
		// magic
		for (m0, m1) in [(magic[0] ^ 1, magic[1]), (magic[0], magic[1] ^ 1), (0, 0), (magic[1], magic[0])].iter() {
			let mut b = mk(3, 16);
			b[0] = *m0;
			b[1] = *m1;
			if hdr_line(cx, *chain, &b, "wrong-magic").is_some() {
				cx.oracle_fail(format!("MsgHeader: wrong magic accepted: {}", hex(&b)));
			}
		}
		// truncations, trailing bytes, random bytes
		let good = mk(4, 16);
		for l in 0..11 {
			hdr_line(cx, *chain, &good[..l], "trunc");
		}
		let mut g2 = good.clone();
		g2.extend_from_slice(&[1, 2, 3]);
		hdr_line(cx, *chain, &g2, "trailing");
		for _ in 0..(if cx.thorough { 400 } else { 60 }) {
			let mut b = cx.rng.bytes(11);
			if cx.rng.chance(3, 4) {
				b[0] = magic[0];
				b[1] = magic[1];
			}
			if cx.rng.chance(1, 2) {
				for x in b[3..9].iter_mut() {
					*x = 0;
				}
			}
			hdr_line(cx, *chain, &b, "random");
		}
	}
}

fn gen_addr(rng: &mut Rng, kind: u64) -> PeerAddr {
	let port = match rng.below(4) {
		0 => 0,
		1 => 65535,
		2 => 3414,
		_ => rng.below(65536) as u16,
	};
	match kind % 6 {
		0 => PeerAddr(SocketAddr::V4(SocketAddrV4::new(Ipv4Addr::new(127, 0, 0, 1), port))),
		1 => {
			let b = rng.bytes(4);
			PeerAddr(SocketAddr::V4(SocketAddrV4::new(Ipv4Addr::new(b[0], b[1], b[2], b[3]), port)))
		}
		2 => PeerAddr(SocketAddr::V4(SocketAddrV4::new(Ipv4Addr::new(255, 255, 255, 255), port))),
		3 => {
			// a V6 address that `to_ipv4_mapped()` leaves alone: first segment non-zero
			let s: Vec<u16> = (0..8).map(|_| rng.next() as u16).collect();
			PeerAddr(SocketAddr::V6(SocketAddrV6::new(Ipv6Addr::new(s[0] | 0x2000, s[1], s[2], s[3], s[4], s[5], s[6], s[7]), port, 0, 0)))
		}
		4 => PeerAddr(SocketAddr::V6(SocketAddrV6::new(Ipv6Addr::new(0xfe80, 0, 0, 0, 0, 0, 0, 1), port, 0, 0))),
		_ => PeerAddr(SocketAddr::V6(SocketAddrV6::new(Ipv6Addr::new(0, 0, 0, 0, 0, 0xfffe, 0x0102, 0x0304), port, 0, 0))),
	}
}

/// V6 addresses that the reader turns into something else
fn odd_addrs() -> Vec<PeerAddr> {
	let v6 = |s: [u16; 8], port: u16, flow: u32, scope: u32| {
		PeerAddr(SocketAddr::V6(SocketAddrV6::new(Ipv6Addr::new(s[0], s[1], s[2], s[3], s[4], s[5], s[6], s[7]), port, flow, scope)))
	};
	vec![
		v6([0, 0, 0, 0, 0, 0, 0, 1], 3414, 0, 0),            // [::1]:3414 (IPv6 loopback)
		v6([0, 0, 0, 0, 0, 0, 0, 0], 3414, 0, 0),            // [::]:3414
		v6([0, 0, 0, 0, 0, 0xffff, 0xc0a8, 0x0001], 13414, 0, 0), // ::ffff:192.168.0.1 (IPv4-mapped)
		v6([0, 0, 0, 0, 0, 0, 0x0a00, 0x0001], 1, 0, 0),     // ::10.0.0.1 (IPv4-compatible)
		v6([0xfe80, 0, 0, 0, 0, 0, 0, 1], 3414, 0, 2),       // link-local with a scope id
		v6([0x2001, 0xdb8, 0, 0, 0, 0, 0, 1], 3414, 7, 0),   // with flow info
	]
}

fn caps_of(rng: &mut Rng) -> Capabilities {
	match rng.below(4) {
		0 => Capabilities::UNKNOWN,
		1 => Capabilities::default(),
		2 => Capabilities::from_bits_truncate(CAPS_ALL),
		_ => Capabilities::from_bits_truncate(rng.next() as u32),
	}
}

fn user_agent(rng: &mut Rng, i: usize) -> String {
	match i % 6 {
		0 => String::new(),
		1 => "MW/Grin 5.4.0-alpha.0".to_string(),
		2 => "grïn ✓ 🚀 \u{7ff}\u{800}\u{ffff}\u{10000}\u{10ffff}".to_string(),
		3 => "x".repeat(1000),
		4 => rng.bytes(20).iter().map(|b| (b % 128) as char).collect(),
		_ => "\u{0}\u{7f}\u{80}".to_string(),
	}
}

fn pver(rng: &mut Rng) -> ProtocolVersion {
	ProtocolVersion(*rng.pick(&[0u32, 1, 2, 3, 1000, u32::MAX, 65536]))
}

/// Ill-formed UTF-8: every one of these must make a string field refuse (`CorruptedData`) wherever
/// it sits in the string. Lone / stray bytes, truncated sequences, a lead byte followed by a
/// non-continuation byte, overlong encodings, UTF-16 surrogates, code points above U+10FFFF, the
/// 5- and 6-byte forms of the original UTF-8.
const BAD_UTF8: [&[u8]; 30] = [
	// bytes that never occur / lone continuation bytes
	&[0xff], &[0xfe], &[0x80], &[0xbf], &[0x80, 0x80],
	// truncated lead bytes (2-, 3-, 4-byte sequences cut short)
	&[0xc2], &[0xdf], &[0xe2], &[0xe2, 0x82], &[0xf0], &[0xf0, 0x9f], &[0xf0, 0x9f, 0x9a],
	// a lead byte followed by something that is not a continuation byte
	&[0xc3, 0x28], &[0xe2, 0x28, 0xa1], &[0xe2, 0x82, 0x28], &[0xf0, 0x28, 0x8c, 0xbc], &[0xf0, 0x90, 0x8c, 0x28],
	// overlong encodings of U+0000, U+007F, U+07FF, U+FFFF
	&[0xc0, 0x80], &[0xc1, 0xbf], &[0xe0, 0x80, 0x80], &[0xe0, 0x9f, 0xbf], &[0xf0, 0x80, 0x80, 0x80], &[0xf0, 0x8f, 0xbf, 0xbf],
	// UTF-16 surrogates U+D800, U+DFFF and a CESU-8 surrogate pair
	&[0xed, 0xa0, 0x80], &[0xed, 0xbf, 0xbf], &[0xed, 0xa0, 0xbd, 0xed, 0xb8, 0x80],
	// above U+10FFFF, and the 5- / 6-byte forms
	&[0xf4, 0x90, 0x80, 0x80], &[0xf5, 0x80, 0x80, 0x80], &[0xf8, 0x88, 0x80, 0x80, 0x80], &[0xfc, 0x84, 0x80, 0x80, 0x80, 0x80],
];

/// well-formed boundary cases of the same classes: the last code point of each length, the neighbours
/// of the surrogate gap, U+10FFFF — these must be ACCEPTED and come back byte for byte
const GOOD_UTF8: [&[u8]; 9] = [
	&[0x7f], &[0xc2, 0x80], &[0xdf, 0xbf], &[0xe0, 0xa0, 0x80], &[0xed, 0x9f, 0xbf], &[0xee, 0x80, 0x80],
	&[0xef, 0xbf, 0xbf], &[0xf0, 0x90, 0x80, 0x80], &[0xf4, 0x8f, 0xbf, 0xbf],
];

/// `head ++ len-prefixed string ++ tail`, for every ill-formed sequence at the start, in the middle, at
/// the end and alone: `T`'s reader must refuse each (an accepted one that re-encodes differently is
/// an oracle failure of its own, printed by `dec_case`); and for the well-formed boundary strings it
/// must accept and re-encode identically.
fn string_field_cases<T: Ty>(cx: &mut Ctx, head: &[u8], tail: &[u8], versions: &[u32]) {
	let assemble = |s: &[u8]| {
		let mut m = head.to_vec();
		m.extend_from_slice(&(s.len() as u64).to_be_bytes());
		m.extend_from_slice(s);
		m.extend_from_slice(tail);
		m
	};
	for bad in BAD_UTF8.iter() {
		let mut places: Vec<Vec<u8>> = vec![bad.to_vec()];
		let mut s = b"a".to_vec();
		s.extend_from_slice(bad);
		places.push(s);
		let mut s = bad.to_vec();
		s.push(b'a');
		places.push(s);
		let mut s = b"MW/Grin ".to_vec();
		s.extend_from_slice(bad);
		s.extend_from_slice(" 5.4 \u{e9}".as_bytes());
		places.push(s);
		for (k, s) in places.iter().enumerate() {
			let v = versions.get(k % versions.len().max(1)).cloned().unwrap_or(1);
			let m = assemble(s);
			dec_case::<T>(cx, v, false, 'A', &m, None, Expect::Reject, "invalid-utf8");
			cx.stat(format!("{} string field ill-formed UTF-8 cases", T::NAME));
		}
	}
	for good in GOOD_UTF8.iter() {
		let mut s = b"x".to_vec();
		s.extend_from_slice(good);
		s.push(b'y');
		for s in [good.to_vec(), s].iter() {
			let m = assemble(s);
			if dec_case::<T>(cx, 1, false, 'A', &m, None, Expect::Any, "valid-utf8-boundary").is_none() {
				cx.oracle_fail(format!("{} does not decode from its own encoding: a well-formed UTF-8 string field ({}) is refused: {} [version 1]", T::NAME, hex(s), hex(&m)));
			}
		}
	}
	// the empty string, on purpose
	cx.corner(&format!("{}:empty-string-field", T::NAME));
	if dec_case::<T>(cx, 1, false, 'A', &assemble(&[]), None, Expect::Any, "empty-string").is_none() {
		cx.oracle_fail(format!("{} does not decode from its own encoding: an empty string field is refused: {} [version 1]", T::NAME, hex(&assemble(&[]))));
	}
}

fn messages(cx: &mut Ctx) {
	for (name, real) in [
		("max_peer_addrs", grin_p2p::types::MAX_PEER_ADDRS as u64),
		("max_locators", grin_p2p::types::MAX_LOCATORS as u64),
		("capabilities_all", Capabilities::all().bits() as u64),
		("msg_header_len", MsgHeader::LEN as u64),
	]
	.iter()
	{
		cx.out.line(&format!("ser const {}", name), &real.to_string());
	}
	msg_headers(cx);
	let n = if cx.thorough { 200 } else { 36 };
	// PeerAddr
	for i in 0..n {
		let a = gen_addr(&mut cx.rng, i as u64);
		roundtrip_all(cx, 'A', false, &a, true);
		if let Some(b) = own_enc(cx, &a, 1) {
			generic_mutations::<PeerAddr>(cx, 1, false, 'A', &b, 19, 6);
		}
		// every tag byte other than 0 is read as V6
		for _ in 0..2 {
			let t = cx.rng.range(2, 255) as u8;
			let mut m = vec![t, cx.rng.next() as u8 | 0x20];
			m.extend_from_slice(&cx.rng.bytes(17));
			dec_case::<PeerAddr>(cx, 1, false, 'A', &m, None, Expect::Reject, "unknown-address-tag");
		}
	}
	for a in odd_addrs().iter() {
		roundtrip_all(cx, 'A', false, a, true);
	}
	// Hand / Shake
	for i in 0..n {
		let h = Hand {
			version: pver(&mut cx.rng),
			capabilities: caps_of(&mut cx.rng),
			nonce: pick_u64(&mut cx.rng),
			genesis: hash32(&mut cx.rng),
			total_difficulty: Difficulty::from_num(pick_u64(&mut cx.rng)),
			sender_addr: gen_addr(&mut cx.rng, i as u64),
			receiver_addr: gen_addr(&mut cx.rng, (i / 6) as u64),
			user_agent: user_agent(&mut cx.rng, i),
		};
		if h.user_agent.is_empty() {
			cx.corner("Hand:empty-user-agent");
		}
		roundtrip_all(cx, 'A', false, &h, true);
		let s = Shake {
			version: pver(&mut cx.rng),
			capabilities: caps_of(&mut cx.rng),
			genesis: hash32(&mut cx.rng),
			total_difficulty: Difficulty::from_num(pick_u64(&mut cx.rng)),
			user_agent: user_agent(&mut cx.rng, i + 1),
		};
		if s.user_agent.is_empty() {
			cx.corner("Shake:empty-user-agent");
		}
		roundtrip_all(cx, 'A', false, &s, true);
		let (hb, sb) = match (own_enc(cx, &h, 1), own_enc(cx, &s, 1)) {
			(Some(hb), Some(sb)) => (hb, sb),
			_ => continue,
		};
		if h.user_agent.len() < 100 {
			generic_mutations::<Hand>(cx, 1, false, 'A', &hb, 10, 16);
			generic_mutations::<Shake>(cx, 3, false, 'A', &sb, 10, 16);
		}
		// capability bits outside the defined flags
		for bits in [0x80u32, 0xffff_ffff, 0x8000_0001, 1 << cx.rng.range(7, 31)].iter() {
			match (patched(&hb, 4, &bits.to_be_bytes()), patched(&sb, 4, &bits.to_be_bytes())) {
				(Some(mh), Some(ms)) => {
					dec_case::<Hand>(cx, 1, false, 'A', &mh, None, Expect::Any, "unknown-capability-bits");
					dec_case::<Shake>(cx, 1, false, 'A', &ms, None, Expect::Any, "unknown-capability-bits");
				}
				_ => layout_fail(cx, "Hand / Shake", &hb, 1),
			}
			dec_case::<GetPeerAddrs>(cx, 1, false, 'A', &bits.to_be_bytes(), None, Expect::Any, "unknown-capability-bits");
		}
		// a user agent that is not UTF-8 / longer than one read may be: in the Shake AND in the Hand
		let bad = BAD_UTF8[i % BAD_UTF8.len()];
		let s_ua_off = sb.len().checked_sub(32 + s.user_agent.len() + 8);
		let h_ua_off = hb.len().checked_sub(32 + h.user_agent.len() + 8);
		match (s_ua_off.and_then(|o| sb.get(..o)), sb.get(sb.len().saturating_sub(32)..), h_ua_off.and_then(|o| hb.get(..o)), hb.get(hb.len().saturating_sub(32)..)) {
			(Some(s_head), Some(s_tail), Some(h_head), Some(h_tail)) => {
				let with_ua = |head: &[u8], len: u64, body: &[u8], tail: &[u8]| {
					let mut m = head.to_vec();
					m.extend_from_slice(&len.to_be_bytes());
					m.extend_from_slice(body);
					m.extend_from_slice(tail);
					m
				};
				let mut ua = vec![b'a'];
				ua.extend_from_slice(bad);
				dec_case::<Shake>(cx, 1, false, 'A', &with_ua(s_head, ua.len() as u64, &ua, s_tail), None, Expect::Reject, "invalid-utf8");
				dec_case::<Hand>(cx, 1, false, 'A', &with_ua(h_head, ua.len() as u64, &ua, h_tail), None, Expect::Reject, "invalid-utf8");
				dec_case::<Shake>(cx, 1, false, 'A', &with_ua(s_head, 100_001, &vec![b'a'; 200], &[]), None, Expect::Reject, "string-over-cap");
				dec_case::<Hand>(cx, 1, false, 'A', &with_ua(h_head, 100_001, &vec![b'a'; 200], &[]), None, Expect::Reject, "string-over-cap");
				if i == 0 {
					// the whole ill-formed UTF-8 catalogue in every position of the string, both messages
					string_field_cases::<Shake>(cx, s_head, s_tail, &[1, 2, 3, 1000]);
					string_field_cases::<Hand>(cx, h_head, h_tail, &[1, 2, 3, 1000]);
				}
			}
			_ => layout_fail(cx, "Hand / Shake", &sb, 1),
		}
		// GetPeerAddrs, Ping, Pong, TxHashSet*, SegmentRequest, PeerError
		let g = GetPeerAddrs { capabilities: caps_of(&mut cx.rng) };
		roundtrip_all(cx, 'A', false, &g, true);
		let pi = Ping { total_difficulty: Difficulty::from_num(pick_u64(&mut cx.rng)), height: pick_u64(&mut cx.rng) };
		roundtrip_all(cx, 'A', false, &pi, true);
		let po = Pong { total_difficulty: Difficulty::from_num(pick_u64(&mut cx.rng)), height: pick_u64(&mut cx.rng) };
		roundtrip_all(cx, 'A', false, &po, true);
		let tr = TxHashSetRequest { hash: hash32(&mut cx.rng), height: pick_u64(&mut cx.rng) };
		roundtrip_all(cx, 'A', false, &tr, true);
		// the first archives announce a zero-length / one-byte attachment on purpose
		let ta = TxHashSetArchive {
			hash: hash32(&mut cx.rng),
			height: pick_u64(&mut cx.rng),
			bytes: match i {
				0 | 1 => 0,
				2 => 1,
				_ => pick_u64(&mut cx.rng),
			},
		};
		match ta.bytes {
			0 => cx.corner("TxHashSetArchive:0-bytes-attachment"),
			1 => cx.corner("TxHashSetArchive:1-byte-attachment"),
			_ => {}
		}
		roundtrip_all(cx, 'A', false, &ta, true);
		let sr = SegmentRequest { block_hash: hash32(&mut cx.rng), identifier: gen_seg_id(&mut cx.rng) };
		roundtrip_all(cx, 'A', false, &sr, true);
		let pe = PeerError { code: pick_u64(&mut cx.rng) as u32, message: user_agent(&mut cx.rng, i + 2) };
		if pe.message.is_empty() {
			cx.corner("PeerError:empty-message");
		}
		roundtrip_all(cx, 'A', false, &pe, true);
		if i < 8 {
			if let (Some(bpi), Some(bta), Some(bsr), Some(bpe)) = (own_enc(cx, &pi, 1), own_enc(cx, &ta, 1), own_enc(cx, &sr, 1), own_enc(cx, &pe, 1)) {
				generic_mutations::<Ping>(cx, 1, false, 'A', &bpi, 16, 2);
				generic_mutations::<TxHashSetArchive>(cx, 1, false, 'A', &bta, 48, 2);
				generic_mutations::<SegmentRequest>(cx, 1, false, 'A', &bsr, 41, 2);
				generic_mutations::<PeerError>(cx, 1, false, 'A', &bpe, 12, 6);
			}
			let mut m = pe.code.to_be_bytes().to_vec();
			m.extend_from_slice(&(bad.len() as u64).to_be_bytes());
			m.extend_from_slice(bad);
			dec_case::<PeerError>(cx, 1, false, 'A', &m, None, Expect::Reject, "invalid-utf8");
		}
		if i == 0 {
			string_field_cases::<PeerError>(cx, &pe.code.to_be_bytes(), &[], &[1, 3]);
		}
	}
	// user agents / messages of the greatest length one read may have (100 000 bytes) and one more:
	// the first must round-trip, the second is written by the writer and refused by the reader
	for (len, ok) in [(100_000usize, true), (100_001, false)].iter() {
		let ua = "u".repeat(*len);
		let h = Hand {
			version: ProtocolVersion(1000),
			capabilities: Capabilities::default(),
			nonce: 1,
			genesis: hash32(&mut cx.rng),
			total_difficulty: Difficulty::from_num(1),
			sender_addr: gen_addr(&mut cx.rng, 0),
			receiver_addr: gen_addr(&mut cx.rng, 1),
			user_agent: ua.clone(),
		};
		let s = Shake {
			version: ProtocolVersion(1000),
			capabilities: Capabilities::default(),
			genesis: hash32(&mut cx.rng),
			total_difficulty: Difficulty::from_num(1),
			user_agent: ua.clone(),
		};
		let pe = PeerError { code: 7, message: ua };
		let exp = if *ok { Expect::Valid } else { Expect::Reject };
		let what = if *ok { "string-at-cap" } else { "string-over-cap" };
		if *ok {
			cx.corner("Hand:maximal-user-agent(100000 bytes)");
			cx.corner("Shake:maximal-user-agent(100000 bytes)");
			cx.corner("PeerError:maximal-message(100000 bytes)");
		}
		if let Some(b) = own_enc(cx, &h, 1) {
			dec_case::<Hand>(cx, 1, false, 'A', &b, Some(&h), exp, what);
		}
		if let Some(b) = own_enc(cx, &s, 1) {
			dec_case::<Shake>(cx, 1, false, 'A', &b, Some(&s), exp, what);
		}
		if let Some(b) = own_enc(cx, &pe, 1) {
			dec_case::<PeerError>(cx, 1, false, 'A', &b, Some(&pe), exp, what);
		}
	}
	// PeerAddrs: counts around MAX_PEER_ADDRS
	for (k, cnt) in [0usize, 1, 2, 7, 255, 256, 257, 300].iter().enumerate() {
		let peers: Vec<PeerAddr> = (0..*cnt).map(|j| gen_addr(&mut cx.rng, (j + k) as u64)).collect();
		let pa = PeerAddrs { peers };
		match cnt {
			0 => cx.corner("PeerAddrs:0-addrs"),
			1 => cx.corner("PeerAddrs:1-addr"),
			256 => cx.corner("PeerAddrs:maximal(256 addrs)"),
			_ => {}
		}
		let b = match own_enc(cx, &pa, 1) {
			Some(b) => b,
			None => continue,
		};
		if *cnt <= 256 {
			roundtrip_all(cx, 'A', false, &pa, *cnt <= 7);
		} else {
			// the writer does not refuse; the reader does
			dec_case::<PeerAddrs>(cx, 1, false, 'A', &b, None, Expect::Reject, "count-over-max-peer-addrs");
		}
		for c in [*cnt as u32 + 1, 257, 65536, u32::MAX].iter() {
			let exp = if *c > 256 { Expect::Reject } else { Expect::Any };
			match patched(&b, 0, &c.to_be_bytes()) {
				Some(m) => {
					dec_case::<PeerAddrs>(cx, 1, false, 'A', &m, None, exp, if *c > 256 { "count-over-max-peer-addrs" } else { "count-vs-content" });
				}
				None => layout_fail(cx, "PeerAddrs", &b, 1),
			}
		}
		if *cnt >= 1 && *cnt <= 7 {
			if let Some(m) = patched(&b, 0, &(*cnt as u32 - 1).to_be_bytes()) {
				dec_case::<PeerAddrs>(cx, 1, false, 'A', &m, None, Expect::Any, "count-vs-content");
			}
			generic_mutations::<PeerAddrs>(cx, 1, false, 'A', &b, 10, 10);
		}
	}
	{
		let pa = PeerAddrs { peers: odd_addrs() };
		roundtrip_all(cx, 'A', false, &pa, true);
	}
	// Locator: counts around MAX_LOCATORS, and the u8 count of the writer
	for cnt in [0usize, 1, 2, 19, 20, 21, 255, 256, 276].iter() {
		// over the limit the hashes are a fixed pattern so that the probe line names the whole value
		let l = Locator {
			hashes: (0..*cnt)
				.map(|j| if *cnt <= 20 { hash32(&mut cx.rng) } else { Hash::from_vec(&[(j % 256) as u8; 32]) })
				.collect(),
		};
		match cnt {
			0 => cx.corner("Locator:0-hashes"),
			1 => cx.corner("Locator:1-hash"),
			20 => cx.corner("Locator:maximal(20 hashes)"),
			_ => {}
		}
		if *cnt <= 20 {
			roundtrip_all(cx, 'A', false, &l, true);
			let b = match own_enc(cx, &l, 1) {
				Some(b) => b,
				None => continue,
			};
			let count_byte = b.first().cloned().unwrap_or(0);
			for c in [21u8, 22, 128, 255].iter() {
				if let Some(mut m) = patched(&b, 0, &[*c]) {
					m.extend_from_slice(&vec![0u8; 32 * 255]);
					dec_case::<Locator>(cx, 1, false, 'A', &m, None, Expect::Reject, "count-over-max-locators");
				}
			}
			if *cnt > 0 {
				if let Some(m) = patched(&b, 0, &[count_byte.wrapping_sub(1)]) {
					dec_case::<Locator>(cx, 1, false, 'A', &m, None, Expect::Any, "count-vs-content");
				}
			}
			if let Some(m) = patched(&b, 0, &[count_byte.wrapping_add(1)]) {
				dec_case::<Locator>(cx, 1, false, 'A', &m, None, Expect::Any, "count-vs-content");
			}
		} else {
			let b = match enc_case(cx, 1, 'A', &l) {
				Ok(b) => b,
				Err(_) => continue,
			};
			let head = hex(b.get(..34).unwrap_or(&b));
			let count_byte = b.first().cloned().unwrap_or(0);
			let value = format!("Locator {{ hashes: [h_0 .. h_{}] }} with h_j = 32 bytes of value j mod 256; encoding = {}… ({} bytes)", cnt - 1, head, b.len());
			match dec_full::<Locator>(&b, 1) {
				Err(e) => cx.out.raw(&format!(
					"#KNOWN-PROBE C10 locator-count-not-checked-by-writer: {}: written with count byte {:02x} and refused by Locator::read ({})",
					value, count_byte, e
				)),
				Ok((d, consumed)) => cx.out.raw(&format!(
					"#KNOWN-PROBE C10 locator-count-not-checked-by-writer: {}: written with count byte {:02x} (len as u8) and read back as {} hashes leaving {} bytes unread",
					value, count_byte, d.hashes.len(), b.len().saturating_sub(consumed)
				)),
			}
		}
	}
	// BanReason: all reasons, unknown discriminants, short reads
	for r in ALL_REASONS.iter() {
		let br = BanReason { ban_reason: *r };
		cx.corner("BanReason:each-of-the-8-reasons");
		roundtrip_all(cx, 'A', false, &br, true);
	}
	for x in [8i32, 9, 255, 256, i32::MAX, -1, i32::MIN, 1 << 24].iter() {
		dec_case::<BanReason>(cx, 1, false, 'A', &x.to_be_bytes(), None, Expect::Reject, "unknown-ban-reason");
	}
	for l in 0..4usize {
		for fill in [0u8, 1, 7, 0xff].iter() {
			if l == 0 {
				cx.corner("BanReason:0-byte-body(accepted as None: known finding)");
			}
			dec_case::<BanReason>(cx, 1, false, 'A', &vec![*fill; l], None, Expect::Any, "short-read");
		}
	}
	dec_case::<BanReason>(cx, 2, false, 'A', &[0, 0, 0, 5, 9, 9], None, Expect::Any, "trailing");
	// Headers: writer only (there is no `Readable for Headers`; the codec streams it: C19)
	for chain in ['A', 'M'].iter() {
		for cnt in [0usize, 1, 2, 5].iter() {
			set_env(*chain, false);
			let hs: Vec<BlockHeader> = (0..*cnt).map(|_| gen_header(&mut cx.rng, *chain)).collect();
			let toks: Vec<String> = hs.iter().map(|h| header_tokens(h)).collect();
			let msg = Headers { headers: hs };
			match cnt {
				0 => cx.corner("Headers:0-headers"),
				1 => cx.corner("Headers:1-header"),
				_ => {}
			}
			for v in [1u32, 3].iter() {
				set_env(*chain, false);
				let eb = enc_at(&msg, *v);
				let lhs = format!("ser enc Headers {} {} {}{}{}", v, chain, cnt, if *cnt > 0 { " " } else { "" }, toks.join(" "));
				cx.out.line(&lhs, &format!("{} none", show_enc(&eb)));
				let b = match eb {
					Ok(b) => b,
					Err(e) => {
						cx.oracle_fail(format!("Headers cannot be encoded: {} headers ({}) [version {}]", cnt, e, v));
						continue;
					}
				};
				let mut expect = Some((*cnt as u16).to_be_bytes().to_vec());
				for h in &msg.headers {
					expect = match (expect, enc_at(h, *v)) {
						(Some(mut e), Ok(hb)) => {
							e.extend_from_slice(&hb);
							Some(e)
						}
						_ => None,
					};
				}
				if expect.as_ref() != Some(&b) {
					cx.oracle_fail(format!("Headers re-encodes differently: encoding is not u16 count then the headers: {} [version {}]", hex(&b), v));
				}
			}
		}
	}
	{
		// `headers.len() as u16`: 65536 headers are written with a count of 0
		set_env('A', false);
		let h = gen_header(&mut cx.rng, 'A');
		let msg = Headers { headers: vec![h.clone(); 65536] };
		if let (Ok(b), Ok(hb)) = (enc_at(&msg, 1), enc_at(&h, 1)) {
			if b.get(..2) == Some(&[0u8, 0][..]) && b.len() > 2 {
				cx.out.raw(&format!(
					"#KNOWN-PROBE C10 headers-count-not-checked-by-writer: Headers {{ headers: 65536 copies of the header {} }} is written with count bytes {} (len as u16) followed by {} bytes of headers",
					hex(&hb),
					hex(b.get(..2).unwrap_or(&[])),
					b.len() - 2
				));
			}
		}
	}
}

// ---------------------------------------------------------------------------------------------
// store-side encodings (run `store`): HeaderEntry / as_elmt / elmt_size, CommitPos, the spent index
// (`Vec<CommitPos>` through `impl Readable for Vec<T>`), headers read under
// `DeserializationMode::SkipPow`, MerkleProof, Hash::from_vec

/// `HeaderEntry` has private fields and no `PartialEq`: it is taken apart through its encoding
/// (32 + 8 + 8 + 4 + 1 bytes)
fn entry_fields(e: &HeaderEntry) -> Option<(Vec<u8>, u64, u64, u32, u8)> {
	let b = enc_at(e, 1).ok()?;
	if b.len() != 53 {
		return None;
	}
	let mut u8b = [0u8; 8];
	u8b.copy_from_slice(b.get(32..40)?);
	let ts = u64::from_be_bytes(u8b);
	u8b.copy_from_slice(b.get(40..48)?);
	let td = u64::from_be_bytes(u8b);
	let mut u4b = [0u8; 4];
	u4b.copy_from_slice(b.get(48..52)?);
	Some((b.get(..32)?.to_vec(), ts, td, u32::from_be_bytes(u4b), *b.get(52)?))
}

impl Ty for HeaderEntry {
	const NAME: &'static str = "HeaderEntry";
	/// `Hashed for HeaderEntry` returns the stored hash (compared on the `ser elmt` lines); as an
	/// encoded type it has no hash of its own
	fn hash_hex(&self) -> Option<String> {
		None
	}
	fn same(&self, d: &Self, _v: u32) -> bool {
		enc_at(self, 1).is_ok() && enc_at(self, 1) == enc_at(d, 1) && self.hash() == d.hash()
	}
	fn describe(&self) -> String {
		match entry_fields(self) {
			Some((h, ts, td, ss, f)) => format!("{} {} {} {} {}", hex(&h), ts, td, ss, f),
			None => UNDESCRIBABLE.to_string(),
		}
	}
	fn known_noncanon(input: &[u8], canon: &[u8], _x: &Self, _v: u32) -> Vec<String> {
		// `is_secondary = read_u8()? != 0`: a flag byte 2..255 reads as true and is written back as 1
		if input.len() == 53 && canon.len() == 53 && input[..52] == canon[..52] && input[52] > 1 && canon[52] == 1 {
			vec!["headerentry-flag-byte-normalised".to_string()]
		} else {
			vec![]
		}
	}
}

impl Ty for CommitPos {
	const NAME: &'static str = "CommitPos";
	fn hash_hex(&self) -> Option<String> {
		None
	}
	fn same(&self, d: &Self, _v: u32) -> bool {
		self == d
	}
	fn describe(&self) -> String {
		format!("{} {}", self.pos, self.height)
	}
}

/// the spent index of a block (`ChainStore::save_spent_index` / `get_spent_index`)
impl Ty for Vec<CommitPos> {
	const READER_REST_VARIES: bool = true;
	const NAME: &'static str = "SpentIndex";
	fn hash_hex(&self) -> Option<String> {
		None
	}
	fn same(&self, d: &Self, _v: u32) -> bool {
		self == d
	}
	fn describe(&self) -> String {
		let mut s = self.len().to_string();
		for c in self {
			s.push_str(&format!(" {} {}", c.pos, c.height));
		}
		s
	}
	fn known_noncanon(input: &[u8], canon: &[u8], _x: &Self, _v: u32) -> Vec<String> {
		// `Vec<T>::read` ends at the first item cut short by the end of the source: the partial
		// item is dropped
		if input.len() % 16 != 0 && canon.len() == input.len() / 16 * 16 && input[..canon.len()] == *canon {
			vec!["vec-trailing-partial-item-dropped".to_string()]
		} else {
			vec![]
		}
	}
}

/// `Vec<T>` of an item type whose reader can fail with something else than `UnexpectedEof`
/// (the generic `impl Readable for Vec<T>` must hand such an error on, wherever the item sits)
impl Ty for Vec<OutputIdentifier> {
	const READER_REST_VARIES: bool = true;
	const NAME: &'static str = "OutputIdVec";
	fn hash_hex(&self) -> Option<String> {
		None
	}
	fn same(&self, d: &Self, _v: u32) -> bool {
		self.len() == d.len() && self.iter().zip(d.iter()).all(|(a, b)| a.features == b.features && a.commit == b.commit)
	}
	fn describe(&self) -> String {
		let mut s = self.len().to_string();
		for o in self {
			s.push_str(&format!(" {} {}", of_tok(o.features), hex(&o.commit.0)));
		}
		s
	}
	fn known_noncanon(input: &[u8], canon: &[u8], _x: &Self, _v: u32) -> Vec<String> {
		if input.len() % 34 != 0 && canon.len() == input.len() / 34 * 34 && input[..canon.len()] == *canon {
			vec!["vec-trailing-partial-item-dropped".to_string()]
		} else {
			vec![]
		}
	}
}

impl Ty for MerkleProof {
	const NAME: &'static str = "MerkleProof";
	fn hash_hex(&self) -> Option<String> {
		None
	}
	fn same(&self, d: &Self, _v: u32) -> bool {
		self == d
	}
	fn describe(&self) -> String {
		format!("{} {}", self.mmr_size, hashes_tokens(&self.path))
	}
}

/// a header read with `DeserializationMode::SkipPow` (what `get_block_header_skip_proof` does)
fn skip_line(cx: &mut Ctx, chain: char, v: u32, bytes: &[u8], orig: Option<&BlockHeader>, what: &str) {
	set_env(chain, false);
	let b2 = bytes.to_vec();
	let r = catch(move || {
		let mut src = &b2[..];
		let r = ser::deserialize::<BlockHeader, _>(&mut src, ProtocolVersion(v), DeserializationMode::SkipPow);
		(r, src.len())
	});
	let lhs = format!("ser skip {} {} {}", chain, v, hex(bytes));
	match r {
		Err(m) => {
			cx.out.line(&lhs, "panic");
			cx.oracle_fail(format!("BlockHeader read under SkipPow panicked ({}) on {} [version {}]", one_line(&m), shown(bytes), v));
			cx.stat(format!("skip {} {} panic", chain, what));
		}
		Ok((Err(e), _)) => {
			let en = err_name(&e);
			cx.out.line(&lhs, &format!("err {}", en));
			cx.stat(format!("skip {} {} err:{}", chain, what, en));
			if orig.is_some() {
				cx.oracle_fail(format!("BlockHeader does not decode from its own encoding under SkipPow: {} ({}) [version {}]", shown(bytes), en, v));
			}
		}
		Ok((Ok(h), rest)) => {
			let consumed = bytes.len().saturating_sub(rest);
			let re = enc_at(&h, v);
			cx.out.line(&lhs, &format!("ok {} {} {}", consumed, show_enc(&re), h.pow.proof.nonces.len()));
			cx.stat(format!("skip {} {} ok", chain, what));
			if let Some(o) = orig {
				// everything but the nonces is the value that was written, the packed nonces are
				// exactly what is left unread
				let mut want = o.clone();
				want.pow.proof.nonces = vec![];
				if h != want {
					cx.oracle_fail(format!("BlockHeader read under SkipPow differs from the written header in more than the nonces: {} [version {}]", shown(bytes), v));
				}
				let packed = o.pow.proof.pack_nonces().len();
				if consumed + packed != bytes.len() {
					cx.oracle_fail(format!("BlockHeader read under SkipPow consumed {} of {} bytes (packed nonces: {}): {} [version {}]", consumed, bytes.len(), packed, shown(bytes), v));
				}
			}
		}
	}
}

fn store_elements(cx: &mut Ctx) {
	// PMMRable::elmt_size() of every element type
	let show = |o: Option<u16>| o.map(|n| n.to_string()).unwrap_or_else(|| "none".to_string());
	cx.out.line("ser const elmt_size_BlockHeader", &show(BlockHeader::elmt_size()));
	cx.out.line("ser const elmt_size_OutputIdentifier", &show(OutputIdentifier::elmt_size()));
	cx.out.line("ser const elmt_size_RangeProof", &show(RangeProof::elmt_size()));
	cx.out.line("ser const elmt_size_BitmapChunk", &show(BitmapChunk::elmt_size()));
	cx.out.line("ser const elmt_size_TxKernel", &show(TxKernel::elmt_size()));
	cx.out.line("ser const second_pow_edge_bits", &grin_core::consensus::SECOND_POW_EDGE_BITS.to_string());

	// a fixed element size must be the length of what `as_elmt()` writes (the data file is indexed
	// by position * elmt_size), at the db version and at every other version
	fn size_oracle<T: PMMRable>(cx: &mut Ctx, x: &T, name: &str)
	where
		T::E: Writeable,
	{
		if let Some(sz) = T::elmt_size() {
			for v in VERSIONS.iter() {
				match enc_at(&x.as_elmt(), *v) {
					Ok(b) if b.len() == sz as usize => {}
					Ok(b) => cx.oracle_fail(format!("{} element written by as_elmt() has {} bytes, elmt_size() says {}: {} [version {}]", name, b.len(), sz, shown(&b), v)),
					Err(e) => cx.oracle_fail(format!("{} element cannot be encoded ({}) [version {}]", name, e, v)),
				}
			}
		}
		cx.stat(format!("elmt size oracle {}", name));
	}
	for i in 0..40 {
		let o = gen_output(&mut cx.rng, i % 2 == 0);
		size_oracle(cx, &o.identifier(), "OutputIdentifier");
		size_oracle(cx, &o.proof, "RangeProof");
		let k = gen_kernel(&mut cx.rng, i % 4);
		size_oracle(cx, &k, "TxKernel");
	}

	for chain in ['A', 'M'].iter() {
		let n = if cx.thorough { 200 } else { 40 };
		for i in 0..n {
			set_env(*chain, false);
			let mut h = gen_header(&mut cx.rng, *chain);
			// corners: secondary PoW edge bits (29) and its neighbours, timestamps below zero and at
			// the epoch, difficulty / scaling at the ends of their ranges
			let ps = proofsize_of(*chain);
			match i % 8 {
				0 => h.pow.proof = gen_proof(&mut cx.rng, 29, ps),
				1 => h.pow.proof = gen_proof(&mut cx.rng, 28, ps),
				2 => h.pow.proof = gen_proof(&mut cx.rng, 30, ps),
				3 => {
					h.timestamp = DateTime::<Utc>::from_timestamp(-1 - (cx.rng.below(1 << 40) as i64), 0).unwrap_or_default();
					h.pow.secondary_scaling = u32::MAX;
				}
				4 => {
					h.timestamp = DateTime::<Utc>::from_timestamp(0, 0).unwrap_or_default();
					h.pow.total_difficulty = Difficulty::from_num(u64::MAX);
					h.pow.secondary_scaling = 0;
				}
				5 => h.timestamp = DateTime::<Utc>::from_timestamp(TS_MIN, 0).unwrap_or_default(),
				_ => {}
			}
			// as_elmt: the entry the header MMR stores
			let entry = match catch(AssertUnwindSafe(|| h.as_elmt())) {
				Ok(e) => e,
				Err(m) => {
					cx.oracle_fail(format!("BlockHeader::as_elmt panicked ({}) on {}", one_line(&m), header_tokens(&h)));
					continue;
				}
			};
			let eb = enc_at(&entry, 1);
			let ehash = catch(AssertUnwindSafe(|| entry.hash())).ok();
			cx.out.line(
				&format!("ser elmt {} {}", chain, header_tokens(&h)),
				&format!("{} {}", show_enc(&eb), ehash.map(|x| hex(x.as_bytes())).unwrap_or_else(|| "panic".to_string())),
			);
			cx.stat(format!("elmt {} edge_bits{}29 ts{}0", chain, if h.pow.proof.edge_bits == 29 { "==" } else { "!=" }, if h.timestamp.timestamp() < 0 { "<" } else { ">=" }));
			// the entry's identity hash is the header's, whatever version it is stored at
			if ehash != catch(AssertUnwindSafe(|| h.hash())).ok() {
				cx.oracle_fail(format!("HeaderEntry made by as_elmt() does not carry the header's hash: {}", header_tokens(&h)));
			}
			size_oracle(cx, &h, "BlockHeader");
			roundtrip_all(cx, *chain, false, &entry, i < 10);
			if let Ok(b) = &eb {
				// what comes back from the data file still answers the header's hash
				if let Ok((d, _)) = dec_full::<HeaderEntry>(b, 1) {
					if Some(d.hash()) != ehash {
						cx.oracle_fail(format!("HeaderEntry read back from {} answers another hash", shown(b)));
					}
				}
				if i < 12 {
					generic_mutations::<HeaderEntry>(cx, 1, false, *chain, b, 60, 6);
					// the flag byte: every value
					for f in [0u8, 1, 2, 3, 0x7f, 0x80, 0xfe, 0xff].iter() {
						if let Some(m) = patched(b, 52, &[*f]) {
							dec_case::<HeaderEntry>(cx, 1, false, *chain, &m, None, Expect::Any, "flag-byte");
						}
					}
				}
			}
			// the same header read back under SkipPow, at every version
			for v in VERSIONS.iter() {
				if let Some(b) = own_enc(cx, &h, *v) {
					skip_line(cx, *chain, *v, &b, Some(&h), "valid");
					if i < 6 && *v == 1 {
						// truncations around the proof, padding bits set, edge_bits out of range,
						// timestamps out of range: SkipPow checks edge_bits and the timestamp only
						let plen = h.pow.proof.pack_nonces().len();
						let eb_off = b.len().saturating_sub(plen + 1);
						for cut in [0usize, 1, eb_off.saturating_sub(1), eb_off, eb_off + 1, eb_off + 2, b.len().saturating_sub(1)].iter() {
							skip_line(cx, *chain, 1, b.get(..*cut).unwrap_or(&b), None, "trunc");
						}
						for ebv in [0u8, 1, 29, 63, 64, 255].iter() {
							if let Some(m) = patched(&b, eb_off, &[*ebv]) {
								skip_line(cx, *chain, 1, &m, None, "edge-bits");
							}
						}
						if let Some(last) = b.last() {
							if let Some(m) = patched(&b, b.len() - 1, &[*last | 0x80]) {
								skip_line(cx, *chain, 1, &m, None, "padding-bit");
							}
						}
						for ts in [TS_MAX + 1, TS_MIN - 1, TS_MAX, TS_MIN].iter() {
							if let Some(m) = patched(&b, 10, &ts.to_be_bytes()) {
								skip_line(cx, *chain, 1, &m, None, "timestamp-range");
							}
						}
					}
				}
			}
		}
	}

	// CommitPos and the spent index
	let n = if cx.thorough { 300 } else { 60 };
	for i in 0..n {
		let c = CommitPos { pos: pick_u64(&mut cx.rng), height: pick_u64(&mut cx.rng) };
		roundtrip_all(cx, 'A', false, &c, true);
		if i < 10 {
			if let Some(b) = own_enc(cx, &c, 1) {
				generic_mutations::<CommitPos>(cx, 1, false, 'A', &b, 20, 4);
			}
		}
	}
	for i in 0..n {
		let len = match i {
			0 => 0,
			1 => 1,
			2 => 2,
			_ => cx.rng.below(if i % 10 == 0 { 400 } else { 12 }) as usize,
		};
		let l: Vec<CommitPos> = (0..len).map(|_| CommitPos { pos: pick_u64(&mut cx.rng), height: pick_u64(&mut cx.rng) }).collect();
		match len {
			0 => cx.corner("SpentIndex:empty"),
			1 => cx.corner("SpentIndex:1-entry"),
			_ => {}
		}
		roundtrip_all(cx, 'A', false, &l, i < 30);
		if i < 12 {
			if let Some(b) = own_enc(cx, &l, 1) {
				// every cut: a partial last entry is dropped, never an error
				for cut in 0..b.len().min(50) {
					dec_case::<Vec<CommitPos>>(cx, 1, false, 'A', &b[..b.len() - cut], None, Expect::Any, "trunc");
				}
				generic_mutations::<Vec<CommitPos>>(cx, 1, false, 'A', &b, 0, 4);
			}
		}
	}

	// the generic Vec<T> reader over items that can be malformed: a bad feature tag in item k
	for i in 0..(n / 3) {
		let len = 1 + cx.rng.below(6) as usize;
		let l: Vec<OutputIdentifier> = (0..len).map(|j| gen_output(&mut cx.rng, (i + j) % 3 == 0).identifier()).collect();
		roundtrip_all(cx, 'A', false, &l, i < 10);
		if let Some(b) = own_enc(cx, &l, 1) {
			for k in 0..len {
				for tag in [2u8, 0xff].iter() {
					if let Some(m) = patched(&b, 34 * k, &[*tag]) {
						dec_case::<Vec<OutputIdentifier>>(cx, 1, false, 'A', &m, None, Expect::Reject, "bad-tag-in-item");
					}
				}
			}
			if i < 6 {
				for cut in 1..b.len().min(40) {
					dec_case::<Vec<OutputIdentifier>>(cx, 1, false, 'A', &b[..b.len() - cut], None, Expect::Any, "trunc");
				}
			}
		}
	}

	// MerkleProof
	for i in 0..n {
		let len = match i {
			0 => 0,
			1 => 1,
			_ => cx.rng.below(if i % 10 == 0 { 70 } else { 12 }) as usize,
		};
		let p = MerkleProof { mmr_size: pick_u64(&mut cx.rng), path: (0..len).map(|_| hash32(&mut cx.rng)).collect() };
		match len {
			0 => cx.corner("MerkleProof:empty-path"),
			1 => cx.corner("MerkleProof:1-hash"),
			_ => {}
		}
		roundtrip_all(cx, 'A', false, &p, i < 30);
		if i < 12 {
			if let Some(b) = own_enc(cx, &p, 1) {
				generic_mutations::<MerkleProof>(cx, 1, false, 'A', &b, 40, 6);
				// the count field: one less (accepted, bytes left over), one more, huge
				for cnt in [len.saturating_sub(1) as u64, len as u64 + 1, 1 << 32, 1 << 58, u64::MAX].iter() {
					if let Some(m) = patched(&b, 8, &cnt.to_be_bytes()) {
						let exp = if *cnt > len as u64 { Expect::Reject } else { Expect::Any };
						dec_case::<MerkleProof>(cx, 1, false, 'A', &m, None, exp, "count");
					}
				}
			}
		}
	}

	// Hash::from_vec: zero-padded / truncated to 32 bytes
	for len in (0usize..=40).chain([63, 64, 65, 1000].iter().cloned()) {
		let v = cx.rng.bytes(len);
		let v2 = v.clone();
		match catch(move || Hash::from_vec(&v2)) {
			Ok(h) => cx.out.line(&format!("ser fromvec {}", if v.is_empty() { "-".to_string() } else { hex(&v) }), &hex(h.as_bytes())),
			Err(m) => cx.oracle_fail(format!("Hash::from_vec panicked ({}) on {}", one_line(&m), hex(&v))),
		}
	}
}

// ---------------------------------------------------------------------------------------------
// derived identifiers every node must compute alike (run `ids`): kernel_sig_msg, pre_pow,
// from_pre_pow_and_proof, short_id. A node that computes one of them differently still agrees with
// itself, so only the value itself can show it: each is compared byte for byte with the model.

fn derived_ids(cx: &mut Ctx) {
	use grin_core::core::id::ShortIdentifiable;
	set_env('A', true);
	// kernel_sig_msg: every variant, boundary field values
	let mut feats: Vec<KernelFeatures> = vec![KernelFeatures::Coinbase];
	for fee in [0u64, 1, 2, 255, 256, (1 << 40) - 1, 1 << 40, u64::MAX >> 1, u64::MAX].iter() {
		feats.push(KernelFeatures::Plain { fee: fee_fields(*fee) });
		for lock in [0u64, 1, 255, 256, 1 << 32, u64::MAX - 1, u64::MAX].iter() {
			feats.push(KernelFeatures::HeightLocked { fee: fee_fields(*fee), lock_height: *lock });
		}
		for rel in [1u64, 2, 255, 256, 1440, 10079, 10080].iter() {
			if let Ok(r) = NRDRelativeHeight::new(*rel) {
				feats.push(KernelFeatures::NoRecentDuplicate { fee: fee_fields(*fee), relative_height: r });
			}
		}
	}
	let extra = if cx.thorough { 400 } else { 100 };
	for i in 0..extra {
		feats.push(gen_kernel_features(&mut cx.rng, i % 4));
	}
	let mut seen: BTreeMap<Vec<u8>, String> = BTreeMap::new();
	for f in feats.iter() {
		let d = kf_tokens(f);
		match catch(AssertUnwindSafe(|| f.kernel_sig_msg())) {
			Ok(Ok(m)) => {
				let bytes: Vec<u8> = m[..].to_vec();
				cx.out.line(&format!("ser sigmsg {}", d), &hex(&bytes));
				cx.stat(format!("sigmsg {}", d.split(' ').next().unwrap_or("?")));
				// two different feature values never share a message
				if let Some(prev) = seen.insert(bytes.clone(), d.clone()) {
					if prev != d {
						cx.oracle_fail(format!("kernel_sig_msg is the same for two different kernel features: [{}] and [{}] -> {}", prev, d, hex(&bytes)));
					}
				}
			}
			Ok(Err(e)) => cx.oracle_fail(format!("kernel_sig_msg fails ({:?}) on {}", e, d)),
			Err(m) => cx.oracle_fail(format!("kernel_sig_msg panicked ({}) on {}", one_line(&m), d)),
		}
	}
	// pre_pow and from_pre_pow_and_proof
	for chain in ['A', 'M'].iter() {
		let n = if cx.thorough { 200 } else { 40 };
		for i in 0..n {
			set_env(*chain, false);
			let h = gen_header(&mut cx.rng, *chain);
			let pp = match catch(AssertUnwindSafe(|| h.pre_pow())) {
				Ok(b) => b,
				Err(m) => {
					cx.oracle_fail(format!("BlockHeader::pre_pow panicked ({}) on {}", one_line(&m), header_tokens(&h)));
					continue;
				}
			};
			cx.out.line(&format!("ser prepow {} {}", chain, header_tokens(&h)), &hex(&pp));
			cx.stat(format!("prepow {}", chain));
			// the full encoding is pre_pow followed by the proof, at every version
			for v in VERSIONS.iter() {
				if let (Some(full), Ok(pf)) = (own_enc(cx, &h, *v), enc_at(&h.pow.proof, *v)) {
					let mut want = pp.clone();
					want.extend_from_slice(&pf);
					if full != want {
						cx.oracle_fail(format!("BlockHeader encoding is not pre_pow() followed by the proof: {} [version {}]", shown(&full), v));
					}
				}
			}
			// from_pre_pow_and_proof(hex of pre_pow without the nonce, nonce, proof) rebuilds the header
			if pp.len() >= 8 {
				let no_nonce = &pp[..pp.len() - 8];
				let hx: String = no_nonce.iter().map(|b| format!("{:02x}", b)).collect();
				let (nonce, proof) = (h.pow.nonce, h.pow.proof.clone());
				match catch(move || BlockHeader::from_pre_pow_and_proof(hx, nonce, proof)) {
					Ok(Ok(r)) if r == h => cx.stat(format!("from_pre_pow_and_proof {} ok", chain)),
					Ok(Ok(_)) => cx.oracle_fail(format!("from_pre_pow_and_proof rebuilds a different header from {}", header_tokens(&h))),
					Ok(Err(e)) => cx.oracle_fail(format!("from_pre_pow_and_proof refuses an honest header ({:?}): {}", e, header_tokens(&h))),
					Err(m) => cx.oracle_fail(format!("from_pre_pow_and_proof panicked ({}) on {}", one_line(&m), header_tokens(&h))),
				}
				// malformed strings: an error, never a panic
				if i < 10 {
					let good: String = no_nonce.iter().map(|b| format!("{:02x}", b)).collect();
					let bads: Vec<String> = vec![
						String::new(),
						"zz".to_string(),
						"0".to_string(),
						"€a".to_string(),
						good[..good.len() - 1].to_string(),
						good[..good.len() / 2].to_string(),
						format!("{}00", good),
						format!("{}é", &good[..good.len() - 2]),
						good.to_uppercase(),
						format!("0x{}", good),
					];
					for b in bads {
						let (b2, proof) = (b.clone(), h.pow.proof.clone());
						match catch(move || BlockHeader::from_pre_pow_and_proof(b2, nonce, proof).is_ok()) {
							Ok(ok) => cx.stat(format!("from_pre_pow_and_proof malformed -> {}", if ok { "ok" } else { "err" })),
							Err(m) => cx.oracle_fail(format!("from_pre_pow_and_proof panicked ({}) on the string {:?}", one_line(&m), b)),
						}
					}
				}
			}
		}
	}
	// short_id: kernels, outputs, inputs against block hashes and nonces
	let n = if cx.thorough { 1000 } else { 250 };
	for i in 0..n {
		let bh = hash32(&mut cx.rng);
		let nonce = match i % 5 {
			0 => 0,
			1 => u64::MAX,
			_ => pick_u64(&mut cx.rng),
		};
		let item_hash = match i % 3 {
			0 => gen_kernel(&mut cx.rng, (i % 4) as u64).hash(),
			1 => gen_output(&mut cx.rng, false).identifier().hash(),
			_ => hash32(&mut cx.rng),
		};
		// `impl<H: Hashed> ShortIdentifiable for H`: the id depends on the item through its hash only;
		// a `Hash` hashes to blake2b of its bytes, so hand the model the item's hash as the code sees it
		let hh = catch(AssertUnwindSafe(|| item_hash.hash())).ok();
		match (catch(AssertUnwindSafe(|| item_hash.short_id(&bh, nonce))), hh) {
			(Ok(sid), Some(ih)) => {
				cx.out.line(&format!("ser shortid {} {} {}", hex(ih.as_bytes()), hex(bh.as_bytes()), nonce), &hex(sid.as_ref()));
				cx.stat("shortid".to_string());
			}
			(Err(m), _) => cx.oracle_fail(format!("short_id panicked ({}) on block hash {} nonce {}", one_line(&m), hex(bh.as_bytes()), nonce)),
			_ => {}
		}
	}
	// and through the real types: a kernel's short id is the short id of its hash
	for i in 0..20u64 {
		let k = gen_kernel(&mut cx.rng, i % 4);
		let bh = hash32(&mut cx.rng);
		let nonce = pick_u64(&mut cx.rng);
		if let (Ok(sid), Ok(kh)) = (catch(AssertUnwindSafe(|| k.short_id(&bh, nonce))), catch(AssertUnwindSafe(|| k.hash()))) {
			cx.out.line(&format!("ser shortid {} {} {}", hex(kh.as_bytes()), hex(bh.as_bytes()), nonce), &hex(sid.as_ref()));
			cx.stat("shortid kernel".to_string());
		}
	}
}

// ---------------------------------------------------------------------------------------------
// lists with REPEATED items (part of run `msg`): a reader must return what was encoded, not a
// de-duplicated / compacted version of it. For every list-carrying codec whose wire format can
// carry the same item twice: adjacent duplicates, non-adjacent duplicates, all-equal lists, at
// lengths 2, 3 and the maximum, written and read at every protocol version (`roundtrip_all`:
// equal value, everything consumed, identical re-encoding, `#ORACLE-FAIL C10` with the bytes).
// Where the reader legitimately refuses duplicates (sorted-unique body vectors) the expected verdict
// is the refusal (the `duplicate` perturbations of the `tx` / `block` runs), never a shorter list.

/// index patterns over distinct items 0, 1, 2, …: (name, indices)
fn dup_patterns(max: usize) -> Vec<(String, Vec<usize>)> {
	let mut v: Vec<(String, Vec<usize>)> = vec![
		("adjacent-2".into(), vec![0, 0]),
		("adjacent-3-front".into(), vec![0, 0, 1]),
		("adjacent-3-back".into(), vec![2, 0, 0]),
		("nonadjacent-3".into(), vec![0, 1, 0]),
		("all-equal-3".into(), vec![0, 0, 0]),
		("two-pairs-4".into(), vec![0, 0, 1, 1]),
		("run-inside-5".into(), vec![0, 1, 1, 1, 2]),
	];
	if max >= 4 {
		v.push((format!("all-equal-max({})", max), vec![0; max]));
		let mut end: Vec<usize> = (0..max - 1).collect();
		end.push(max - 2);
		v.push((format!("adjacent-at-end-max({})", max), end));
		let mut front: Vec<usize> = vec![0];
		front.extend(0..max - 1);
		v.push((format!("adjacent-at-front-max({})", max), front));
		v.push((format!("alternating-max({})", max), (0..max).map(|i| i % 2).collect()));
		v.push((format!("pairs-max({})", max), (0..max).map(|i| i / 2).collect()));
	}
	v
}

fn repeated_items(cx: &mut Ctx) {
	set_env('A', true);
	// GetHeaders locator (at most 20 hashes)
	let hs: Vec<Hash> = (0..20).map(|_| hash32(&mut cx.rng)).collect();
	for (name, idx) in dup_patterns(20) {
		let l = Locator { hashes: idx.iter().map(|i| hs[*i]).collect() };
		cx.corner(&format!("Locator:repeated:{}", name));
		roundtrip_all(cx, 'A', false, &l, true);
	}
	// PeerAddrs (at most 256): V4 and V6 addresses
	for fam in 0..2u64 {
		let addrs: Vec<PeerAddr> = (0..256).map(|j| gen_addr(&mut cx.rng, fam + 2 * (j as u64 % 2))).collect();
		for (name, idx) in dup_patterns(256) {
			let pa = PeerAddrs { peers: idx.iter().map(|i| addrs[*i].clone()).collect() };
			cx.corner(&format!("PeerAddrs:repeated:{}", name));
			roundtrip_all(cx, 'A', false, &pa, idx.len() <= 5);
		}
	}
	// Headers (writer): the same header twice in a row must be written twice
	for chain in ['A', 'M'].iter() {
		set_env(*chain, false);
		let pool: Vec<BlockHeader> = (0..3).map(|_| gen_header(&mut cx.rng, *chain)).collect();
		for (name, idx) in dup_patterns(0) {
			let msg = Headers { headers: idx.iter().map(|i| pool[*i].clone()).collect() };
			let toks: Vec<String> = msg.headers.iter().map(|h| header_tokens(h)).collect();
			for v in VERSIONS.iter() {
				set_env(*chain, false);
				let eb = enc_at(&msg, *v);
				cx.out.line(&format!("ser enc Headers {} {} {} {}", v, chain, idx.len(), toks.join(" ")), &format!("{} none", show_enc(&eb)));
				let mut want = (idx.len() as u16).to_be_bytes().to_vec();
				let mut ok = true;
				for h in &msg.headers {
					match enc_at(h, *v) {
						Ok(b) => want.extend_from_slice(&b),
						Err(_) => ok = false,
					}
				}
				match eb {
					Ok(b) if ok && b == want => cx.stat(format!("Headers repeated {} ok", name)),
					other => cx.oracle_fail(format!("Headers with repeated headers ({}) is not written as count + every header in order: {} [version {}]", name, show_enc(&other), v)),
				}
			}
		}
	}
	// MerkleProof path, spent index, Vec<OutputIdentifier> (the generic Vec<T> reader)
	for (name, idx) in dup_patterns(64) {
		let p = MerkleProof { mmr_size: pick_u64(&mut cx.rng), path: idx.iter().map(|i| hs[*i % 20]).collect() };
		cx.corner(&format!("MerkleProof:repeated:{}", name));
		roundtrip_all(cx, 'A', false, &p, idx.len() <= 5);
	}
	let cps: Vec<CommitPos> = (0..40).map(|_| CommitPos { pos: pick_u64(&mut cx.rng), height: pick_u64(&mut cx.rng) }).collect();
	let oids: Vec<OutputIdentifier> = (0..40).map(|j| gen_output(&mut cx.rng, j % 2 == 0).identifier()).collect();
	for (name, idx) in dup_patterns(40) {
		let l: Vec<CommitPos> = idx.iter().map(|i| cps[*i]).collect();
		cx.corner(&format!("SpentIndex:repeated:{}", name));
		roundtrip_all(cx, 'A', false, &l, idx.len() <= 5);
		let l: Vec<OutputIdentifier> = idx.iter().map(|i| oids[*i]).collect();
		cx.corner(&format!("OutputIdVec:repeated:{}", name));
		roundtrip_all(cx, 'A', false, &l, idx.len() <= 5);
	}
	// segments: the positions must increase strictly, the hashes / leaves / proof hashes at them may
	// repeat (equal kernels or outputs at different positions are representable on the wire)
	fn seg_repeats<T: Item>(cx: &mut Ctx, hs: &[Hash]) {
		let leaves: Vec<T> = (0..24).map(|i| T::gen(&mut cx.rng, i)).collect();
		for (name, idx) in dup_patterns(24) {
			let n = idx.len();
			let pos: Vec<u64> = (0..n as u64).map(|i| 3 * i + 1).collect();
			for which in 0..3 {
				// 0: repeated pruned-subtree hashes, 1: repeated leaves, 2: repeated proof hashes
				let hashes: Vec<Hash> = if which == 0 { idx.iter().map(|i| hs[*i % 20]).collect() } else { vec![hs[0]] };
				let hpos: Vec<u64> = if which == 0 { pos.clone() } else { vec![0] };
				let ld: Vec<T> = if which == 1 { idx.iter().map(|i| leaves[*i].clone()).collect() } else { vec![leaves[0].clone()] };
				let lpos: Vec<u64> = if which == 1 { pos.iter().map(|p| p + 100).collect() } else { vec![200] };
				let pf: Vec<Hash> = if which == 2 { idx.iter().map(|i| hs[*i % 20]).collect() } else { vec![hs[1]] };
				let proof = match proof_for(cx, &pf) {
					Some(p) => p,
					None => continue,
				};
				let id = SegmentIdentifier { height: 9, idx: 3 };
				let seg = match catch(AssertUnwindSafe(|| Segment::from_parts(id, hpos, hashes, lpos, ld, proof))) {
					Ok(s) => s,
					Err(_) => continue,
				};
				cx.corner(&format!("{}:repeated-{}:{}", T::SEG_NAME, ["hashes", "leaves", "proof"][which], name));
				roundtrip_all(cx, 'A', true, &seg, n <= 3);
			}
		}
	}
	seg_repeats::<OutputIdentifier>(cx, &hs);
	seg_repeats::<TxKernel>(cx, &hs);
	seg_repeats::<RangeProof>(cx, &hs);
	// bitmap segments: identical blocks next to each other (two equal full blocks, then a last one),
	// identical chunks inside a block
	for kind in [0u64, 2, 5, 7].iter() {
		let full = gen_block_bits(&mut cx.rng, 64, *kind);
		let last = gen_block_bits(&mut cx.rng, 3, *kind);
		for blocks in [vec![BlockBits(full.0.clone()), BlockBits(full.0.clone())], vec![BlockBits(full.0.clone()), BlockBits(full.0.clone()), BlockBits(last.0.clone())], vec![BlockBits(full.0.clone()), BlockBits(full.0.clone()), BlockBits(full.0.clone())]].iter() {
			if let Some(pf) = proof_for(cx, &[hs[0], hs[0]]) {
				let id = SegmentIdentifier { height: 8, idx: 1 };
				if let Some(seg) = bitmap_segment_from(id, blocks, pf) {
					cx.corner("BitmapSegment:repeated-blocks");
					roundtrip_all(cx, 'A', false, &seg, false);
				}
			}
		}
	}
}

// ---------------------------------------------------------------------------------------------
// run `db`: the Readable / Writeable impls that are neither consensus nor wire objects - LMDB values
// and small wrappers (model: lean/GrinVerif/Model/SerDb.lean): the NRD kernel index lists
// (chain/src/linked_list.rs), BlockSums, SizeEntry, ProtocolVersion, the fixed-size byte strings and
// integer / tuple impls of core/src/ser.rs, PeerData (p2p/src/store.rs).

type NrdList = grin_chain::linked_list::ListWrapper<CommitPos>;
type NrdEntry = grin_chain::linked_list::ListEntry<CommitPos>;

impl Ty for NrdList {
	const NAME: &'static str = "NrdList";
	fn hash_hex(&self) -> Option<String> {
		None
	}
	fn same(&self, d: &Self, _v: u32) -> bool {
		self == d
	}
	fn describe(&self) -> String {
		match self {
			NrdList::Single { pos } => format!("S {} {}", pos.pos, pos.height),
			NrdList::Multi { head, tail } => format!("M {} {}", head, tail),
		}
	}
}

fn entry_tokens(e: &NrdEntry) -> String {
	match e {
		NrdEntry::Head { pos, next } => format!("H {} {} {}", pos.pos, pos.height, next),
		NrdEntry::Tail { pos, prev } => format!("T {} {} {}", pos.pos, pos.height, prev),
		NrdEntry::Middle { pos, next, prev } => format!("Mid {} {} {} {}", pos.pos, pos.height, next, prev),
	}
}

impl Ty for NrdEntry {
	const NAME: &'static str = "NrdEntry";
	fn hash_hex(&self) -> Option<String> {
		None
	}
	fn same(&self, d: &Self, _v: u32) -> bool {
		entry_tokens(self) == entry_tokens(d)
	}
	fn describe(&self) -> String {
		entry_tokens(self)
	}
}

impl Ty for grin_core::core::BlockSums {
	const NAME: &'static str = "BlockSums";
	fn hash_hex(&self) -> Option<String> {
		None
	}
	fn same(&self, d: &Self, _v: u32) -> bool {
		self.utxo_sum == d.utxo_sum && self.kernel_sum == d.kernel_sum
	}
	fn describe(&self) -> String {
		format!("{} {}", hex(&self.utxo_sum.0), hex(&self.kernel_sum.0))
	}
}

impl Ty for grin_store::types::SizeEntry {
	const NAME: &'static str = "SizeEntry";
	fn hash_hex(&self) -> Option<String> {
		None
	}
	fn same(&self, d: &Self, _v: u32) -> bool {
		self.offset == d.offset && self.size == d.size
	}
	fn describe(&self) -> String {
		format!("{} {}", self.offset, self.size)
	}
}

impl Ty for ProtocolVersion {
	const NAME: &'static str = "ProtocolVersion";
	fn hash_hex(&self) -> Option<String> {
		None
	}
	fn same(&self, d: &Self, _v: u32) -> bool {
		self.0 == d.0
	}
	fn describe(&self) -> String {
		format!("{}", self.0)
	}
}

impl Ty for i32 {
	const NAME: &'static str = "I32";
	fn hash_hex(&self) -> Option<String> {
		None
	}
	fn same(&self, d: &Self, _v: u32) -> bool {
		self == d
	}
	fn describe(&self) -> String {
		format!("{}", self)
	}
}

impl Ty for (u64, u32) {
	const NAME: &'static str = "TupleU64U32";
	fn hash_hex(&self) -> Option<String> {
		None
	}
	fn same(&self, d: &Self, _v: u32) -> bool {
		self == d
	}
	fn describe(&self) -> String {
		format!("{} {}", self.0, self.1)
	}
}

impl Ty for (u64, u32, u16) {
	const NAME: &'static str = "TupleU64U32U16";
	fn hash_hex(&self) -> Option<String> {
		None
	}
	fn same(&self, d: &Self, _v: u32) -> bool {
		self == d
	}
	fn describe(&self) -> String {
		format!("{} {} {}", self.0, self.1, self.2)
	}
}

impl Ty for (u64, u32, u16, u8) {
	const NAME: &'static str = "TupleU64U32U16U8";
	fn hash_hex(&self) -> Option<String> {
		None
	}
	fn same(&self, d: &Self, _v: u32) -> bool {
		self == d
	}
	fn describe(&self) -> String {
		format!("{} {} {} {}", self.0, self.1, self.2, self.3)
	}
}

macro_rules! fixed_ty {
	($t:ty, $name:expr) => {
		impl Ty for $t {
			const NAME: &'static str = $name;
			fn hash_hex(&self) -> Option<String> {
				None
			}
			fn same(&self, d: &Self, _v: u32) -> bool {
				AsRef::<[u8]>::as_ref(self) == AsRef::<[u8]>::as_ref(d)
			}
			fn describe(&self) -> String {
				hex(AsRef::<[u8]>::as_ref(self))
			}
		}
	};
}
fixed_ty!(Commitment, "Commitment");
fixed_ty!(BlindingFactor, "BlindingFactor");
fixed_ty!(grin_keychain::Identifier, "Identifier");
fixed_ty!(Signature, "Signature");
fixed_ty!(Hash, "Hash");

fn pk_bytes(k: &grin_util::secp::key::PublicKey) -> Vec<u8> {
	let secp = grin_util::static_secp_instance();
	let secp = secp.lock();
	k.serialize_vec(&secp, true).to_vec()
}

impl Ty for grin_util::secp::key::PublicKey {
	const NAME: &'static str = "PublicKey";
	fn hash_hex(&self) -> Option<String> {
		None
	}
	fn same(&self, d: &Self, _v: u32) -> bool {
		self == d
	}
	fn describe(&self) -> String {
		hex(&pk_bytes(self))
	}
}

fn pd_tokens(p: &grin_p2p::PeerData) -> String {
	format!(
		"{} {} {} {} {} {} {} {}",
		addr_tokens(&p.addr),
		p.capabilities.bits(),
		hex(p.user_agent.as_bytes()),
		p.flags as u8,
		p.last_banned,
		p.ban_reason as i32,
		p.last_connected,
		p.last_attempt
	)
}

fn pd_same(a: &grin_p2p::PeerData, d: &grin_p2p::PeerData) -> bool {
	a.addr.0 == d.addr.0
		&& a.capabilities == d.capabilities
		&& a.user_agent == d.user_agent
		&& a.flags == d.flags
		&& a.last_banned == d.last_banned
		&& a.ban_reason == d.ban_reason
		&& a.last_connected == d.last_connected
		&& a.last_attempt == d.last_attempt
}

/// what reader-then-writer makes of an accepted PeerData encoding, with the reasons; `None`: the
/// input does not have the layout. Returns (bytes up to and including the ban reason, number of
/// trailing i64 fields present 0..2, tags)
fn pd_norm(inp: &[u8]) -> Option<(Vec<u8>, usize, BTreeSet<&'static str>)> {
	let (mut i, mut out, mut tags) = (0usize, vec![], BTreeSet::new());
	if !(norm_addr(inp, &mut i, &mut out, &mut tags) && norm_caps(inp, &mut i, &mut out, &mut tags)) {
		return None;
	}
	let l = u64::from_be_bytes(inp.get(i..i + 8)?.try_into().ok()?);
	if l > 100_000 {
		return None;
	}
	if !norm_copy(inp, &mut i, 8 + l as usize + 1 + 8 + 4, &mut out) {
		return None;
	}
	let left = inp.len() - i;
	let present = if left >= 16 { 2 } else if left >= 8 { 1 } else { 0 };
	out.extend_from_slice(&inp[i..i + 8 * present]);
	if present < 2 && left > 8 * present {
		tags.insert("peerdata-partial-trailing-bytes-dropped");
	}
	if present < 2 {
		tags.insert("peerdata-trailing-fields-optional");
	}
	Some((out, present, tags))
}

/// one `ser dec PeerData@<now> …` line. `now` is what the decoder took from the clock when the
/// `last_connected` field is missing (read back from the decoded value and checked against the
/// harness's own clock), 0 otherwise.
fn pd_dec(cx: &mut Ctx, v: u32, bytes: &[u8], orig: Option<&grin_p2p::PeerData>, what: &str) {
	set_env('A', false);
	let t0 = Utc::now().timestamp();
	let r = dec_full::<grin_p2p::PeerData>(bytes, v);
	let t1 = Utc::now().timestamp();
	let norm = pd_norm(bytes);
	let now = match (&r, &norm) {
		(Ok((x, _)), Some((_, 0, _))) => x.last_connected,
		_ => 0,
	};
	let lhs = format!("ser dec PeerData@{} {} 0 A {}", now, v, hex(bytes));
	match r {
		Err(en) if en.starts_with("panic(") => {
			cx.out.line(&lhs, "panic");
			cx.oracle_fail(format!("decoder of PeerData panicked {} on {} [version {}]", en, shown(bytes), v));
		}
		Err(en) => {
			cx.out.line(&lhs, &format!("err {}", en));
			cx.stat(format!("PeerData v{} {} err:{}", v, what, en));
			if orig.is_some() {
				cx.oracle_fail(format!("PeerData does not decode from its own encoding: {} ({}) [version {}]", shown(bytes), en, v));
			}
		}
		Ok((x, consumed)) => {
			let (e1, e2, e3) = (enc_at(&x, 1), enc_at(&x, 2), enc_at(&x, 3));
			cx.out.line(&lhs, &format!("ok {} {} {} {} none", consumed, show_enc(&e1), show_enc(&e2), show_enc(&e3)));
			cx.stat(format!("PeerData v{} {} ok", v, what));
			match (&norm, enc_at(&x, v)) {
				(Some((head, present, tags)), Ok(re)) => {
					// what is re-encoded: the normalised head, then the trailing fields (clock / 0 when absent)
					let mut want = head.clone();
					if *present == 0 {
						if x.last_connected < t0 || x.last_connected > t1 {
							cx.oracle_fail(format!("PeerData without a last_connected field reads it as {} although the clock says {}..{}: {} [version {}]", x.last_connected, t0, t1, shown(bytes), v));
						}
						want.extend_from_slice(&x.last_connected.to_be_bytes());
					}
					if *present < 2 {
						want.extend_from_slice(&0i64.to_be_bytes());
					}
					let eaten = bytes.get(..consumed.min(bytes.len())).unwrap_or(bytes);
					if re != want {
						cx.oracle_fail(format!("PeerData re-encodes differently (not explained by address / capability / optional-field normalisation): in={} out={} [version {}]", shown(eaten), shown(&re), v));
					} else if re[..] != *eaten {
						let t: Vec<&str> = tags.iter().cloned().collect();
						cx.stat(format!("PeerData explained-noncanonical {}", t.join("+")));
					}
				}
				(_, e) => cx.oracle_fail(format!("PeerData accepted an input without the documented layout or cannot be re-encoded ({}): {} [version {}]", show_enc(&e), shown(bytes), v)),
			}
			if let Some(o) = orig {
				if consumed != bytes.len() || !pd_same(o, &x) {
					cx.oracle_fail(format!("PeerData decodes from its own encoding to a different value or leaves bytes unread: {} [version {}]", shown(bytes), v));
				}
			}
		}
	}
}

fn db_values(cx: &mut Ctx) {
	set_env('A', false);
	let n = if cx.thorough { 400 } else { 60 };
	let edge: [u64; 8] = [0, 1, 255, 256, u32::MAX as u64, 1 << 32, u64::MAX - 1, u64::MAX];
	// --- NRD kernel index lists
	let mut lists: Vec<NrdList> = vec![];
	let mut entries: Vec<NrdEntry> = vec![];
	for a in edge.iter() {
		for b in [0u64, 1, u64::MAX].iter() {
			let pos = CommitPos { pos: *a, height: *b };
			lists.push(NrdList::Single { pos });
			lists.push(NrdList::Multi { head: *a, tail: *b });
			entries.push(NrdEntry::Head { pos, next: *b });
			entries.push(NrdEntry::Tail { pos, prev: *a });
			entries.push(NrdEntry::Middle { pos, next: *a, prev: *b });
		}
	}
	for _ in 0..n {
		let pos = CommitPos { pos: pick_u64(&mut cx.rng), height: pick_u64(&mut cx.rng) };
		let (a, b) = (pick_u64(&mut cx.rng), pick_u64(&mut cx.rng));
		lists.push(if cx.rng.chance(1, 2) { NrdList::Single { pos } } else { NrdList::Multi { head: a, tail: b } });
		entries.push(match cx.rng.below(3) {
			0 => NrdEntry::Head { pos, next: a },
			1 => NrdEntry::Tail { pos, prev: a },
			_ => NrdEntry::Middle { pos, next: a, prev: b },
		});
	}
	for (i, l) in lists.iter().enumerate() {
		roundtrip_all(cx, 'A', false, l, true);
		if let Some(b) = own_enc(cx, l, 1) {
			if i < 40 {
				generic_mutations::<NrdList>(cx, 1, false, 'A', &b, 20, 6);
			}
			// the variant byte swept: 0 and 1 are lists, 2..4 are ENTRY variants and must be refused here
			for t in 0..=255u8 {
				if i < 4 || t < 8 {
					if let Some(m) = patched(&b, 0, &[t]) {
						let mut m17 = m.clone();
						m17.resize(17, 0xab);
						let ex = if t > 1 { Expect::Reject } else { Expect::Any };
						dec_case::<NrdList>(cx, 1, false, 'A', &m17, None, ex, "variant-byte");
					}
				}
			}
		}
	}
	for (i, e) in entries.iter().enumerate() {
		roundtrip_all(cx, 'A', false, e, true);
		if let Some(b) = own_enc(cx, e, 1) {
			if i < 40 {
				generic_mutations::<NrdEntry>(cx, 1, false, 'A', &b, 33, 6);
			}
			for t in 0..=255u8 {
				if i < 4 || t < 8 {
					if let Some(m) = patched(&b, 0, &[t]) {
						let mut m33 = m.clone();
						m33.resize(33, 0xcd);
						let ex = if t < 2 || t > 4 { Expect::Reject } else { Expect::Any };
						dec_case::<NrdEntry>(cx, 1, false, 'A', &m33, None, ex, "variant-byte");
					}
				}
			}
		}
	}
	// a list value is never a valid entry value and vice versa (the two tag ranges are disjoint)
	for l in lists.iter().take(30) {
		if let Some(b) = own_enc(cx, l, 1) {
			let mut m = b.clone();
			m.resize(40, 0);
			dec_case::<NrdEntry>(cx, 1, false, 'A', &m, None, Expect::Reject, "list-as-entry");
		}
	}
	for e in entries.iter().take(30) {
		if let Some(b) = own_enc(cx, e, 1) {
			dec_case::<NrdList>(cx, 1, false, 'A', &b, None, Expect::Reject, "entry-as-list");
		}
	}
	// --- BlockSums, SizeEntry, ProtocolVersion, integers, tuples, fixed-size byte strings
	for i in 0..n {
		let s = grin_core::core::BlockSums { utxo_sum: commit(&mut cx.rng), kernel_sum: if i % 7 == 0 { Commitment([0; 33]) } else { commit(&mut cx.rng) } };
		roundtrip_all(cx, 'A', false, &s, true);
		if i < 10 {
			if let Some(b) = own_enc(cx, &s, 1) {
				generic_mutations::<grin_core::core::BlockSums>(cx, 1, false, 'A', &b, 66, 4);
			}
		}
		let se = grin_store::types::SizeEntry { offset: if i < 8 { edge[i] } else { pick_u64(&mut cx.rng) }, size: match i % 4 { 0 => 0, 1 => u16::MAX, 2 => 114, _ => cx.rng.next() as u16 } };
		roundtrip_all(cx, 'A', false, &se, true);
		if i < 10 {
			if let Some(b) = own_enc(cx, &se, 1) {
				generic_mutations::<grin_store::types::SizeEntry>(cx, 1, false, 'A', &b, 10, 4);
			}
		}
		let pv = pver(&mut cx.rng);
		roundtrip_all(cx, 'A', false, &pv, true);
		let z: i32 = match i % 6 { 0 => 0, 1 => -1, 2 => i32::MIN, 3 => i32::MAX, _ => cx.rng.next() as i32 };
		roundtrip_all(cx, 'A', false, &z, true);
		let t3 = (pick_u64(&mut cx.rng), cx.rng.next() as u32, cx.rng.next() as u16);
		roundtrip_all(cx, 'A', false, &t3, true);
		let t4 = (pick_u64(&mut cx.rng), cx.rng.next() as u32, cx.rng.next() as u16, cx.rng.next() as u8);
		roundtrip_all(cx, 'A', false, &t4, true);
		let t2 = (pick_u64(&mut cx.rng), cx.rng.next() as u32);
		roundtrip_all(cx, 'A', false, &t2, true);
		if i < 6 {
			if let Some(b) = own_enc(cx, &t4, 1) {
				generic_mutations::<(u64, u32, u16, u8)>(cx, 1, false, 'A', &b, 15, 2);
				generic_mutations::<(u64, u32, u16)>(cx, 1, false, 'A', &b, 15, 2);
				generic_mutations::<(u64, u32)>(cx, 1, false, 'A', &b, 15, 2);
				generic_mutations::<i32>(cx, 1, false, 'A', &b, 5, 2);
				generic_mutations::<ProtocolVersion>(cx, 1, false, 'A', &b, 5, 2);
			}
		}
		let c = commit(&mut cx.rng);
		roundtrip_all(cx, 'A', false, &c, i < 10);
		let bf = BlindingFactor::from_slice(&cx.rng.bytes(32));
		roundtrip_all(cx, 'A', false, &bf, i < 10);
		let id = grin_keychain::Identifier::from_bytes(&cx.rng.bytes(17));
		roundtrip_all(cx, 'A', false, &id, i < 10);
		let sg = sig(&mut cx.rng);
		roundtrip_all(cx, 'A', false, &sg, i < 10);
		let h = hash32(&mut cx.rng);
		roundtrip_all(cx, 'A', false, &h, i < 10);
		if i < 4 {
			let b = cx.rng.bytes(70);
			generic_mutations::<Commitment>(cx, 1, false, 'A', &b, 70, 0);
			generic_mutations::<BlindingFactor>(cx, 1, false, 'A', &b, 70, 0);
			generic_mutations::<grin_keychain::Identifier>(cx, 1, false, 'A', &b, 70, 0);
			generic_mutations::<Signature>(cx, 1, false, 'A', &b, 70, 0);
			generic_mutations::<Hash>(cx, 1, false, 'A', &b, 70, 0);
		}
	}
	// --- PublicKey: 33 bytes, then the REAL curve test (the model has its own: tag 02 / 03, x < p,
	// x^3 + 7 a square mod p). Honest keys from random secret keys; random x with tag 02 / 03 (about
	// half are on the curve); every tag byte; x = p - 1, p, p + 1, 2^256 - 1, 0, 1; truncations.
	{
		use grin_util::secp::key::{PublicKey, SecretKey};
		let p_hex: [u8; 32] = {
			let mut p = [0xffu8; 32];
			p[27] = 0xfe;
			p[28] = 0xff;
			p[29] = 0xff;
			p[30] = 0xfc;
			p[31] = 0x2f;
			p
		};
		let mut honest: Vec<Vec<u8>> = vec![];
		for _ in 0..n {
			let secp = grin_util::static_secp_instance();
			let secp = secp.lock();
			if let Ok(sk) = SecretKey::from_slice(&secp, &cx.rng.bytes(32)) {
				if let Ok(pk) = PublicKey::from_secret_key(&secp, &sk) {
					drop(secp);
					honest.push(pk_bytes(&pk));
					roundtrip_all(cx, 'A', false, &pk, true);
				}
			}
		}
		let mut probes: Vec<Vec<u8>> = vec![];
		for _ in 0..(4 * n) {
			let mut b = cx.rng.bytes(33);
			b[0] = 2 + (cx.rng.below(2) as u8);
			probes.push(b);
		}
		if let Some(h) = honest.first() {
			for t in 0..=255u8 {
				let mut b = h.clone();
				b[0] = t;
				probes.push(b);
			}
			generic_mutations::<PublicKey>(cx, 1, false, 'A', h, 33, 8);
		}
		for delta in [-2i32, -1, 0, 1, 2].iter() {
			// x = p + delta
			let mut x = p_hex;
			let v = 0x2f + *delta;
			x[31] = v as u8;
			for tag in [2u8, 3] {
				let mut b = vec![tag];
				b.extend_from_slice(&x);
				probes.push(b);
			}
		}
		for x in [[0u8; 32], [0xffu8; 32], { let mut o = [0u8; 32]; o[31] = 1; o }, { let mut o = [0u8; 32]; o[31] = 2; o }].iter() {
			for tag in [2u8, 3] {
				let mut b = vec![tag];
				b.extend_from_slice(x);
				probes.push(b);
			}
		}
		for b in probes.iter() {
			dec_case::<PublicKey>(cx, 1, false, 'A', b, None, Expect::Any, "probe");
		}
	}
	cx.out.line("ser implcodecs", "ok");
	// --- PeerData
	use grin_p2p::{PeerData, State};
	let states = [State::Healthy, State::Banned, State::Defunct, State::Unknown];
	let mut pds: Vec<PeerData> = vec![];
	for i in 0..n {
		let ts = |rng: &mut Rng| -> i64 {
			match rng.below(5) {
				0 => 0,
				1 => i64::MIN,
				2 => i64::MAX,
				3 => -1,
				_ => 1_600_000_000 + rng.below(100_000_000) as i64,
			}
		};
		pds.push(PeerData {
			addr: gen_addr(&mut cx.rng, i as u64),
			capabilities: if i % 3 == 0 { Capabilities::from_bits_truncate(CAPS_ALL) } else { caps_of(&mut cx.rng) },
			user_agent: user_agent(&mut cx.rng, i),
			flags: states[i % 4],
			last_banned: ts(&mut cx.rng),
			ban_reason: ALL_REASONS[i % 8],
			last_connected: ts(&mut cx.rng),
			last_attempt: ts(&mut cx.rng),
		});
	}
	for (i, p) in pds.iter().enumerate() {
		for v in VERSIONS.iter() {
			set_env('A', false);
			let e = enc_at(p, *v);
			if i < 24 || *v == 1 {
				cx.out.line(&format!("ser enc PeerData {} A {}", v, pd_tokens(p)), &format!("{} none", show_enc(&e)));
			}
			match e {
				Ok(b) => {
					pd_dec(cx, *v, &b, Some(p), "valid");
					if *v == 1 && i < 30 {
						// every truncation (the two trailing i64 are optional: all cuts from 16 bytes before the
						// end on are ACCEPTED), flag / ban reason / capability / tag sweeps, string length field
						let lo = if i < 6 { 0 } else { b.len().saturating_sub(40) };
						for l in lo..b.len() {
							pd_dec(cx, 1, &b[..l], None, "trunc");
						}
						let ua = p.user_agent.as_bytes().len();
						let alen = if b[0] == 0 { 7 } else { 19 };
						let fl_off = alen + 4 + 8 + ua;
						for f in [0u8, 1, 2, 3, 4, 5, 128, 255].iter() {
							if let Some(m) = patched(&b, fl_off, &[*f]) {
								pd_dec(cx, 1, &m, None, "state-byte");
							}
						}
						for r in [0i32, 1, 7, 8, -1, i32::MIN, i32::MAX, 256].iter() {
							if let Some(m) = patched(&b, fl_off + 9, &r.to_be_bytes()) {
								pd_dec(cx, 1, &m, None, "ban-reason");
							}
						}
						for c in [0u32, CAPS_ALL, CAPS_ALL + 1, u32::MAX, 1 << 31].iter() {
							if let Some(m) = patched(&b, alen, &c.to_be_bytes()) {
								pd_dec(cx, 1, &m, None, "capabilities");
							}
						}
						for t in [0u8, 1, 2, 255].iter() {
							if let Some(m) = patched(&b, 0, &[*t]) {
								pd_dec(cx, 1, &m, None, "addr-tag");
							}
						}
						for l in [0u64, 1, ua as u64 + 1, 100_000, 100_001, 1 << 32, u64::MAX].iter() {
							if let Some(m) = patched(&b, alen + 4, &l.to_be_bytes()) {
								pd_dec(cx, 1, &m, None, "ua-length");
							}
						}
						if ua > 0 && i < 12 {
							for bad in BAD_UTF8.iter().take(12) {
								if bad.len() <= ua {
									if let Some(m) = patched(&b, alen + 4 + 8, bad) {
										pd_dec(cx, 1, &m, None, "bad-utf8");
									}
								}
							}
							// bad UTF-8 AND a missing mandatory field: the I/O error comes first
							if let Some(m) = patched(&b, alen + 4 + 8, &[0xff]) {
								pd_dec(cx, 1, &m[..fl_off + 3], None, "bad-utf8-and-short");
							}
						}
					}
				}
				Err(en) => cx.oracle_fail(format!("PeerData cannot be encoded: {} ({}) [version {}]", pd_tokens(p), en, v)),
			}
		}
	}
	// odd addresses inside a PeerData (mapped V6 read back as V4, flow info / scope id not carried)
	for a in odd_addrs() {
		let mut p = pds[1].clone();
		p.addr = a;
		if let Ok(b) = enc_at(&p, 1) {
			pd_dec(cx, 1, &b, None, "odd-addr");
		}
	}
}

fn main() {
	quiet_panics();
	let args: Vec<String> = std::env::args().collect();
	let section = args.get(1).map(|s| s.as_str()).unwrap_or("all").to_string();
	let mut cx = Ctx {
		out: Out::stdout(),
		rng: Rng::new(seed_from_env() ^ 0x5e7),
		stats: BTreeMap::new(),
		empties: BTreeMap::new(),
		reported: BTreeSet::new(),
		thorough: tier_thorough(),
	};
	if section == "all" || section == "prim" {
		consts(&mut cx);
		prims(&mut cx);
	}
	if section == "all" || section == "tx" {
		kernels(&mut cx);
		outputs_inputs(&mut cx);
		bodies(&mut cx);
	}
	if section == "all" || section == "block" {
		proofs_headers(&mut cx);
		compact_blocks(&mut cx);
	}
	if section == "all" || section == "seg" {
		segments(&mut cx);
	}
	if section == "all" || section == "bitmap" {
		bitmaps(&mut cx);
	}
	if section == "all" || section == "msg" {
		messages(&mut cx);
		repeated_items(&mut cx);
	}
	if section == "all" || section == "store" {
		store_elements(&mut cx);
	}
	if section == "all" || section == "ids" {
		derived_ids(&mut cx);
	}
	if section == "all" || section == "db" {
		db_values(&mut cx);
	}
	cx.flush_gen_fails();
	let stats = std::mem::take(&mut cx.stats);
	// per type x version x kind x outcome
	for (k, v) in stats.iter() {
		cx.out.raw(&format!("#STAT {} = {}", k, v));
	}
	// the deliberately generated EMPTY / SINGLETON / MAXIMAL instances, per type and corner
	let empties = std::mem::take(&mut cx.empties);
	let mut per_type: BTreeMap<String, u64> = BTreeMap::new();
	for (k, v) in empties.iter() {
		cx.out.raw(&format!("#STAT empties {}={}", k, v));
		*per_type.entry(k.split(':').next().unwrap_or(k).to_string()).or_insert(0) += v;
	}
	for (k, v) in per_type.iter() {
		cx.out.raw(&format!("#STAT empties {}={}", k, v));
	}
	cx.out.raw(&format!("#STAT oracle failures printed = {}", cx.reported.len()));
	cx.out.raw(&format!("#STAT lines = {}", cx.out.lines));
	cx.out.flush();
}
