//! C10 correspondence: encoders / decoders of the consensus and wire objects.
//!
//! Lines (see lean/GrinVerif/Drv/SerD.lean):
//!   ser const <name> => <value>
//!   ser prim <kind> <hex> => ok <value> <consumed> | err <E>
//!   ser dec <Type> <ver> <nrd> <chain> <hex> => ok <consumed> <enc@1> <enc@2> <enc@3> <hash|none> | err <E>
//!   ser enc <Type> <ver> <chain> <value tokens…> => <enc|E:err> <hash|none>
//!
//! The property oracle is evaluated here on the implementation:
//!   * a valid encoding decodes to an equal value (inputs by commitment at v>=3), re-encodes to the
//!     identical bytes, and keeps its hash under every version;
//!   * whatever the decoder accepts re-encodes to exactly the bytes it consumed (canonical form);
//!   * each canonical-form violation is refused.
use chrono::{DateTime, Utc};
use grin_chain::types::Tip;
use grin_core::core::hash::{Hash, Hashed};
use grin_core::core::{
	Block, BlockHeader, CommitWrapper, CompactBlock, HeaderVersion, Input, Inputs, KernelFeatures,
	NRDRelativeHeight, Output, OutputFeatures, OutputIdentifier, ShortId, Transaction,
	TransactionBody, TxKernel,
};
use grin_core::global::{self, ChainTypes};
use grin_core::pow::{Difficulty, Proof, ProofOfWork};
use grin_core::ser::{
	self, BinReader, DeserializationMode, ProtocolVersion, Readable, Reader, Writeable,
};
use grin_keychain::BlindingFactor;
use grin_util::secp::pedersen::{Commitment, RangeProof};
use grin_util::secp::Signature;
use gvharness::*;
use std::collections::BTreeMap;

const VERSIONS: [u32; 4] = [1, 2, 3, 1000];
const TS_MAX: i64 = 8210266790400;
const TS_MIN: i64 = -8334601228800;

struct Ctx {
	out: Out,
	rng: Rng,
	stats: BTreeMap<String, u64>,
	thorough: bool,
}

impl Ctx {
	fn stat(&mut self, k: String) {
		*self.stats.entry(k).or_insert(0) += 1;
	}
}

fn set_env(chain: char, nrd: bool) {
	global::set_local_chain_type(match chain {
		'A' => ChainTypes::AutomatedTesting,
		_ => ChainTypes::Mainnet,
	});
	global::set_local_nrd_enabled(nrd);
}

fn err_name(e: &ser::Error) -> String {
	match e {
		ser::Error::IOErr(_, k) => {
			if *k == std::io::ErrorKind::UnexpectedEof {
				"IOErr".to_string()
			} else {
				format!("IOErr:{:?}", k)
			}
		}
		ser::Error::UnexpectedData { .. } => "UnexpectedData".to_string(),
		ser::Error::CorruptedData => "CorruptedData".to_string(),
		ser::Error::CountError => "CountError".to_string(),
		ser::Error::TooLargeReadErr => "TooLargeReadErr".to_string(),
		ser::Error::HexError(_) => "HexError".to_string(),
		ser::Error::SortError => "SortError".to_string(),
		ser::Error::DuplicateError => "DuplicateError".to_string(),
		ser::Error::InvalidBlockVersion => "InvalidBlockVersion".to_string(),
		ser::Error::UnsupportedProtocolVersion => "UnsupportedProtocolVersion".to_string(),
	}
}

/// NB: `Proof::write` consults the thread-local chain type (`global::proofsize()`): callers make
/// sure `set_env` was called for the chain the value was generated for.
fn enc_at<T: Writeable>(x: &T, v: u32) -> Result<Vec<u8>, String> {
	ser::ser_vec(x, ProtocolVersion(v)).map_err(|e| err_name(&e))
}

fn show_enc(r: &Result<Vec<u8>, String>) -> String {
	match r {
		Ok(b) => hex(b),
		Err(e) => format!("E:{}", e),
	}
}

// ---------------------------------------------------------------------------------------------
// per-type glue

/// a piece of the canonical encoding: plain bytes or a range proof (8-byte length + 675 bytes)
enum Seg {
	Plain(usize),
	Proof,
}

trait Ty: Readable + Writeable + Sized {
	const NAME: &'static str;
	/// is `hash()` an identity hash that must not depend on the protocol version?
	/// (false for Transaction: its hash covers the `Inputs` variant, and the property only names
	/// headers, kernels, outputs and blocks)
	const HASH_STABLE: bool = true;
	fn hash_hex(&self) -> Option<String>;
	/// value equality as the property means it, `self` = original, `d` = decoded at version `v`
	fn same(&self, d: &Self, v: u32) -> bool;
	/// value tokens for an `enc` line
	fn describe(&self) -> String;
	/// layout of the encoding at version `v` (where the range proofs sit)
	fn segs(&self, v: u32) -> Vec<Seg> {
		vec![Seg::Plain(enc_at(self, v).map(|b| b.len()).unwrap_or(0))]
	}
}

fn hh(h: Hash) -> Option<String> {
	Some(hex(h.as_bytes()))
}

fn kf_tokens(f: &KernelFeatures) -> String {
	match f {
		KernelFeatures::Plain { fee } => format!("P {}", u64::from(*fee)),
		KernelFeatures::Coinbase => "C".to_string(),
		KernelFeatures::HeightLocked { fee, lock_height } => {
			format!("H {} {}", u64::from(*fee), lock_height)
		}
		KernelFeatures::NoRecentDuplicate {
			fee,
			relative_height,
		} => format!("N {} {}", u64::from(*fee), u64::from(*relative_height)),
	}
}

fn of_tok(f: OutputFeatures) -> &'static str {
	match f {
		OutputFeatures::Plain => "0",
		OutputFeatures::Coinbase => "1",
	}
}

impl Ty for KernelFeatures {
	const NAME: &'static str = "KernelFeatures";
	fn hash_hex(&self) -> Option<String> {
		None
	}
	fn same(&self, d: &Self, _v: u32) -> bool {
		self == d
	}
	fn describe(&self) -> String {
		kf_tokens(self)
	}
}

fn kernel_same(a: &TxKernel, b: &TxKernel) -> bool {
	a.features == b.features
		&& a.excess == b.excess
		&& a.excess_sig.as_ref() == b.excess_sig.as_ref()
}

impl Ty for TxKernel {
	const NAME: &'static str = "TxKernel";
	fn hash_hex(&self) -> Option<String> {
		hh(self.hash())
	}
	fn same(&self, d: &Self, _v: u32) -> bool {
		kernel_same(self, d)
	}
	fn describe(&self) -> String {
		format!(
			"{} {} {}",
			kf_tokens(&self.features),
			hex(&self.excess.0),
			hex(self.excess_sig.as_ref())
		)
	}
}

impl Ty for OutputFeatures {
	const NAME: &'static str = "OutputFeatures";
	fn hash_hex(&self) -> Option<String> {
		None
	}
	fn same(&self, d: &Self, _v: u32) -> bool {
		self == d
	}
	fn describe(&self) -> String {
		of_tok(*self).to_string()
	}
}

impl Ty for Input {
	const NAME: &'static str = "Input";
	fn hash_hex(&self) -> Option<String> {
		hh(self.hash())
	}
	fn same(&self, d: &Self, _v: u32) -> bool {
		self.features == d.features && self.commit == d.commit
	}
	fn describe(&self) -> String {
		format!("{} {}", of_tok(self.features), hex(&self.commit.0))
	}
}

impl Ty for CommitWrapper {
	const NAME: &'static str = "CommitWrapper";
	fn hash_hex(&self) -> Option<String> {
		hh(self.hash())
	}
	fn same(&self, d: &Self, _v: u32) -> bool {
		self.commitment() == d.commitment()
	}
	fn describe(&self) -> String {
		hex(&self.commitment().0)
	}
}

impl Ty for OutputIdentifier {
	const NAME: &'static str = "OutputIdentifier";
	fn hash_hex(&self) -> Option<String> {
		hh(self.hash())
	}
	fn same(&self, d: &Self, _v: u32) -> bool {
		self.features == d.features && self.commit == d.commit
	}
	fn describe(&self) -> String {
		format!("{} {}", of_tok(self.features), hex(&self.commit.0))
	}
}

fn rp_same(a: &RangeProof, b: &RangeProof) -> bool {
	a.plen == b.plen && a.proof[..] == b.proof[..]
}

impl Ty for RangeProof {
	const NAME: &'static str = "RangeProof";
	fn hash_hex(&self) -> Option<String> {
		hh(self.hash())
	}
	fn same(&self, d: &Self, _v: u32) -> bool {
		rp_same(self, d)
	}
	fn describe(&self) -> String {
		format!("{} {}", self.plen, hex(&self.proof[..]))
	}
	fn segs(&self, _v: u32) -> Vec<Seg> {
		vec![Seg::Proof]
	}
}

fn output_same(a: &Output, b: &Output) -> bool {
	a.identifier.features == b.identifier.features
		&& a.identifier.commit == b.identifier.commit
		&& rp_same(&a.proof, &b.proof)
}

fn output_tokens(o: &Output) -> String {
	format!(
		"{} {} {} {}",
		of_tok(o.identifier.features),
		hex(&o.identifier.commit.0),
		o.proof.plen,
		hex(&o.proof.proof[..])
	)
}

impl Ty for Output {
	const NAME: &'static str = "Output";
	fn hash_hex(&self) -> Option<String> {
		hh(self.identifier.hash())
	}
	fn same(&self, d: &Self, _v: u32) -> bool {
		output_same(self, d)
	}
	fn describe(&self) -> String {
		output_tokens(self)
	}
	fn segs(&self, _v: u32) -> Vec<Seg> {
		vec![Seg::Plain(34), Seg::Proof]
	}
}

fn inputs_same(a: &Inputs, d: &Inputs, v: u32) -> bool {
	if a.is_empty() && d.is_empty() {
		// `Inputs::default()` is `CommitOnly([])`, every version writes nothing for it and v1/v2
		// read back `FeaturesAndCommit([])`: no commitments either way
		return true;
	}
	if v >= 3 {
		// compared by commitment: the decoded side is commit-only
		let ca: Vec<CommitWrapper> = a.into();
		let cd: Vec<CommitWrapper> = d.into();
		ca.len() == cd.len()
			&& ca
				.iter()
				.zip(cd.iter())
				.all(|(x, y)| x.commitment() == y.commitment())
	} else {
		match (a, d) {
			(Inputs::FeaturesAndCommit(x), Inputs::FeaturesAndCommit(y)) => {
				x.len() == y.len()
					&& x.iter()
						.zip(y.iter())
						.all(|(p, q)| p.features == q.features && p.commit == q.commit)
			}
			_ => false,
		}
	}
}

fn body_same(a: &TransactionBody, d: &TransactionBody, v: u32) -> bool {
	inputs_same(&a.inputs, &d.inputs, v)
		&& a.outputs.len() == d.outputs.len()
		&& a.outputs
			.iter()
			.zip(d.outputs.iter())
			.all(|(x, y)| output_same(x, y))
		&& a.kernels.len() == d.kernels.len()
		&& a.kernels
			.iter()
			.zip(d.kernels.iter())
			.all(|(x, y)| kernel_same(x, y))
}

fn inputs_tokens(i: &Inputs) -> String {
	match i {
		Inputs::CommitOnly(l) => {
			let mut s = format!("CO {}", l.len());
			for c in l {
				s.push_str(&format!(" {}", hex(&c.commitment().0)));
			}
			s
		}
		Inputs::FeaturesAndCommit(l) => {
			let mut s = format!("FC {}", l.len());
			for c in l {
				s.push_str(&format!(" {} {}", of_tok(c.features), hex(&c.commit.0)));
			}
			s
		}
	}
}

fn body_tokens(b: &TransactionBody) -> String {
	let mut s = inputs_tokens(&b.inputs);
	s.push_str(&format!(" {}", b.outputs.len()));
	for o in &b.outputs {
		s.push(' ');
		s.push_str(&output_tokens(o));
	}
	s.push_str(&format!(" {}", b.kernels.len()));
	for k in &b.kernels {
		s.push(' ');
		s.push_str(&k.describe());
	}
	s
}

fn body_segs(b: &TransactionBody, v: u32, prefix: usize) -> Vec<Seg> {
	let in_sz = if v >= 3 { 33 } else { 34 };
	let mut segs = vec![Seg::Plain(prefix + 24 + b.inputs.len() * in_sz)];
	for _ in &b.outputs {
		segs.push(Seg::Plain(34));
		segs.push(Seg::Proof);
	}
	let klen: usize = b
		.kernels
		.iter()
		.map(|k| enc_at(k, v).map(|x| x.len()).unwrap_or(0))
		.sum();
	segs.push(Seg::Plain(klen));
	segs
}

impl Ty for TransactionBody {
	const NAME: &'static str = "TransactionBody";
	fn hash_hex(&self) -> Option<String> {
		None
	}
	fn same(&self, d: &Self, v: u32) -> bool {
		body_same(self, d, v)
	}
	fn describe(&self) -> String {
		body_tokens(self)
	}
	fn segs(&self, v: u32) -> Vec<Seg> {
		body_segs(self, v, 0)
	}
}

impl Ty for Transaction {
	const NAME: &'static str = "Transaction";
	const HASH_STABLE: bool = false;
	fn hash_hex(&self) -> Option<String> {
		hh(self.hash())
	}
	fn same(&self, d: &Self, v: u32) -> bool {
		self.offset == d.offset && body_same(&self.body, &d.body, v)
	}
	fn describe(&self) -> String {
		format!("{} {}", hex(self.offset.as_ref()), body_tokens(&self.body))
	}
	fn segs(&self, v: u32) -> Vec<Seg> {
		body_segs(&self.body, v, 32)
	}
}

fn proof_tokens(p: &Proof) -> String {
	format!("{} {}", p.edge_bits, nat_list(&p.nonces))
}

impl Ty for Proof {
	const NAME: &'static str = "Proof";
	fn hash_hex(&self) -> Option<String> {
		hh(self.hash())
	}
	fn same(&self, d: &Self, _v: u32) -> bool {
		self == d
	}
	fn describe(&self) -> String {
		proof_tokens(self)
	}
}

fn pow_tokens(p: &ProofOfWork) -> String {
	format!(
		"{} {} {} {}",
		p.total_difficulty.to_num(),
		p.secondary_scaling,
		p.nonce,
		proof_tokens(&p.proof)
	)
}

impl Ty for ProofOfWork {
	const NAME: &'static str = "ProofOfWork";
	fn hash_hex(&self) -> Option<String> {
		None
	}
	fn same(&self, d: &Self, _v: u32) -> bool {
		self == d
	}
	fn describe(&self) -> String {
		pow_tokens(self)
	}
}

fn header_tokens(h: &BlockHeader) -> String {
	format!(
		"{} {} {} {} {} {} {} {} {} {} {} {}",
		h.version.0,
		h.height,
		h.timestamp.timestamp(),
		hex(h.prev_hash.as_bytes()),
		hex(h.prev_root.as_bytes()),
		hex(h.output_root.as_bytes()),
		hex(h.range_proof_root.as_bytes()),
		hex(h.kernel_root.as_bytes()),
		hex(h.total_kernel_offset.as_ref()),
		h.output_mmr_size,
		h.kernel_mmr_size,
		pow_tokens(&h.pow)
	)
}

impl Ty for BlockHeader {
	const NAME: &'static str = "BlockHeader";
	fn hash_hex(&self) -> Option<String> {
		hh(self.hash())
	}
	fn same(&self, d: &Self, _v: u32) -> bool {
		self == d
	}
	fn describe(&self) -> String {
		header_tokens(self)
	}
}

impl Ty for Block {
	const NAME: &'static str = "Block";
	fn hash_hex(&self) -> Option<String> {
		hh(self.hash())
	}
	fn same(&self, d: &Self, v: u32) -> bool {
		self.header == d.header && body_same(&self.body, &d.body, v)
	}
	fn describe(&self) -> String {
		format!("{} {}", header_tokens(&self.header), body_tokens(&self.body))
	}
	fn segs(&self, v: u32) -> Vec<Seg> {
		let hl = enc_at(&self.header, v).map(|b| b.len()).unwrap_or(0);
		body_segs(&self.body, v, hl)
	}
}

impl Ty for ShortId {
	const NAME: &'static str = "ShortId";
	fn hash_hex(&self) -> Option<String> {
		hh(self.hash())
	}
	fn same(&self, d: &Self, _v: u32) -> bool {
		self.as_ref() == d.as_ref()
	}
	fn describe(&self) -> String {
		hex(self.as_ref())
	}
}

impl Ty for CompactBlock {
	const NAME: &'static str = "CompactBlock";
	fn hash_hex(&self) -> Option<String> {
		hh(self.hash())
	}
	fn same(&self, d: &Self, _v: u32) -> bool {
		self.header == d.header
			&& self.nonce == d.nonce
			&& self.out_full().len() == d.out_full().len()
			&& self
				.out_full()
				.iter()
				.zip(d.out_full().iter())
				.all(|(x, y)| output_same(x, y))
			&& self.kern_full().len() == d.kern_full().len()
			&& self
				.kern_full()
				.iter()
				.zip(d.kern_full().iter())
				.all(|(x, y)| kernel_same(x, y))
			&& self.kern_ids().len() == d.kern_ids().len()
			&& self
				.kern_ids()
				.iter()
				.zip(d.kern_ids().iter())
				.all(|(x, y)| x.as_ref() == y.as_ref())
	}
	fn describe(&self) -> String {
		let mut s = format!("{} {} {}", header_tokens(&self.header), self.nonce, self.out_full().len());
		for o in self.out_full() {
			s.push(' ');
			s.push_str(&output_tokens(o));
		}
		s.push_str(&format!(" {}", self.kern_full().len()));
		for k in self.kern_full() {
			s.push(' ');
			s.push_str(&k.describe());
		}
		s.push_str(&format!(" {}", self.kern_ids().len()));
		for k in self.kern_ids() {
			s.push(' ');
			s.push_str(&hex(k.as_ref()));
		}
		s
	}
	fn segs(&self, v: u32) -> Vec<Seg> {
		let hl = enc_at(&self.header, v).map(|b| b.len()).unwrap_or(0);
		let mut segs = vec![Seg::Plain(hl + 8 + 24)];
		for _ in self.out_full() {
			segs.push(Seg::Plain(34));
			segs.push(Seg::Proof);
		}
		let klen: usize = self
			.kern_full()
			.iter()
			.map(|k| enc_at(k, v).map(|x| x.len()).unwrap_or(0))
			.sum();
		segs.push(Seg::Plain(klen + 6 * self.kern_ids().len()));
		segs
	}
}

impl Ty for Tip {
	const NAME: &'static str = "Tip";
	fn hash_hex(&self) -> Option<String> {
		None
	}
	fn same(&self, d: &Self, _v: u32) -> bool {
		self == d
	}
	fn describe(&self) -> String {
		format!(
			"{} {} {} {}",
			self.height,
			hex(self.last_block_h.as_bytes()),
			hex(self.prev_block_h.as_bytes()),
			self.total_difficulty.to_num()
		)
	}
}

impl Ty for NRDRelativeHeight {
	const NAME: &'static str = "NRDRelativeHeight";
	fn hash_hex(&self) -> Option<String> {
		hh(self.hash())
	}
	fn same(&self, d: &Self, _v: u32) -> bool {
		self == d
	}
	fn describe(&self) -> String {
		u64::from(*self).to_string()
	}
}

// ---------------------------------------------------------------------------------------------
// one decode observation + the oracles

/// Does `input` differ from the canonical re-encoding `canon` only by range-proof length fields
/// (the decoder reads `min(len, 675)` bytes and always yields `plen = 675`)?
fn only_proof_len_differs(input: &[u8], canon: &[u8], segs: &[Seg]) -> bool {
	let (mut ic, mut rc) = (0usize, 0usize);
	let mut seen = false;
	for s in segs {
		match s {
			Seg::Plain(n) => {
				if ic + n > input.len() || rc + n > canon.len() || input[ic..ic + n] != canon[rc..rc + n] {
					return false;
				}
				ic += n;
				rc += n;
			}
			Seg::Proof => {
				if ic + 8 > input.len() || rc + 8 + 675 > canon.len() {
					return false;
				}
				let mut lb = [0u8; 8];
				lb.copy_from_slice(&input[ic..ic + 8]);
				let l = u64::from_be_bytes(lb);
				let m = std::cmp::min(l, 675) as usize;
				if l != 675 {
					seen = true;
				}
				if ic + 8 + m > input.len() || input[ic + 8..ic + 8 + m] != canon[rc + 8..rc + 8 + m] {
					return false;
				}
				if canon[rc + 8 + m..rc + 8 + 675].iter().any(|b| *b != 0) {
					return false;
				}
				ic += 8 + m;
				rc += 8 + 675;
			}
		}
	}
	seen && ic == input.len() && rc == canon.len()
}

#[derive(Clone, Copy, PartialEq)]
enum Expect {
	/// a valid encoding of `orig`: must decode to an equal value
	Valid,
	/// touches a canonical-form rule: must be refused
	Reject,
	/// anything goes, only the canonical-form oracle applies
	Any,
}

/// Print one `ser dec` line and evaluate the oracles. Returns the decoded value.
fn dec_case<T: Ty>(
	cx: &mut Ctx,
	v: u32,
	nrd: bool,
	chain: char,
	bytes: &[u8],
	orig: Option<&T>,
	expect: Expect,
	what: &str,
) -> Option<T> {
	set_env(chain, nrd);
	let lhs = format!(
		"ser dec {} {} {} {} {}",
		T::NAME,
		v,
		if nrd { 1 } else { 0 },
		chain,
		hex(bytes)
	);
	let b2 = bytes.to_vec();
	let r = catch(move || {
		let mut src = &b2[..];
		let r = ser::deserialize::<T, _>(&mut src, ProtocolVersion(v), DeserializationMode::default());
		(r, src.len())
	});
	match r {
		Err(msg) => {
			cx.out.line(&lhs, "panic");
			cx.out.raw(&format!(
				"#ORACLE-FAIL C10 decoder of {} v{} panicked ({}) on {}",
				T::NAME,
				v,
				msg.replace('\n', " "),
				hex(bytes)
			));
			cx.stat(format!("{} v{} {} panic", T::NAME, v, what));
			None
		}
		Ok((Err(e), _)) => {
			let en = err_name(&e);
			cx.out.line(&lhs, &format!("err {}", en));
			cx.stat(format!("{} v{} {} err:{}", T::NAME, v, what, en));
			if expect == Expect::Valid {
				cx.out.raw(&format!(
					"#ORACLE-FAIL C10 {} v{}: its own valid encoding is refused ({}): {}",
					T::NAME,
					v,
					en,
					hex(bytes)
				));
			}
			None
		}
		Ok((Ok(x), rest)) => {
			let consumed = bytes.len() - rest;
			let e1 = enc_at(&x, 1);
			let e2 = enc_at(&x, 2);
			let e3 = enc_at(&x, 3);
			let hs = x.hash_hex();
			cx.out.line(
				&lhs,
				&format!(
					"ok {} {} {} {} {}",
					consumed,
					show_enc(&e1),
					show_enc(&e2),
					show_enc(&e3),
					hs.clone().unwrap_or_else(|| "none".to_string())
				),
			);
			cx.stat(format!("{} v{} {} ok", T::NAME, v, what));
			// canonical form: what was accepted re-encodes to exactly the bytes consumed
			let ev = enc_at(&x, v);
			match &ev {
				Ok(re) if re[..] == bytes[..consumed] => {}
				Ok(re) => {
					if only_proof_len_differs(&bytes[..consumed], re, &x.segs(v)) {
						cx.out.raw(&format!(
							"#KNOWN-PROBE C10 rangeproof-length-normalised: {} v{} accepts a range proof length field != 675 and re-encodes it as 675 ({} bytes in, {} bytes out)",
							T::NAME, v, consumed, re.len()
						));
						cx.stat(format!("{} v{} probe:rangeproof-length-normalised", T::NAME, v));
					} else {
						cx.out.raw(&format!(
							"#ORACLE-FAIL C10 {} v{}: non-canonical encoding accepted and normalised: in={} out={}",
							T::NAME,
							v,
							hex(&bytes[..consumed]),
							hex(re)
						));
					}
				}
				Err(e) => {
					cx.out.raw(&format!(
						"#ORACLE-FAIL C10 {} v{}: decoded value cannot be re-encoded at its own version ({}): {}",
						T::NAME,
						v,
						e,
						hex(bytes)
					));
				}
			}
			if expect == Expect::Reject {
				cx.out.raw(&format!(
					"#ORACLE-FAIL C10 {} v{}: canonical-form violation ({}) accepted: {}",
					T::NAME,
					v,
					what,
					hex(bytes)
				));
			}
			if let (Some(o), Expect::Valid) = (orig, expect) {
				if !o.same(&x, v) {
					cx.out.raw(&format!(
						"#ORACLE-FAIL C10 {} v{}: decoded value differs from the encoded one: {}",
						T::NAME,
						v,
						hex(bytes)
					));
				}
				if T::HASH_STABLE && o.hash_hex() != hs {
					cx.out.raw(&format!(
						"#ORACLE-FAIL C10 {} v{}: hash changed across encode/decode: {:?} -> {:?} on {}",
						T::NAME,
						v,
						o.hash_hex(),
						hs,
						hex(bytes)
					));
				}
			}
			Some(x)
		}
	}
}

/// `ser enc` line: the model must produce the same bytes / error from the described value
fn enc_case<T: Ty>(cx: &mut Ctx, v: u32, chain: char, x: &T) -> Result<Vec<u8>, String> {
	set_env(chain, true);
	let lhs = format!("ser enc {} {} {} {}", T::NAME, v, chain, x.describe());
	let e = enc_at(x, v);
	cx.out.line(
		&lhs,
		&format!(
			"{} {}",
			show_enc(&e),
			x.hash_hex().unwrap_or_else(|| "none".to_string())
		),
	);
	cx.stat(format!("{} v{} enc {}", T::NAME, v, if e.is_ok() { "ok" } else { "err" }));
	e
}

/// valid value: `enc` line + decode at every version + hash stays the same at every version
fn roundtrip_all<T: Ty>(cx: &mut Ctx, chain: char, nrd: bool, x: &T, with_enc_line: bool) {
	let h0 = x.hash_hex();
	for v in VERSIONS.iter() {
		let e = if with_enc_line {
			enc_case(cx, *v, chain, x)
		} else {
			set_env(chain, nrd);
			enc_at(x, *v)
		};
		if let Ok(bytes) = e {
			if let Some(d) = dec_case::<T>(cx, *v, nrd, chain, &bytes, Some(x), Expect::Valid, "valid") {
				if T::HASH_STABLE && d.hash_hex() != h0 {
					cx.out.raw(&format!(
						"#ORACLE-FAIL C10 {}: identity hash depends on protocol version {}: {}",
						T::NAME,
						v,
						hex(&bytes)
					));
				}
			}
		}
	}
}

/// truncations and single-byte perturbations of a valid encoding
fn generic_mutations<T: Ty>(cx: &mut Ctx, v: u32, nrd: bool, chain: char, bytes: &[u8], n_trunc: usize, n_flip: usize) {
	if bytes.is_empty() {
		return;
	}
	if bytes.len() <= n_trunc {
		for l in 0..bytes.len() {
			dec_case::<T>(cx, v, nrd, chain, &bytes[..l], None, Expect::Any, "trunc");
		}
	} else {
		for _ in 0..n_trunc {
			let l = cx.rng.below(bytes.len() as u64) as usize;
			dec_case::<T>(cx, v, nrd, chain, &bytes[..l], None, Expect::Any, "trunc");
		}
	}
	for _ in 0..n_flip {
		let mut b = bytes.to_vec();
		let i = cx.rng.below(b.len() as u64) as usize;
		let nv = match cx.rng.below(4) {
			0 => 0u8,
			1 => 0xff,
			2 => b[i] ^ (1 << cx.rng.below(8)),
			_ => cx.rng.next() as u8,
		};
		if nv == b[i] {
			b[i] ^= 1;
		} else {
			b[i] = nv;
		}
		dec_case::<T>(cx, v, nrd, chain, &b, None, Expect::Any, "byte");
	}
}

// ---------------------------------------------------------------------------------------------
// generators

fn pick_u64(rng: &mut Rng) -> u64 {
	match rng.below(8) {
		0 => 0,
		1 => 1,
		2 => u64::MAX,
		3 => (1u64 << 40) - 1,
		4 => 1u64 << rng.below(64),
		5 => rng.below(1000),
		_ => rng.next(),
	}
}

fn fee_fields(raw: u64) -> grin_core::core::FeeFields {
	// the only way to build an arbitrary raw FeeFields is to read it
	let b = raw.to_be_bytes();
	ser::deserialize::<grin_core::core::FeeFields, _>(
		&mut &b[..],
		ProtocolVersion(1),
		DeserializationMode::default(),
	)
	.unwrap()
}

fn gen_kernel_features(rng: &mut Rng, variant: u64) -> KernelFeatures {
	match variant % 4 {
		0 => KernelFeatures::Plain {
			fee: fee_fields(pick_u64(rng)),
		},
		1 => KernelFeatures::Coinbase,
		2 => KernelFeatures::HeightLocked {
			fee: fee_fields(pick_u64(rng)),
			lock_height: pick_u64(rng),
		},
		_ => KernelFeatures::NoRecentDuplicate {
			fee: fee_fields(pick_u64(rng)),
			relative_height: NRDRelativeHeight::new(match rng.below(4) {
				0 => 1,
				1 => 10080,
				_ => rng.range(1, 10080),
			})
			.unwrap(),
		},
	}
}

fn commit(rng: &mut Rng) -> Commitment {
	Commitment::from_vec(rng.bytes(33))
}

fn sig(rng: &mut Rng) -> Signature {
	let b = rng.bytes(64);
	let mut a = [0u8; 64];
	a.copy_from_slice(&b);
	Signature::from_raw_data(&a).unwrap()
}

fn gen_kernel(rng: &mut Rng, variant: u64) -> TxKernel {
	TxKernel {
		features: gen_kernel_features(rng, variant),
		excess: commit(rng),
		excess_sig: sig(rng),
	}
}

fn range_proof(rng: &mut Rng, plen: usize, junk_after: bool) -> RangeProof {
	let mut proof = [0u8; 675];
	let b = rng.bytes(675);
	for i in 0..675 {
		if i < plen || junk_after {
			proof[i] = b[i];
		}
	}
	RangeProof { proof, plen }
}

fn gen_output(rng: &mut Rng, coinbase: bool) -> Output {
	Output::new(
		if coinbase {
			OutputFeatures::Coinbase
		} else {
			OutputFeatures::Plain
		},
		commit(rng),
		range_proof(rng, 675, false),
	)
}

fn gen_input(rng: &mut Rng, coinbase: bool) -> Input {
	Input::new(
		if coinbase {
			OutputFeatures::Coinbase
		} else {
			OutputFeatures::Plain
		},
		commit(rng),
	)
}

fn hash32(rng: &mut Rng) -> Hash {
	Hash::from_vec(&rng.bytes(32))
}

/// a sorted, duplicate-free body (sorting by the real `Ord` = hash order)
fn gen_body(rng: &mut Rng, ni: usize, no: usize, nk: usize, commit_only: bool, tx_like: bool, nrd: bool) -> TransactionBody {
	let mut ins: Vec<Input> = (0..ni)
		.map(|_| {
			let cb = rng.chance(1, 4);
			gen_input(rng, cb)
		})
		.collect();
	let mut outs: Vec<Output> = (0..no)
		.map(|_| {
			let cb = !tx_like && rng.chance(1, 4);
			gen_output(rng, cb)
		})
		.collect();
	let mut kers: Vec<TxKernel> = (0..nk)
		.map(|_| {
			let mut variant = rng.below(4);
			if tx_like && variant == 1 {
				variant = 0;
			}
			if !nrd && variant == 3 {
				variant = 2;
			}
			gen_kernel(rng, variant)
		})
		.collect();
	ins.sort_unstable();
	outs.sort_unstable();
	kers.sort_unstable();
	let inputs = if commit_only {
		let mut cw: Vec<CommitWrapper> = ins.iter().map(|i| i.into()).collect();
		cw.sort_unstable();
		Inputs::CommitOnly(cw)
	} else {
		Inputs::FeaturesAndCommit(ins)
	};
	TransactionBody {
		inputs,
		outputs: outs,
		kernels: kers,
	}
}

fn gen_proof(rng: &mut Rng, edge_bits: u8, proofsize: usize) -> Proof {
	let mode = rng.below(4);
	let nonces: Vec<u64> = (0..proofsize)
		.map(|_| {
			let m = if edge_bits >= 64 { u64::MAX } else { (1u64 << edge_bits) - 1 };
			match mode {
				0 => 0,
				1 => m,
				_ => rng.next() & m,
			}
		})
		.collect();
	Proof { edge_bits, nonces }
}

fn pick_ts(rng: &mut Rng) -> i64 {
	match rng.below(8) {
		0 => 0,
		1 => -1,
		2 => TS_MAX,
		3 => TS_MIN,
		4 => 1_600_000_000 + rng.below(400_000_000) as i64,
		5 => TS_MIN + rng.below(100000) as i64,
		6 => TS_MAX - rng.below(100000) as i64,
		_ => (rng.next() % (TS_MAX as u64)) as i64 * if rng.chance(1, 2) { 1 } else { -1 },
	}
}

fn proofsize_of(chain: char) -> usize {
	if chain == 'A' {
		8
	} else {
		42
	}
}

fn gen_header(rng: &mut Rng, chain: char) -> BlockHeader {
	let ps = proofsize_of(chain);
	// edge bits for which pack_len >= 8
	let eb = loop {
		let e = rng.range(1, 63) as u8;
		if (e as usize * ps + 7) / 8 >= 8 {
			break e;
		}
	};
	BlockHeader {
		version: HeaderVersion(match rng.below(4) {
			0 => 0,
			1 => 65535,
			_ => rng.range(1, 5) as u16,
		}),
		height: pick_u64(rng),
		prev_hash: hash32(rng),
		prev_root: hash32(rng),
		timestamp: DateTime::<Utc>::from_timestamp(pick_ts(rng), 0).unwrap(),
		output_root: hash32(rng),
		range_proof_root: hash32(rng),
		kernel_root: hash32(rng),
		total_kernel_offset: BlindingFactor::from_slice(&rng.bytes(32)),
		output_mmr_size: pick_u64(rng),
		kernel_mmr_size: pick_u64(rng),
		pow: ProofOfWork {
			total_difficulty: Difficulty::from_num(pick_u64(rng)),
			secondary_scaling: pick_u64(rng) as u32,
			nonce: pick_u64(rng),
			proof: gen_proof(rng, eb, ps),
		},
	}
}

// ---------------------------------------------------------------------------------------------
// sections

fn consts(cx: &mut Ctx) {
	let tmax = chrono::NaiveDate::MAX
		.and_hms_opt(0, 0, 0)
		.unwrap()
		.and_utc()
		.timestamp();
	let tmin = chrono::NaiveDate::MIN
		.and_hms_opt(0, 0, 0)
		.unwrap()
		.and_utc()
		.timestamp();
	cx.out.line("ser const ts_max", &tmax.to_string());
	cx.out.line("ser const ts_min", &tmin.to_string());
	cx.out.line(
		"ser const max_proof_size",
		&grin_util::secp::constants::MAX_PROOF_SIZE.to_string(),
	);
	cx.out.line("ser const nrd_max", &grin_core::consensus::WEEK_HEIGHT.to_string());
	cx.out.line("ser const local_version", &ProtocolVersion::local().value().to_string());
	cx.out.line("ser const db_version", &ProtocolVersion::local_db().value().to_string());
	set_env('A', false);
	cx.out.line("ser const max_block_weight_A", &global::max_block_weight().to_string());
	cx.out.line("ser const proofsize_A", &global::proofsize().to_string());
	set_env('M', false);
	cx.out.line("ser const max_block_weight_M", &global::max_block_weight().to_string());
	cx.out.line("ser const proofsize_M", &global::proofsize().to_string());
}

fn prim_line(cx: &mut Ctx, kind: &str, bytes: &[u8]) {
	let mut src = &bytes[..];
	let mut rd = BinReader::new(&mut src, ProtocolVersion(1), DeserializationMode::default());
	let parts: Vec<&str> = kind.split(':').collect();
	let res: Result<String, ser::Error> = match parts[0] {
		"u8" => rd.read_u8().map(|x| x.to_string()),
		"u16" => rd.read_u16().map(|x| x.to_string()),
		"u32" => rd.read_u32().map(|x| x.to_string()),
		"u64" => rd.read_u64().map(|x| x.to_string()),
		"i64" => rd.read_i64().map(|x| x.to_string()),
		"bytes" => rd.read_bytes_len_prefix().map(|x| hex(&x)),
		"fixed" => rd.read_fixed_bytes(parts[1].parse().unwrap()).map(|x| hex(&x)),
		"empty" => rd.read_empty_bytes(parts[1].parse().unwrap()).map(|_| "unit".to_string()),
		"expect" => rd.expect_u8(parts[1].parse().unwrap()).map(|x| x.to_string()),
		_ => unreachable!(),
	};
	let lhs = format!("ser prim {} {}", kind, hex(bytes));
	match res {
		Ok(s) => {
			let consumed = bytes.len() - src.len();
			cx.out.line(&lhs, &format!("ok {} {}", s, consumed));
			cx.stat(format!("prim {} ok", parts[0]));
		}
		Err(e) => {
			cx.out.line(&lhs, &format!("err {}", err_name(&e)));
			cx.stat(format!("prim {} err:{}", parts[0], err_name(&e)));
		}
	}
}

fn prims(cx: &mut Ctx) {
	let n = if cx.thorough { 2000 } else { 300 };
	for i in 0..n {
		let len = match i % 6 {
			0 => cx.rng.below(3) as usize,
			1 => cx.rng.below(9) as usize,
			_ => cx.rng.range(8, 40) as usize,
		};
		let mut b = cx.rng.bytes(len);
		if cx.rng.chance(1, 3) {
			for x in b.iter_mut().take(7) {
				*x = 0;
			}
		}
		for kind in ["u8", "u16", "u32", "u64", "i64", "bytes"].iter() {
			prim_line(cx, kind, &b);
		}
		let k = cx.rng.below(12);
		prim_line(cx, &format!("fixed:{}", k), &b);
		let z = cx.rng.below(6) as usize;
		let mut zb = vec![0u8; z];
		zb.extend_from_slice(&b);
		let ne = cx.rng.below(8);
		prim_line(cx, &format!("empty:{}", ne), &zb);
		let e = if cx.rng.chance(1, 2) && !b.is_empty() { b[0] as u64 } else { cx.rng.below(256) };
		prim_line(cx, &format!("expect:{}", e), &b);
	}
	// the caps
	let mut big = (100_001u64).to_be_bytes().to_vec();
	big.extend_from_slice(&[1, 2, 3]);
	prim_line(cx, "bytes", &big);
	prim_line(cx, "fixed:100001", &[1, 2, 3]);
	prim_line(cx, "fixed:100000", &[1, 2, 3]);
	let mut ok = (3u64).to_be_bytes().to_vec();
	ok.extend_from_slice(&[1, 2, 3, 4]);
	prim_line(cx, "bytes", &ok);
	prim_line(cx, "bytes", &u64::MAX.to_be_bytes());
}

fn kernels(cx: &mut Ctx) {
	let n = if cx.thorough { 400 } else { 60 };
	for i in 0..n {
		let k = gen_kernel(&mut cx.rng, i as u64);
		let is_nrd = k.is_nrd();
		roundtrip_all(cx, 'A', true, &k, true);
		roundtrip_all(cx, 'M', true, &k.features, true);
		if is_nrd {
			// NRD kernels are refused while the feature flag is off
			for v in VERSIONS.iter() {
				let b = enc_at(&k, *v).unwrap();
				dec_case::<TxKernel>(cx, *v, false, 'A', &b, None, Expect::Any, "nrd-disabled");
			}
		}
		for v in VERSIONS.iter() {
			let b = enc_at(&k, *v).unwrap();
			generic_mutations::<TxKernel>(cx, *v, true, 'A', &b, 12, 12);
			// unknown feature tags
			for _ in 0..3 {
				let mut m = b.clone();
				m[0] = cx.rng.range(4, 255) as u8;
				dec_case::<TxKernel>(cx, *v, true, 'A', &m, None, Expect::Reject, "unknown-kernel-tag");
			}
			if *v == 1 {
				// reserved bytes of the fixed-size v1 features must be zero
				let (lo, hi) = match k.features {
					KernelFeatures::Plain { .. } => (9, 17),
					KernelFeatures::Coinbase => (1, 17),
					KernelFeatures::HeightLocked { .. } => (0, 0),
					KernelFeatures::NoRecentDuplicate { .. } => (9, 15),
				};
				for p in lo..hi {
					let mut m = b.clone();
					m[p] = if cx.rng.chance(1, 2) { 1 } else { cx.rng.range(1, 255) as u8 };
					dec_case::<TxKernel>(cx, 1, true, 'A', &m, None, Expect::Reject, "reserved-bytes");
				}
			}
			if is_nrd {
				// relative height outside 1..=WEEK_HEIGHT
				let off = if *v == 1 { 15 } else { 9 };
				for rh in [0u16, 10081, 65535, 20000].iter() {
					let mut m = b.clone();
					m[off..off + 2].copy_from_slice(&rh.to_be_bytes());
					dec_case::<TxKernel>(cx, *v, true, 'A', &m, None, Expect::Reject, "nrd-height-range");
				}
			}
		}
	}
	// NRDRelativeHeight on its own, all interesting u16s
	for rh in [0u16, 1, 2, 10079, 10080, 10081, 32768, 65535].iter() {
		dec_case::<NRDRelativeHeight>(cx, 1, true, 'A', &rh.to_be_bytes(), None, Expect::Any, "range");
	}
}

fn outputs_inputs(cx: &mut Ctx) {
	let n = if cx.thorough { 200 } else { 30 };
	for i in 0..n {
		let o = gen_output(&mut cx.rng, i % 2 == 1);
		roundtrip_all(cx, 'A', false, &o, i < 6);
		roundtrip_all(cx, 'A', false, &o.identifier, true);
		roundtrip_all(cx, 'A', false, &o.proof, i < 6);
		let inp = gen_input(&mut cx.rng, i % 3 == 1);
		roundtrip_all(cx, 'A', false, &inp, true);
		let cw: CommitWrapper = inp.into();
		roundtrip_all(cx, 'A', false, &cw, true);
		roundtrip_all(cx, 'A', false, &inp.features, true);
		let sid = ShortId::from_bytes(&cx.rng.bytes(6));
		roundtrip_all(cx, 'A', false, &sid, true);
		let b = enc_at(&o, 1).unwrap();
		generic_mutations::<Output>(cx, 1, false, 'A', &b, 6, 10);
		let bi = enc_at(&inp, 2).unwrap();
		generic_mutations::<Input>(cx, 2, false, 'A', &bi, 34, 6);
		// unknown output feature tags
		for _ in 0..3 {
			let t = cx.rng.range(2, 255) as u8;
			let mut m = b.clone();
			m[0] = t;
			dec_case::<Output>(cx, 1, false, 'A', &m, None, Expect::Reject, "unknown-output-tag");
			let mut m = bi.clone();
			m[0] = t;
			dec_case::<Input>(cx, 3, false, 'A', &m, None, Expect::Reject, "unknown-output-tag");
			dec_case::<OutputIdentifier>(cx, 3, false, 'A', &m, None, Expect::Reject, "unknown-output-tag");
			dec_case::<OutputFeatures>(cx, 1, false, 'A', &[t], None, Expect::Reject, "unknown-output-tag");
		}
		// range proof length field (the decoder reads min(len, 675) and always yields plen = 675)
		for l in [0u64, 1, 674, 676, 1000, 100_001, u64::MAX].iter() {
			let mut m = b[..34].to_vec();
			m.extend_from_slice(&l.to_be_bytes());
			let take = std::cmp::min(*l, 675) as usize;
			m.extend_from_slice(&b[42..42 + take]);
			dec_case::<Output>(cx, 1, false, 'A', &m, None, Expect::Any, "proof-len-field");
			dec_case::<RangeProof>(cx, 1, false, 'A', &m[34..], None, Expect::Any, "proof-len-field");
		}
	}
	// in-memory range proofs with plen < 675 (never produced by a decoder): encoder side + what comes back
	for (plen, junk) in [(0usize, false), (1, false), (10, true), (674, false), (674, true), (300, true)].iter() {
		let mut o = gen_output(&mut cx.rng, false);
		o.proof = range_proof(&mut cx.rng, *plen, *junk);
		for v in [1u32, 3].iter() {
			if let Ok(b) = enc_case(cx, *v, 'A', &o) {
				if let Some(d) = dec_case::<Output>(cx, *v, false, 'A', &b, None, Expect::Any, "short-plen") {
					if !output_same(&o, &d) {
						cx.out.raw(&format!(
							"#KNOWN-PROBE C10 rangeproof-short-plen: Output with plen={} junk_after={} does not decode to an equal value / re-encode identically (decoded plen={})",
							plen, junk, d.proof.plen
						));
					}
				}
			}
		}
	}
}

/// body-like encodings assembled from parts so entries can be swapped / duplicated / miscounted
struct Parts {
	prefix: Vec<u8>,
	counts: [u64; 3],
	secs: [Vec<Vec<u8>>; 3],
}

impl Parts {
	fn bytes(&self) -> Vec<u8> {
		let mut b = self.prefix.clone();
		for c in self.counts.iter() {
			b.extend_from_slice(&c.to_be_bytes());
		}
		for s in self.secs.iter() {
			for e in s {
				b.extend_from_slice(e);
			}
		}
		b
	}
}

fn body_parts(b: &TransactionBody, v: u32, prefix: Vec<u8>) -> Parts {
	let ins: Vec<Vec<u8>> = if v >= 3 {
		let cw: Vec<CommitWrapper> = (&b.inputs).into();
		cw.iter().map(|c| enc_at(c, v).unwrap()).collect()
	} else {
		match &b.inputs {
			Inputs::FeaturesAndCommit(l) => l.iter().map(|c| enc_at(c, v).unwrap()).collect(),
			Inputs::CommitOnly(_) => vec![],
		}
	};
	Parts {
		prefix,
		counts: [ins.len() as u64, b.outputs.len() as u64, b.kernels.len() as u64],
		secs: [
			ins,
			b.outputs.iter().map(|o| enc_at(o, v).unwrap()).collect(),
			b.kernels.iter().map(|k| enc_at(k, v).unwrap()).collect(),
		],
	}
}

/// structural perturbations touching the canonical-form rules of a body-like encoding
fn parts_mutations<T: Ty>(cx: &mut Ctx, v: u32, nrd: bool, chain: char, p: &Parts, body_weight_check: bool) {
	let valid = p.bytes();
	for s in 0..3 {
		let n = p.secs[s].len();
		if n >= 2 {
			// swap two neighbours -> unsorted
			let i = cx.rng.below(n as u64 - 1) as usize;
			let mut q = Parts { prefix: p.prefix.clone(), counts: p.counts, secs: p.secs.clone() };
			q.secs[s].swap(i, i + 1);
			if q.bytes() != valid {
				dec_case::<T>(cx, v, nrd, chain, &q.bytes(), None, Expect::Reject, "unsorted");
			}
			// swap first and last
			let mut q = Parts { prefix: p.prefix.clone(), counts: p.counts, secs: p.secs.clone() };
			q.secs[s].swap(0, n - 1);
			if q.bytes() != valid {
				dec_case::<T>(cx, v, nrd, chain, &q.bytes(), None, Expect::Reject, "unsorted");
			}
		}
		if n >= 1 {
			// duplicate an entry (count adjusted)
			let i = cx.rng.below(n as u64) as usize;
			let mut q = Parts { prefix: p.prefix.clone(), counts: p.counts, secs: p.secs.clone() };
			let e = q.secs[s][i].clone();
			q.secs[s].insert(i, e);
			q.counts[s] += 1;
			dec_case::<T>(cx, v, nrd, chain, &q.bytes(), None, Expect::Reject, "duplicate");
			// overwrite the neighbour with a copy (count unchanged)
			if n >= 2 {
				let mut q = Parts { prefix: p.prefix.clone(), counts: p.counts, secs: p.secs.clone() };
				let j = if i + 1 < n { i + 1 } else { i - 1 };
				q.secs[s][j] = q.secs[s][i].clone();
				dec_case::<T>(cx, v, nrd, chain, &q.bytes(), None, Expect::Reject, "duplicate");
			}
		}
		// count fields +-1 and extreme
		for delta in [1i64, -1].iter() {
			let c = p.counts[s] as i64 + delta;
			if c >= 0 {
				let mut q = Parts { prefix: p.prefix.clone(), counts: p.counts, secs: p.secs.clone() };
				q.counts[s] = c as u64;
				dec_case::<T>(cx, v, nrd, chain, &q.bytes(), None, Expect::Any, "count+-1");
			}
		}
		let extremes: &[u64] = if body_weight_check {
			&[250, 251, 40_000, 40_001, 1_000_001, u64::MAX, u64::MAX / 21 + 1]
		} else {
			&[1_000_000, 1_000_001, u64::MAX]
		};
		for big in extremes.iter() {
			let mut q = Parts { prefix: p.prefix.clone(), counts: p.counts, secs: p.secs.clone() };
			q.counts[s] = *big;
			dec_case::<T>(cx, v, nrd, chain, &q.bytes(), None, Expect::Reject, "count-over-content");
		}
	}
}

fn bodies(cx: &mut Ctx) {
	let n = if cx.thorough { 120 } else { 24 };
	for i in 0..n {
		// AutomatedTesting: max block weight 250 (tx 226); sizes from empty to the limit
		let chain = if i % 6 == 5 { 'M' } else { 'A' };
		let (ni, no, nk) = match i % 8 {
			0 => (0, 0, 0),
			1 => (1, 1, 1),
			2 => (0, 1, 1),
			3 => (3, 2, 2),
			4 => (cx.rng.below(8) as usize, cx.rng.below(5) as usize, cx.rng.below(6) as usize),
			5 => (20, 8, 12),          // weight 224
			6 => (40, 5, 15),          // weight 190
			_ => (2, cx.rng.below(9) as usize, 1 + cx.rng.below(4) as usize),
		};
		let commit_only = i % 3 == 2;
		let body = gen_body(&mut cx.rng, ni, no, nk, commit_only, false, true);
		let tot = ni + no + nk;
		cx.stat(format!(
			"body entries {} inputs-variant {}",
			match tot {
				0 => "0",
				1..=3 => "1-3",
				4..=20 => "4-20",
				21..=100 => "21-100",
				_ => ">100",
			},
			if commit_only { "CommitOnly" } else { "FeaturesAndCommit" }
		));
		let with_enc = no <= 3;
		roundtrip_all(cx, chain, true, &body, with_enc);
		let blk = Block {
			header: gen_header(&mut cx.rng, chain),
			body: body.clone(),
		};
		roundtrip_all(cx, chain, true, &blk, with_enc && i % 2 == 0);
		// transaction: no coinbase, within tx weight, distinct commitments
		let (ti, to, tk) = if i % 8 == 5 { (16, 8, 14) } else { (ni.min(30), no, nk.max(1)) };
		let tbody = gen_body(&mut cx.rng, ti, to, tk, commit_only, true, true);
		let tx = Transaction {
			offset: BlindingFactor::from_slice(&cx.rng.bytes(32)),
			body: tbody,
		};
		roundtrip_all(cx, chain, true, &tx, with_enc);

		for v in [1u32, 2, 3].iter() {
			if commit_only && *v < 3 {
				continue;
			}
			set_env(chain, true);
			let p = body_parts(&body, *v, vec![]);
			parts_mutations::<TransactionBody>(cx, *v, true, chain, &p, true);
			let hb = enc_at(&blk.header, *v).unwrap();
			let pb = body_parts(&body, *v, hb);
			parts_mutations::<Block>(cx, *v, true, chain, &pb, true);
			let pt = body_parts(&tx.body, *v, tx.offset.as_ref().to_vec());
			parts_mutations::<Transaction>(cx, *v, true, chain, &pt, true);
			let bb = p.bytes();
			generic_mutations::<TransactionBody>(cx, *v, true, chain, &bb, 8, 12);
			let tb = pt.bytes();
			generic_mutations::<Transaction>(cx, *v, true, chain, &tb, 6, 10);
		}
		// transaction-only read-time rules (`validate_read`): coinbase features, cut-through,
		// duplicate NRD excess, tx weight
		if i % 4 == 1 {
			let mut t2 = tx.clone();
			let mut o = gen_output(&mut cx.rng, true);
			o.identifier.features = OutputFeatures::Coinbase;
			t2.body.outputs.push(o);
			t2.body.outputs.sort_unstable();
			for v in [2u32, 3].iter() {
				if let Ok(b) = enc_at(&t2, *v) {
					dec_case::<Transaction>(cx, *v, true, chain, &b, None, Expect::Any, "tx-coinbase-output");
				}
			}
			let mut t3 = tx.clone();
			t3.body.kernels.push(gen_kernel(&mut cx.rng, 1));
			t3.body.kernels.sort_unstable();
			for v in [1u32, 3].iter() {
				if let Ok(b) = enc_at(&t3, *v) {
					dec_case::<Transaction>(cx, *v, true, chain, &b, None, Expect::Any, "tx-coinbase-kernel");
				}
			}
			// cut-through: an input spending an output of the same tx
			if !tx.body.outputs.is_empty() {
				let mut t4 = tx.clone();
				let c = t4.body.outputs[0].identifier.commit;
				let mut ins: Vec<Input> = match &t4.body.inputs {
					Inputs::FeaturesAndCommit(l) => l.clone(),
					Inputs::CommitOnly(l) => l.iter().map(|c| Input::new(OutputFeatures::Plain, c.commitment())).collect(),
				};
				ins.push(Input::new(OutputFeatures::Plain, c));
				ins.sort_unstable();
				t4.body.inputs = Inputs::FeaturesAndCommit(ins);
				for v in [2u32, 3].iter() {
					if let Ok(b) = enc_at(&t4, *v) {
						dec_case::<Transaction>(cx, *v, true, chain, &b, None, Expect::Any, "tx-cut-through");
					}
				}
			}
			// two NRD kernels with the same excess
			let mut t5 = tx.clone();
			let k1 = gen_kernel(&mut cx.rng, 3);
			let mut k2 = gen_kernel(&mut cx.rng, 3);
			k2.excess = k1.excess;
			t5.body.kernels.push(k1);
			t5.body.kernels.push(k2);
			t5.body.kernels.sort_unstable();
			for v in [1u32, 2].iter() {
				if let Ok(b) = enc_at(&t5, *v) {
					dec_case::<Transaction>(cx, *v, true, chain, &b, None, Expect::Any, "tx-nrd-duplicate");
					dec_case::<Transaction>(cx, *v, false, chain, &b, None, Expect::Any, "tx-nrd-disabled");
				}
			}
		}
	}
	// `Inputs::default()` is `CommitOnly([])`; v1/v2 read an empty list back as `FeaturesAndCommit([])`,
	// which the derived `PartialEq` of `TransactionBody` does not consider equal (no commitments differ)
	{
		set_env('A', false);
		let empty = TransactionBody::empty();
		for v in [1u32, 2, 3].iter() {
			let b = enc_at(&empty, *v).unwrap();
			let d: TransactionBody =
				ser::deserialize(&mut &b[..], ProtocolVersion(*v), DeserializationMode::default()).unwrap();
			if d != empty {
				cx.out.raw(&format!(
					"#KNOWN-PROBE C10 empty-inputs-variant: TransactionBody::empty() (Inputs::CommitOnly([])) written and read at v{} comes back as Inputs::{} and `==` is false (same, empty, commitment set)",
					v,
					d.inputs.version_str()
				));
				cx.stat(format!("TransactionBody v{} probe:empty-inputs-variant", v));
			}
		}
	}
	// weight boundary (AutomatedTesting 250): block body at 250 / 251, tx at 226 / 227
	for (ni, no, nk, what) in [(19usize, 10usize, 7usize, "w250"), (20, 10, 7, "w251"), (16, 10, 0, "w226"), (17, 10, 0, "w227")].iter() {
		let body = gen_body(&mut cx.rng, *ni, *no, *nk, false, true, true);
		for v in [1u32, 3].iter() {
			let b = enc_at(&body, *v).unwrap();
			dec_case::<TransactionBody>(cx, *v, true, 'A', &b, None, Expect::Any, what);
			let tx = Transaction {
				offset: BlindingFactor::from_slice(&[7u8; 32]),
				body: body.clone(),
			};
			let tb = enc_at(&tx, *v).unwrap();
			dec_case::<Transaction>(cx, *v, true, 'A', &tb, None, Expect::Any, what);
		}
	}
	// a few big mainnet bodies
	let nbig = if cx.thorough { 4 } else { 1 };
	for _ in 0..nbig {
		let body = gen_body(&mut cx.rng, 300, 60, 80, false, false, true);
		roundtrip_all(cx, 'M', true, &body, false);
	}
}

fn proofs_headers(cx: &mut Ctx) {
	for chain in ['A', 'M'].iter() {
		let ps = proofsize_of(*chain);
		let reps = if cx.thorough { 6 } else { 2 };
		for eb in 1u8..=63 {
			for _ in 0..reps {
				let p = gen_proof(&mut cx.rng, eb, ps);
				set_env(*chain, false);
				let plen = (eb as usize * ps + 7) / 8;
				// the writer itself works for every width; the reader refuses pack_len < 8
				let e = enc_case(cx, 1, *chain, &p);
				if let Ok(b) = e {
					let exp = if plen >= 8 { Expect::Valid } else { Expect::Reject };
					dec_case::<Proof>(cx, 1, false, *chain, &b, Some(&p), exp, if plen >= 8 { "valid" } else { "pack-len<8" });
					if plen >= 8 {
						dec_case::<Proof>(cx, 3, false, *chain, &b, Some(&p), Expect::Valid, "valid");
						// padding bits above proofsize*edge_bits must be zero
						let used = eb as usize * ps;
						for bit in used..plen * 8 {
							let mut m = b.clone();
							m[1 + bit / 8] |= 1 << (bit % 8);
							dec_case::<Proof>(cx, 1, false, *chain, &m, None, Expect::Reject, "padding-bits");
						}
						generic_mutations::<Proof>(cx, 1, false, *chain, &b, 3, 3);
					}
				}
			}
		}
		// edge_bits 0 and 64..=255
		set_env(*chain, false);
		let good = enc_at(&gen_proof(&mut cx.rng, 31, ps), 1).unwrap();
		for eb in (0u16..1).chain(64..=255) {
			let mut m = good.clone();
			m[0] = eb as u8;
			// give it enough bytes whatever it would want to read
			m.extend_from_slice(&vec![0u8; 2000]);
			dec_case::<Proof>(cx, 1, false, *chain, &m, None, Expect::Reject, "edge-bits-range");
		}
		let n = if cx.thorough { 300 } else { 50 };
		for i in 0..n {
			set_env(*chain, false);
			let h = gen_header(&mut cx.rng, *chain);
			roundtrip_all(cx, *chain, false, &h, true);
			roundtrip_all(cx, *chain, false, &h.pow, i < 10);
			let b = enc_at(&h, 1).unwrap();
			generic_mutations::<BlockHeader>(cx, 1, false, *chain, &b, 10, 16);
			// timestamp out of chrono's date range
			for ts in [TS_MAX + 1, TS_MIN - 1, i64::MAX, i64::MIN, TS_MAX + 86400, TS_MAX, TS_MIN].iter() {
				let mut m = b.clone();
				m[10..18].copy_from_slice(&ts.to_be_bytes());
				let exp = if *ts > TS_MAX || *ts < TS_MIN { Expect::Reject } else { Expect::Any };
				dec_case::<BlockHeader>(cx, 2, false, *chain, &m, None, exp, "timestamp-range");
			}
			let tip = Tip {
				height: pick_u64(&mut cx.rng),
				last_block_h: h.hash(),
				prev_block_h: h.prev_hash,
				total_difficulty: h.pow.total_difficulty,
			};
			roundtrip_all(cx, *chain, false, &tip, true);
			if i < 10 {
				let tb = enc_at(&tip, 1).unwrap();
				generic_mutations::<Tip>(cx, 1, false, *chain, &tb, 80, 4);
			}
		}
	}
}

fn compact_blocks(cx: &mut Ctx) {
	let n = if cx.thorough { 60 } else { 14 };
	for i in 0..n {
		let chain = if i % 5 == 4 { 'M' } else { 'A' };
		set_env(chain, true);
		let h = gen_header(&mut cx.rng, chain);
		let (no, nk, nid) = match i % 5 {
			0 => (0usize, 0usize, 0usize),
			1 => (1, 1, 0),
			2 => (1, 1, 5),
			3 => (2, 3, cx.rng.below(40) as usize),
			_ => (cx.rng.below(3) as usize, cx.rng.below(4) as usize, cx.rng.below(200) as usize),
		};
		let mut outs: Vec<Output> = (0..no).map(|_| gen_output(&mut cx.rng, true)).collect();
		let mut kers: Vec<TxKernel> = (0..nk).map(|j| gen_kernel(&mut cx.rng, if j % 2 == 0 { 1 } else { j as u64 })).collect();
		let mut ids: Vec<ShortId> = (0..nid).map(|_| ShortId::from_bytes(&cx.rng.bytes(6))).collect();
		outs.sort_unstable();
		kers.sort_unstable();
		ids.sort_unstable();
		ids.dedup();
		let nonce = pick_u64(&mut cx.rng);
		for v in [1u32, 2, 1000].iter() {
			set_env(chain, true);
			// `CompactBlock.body` is private: build the encoding from its parts and read it
			let mut prefix = enc_at(&h, *v).unwrap();
			prefix.extend_from_slice(&nonce.to_be_bytes());
			let p = Parts {
				prefix,
				counts: [outs.len() as u64, kers.len() as u64, ids.len() as u64],
				secs: [
					outs.iter().map(|o| enc_at(o, *v).unwrap()).collect(),
					kers.iter().map(|k| enc_at(k, *v).unwrap()).collect(),
					ids.iter().map(|k| enc_at(k, *v).unwrap()).collect(),
				],
			};
			let bytes = p.bytes();
			if let Some(cb) = dec_case::<CompactBlock>(cx, *v, true, chain, &bytes, None, Expect::Any, "valid") {
				// now we own a value: full round trip + hash = header hash under every version
				if cb.hash() != h.hash() {
					cx.out.raw(&format!("#ORACLE-FAIL C10 CompactBlock v{}: hash is not the header hash: {}", v, hex(&bytes)));
				}
				if *v == 1 {
					roundtrip_all(cx, chain, true, &cb, no <= 1 && nid <= 5);
				}
			} else {
				cx.out.raw(&format!("#ORACLE-FAIL C10 CompactBlock v{}: a sorted duplicate-free compact block is refused: {}", v, hex(&bytes)));
			}
			parts_mutations::<CompactBlock>(cx, *v, true, chain, &p, false);
			generic_mutations::<CompactBlock>(cx, *v, true, chain, &bytes, 6, 10);
		}
	}
}

fn main() {
	quiet_panics();
	let args: Vec<String> = std::env::args().collect();
	let section = args.get(1).map(|s| s.as_str()).unwrap_or("all").to_string();
	let mut cx = Ctx {
		out: Out::stdout(),
		rng: Rng::new(seed_from_env() ^ 0x5e7),
		stats: BTreeMap::new(),
		thorough: tier_thorough(),
	};
	if section == "all" || section == "prim" {
		consts(&mut cx);
		prims(&mut cx);
	}
	if section == "all" || section == "tx" {
		kernels(&mut cx);
		outputs_inputs(&mut cx);
		bodies(&mut cx);
	}
	if section == "all" || section == "block" {
		proofs_headers(&mut cx);
		compact_blocks(&mut cx);
	}
	let stats = std::mem::take(&mut cx.stats);
	// per type x version x kind x outcome
	for (k, v) in stats.iter() {
		cx.out.raw(&format!("#STAT {} = {}", k, v));
	}
	cx.out.raw(&format!("#STAT lines = {}", cx.out.lines));
	cx.out.flush();
}
