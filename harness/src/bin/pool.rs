//! Pool correspondence (C14): a real `TransactionPool` over a real `Chain`, driven through
//! scripted scenarios and random interleavings of submissions (valid, conflicting, dependent,
//! duplicate, aggregated, low-fee, over-weight, invalid, immature, height-locked; stem and
//! fluff), blocks mined from subsets of the pool or containing conflicting spends, reorgs and
//! evictions at a tiny `max_pool_size`.  After every op the pool content is printed for the Lean
//! model and the property oracle is evaluated on the implementation here in Rust:
//! aggregate(txpool) validates against the head, aggregate(stempool + txpool) likewise, and the
//! block assembled from `prepare_mineable_transactions` the way `mine_block.rs` does it is
//! accepted by a chain (the builder chain serves as the scratch copy).
//!
//! Evictions at capacity: scripted histories fill the pool beyond `max_pool_size`, trigger the
//! eviction of a transaction E and then submit children of E (before and after the next block,
//! fluff and stem, both input forms); random histories do the same whenever something was evicted.
//! Every input of every entry is looked up (`Chain::get_unspent` / outputs of the other entries)
//! after every step, and before every submission the inputs that exist nowhere are computed:
//! admitting such a transaction is an oracle failure.  The recorded finding
//! C14-evict-breaks-joint-validity is recognised precisely: the spender entered the pool no later
//! than the eviction of the creator.
//!
//! Submission forms: every transaction can be submitted with `Inputs::CommitOnly` or
//! `Inputs::FeaturesAndCommit` inputs (right features, wrong features, wrong order).
//!
//! Scenarios and histories are independent and run on worker threads (`VERIF_THREADS`, default 8);
//! output is collected per job and printed in a fixed order, so a run is reproducible from
//! `VERIF_SEED`.
use grin_chain::types::{BlockStatus, ChainAdapter as ChainEvents, Options};
use grin_chain::Chain;
use grin_core::core::hash::{Hash, Hashed};
use grin_core::core::transaction::{self, FeeFields, NRDRelativeHeight};
use grin_core::core::{
	Block, BlockHeader, BlockSums, CommitWrapper, Input, Inputs, KernelFeatures, OutputFeatures,
	OutputIdentifier, Transaction, TxKernel, Weighting,
};
use grin_core::global;
use grin_core::pow;
use grin_keychain::{Identifier, Keychain, SwitchCommitmentType};
use grin_pool::types::{BlockChain, PoolAdapter, PoolConfig, PoolEntry, PoolError, TxSource};
use grin_pool::TransactionPool;
use gvharness::chainkit::*;
use gvharness::*;
use std::collections::{BTreeMap, BTreeSet, HashMap};
use std::sync::atomic::{AtomicBool, Ordering};
use std::sync::{Arc, Mutex};

/// Output sink collecting the lines of one scenario / history in memory (they run on worker
/// threads; the collected text is printed in a fixed order).  Shadows `gvharness::Out`.
struct Out {
	buf: String,
}
impl Out {
	fn new() -> Out {
		Out { buf: String::new() }
	}
	fn line(&mut self, lhs: &str, rhs: &str) {
		self.buf.push_str(lhs);
		self.buf.push_str(" => ");
		self.buf.push_str(rhs);
		self.buf.push('\n');
	}
	fn raw(&mut self, s: &str) {
		self.buf.push_str(s);
		self.buf.push('\n');
	}
}

const MATURITY: u64 = 3;
/// the steered tree patterns are spread over this many jobs
const TREE_PARTS: usize = 4;
const FEE_BASE: u64 = 2;

// ------------------------------------------------------------------------------------------
// adapters (as pool/tests/common.rs and servers/src/common/adapters.rs wire them)

#[derive(Clone)]
struct ChainAdapter {
	chain: Arc<Chain>,
}

impl BlockChain for ChainAdapter {
	fn chain_head(&self) -> Result<BlockHeader, PoolError> {
		self.chain
			.head_header()
			.map_err(|_| PoolError::Other("failed to get chain head".into()))
	}
	fn get_block_header(&self, hash: &Hash) -> Result<BlockHeader, PoolError> {
		self.chain
			.get_block_header(hash)
			.map_err(|_| PoolError::Other("failed to get block header".into()))
	}
	fn get_block_sums(&self, hash: &Hash) -> Result<BlockSums, PoolError> {
		self.chain
			.get_block_sums(hash)
			.map_err(|_| PoolError::Other("failed to get block sums".into()))
	}
	fn validate_tx(&self, tx: &Transaction) -> Result<(), PoolError> {
		self.chain.validate_tx(tx).map_err(|e| match e {
			grin_chain::Error::Transaction { source: txe } => txe.into(),
			grin_chain::Error::NRDRelativeHeight => PoolError::NRDKernelRelativeHeight,
			_ => PoolError::Other("failed to validate tx".into()),
		})
	}
	fn validate_inputs(&self, inputs: &Inputs) -> Result<Vec<OutputIdentifier>, PoolError> {
		self.chain
			.validate_inputs(inputs)
			.map(|outputs| outputs.into_iter().map(|(out, _)| out).collect::<Vec<_>>())
			.map_err(|_| PoolError::Other("failed to validate inputs".into()))
	}
	fn verify_coinbase_maturity(&self, inputs: &Inputs) -> Result<(), PoolError> {
		self.chain
			.verify_coinbase_maturity(inputs)
			.map_err(|_| PoolError::ImmatureCoinbase)
	}
	fn verify_tx_lock_height(&self, tx: &Transaction) -> Result<(), PoolError> {
		self.chain
			.verify_tx_lock_height(tx)
			.map_err(|_| PoolError::ImmatureTransaction)
	}
}

/// Dandelion relay: accepts the stem tx unless told otherwise (then the pool falls back to fluff)
struct PAdapter {
	stem_ok: Arc<AtomicBool>,
}
impl PoolAdapter for PAdapter {
	fn tx_accepted(&self, _entry: &PoolEntry) {}
	fn stem_tx_accepted(&self, _entry: &PoolEntry) -> Result<(), PoolError> {
		if self.stem_ok.load(Ordering::SeqCst) {
			Ok(())
		} else {
			Err(PoolError::DandelionError)
		}
	}
}

/// records the status of the last accepted block (the server reconciles the pool on Next / Reorg)
struct Events {
	last: Arc<Mutex<Option<BlockStatus>>>,
}
impl ChainEvents for Events {
	fn block_accepted(&self, _b: &Block, status: BlockStatus, _opts: Options) {
		*self.last.lock().unwrap() = Some(status);
	}
}

fn perr(e: &PoolError) -> String {
	let alnum = |s: String| -> String { s.chars().take_while(|c| c.is_alphanumeric()).collect() };
	match e {
		PoolError::InvalidTx(t) => format!("InvalidTx:{}", alnum(format!("{:?}", t))),
		PoolError::InvalidBlock(_) => "InvalidBlock".into(),
		PoolError::Keychain(_) => "Keychain".into(),
		PoolError::Committed(c) => format!("Committed:{}", alnum(format!("{:?}", c))),
		PoolError::LowFeeTransaction(_) => "LowFee".into(),
		PoolError::Other(_) => "Other".into(),
		e => alnum(format!("{:?}", e)),
	}
}

fn src_letter(s: TxSource) -> &'static str {
	match s {
		TxSource::PushApi => "P",
		TxSource::Broadcast => "B",
		TxSource::Fluff => "F",
		TxSource::EmbargoExpired => "E",
		TxSource::Deaggregate => "D",
	}
}

// ------------------------------------------------------------------------------------------

#[derive(Clone)]
struct TxRec {
	tx: Transaction,
	tags: Vec<String>,
	kind: String,
}

/// the form in which the inputs of a submitted transaction travel
#[derive(Clone, Copy, PartialEq, Debug)]
enum Form {
	/// `Inputs::CommitOnly` (what `build::transaction` and `aggregate` produce)
	V3,
	/// `Inputs::FeaturesAndCommit` with the features of the outputs spent, in `Input` order
	/// (wallets pushing through the API, v2 peers)
	V2,
	/// the same with every claimed feature wrong (`convert_tx_v2` overwrites the claims)
	V2WrongFeatures,
	/// `Inputs::FeaturesAndCommit` left in commitment order where the `Input` order differs
	V2Unsorted,
}

impl Form {
	fn tag(self) -> &'static str {
		match self {
			Form::V3 => "v3",
			Form::V2 => "v2",
			Form::V2WrongFeatures => "v2x",
			Form::V2Unsorted => "v2u",
		}
	}
}

/// branch of the loop of `bucket_transactions` taken by an entry (reference walk)
#[derive(Clone, Copy, PartialEq, Debug)]
enum BKind {
	Fresh,
	Merged,
	Own,
	Rejected,
}

#[derive(Clone, Default)]
struct AState {
	utxo: BTreeMap<usize, (u64, bool)>,
	/// NRD kernel excesses (first 8 bytes, hex) on the path to this block, most recent first
	nrd: Vec<(String, u64)>,
}

struct Cfg {
	max_pool: usize,
	max_stem: usize,
	mine_w: u64,
}

struct World {
	kit: Kit,
	node: Arc<Chain>,
	last_status: Arc<Mutex<Option<BlockStatus>>>,
	stem_ok: Arc<AtomicBool>,
	pool: TransactionPool<ChainAdapter, PAdapter>,
	cfg: Cfg,
	head: usize,
	states: BTreeMap<usize, AState>,
	txs: Vec<TxRec>,
	kers: HashMap<Hash, usize>,
	outs_described: usize,
	/// outputs created by transactions that were evicted (attribution of the known eviction defect)
	evicted_outs: BTreeSet<usize>,
	/// inputs of evicted transactions (a remaining tx may re-create such a commitment)
	evicted_ins: BTreeSet<usize>,
	/// operation counter (submissions, blocks, evictions, truncations)
	step: u64,
	/// output created by an evicted transaction -> step of the (latest) eviction of its creator
	evicted_at: BTreeMap<usize, u64>,
	/// structural identity of a pool entry (txpool or stempool) -> step at which it entered
	admitted_at: HashMap<String, u64>,
	/// output created by an evicted transaction -> was that eviction in order (the victim a leaf of
	/// the txpool's dependency forest, or one of the non-leaf cases of the recorded finding)?
	evicted_explained: BTreeMap<usize, bool>,
	/// form used by `submit` (random histories pick one per submission)
	default_form: Form,
	/// eviction-focused history: mostly admissible submissions, few blocks
	focus: bool,
	/// blocks whose HEADER the node has accepted but whose body it has not seen yet (oldest first)
	pending_bodies: Vec<usize>,
	/// transactions first admitted below the minimum fee while the txpool was over capacity
	lowfee_known: BTreeSet<String>,
	over_capacity_before: bool,
	/// entries whose standalone validation was already evaluated (by tx hash)
	validated: std::collections::HashSet<Hash>,
	/// head height went down in a reorg since the pool was last empty (attribution)
	height_decreased: bool,
	last_probe: String,
	stats: BTreeMap<String, u64>,
	name: String,
}

fn ids(v: &[usize], p: &str) -> String {
	let mut v = v.to_vec();
	v.sort();
	v.iter().map(|i| format!("{}{}", p, i)).collect::<Vec<_>>().join(",")
}

impl World {
	fn new(work: &str, name: &str, cfg: Cfg) -> World {
		let kit = Kit::new(&format!("{}/builder_{}", work, name));
		global::set_local_accept_fee_base(FEE_BASE);
		let dir = format!("{}/node_{}", work, name);
		let _ = std::fs::remove_dir_all(&dir);
		let last_status = Arc::new(Mutex::new(None));
		let node = Arc::new(
			Chain::init(
				dir,
				Arc::new(Events { last: last_status.clone() }),
				kit.genesis.clone(),
				pow::verify_size,
				false,
				None,
			)
			.unwrap(),
		);
		let stem_ok = Arc::new(AtomicBool::new(true));
		let pool = TransactionPool::new(
			PoolConfig {
				accept_fee_base: FEE_BASE,
				reorg_cache_period: 30,
				max_pool_size: cfg.max_pool,
				max_stempool_size: cfg.max_stem,
				mineable_max_weight: cfg.mine_w,
			},
			Arc::new(ChainAdapter { chain: node.clone() }),
			Arc::new(PAdapter { stem_ok: stem_ok.clone() }),
		);
		let mut states = BTreeMap::new();
		let mut s0 = AState::default();
		s0.utxo.insert(0, (0, true));
		states.insert(0, s0);
		World {
			kit,
			node,
			last_status,
			stem_ok,
			pool,
			cfg,
			head: 0,
			states,
			txs: vec![],
			kers: HashMap::new(),
			outs_described: 0,
			evicted_outs: BTreeSet::new(),
			evicted_ins: BTreeSet::new(),
			step: 0,
			evicted_at: BTreeMap::new(),
			admitted_at: HashMap::new(),
			evicted_explained: BTreeMap::new(),
			default_form: Form::V3,
			focus: false,
			pending_bodies: vec![],
			lowfee_known: BTreeSet::new(),
			over_capacity_before: false,
			validated: std::collections::HashSet::new(),
			height_decreased: false,
			last_probe: String::new(),
			stats: BTreeMap::new(),
			name: name.to_string(),
		}
	}

	fn stat(&mut self, k: &str) {
		*self.stats.entry(k.to_string()).or_insert(0) += 1;
	}
	fn stat_max(&mut self, k: &str, v: u64) {
		let e = self.stats.entry(k.to_string()).or_insert(0);
		if v > *e {
			*e = v;
		}
	}

	fn next_height(&self) -> u64 {
		self.kit.blks[self.head].height + 1
	}

	fn oid(&self, c: &grin_util::secp::pedersen::Commitment) -> Option<usize> {
		self.kit.by_commit.get(c).cloned()
	}

	fn kid(&mut self, k: &TxKernel) -> usize {
		let h = k.hash();
		let n = self.kers.len();
		*self.kers.entry(h).or_insert(n)
	}

	fn ker_desc(&mut self, k: &TxKernel) -> String {
		let id = self.kid(k);
		match k.features {
			KernelFeatures::Coinbase => format!("k{}:cb", id),
			KernelFeatures::Plain { fee } => format!("k{}:p:{}:{}", id, fee.fee(), fee.fee_shift()),
			KernelFeatures::HeightLocked { fee, lock_height } => {
				format!("k{}:hl:{}:{}:{}", id, fee.fee(), fee.fee_shift(), lock_height)
			}
			KernelFeatures::NoRecentDuplicate { fee, relative_height } => format!(
				"k{}:nrd:{}:{}:{}:{}",
				id,
				fee.fee(),
				fee.fee_shift(),
				u64::from(relative_height),
				hex(&k.excess.0[..8])
			),
		}
	}

	fn tx_ins(&self, tx: &Transaction) -> Vec<usize> {
		let v: Vec<CommitWrapper> = tx.inputs().into();
		v.iter().map(|i| self.oid(&i.commitment()).unwrap_or(999_999)).collect()
	}
	fn tx_outs(&self, tx: &Transaction) -> Vec<usize> {
		tx.outputs().iter().map(|o| self.oid(&o.commitment()).unwrap_or(999_999)).collect()
	}

	/// structural identity of a transaction: kernels / inputs / outputs (ids sorted)
	fn tx_sig(&mut self, tx: &Transaction) -> String {
		let ks: Vec<usize> = tx.kernels().iter().map(|k| self.kid(k)).collect();
		format!("{}/{}/{}", ids(&ks, "k").replace(',', "."), ids(&self.tx_ins(tx), "o").replace(',', "."), ids(&self.tx_outs(tx), "o").replace(',', "."))
	}

	fn entry_sig(&mut self, e: &PoolEntry) -> String {
		format!("{}:{}", self.tx_sig(&e.tx), src_letter(e.src))
	}

	fn describe_outs(&mut self, out: &mut Out) {
		for o in &self.kit.outs[self.outs_described..] {
			out.raw(&format!("pool out o{} cb={} v={}", o.id, if o.coinbase { 1 } else { 0 }, o.value));
		}
		self.outs_described = self.kit.outs.len();
	}

	/// register a transaction (prints its abstract description); returns its id
	fn add_tx(&mut self, out: &mut Out, tx: Transaction, tags: Vec<String>, kind: &str) -> usize {
		self.describe_outs(out);
		let id = self.txs.len();
		let mut ins = self.tx_ins(&tx);
		ins.sort();
		let mut outs = self.tx_outs(&tx);
		outs.sort();
		let mut kd: Vec<(usize, String)> = tx.kernels().iter().map(|k| (self.kid(k), self.ker_desc(k))).collect();
		kd.sort();
		out.raw(&format!(
			"pool tx t{} ins=[{}] outs=[{}] kers=[{}] tags=[{}]",
			id,
			ids(&ins, "o"),
			ids(&outs, "o"),
			kd.iter().map(|x| x.1.clone()).collect::<Vec<_>>().join(","),
			tags.join(",")
		));
		self.txs.push(TxRec { tx, tags, kind: kind.to_string() });
		self.stat(&format!("txkind:{}", kind));
		id
	}

	/// like `Kit::build_tx` but with arbitrary kernel features; registers the new outputs
	fn build(&mut self, inputs: &[usize], outvals: &[u64], features: KernelFeatures) -> Result<Transaction, String> {
		let ins: Vec<(u64, Identifier, bool)> = inputs
			.iter()
			.map(|i| {
				let o = &self.kit.outs[*i];
				(o.value, o.key_id.clone(), o.coinbase)
			})
			.collect();
		let mut new_outs = vec![];
		for v in outvals {
			new_outs.push((*v, self.kit.fresh_key()));
		}
		let tx = make_tx(&self.kit.kc, &ins, &new_outs, features)?;
		for (v, key) in new_outs {
			let commit = self
				.kit
				.kc
				.commit(v, &key, SwitchCommitmentType::Regular)
				.map_err(|e| format!("{:?}", e))?;
			if !self.kit.by_commit.contains_key(&commit) {
				let id = self.kit.outs.len();
				self.kit.outs.push(OutRec { id, commit, value: v, key_id: key, coinbase: false });
				self.kit.by_commit.insert(commit, id);
			}
		}
		Ok(tx)
	}

	fn node_utxo(&self) -> Vec<(usize, u64, bool)> {
		let mut v = vec![];
		for o in &self.kit.outs {
			if let Ok(Some((oi, pos))) = self.node.get_unspent(o.commit) {
				v.push((o.id, pos.height, oi.features.is_coinbase()));
			}
		}
		v
	}

	fn print_head(&mut self, out: &mut Out) {
		self.describe_outs(out);
		let hh = self.node.head_header().unwrap();
		let id = *self.kit.by_hash.get(&hh.hash()).expect("node head known to the kit");
		self.head = id;
		let u: Vec<String> = self
			.node_utxo()
			.iter()
			.map(|(o, h, cb)| format!("o{}:{}:{}", o, h, if *cb { 1 } else { 0 }))
			.collect();
		let nrd: Vec<String> =
			self.states.get(&id).map(|s| s.nrd.iter().map(|(e, h)| format!("{}:{}", e, h)).collect()).unwrap_or_default();
		out.raw(&format!(
			"pool head b{} h={} ver={} utxo=[{}] nrd=[{}]",
			id,
			hh.height,
			hh.version.0,
			u.join(","),
			nrd.join(",")
		));
	}

	// -------------------------------------------------------------------------------------
	// oracles on the implementation

	/// the transaction with its inputs in the given form; None when the form does not apply
	/// (`V2Unsorted` needs inputs whose `Input` order differs from their commitment order)
	fn in_form(&self, tx: &Transaction, form: Form) -> Option<Transaction> {
		if form == Form::V3 {
			return Some(tx.clone());
		}
		let commits: Vec<CommitWrapper> = tx.inputs().into();
		let unsorted: Vec<Input> = commits
			.iter()
			.map(|c| {
				let cb = self.oid(&c.commitment()).map(|i| self.kit.outs[i].coinbase).unwrap_or(false);
				let cb = if form == Form::V2WrongFeatures { !cb } else { cb };
				Input::new(if cb { OutputFeatures::Coinbase } else { OutputFeatures::Plain }, c.commitment())
			})
			.collect();
		let mut sorted = unsorted.clone();
		sorted.sort_unstable();
		let inputs = if form == Form::V2Unsorted {
			if sorted.iter().zip(unsorted.iter()).all(|(a, b)| a == b) {
				return None;
			}
			unsorted
		} else {
			sorted
		};
		Some(Transaction {
			body: tx.body.clone().replace_inputs(Inputs::FeaturesAndCommit(inputs)),
			..tx.clone()
		})
	}

	/// is the output unspent at the node's head? (asked of the chain directly)
	fn unspent_on_head(&self, o: usize) -> bool {
		match self.kit.outs.get(o) {
			Some(r) => matches!(self.node.get_unspent(r.commit), Ok(Some(_))),
			None => false,
		}
	}

	/// inputs of `tx` that exist nowhere: not unspent at the head, not created by an entry of the
	/// txpool (nor, with `with_stem`, of the stempool) - computed from the pool's entries, not
	/// from anything the pool computed
	fn missing_inputs(&self, tx: &Transaction, with_stem: bool) -> Vec<usize> {
		let mut created = BTreeSet::new();
		for e in self.pool.txpool.entries.iter() {
			created.extend(self.tx_outs(&e.tx));
		}
		if with_stem {
			for e in self.pool.stempool.entries.iter() {
				created.extend(self.tx_outs(&e.tx));
			}
		}
		let mut v: Vec<usize> =
			self.tx_ins(tx).into_iter().filter(|i| !created.contains(i) && !self.unspent_on_head(*i)).collect();
		v.sort();
		v
	}

	/// Is the transaction inadmissible at the height of the NEXT block on the BODY head: a kernel
	/// locked beyond it, a coinbase output of the chain spent before its maturity, an NRD kernel
	/// repeating an excess seen on the chain fewer than its relative height blocks before it?
	fn too_early(&self, tx: &Transaction) -> Option<String> {
		let next = self.node.head().map(|t| t.height).unwrap_or(0) + 1;
		if tx.lock_height() > next {
			return Some(format!("lock-height {} > next block height {}", tx.lock_height(), next));
		}
		let mut created = BTreeSet::new();
		for e in self.pool.txpool.entries.iter().chain(self.pool.stempool.entries.iter()) {
			created.extend(self.tx_outs(&e.tx));
		}
		for i in self.tx_ins(tx) {
			if created.contains(&i) {
				continue;
			}
			if let Some(r) = self.kit.outs.get(i) {
				if let Ok(Some((oi, pos))) = self.node.get_unspent(r.commit) {
					if oi.features.is_coinbase() && next < pos.height + MATURITY {
						return Some(format!(
							"coinbase o{} created at height {} matures at {} > next block height {}",
							i,
							pos.height,
							pos.height + MATURITY,
							next
						));
					}
				}
			}
		}
		if let Some(st) = self.states.get(&self.head) {
			for k in tx.kernels() {
				if let KernelFeatures::NoRecentDuplicate { relative_height, .. } = k.features {
					let ex = hex(&k.excess.0[..8]);
					if let Some((_, h0)) = st.nrd.iter().find(|(e, _)| *e == ex) {
						let rel: u64 = relative_height.into();
						if next < h0 + rel {
							return Some(format!(
								"nrd-relative-height {} with the excess last seen at height {}: admissible from height {} > next block height {}",
								rel,
								h0,
								h0 + rel,
								next
							));
						}
					}
				}
			}
		}
		None
	}

	/// outputs of evicted transactions that currently exist nowhere (neither unspent at the head
	/// nor created by a pool entry): what a child of an evicted transaction would spend
	fn evicted_live(&self) -> Vec<usize> {
		let mut created = BTreeSet::new();
		for e in self.pool.txpool.entries.iter().chain(self.pool.stempool.entries.iter()) {
			created.extend(self.tx_outs(&e.tx));
		}
		self.evicted_at.keys().cloned().filter(|o| !created.contains(o) && !self.unspent_on_head(*o)).collect()
	}

	/// Reference walk over the txpool entries in insertion order - what `bucket_transactions` is
	/// meant to do, written out independently on top of `transaction::aggregate` / `fee_rate`:
	/// the branch every entry takes and the index of the eviction victim (last transaction of the
	/// last bucket by (fee rate descending, age)).
	fn classify_buckets(&self, txs: &[Transaction]) -> (Vec<BKind>, Option<usize>) {
		let mut buckets: Vec<(Vec<usize>, u64, usize)> = vec![];
		let mut index: HashMap<usize, usize> = HashMap::new();
		let mut skipped: BTreeSet<usize> = BTreeSet::new();
		let mut kinds = vec![];
		for (n, tx) in txs.iter().enumerate() {
			let mut pos: Option<usize> = None;
			let mut reject = false;
			for i in self.tx_ins(tx) {
				if skipped.contains(&i) {
					reject = true;
				} else if let Some(p) = index.get(&i) {
					if pos.is_some() {
						reject = true;
					} else {
						pos = Some(*p);
					}
				}
			}
			let mut kind = BKind::Rejected;
			let mut registered = None;
			if !reject {
				match pos {
					None => {
						registered = Some(buckets.len());
						buckets.push((vec![n], tx.fee_rate(), buckets.len()));
						kind = BKind::Fresh;
					}
					Some(p) => {
						let mut raw: Vec<Transaction> = buckets[p].0.iter().map(|k| txs[*k].clone()).collect();
						raw.push(tx.clone());
						let agg = transaction::aggregate(&raw).ok().filter(|a| a.validate(Weighting::NoLimit).is_ok());
						if let Some(a) = agg {
							registered = Some(p);
							if a.fee_rate() >= buckets[p].1 {
								buckets[p].0.push(n);
								buckets[p].1 = a.fee_rate();
								kind = BKind::Merged;
							} else {
								buckets.push((vec![n], tx.fee_rate(), buckets.len()));
								kind = BKind::Own;
							}
						}
					}
				}
			}
			match registered {
				Some(p) => {
					for o in self.tx_outs(tx) {
						index.insert(o, p);
					}
				}
				None => skipped.extend(self.tx_outs(tx)),
			}
			kinds.push(kind);
		}
		buckets.sort_by_key(|b| (std::cmp::Reverse(b.1), b.2));
		let victim = buckets.last().and_then(|b| b.0.last().cloned());
		(kinds, victim)
	}

	/// The eviction oracle.  `pre`: the txpool right before `evict_transaction` ran (with the entry
	/// just admitted, if any), `after`: the txpool now.  The victim must be a leaf of the dependency
	/// forest of `pre` - no remaining transaction spends one of its outputs - unless one of the two
	/// mechanisms of the recorded finding C14-evict-breaks-joint-validity applies: (a) the remaining
	/// child was skipped by the bucket walk (two inputs created in the pool, or a descendant of a
	/// skipped transaction), (b) the victim itself had been given its own bucket because it would
	/// have lowered its parent bucket's fee rate (its descendants are then indexed under the
	/// parent's bucket).  In particular a ROOT is never evicted while a descendant that went through
	/// the buckets stays.
	fn eviction_oracle(&mut self, out: &mut Out, pre: &[Transaction], after: &[Transaction], ctx: &str) {
		let gone: Vec<usize> = (0..pre.len()).filter(|n| !after.contains(&pre[*n])).collect();
		if gone.is_empty() {
			return;
		}
		let (kinds, ref_victim) = self.classify_buckets(pre);
		let sigs: Vec<String> = pre.iter().map(|t| self.tx_sig(t)).collect();
		// parents inside the pool: creators EARLIER in insertion order (an entry can also re-create
		// a commitment that an earlier entry spends from the chain: that is not a dependency)
		let mut creator: HashMap<usize, usize> = HashMap::new();
		let mut parents: Vec<Vec<usize>> = vec![];
		for (n, t) in pre.iter().enumerate() {
			let mut v: Vec<usize> = self.tx_ins(t).iter().filter_map(|i| creator.get(i).cloned()).collect();
			v.sort();
			v.dedup();
			parents.push(v);
			for o in self.tx_outs(t) {
				creator.insert(o, n);
			}
		}
		let depth = {
			let mut d = vec![0usize; pre.len()];
			for n in 0..pre.len() {
				d[n] = parents[n].iter().filter(|p| **p < n).map(|p| d[*p] + 1).max().unwrap_or(0);
			}
			d
		};
		self.stat_max("evict-oracle:max-forest-depth", depth.iter().cloned().max().unwrap_or(0) as u64);
		let dependents = parents.iter().filter(|p| !p.is_empty()).count();
		self.stat(&format!("evict-oracle:dependent-entries={}", dependents.min(5)));
		let own = kinds.iter().filter(|k| **k == BKind::Own).count();
		let rej = kinds.iter().filter(|k| **k == BKind::Rejected).count();
		if own > 0 {
			self.stat("evict-oracle:forests-with-own-bucket-child");
		}
		if rej > 0 {
			self.stat("evict-oracle:forests-with-skipped-entry");
		}
		let listing: Vec<String> = (0..pre.len())
			.map(|n| {
				format!(
					"#{} {} fee={} weight={} rate={} parents={:?} walk={:?}",
					n,
					sigs[n],
					pre[n].fee(),
					pre[n].weight(),
					pre[n].fee_rate(),
					parents[n].iter().map(|p| format!("#{}", p)).collect::<Vec<_>>(),
					kinds[n]
				)
			})
			.collect();
		for x in gone {
			let outs_x = self.tx_outs(&pre[x]);
			let children: Vec<usize> =
				(0..pre.len()).filter(|n| after.contains(&pre[*n]) && parents[*n].contains(&x)).collect();
			let explained;
			if children.is_empty() {
				explained = true;
				self.stat("evict-oracle:victim-is-leaf");
				self.stat(&format!("evict-oracle:victim-is-leaf:walk={:?}:depth={}", kinds[x], depth[x].min(3)));
				if own > 0 {
					self.stat("evict-oracle:victim-is-leaf:forest-has-own-bucket-child");
				}
			} else if kinds[x] == BKind::Own {
				explained = true;
				self.stat("evict-oracle:non-leaf-victim:known-own-bucket-child");
			} else if children.iter().all(|n| kinds[*n] == BKind::Rejected) {
				explained = true;
				self.stat("evict-oracle:non-leaf-victim:known-skipped-child");
			} else {
				explained = false;
				self.stat("evict-oracle:NON-LEAF-VICTIM-VIOLATION");
				out.raw(&format!(
					"#ORACLE-FAIL C14 evicted-transaction-is-not-a-leaf hist={} after [{}]: evict_transaction removed #{} {} ({}) while {:?} spending its outputs stay in the txpool, and neither mechanism of the recorded eviction finding applies (the victim did not lower its parent bucket's fee rate; the children went through the buckets); txpool before the eviction (max_pool_size {}): [{}]; the bucket walk of pool.rs as written picks #{:?}",
					self.name,
					ctx,
					x,
					sigs[x],
					if parents[x].is_empty() { "a ROOT of the dependency forest" } else { "an inner node" },
					children.iter().map(|n| format!("#{} {}", n, sigs[*n])).collect::<Vec<_>>(),
					self.cfg.max_pool,
					listing.join("; "),
					ref_victim
				));
			}
			if Some(x) != ref_victim {
				self.stat("evict-oracle:victim-differs-from-reference-walk");
			}
			for o in outs_x {
				self.evicted_explained.insert(o, explained);
			}
		}
	}

	fn note_evicted(&mut self, gone: &[Transaction]) {
		for g in gone {
			for o in self.tx_outs(g) {
				self.evicted_outs.insert(o);
				self.evicted_at.insert(o, self.step);
			}
			for i in self.tx_ins(g) {
				self.evicted_ins.insert(i);
			}
		}
	}

	/// `<tx>@<output>` for every input that exists nowhere, entries in pool order
	fn orphan_list(&mut self, txs: &[Transaction]) -> String {
		let mut items = vec![];
		let mut orphans = self.orphan_inputs(txs);
		orphans.sort();
		for (n, o) in orphans {
			items.push(format!("{}@o{}", self.tx_sig(&txs[n]), o));
		}
		format!("[{}]", items.join(","))
	}

	fn validate_set(&self, txs: &[Transaction]) -> Result<(), String> {
		if txs.is_empty() {
			return Ok(());
		}
		let agg = transaction::aggregate(txs).map_err(|e| format!("aggregate:{:?}", e))?;
		agg.validate(Weighting::NoLimit).map_err(|e| format!("validate:{:?}", e))?;
		self.node.validate_tx(&agg).map_err(|e| format!("chain:{}", error_class(&e)))?;
		Ok(())
	}

	/// inputs of pool transactions that are neither unspent at the head nor created in `txs`
	fn orphan_inputs(&self, txs: &[Transaction]) -> Vec<(usize, usize)> {
		let mut created = BTreeSet::new();
		for t in txs {
			for o in self.tx_outs(t) {
				created.insert(o);
			}
		}
		let mut res = vec![];
		for (n, t) in txs.iter().enumerate() {
			let v: Vec<CommitWrapper> = t.inputs().into();
			for i in v {
				let id = self.oid(&i.commitment()).unwrap_or(999_999);
				let unspent = matches!(self.node.get_unspent(i.commitment()), Ok(Some(_)));
				if !unspent && !created.contains(&id) {
					res.push((n, id));
				}
			}
		}
		res
	}

	/// the property oracle for one set: returns "ok" or "bad"; prints the finding line
	fn jv_oracle(&mut self, out: &mut Out, which: &str, txs: &[Transaction], ctx: &str) -> &'static str {
		match self.validate_set(txs) {
			Ok(()) => "ok",
			Err(e) => {
				let orphans = self.orphan_inputs(txs);
				let sigs: Vec<String> = txs.iter().map(|t| self.tx_sig(t)).collect();
				let desc = format!(
					"hist={} after [{}]: {} = [{}] does not validate against head b{} ({}); inputs neither unspent nor created in the pool: {:?}",
					self.name,
					ctx,
					which,
					sigs.join(" "),
					self.head,
					e,
					orphans.iter().map(|(n, o)| format!("{} spends o{}", sigs[*n], o)).collect::<Vec<_>>()
				);
				// the recorded finding concerns children that were ALREADY pooled when their parent was
				// evicted (or were admitted by the very submission that triggered the eviction); a
				// transaction that entered the pool after the eviction with such an input is new
				let mut admitted_after = vec![];
				for (n, o) in &orphans {
					if let (Some(ev), Some(adm)) = (self.evicted_at.get(o), self.admitted_at.get(&sigs[*n])) {
						if adm > ev {
							admitted_after.push(format!("{} (admitted at op {}) spends o{} whose creator was evicted at op {}", sigs[*n], adm, o, ev));
						}
					}
				}
				if !admitted_after.is_empty() {
					out.raw(&format!(
						"#ORACLE-FAIL C14 child-of-evicted-transaction-in-pool (admitted AFTER the eviction of its parent) {:?}: {}",
						admitted_after, desc
					));
					self.stat("finding:child-admitted-after-eviction");
					return "bad";
				}
				let unexplained: Vec<usize> =
					orphans.iter().map(|x| x.1).filter(|o| self.evicted_explained.get(o) == Some(&false)).collect();
				if !unexplained.is_empty() {
					out.raw(&format!(
						"#ORACLE-FAIL C14 pool-not-jointly-valid after the eviction of a non-leaf outside the recorded finding (outputs {:?} of the victim): {}",
						unexplained, desc
					));
					return "bad";
				}
				let by_evict = !orphans.is_empty() && orphans.iter().all(|(_, o)| self.evicted_at.contains_key(o));
				// a remaining transaction re-creates a commitment whose spender was evicted
				let unspent_now: BTreeSet<usize> = self.node_utxo().iter().map(|x| x.0).collect();
				let recreated: Vec<usize> = txs
					.iter()
					.flat_map(|t| self.tx_outs(t))
					.filter(|o| unspent_now.contains(o) && self.evicted_ins.contains(o))
					.collect();
				if by_evict {
					out.raw(&format!("#KNOWN-PROBE C14 evict-leaves-orphaned-child: {}", desc));
					self.stat("finding:evict-leaves-orphaned-child");
				} else if orphans.is_empty() && !recreated.is_empty() && e.contains("DuplicateCommitment") {
					out.raw(&format!(
						"#KNOWN-PROBE C14 evict-leaves-duplicate-commitment: {}; the evicted transaction spent {:?}, which a remaining transaction re-creates",
						desc, recreated
					));
					self.stat("finding:evict-leaves-duplicate-commitment");
				} else {
					out.raw(&format!("#ORACLE-FAIL C14 pool-not-jointly-valid {}", desc));
				}
				"bad"
			}
		}
	}

	/// build a block from the mineable set the way mine_block.rs does and have a chain accept it
	fn mine_oracle(&mut self, out: &mut Out, ctx: &str) -> String {
		let txs = match catch(std::panic::AssertUnwindSafe(|| self.pool.prepare_mineable_transactions())) {
			Ok(Ok(t)) => t,
			Ok(Err(e)) => {
				// commitments spent by two txpool entries (one instance on the chain or created earlier,
				// one re-created in the pool): the situation in which `validate_raw_txs` lets the
				// aggregation error of a candidate escape
				let mut spends: BTreeMap<usize, Vec<String>> = BTreeMap::new();
				let entries: Vec<Transaction> = self.pool.txpool.entries.iter().map(|x| x.tx.clone()).collect();
				for t in &entries {
					let sig = self.tx_sig(t);
					for i in self.tx_ins(t) {
						spends.entry(i).or_default().push(sig.clone());
					}
				}
				let twice: Vec<String> =
					spends.iter().filter(|(_, v)| v.len() >= 2).map(|(o, v)| format!("o{} spent by {:?}", o, v)).collect();
				let listing: Vec<String> = entries
					.iter()
					.map(|t| format!("{} fee={} weight={} rate={}", self.tx_sig(t), t.fee(), t.weight(), t.fee_rate()))
					.collect();
				let desc = format!(
					"hist={} after [{}]: prepare_mineable_transactions failed: {} (mine_block.rs falls back to an EMPTY block: no pool transaction is mined); txpool = [{}]; commitments spent twice in the txpool (re-created in between): {:?}",
					self.name,
					ctx,
					perr(&e),
					listing.join("; "),
					twice
				);
				// (the case "a commitment spent, re-created and spent again inside the pool" was the
				// defect C14-mineable-set-fails-on-recreated-commitment, repaired in 611fc1746: any
				// failure of prepare_mineable_transactions is a violation)
				out.raw(&format!("#ORACLE-FAIL C14 mineable-set-rejected {}", desc));
				return format!("err:{}", perr(&e));
			}
			Err(p) => {
				out.raw(&format!(
					"#ORACLE-FAIL C14 mineable-set-rejected hist={} after [{}]: prepare_mineable_transactions panicked: {}",
					self.name, ctx, p
				));
				return "panic".to_string();
			}
		};
		let sigs: Vec<String> = txs.iter().map(|t| self.tx_sig(t)).collect();
		let key = format!("b{}|w{}|{}", self.head, self.cfg.mine_w, sigs.join(" "));
		let listing = format!("[{}]", sigs.join(","));
		if key == self.last_probe {
			self.stat("mine-oracle:unchanged-skipped");
			return format!("{}:ok", listing);
		}
		let w: u64 = txs.iter().map(|t| t.weight()).sum();
		self.stat_max("mineable:max-raw-weight", w);
		self.stat_max("mineable:max-txs", txs.len() as u64);
		// the weight of what was selected (cut-through applied), against the limit the property fixes:
		// min(max_block_weight, mineable_max_weight) minus one output and one kernel for the coinbase
		if !txs.is_empty() {
			if let Ok(agg) = transaction::aggregate(&txs) {
				let limit = global::max_block_weight().min(self.cfg.mine_w).saturating_sub(21 + 3);
				let aw = agg.weight();
				self.stat_max("mineable:max-selected-weight", aw);
				if aw <= limit {
					self.stat(&format!("mineable:room-left={}", match limit - aw { 0..=9 => "0-9", 10..=24 => "10-24", 25..=49 => "25-49", _ => "50+" }));
				}
				out.line(&format!("pool mine_weight limit={}", self.cfg.mine_w), &format!("{}", aw));
				if aw > limit {
					out.raw(&format!(
						"#ORACLE-FAIL C14 mineable-set-over-the-weight-limit hist={} after [{}]: the mineable set {} weighs {} (aggregated), more than min(max_block_weight {}, mineable_max_weight {}) - 24 = {}",
						self.name,
						ctx,
						listing,
						aw,
						global::max_block_weight(),
						self.cfg.mine_w,
						limit
					));
				}
			}
		}
		let verdict = (|| -> Result<(), String> {
			let b = self.kit.assemble(self.head, 1, &txs, 0).map_err(|e| format!("assemble:{}", e))?;
			let prev = self.kit.blks[self.head].block.header.clone();
			// (`process_block` below runs `Block::validate` itself: not repeated here)
			let _ = &prev;
			if b.body.weight() > global::max_block_weight().min(self.cfg.mine_w.max(24)) {
				return Err(format!("weight {} over the limit", b.body.weight()));
			}
			match self.kit.builder().process_block(b.clone(), Options::SKIP_POW) {
				Ok(_) => {
					let parent = self.head;
					let st = self.state_after(parent, &b);
					let id = self.kit.record(b, parent, vec!["probe".into()], true);
					self.states.insert(id, st);
					Ok(())
				}
				Err(e) => Err(format!("process_block:{}", error_class(&e))),
			}
		})();
		self.stat("mine-oracle:blocks-built");
		match verdict {
			Ok(()) => {
				self.last_probe = key;
				format!("{}:ok", listing)
			}
			Err(e) => {
				let desc = format!(
					"hist={} after [{}]: block built on b{} (next height {}) from mineable set {} is rejected: {}",
					self.name,
					ctx,
					self.head,
					self.next_height(),
					listing,
					e
				);
				if self.height_decreased
					&& (e.contains("KernelLockHeight") || e.contains("ImmatureCoinbase") || e.contains("NRDKernelPreHF3"))
				{
					out.raw(&format!("#KNOWN-PROBE C14 reorg-to-lower-height-keeps-immature-tx: {}", desc));
					self.stat("finding:reorg-to-lower-height-keeps-immature-tx");
				} else {
					out.raw(&format!("#ORACLE-FAIL C14 mineable-set-rejected {}", desc));
				}
				format!("{}:rejected", listing)
			}
		}
	}

	fn state_after(&self, parent: usize, b: &Block) -> AState {
		let mut s = self.states[&parent].clone();
		let ins: Vec<CommitWrapper> = b.inputs().into();
		for i in ins {
			if let Some(id) = self.kit.by_commit.get(&i.commitment()) {
				s.utxo.remove(id);
			}
		}
		for o in b.outputs() {
			if let Some(id) = self.kit.by_commit.get(&o.commitment()) {
				s.utxo.insert(*id, (b.header.height, o.is_coinbase()));
			}
		}
		for k in b.kernels() {
			if let KernelFeatures::NoRecentDuplicate { .. } = k.features {
				s.nrd.insert(0, (hex(&k.excess.0[..8]), b.header.height));
			}
		}
		s
	}

	/// admission oracle (property), evaluated after EVERY op on every entry of the txpool, the
	/// stempool and the reorg cache (which is replayed into the txpool on a reorg): the entry's own
	/// fee is at least the minimum for its own weight, it is within the weight limit, and it passes
	/// standalone validation
	fn admission_oracle(&mut self, out: &mut Out, ctx: &str) {
		let mut all: Vec<(&'static str, PoolEntry)> = vec![];
		for e in self.pool.txpool.entries.iter() {
			all.push(("txpool", e.clone()));
		}
		for e in self.pool.stempool.entries.iter() {
			all.push(("stempool", e.clone()));
		}
		for e in self.pool.reorg_cache.read().iter() {
			all.push(("reorg-cache", e.clone()));
		}
		for (place, e) in all {
			let min = e.tx.weight() * FEE_BASE;
			// shifted fee as the protocol defines it, computed from the kernels themselves: the sum of the
			// kernel fees shifted right by the largest fee_shift
			let bad_fee = shifted_fee_of(&e.tx) < min;
			let heavy = e.tx.weight() > global::max_tx_weight();
			let h = e.tx.hash();
			if !self.validated.contains(&h) {
				self.validated.insert(h);
				self.stat("admission-oracle:entries-validated");
				if let Err(err) = e.tx.validate(Weighting::AsTransaction) {
					let sig = self.tx_sig(&e.tx);
					out.raw(&format!(
						"#ORACLE-FAIL C14 pool holds a transaction that fails standalone validation ({:?}): hist={} after [{}]: {} entry {} src={}",
						err,
						self.name,
						ctx,
						place,
						sig,
						src_letter(e.src)
					));
				}
			}
			if !(bad_fee || heavy) {
				continue;
			}
			let sig = self.tx_sig(&e.tx);
			let desc = format!(
				"pool holds a transaction paying fee {} for weight {} (minimum {}), src={}: hist={} after [{}]: {} entry {} (shifted fee {}, weight limit {})",
				e.tx.fee(),
				e.tx.weight(),
				min,
				src_letter(e.src),
				self.name,
				ctx,
				place,
				sig,
				e.tx.shifted_fee(),
				global::max_tx_weight()
			);
			if heavy {
				out.raw(&format!("#ORACLE-FAIL C14 pool holds a transaction over the weight limit: {}", desc));
			} else {
				// The finding C14-low-fee-admitted-over-capacity (is_acceptable reported OverCapacity
				// before looking at the fee) is repaired (3aef11dd9): an under-paying entry anywhere -
				// txpool, stempool, reorg cache - is an oracle failure.  The probe line of the finding
				// is still printed under its old condition (first seen right after a submission into
				// an over-capacity txpool, or held / replayed afterwards), so that its reappearance is
				// reported as a regression of the fix.
				if self.lowfee_known.contains(&sig) {
					if place != "reorg-cache" {
						out.raw(&format!("#KNOWN-PROBE C14 low-fee-admitted-when-over-capacity: (still held / replayed from the reorg cache) {}", desc));
					}
				} else if self.over_capacity_before {
					self.lowfee_known.insert(sig);
					out.raw(&format!("#KNOWN-PROBE C14 low-fee-admitted-when-over-capacity: {}", desc));
					self.stat("finding:low-fee-admitted-when-over-capacity");
				}
				out.raw(&format!("#ORACLE-FAIL C14 pool-entry-pays-less-than-minimum-fee {}", desc));
			}
		}
	}

	/// pool content + oracle verdicts after an op
	fn obs(&mut self, out: &mut Out, ctx: &str) {
		self.admission_oracle(out, ctx);
		let tx_entries: Vec<PoolEntry> = self.pool.txpool.entries.clone();
		let stem_entries: Vec<PoolEntry> = self.pool.stempool.entries.clone();
		let cache: Vec<PoolEntry> = self.pool.reorg_cache.read().iter().cloned().collect();
		let t: Vec<String> = tx_entries.iter().map(|e| self.entry_sig(e)).collect();
		let s: Vec<String> = stem_entries.iter().map(|e| self.entry_sig(e)).collect();
		let c: Vec<String> = cache.iter().map(|e| self.entry_sig(e)).collect();
		let txs: Vec<Transaction> = tx_entries.iter().map(|e| e.tx.clone()).collect();
		let mut both: Vec<Transaction> = stem_entries.iter().map(|e| e.tx.clone()).collect();
		both.extend(txs.clone());
		// when did each entry enter the pool (txpool or stempool)?
		let present: BTreeSet<String> = both.iter().map(|t| self.tx_sig(t)).collect();
		self.admitted_at.retain(|k, _| present.contains(k));
		for k in &present {
			let step = self.step;
			self.admitted_at.entry(k.clone()).or_insert(step);
		}
		// every input of every entry: unspent at the head or created by another entry?
		let av = self.orphan_list(&txs);
		let avs = if stem_entries.is_empty() { av.clone() } else { self.orphan_list(&both) };
		if av != "[]" {
			self.stat("states-with-unavailable-input:txpool");
		} else if avs != "[]" {
			self.stat("states-with-unavailable-input:stempool-only");
		}
		let jv = self.jv_oracle(out, "txpool", &txs, ctx);
		let jvs = if stem_entries.is_empty() { jv } else { self.jv_oracle(out, "stempool+txpool", &both, ctx) };
		let mine = self.mine_oracle(out, ctx);
		// statistics
		self.stat_max("pool:max-txpool", txs.len() as u64);
		self.stat_max("pool:max-stempool", stem_entries.len() as u64);
		self.stat_max("pool:max-reorg-cache", cache.len() as u64);
		let mut created: BTreeMap<usize, usize> = BTreeMap::new();
		for (n, t) in txs.iter().enumerate() {
			for o in self.tx_outs(t) {
				created.insert(o, n);
			}
		}
		let mut multi = 0;
		let mut dependent = 0;
		for t in &txs {
			let parents: Vec<usize> = self.tx_ins(t).iter().filter_map(|i| created.get(i).cloned()).collect();
			if parents.len() >= 2 {
				multi += 1;
			}
			if !parents.is_empty() {
				dependent += 1;
			}
		}
		if multi > 0 {
			self.stat("states-with-multi-parent-tx");
		}
		if dependent > 0 {
			self.stat("states-with-dependent-tx");
		}
		if txs.is_empty() && stem_entries.is_empty() {
			self.evicted_outs.clear();
			self.evicted_ins.clear();
			self.height_decreased = false;
		}
		out.line(
			"pool obs",
			&format!(
				"tx=[{}] stem=[{}] cache=[{}] jv={} jvs={} av={} avs={} mine={}",
				t.join(","),
				s.join(","),
				c.join(","),
				jv,
				jvs,
				av,
				avs,
				mine
			),
		);
	}

	// -------------------------------------------------------------------------------------
	// ops

	fn submit(&mut self, out: &mut Out, t: usize, src: TxSource, stem: bool, stem_ok: bool) -> String {
		let form = self.default_form;
		self.submit_form(out, t, src, stem, stem_ok, form)
	}

	/// submit transaction `t` with its inputs in the given form (falls back to `V2` when
	/// `V2Unsorted` does not apply to it)
	fn submit_form(&mut self, out: &mut Out, t: usize, src: TxSource, stem: bool, stem_ok: bool, form: Form) -> String {
		self.step += 1;
		let base = self.txs[t].tx.clone();
		let (tx, form) = match self.in_form(&base, form) {
			Some(x) => (x, form),
			None => (self.in_form(&base, Form::V2).unwrap(), Form::V2),
		};
		let header = self.node.head_header().unwrap();
		self.stem_ok.store(stem_ok, Ordering::SeqCst);
		let before: Vec<Transaction> = self.pool.txpool.entries.iter().map(|e| e.tx.clone()).collect();
		// the path the pool will take, and (independently of the pool's own look-ups) the inputs
		// of the submitted transaction that exist nowhere on that path
		let stem_path = stem && !self.pool.stempool.contains_tx(&tx);
		let deaggregates = !stem_path
			&& tx.kernels().len() > 1
			&& self.pool.txpool.entries.iter().any(|e| e.tx.kernels().iter().all(|k| tx.kernels().contains(k)));
		let missing = if deaggregates { vec![] } else { self.missing_inputs(&tx, stem_path) };
		// height-dependent conditions, evaluated on the BODY head (whatever headers the node holds)
		let too_early = if deaggregates { None } else { self.too_early(&tx) };
		let my_ins = self.tx_ins(&tx);
		let stem_len = self.pool.stempool.entries.len();
		let stem_hit = self.pool.stempool.entries.iter().filter(|e| self.tx_ins(&e.tx).iter().any(|i| my_ins.contains(i))).count();
		let stem_same = self.pool.stempool.contains_tx(&tx);
		let r = catch(std::panic::AssertUnwindSafe(|| self.pool.add_to_pool(src, tx.clone(), stem, &header)));
		let res = match &r {
			Ok(Ok(())) => "ok".to_string(),
			Ok(Err(e)) => format!("err:{}", perr(e)),
			Err(p) => format!("panic:{}", p.replace(' ', "_")),
		};
		let lhs = format!(
			"pool submit t{} src={} stem={} stemok={} form={}",
			t,
			src_letter(src),
			if stem { 1 } else { 0 },
			if stem_ok { 1 } else { 0 },
			form.tag()
		);
		out.line(&lhs, &res);
		// the STORED form of an admitted single-kernel transaction (`convert_tx_v2`): "features and commit"
		// inputs whose features are the looked-up ones, whatever the submitted form claimed
		if res == "ok" && tx.kernels().len() == 1 {
			let entry = self
				.pool
				.txpool
				.entries
				.iter()
				.chain(self.pool.stempool.entries.iter())
				.find(|e| e.tx.kernels() == tx.kernels())
				.cloned();
			if let Some(e) = entry {
				let stored = match e.tx.inputs() {
					Inputs::FeaturesAndCommit(v) => {
						let mut items: Vec<(usize, bool)> =
							v.iter().map(|i| (self.oid(&i.commitment()).unwrap_or(999_999), i.is_coinbase())).collect();
						items.sort();
						format!("[{}]", items.iter().map(|(o, cb)| format!("{}:o{}", if *cb { 1 } else { 0 }, o)).collect::<Vec<_>>().join(","))
					}
					Inputs::CommitOnly(_) => "commit-only".to_string(),
				};
				out.line(&format!("pool stored t{}", t), &stored);
				self.stat(&format!("stored-form:submitted-as-{}:{}", form.tag(), if stored == "commit-only" { "commit-only" } else { "features-and-commit" }));
				// oracle on the implementation: every stored feature byte is the chain's (pool-created: plain)
				if let Inputs::FeaturesAndCommit(v) = e.tx.inputs() {
					for i in v.iter() {
						let truth = match self.node.get_unspent(i.commitment()) {
							Ok(Some((oi, _))) => oi.features.is_coinbase(),
							_ => false,
						};
						if truth != i.is_coinbase() {
							out.raw(&format!(
								"#ORACLE-FAIL C14 stored-input-features-wrong hist={} {}: input o{} stored as {} but the chain says {}",
								self.name,
								lhs,
								self.oid(&i.commitment()).unwrap_or(999_999),
								if i.is_coinbase() { "coinbase" } else { "plain" },
								if truth { "coinbase" } else { "plain" }
							));
						}
					}
				}
			}
		}
		let kind = self.txs[t].kind.clone();
		let path = if stem_path { "stem" } else { "fluff" };
		self.stat(&format!("submit:{}:{}", kind, res));
		self.stat(&format!("result:{}", res));
		self.stat(&format!("form:{}:{}", form.tag(), path));
		if self.gap() > 0 {
			self.stat(&format!("header-first:submission-in-gap:{}:{}", kind.split(':').next().unwrap_or(""), res));
		}
		self.stat(&format!("form:{}:{}", form.tag(), if res == "ok" { "admitted" } else { "refused" }));
		if res.starts_with("panic") {
			out.raw(&format!("#ORACLE-FAIL C14 pool-panicked hist={} {} => {}", self.name, lhs, res));
		}
		if let Some(why) = &too_early {
			self.stat(&format!("too-early:{}:{}", why.split(' ').next().unwrap_or(""), if res == "ok" { "ADMITTED" } else { "refused" }));
			if res == "ok" {
				let hh = self.node.header_head().map(|t| t.height).unwrap_or(0);
				let sig = self.tx_sig(&tx);
				out.raw(&format!(
					"#ORACLE-FAIL C14 transaction-admitted-before-its-height hist={} {}: {} (body head height {}, header_head height {}); tx = {}",
					self.name,
					lhs,
					why,
					self.node.head().map(|t| t.height).unwrap_or(0),
					hh,
					sig
				));
			}
		}
		if !stem_path && res == "ok" && stem_hit > 0 {
			self.stat(&format!(
				"stem-conflict:{}:stempool={}",
				if stem_same { "stem-entry-arrives-fluffed" } else { "fluff-double-spends-stem-input" },
				stem_len.min(4)
			));
		}
		// a transaction with an input that exists nowhere must be refused: in particular a child of
		// an evicted transaction submitted after the eviction
		let missing_evicted: Vec<usize> = missing.iter().cloned().filter(|o| self.evicted_at.contains_key(o)).collect();
		if !missing_evicted.is_empty() {
			self.stat(&format!("evict:child-after-eviction:submitted:{}", path));
			self.stat(&format!("evict:child-after-eviction:form:{}", form.tag()));
			if res == "ok" {
				self.stat(&format!("evict:child-after-eviction:ADMITTED:{}", path));
			} else {
				self.stat(&format!("evict:child-after-eviction:refused:{}:{}", path, res));
			}
		}
		if !missing.is_empty() && res == "ok" {
			let sig = self.tx_sig(&tx);
			out.raw(&format!(
				"#ORACLE-FAIL C14 transaction-with-unavailable-input-admitted hist={} {}: inputs {:?} are neither unspent at head b{} nor created by a {} entry{}; tx = {}",
				self.name,
				lhs,
				missing.iter().map(|o| format!("o{}", o)).collect::<Vec<_>>(),
				self.head,
				if stem_path { "txpool or stempool" } else { "txpool" },
				if missing_evicted.is_empty() {
					String::new()
				} else {
					format!(
						" ({:?} created by a transaction evicted at op {:?}: child of an evicted transaction submitted after the eviction)",
						missing_evicted.iter().map(|o| format!("o{}", o)).collect::<Vec<_>>(),
						missing_evicted.iter().map(|o| self.evicted_at[o]).collect::<Vec<_>>()
					)
				},
				sig
			));
		}
		// per-kind refusal statistics for the standalone-validity kinds
		if kind.starts_with("over-weight") || kind.starts_with("low-fee") || kind.starts_with("invalid-") {
			let k = kind.split(':').next().unwrap_or("").to_string();
			self.stat(&format!("standalone:{}:{}:{}:{}", k, path, form.tag(), if res == "ok" { "ADMITTED" } else { "refused" }));
			// (refused for another reason first - OverCapacity on the stem path, say - is fine; the
			// reason itself is compared with the model's)
			if k == "over-weight" && res == "ok" {
				out.raw(&format!(
					"#ORACLE-FAIL C14 over-weight-transaction-admitted hist={} {} => {} (weight {} > {})",
					self.name,
					lhs,
					res,
					tx.weight(),
					global::max_tx_weight()
				));
			}
		}
		// eviction bookkeeping: transactions that were in the txpool before and are gone now
		let after: Vec<Transaction> = self.pool.txpool.entries.iter().map(|e| e.tx.clone()).collect();
		let mut gone = vec![];
		for b in &before {
			if !after.contains(b) {
				gone.push(b.clone());
			}
		}
		// the entry admitted by this very call may be the one evicted
		if res == "ok" && !stem_path && before.len() > self.cfg.max_pool && gone.is_empty() {
			self.stat("evictions-on-submit:new-entry-itself");
		}
		if !gone.is_empty() {
			self.stat("evictions-on-submit");
			self.stat(&format!("evictions-on-submit:pool-size-before={}", before.len()));
			self.note_evicted(&gone);
			// the txpool as `evict_transaction` saw it: the old entries and the one just admitted
			let mut pre = before.clone();
			pre.extend(after.iter().filter(|a| !before.contains(a)).cloned());
			// which transaction was removed: compared with the model's choice as a specification value
			let vs = self.tx_sig(&gone[0]);
			out.line("pool evicted", &vs);
			self.eviction_oracle(out, &pre, &after, &lhs);
		}
		self.over_capacity_before = before.len() > self.cfg.max_pool;
		if res == "ok" {
			if !self.txs[t].tags.is_empty() {
				out.raw(&format!(
					"#ORACLE-FAIL C14 invalid-tx-admitted hist={} {} tags={:?}",
					self.name, lhs, self.txs[t].tags
				));
			}
			// (when the pool deaggregates, what it validates and stores is the remainder rebuilt by
			// `transaction::deaggregate`, which sorts: the order of the submitted vector is never seen)
			if form == Form::V2Unsorted && !deaggregates {
				out.raw(&format!(
					"#ORACLE-FAIL C14 invalid-tx-admitted hist={} {}: features-and-commit inputs not in Input order",
					self.name, lhs
				));
			}
		}
		self.obs(out, &lhs);
		self.over_capacity_before = false;
		res
	}

	/// deliver a block to the node; reconcile the pool the way the server does on Next / Reorg
	fn deliver(&mut self, out: &mut Out, bid: usize) -> String {
		self.step += 1;
		let b = self.kit.blks[bid].block.clone();
		let old_h = self.node.head_header().unwrap().height;
		*self.last_status.lock().unwrap() = None;
		let r = self.node.process_block(b.clone(), Options::SKIP_POW);
		let status = self.last_status.lock().unwrap().clone();
		let res = match (&r, status) {
			(Ok(_), Some(BlockStatus::Next { .. })) => "next",
			(Ok(_), Some(BlockStatus::Fork { .. })) => "fork",
			(Ok(_), Some(BlockStatus::Reorg { .. })) => "reorg",
			(Ok(_), None) => "accepted?",
			(Err(_), _) => "rejected",
		};
		self.stat(&format!("deliver:{}", res));
		if res == "next" || res == "reorg" {
			// abstract description of the block for the model
			let ins: Vec<CommitWrapper> = b.inputs().into();
			let ins: Vec<usize> = ins.iter().map(|i| self.oid(&i.commitment()).unwrap_or(999_999)).collect();
			let ks: Vec<usize> = b.kernels().iter().map(|k| self.kid(k)).collect();
			self.print_head(out);
			let new_h = b.header.height;
			if new_h < old_h {
				self.height_decreased = true;
				self.stat("reorg:height-decreased");
			}
			if res == "reorg" {
				self.stat_max("reorg:max-depth", old_h.saturating_sub(self.fork_height(bid)));
			}
			let lhs = format!("pool reconcile_block b{} ins=[{}] kers=[{}]", bid, ids(&ins, "o"), ids(&ks, "k"));
			// shape of the stempool the block meets: entries that stand on the chain alone
			let mut created_tx = BTreeSet::new();
			for e in self.pool.txpool.entries.iter() {
				created_tx.extend(self.tx_outs(&e.tx));
			}
			let independent =
				self.pool.stempool.entries.iter().filter(|e| !self.tx_ins(&e.tx).iter().any(|i| created_tx.contains(i))).count();
			if !self.pool.stempool.entries.is_empty() {
				self.stat(&format!(
					"block-connect:stempool={}:not-spending-txpool-outputs={}",
					self.pool.stempool.entries.len().min(4),
					independent.min(4)
				));
				let hit = self.pool.stempool.entries.iter().filter(|e| self.tx_ins(&e.tx).iter().any(|i| ins.contains(i))).count();
				if hit > 0 {
					self.stat(&format!("block-connect:block-double-spends-stem-inputs:stempool={}", self.pool.stempool.entries.len().min(4)));
				}
			}
			let r = self.pool.reconcile_block(&b);
			out.line(&lhs, &match r {
				Ok(()) => "ok".to_string(),
				Err(e) => format!("err:{}", perr(&e)),
			});
			self.obs(out, &lhs);
			if res == "reorg" {
				let lhs = format!("pool reconcile_reorg_cache b{}", bid);
				let r = self.pool.reconcile_reorg_cache(&b.header);
				out.line(&lhs, &match r {
					Ok(()) => "ok".to_string(),
					Err(e) => format!("err:{}", perr(&e)),
				});
				self.obs(out, &lhs);
			}
		}
		res.to_string()
	}

	/// height of the last common ancestor of block `bid`'s branch and the previous head
	fn fork_height(&self, bid: usize) -> u64 {
		let mut anc = BTreeSet::new();
		let mut x = Some(self.head);
		while let Some(i) = x {
			anc.insert(i);
			x = self.kit.blks[i].parent;
		}
		let mut y = self.kit.blks[bid].parent;
		// self.head was already updated to bid by print_head: walk from the parent
		while let Some(i) = y {
			if anc.contains(&i) && i != bid {
				return self.kit.blks[i].height;
			}
			y = self.kit.blks[i].parent;
		}
		0
	}

	/// build a block on `parent` from real transactions on the builder chain; None if the builder rejects it
	fn build_block(&mut self, parent: usize, diff: u64, txs: &[Transaction]) -> Option<usize> {
		let b = self.kit.assemble(parent, diff, txs, 0).ok()?;
		match self.kit.builder().process_block(b.clone(), Options::SKIP_POW) {
			Ok(_) => {
				let st = self.state_after(parent, &b);
				let id = self.kit.record(b, parent, vec![], true);
				self.states.insert(id, st);
				Some(id)
			}
			Err(e) => {
				self.stat(&format!("generator:builder-rejected:{}", error_class(&e)));
				None
			}
		}
	}

	/// header-first propagation: build `n` empty blocks on the head (on the builder chain) and give
	/// the node only their HEADERS.  The body head - what the pool's height-dependent checks and the
	/// miner refer to - does not move; the pool is not told anything.
	fn headers_first(&mut self, out: &mut Out, n: usize) -> bool {
		if !self.pending_bodies.is_empty() {
			return false;
		}
		let mut tip = self.head;
		for _ in 0..n {
			match self.build_block(tip, 1, &[]) {
				Some(id) => {
					let h = self.kit.blks[id].block.header.clone();
					match self.node.process_block_header(&h, Options::SKIP_POW) {
						Ok(_) => {
							self.pending_bodies.push(id);
							tip = id;
						}
						Err(e) => {
							out.raw(&format!("#STAT header-first:header-rejected:{}", error_class(&e)));
							break;
						}
					}
				}
				None => break,
			}
		}
		if self.pending_bodies.is_empty() {
			return false;
		}
		self.step += 1;
		let head_h = self.node.head().map(|t| t.height).unwrap_or(0);
		let hh_h = self.node.header_head().map(|t| t.height).unwrap_or(0);
		self.stat(&format!("header-first:gap={}", hh_h.saturating_sub(head_h)));
		out.raw(&format!(
			"# hist={}: node accepted {} header(s) ahead of the body head: head height {} header_head height {}",
			self.name,
			self.pending_bodies.len(),
			head_h,
			hh_h
		));
		if head_h != self.kit.blks[self.head].height || hh_h != head_h + self.pending_bodies.len() as u64 {
			out.raw(&format!("#STAT header-first:UNEXPECTED heads: head {} header_head {}", head_h, hh_h));
		}
		// nothing changed for the pool: the oracles (joint validity, the mineable block on the REAL
		// head) run in this state
		self.obs(out, "headers accepted ahead of the body");
		true
	}

	/// the body of the oldest header-only block arrives
	fn deliver_pending(&mut self, out: &mut Out) -> bool {
		if self.pending_bodies.is_empty() {
			return false;
		}
		let id = self.pending_bodies.remove(0);
		let r = self.deliver(out, id);
		self.stat(&format!("header-first:body-delivered:{}", r));
		true
	}

	fn gap(&self) -> u64 {
		self.pending_bodies.len() as u64
	}

	fn evict(&mut self, out: &mut Out) {
		let before: Vec<Transaction> = self.pool.txpool.entries.iter().map(|e| e.tx.clone()).collect();
		let r = catch(std::panic::AssertUnwindSafe(|| self.pool.evict_from_txpool()));
		self.step += 1;
		let after: Vec<Transaction> = self.pool.txpool.entries.iter().map(|e| e.tx.clone()).collect();
		let gone: Vec<Transaction> = before.iter().filter(|b| !after.contains(b)).cloned().collect();
		if !gone.is_empty() {
			self.stat("evictions-explicit");
		}
		self.note_evicted(&gone);
		out.line("pool evict", if r.is_ok() { "ok" } else { "panic" });
		let vs = match gone.first() {
			Some(g) => self.tx_sig(g),
			None => "none".to_string(),
		};
		out.line("pool evicted", &vs);
		self.eviction_oracle(out, &before, &after, "pool evict");
		self.stat("op:evict");
		self.obs(out, "pool evict");
	}

	fn truncate_cache(&mut self, out: &mut Out, keep_from: usize) {
		let cutoff = {
			let c = self.pool.reorg_cache.read();
			match c.get(keep_from) {
				Some(e) => e.tx_at,
				None => return,
			}
		};
		let n = self.pool.reorg_cache.read().iter().take_while(|e| e.tx_at < cutoff).count();
		self.pool.truncate_reorg_cache(cutoff);
		out.line(&format!("pool truncate_cache {}", n), "ok");
		self.stat("op:truncate-cache");
		self.obs(out, "pool truncate_cache");
	}

	/// submit `aggregate(pooled ++ news)`; statistics on the remainder the pool is left with after
	/// deaggregation (the new part): does it pay its own minimum, does the aggregate as a whole
	fn submit_aggregate(
		&mut self,
		out: &mut Out,
		pooled: &[Transaction],
		news: &[Transaction],
		label: &str,
		src: TxSource,
		stem: bool,
		stem_ok: bool,
	) -> bool {
		let mut parts = pooled.to_vec();
		parts.extend(news.iter().cloned());
		let agg = match transaction::aggregate(&parts) {
			Ok(a) => a,
			Err(_) => return false,
		};
		let rem_fee: u64 = news.iter().map(|t| t.fee()).sum();
		let rem_w: u64 = news.iter().map(|t| t.weight()).sum();
		let rem_low = !news.is_empty() && rem_fee < rem_w * FEE_BASE;
		let agg_meets = agg.shifted_fee() >= agg.weight() * FEE_BASE;
		let full = format!(
			"{}{}{}",
			label,
			if rem_low { ":remainder-below-minimum" } else { "" },
			if rem_low && agg_meets { ":aggregate-meets-minimum" } else if rem_low { ":aggregate-below-minimum" } else { "" }
		);
		let t = self.add_tx(out, agg, vec![], &full);
		let res = self.submit(out, t, src, stem, stem_ok);
		self.stat("aggpool:submissions");
		self.stat(&format!("aggpool:pooled-parts={}:new-parts={}", pooled.len(), news.len()));
		if stem {
			self.stat("aggpool:stem");
		}
		if rem_low {
			self.stat("aggpool:remainder-below-minimum");
			self.stat(&format!("aggpool:remainder-below-minimum:{}", res));
			if agg_meets {
				self.stat("aggpool:remainder-below-minimum-but-aggregate-meets-minimum");
				self.stat(&format!("aggpool:remainder-below-minimum-but-aggregate-meets-minimum:{}", res));
			}
		} else {
			self.stat(&format!("aggpool:remainder-pays-minimum:{}", res));
		}
		true
	}

	// -------------------------------------------------------------------------------------
	// generators

	/// outputs spendable at the node's head (mature coinbase or plain), not spent by any pool tx
	fn free_utxo(&self) -> Vec<usize> {
		let spent = self.pool_spent();
		let nh = self.next_height();
		self.node_utxo()
			.iter()
			.filter(|(o, h, cb)| (!*cb || nh >= *h + MATURITY) && !spent.contains(o))
			.map(|(o, _, _)| *o)
			.collect()
	}
	fn pool_spent(&self) -> BTreeSet<usize> {
		let mut s = BTreeSet::new();
		for e in self.pool.txpool.entries.iter().chain(self.pool.stempool.entries.iter()) {
			for i in self.tx_ins(&e.tx) {
				s.insert(i);
			}
		}
		s
	}
	/// (output id, index of the creating entry) for unspent outputs created in the txpool
	fn pool_outputs(&self, with_stem: bool) -> Vec<(usize, usize)> {
		let spent = self.pool_spent();
		let mut v = vec![];
		for (n, e) in self.pool.txpool.entries.iter().enumerate() {
			for o in self.tx_outs(&e.tx) {
				if !spent.contains(&o) {
					v.push((o, n));
				}
			}
		}
		if with_stem {
			for (n, e) in self.pool.stempool.entries.iter().enumerate() {
				for o in self.tx_outs(&e.tx) {
					if !spent.contains(&o) {
						v.push((o, 1000 + n));
					}
				}
			}
		}
		v
	}

	fn weight_of(nin: usize, nout: usize) -> u64 {
		nin as u64 + 21 * nout as u64 + 3
	}

	/// spend `inputs` into `nout` outputs with the given fee
	fn spend(&mut self, inputs: &[usize], nout: usize, fee: u64, features: Option<KernelFeatures>) -> Option<Transaction> {
		let total: u64 = inputs.iter().map(|i| self.kit.outs[*i].value).sum();
		if total <= fee + nout as u64 {
			return None;
		}
		let rest = total - fee;
		let mut vals = vec![];
		let each = rest / nout as u64;
		for k in 0..nout {
			vals.push(if k + 1 == nout { rest - each * (nout as u64 - 1) } else { each });
		}
		let f = features.unwrap_or(KernelFeatures::Plain { fee: FeeFields::new(0, fee).ok()? });
		self.build(inputs, &vals, f).ok()
	}

	fn good_fee(rng: &mut Rng, w: u64) -> u64 {
		let min = w * FEE_BASE;
		match rng.below(6) {
			0 => min,
			1 => min + rng.below(w),
			2 => 2 * min - 1,
			3 => 2 * min + rng.below(3 * w),
			4 => min * rng.range(1, 5),
			_ => min + rng.below(6 * w),
		}
	}
}

/// (sum of kernel fees) >> (largest kernel fee_shift), from the kernel features directly
fn shifted_fee_of(tx: &Transaction) -> u64 {
	let mut fee = 0u64;
	let mut shift = 0u8;
	for k in tx.kernels() {
		let f = match k.features {
			KernelFeatures::Plain { fee } => Some(fee),
			KernelFeatures::HeightLocked { fee, .. } => Some(fee),
			KernelFeatures::NoRecentDuplicate { fee, .. } => Some(fee),
			KernelFeatures::Coinbase => None,
		};
		if let Some(f) = f {
			fee = fee.saturating_add(f.fee());
			shift = shift.max(f.fee_shift());
		}
	}
	fee >> shift
}

fn pick_src(rng: &mut Rng) -> TxSource {
	match rng.below(4) {
		0 => TxSource::PushApi,
		1 => TxSource::Broadcast,
		2 => TxSource::Fluff,
		_ => TxSource::EmbargoExpired,
	}
}

/// grow the chain by `n` blocks (each with a coinbase; some split an earlier coinbase into plain outputs)
fn warm_up(w: &mut World, out: &mut Out, rng: &mut Rng, n: usize) {
	for k in 0..n {
		let mut txs = vec![];
		let free = w.free_utxo();
		if k >= 3 && !free.is_empty() && rng.chance(2, 3) {
			let o = *rng.pick(&free);
			let nout = rng.range(2, 4) as usize;
			if let Some(t) = w.spend(&[o], nout, 5, None) {
				txs.push(t);
			}
		}
		let parent = w.head;
		if let Some(id) = w.build_block(parent, rng.range(1, 3), &txs) {
			w.deliver(out, id);
		}
	}
}

/// one random submission; returns false if nothing could be generated
fn random_submission(w: &mut World, out: &mut Out, rng: &mut Rng) -> bool {
	let free = w.free_utxo();
	let pool_outs = w.pool_outputs(false);
	let all_pool_outs = w.pool_outputs(true);
	let stem = rng.chance(1, 3);
	let stem_ok = !rng.chance(1, 5);
	let src = pick_src(rng);
	let nh = w.next_height();
	// a child of a transaction that was evicted (its input exists nowhere any more), paying well so
	// that it would not be the next eviction victim; before the next block and after it
	let live = w.evicted_live();
	if live.is_empty() && w.pool.txpool.entries.len() > w.cfg.max_pool && !free.is_empty() && rng.chance(1, 2) {
		// the txpool is over capacity: a well-paying independent transaction, so that the next
		// admission evicts something whose children can then be tried
		let o = *rng.pick(&free);
		let nout = rng.range(1, 2) as usize;
		let fee = World::weight_of(1, nout) * FEE_BASE * rng.range(3, 9);
		return match w.spend(&[o], nout, fee, None) {
			Some(tx) => {
				let t = w.add_tx(out, tx, vec![], "valid-at-capacity");
				w.submit(out, t, src, false, true);
				true
			}
			None => false,
		};
	}
	if !live.is_empty() && rng.chance(1, 4) {
		let o = *rng.pick(&live);
		let mut ins = vec![o];
		let mut label = "child-of-evicted";
		if !free.is_empty() && rng.chance(1, 4) {
			ins.push(*rng.pick(&free));
			label = "child-of-evicted-plus-utxo";
		}
		let fee = World::weight_of(ins.len(), 1) * FEE_BASE * rng.range(5, 12);
		return match w.spend(&ins, 1, fee, None) {
			Some(tx) => {
				let t = w.add_tx(out, tx, vec![], label);
				w.submit(out, t, src, stem, stem_ok);
				true
			}
			None => false,
		};
	}
	// a STEM transaction on an output that a transaction of the reorg cache spends which is no longer
	// in the txpool (evicted): a later reorg replays the cached transaction into the txpool, and the
	// stem transaction then conflicts with it
	{
		let pooled: Vec<Vec<TxKernel>> = w.pool.txpool.entries.iter().map(|e| e.tx.kernels().to_vec()).collect();
		let spent = w.pool_spent();
		let cached_only: Vec<Transaction> =
			w.pool.reorg_cache.read().iter().filter(|e| !pooled.contains(&e.tx.kernels().to_vec())).map(|e| e.tx.clone()).collect();
		let cands: Vec<usize> = cached_only
			.iter()
			.flat_map(|t| w.tx_ins(t))
			.filter(|i| free.contains(i) && !spent.contains(i))
			.collect();
		if !cands.is_empty() && rng.chance(1, 3) {
			let o = *rng.pick(&cands);
			let fee = World::weight_of(1, 1) * FEE_BASE * rng.range(2, 6);
			return match w.spend(&[o], 1, fee, None) {
				Some(tx) => {
					let t = w.add_tx(out, tx, vec![], "stem-conflicts-with-cached-evicted-tx");
					let r = w.submit(out, t, src, true, true);
					if r == "ok" {
						w.stat("replay:stem-entry-conflicting-with-reorg-cache-admitted");
					}
					true
				}
				None => false,
			};
		}
	}
	let kind = if w.focus && rng.chance(3, 5) { rng.range(5, 41) } else { rng.below(100) };
	let (tx, tags, label): (Option<Transaction>, Vec<String>, &str) = if kind < 5 {
		// re-creates an existing commitment (same key, same value): one that is unspent at the
		// head, one that a pool transaction creates, or one that a pool transaction spends
		if free.is_empty() {
			return false;
		}
		let unspent_plain: Vec<usize> = w.node_utxo().iter().filter(|x| !x.2).map(|x| x.0).collect();
		let spent_by_pool: Vec<usize> = w.pool_spent().into_iter().filter(|o| unspent_plain.contains(o)).collect();
		let (target, label) = match rng.below(3) {
			0 if !unspent_plain.is_empty() => (*rng.pick(&unspent_plain), "recreates-unspent-commitment"),
			1 if !pool_outs.is_empty() => (rng.pick(&pool_outs).0, "recreates-pool-created-commitment"),
			_ if !spent_by_pool.is_empty() => (*rng.pick(&spent_by_pool), "recreates-commitment-the-pool-spends"),
			_ => return false,
		};
		let tv = w.kit.outs[target].value;
		let fee = World::good_fee(rng, World::weight_of(1, 2));
		let src_out = free.iter().cloned().find(|o| *o != target && w.kit.outs[*o].value > tv + fee + 1);
		match src_out {
			Some(o) => {
				let v = w.kit.outs[o].value;
				let spec = TxSpec { inputs: vec![o], outputs: vec![(tv, Some(target)), (v - tv - fee, None)], kernel: KSpec::Plain(fee) };
				(w.kit.build_tx(&spec).ok(), vec![], label)
			}
			None => return false,
		}
	} else if kind < 22 {
		// plain valid spend of unspent output(s)
		if free.is_empty() {
			return false;
		}
		let nin = if free.len() >= 2 && rng.chance(1, 4) { 2 } else { 1 };
		let mut ins = vec![];
		let mut f = free.clone();
		for _ in 0..nin {
			let i = rng.below(f.len() as u64) as usize;
			ins.push(f.swap_remove(i));
		}
		let nout = rng.range(1, 3) as usize;
		let fee = World::good_fee(rng, World::weight_of(nin, nout));
		if rng.chance(1, 5) {
			// with a fee shift: pays 2^shift times as much, the pool's fee test shifts it back
			let shift = rng.range(1, 5);
			let f = KernelFeatures::Plain { fee: FeeFields::new(shift, fee << shift).unwrap() };
			(w.spend(&ins, nout, fee << shift, Some(f)), vec![], "valid-fee-shifted")
		} else {
			(w.spend(&ins, nout, fee, None), vec![], "valid")
		}
	} else if kind < 42 {
		// dependent: spends output(s) created in the pool (child / grandchild / multi-parent)
		let cands = if stem { &all_pool_outs } else { &pool_outs };
		if cands.is_empty() {
			return false;
		}
		let (o1, p1) = *rng.pick(cands);
		let mut ins = vec![o1];
		let mut label = "dependent";
		if rng.chance(2, 5) {
			// a second parent: from another pool tx when possible
			let other: Vec<(usize, usize)> = cands.iter().cloned().filter(|(o, p)| *o != o1 && *p != p1).collect();
			let same: Vec<(usize, usize)> = cands.iter().cloned().filter(|(o, p)| *o != o1 && *p == p1).collect();
			if !other.is_empty() && rng.chance(3, 4) {
				ins.push(rng.pick(&other).0);
				label = "dependent-two-parents";
			} else if !same.is_empty() {
				ins.push(rng.pick(&same).0);
				label = "dependent-two-outputs-of-one-parent";
			}
		} else if !free.is_empty() && rng.chance(1, 4) {
			ins.push(*rng.pick(&free));
			label = "dependent-plus-utxo";
		}
		let nout = rng.range(1, 2) as usize;
		let fee = World::good_fee(rng, World::weight_of(ins.len(), nout));
		if rng.chance(1, 5) {
			let shift = rng.range(1, 5);
			let f = KernelFeatures::Plain { fee: FeeFields::new(shift, fee << shift).unwrap() };
			(w.spend(&ins, nout, fee << shift, Some(f)), vec![], "dependent-fee-shifted")
		} else {
			(w.spend(&ins, nout, fee, None), vec![], label)
		}
	} else if kind < 50 {
		// conflicting double spend of something a pool tx already spends
		let spent: Vec<usize> = w.pool_spent().into_iter().collect();
		if spent.is_empty() {
			return false;
		}
		let o = *rng.pick(&spent);
		let fee = World::good_fee(rng, World::weight_of(1, 1)) * 3;
		(w.spend(&[o], 1, fee, None), vec![], "conflicting-double-spend")
	} else if kind < 57 {
		// exact duplicate of an earlier submission
		let c: Vec<usize> = (0..w.txs.len()).filter(|i| w.txs[*i].tags.is_empty()).collect();
		if c.is_empty() {
			return false;
		}
		let t = *rng.pick(&c);
		w.stat("txkind:duplicate-resubmission");
		w.submit(out, t, src, stem, stem_ok);
		return true;
	} else if kind < 67 {
		// aggregated form: pooled tx(s) + new one(s); the new part pays its own minimum or not
		let pooled: Vec<Transaction> = w.pool.txpool.entries.iter().map(|e| e.tx.clone()).collect();
		if pooled.is_empty() {
			return false;
		}
		let mut old = vec![rng.pick(&pooled).clone()];
		let mut label = "aggregate-pooled+new";
		if pooled.len() >= 2 && rng.chance(1, 3) {
			let other = rng.pick(&pooled).clone();
			if other != old[0] {
				old.push(other);
				label = "aggregate-two-pooled+new";
			}
		}
		let old_fee: u64 = old.iter().map(|t| t.fee()).sum();
		let old_w: u64 = old.iter().map(|t| t.weight()).sum();
		let w11 = World::weight_of(1, 1);
		// fee of the new part: good, or below its own minimum (far below / just below / exactly what
		// the aggregate as a whole still needs, when that is below the new part's own minimum)
		let pick_fee = |rng: &mut Rng| -> u64 {
			let min = w11 * FEE_BASE;
			match rng.below(6) {
				0 | 1 => World::good_fee(rng, w11),
				2 => 1,
				3 => min - 1,
				4 => min / 2,
				_ => {
					let need = ((old_w + w11) * FEE_BASE).saturating_sub(old_fee);
					need.max(1).min(min - 1)
				}
			}
		};
		let mut news = vec![];
		let shape = rng.below(8);
		if shape < 5 && !free.is_empty() {
			let o = *rng.pick(&free);
			let fee = pick_fee(rng);
			if let Some(t) = w.spend(&[o], 1, fee, None) {
				news.push(t);
			}
			if rng.chance(1, 4) && free.len() >= 2 {
				let o2 = free.iter().cloned().find(|x| *x != o).unwrap();
				let fee2 = pick_fee(rng);
				if let Some(t) = w.spend(&[o2], 1, fee2, None) {
					news.push(t);
				}
			}
		} else if shape < 7 {
			// a new child of the pooled tx, aggregated with its parent (cut-through)
			let outs = w.tx_outs(&old[0]);
			let spent = w.pool_spent();
			if let Some(o) = outs.iter().find(|o| !spent.contains(o)) {
				let fee = pick_fee(rng);
				if let Some(t) = w.spend(&[*o], 1, fee, None) {
					news.push(t);
					label = "aggregate-pooled+its-new-child";
				}
			}
		} else {
			label = "aggregate-of-pooled-only";
		}
		if old.len() + news.len() < 2 {
			return false;
		}
		return w.submit_aggregate(out, &old, &news, label, src, stem, stem_ok);
	} else if kind < 74 {
		// fee below the minimum for the weight
		if free.is_empty() && pool_outs.is_empty() {
			return false;
		}
		let o = if !pool_outs.is_empty() && rng.chance(1, 3) { rng.pick(&pool_outs).0 } else if !free.is_empty() { *rng.pick(&free) } else { return false };
		let nout = rng.range(1, 2) as usize;
		let min = World::weight_of(1, nout) * FEE_BASE;
		let fee = match rng.below(3) {
			0 => min - 1,
			1 => rng.range(1, min - 1),
			_ => min / 2,
		};
		(w.spend(&[o], nout, fee, None), vec![], "low-fee")
	} else if kind < 76 {
		// fee shifted: pays 2^shift times the minimum or not quite
		if free.is_empty() {
			return false;
		}
		let o = *rng.pick(&free);
		let shift = rng.range(1, 3);
		let min = World::weight_of(1, 1) * FEE_BASE;
		let enough = rng.chance(1, 2);
		let fee = if enough { min << shift } else { (min << shift) - 1 };
		let f = KernelFeatures::Plain { fee: FeeFields::new(shift, fee).unwrap() };
		(w.spend(&[o], 1, fee, Some(f)), vec![], if enough { "fee-shift-enough" } else { "fee-shift-too-low" })
	} else if kind < 78 {
		// over the transaction weight limit (226 on this chain type): 11 outputs
		if free.is_empty() {
			return false;
		}
		let o = *rng.pick(&free);
		let mut ins = vec![o];
		if free.len() >= 2 && rng.chance(1, 2) {
			ins.push(free.iter().cloned().find(|x| *x != o).unwrap());
		}
		let fee = World::weight_of(ins.len(), 11) * FEE_BASE + 3;
		(w.spend(&ins, 11, fee, None), vec![], "over-weight")
	} else if kind < 86 {
		// crypto-level faults
		if free.is_empty() {
			return false;
		}
		let o = *rng.pick(&free);
		let fee = World::good_fee(rng, World::weight_of(1, 2));
		let mut tx = match w.spend(&[o], 2, fee, None) {
			Some(t) => t,
			None => return false,
		};
		match rng.below(3) {
			0 => {
				// a well-formed signature made for another kernel
				let other = w.kit.blks[w.head].block.kernels()[0].excess_sig.clone();
				tx.body.kernels[0].excess_sig = other;
				(Some(tx), vec!["sig".to_string()], "invalid-signature")
			}
			1 => {
				tx.offset = w.kit.blks[w.head].block.header.total_kernel_offset.clone();
				(Some(tx), vec!["sum".to_string()], "invalid-kernel-sum")
			}
			_ => {
				let p0 = tx.body.outputs[0].proof;
				tx.body.outputs[0].proof = tx.body.outputs[1].proof;
				tx.body.outputs[1].proof = p0;
				(Some(tx), vec!["rproof".to_string()], "invalid-rangeproof")
			}
		}
	} else if kind < 90 {
		// immature coinbase
		let c: Vec<usize> = w.node_utxo().iter().filter(|(_, h, cb)| *cb && nh < *h + MATURITY).map(|x| x.0).collect();
		if c.is_empty() {
			return false;
		}
		let o = *rng.pick(&c);
		let fee = World::good_fee(rng, World::weight_of(1, 1));
		(w.spend(&[o], 1, fee, None), vec![], "immature-coinbase")
	} else if kind < 96 {
		// height locked at next-1 .. next+2
		if free.is_empty() {
			return false;
		}
		let o = *rng.pick(&free);
		let fee = World::good_fee(rng, World::weight_of(1, 1));
		let lock = nh + rng.below(4) - 1;
		let f = KernelFeatures::HeightLocked { fee: FeeFields::new(0, fee).unwrap(), lock_height: lock };
		(w.spend(&[o], 1, fee, Some(f)), vec![], if lock <= nh { "height-locked-ok" } else { "height-locked-beyond-next" })
	} else {
		// NRD kernel (fresh excess): allowed from header version 4
		if free.is_empty() {
			return false;
		}
		let o = *rng.pick(&free);
		let fee = World::good_fee(rng, World::weight_of(1, 1));
		let f = KernelFeatures::NoRecentDuplicate {
			fee: FeeFields::new(0, fee).unwrap(),
			relative_height: NRDRelativeHeight::new(rng.range(1, 3)).unwrap(),
		};
		(w.spend(&[o], 1, fee, Some(f)), vec![], "nrd-kernel")
	};
	let tx = match tx {
		Some(t) => t,
		None => return false,
	};
	let t = w.add_tx(out, tx, tags, label);
	w.submit(out, t, src, stem, stem_ok);
	true
}

/// mine a block on the node's head; returns false if nothing was delivered
fn random_block(w: &mut World, out: &mut Out, rng: &mut Rng) -> bool {
	let pooled: Vec<Transaction> = w.pool.txpool.entries.iter().map(|e| e.tx.clone()).collect();
	let stemmed: Vec<Transaction> = w.pool.stempool.entries.iter().map(|e| e.tx.clone()).collect();
	let kind = rng.below(10);
	let mut txs: Vec<Transaction> = vec![];
	let label;
	if kind < 3 {
		txs = w.pool.prepare_mineable_transactions().unwrap_or_default();
		label = "block:mineable-set";
	} else if kind < 6 {
		// arbitrary subset (dependencies may be cut: the builder then rejects and we fall back)
		for t in pooled.iter().chain(stemmed.iter()) {
			if rng.chance(1, 2) {
				txs.push(t.clone());
			}
		}
		label = "block:arbitrary-subset";
	} else if kind < 9 {
		// a conflicting spend of something the pool spends, plus maybe some pool txs
		let spent: Vec<usize> = w.pool_spent().into_iter().collect();
		let unspent_now: BTreeSet<usize> = w.node_utxo().iter().map(|x| x.0).collect();
		let c: Vec<usize> = spent.into_iter().filter(|o| unspent_now.contains(o)).collect();
		if let Some(o) = c.first().cloned() {
			if let Some(t) = w.spend(&[o], 1, 7, None) {
				for p in pooled.iter() {
					if rng.chance(1, 3) && !w.tx_ins(p).contains(&o) {
						txs.push(p.clone());
					}
				}
				txs.push(t);
			}
		}
		label = "block:conflicting-spend";
	} else {
		label = "block:empty";
	}
	let parent = w.head;
	let mut id = w.build_block(parent, rng.range(1, 3), &txs);
	if id.is_none() && !txs.is_empty() {
		// keep a prefix that applies
		while id.is_none() && !txs.is_empty() {
			txs.pop();
			id = w.build_block(parent, 1, &txs);
		}
	}
	match id {
		Some(id) => {
			w.stat(label);
			w.stat_max("block:max-txs", txs.len() as u64);
			w.deliver(out, id);
			true
		}
		None => false,
	}
}

/// a competing branch from an ancestor of the head with more total work
fn random_reorg(w: &mut World, out: &mut Out, rng: &mut Rng) -> bool {
	let depth = rng.range(1, 3) as usize;
	let mut anc = w.head;
	let mut old_path = vec![];
	for _ in 0..depth {
		match w.kit.blks[anc].parent {
			Some(p) => {
				old_path.push(anc);
				anc = p;
			}
			None => break,
		}
	}
	if old_path.is_empty() {
		return false;
	}
	let head_work = w.kit.blks[w.head].work;
	let anc_work = w.kit.blks[anc].work;
	let need = head_work - anc_work + 1;
	// fewer, equal or more blocks than the branch being replaced
	let nblocks = match rng.below(4) {
		0 => 1,
		1 => old_path.len(),
		_ => old_path.len() + rng.below(2) as usize,
	}
	.max(1);
	let pooled: Vec<Transaction> = w.pool.txpool.entries.iter().map(|e| e.tx.clone()).collect();
	// transactions confirmed on the branch being abandoned (they sit in the reorg cache if they came through the pool)
	let mut tip = anc;
	let mut ids = vec![];
	for k in 0..nblocks {
		let diff = if k + 1 == nblocks {
			let done: u64 = w.kit.blks[tip].work - anc_work;
			need.saturating_sub(done).max(1) + rng.below(2)
		} else {
			rng.range(1, 2)
		};
		let mut txs = vec![];
		let st = w.states[&tip].clone();
		let h = w.kit.blks[tip].height + 1;
		match rng.below(4) {
			0 => {
				// some pool txs get confirmed on the new branch too (when they apply there)
				for p in &pooled {
					if rng.chance(1, 2) && w.tx_ins(p).iter().all(|i| st.utxo.contains_key(i)) {
						txs.push(p.clone());
					}
				}
			}
			1 => {
				// a conflicting spend of an output some pool tx spends
				let spent: Vec<usize> = w.pool_spent().into_iter().filter(|o| match st.utxo.get(o) {
					Some((c, cb)) => !*cb || h >= *c + MATURITY,
					None => false,
				}).collect();
				if !spent.is_empty() {
					let o = *rng.pick(&spent);
					if let Some(t) = w.spend(&[o], 1, 9, None) {
						txs.push(t);
					}
				}
			}
			_ => {}
		}
		match w.build_block(tip, diff, &txs).or_else(|| w.build_block(tip, diff, &[])) {
			Some(id) => {
				ids.push(id);
				tip = id;
			}
			None => return false,
		}
	}
	w.stat("op:reorg-branch");
	for id in ids {
		w.deliver(out, id);
	}
	true
}

fn print_cfg(w: &World, out: &mut Out) {
	out.raw("pool reset");
	out.raw(&format!(
		"pool cfg max_pool={} max_stem={} mine_w={} fee_base={} max_tx_w={} max_block_w={} maturity={}",
		w.cfg.max_pool,
		w.cfg.max_stem,
		w.cfg.mine_w,
		FEE_BASE,
		global::max_tx_weight(),
		global::max_block_weight(),
		MATURITY
	));
}

// ------------------------------------------------------------------------------------------
// scripted scenarios (run first)

/// DESIGN §9 item 7: a child with parents in two different buckets is skipped by
/// `bucket_transactions`; eviction then removes one of its parents.
fn scenario_evict_witness(work: &str, out: &mut Out, total: &mut BTreeMap<String, u64>) {
	let mut rng = Rng::new(77);
	let mut w = World::new(work, "evict-witness", Cfg { max_pool: 2, max_stem: 50, mine_w: 250 });
	print_cfg(&w, out);
	warm_up(&mut w, out, &mut rng, 6);
	w.print_head(out);
	let free = w.free_utxo();
	if free.len() < 3 {
		out.raw("#STAT scenario:evict-witness=not-enough-outputs");
		return;
	}
	// parents A (high fee rate) and B (low fee rate), child C spending one output of each, then D
	let wa = World::weight_of(1, 1);
	let a = w.spend(&[free[0]], 1, wa * FEE_BASE * 4, None).unwrap();
	let b = w.spend(&[free[1]], 1, wa * FEE_BASE, None).unwrap();
	let oa = w.tx_outs(&a)[0];
	let ob = w.tx_outs(&b)[0];
	let c = w.spend(&[oa, ob], 1, World::weight_of(2, 1) * FEE_BASE * 3, None).unwrap();
	let d = w.spend(&[free[2]], 1, wa * FEE_BASE * 5, None).unwrap();
	let ta = w.add_tx(out, a, vec![], "witness-parent-A");
	let tb = w.add_tx(out, b, vec![], "witness-parent-B");
	let tc = w.add_tx(out, c, vec![], "witness-child-C");
	let td = w.add_tx(out, d, vec![], "witness-D");
	w.submit(out, ta, TxSource::Broadcast, false, true);
	w.submit(out, tb, TxSource::Broadcast, false, true);
	w.submit(out, tc, TxSource::Broadcast, false, true);
	// the pool now holds 3 > max_pool_size = 2: the next admission evicts
	w.submit(out, td, TxSource::Broadcast, false, true);
	// a block heals the pool (reconcile re-validates)
	let parent = w.head;
	if let Some(id) = w.build_block(parent, 1, &[]) {
		w.deliver(out, id);
	}
	for (k, v) in &w.stats {
		*total.entry(k.clone()).or_insert(0) += v;
	}
}

/// second eviction witness (found with the model): a low-fee child gets its own bucket but
/// registers its outputs under its parent's bucket, the high-fee grandchild is aggregated into the
/// parent's bucket, and the child - on which the grandchild depends - is evicted.
fn scenario_evict_chain(work: &str, out: &mut Out, total: &mut BTreeMap<String, u64>) {
	let mut rng = Rng::new(81);
	let mut w = World::new(work, "evict-single-parent-chain", Cfg { max_pool: 50, max_stem: 50, mine_w: 250 });
	print_cfg(&w, out);
	warm_up(&mut w, out, &mut rng, 6);
	w.print_head(out);
	let free = w.free_utxo();
	if free.is_empty() {
		return;
	}
	let w11 = World::weight_of(1, 1);
	let a = w.spend(&[free[0]], 1, w11 * FEE_BASE * 20, None).unwrap();
	let oa = w.tx_outs(&a)[0];
	let b = w.spend(&[oa], 1, w11 * FEE_BASE, None).unwrap();
	let ob = w.tx_outs(&b)[0];
	let c = w.spend(&[ob], 1, w11 * FEE_BASE * 40, None).unwrap();
	let ta = w.add_tx(out, a, vec![], "chain-parent-A");
	let tb = w.add_tx(out, b, vec![], "chain-child-B-low-fee");
	let tc = w.add_tx(out, c, vec![], "chain-grandchild-C");
	w.submit(out, ta, TxSource::Broadcast, false, true);
	w.submit(out, tb, TxSource::Broadcast, false, true);
	w.submit(out, tc, TxSource::Broadcast, false, true);
	w.evict(out);
	for (k, v) in &w.stats {
		*total.entry(k.clone()).or_insert(0) += v;
	}
}

/// Regression scenario for C14-low-fee-admitted-over-capacity (repaired in 3aef11dd9: the fee is
/// checked before the capacity).  `is_acceptable` used to return OverCapacity before looking at the
/// fee and `add_to_pool` treats that as "admit, then evict": low-fee transactions submitted while
/// the txpool is over capacity must be refused with LowFee.
fn scenario_low_fee_at_capacity(work: &str, out: &mut Out, total: &mut BTreeMap<String, u64>) {
	let mut rng = Rng::new(78);
	let mut w = World::new(work, "low-fee-at-capacity", Cfg { max_pool: 1, max_stem: 50, mine_w: 250 });
	print_cfg(&w, out);
	warm_up(&mut w, out, &mut rng, 7);
	w.print_head(out);
	let free = w.free_utxo();
	if free.len() < 4 {
		out.raw("#STAT scenario:low-fee-at-capacity=not-enough-outputs");
		return;
	}
	let w11 = World::weight_of(1, 1);
	// two parents in different buckets, then a low-fee child of both (skipped by the buckets, so
	// never chosen for eviction)
	let a = w.spend(&[free[0]], 1, w11 * FEE_BASE * 4, None).unwrap();
	let b = w.spend(&[free[1]], 1, w11 * FEE_BASE * 2, None).unwrap();
	let oa = w.tx_outs(&a)[0];
	let ob = w.tx_outs(&b)[0];
	let low_child = w.spend(&[oa, ob], 1, 1, None).unwrap();
	let low_single = w.spend(&[free[2]], 1, 1, None).unwrap();
	let ta = w.add_tx(out, a, vec![], "lowfee-parent-A");
	let tb = w.add_tx(out, b, vec![], "lowfee-parent-B");
	let tl = w.add_tx(out, low_single, vec![], "lowfee-single");
	let tc = w.add_tx(out, low_child, vec![], "lowfee-child-of-two");
	w.submit(out, ta, TxSource::Broadcast, false, true);
	w.submit(out, tb, TxSource::Broadcast, false, true);
	// 2 > max_pool_size = 1: over capacity from here on
	w.submit(out, tl, TxSource::Broadcast, false, true);
	w.submit(out, tc, TxSource::Broadcast, false, true);
	for (k, v) in &w.stats {
		*total.entry(k.clone()).or_insert(0) += v;
	}
}

/// A transaction paying less than its own minimum fee must not get in as the remainder of an
/// aggregate with an already-pooled, overpaying transaction (deaggregation path of
/// `TransactionPool::add_to_pool`): P overpaying by various margins, N below / at its minimum, the
/// aggregate as a whole below / exactly at / above the aggregate's minimum; one and two new
/// parts; two pooled parts; dependent remainder; stem and fluff. Never over capacity.
fn scenario_aggregate_low_fee(work: &str, out: &mut Out, total: &mut BTreeMap<String, u64>) {
	let mut rng = Rng::new(82);
	let mut w = World::new(work, "aggregate-low-fee", Cfg { max_pool: 50, max_stem: 50, mine_w: 250 });
	print_cfg(&w, out);
	warm_up(&mut w, out, &mut rng, 9);
	w.print_head(out);
	let free = w.free_utxo();
	if free.len() < 8 {
		out.raw("#STAT scenario:aggregate-low-fee=not-enough-outputs");
		return;
	}
	let w11 = World::weight_of(1, 1);
	let min = w11 * FEE_BASE; // 50; the aggregate of two such transactions weighs 50: minimum 100
	// pooled, overpaying by different margins
	let p_fees = [min + 1, 2 * min - 1, 3 * min, 20 * min];
	let mut ps = vec![];
	for (k, f) in p_fees.iter().enumerate() {
		let p = w.spend(&[free[k]], 1, *f, None).unwrap();
		let t = w.add_tx(out, p.clone(), vec![], "agglow-pooled-P");
		w.submit(out, t, TxSource::Broadcast, false, true);
		ps.push(p);
	}
	// new transactions on one and the same unspent output (at most one of them can ever get in)
	let n_fees = [1u64, min / 2, min - 1, min, min + 1];
	let mut ns = vec![];
	for f in n_fees.iter() {
		ns.push(w.spend(&[free[4]], 1, *f, None).unwrap());
	}
	// alone, the low ones are refused
	for n in ns.iter().take(3) {
		let t = w.add_tx(out, n.clone(), vec![], "agglow-N-alone");
		w.submit(out, t, TxSource::Broadcast, false, true);
	}
	// aggregate([P, N]) for every margin x every N fee, fluff; low N first
	for n in ns.iter() {
		for p in ps.iter() {
			w.submit_aggregate(out, &[p.clone()], &[n.clone()], "agglow:P+N", TxSource::Broadcast, false, true);
		}
	}
	// stem: no deaggregation on that path
	for n in ns.iter().take(3) {
		w.submit_aggregate(out, &[ps[3].clone()], &[n.clone()], "agglow:P+N", TxSource::PushApi, true, true);
		w.submit_aggregate(out, &[ps[3].clone()], &[n.clone()], "agglow:P+N", TxSource::PushApi, true, false);
	}
	// P with two new transactions: one low, one fine; both low
	let n2_low = w.spend(&[free[5]], 1, 1, None).unwrap();
	let n2_ok = w.spend(&[free[6]], 1, 3 * min, None).unwrap();
	let n2_low_b = w.spend(&[free[6]], 1, min - 1, None).unwrap();
	w.submit_aggregate(out, &[ps[3].clone()], &[n2_low.clone(), n2_low_b.clone()], "agglow:P+N1+N2", TxSource::Fluff, false, true);
	w.submit_aggregate(out, &[ps[2].clone()], &[n2_low.clone(), n2_low_b], "agglow:P+N1+N2", TxSource::Fluff, false, true);
	w.submit_aggregate(out, &[ps[3].clone()], &[n2_low.clone(), n2_ok.clone()], "agglow:P+N1+N2", TxSource::Fluff, false, true);
	// two pooled transactions plus a low-fee new one
	let n3 = w.spend(&[free[7]], 1, 2, None).unwrap();
	w.submit_aggregate(out, &[ps[0].clone(), ps[3].clone()], &[n3.clone()], "agglow:P1+P2+N", TxSource::Broadcast, false, true);
	w.submit_aggregate(out, &[ps[1].clone(), ps[2].clone()], &[n3.clone()], "agglow:P1+P2+N", TxSource::EmbargoExpired, false, true);
	w.submit_aggregate(out, &[ps[1].clone(), ps[2].clone()], &[n3], "agglow:P1+P2+N", TxSource::Broadcast, true, true);
	// dependent remainder: N spends the output of P (cut-through inside the aggregate)
	for (k, f) in [1u64, min - 1, min, 4 * min].iter().enumerate() {
		let p = &ps[k % ps.len()];
		let po = w.tx_outs(p)[0];
		if let Some(child) = w.spend(&[po], 1, *f, None) {
			w.submit_aggregate(out, &[p.clone()], &[child], "agglow:P+child-of-P", TxSource::Broadcast, false, true);
		}
	}
	for (k, v) in &w.stats {
		*total.entry(k.clone()).or_insert(0) += v;
	}
}

/// a transaction that is exactly the aggregate of pooled transactions
fn scenario_full_aggregate(work: &str, out: &mut Out, total: &mut BTreeMap<String, u64>) {
	let mut rng = Rng::new(79);
	let mut w = World::new(work, "full-aggregate", Cfg { max_pool: 50, max_stem: 50, mine_w: 250 });
	print_cfg(&w, out);
	warm_up(&mut w, out, &mut rng, 6);
	w.print_head(out);
	let free = w.free_utxo();
	if free.len() < 2 {
		return;
	}
	let w11 = World::weight_of(1, 1);
	let a = w.spend(&[free[0]], 1, w11 * FEE_BASE * 2, None).unwrap();
	let b = w.spend(&[free[1]], 1, w11 * FEE_BASE * 3, None).unwrap();
	let agg = transaction::aggregate(&[a.clone(), b.clone()]).unwrap();
	let ta = w.add_tx(out, a, vec![], "agg-part-A");
	let tb = w.add_tx(out, b, vec![], "agg-part-B");
	let tg = w.add_tx(out, agg, vec![], "aggregate-of-pooled-only");
	w.submit(out, ta, TxSource::Broadcast, false, true);
	w.submit(out, tb, TxSource::Broadcast, false, true);
	w.submit(out, tg, TxSource::Broadcast, false, true);
	w.submit(out, tg, TxSource::Broadcast, true, true);
	w.evict(out);
	for (k, v) in &w.stats {
		*total.entry(k.clone()).or_insert(0) += v;
	}
}

/// a reorg onto a branch with more work but a lower height, with a height-locked transaction
/// and a spend of a just-matured coinbase in the pool
fn scenario_reorg_lower(work: &str, out: &mut Out, total: &mut BTreeMap<String, u64>) {
	let mut rng = Rng::new(80);
	let mut w = World::new(work, "reorg-lower-height", Cfg { max_pool: 50, max_stem: 50, mine_w: 250 });
	print_cfg(&w, out);
	warm_up(&mut w, out, &mut rng, 7);
	let fork_point = w.head;
	// two more blocks on the main branch
	for _ in 0..2 {
		let p = w.head;
		if let Some(id) = w.build_block(p, 1, &[]) {
			w.deliver(out, id);
		}
	}
	w.print_head(out);
	let nh = w.next_height();
	let free = w.free_utxo();
	let w11 = World::weight_of(1, 1);
	// (a) locked at exactly the next height
	let plain: Vec<usize> = free.iter().cloned().filter(|o| !w.kit.outs[*o].coinbase).collect();
	if let Some(o) = plain.first().cloned() {
		let fee = w11 * FEE_BASE * 2;
		let f = KernelFeatures::HeightLocked { fee: FeeFields::new(0, fee).unwrap(), lock_height: nh };
		if let Some(t) = w.spend(&[o], 1, fee, Some(f)) {
			let t = w.add_tx(out, t, vec![], "height-locked-ok");
			w.submit(out, t, TxSource::Broadcast, false, true);
		}
	}
	// (b) the coinbase of the fork point: mature exactly now
	let fh = w.kit.blks[fork_point].height;
	let cb: Vec<usize> = w.node_utxo().iter().filter(|(_, h, c)| *c && *h == fh).map(|x| x.0).collect();
	if let Some(o) = cb.first().cloned() {
		if let Some(t) = w.spend(&[o], 1, w11 * FEE_BASE * 2, None) {
			let t = w.add_tx(out, t, vec![], "just-matured-coinbase");
			w.submit(out, t, TxSource::Broadcast, false, true);
		}
	}
	// one block with more work than the two it replaces
	if let Some(id) = w.build_block(fork_point, 10, &[]) {
		w.deliver(out, id);
	}
	// the chain grows again: the pool heals by itself
	for _ in 0..2 {
		let p = w.head;
		if let Some(id) = w.build_block(p, 1, &[]) {
			w.deliver(out, id);
		}
	}
	for (k, v) in &w.stats {
		*total.entry(k.clone()).or_insert(0) += v;
	}
}


/// The reorg cache replays a transaction that conflicts with a STEM transaction.  The txpool goes
/// over capacity and evicts its cheapest transaction X (X stays in the reorg cache); a block brings
/// the pool back under capacity; a stem transaction S spending the same output as X is accepted
/// into the stempool, next to an unrelated stem transaction U and a stem child V of a txpool
/// output; a reorg (more work on a sibling of that block) runs `reconcile_block` and then
/// `reconcile_reorg_cache` the way `block_accepted` does: X returns to the txpool, and every
/// re-added entry reconciles the stempool - S must be gone, U and V must survive.  Variants: X in
/// the middle of the cache (followed by an entry whose re-add fails as a duplicate) / X the last
/// entry of the cache (evicted on arrival) / two conflicting stem transactions and an X whose
/// replay itself fails (its input is spent on the new branch) / the new branch confirms X.
fn scenario_reorg_replay_stem(work: &str, out: &mut Out, total: &mut BTreeMap<String, u64>, variant: usize) {
	let name = format!("reorg-replay-stem-{}", variant);
	let mut rng = Rng::new(120 + variant as u64);
	let mut w = World::new(work, &name, Cfg { max_pool: 3, max_stem: 5, mine_w: 250 });
	print_cfg(&w, out);
	warm_up(&mut w, out, &mut rng, 12);
	w.print_head(out);
	w.obs(out, "start");
	let fork_point = w.head;
	let free = w.free_utxo();
	if free.len() < 8 {
		out.raw(&format!("#STAT scenario:{}=not-enough-outputs({})", name, free.len()));
		return;
	}
	let w11 = World::weight_of(1, 1);
	let mk = |w: &mut World, out: &mut Out, o: usize, rate: u64, label: &str| -> (usize, Transaction) {
		let tx = w.spend(&[o], 1, w11 * FEE_BASE * rate, None).unwrap();
		(w.add_tx(out, tx.clone(), vec![], label), tx)
	};
	let (ta, a) = mk(&mut w, out, free[0], 6, "replay:A");
	let (tb, b) = mk(&mut w, out, free[1], 7, "replay:B");
	let (tc, _c) = mk(&mut w, out, free[2], 8, "replay:C");
	let (tx_, x) = mk(&mut w, out, free[3], 1, "replay:X-cheapest");
	let (td, d) = mk(&mut w, out, free[4], 9, "replay:D-evicting");
	w.submit(out, ta, TxSource::Broadcast, false, true);
	w.submit(out, tb, TxSource::Broadcast, false, true);
	w.submit(out, tc, TxSource::Broadcast, false, true);
	if variant == 1 {
		// X arrives last, over capacity: admitted and evicted at once - the last entry of the cache
		w.submit(out, td, TxSource::Broadcast, false, true);
		w.submit(out, tx_, TxSource::Broadcast, false, true);
	} else {
		w.submit(out, tx_, TxSource::Broadcast, false, true);
		// 4 > max_pool_size = 3: the admission of D evicts the cheapest, X
		w.submit(out, td, TxSource::Broadcast, false, true);
	}
	let x_evicted = !w.pool.txpool.entries.iter().any(|e| e.tx.kernels() == x.kernels());
	let x_cached = w.pool.reorg_cache.read().iter().any(|e| e.tx.kernels() == x.kernels());
	out.raw(&format!("#STAT scenario:{}:X-evicted={}:X-in-reorg-cache={}", name, x_evicted, x_cached));
	// a block confirming A and B: the txpool is back under its capacity, the stem path is open
	let m1 = match w.build_block(fork_point, 1, &[a.clone(), b.clone()]) {
		Some(id) => id,
		None => return,
	};
	w.deliver(out, m1);
	// stem transactions: S on the output X spends, U unrelated, V a child of the pooled D
	let (ts, _s) = mk(&mut w, out, free[3], 5, "replay:S-stem-conflicts-with-X");
	let (tu, _u) = mk(&mut w, out, free[5], 5, "replay:U-stem-unrelated");
	let od = w.tx_outs(&d)[0];
	let (tv, _v) = mk(&mut w, out, od, 5, "replay:V-stem-child-of-D");
	w.submit(out, ts, TxSource::PushApi, true, true);
	w.submit(out, tu, TxSource::PushApi, true, true);
	w.submit(out, tv, TxSource::PushApi, true, true);
	if variant == 2 {
		// a second stem transaction in conflict with the cache: a child of S (goes when S goes)
		let os = w.tx_outs(&w.txs[ts].tx.clone())[0];
		let (tw, _) = mk(&mut w, out, os, 5, "replay:W-stem-child-of-S");
		w.submit(out, tw, TxSource::PushApi, true, true);
	}
	let stem_before = w.pool.stempool.entries.len();
	// the competing branch: one block on the fork point with more work
	let branch_txs: Vec<Transaction> = match variant {
		// the new branch spends X's input itself: the replay of X fails, S goes with the block
		2 => match w.spend(&[free[3]], 1, 11, None) {
			Some(t) => vec![t],
			None => vec![],
		},
		// the new branch confirms X: S conflicts with the chain
		3 => vec![x.clone()],
		_ => vec![],
	};
	if let Some(r) = w.build_block(fork_point, 10, &branch_txs) {
		let res = w.deliver(out, r);
		out.raw(&format!("#STAT scenario:{}:competing-block={}", name, res));
	}
	let x_back = w.pool.txpool.entries.iter().any(|e| e.tx.kernels() == x.kernels());
	let stem_after = w.pool.stempool.entries.len();
	out.raw(&format!(
		"#STAT scenario:{}:X-back-in-txpool={}:stempool-before-reorg={}:after={}",
		name, x_back, stem_before, stem_after
	));
	// the chain grows: a block from the mineable set, then an empty one
	for _ in 0..2 {
		let set = w.pool.prepare_mineable_transactions().unwrap_or_default();
		let p = w.head;
		if let Some(id) = w.build_block(p, 1, &set) {
			w.deliver(out, id);
		}
	}
	merge_stats(&w, total);
}

fn merge_stats(w: &World, total: &mut BTreeMap<String, u64>) {
	for (k, v) in &w.stats {
		if k.contains("max-") {
			let e = total.entry(k.clone()).or_insert(0);
			if *v > *e {
				*e = *v;
			}
		} else {
			*total.entry(k.clone()).or_insert(0) += v;
		}
	}
}

/// Eviction at capacity, then - BEFORE the next block - children of the evicted transaction E
/// (spending an output E created, paying far more than anything pooled), on the fluff and on the
/// stem path and in both input forms; further submissions; explicit evictions back to capacity
/// (so that the stem path is open again); a block; the same children again.  For contrast a child
/// of E is already in the stempool (and, with `pooled_child`, one in the txpool) when E is evicted:
/// that is the recorded finding C14-evict-breaks-joint-validity.
fn scenario_evict_children(work: &str, out: &mut Out, total: &mut BTreeMap<String, u64>, variant: usize) {
	let (name, max_pool, pooled_child) = match variant {
		0 => ("evict-then-children-cap2", 2usize, false),
		1 => ("evict-then-children-cap2-pooled-child", 2usize, true),
		_ => ("evict-then-children-cap3", 3usize, false),
	};
	let mut rng = Rng::new(90 + variant as u64);
	let mut w = World::new(work, name, Cfg { max_pool, max_stem: 2, mine_w: 250 });
	print_cfg(&w, out);
	warm_up(&mut w, out, &mut rng, 12);
	w.print_head(out);
	w.obs(out, "start");
	let mut free = w.free_utxo();
	if free.len() < max_pool + 7 {
		out.raw(&format!("#STAT scenario:{}=not-enough-outputs({})", name, free.len()));
		return;
	}
	let mut take = || free.remove(0);
	let w11 = World::weight_of(1, 1);
	let b = TxSource::Broadcast;
	// E: three outputs, the lowest fee rate of all (2): the eviction victim
	let e_tx = w.spend(&[take()], 3, World::weight_of(1, 3) * FEE_BASE, None).unwrap();
	let eo = w.tx_outs(&e_tx);
	let te = w.add_tx(out, e_tx.clone(), vec![], "evictee-E");
	w.submit(out, te, b, false, true);
	// S: child of E, taken by the stempool while the txpool is within capacity
	let s_tx = w.spend(&[eo[1]], 1, w11 * FEE_BASE * 3, None).unwrap();
	let ts = w.add_tx(out, s_tx, vec![], "stem-child-of-E-before-eviction");
	w.submit(out, ts, TxSource::PushApi, true, true);
	// fillers up to max_pool + 1 entries (no eviction yet: is_acceptable looks at the size before)
	let mut fillers = vec![];
	let nfill = if pooled_child { max_pool - 1 } else { max_pool };
	for k in 0..nfill {
		let f = w.spend(&[take()], 1, w11 * FEE_BASE * (2 + k as u64), None).unwrap();
		let t = w.add_tx(out, f.clone(), vec![], "filler");
		w.submit_form(out, t, b, false, true, if k % 2 == 0 { Form::V2 } else { Form::V3 });
		fillers.push(f);
	}
	if pooled_child {
		// K: child of E and of a filler - two parents, skipped by bucket_transactions
		let fo = w.tx_outs(&fillers[0])[0];
		let k_tx = w.spend(&[eo[0], fo], 1, World::weight_of(2, 1) * FEE_BASE * 3, None).unwrap();
		let tk = w.add_tx(out, k_tx, vec![], "pooled-child-of-E-before-eviction");
		w.submit(out, tk, b, false, true);
	}
	w.stat_max("evict-scenario:max-txpool-before-eviction", w.pool.txpool.entries.len() as u64);
	// N1: pays well; the txpool is over capacity: admitted, then E is evicted
	let n1 = w.spend(&[take()], 2, World::weight_of(1, 2) * FEE_BASE * 4, None).unwrap();
	let tn1 = w.add_tx(out, n1.clone(), vec![], "evicting-N1");
	w.submit(out, tn1, b, false, true);
	let e_gone = !w.pool.txpool.entries.iter().any(|x| x.tx.kernels() == e_tx.kernels());
	out.raw(&format!("#STAT scenario:{}:E-evicted={}", name, e_gone));
	// children of E submitted AFTER the eviction, before any block
	let c1 = w.spend(&[eo[2]], 1, w11 * FEE_BASE * 6, None).unwrap();
	let tc1 = w.add_tx(out, c1.clone(), vec![], "child-of-evicted");
	for form in [Form::V3, Form::V2, Form::V2WrongFeatures] {
		w.submit_form(out, tc1, b, false, true, form);
	}
	let c2 = w.spend(&[eo[2], take()], 1, World::weight_of(2, 1) * FEE_BASE * 6, None).unwrap();
	let tc2 = w.add_tx(out, c2, vec![], "child-of-evicted-plus-utxo");
	for form in [Form::V3, Form::V2, Form::V2Unsorted] {
		w.submit_form(out, tc2, TxSource::PushApi, false, true, form);
	}
	// stem path while the txpool is still over capacity (it holds max_pool + 1 entries)
	w.submit_form(out, tc1, TxSource::PushApi, true, true, Form::V2);
	w.submit_form(out, tc1, TxSource::PushApi, true, false, Form::V3);
	// E itself again: nothing forbids it (admitted, and the lowest payer is evicted again)
	w.submit(out, te, TxSource::Fluff, false, true);
	w.submit_form(out, tc1, b, false, true, Form::V3);
	// further submissions: an independent one, a child of a pooled transaction, the aggregate of E
	// and its child (complete in itself)
	let n2 = w.spend(&[take()], 1, w11 * FEE_BASE * 5, None).unwrap();
	let tn2 = w.add_tx(out, n2, vec![], "valid");
	w.submit_form(out, tn2, b, false, true, Form::V2);
	let n1o = w.tx_outs(&n1)[0];
	if let Some(ch) = w.spend(&[n1o], 1, w11 * FEE_BASE * 7, None) {
		let t = w.add_tx(out, ch, vec![], "dependent");
		w.submit(out, t, b, false, true);
	}
	if let Ok(agg) = transaction::aggregate(&[e_tx.clone(), c1.clone()]) {
		let t = w.add_tx(out, agg, vec![], "aggregate-of-evicted-parent-and-child");
		w.submit(out, t, b, false, true);
	}
	w.submit_form(out, tc1, b, false, true, Form::V2);
	// explicit evictions until the txpool is within capacity: the stem path is open again
	let mut guard = 0;
	while w.pool.txpool.entries.len() > max_pool && guard < 6 {
		w.evict(out);
		guard += 1;
	}
	let c3 = w.spend(&[eo[2]], 2, World::weight_of(1, 2) * FEE_BASE * 5, None).unwrap();
	let tc3 = w.add_tx(out, c3, vec![], "child-of-evicted");
	w.submit_form(out, tc3, TxSource::PushApi, true, true, Form::V3);
	w.submit_form(out, tc3, TxSource::PushApi, true, true, Form::V2);
	w.submit_form(out, tc3, TxSource::PushApi, true, false, Form::V2WrongFeatures);
	w.submit_form(out, tc1, b, false, true, Form::V3);
	w.submit_form(out, tc2, b, true, true, Form::V2);
	// a block mined from the mineable set
	let txs = w.pool.prepare_mineable_transactions().unwrap_or_default();
	let parent = w.head;
	let id = w.build_block(parent, 1, &txs).or_else(|| w.build_block(parent, 1, &[]));
	if let Some(id) = id {
		w.deliver(out, id);
	}
	// after the block: E's outputs still exist nowhere (unless the aggregate was mined)
	w.submit_form(out, tc1, b, false, true, Form::V3);
	w.submit_form(out, tc3, TxSource::PushApi, true, true, Form::V2);
	// E again, then its child: now the parent is there
	w.submit(out, te, b, false, true);
	w.submit_form(out, tc1, b, false, true, Form::V2);
	w.submit_form(out, tc3, TxSource::PushApi, true, true, Form::V3);
	let parent = w.head;
	if let Some(id) = w.build_block(parent, 1, &[]) {
		w.deliver(out, id);
	}
	merge_stats(&w, total);
}

/// Submission forms and standalone validity: every kind in both input forms ("commit only" and
/// "features and commit", the latter also with wrong claimed features and in the wrong order) on
/// the fluff path, the stem path and the stem path with a relay that refuses.
fn scenario_forms(work: &str, out: &mut Out, total: &mut BTreeMap<String, u64>) {
	let mut rng = Rng::new(95);
	let mut w = World::new(work, "forms", Cfg { max_pool: 50, max_stem: 50, mine_w: 250 });
	print_cfg(&w, out);
	warm_up(&mut w, out, &mut rng, 14);
	w.print_head(out);
	w.obs(out, "start");
	let nh = w.next_height();
	let all_free = w.free_utxo();
	let mut plain: Vec<usize> = all_free.iter().cloned().filter(|o| !w.kit.outs[*o].coinbase).collect();
	let mut cbs: Vec<usize> = all_free.iter().cloned().filter(|o| w.kit.outs[*o].coinbase).collect();
	out.raw(&format!("#STAT scenario:forms:free-plain={} free-coinbase={}", plain.len(), cbs.len()));
	if plain.len() + cbs.len() < 12 || plain.is_empty() || cbs.is_empty() {
		out.raw("#STAT scenario:forms=not-enough-outputs");
		return;
	}
	let any = |plain: &mut Vec<usize>, cbs: &mut Vec<usize>| -> usize {
		if cbs.len() > plain.len() { cbs.remove(0) } else { plain.remove(0) }
	};
	let paths: [(bool, bool, TxSource); 3] =
		[(false, true, TxSource::PushApi), (true, true, TxSource::PushApi), (true, false, TxSource::Broadcast)];
	let w11 = World::weight_of(1, 1);
	// over the weight limit: 1 input + 11 outputs (235 > 226), and 2 inputs (one coinbase, one
	// plain) + 11 outputs in every form
	let heavy1 = w.spend(&[any(&mut plain, &mut cbs)], 11, World::weight_of(1, 11) * FEE_BASE * 2, None).unwrap();
	let th1 = w.add_tx(out, heavy1, vec![], "over-weight:1in-11out");
	for form in [Form::V3, Form::V2, Form::V2WrongFeatures] {
		for (stem, ok, src) in paths.iter() {
			w.submit_form(out, th1, *src, *stem, *ok, form);
		}
	}
	let heavy2 = w.spend(&[plain.remove(0), cbs.remove(0)], 11, World::weight_of(2, 11) * FEE_BASE * 2, None).unwrap();
	let th2 = w.add_tx(out, heavy2, vec![], "over-weight:2in-11out");
	for form in [Form::V3, Form::V2, Form::V2Unsorted] {
		w.submit_form(out, th2, TxSource::PushApi, false, true, form);
		w.submit_form(out, th2, TxSource::PushApi, true, true, form);
	}
	// exactly one over the limit, then exactly at the limit: 14 resp. 13 inputs + 10 outputs +
	// 1 kernel = 227 resp. 226 (the block built from the latter weighs exactly max_block_weight)
	if plain.len() + cbs.len() >= 14 + 12 {
		let mut ins = vec![];
		for _ in 0..14 {
			ins.push(any(&mut plain, &mut cbs));
		}
		let over = w.spend(&ins, 10, World::weight_of(14, 10) * FEE_BASE, None).unwrap();
		let tover = w.add_tx(out, over, vec![], "over-weight:14in-10out-weight-227");
		for (form, stem) in [(Form::V3, false), (Form::V2, true), (Form::V2WrongFeatures, false), (Form::V3, true)] {
			w.submit_form(out, tover, TxSource::PushApi, stem, true, form);
		}
		let back = ins.pop().unwrap();
		if w.kit.outs[back].coinbase { cbs.push(back) } else { plain.push(back) }
		let at = w.spend(&ins, 10, World::weight_of(13, 10) * FEE_BASE, None).unwrap();
		let tat = w.add_tx(out, at, vec![], "valid:13in-10out-weight-226");
		w.submit_form(out, tat, TxSource::PushApi, true, true, Form::V2);
		w.submit_form(out, tat, TxSource::PushApi, true, true, Form::V3); // in the stempool: fluffed
		// mined at once so that the rest of the scenario has room in the mineable set
		let txs = w.pool.prepare_mineable_transactions().unwrap_or_default();
		w.stat_max("forms:max-mineable-weight-at-limit", txs.iter().map(|t| t.weight()).sum());
		let parent = w.head;
		if let Some(id) = w.build_block(parent, 1, &txs) {
			w.deliver(out, id);
		}
	} else {
		out.raw("#STAT scenario:forms:weight-limit-boundary=not-enough-outputs");
	}
	// the heaviest simple transaction that is allowed: 1 input + 10 outputs (214)
	let o = any(&mut plain, &mut cbs);
	let okheavy = w.spend(&[o], 10, World::weight_of(1, 10) * FEE_BASE, None).unwrap();
	let tok = w.add_tx(out, okheavy, vec![], "valid:1in-10out-weight-214");
	w.submit_form(out, tok, TxSource::PushApi, false, true, Form::V2);
	// below the minimum fee: one below, half, 1
	for fee in [w11 * FEE_BASE - 1, w11 * FEE_BASE / 2] {
		let o = any(&mut plain, &mut cbs);
		let low = w.spend(&[o], 1, fee, None).unwrap();
		let tl = w.add_tx(out, low, vec![], "low-fee");
		for form in [Form::V3, Form::V2, Form::V2WrongFeatures] {
			for (stem, ok, src) in paths.iter() {
				w.submit_form(out, tl, *src, *stem, *ok, form);
			}
		}
		// never admitted: the output stays free
		if w.kit.outs[o].coinbase {
			cbs.push(o)
		} else {
			plain.push(o)
		}
	}
	// failing standalone validation: signature, kernel sum, range proof
	for fault in 0..3 {
		let o = any(&mut plain, &mut cbs);
		let mut tx = w.spend(&[o], 2, World::weight_of(1, 2) * FEE_BASE * 2, None).unwrap();
		let (tag, label) = match fault {
			0 => {
				tx.body.kernels[0].excess_sig = w.kit.blks[w.head].block.kernels()[0].excess_sig.clone();
				("sig", "invalid-signature")
			}
			1 => {
				tx.offset = w.kit.blks[w.head].block.header.total_kernel_offset.clone();
				("sum", "invalid-kernel-sum")
			}
			_ => {
				let p0 = tx.body.outputs[0].proof;
				tx.body.outputs[0].proof = tx.body.outputs[1].proof;
				tx.body.outputs[1].proof = p0;
				("rproof", "invalid-rangeproof")
			}
		};
		let t = w.add_tx(out, tx, vec![tag.to_string()], label);
		for form in [Form::V3, Form::V2] {
			for (stem, ok, src) in paths.iter() {
				w.submit_form(out, t, *src, *stem, *ok, form);
			}
		}
		if w.kit.outs[o].coinbase { cbs.push(o) } else { plain.push(o) }
	}
	// an immature coinbase: refused whatever the inputs claim
	let imm: Vec<usize> = w.node_utxo().iter().filter(|(_, h, cb)| *cb && nh < *h + MATURITY).map(|x| x.0).collect();
	if let Some(o) = imm.first().cloned() {
		let tx = w.spend(&[o], 1, w11 * FEE_BASE * 2, None).unwrap();
		let t = w.add_tx(out, tx, vec![], "immature-coinbase");
		for form in [Form::V3, Form::V2, Form::V2WrongFeatures] {
			w.submit_form(out, t, TxSource::PushApi, false, true, form);
			w.submit_form(out, t, TxSource::PushApi, true, true, form);
		}
	}
	// valid, two inputs (coinbase + plain): wrong order refused, then admitted in the other forms
	let v2in = w.spend(&[plain.remove(0), cbs.remove(0)], 2, World::weight_of(2, 2) * FEE_BASE * 2, None).unwrap();
	let tv = w.add_tx(out, v2in.clone(), vec![], "valid:2in-coinbase+plain");
	w.submit_form(out, tv, TxSource::PushApi, false, true, Form::V2Unsorted);
	w.submit_form(out, tv, TxSource::PushApi, true, true, Form::V2Unsorted);
	w.submit_form(out, tv, TxSource::PushApi, true, true, Form::V2WrongFeatures); // into the stempool
	w.submit_form(out, tv, TxSource::PushApi, true, true, Form::V3); // already there: fluffed
	w.submit_form(out, tv, TxSource::Broadcast, false, true, Form::V2); // duplicate
	// valid single input: each form on each path, a fresh transaction each time
	for form in [Form::V3, Form::V2, Form::V2WrongFeatures] {
		for (stem, ok, src) in paths.iter() {
			if plain.is_empty() && cbs.is_empty() {
				break;
			}
			let o = any(&mut plain, &mut cbs);
			let tx = w.spend(&[o], 1, World::good_fee(&mut rng, w11), None).unwrap();
			let t = w.add_tx(out, tx, vec![], "valid");
			w.submit_form(out, t, *src, *stem, *ok, form);
		}
	}
	// children of pooled transactions (pool-created outputs are plain; v2x claims coinbase)
	for form in [Form::V2, Form::V2WrongFeatures, Form::V3] {
		let outs = w.pool_outputs(false);
		if let Some((o, _)) = outs.first().cloned() {
			let tx = w.spend(&[o], 1, w11 * FEE_BASE * 3, None).unwrap();
			let t = w.add_tx(out, tx, vec![], "dependent");
			w.submit_form(out, t, TxSource::PushApi, form == Form::V3, true, form);
		}
	}
	// aggregate of a pooled transaction and a new one, in v2 form (deaggregated on the fluff path)
	let pooled: Vec<Transaction> = w.pool.txpool.entries.iter().map(|e| e.tx.clone()).collect();
	if let (Some(p), false) = (pooled.first(), plain.is_empty() && cbs.is_empty()) {
		let o = any(&mut plain, &mut cbs);
		let n = w.spend(&[o], 1, w11 * FEE_BASE * 2, None).unwrap();
		w.default_form = Form::V2;
		w.submit_aggregate(out, &[p.clone()], &[n], "aggregate-pooled+new", TxSource::PushApi, false, true);
		w.default_form = Form::V3;
	}
	// and a block
	let txs = w.pool.prepare_mineable_transactions().unwrap_or_default();
	let parent = w.head;
	if let Some(id) = w.build_block(parent, 1, &txs) {
		w.deliver(out, id);
	}
	merge_stats(&w, total);
}


/// one node of a dependency tree: parent node (None: spends an unspent output of the chain),
/// number of outputs, fee
#[derive(Clone, Debug)]
struct Node {
	parent: Option<usize>,
	nout: usize,
	fee: u64,
	/// `fee_shift` of the kernel (HF4 priority hint): the pool's minimum-fee test uses fee >> shift
	shift: u8,
}

fn node(parent: Option<usize>, nout: usize, rate: u64) -> Node {
	// weight of a 1-input, `nout`-output, 1-kernel transaction times the wanted fee rate
	Node { parent, nout, fee: World::weight_of(1, nout) * rate + 7, shift: 0 }
}

/// as `node`, the kernel carrying a fee shift (`rate` is the UNSHIFTED fee per weight; the shifted
/// rate is rate >> shift)
fn node_s(parent: Option<usize>, nout: usize, rate: u64, shift: u8) -> Node {
	Node { parent, nout, fee: World::weight_of(1, nout) * rate + 7, shift }
}

/// Steered fee patterns over dependency TREES (see `bucket_transactions`): a child that lowers
/// its parent bucket's rate even after cut-through gets its own bucket, its descendants are indexed
/// under the parent's bucket, merged children raise the bucket's rate; eviction takes the last
/// transaction of the last bucket.  `expect_leaf`: with pool.rs as written the victim is a leaf.
fn tree_patterns() -> Vec<(&'static str, Vec<Node>, bool)> {
	// (seven of them run in the quick tier - `quick_set` below -, all in the thorough tier)
	vec![
		// P <- D, D <- E, D <- F: D lowers P's bucket rate (own bucket), E and F pay less than P's
		// rate on their own, E is the cheapest leaf, D+E+F together pay more per weight than P
		("P-D-EF:E-cheapest", vec![node(None, 1, 200), node(Some(0), 2, 102), node(Some(1), 1, 100), node(Some(1), 1, 196)], true),
		("P-D-EF:F-cheapest", vec![node(None, 1, 200), node(Some(0), 2, 102), node(Some(1), 1, 196), node(Some(1), 1, 100)], true),
		// D is the cheapest: the inner node goes while E and F stay (mechanism (b) of the finding)
		("P-D-EF:D-cheapest", vec![node(None, 1, 200), node(Some(0), 2, 100), node(Some(1), 1, 104), node(Some(1), 1, 196)], false),
		// deeper: P <- D <- E <- G and D <- F; G the cheapest leaf
		("P-D-E-G+F:G-cheapest", vec![node(None, 1, 200), node(Some(0), 2, 102), node(Some(1), 1, 104), node(Some(2), 1, 96), node(Some(1), 1, 196)], true),
		// deeper, E (inner, own bucket) the cheapest
		("P-D-E-G+F:E-cheapest", vec![node(None, 1, 200), node(Some(0), 2, 102), node(Some(1), 1, 90), node(Some(2), 1, 96), node(Some(1), 1, 196)], false),
		// every child raises the rate: one bucket [P, D, E, F], the last one goes
		("P-D-EF:all-merged", vec![node(None, 1, 100), node(Some(0), 2, 200), node(Some(1), 1, 300), node(Some(1), 1, 300)], true),
		// the root pays least of all but its descendants lift the bucket: still the leaf
		("P-D-EF:root-cheapest-merged", vec![node(None, 1, 20), node(Some(0), 2, 60), node(Some(1), 1, 80), node(Some(1), 1, 90)], true),
		// star: three children of one root with three outputs, one merged, two in own buckets
		("star:P-CDE", vec![node(None, 3, 150), node(Some(0), 1, 300), node(Some(0), 1, 40), node(Some(0), 1, 60)], true),
		// two independent trees, the cheapest transaction is a leaf of the second
		("two-trees:leaf-cheapest", vec![
			node(None, 1, 200), node(Some(0), 2, 102), node(Some(1), 1, 100), node(Some(1), 1, 196),
			node(None, 1, 180), node(Some(4), 2, 92), node(Some(5), 1, 85), node(Some(5), 1, 170),
		], true),
		// two independent trees, the cheapest is the inner node of the second
		("two-trees:inner-cheapest", vec![
			node(None, 1, 200), node(Some(0), 2, 102), node(Some(1), 1, 100), node(Some(1), 1, 196),
			node(None, 1, 180), node(Some(4), 2, 80), node(Some(5), 1, 95), node(Some(5), 1, 170),
		], false),
		// AT CAPACITY when the last node arrives (its own admission triggers the eviction), the entry
		// just before it is its parent: the new transaction pays least of all -> it is the victim
		// (own bucket at the end), never its parent
		("at-capacity:F1-F2-P-C:new-child-cheapest-own-bucket", vec![node(None, 1, 300), node(None, 1, 250), node(None, 1, 200), node(Some(2), 1, 10)], true),
		// ... pays little but enough to join its parent's bucket (223 >= 200): last of the last bucket
		("at-capacity:F1-F2-P-C:new-child-cheapest-merged", vec![node(None, 1, 300), node(None, 1, 250), node(None, 1, 200), node(Some(2), 1, 50)], true),
		// ... second child of P, the first one merged
		("at-capacity:F1-P-C1-C2:new-second-child-cheapest", vec![node(None, 1, 300), node(None, 2, 200), node(Some(1), 1, 400), node(Some(1), 1, 10)], true),
		// ... parent and child alone (max_pool_size 0)
		("at-capacity:P-C:new-child-cheapest-alone", vec![node(None, 1, 200), node(Some(0), 1, 10)], true),
		// ... the new child pays most: an independent entry goes
		("at-capacity:F1-F2-P-C:new-child-pays-most", vec![node(None, 1, 300), node(None, 1, 250), node(None, 1, 200), node(Some(2), 1, 500)], true),
		// FEE SHIFTS (the shifted fee is not additive under aggregation; `fee_rate` is unshifted).
		// Parent with fee_shift 3 whose SHIFTED rate (4) is the lowest in the pool, 0-conf child
		// without shift; two fillers; an outsider evicts
		("shift:F1-F2-P3-C0:parent-shifted-rate-lowest", vec![node(None, 1, 40), node(None, 1, 30), node_s(None, 1, 34, 3), node(Some(2), 1, 36)], true),
		// the reverse: parent without shift paying little, child with fee_shift 3
		("shift:F1-F2-P0-C3:child-shifted", vec![node(None, 1, 40), node(None, 1, 30), node(None, 1, 10), node_s(Some(2), 1, 34, 3)], true),
		// parent shifted, child lowers the bucket (own bucket), grandchild shifted
		("shift:P2-C0-G2:own-bucket-child", vec![node_s(None, 1, 100, 2), node(Some(0), 2, 12), node_s(Some(1), 1, 90, 2), node(None, 1, 50)], false),
		// at capacity when a shifted child arrives right after its shifted parent and pays least
		("at-capacity:shift:F1-F2-P1-C4:new-shifted-child-cheapest", vec![node(None, 1, 300), node(None, 1, 250), node_s(None, 1, 200, 1), node_s(Some(2), 1, 33, 4)], true),
		// the bucket of D+E+F would outrank P's if they were bucketed together (221 vs 200): P must stay
		("P-D-EF:subtree-outranks-root", vec![node(None, 1, 200), node(Some(0), 2, 150), node(Some(1), 1, 160), node(Some(1), 1, 199)], true),
	]
}

/// random steered tree: shape and, per node, "lowers" (below the parent's rate) or "raises"
fn random_tree(rng: &mut Rng) -> Vec<Node> {
	let n = rng.range(3, 7) as usize;
	let root_rate = rng.range(80, 250);
	let mut nodes = vec![];
	let mut rates = vec![];
	let mut free_outs: Vec<usize> = vec![]; // node indices with an unspent output left
	let mut outs_left: Vec<usize> = vec![];
	for k in 0..n {
		let parent = if k == 0 || free_outs.is_empty() || rng.chance(1, 8) { None } else { Some(*rng.pick(&free_outs)) };
		let nout = rng.range(1, 3) as usize;
		let base = match parent {
			Some(p) => rates[p],
			None => root_rate + rng.below(40),
		};
		let rate = match (parent, rng.below(5)) {
			(None, _) => base,
			(_, 0) | (_, 1) => (base * rng.range(40, 99) / 100).max(3), // lowers
			(_, 2) => base.saturating_sub(1).max(3),                       // just below
			(_, 3) => base + rng.below(3),                                 // about equal
			_ => base * rng.range(110, 250) / 100,                         // raises
		};
		if let Some(p) = parent {
			outs_left[p] -= 1;
			if outs_left[p] == 0 {
				free_outs.retain(|x| *x != p);
			}
		}
		nodes.push(node(parent, nout, rate));
		rates.push(rate);
		outs_left.push(nout);
		free_outs.push(k);
	}
	nodes
}

/// Build each tree in an (emptied) txpool whose `max_pool_size` is one below the size of the
/// tree, trigger evictions with well-paying independent transactions and follow up: child of the
/// victim, more evictions, a block.
fn scenario_evict_trees(work: &str, out: &mut Out, total: &mut BTreeMap<String, u64>, part: usize, nrandom: usize) {
	let mut rng = Rng::new(seed_from_env().wrapping_mul(31).wrapping_add(300 + part as u64));
	let name = format!("evict-trees-{}", part);
	let mut w = World::new(work, &name, Cfg { max_pool: 3, max_stem: 2, mine_w: 250 });
	print_cfg(&w, out);
	warm_up(&mut w, out, &mut rng, 11);
	w.print_head(out);
	w.obs(out, "start");
	let mut trees: Vec<(String, Vec<Node>, Option<bool>)> = vec![];
	let quick_set = [
		"at-capacity:F1-F2-P-C:new-child-cheapest-own-bucket",
		"at-capacity:F1-F2-P-C:new-child-cheapest-merged",
		"at-capacity:F1-P-C1-C2:new-second-child-cheapest",
		"shift:F1-F2-P3-C0:parent-shifted-rate-lowest",
		"shift:F1-F2-P0-C3:child-shifted",
		"P-D-EF:E-cheapest",
		"P-D-EF:F-cheapest",
		"P-D-EF:D-cheapest",
		"P-D-E-G+F:G-cheapest",
		"P-D-EF:all-merged",
		"two-trees:leaf-cheapest",
		"P-D-EF:subtree-outranks-root",
	];
	let thorough = tier_thorough();
	let parts = TREE_PARTS;
	let selected: Vec<(&'static str, Vec<Node>, bool)> =
		tree_patterns().into_iter().filter(|(l, _, _)| thorough || quick_set.contains(l)).collect();
	for (k, (label, nodes, leaf)) in selected.into_iter().enumerate() {
		if k % parts == part {
			trees.push((label.to_string(), nodes, Some(leaf)));
		}
	}
	let rounds = if thorough { 3 } else { 2 };
	for k in 0..nrandom {
		trees.push((format!("random-{}", k), random_tree(&mut rng), None));
	}
	for (label, nodes, expect_leaf) in trees {
		let free = w.free_utxo();
		let roots = nodes.iter().filter(|n| n.parent.is_none()).count();
		if free.len() < roots + 3 {
			out.raw(&format!("#STAT scenario:{}:{}=not-enough-outputs({})", name, label, free.len()));
			// grow the chain a little
			for _ in 0..2 {
				let p = w.head;
				if let Some(id) = w.build_block(p, 1, &[]) {
					w.deliver(out, id);
				}
			}
			continue;
		}
		let mut free = free;
		// capacity: what is pooled already plus the tree, minus one
		// (patterns "at-capacity": minus two, so that the last node's own admission evicts)
		let at_capacity = label.starts_with("at-capacity");
		let cap = w.pool.txpool.entries.len() + nodes.len() - if at_capacity { 2 } else { 1 };
		w.pool.config.max_pool_size = cap;
		w.cfg.max_pool = cap;
		out.raw(&format!(
			"pool cfg max_pool={} max_stem={} mine_w={} fee_base={} max_tx_w={} max_block_w={} maturity={}",
			w.cfg.max_pool,
			w.cfg.max_stem,
			w.cfg.mine_w,
			FEE_BASE,
			global::max_tx_weight(),
			global::max_block_weight(),
			MATURITY
		));
		let mut built: Vec<Transaction> = vec![];
		let mut next_out: Vec<usize> = vec![];
		let mut all_in = true;
		for (k, n) in nodes.iter().enumerate() {
			let input = match n.parent {
				None => free.remove(0),
				Some(p) => {
					let outs = w.tx_outs(&built[p]);
					let o = outs[next_out[p] % outs.len()];
					next_out[p] += 1;
					o
				}
			};
			let feat = if n.shift > 0 {
				FeeFields::new(n.shift as u64, n.fee).ok().map(|fee| KernelFeatures::Plain { fee })
			} else {
				None
			};
			let tx = match w.spend(&[input], n.nout, n.fee, feat) {
				Some(t) => t,
				None => {
					all_in = false;
					break;
				}
			};
			let t = w.add_tx(out, tx.clone(), vec![], &format!("tree:{}", if label.starts_with("random") { "random" } else { label.as_str() }));
			let form = if k % 3 == 1 { Form::V2 } else { Form::V3 };
			let res = w.submit_form(out, t, TxSource::Broadcast, false, true, form);
			if res != "ok" {
				all_in = false;
			}
			built.push(tx);
			next_out.push(0);
		}
		w.stat(&format!("tree:{}:built={}", label, all_in));
		if at_capacity {
			// which node did the arrival of the last one push out?
			let pooled: Vec<Transaction> = w.pool.txpool.entries.iter().map(|e| e.tx.clone()).collect();
			let missing: Vec<usize> = (0..built.len()).filter(|k| !pooled.iter().any(|p| p.kernels() == built[*k].kernels())).collect();
			w.stat(&format!("tree:{}:victim-on-arrival-of-last-node={:?}", label, missing));
			let last = built.len() - 1;
			if let Some(parent) = nodes[last].parent {
				if missing.contains(&parent) && !missing.contains(&last) {
					// (the eviction oracle has reported it already; this names the shape)
					out.raw(&format!(
						"#ORACLE-FAIL C14 evicted-parent-of-the-transaction-just-admitted hist={} tree {}: node{} (parent of the new node{}) was evicted and the new transaction stays",
						w.name, label, parent, last
					));
				}
			}
		}
		if std::env::var("VERIF_POOL_SELFTEST").as_deref() == Ok("1") && !built.is_empty() {
			// development aid (never set by the check): feed the eviction oracle a fabricated outcome
			// in which the ROOT of the tree was removed, to see that it is reported
			let pre: Vec<Transaction> = w.pool.txpool.entries.iter().map(|e| e.tx.clone()).collect();
			let fake: Vec<Transaction> = pre.iter().filter(|t| t.kernels() != built[0].kernels()).cloned().collect();
			w.eviction_oracle(out, &pre, &fake, &format!("SELFTEST root of {} removed", label));
		}
		// the well-paying outsider: admitted, then something is evicted
		let mut victims = vec![];
		for round in 0..rounds {
			if free.is_empty() {
				break;
			}
			let before: Vec<Transaction> = w.pool.txpool.entries.iter().map(|e| e.tx.clone()).collect();
			let o = free.remove(0);
			if let Some(tx) = w.spend(&[o], 1, World::weight_of(1, 1) * (1000 + 50 * round), None) {
				let t = w.add_tx(out, tx, vec![], "tree-evicting-outsider");
				w.submit(out, t, TxSource::Broadcast, false, true);
			}
			let after: Vec<Transaction> = w.pool.txpool.entries.iter().map(|e| e.tx.clone()).collect();
			for b in before.iter().filter(|b| !after.contains(b)) {
				let k = built.iter().position(|x| x.kernels() == b.kernels());
				victims.push(k);
				if round == 0 {
					let is_leaf = match k {
						Some(k) => !nodes.iter().enumerate().any(|(m, nd)| nd.parent == Some(k) && after.iter().any(|a| a.kernels() == built[m].kernels())),
						None => true,
					};
					w.stat(&format!("tree:{}:first-victim=node{:?}:leaf={}", label, k, is_leaf));
					if let Some(exp) = expect_leaf {
						if exp != is_leaf {
							out.raw(&format!(
								"#STAT tree:{}:UNEXPECTED first victim node{:?} leaf={} (pattern designed for leaf={})",
								label, k, is_leaf, exp
							));
						}
					}
				}
				// a child of the victim, submitted after the eviction
				let outs = w.tx_outs(b);
				let spent = w.pool_spent();
				if let Some(o) = outs.iter().find(|o| !spent.contains(o)) {
					if let Some(ch) = w.spend(&[*o], 1, World::weight_of(1, 1) * 1500, None) {
						let t = w.add_tx(out, ch, vec![], "child-of-evicted");
						w.submit_form(out, t, TxSource::Broadcast, false, true, if round == 1 { Form::V2 } else { Form::V3 });
					}
				}
			}
		}
		// blocks until the pool is empty again
		for _ in 0..3 {
			if w.pool.txpool.entries.is_empty() && w.pool.stempool.entries.is_empty() {
				break;
			}
			let txs = w.pool.prepare_mineable_transactions().unwrap_or_default();
			let parent = w.head;
			let id = w.build_block(parent, 1, &txs).or_else(|| w.build_block(parent, 1, &[]));
			if let Some(id) = id {
				w.deliver(out, id);
			}
		}
	}
	merge_stats(&w, total);
}


/// Block connection and txpool admissions with a NON-EMPTY stempool of 1, 2, 3 entries that are
/// each valid directly on the chain head (plus, with `dep`, one that spends a txpool output):
/// an empty block; a fluffed transaction double-spending the input of one stem entry; a block
/// double-spending the input of another; a stem entry arriving fluffed; a block from the mineable
/// set.  After every step stempool + txpool are re-aggregated and validated on the head (`jvs`).
fn scenario_stempool_reconcile(work: &str, out: &mut Out, total: &mut BTreeMap<String, u64>) {
	let mut rng = Rng::new(seed_from_env().wrapping_mul(17).wrapping_add(401));
	let mut w = World::new(work, "stempool-reconcile", Cfg { max_pool: 50, max_stem: 50, mine_w: 250 });
	print_cfg(&w, out);
	warm_up(&mut w, out, &mut rng, 16);
	w.print_head(out);
	w.obs(out, "start");
	let w11 = World::weight_of(1, 1);
	let block = |w: &mut World, out: &mut Out, txs: &[Transaction]| {
		let parent = w.head;
		let id = w.build_block(parent, 1, txs).or_else(|| w.build_block(parent, 1, &[]));
		if let Some(id) = id {
			w.deliver(out, id);
		}
	};
	for (n, dep) in [(2usize, false), (3, false), (1, false), (2, true), (3, true), (1, true)] {
		let label = format!("stem{}{}", n, if dep { "+dep" } else { "" });
		let mut free = w.free_utxo();
		let need = n + 4 + if dep { 1 } else { 0 };
		if free.len() < need {
			out.raw(&format!("#STAT scenario:stempool-reconcile:{}=not-enough-outputs({})", label, free.len()));
			block(&mut w, out, &[]);
			block(&mut w, out, &[]);
			continue;
		}
		let mut stem_ids: Vec<(usize, usize)> = vec![]; // (tx id, the output it spends)
		let mut t_out = None;
		if dep {
			// a txpool transaction with two outputs and a stem entry spending one of them
			let tt = w.spend(&[free.remove(0)], 2, World::weight_of(1, 2) * FEE_BASE * 3, None).unwrap();
			let o = w.tx_outs(&tt)[0];
			let t = w.add_tx(out, tt, vec![], "stemrec:txpool-parent");
			w.submit(out, t, TxSource::Broadcast, false, true);
			let sd = w.spend(&[o], 1, w11 * FEE_BASE * 2, None).unwrap();
			let t = w.add_tx(out, sd, vec![], "stemrec:stem-child-of-txpool");
			w.submit_form(out, t, TxSource::PushApi, true, true, Form::V2);
			t_out = Some(o);
		}
		for k in 0..n {
			let o = free.remove(0);
			let st = w.spend(&[o], 1 + k % 2, World::weight_of(1, 1 + k % 2) * FEE_BASE * (2 + k as u64), None).unwrap();
			let t = w.add_tx(out, st, vec![], "stemrec:stem-on-head");
			w.submit_form(out, t, TxSource::PushApi, true, true, if k % 2 == 0 { Form::V3 } else { Form::V2 });
			stem_ids.push((t, o));
		}
		let on_head = w
			.pool
			.stempool
			.entries
			.iter()
			.filter(|e| w.tx_ins(&e.tx).iter().all(|i| w.unspent_on_head(*i)))
			.count();
		w.stat(&format!("stemrec:{}:stem-entries={}:valid-on-head={}", label, w.pool.stempool.entries.len(), on_head));
		// A: an empty block connects while the stempool is full
		block(&mut w, out, &[]);
		w.stat(&format!("stemrec:{}:after-empty-block:stem-entries={}", label, w.pool.stempool.entries.len()));
		// B: a fluffed transaction double-spends the input of the middle stem entry
		let (_, o_mid) = stem_ids[n / 2];
		if let Some(x) = w.spend(&[o_mid], 1, w11 * FEE_BASE * 4, None) {
			let t = w.add_tx(out, x, vec![], "stemrec:fluff-double-spend-of-stem-input");
			w.submit(out, t, TxSource::Broadcast, false, true);
		}
		w.stat(&format!("stemrec:{}:after-fluff-conflict:stem-entries={}", label, w.pool.stempool.entries.len()));
		if let Some(o) = t_out {
			// B': a fluffed transaction spends the txpool output the dependent stem entry spends
			if let Some(x) = w.spend(&[o], 1, w11 * FEE_BASE * 5, None) {
				let t = w.add_tx(out, x, vec![], "stemrec:fluff-double-spend-of-txpool-output");
				w.submit(out, t, TxSource::Broadcast, false, true);
			}
			w.stat(&format!("stemrec:{}:after-fluff-conflict-on-txpool-output:stem-entries={}", label, w.pool.stempool.entries.len()));
		}
		// C: a block double-spends the input of the first stem entry (if that is another one)
		if n >= 2 {
			let (_, o_first) = stem_ids[0];
			if let Some(y) = w.spend(&[o_first], 1, 9, None) {
				block(&mut w, out, &[y]);
			}
			w.stat(&format!("stemrec:{}:after-block-conflict:stem-entries={}", label, w.pool.stempool.entries.len()));
		}
		// D: the last stem entry arrives fluffed (the very same transaction)
		if n >= 3 || n == 1 {
			let (t_last, _) = stem_ids[n - 1];
			if n == 1 {
				// its input was double-spent in B; re-submitting shows the refusal
			}
			w.submit_form(out, t_last, TxSource::Fluff, false, true, Form::V3);
			w.stat(&format!("stemrec:{}:after-same-tx-fluffed:stem-entries={}", label, w.pool.stempool.entries.len()));
		}
		// E: a block from the mineable set
		let txs = w.pool.prepare_mineable_transactions().unwrap_or_default();
		block(&mut w, out, &txs);
		w.stat(&format!("stemrec:{}:after-mined-block:stem-entries={}", label, w.pool.stempool.entries.len()));
		// clean up: whatever is left in the stempool is fluffed and mined
		let left: Vec<Transaction> = w.pool.stempool.entries.iter().map(|e| e.tx.clone()).collect();
		for (t, _) in stem_ids.iter() {
			if left.iter().any(|l| l.kernels() == w.txs[*t].tx.kernels()) {
				w.submit_form(out, *t, TxSource::EmbargoExpired, false, true, Form::V3);
			}
		}
		for _ in 0..2 {
			if w.pool.txpool.entries.is_empty() {
				break;
			}
			let txs = w.pool.prepare_mineable_transactions().unwrap_or_default();
			block(&mut w, out, &txs);
		}
	}
	merge_stats(&w, total);
}


/// Degenerate submissions: the EMPTY transaction (it decodes from the wire), transactions without
/// kernels / inputs / outputs, a kernel alone - on both paths, into an empty and a non-empty pool,
/// below and over capacity.  They must be refused (or, where consensus-valid, admitted) without a
/// panic: `fee_rate()` divides by the weight.
fn scenario_degenerate(work: &str, out: &mut Out, total: &mut BTreeMap<String, u64>) {
	use grin_core::ser::{self, ProtocolVersion};
	let mut rng = Rng::new(seed_from_env().wrapping_mul(13).wrapping_add(501));
	let mut w = World::new(work, "degenerate", Cfg { max_pool: 2, max_stem: 2, mine_w: 250 });
	print_cfg(&w, out);
	warm_up(&mut w, out, &mut rng, 9);
	w.print_head(out);
	w.obs(out, "start");
	let mut free = w.free_utxo();
	if free.len() < 6 {
		out.raw(&format!("#STAT scenario:degenerate=not-enough-outputs({})", free.len()));
		return;
	}
	// the empty transaction on the wire
	let empty = Transaction::empty();
	for pv in [2u32, 3] {
		let bytes = ser::ser_vec(&empty, ProtocolVersion(pv)).unwrap_or_default();
		let back: Result<Transaction, _> =
			ser::deserialize(&mut &bytes[..], ProtocolVersion(pv), ser::DeserializationMode::default());
		out.raw(&format!(
			"#STAT degenerate:empty-transaction:protocol-version={}:wire-bytes={}:decodes={}",
			pv,
			bytes.len(),
			back.is_ok()
		));
	}
	let w11 = World::weight_of(1, 1);
	let mut cases: Vec<(usize, &'static str)> = vec![];
	let t = w.add_tx(out, empty, vec![], "degenerate:empty");
	cases.push((t, "empty"));
	// no kernels: a valid transaction stripped of its kernel
	let mut nk = w.spend(&[free[0]], 1, w11 * FEE_BASE * 2, None).unwrap();
	nk.body.kernels.clear();
	let t = w.add_tx(out, nk, vec![], "degenerate:no-kernels");
	cases.push((t, "no-kernels"));
	// no inputs: an output and a kernel out of thin air
	if let Ok(ni) = w.build(&[], &[1000], KernelFeatures::Plain { fee: FeeFields::new(0, 100).unwrap() }) {
		let t = w.add_tx(out, ni, vec![], "degenerate:no-inputs");
		cases.push((t, "no-inputs"));
	}
	// no outputs: everything goes to the fee (consensus-valid)
	let plain: Vec<usize> = free.iter().cloned().filter(|o| !w.kit.outs[*o].coinbase && w.kit.outs[*o].value < (1u64 << 39)).collect();
	let burn_in = plain.first().cloned().or_else(|| free.iter().cloned().find(|o| w.kit.outs[*o].value < (1u64 << 39)));
	if let Some(o) = burn_in {
		let v = w.kit.outs[o].value;
		if let Ok(no) = w.build(&[o], &[], KernelFeatures::Plain { fee: FeeFields::new(0, v).unwrap() }) {
			let t = w.add_tx(out, no, vec![], "degenerate:no-outputs-all-to-fee");
			cases.push((t, "no-outputs"));
		}
		free.retain(|x| *x != o);
	}
	// a kernel alone (fee 0 and fee > 0)
	for fee in [0u64, 77] {
		match w.build(&[], &[], KernelFeatures::Plain { fee: FeeFields::new(0, fee).unwrap_or(FeeFields::zero()) }) {
			Ok(ko) => {
				let t = w.add_tx(out, ko, vec![], "degenerate:kernel-only");
				cases.push((t, "kernel-only"));
			}
			Err(e) => out.raw(&format!("#STAT degenerate:kernel-only:fee={}:cannot-be-built:{}", fee, e.replace(' ', "_"))),
		}
	}
	let paths: [(bool, bool); 3] = [(false, true), (true, true), (true, false)];
	let mut round = |w: &mut World, out: &mut Out, state: &str| {
		for (t, label) in cases.iter() {
			for (stem, ok) in paths.iter() {
				for form in [Form::V3, Form::V2] {
					let before_tx: Vec<String> = w.pool.txpool.entries.clone().iter().map(|e| w.entry_sig(e)).collect();
					let before_st: Vec<String> = w.pool.stempool.entries.clone().iter().map(|e| w.entry_sig(e)).collect();
					let res = w.submit_form(out, *t, TxSource::PushApi, *stem, *ok, form);
					w.stat(&format!("degenerate:{}:{}:{}:{}", label, state, if *stem { "stem" } else { "fluff" }, res));
					let after_tx: Vec<String> = w.pool.txpool.entries.clone().iter().map(|e| w.entry_sig(e)).collect();
					let after_st: Vec<String> = w.pool.stempool.entries.clone().iter().map(|e| w.entry_sig(e)).collect();
					if res.starts_with("panic") {
						out.raw(&format!(
							"#ORACLE-FAIL C14 pool-degenerate-transaction-panics hist=degenerate pool submit t{} ({}; pool {}; stem={} form={}) => {}",
							t, label, state, stem, form.tag(), res
						));
					} else if res != "ok" && (before_tx != after_tx || before_st != after_st) {
						out.raw(&format!(
							"#ORACLE-FAIL C14 pool-degenerate-transaction-changes-pool hist=degenerate pool submit t{} ({}; pool {}) => {} but txpool {:?} -> {:?}, stempool {:?} -> {:?}",
							t, label, state, res, before_tx, after_tx, before_st, after_st
						));
					} else if res == "ok" && *label != "no-outputs" {
						out.raw(&format!(
							"#ORACLE-FAIL C14 pool-degenerate-transaction-admitted hist=degenerate pool submit t{} ({}; pool {}; stem={} form={})",
							t, label, state, stem, form.tag()
						));
					}
				}
			}
		}
	};
	round(&mut w, out, "empty");
	// a non-empty pool below capacity
	let a = w.spend(&[free[1]], 2, World::weight_of(1, 2) * FEE_BASE * 3, None).unwrap();
	let ta = w.add_tx(out, a, vec![], "valid");
	w.submit(out, ta, TxSource::Broadcast, false, true);
	let b = w.spend(&[free[2]], 1, w11 * FEE_BASE * 2, None).unwrap();
	let tb = w.add_tx(out, b, vec![], "valid");
	w.submit(out, tb, TxSource::Broadcast, true, true);
	round(&mut w, out, "non-empty");
	// over capacity (the fee check is skipped there: the recorded low-fee finding)
	for k in 3..5 {
		if let Some(x) = w.spend(&[free[k]], 1, w11 * FEE_BASE * (k as u64), None) {
			let t = w.add_tx(out, x, vec![], "valid");
			w.submit(out, t, TxSource::Broadcast, false, true);
		}
	}
	round(&mut w, out, "over-capacity");
	let txs = w.pool.prepare_mineable_transactions().unwrap_or_default();
	let parent = w.head;
	if let Some(id) = w.build_block(parent, 1, &txs) {
		w.deliver(out, id);
	}
	merge_stats(&w, total);
}


/// C13, pool side ("a transaction spending an immature coinbase is not admitted to the pool before
/// that"): admission through the real `TransactionPool::add_to_pool` over a real chain, with the
/// inputs in BOTH representations - commit-only and features-and-commit - and, for the latter, with
/// the input's own feature byte honest or LYING (a coinbase output labelled Plain, a plain output
/// labelled Coinbase).  The label is untrusted: the decision must be the one the chain's unspent set
/// dictates.  At every head height H (the chain grows block by block) the coinbases of the blocks
/// H, H-1 (immature for the next block: refused with ImmatureCoinbase in every representation, stem
/// and fluff, every source) and H-2, H-3 (mature: admitted) are spent; young plain outputs labelled
/// Coinbase are admitted; kernels locked at next+1 are refused, at next admitted; NRD kernels one
/// below / at their relative height.  Failures are `#ORACLE-FAIL C13 …` lines.
fn scenario_maturity(work: &str, out: &mut Out, total: &mut BTreeMap<String, u64>, rounds: usize) {
	let mut rng = Rng::new(seed_from_env().wrapping_mul(29).wrapping_add(801));
	let mut w = World::new(work, "maturity", Cfg { max_pool: 50, max_stem: 50, mine_w: 250 });
	print_cfg(&w, out);
	warm_up(&mut w, out, &mut rng, 10);
	w.print_head(out);
	w.obs(out, "start");
	let w11 = World::weight_of(1, 1);
	let srcs = [TxSource::PushApi, TxSource::Broadcast, TxSource::Fluff, TxSource::EmbargoExpired, TxSource::Deaggregate];
	let forms = [Form::V3, Form::V2, Form::V2WrongFeatures];
	// (stem, relay accepts)
	let paths = [(false, true), (true, true), (true, false)];
	let mut combo = 0usize;
	let mut src_k = 0usize;
	// NRD reference kernels: (slot, height of the last occurrence on the chain)
	let mut nrd_refs: Vec<(usize, u64)> = vec![];
	let fail = |out: &mut Out, w: &World, what: &str, lhs: &str, res: &str, detail: &str| {
		out.raw(&format!(
			"#ORACLE-FAIL C13 {} hist={} head height {} (next block {}): {} => {}; {}",
			what,
			w.name,
			w.kit.blks[w.head].height,
			w.kit.blks[w.head].height + 1,
			lhs,
			res,
			detail
		));
	};
	for round in 0..rounds {
		// grow the chain: a block that splits a plain (or old coinbase) output into eight young plain
		// outputs, or - every other round - the mineable set; in round 1 the NRD reference kernels
		let mut txs: Vec<Transaction> = vec![];
		if round == 1 {
			let free = w.free_utxo();
			let plain2: Vec<usize> = free.iter().cloned().filter(|o| !w.kit.outs[*o].coinbase).take(2).collect();
			for (slot, o) in plain2.iter().enumerate() {
				let v = w.kit.outs[*o].value;
				let fee = w11 * FEE_BASE * 2;
				let spec = TxSpec { inputs: vec![*o], outputs: vec![(v - fee, None)], kernel: KSpec::Nrd(fee, 1, slot + 5) };
				if let Ok(k0) = w.kit.build_tx(&spec) {
					txs.push(k0);
				}
			}
		} else if round % 2 == 0 {
			let free = w.free_utxo();
			// prefer an old coinbase (mature for a long time) so that the fresh ones stay for the tests
			let h = w.kit.blks[w.head].height;
			let old: Vec<usize> = w
				.node_utxo()
				.iter()
				.filter(|(o, hh, cb)| free.contains(o) && (!*cb || *hh + MATURITY + 2 <= h + 1))
				.map(|x| x.0)
				.collect();
			if let Some(o) = old.first().cloned() {
				if let Some(t) = w.spend(&[o], 8, World::weight_of(1, 8) * FEE_BASE, None) {
					txs.push(t);
				}
			}
		} else {
			txs = w.pool.prepare_mineable_transactions().unwrap_or_default();
		}
		let parent = w.head;
		let id = w.build_block(parent, 1, &txs).or_else(|| w.build_block(parent, 1, &[]));
		match id {
			Some(id) => {
				if round == 1 && !txs.is_empty() && w.kit.blks[id].block.kernels().len() > 1 {
					let hh = w.kit.blks[id].height;
					nrd_refs = (0..txs.len()).map(|k| (k + 5, hh)).collect();
				}
				w.deliver(out, id);
			}
			None => continue,
		}
		let h = w.kit.blks[w.head].height;
		let next = h + 1;
		let utxo = w.node_utxo();
		let spent = w.pool_spent();
		// --- coinbases of the last four blocks
		for c in [h, h.saturating_sub(1), h.saturating_sub(2), h.saturating_sub(3)] {
			let cb = utxo.iter().find(|(o, hh, cb)| *cb && *hh == c && !spent.contains(o)).map(|x| x.0);
			let o = match cb {
				Some(o) => o,
				None => continue,
			};
			let mature = next >= c + MATURITY;
			let tx = match w.spend(&[o], 1, w11 * FEE_BASE * 2, None) {
				Some(t) => t,
				None => continue,
			};
			let t = w.add_tx(out, tx, vec![], &format!("maturity:coinbase-of-head-{}", h - c));
			let list: Vec<(Form, (bool, bool))> = if mature {
				// admitted once: one representation / path per coinbase, rotating
				combo += 1;
				vec![(forms[combo % 3], paths[(combo / 3) % 3])]
			} else {
				forms.iter().flat_map(|f| paths.iter().map(move |p| (*f, *p))).collect()
			};
			for (form, (stem, ok)) in list {
				src_k += 1;
				let src = srcs[src_k % srcs.len()];
				let res = w.submit_form(out, t, src, stem, ok, form);
				let lhs = format!(
					"coinbase o{} of block height {} spent with inputs {} ({}) src={} stem={} relay-accepts={}",
					o,
					c,
					form.tag(),
					match form {
						Form::V3 => "commit only",
						Form::V2 => "features and commit, labelled Coinbase",
						_ => "features and commit, LABELLED PLAIN",
					},
					src_letter(src),
					stem,
					ok
				);
				w.stat(&format!(
					"maturity:coinbase:{}:{}:{}:{}",
					if mature { "mature" } else { "immature" },
					form.tag(),
					if stem { "stem" } else { "fluff" },
					res
				));
				if !mature && res == "ok" {
					fail(out, &w, "pool-admits-spend-of-immature-coinbase", &lhs, &res, &format!("matures at height {}", c + MATURITY));
				} else if !mature && res != "err:ImmatureCoinbase" {
					fail(out, &w, "pool-refuses-immature-coinbase-spend-for-another-reason", &lhs, &res, "expected ImmatureCoinbase");
				} else if mature && res != "ok" {
					fail(out, &w, "pool-refuses-spend-of-mature-coinbase", &lhs, &res, &format!("mature since height {}", c + MATURITY));
				}
			}
		}
		// --- a young plain output labelled Coinbase: no maturity applies
		let spent = w.pool_spent();
		let young: Vec<usize> = utxo.iter().filter(|(o, hh, cb)| !*cb && *hh + 1 >= h && !spent.contains(o)).map(|x| x.0).collect();
		let mut young_it = young.into_iter();
		for form in [Form::V2WrongFeatures, Form::V2] {
			if let Some(o) = young_it.next() {
				if let Some(tx) = w.spend(&[o], 1, w11 * FEE_BASE * 2, None) {
					let t = w.add_tx(out, tx, vec![], "maturity:young-plain-output");
					combo += 1;
					let (stem, ok) = paths[combo % 3];
					src_k += 1;
					let src = srcs[src_k % srcs.len()];
					let res = w.submit_form(out, t, src, stem, ok, form);
					w.stat(&format!("maturity:young-plain:{}:{}:{}", form.tag(), if stem { "stem" } else { "fluff" }, res));
					if res != "ok" {
						let lhs = format!(
							"plain o{} created at height >= {} spent with inputs {} ({}) src={} stem={}",
							o,
							h.saturating_sub(1),
							form.tag(),
							if form == Form::V2WrongFeatures { "features and commit, LABELLED COINBASE" } else { "features and commit, labelled Plain" },
							src_letter(src),
							stem
						);
						fail(out, &w, "pool-refuses-spend-of-plain-output", &lhs, &res, "a plain output has no maturity, whatever the input claims");
					}
				}
			}
		}
		// --- height-locked kernels: next + 1 refused everywhere, next admitted
		let mut plain_old: Vec<usize> =
			w.free_utxo().into_iter().filter(|o| !w.kit.outs[*o].coinbase && !w.pool_spent().contains(o)).collect();
		for lock in [next + 1, next] {
			let o = match plain_old.pop() {
				Some(o) => o,
				None => break,
			};
			let fee = w11 * FEE_BASE * 2;
			let f = KernelFeatures::HeightLocked { fee: FeeFields::new(0, fee).unwrap(), lock_height: lock };
			let tx = match w.spend(&[o], 1, fee, Some(f)) {
				Some(t) => t,
				None => continue,
			};
			let t = w.add_tx(out, tx, vec![], &format!("maturity:lock-height:next+{}", lock - next));
			let list: Vec<(Form, (bool, bool))> = if lock > next {
				vec![(Form::V3, paths[0]), (Form::V2, paths[1]), (Form::V2WrongFeatures, paths[2]), (Form::V2, paths[0]), (Form::V3, paths[1])]
			} else {
				combo += 1;
				vec![(forms[combo % 3], paths[(combo / 3) % 3])]
			};
			for (form, (stem, ok)) in list {
				src_k += 1;
				let src = srcs[src_k % srcs.len()];
				let res = w.submit_form(out, t, src, stem, ok, form);
				w.stat(&format!("maturity:lock:{}:{}:{}", if lock > next { "beyond-next" } else { "at-next" }, if stem { "stem" } else { "fluff" }, res));
				let lhs = format!("kernel locked at height {} inputs {} src={} stem={}", lock, form.tag(), src_letter(src), stem);
				if lock > next && res != "err:ImmatureTransaction" {
					fail(out, &w, "pool-admits-transaction-locked-beyond-the-next-block", &lhs, &res, "expected ImmatureTransaction");
				} else if lock <= next && res != "ok" {
					fail(out, &w, "pool-refuses-transaction-whose-lock-height-is-reached", &lhs, &res, "");
				}
			}
		}
		// --- NRD kernels repeating a confirmed excess: relative height one above / at the distance
		let ver = w.node.head_header().map(|x| x.version.0).unwrap_or(0);
		if ver >= 4 {
			let mut refs_new = nrd_refs.clone();
			for (k, (slot, h0)) in nrd_refs.iter().enumerate() {
				let d = next - h0;
				for rel in [d + 1, d] {
					// the admitted one goes last and only every third round (it moves the reference)
					if rel == d && (round % 3 != k % 3) {
						continue;
					}
					let o = match plain_old.pop() {
						Some(o) => o,
						None => break,
					};
					let v = w.kit.outs[o].value;
					let fee = w11 * FEE_BASE * 2;
					let spec = TxSpec { inputs: vec![o], outputs: vec![(v - fee, None)], kernel: KSpec::Nrd(fee, rel, *slot) };
					let tx = match w.kit.build_tx(&spec) {
						Ok(t) => t,
						Err(_) => continue,
					};
					let t = w.add_tx(out, tx, vec![], &format!("maturity:nrd:d+{}", rel - d));
					combo += 1;
					let (stem, ok) = paths[combo % 3];
					let form = forms[(combo / 3) % 3];
					src_k += 1;
					let src = srcs[src_k % srcs.len()];
					// another kernel with this excess may already sit in the pool (admitted earlier)
					let pooled_same = w.pool.txpool.entries.iter().chain(w.pool.stempool.entries.iter()).any(|e| {
						e.tx.kernels().iter().any(|x| x.excess == w.txs[t].tx.kernels()[0].excess)
					});
					let res = w.submit_form(out, t, src, stem, ok, form);
					w.stat(&format!("maturity:nrd:{}:{}:{}", if rel > d { "too-recent" } else { "at-distance" }, if stem { "stem" } else { "fluff" }, res));
					let lhs = format!(
						"NRD kernel, relative height {}, excess last on the chain at height {} inputs {} src={} stem={}",
						rel, h0, form.tag(), src_letter(src), stem
					);
					if rel > d && res == "ok" {
						fail(out, &w, "pool-admits-nrd-kernel-before-its-relative-height", &lhs, &res, "");
					} else if rel <= d && res != "ok" && !pooled_same {
						fail(out, &w, "pool-refuses-nrd-kernel-at-its-relative-height", &lhs, &res, "");
					}
					let _ = &mut refs_new;
				}
			}
			// occurrences that got mined move the reference: recompute from the chain state
			if let Some(st) = w.states.get(&w.head) {
				for r in refs_new.iter_mut() {
					let ex = nrd_excess_tag(&w.kit.kc, r.0);
					if let Some((_, hh)) = st.nrd.iter().find(|(e, _)| *e == ex) {
						r.1 = *hh;
					}
				}
			}
			nrd_refs = refs_new;
		}
	}
	merge_stats(&w, total);
}

/// Coinbase maturity at admission while the HEADER chain sits on a competing fork (headers of a
/// heavier fork known header-first, its blocks not): the cutoff `next height - maturity` must be
/// read on the BODY chain.  One job per (depth of the fork point below the body head, shape of the
/// header fork): the fork's blocks hold MORE / FEWER / EQUALLY MANY outputs than the body chain at
/// the same heights (so that `output_mmr_size` of the header found at the cutoff height in the
/// header MMR differs from the body chain's in either direction), or the fork is one heavy block
/// (the header MMR is then SHORTER than the cutoff height for deeper forks).  In each state - and
/// again after each of two further body blocks - every unspent coinbase created at
/// next - maturity - 2 .. next - maturity + 2 is spent by a transaction submitted commit-only and
/// features-and-commit (immature ones also with the wrong feature claimed, and on the stem path):
/// the admission verdict must be the verdict of block validation for the same spend in the next
/// block on the body head (a scratch chain processes that block), i.e. refused with
/// ImmatureCoinbase exactly when next < created + maturity.
fn scenario_maturity_fork(work: &str, out: &mut Out, total: &mut BTreeMap<String, u64>, depth: usize, shape: usize) {
	let shape_name = ["fork-has-more-outputs", "fork-has-fewer-outputs", "fork-has-equally-many-outputs", "fork-is-one-heavy-block"][shape];
	let name = format!("maturity-fork-depth{}-{}", depth, shape_name);
	let mut w = World::new(work, &name, Cfg { max_pool: 50, max_stem: 50, mine_w: 250 });
	print_cfg(&w, out);
	let w11 = World::weight_of(1, 1);
	// common part: heights 1..4; block 3 splits the genesis coinbase into plain outputs for both sides
	for h in 1..=4u64 {
		let mut txs = vec![];
		if h == 3 {
			if let Some(o) = w.free_utxo().first().cloned() {
				if let Some(t) = w.spend(&[o], 8, World::weight_of(1, 8) * FEE_BASE, None) {
					txs.push(t);
				}
			}
		}
		let parent = w.head;
		match w.build_block(parent, 1, &txs) {
			Some(id) => {
				w.deliver(out, id);
			}
			None => return,
		}
	}
	let fork_point = w.head;
	let plain: Vec<usize> = w.node_utxo().iter().filter(|x| !x.2).map(|x| x.0).collect();
	if plain.len() < 8 {
		out.raw(&format!("#STAT {}:not-enough-plain-outputs={}", name, plain.len()));
		return;
	}
	// body chain: `depth` blocks, each with one transaction of 2 outputs (3 outputs per block)
	let mut body_plain = plain.clone();
	let mut body_block = |w: &mut World, out: &mut Out, body_plain: &mut Vec<usize>| -> bool {
		let mut txs = vec![];
		if let Some(o) = body_plain.pop() {
			if let Some(t) = w.spend(&[o], 2, World::weight_of(1, 2) * FEE_BASE, None) {
				txs.push(t);
			}
		}
		let parent = w.head;
		match w.build_block(parent, 1, &txs) {
			Some(id) => {
				w.deliver(out, id);
				true
			}
			None => false,
		}
	};
	for _ in 0..depth {
		if !body_block(&mut w, out, &mut body_plain) {
			return;
		}
	}
	// the competing fork: built on the scratch chain, only its HEADERS go to the node
	let flen = if shape == 3 { 1 } else { depth + 2 };
	let mut tip = fork_point;
	let mut fork_plain = plain.clone();
	fork_plain.reverse();
	let mut fork_ids = vec![];
	for k in 0..flen {
		let nout = match shape {
			0 => 6,
			2 => 2,
			_ => 0,
		};
		let mut txs = vec![];
		if nout > 0 {
			if let Some(o) = fork_plain.pop() {
				if let Some(t) = w.spend(&[o], nout, World::weight_of(1, nout) * FEE_BASE, None) {
					txs.push(t);
				}
			}
		}
		let diff = if k == 0 { depth as u64 + 8 } else { 1 };
		match w.build_block(tip, diff, &txs) {
			Some(id) => {
				fork_ids.push(id);
				tip = id;
			}
			None => break,
		}
	}
	let mut accepted = 0;
	for id in &fork_ids {
		let h = w.kit.blks[*id].block.header.clone();
		match w.node.process_block_header(&h, Options::SKIP_POW) {
			Ok(_) => accepted += 1,
			Err(e) => {
				out.raw(&format!("#STAT {}:fork-header-rejected:{}", name, error_class(&e)));
				break;
			}
		}
	}
	let head_h = w.node.head().map(|t| t.height).unwrap_or(0);
	let hh = w.node.header_head().unwrap();
	let on_fork = fork_ids.iter().any(|id| w.kit.blks[*id].block.hash() == hh.last_block_h);
	out.raw(&format!(
		"# hist={}: body head height {} (fork point height 4, {} body blocks above it), header_head height {} on the competing fork: {} ({} fork headers accepted)",
		name, head_h, depth, hh.height, on_fork, accepted
	));
	w.stat(&format!("maturity-fork:header-head-on-competing-fork={}", on_fork));
	w.print_head(out);
	w.obs(out, "headers of the competing fork accepted");
	let srcs = [TxSource::PushApi, TxSource::Broadcast, TxSource::Fluff];
	let mut k = 0usize;
	for extra in 0..2 {
		let h = w.node.head().map(|t| t.height).unwrap_or(0);
		let next = h + 1;
		let utxo = w.node_utxo();
		for delta in [-2i64, -1, 0, 1, 2] {
			let c = next as i64 - MATURITY as i64 + delta;
			if c < 0 || c as u64 > h {
				continue;
			}
			let c = c as u64;
			let spent = w.pool_spent();
			let o = match utxo.iter().find(|(o, hh, cb)| *cb && *hh == c && !spent.contains(o)).map(|x| x.0) {
				Some(o) => o,
				None => continue,
			};
			let mature = next >= c + MATURITY;
			let tx = match w.spend(&[o], 1, w11 * FEE_BASE * 2, None) {
				Some(t) => t,
				None => continue,
			};
			// block side: the same spend in the next block on the body head, judged by a scratch chain
			let block_ok = match w.kit.assemble(w.head, 1, &[tx.clone()], 0) {
				Ok(b) => w.kit.builder().process_block(b, Options::SKIP_POW).is_ok(),
				Err(_) => false,
			};
			let t = w.add_tx(out, tx, vec![], &format!("maturity-fork:coinbase-age:maturity{:+}", -delta));
			let list: Vec<(Form, bool)> = if mature {
				k += 1;
				vec![([Form::V3, Form::V2][(k / 2) % 2], k % 3 == 0)]
			} else {
				vec![(Form::V3, false), (Form::V2, false), (Form::V2WrongFeatures, true)]
			};
			for (form, stem) in list {
				k += 1;
				let src = srcs[k % srcs.len()];
				let res = w.submit_form(out, t, src, stem, true, form);
				w.stat(&format!(
					"maturity-fork:depth={}:{}:created-at-next-minus-{}:{}:{}:{}",
					depth + extra,
					shape_name,
					next - c,
					if mature { "mature" } else { "immature" },
					form.tag(),
					res
				));
				let here = format!(
					"hist={} body head height {} (next block {}), fork point height 4, header_head height {} on a competing fork whose blocks hold {}: coinbase o{} created at height {} (matures at {}) spent with inputs {} src={} stem={} => {}; block validation of the same spend at height {}: {}",
					w.name,
					h,
					next,
					hh.height,
					shape_name,
					o,
					c,
					c + MATURITY,
					form.tag(),
					src_letter(src),
					stem,
					res,
					next,
					if block_ok { "accepted" } else { "rejected" }
				);
				if (res == "ok") != block_ok {
					out.raw(&format!("#ORACLE-FAIL C13 pool-admission-differs-from-block-validation-of-coinbase-maturity {}", here));
				}
				if block_ok != mature {
					out.raw(&format!("#ORACLE-FAIL C13 block-validation-differs-from-the-maturity-rule {}", here));
				}
				if !mature && res != "ok" && res != "err:ImmatureCoinbase" {
					out.raw(&format!("#ORACLE-FAIL C13 pool-refuses-immature-coinbase-spend-for-another-reason {}", here));
				}
			}
		}
		if extra < 1 && !body_block(&mut w, out, &mut body_plain) {
			break;
		}
	}
	merge_stats(&w, total);
}

/// Header-first propagation: the node has accepted the HEADERS of the next two blocks but not the
/// blocks.  Transactions sitting exactly in the gap - lock height, coinbase maturity and NRD
/// relative height satisfied at header_head + 1 but not at (body) head + 1 - must be refused until
/// the body head gets there; one below / at / one above each threshold, fluff and stem.  After
/// every step the block built from the mineable set on the REAL head must be accepted.
fn scenario_header_gap(work: &str, out: &mut Out, total: &mut BTreeMap<String, u64>) {
	let mut rng = Rng::new(seed_from_env().wrapping_mul(19).wrapping_add(601));
	let mut w = World::new(work, "header-gap", Cfg { max_pool: 50, max_stem: 50, mine_w: 250 });
	print_cfg(&w, out);
	warm_up(&mut w, out, &mut rng, 12);
	// four NRD kernels (excess slots 1..4) get confirmed in one block: the reference points of the
	// relative heights (one excess per candidate below, so that they do not conflict with each other)
	let free = w.free_utxo();
	let w11 = World::weight_of(1, 1);
	let mut nrd_h0 = None;
	{
		let mut refs = vec![];
		for (slot, o) in free.iter().take(4).enumerate() {
			let v = w.kit.outs[*o].value;
			let fee = w11 * FEE_BASE * 2;
			let spec = TxSpec { inputs: vec![*o], outputs: vec![(v - fee, None)], kernel: KSpec::Nrd(fee, 1, slot + 1) };
			if let Ok(k0) = w.kit.build_tx(&spec) {
				refs.push(k0);
			}
		}
		let parent = w.head;
		if refs.len() == 4 {
			if let Some(id) = w.build_block(parent, 1, &refs) {
				if w.deliver(out, id) == "next" {
					nrd_h0 = Some(w.kit.blks[id].height);
				}
			}
		}
	}
	// one more block so that coinbases of the last three heights exist
	let parent = w.head;
	if let Some(id) = w.build_block(parent, 1, &[]) {
		w.deliver(out, id);
	}
	w.print_head(out);
	w.obs(out, "start");
	let h = w.kit.blks[w.head].height; // the body head
	out.raw(&format!("#STAT scenario:header-gap:body-head-height={} nrd-kernel-confirmed-at={:?}", h, nrd_h0));
	// candidates, built BEFORE the headers arrive (every one on its own unspent output)
	let free = w.free_utxo();
	let mut spare: Vec<usize> = free.iter().cloned().collect();
	let mut take = |spare: &mut Vec<usize>| -> Option<usize> { if spare.is_empty() { None } else { Some(spare.remove(0)) } };
	// (label, tx id, the body-head height from which it is admissible)
	let mut cands: Vec<(String, usize, u64)> = vec![];
	for lock in [h + 1, h + 2, h + 3, h + 4] {
		if let Some(o) = take(&mut spare) {
			let fee = w11 * FEE_BASE * 2;
			let f = KernelFeatures::HeightLocked { fee: FeeFields::new(0, fee).unwrap(), lock_height: lock };
			if let Some(tx) = w.spend(&[o], 1, fee, Some(f)) {
				let t = w.add_tx(out, tx, vec![], &format!("gap:lock-height:head+{}", lock - h));
				cands.push((format!("lock-height:head+{}", lock - h), t, lock - 1));
			}
		}
	}
	// coinbases created at h-2 (mature for the next block), h-1, h
	let cbs: Vec<(usize, u64)> = w.node_utxo().iter().filter(|x| x.2).map(|x| (x.0, x.1)).collect();
	for hc in [h.saturating_sub(2), h - 1, h] {
		if let Some((o, _)) = cbs.iter().find(|(_, hh)| *hh == hc) {
			if let Some(tx) = w.spend(&[*o], 1, w11 * FEE_BASE * 2, None) {
				let t = w.add_tx(out, tx, vec![], &format!("gap:coinbase-created-at:head-{}", h - hc));
				cands.push((format!("coinbase-of-head-{}", h - hc), t, hc + MATURITY - 1));
			}
		}
	}
	// NRD kernels repeating the confirmed excess: relative height d (admissible now), d+1, d+2, d+3
	let mut nrd_cands: Vec<(String, usize, u64)> = vec![];
	if let Some(h0) = nrd_h0 {
		let d = h + 1 - h0;
		for (slot, rel) in [d + 1, d + 2, d + 3, d].into_iter().enumerate() {
			if let Some(o) = take(&mut spare) {
				let v = w.kit.outs[o].value;
				let fee = w11 * FEE_BASE * 2;
				let spec = TxSpec { inputs: vec![o], outputs: vec![(v - fee, None)], kernel: KSpec::Nrd(fee, rel, slot + 1) };
				if let Ok(tx) = w.kit.build_tx(&spec) {
					let t = w.add_tx(out, tx, vec![], &format!("gap:nrd-relative-height:d+{}", rel - d));
					nrd_cands.push((format!("nrd:d+{}", rel - d), t, h0 + rel - 1));
				}
			}
		}
	}
	// the headers of the next two blocks arrive, the blocks do not
	if !w.headers_first(out, 2) {
		out.raw("#STAT scenario:header-gap=headers-not-accepted");
		return;
	}
	let submit_all = |w: &mut World, out: &mut Out, cands: &[(String, usize, u64)], phase: &str| {
		let body = w.kit.blks[w.head].height;
		for (k, (label, t, from)) in cands.iter().enumerate() {
			// already pooled?
			let pooled = w.pool.txpool.contains_tx(&w.txs[*t].tx) || w.pool.stempool.contains_tx(&w.txs[*t].tx);
			let mined = !w.missing_inputs(&w.txs[*t].tx, true).is_empty();
			if pooled || mined {
				continue;
			}
			let (stem, form) = match k % 3 {
				0 => (false, Form::V3),
				1 => (true, Form::V2),
				_ => (false, Form::V2),
			};
			let res = w.submit_form(out, *t, TxSource::PushApi, stem, true, form);
			let due = body >= *from;
			w.stat(&format!("gap:{}:{}:{}:{}", phase, label, if due { "due" } else { "not-yet" }, res));
			if !due && res == "ok" {
				out.raw(&format!(
					"#ORACLE-FAIL C14 transaction-admitted-before-its-height hist={} [{}] {}: admissible from body head height {} on, the body head is at {} (header_head at {}); t{} stem={}",
					w.name,
					phase,
					label,
					from,
					body,
					w.node.header_head().map(|t| t.height).unwrap_or(0),
					t,
					stem
				));
			}
			if due && res != "ok" {
				out.raw(&format!("#STAT gap:UNEXPECTED refusal of a due transaction [{}] {} => {}", phase, label, res));
			}
		}
	};
	let mut all = cands.clone();
	all.extend(nrd_cands.iter().cloned());
	submit_all(&mut w, out, &all, "gap-2");
	// the first body arrives
	w.deliver_pending(out);
	submit_all(&mut w, out, &all, "gap-1");
	// the second body arrives
	w.deliver_pending(out);
	submit_all(&mut w, out, &all, "gap-0");
	// a block from the mineable set, then once more
	let txs = w.pool.prepare_mineable_transactions().unwrap_or_default();
	let parent = w.head;
	if let Some(id) = w.build_block(parent, 1, &txs).or_else(|| w.build_block(parent, 1, &[])) {
		w.deliver(out, id);
	}
	submit_all(&mut w, out, &all, "after-block");
	merge_stats(&w, total);
}


/// Regression check for C14-mineable-set-fails-on-recreated-commitment (found by this harness,
/// repaired in 611fc1746).  A commitment that is unspent on the chain is spent by a pool
/// transaction B, re-created by A (same key and value; A pays the best rate) and spent again by C
/// (which pays least and gets its own bucket): the pool is jointly valid; `validate_raw_txs` walks
/// A (alone it duplicates the unspent commitment: skipped), B, then C, whose aggregate with B has
/// two spends of the same commitment.  C must be SKIPPED: the mineable set must contain the
/// bystander and B and be accepted by the chain as a block.  (Before the repair the aggregation
/// error escaped, `prepare_mineable_transactions` failed and mine_block.rs mined an empty block.)
fn scenario_recreated_commitment(work: &str, out: &mut Out, total: &mut BTreeMap<String, u64>) {
	let mut rng = Rng::new(seed_from_env().wrapping_mul(23).wrapping_add(701));
	let mut w = World::new(work, "recreated-commitment", Cfg { max_pool: 50, max_stem: 50, mine_w: 250 });
	print_cfg(&w, out);
	warm_up(&mut w, out, &mut rng, 9);
	w.print_head(out);
	w.obs(out, "start");
	let free = w.free_utxo();
	let plain: Vec<usize> = free.iter().cloned().filter(|o| !w.kit.outs[*o].coinbase).collect();
	let others: Vec<usize> = free.iter().cloned().filter(|o| !plain.first().map(|p| p == o).unwrap_or(false)).collect();
	if plain.is_empty() || others.len() < 2 {
		out.raw("#STAT scenario:recreated-commitment=not-enough-outputs");
		return;
	}
	let o = plain[0];
	let vo = w.kit.outs[o].value;
	let x = *others.iter().find(|y| w.kit.outs[**y].value > vo + 100_000).unwrap_or(&others[0]);
	let vx = w.kit.outs[x].value;
	let w11 = World::weight_of(1, 1);
	// an unrelated, well-paying transaction: what the miner loses
	let bystander = w.spend(&[*others.iter().find(|y| **y != x).unwrap()], 1, w11 * 30, None).unwrap();
	let tby = w.add_tx(out, bystander, vec![], "recreate:bystander");
	w.submit(out, tby, TxSource::Broadcast, false, true);
	// B spends o (rate 10)
	let b = w.spend(&[o], 1, w11 * 10, None).unwrap();
	let tb = w.add_tx(out, b, vec![], "recreate:B-spends-o");
	w.submit(out, tb, TxSource::Broadcast, false, true);
	// A re-creates o (rate 20)
	let fee_a = World::weight_of(1, 2) * 20;
	if vx <= vo + fee_a + 1 {
		out.raw("#STAT scenario:recreated-commitment=values-do-not-fit");
		return;
	}
	let spec = TxSpec { inputs: vec![x], outputs: vec![(vo, Some(o)), (vx - vo - fee_a, None)], kernel: KSpec::Plain(fee_a) };
	let a = match w.kit.build_tx(&spec) {
		Ok(a) => a,
		Err(e) => {
			out.raw(&format!("#STAT scenario:recreated-commitment=cannot-build:{}", e.replace(' ', "_")));
			return;
		}
	};
	let ta = w.add_tx(out, a, vec![], "recreate:A-recreates-o");
	w.submit(out, ta, TxSource::Broadcast, false, true);
	// C spends o again (rate 2: lowers A's bucket, own bucket at the end; were it to join A's
	// bucket the walk would be A, C, B and fail at B in the same way)
	let c = w.spend(&[o], 1, w11 * 2, None).unwrap();
	let tc = w.add_tx(out, c, vec![], "recreate:C-spends-o-again");
	let res = w.submit(out, tc, TxSource::Broadcast, false, true);
	let mine = w.pool.prepare_mineable_transactions();
	out.raw(&format!(
		"#STAT scenario:recreated-commitment:C-admitted={} prepare_mineable_transactions={}",
		res,
		match &mine {
			Ok(t) => format!("ok({})", t.len()),
			Err(e) => format!("err:{}", perr(e)),
		}
	));
	match &mine {
		Ok(set) => {
			let has = |t: usize| set.iter().any(|m| m.kernels() == w.txs[t].tx.kernels());
			if !(has(tby) && has(tb)) {
				let sigs: Vec<String> = set.clone().iter().map(|t| w.tx_sig(t)).collect();
				out.raw(&format!(
					"#ORACLE-FAIL C14 mineable-set-rejected hist=recreated-commitment: the mineable set {:?} lacks the bystander t{} or B t{} although both apply on the head",
					sigs, tby, tb
				));
			}
		}
		Err(_) => {} // reported by the mine oracle of the last step
	}
	// an empty block: nothing changes
	let parent = w.head;
	if let Some(id) = w.build_block(parent, 1, &[]) {
		w.deliver(out, id);
	}
	// another submission on top
	if let Some(y) = others.iter().find(|y| **y != x && !w.pool_spent().contains(y)) {
		if let Some(t) = w.spend(&[*y], 1, w11 * 8, None) {
			let t = w.add_tx(out, t, vec![], "valid");
			w.submit(out, t, TxSource::Broadcast, false, true);
		}
	}
	// a block that confirms B: o is spent on the chain, A and C follow
	let parent = w.head;
	let btx = w.txs[tb].tx.clone();
	if let Some(id) = w.build_block(parent, 1, &[btx]) {
		w.deliver(out, id);
	}
	let txs = w.pool.prepare_mineable_transactions().unwrap_or_default();
	let parent = w.head;
	if let Some(id) = w.build_block(parent, 1, &txs) {
		w.deliver(out, id);
	}
	merge_stats(&w, total);
}


/// The mineable set under the DEFAULT configuration (`PoolConfig::default().mineable_max_weight`,
/// the consensus constant - far above this chain type's `max_block_weight`) and under limits around
/// the block limit, with MORE than a block's worth of transactions of mixed weights pooled, so that
/// the selection lands within the last few dozen weight units below the limit.  The selected weight
/// must never exceed min(max_block_weight, mineable_max_weight) - 24 (one output and one kernel for
/// the coinbase) and the block built from it must be accepted by a chain.
fn scenario_mine_limit(work: &str, out: &mut Out, total: &mut BTreeMap<String, u64>) {
	let mut rng = Rng::new(seed_from_env().wrapping_mul(37).wrapping_add(901));
	let default_w = PoolConfig::default().mineable_max_weight;
	let mut w = World::new(work, "mine-limit", Cfg { max_pool: 50, max_stem: 50, mine_w: default_w });
	print_cfg(&w, out);
	warm_up(&mut w, out, &mut rng, 9);
	// plenty of plain outputs: two blocks that split a coinbase into eight
	for _ in 0..3 {
		let free = w.free_utxo();
		let mut txs = vec![];
		if let Some(o) = free.iter().cloned().find(|o| w.kit.outs[*o].coinbase) {
			if let Some(t) = w.spend(&[o], 8, World::weight_of(1, 8) * FEE_BASE, None) {
				txs.push(t);
			}
		}
		let parent = w.head;
		if let Some(id) = w.build_block(parent, 1, &txs).or_else(|| w.build_block(parent, 1, &[])) {
			w.deliver(out, id);
		}
	}
	w.print_head(out);
	w.obs(out, "start");
	let maxw = global::max_block_weight();
	out.raw(&format!(
		"#STAT scenario:mine-limit:PoolConfig-default-mineable_max_weight={} max_block_weight={} coinbase-reserve=24",
		default_w, maxw
	));
	let limits = [default_w, maxw, maxw - 1, maxw - 24, maxw - 23, maxw - 25, maxw + 1, 24, 49, 50];
	let set_limit = |w: &mut World, out: &mut Out, l: u64| {
		w.pool.config.mineable_max_weight = l;
		w.cfg.mine_w = l;
		out.raw(&format!(
			"pool cfg max_pool={} max_stem={} mine_w={} fee_base={} max_tx_w={} max_block_w={} maturity={}",
			w.cfg.max_pool,
			w.cfg.max_stem,
			w.cfg.mine_w,
			FEE_BASE,
			global::max_tx_weight(),
			global::max_block_weight(),
			MATURITY
		));
	};
	for round in 0..3 {
		// more than two blocks' worth, mixed weights (25, 26, 46, 47, 67), random distinct rates,
		// a few 0-conf children (cut-through lowers the aggregate weight)
		set_limit(&mut w, out, default_w);
		let mut free = w.free_utxo();
		let shapes: [(usize, usize); 14] =
			[(1, 3), (1, 2), (1, 1), (2, 1), (1, 2), (1, 1), (1, 1), (2, 2), (1, 3), (1, 1), (1, 2), (1, 1), (1, 1), (1, 1)];
		let mut weight_pooled = 0u64;
		for (k, (nin, nout)) in shapes.iter().enumerate() {
			if free.len() < *nin {
				break;
			}
			let mut ins = vec![];
			for _ in 0..*nin {
				let i = rng.below(free.len() as u64) as usize;
				ins.push(free.swap_remove(i));
			}
			// some spend a pooled output instead (child)
			if k % 5 == 4 {
				let po = w.pool_outputs(false);
				if let Some((o, _)) = po.first().cloned() {
					let back = ins[0];
					ins[0] = o;
					free.push(back);
				}
			}
			let wt = World::weight_of(*nin, *nout);
			let fee = wt * (FEE_BASE + rng.below(40)) + rng.below(wt);
			if let Some(tx) = w.spend(&ins, *nout, fee, None) {
				let t = w.add_tx(out, tx, vec![], "mine-limit:filler");
				if w.submit_form(out, t, TxSource::Broadcast, false, true, if k % 2 == 0 { Form::V3 } else { Form::V2 }) == "ok" {
					weight_pooled += wt;
				}
			}
		}
		w.stat_max("mine-limit:max-pooled-weight", weight_pooled);
		for l in limits.iter() {
			set_limit(&mut w, out, *l);
			w.obs(out, &format!("mineable_max_weight set to {}", l));
			w.stat(&format!("mine-limit:limit={}", l));
		}
		// mine with a limit around the block limit, then go on with what is left
		let l = [default_w, maxw - 23, maxw][round % 3];
		set_limit(&mut w, out, l);
		let txs = w.pool.prepare_mineable_transactions().unwrap_or_default();
		let parent = w.head;
		if let Some(id) = w.build_block(parent, 1, &txs) {
			w.deliver(out, id);
		}
		for l in [default_w, maxw - 24] {
			set_limit(&mut w, out, l);
			w.obs(out, &format!("mineable_max_weight set to {}", l));
		}
	}
	merge_stats(&w, total);
}

/// Fee shifts 1..15 against the minimum-fee clause (`shifted_fee = Σ fees >> max fee_shift` must be
/// at least weight × accept_fee_base): exactly enough and one below, fluff and stem, both forms;
/// shifted transactions inside aggregates with pooled ones (deaggregated on the fluff path, taken as
/// a whole on the stem path).
fn scenario_fee_shift(work: &str, out: &mut Out, total: &mut BTreeMap<String, u64>) {
	let mut rng = Rng::new(seed_from_env().wrapping_mul(41).wrapping_add(951));
	let mut w = World::new(work, "fee-shift", Cfg { max_pool: 50, max_stem: 50, mine_w: 250 });
	print_cfg(&w, out);
	warm_up(&mut w, out, &mut rng, 9);
	for _ in 0..2 {
		let free = w.free_utxo();
		let mut txs = vec![];
		if let Some(o) = free.iter().cloned().find(|o| w.kit.outs[*o].coinbase) {
			if let Some(t) = w.spend(&[o], 8, World::weight_of(1, 8) * FEE_BASE, None) {
				txs.push(t);
			}
		}
		let parent = w.head;
		if let Some(id) = w.build_block(parent, 1, &txs).or_else(|| w.build_block(parent, 1, &[])) {
			w.deliver(out, id);
		}
	}
	w.print_head(out);
	w.obs(out, "start");
	let w11 = World::weight_of(1, 1);
	let min = w11 * FEE_BASE;
	let check = |w: &mut World, out: &mut Out, t: usize, res: &str, label: &str| {
		let tx = w.txs[t].tx.clone();
		if tx.kernels().len() != 1 {
			return;
		}
		let need = tx.weight() * FEE_BASE;
		let have = shifted_fee_of(&tx);
		if have < need && res == "ok" {
			out.raw(&format!(
				"#ORACLE-FAIL C14 under-paying-shifted-transaction-admitted hist={} t{} ({}): shifted fee {} < minimum {}",
				w.name, t, label, have, need
			));
		}
		if have >= need && res == "err:LowFee" {
			out.raw(&format!(
				"#ORACLE-FAIL C14 adequately-paying-shifted-transaction-refused-as-LowFee hist={} t{} ({}): shifted fee {} >= minimum {}",
				w.name, t, label, have, need
			));
		}
	};
	for shift in 1u64..=15 {
		let free = w.free_utxo();
		if free.len() < 2 {
			break;
		}
		for (k, fee) in [(min << shift) - 1, min << shift].iter().enumerate() {
			let f = KernelFeatures::Plain { fee: FeeFields::new(shift, *fee).unwrap() };
			if let Some(tx) = w.spend(&[free[k]], 1, *fee, Some(f)) {
				let label = if k == 0 { "fee-shift:one-below-minimum" } else { "fee-shift:exactly-minimum" };
				let t = w.add_tx(out, tx, vec![], label);
				let stem = (shift + k as u64) % 2 == 0;
				let form = if shift % 3 == 0 { Form::V2 } else { Form::V3 };
				let res = w.submit_form(out, t, TxSource::PushApi, stem, true, form);
				w.stat(&format!("fee-shift:shift={}:{}:{}", shift, if k == 0 { "below" } else { "exact" }, res));
				check(&mut w, out, t, &res, label);
				if k == 0 {
					// the other path too
					let res = w.submit_form(out, t, TxSource::Broadcast, !stem, true, form);
					check(&mut w, out, t, &res, label);
				}
			}
		}
		if shift % 5 == 0 {
			// aggregates: a pooled transaction without shift + a new shifted one that is below its own
			// minimum although the aggregate's unshifted fees look plentiful
			let pooled: Vec<Transaction> = w.pool.txpool.entries.iter().map(|e| e.tx.clone()).collect();
			let free = w.free_utxo();
			if let (Some(p), Some(o)) = (pooled.first(), free.first()) {
				for fee in [(min << shift) - 1, min << shift] {
					let f = KernelFeatures::Plain { fee: FeeFields::new(shift, fee).unwrap() };
					if let Some(n) = w.spend(&[*o], 1, fee, Some(f)) {
						w.submit_aggregate(out, &[p.clone()], &[n.clone()], "fee-shift:aggregate-pooled+shifted", TxSource::Broadcast, false, true);
						w.submit_aggregate(out, &[p.clone()], &[n], "fee-shift:aggregate-pooled+shifted", TxSource::PushApi, true, true);
					}
				}
			}
			// an aggregate of two NEW transactions with different shifts (2 and 3), nothing of it pooled:
			// taken as a whole on both paths; its shifted fee is (f1 + f2) >> max(2, 3) - exactly the
			// minimum for its weight, and one below
			let free = w.free_utxo();
			if free.len() >= 4 {
				for (k, total_fee) in [(2 * min) << 3, ((2 * min) << 3) - 1].iter().enumerate() {
					let f1 = total_fee / 2;
					let f2 = total_fee - f1;
					let k1 = KernelFeatures::Plain { fee: FeeFields::new(2, f1).unwrap() };
					let k2 = KernelFeatures::Plain { fee: FeeFields::new(3, f2).unwrap() };
					if let (Some(n1), Some(n2)) = (w.spend(&[free[2 * k]], 1, f1, Some(k1)), w.spend(&[free[2 * k + 1]], 1, f2, Some(k2))) {
						if let Ok(agg) = transaction::aggregate(&[n1, n2]) {
							let label = if k == 0 { "fee-shift:aggregate-shifts-2+3:exactly-minimum" } else { "fee-shift:aggregate-shifts-2+3:one-below" };
							let t = w.add_tx(out, agg.clone(), vec![], label);
							let stem = (shift / 5) % 2 == 0;
							let res = w.submit_form(out, t, TxSource::PushApi, stem, true, Form::V3);
							let need = agg.weight() * FEE_BASE;
							let have = shifted_fee_of(&agg);
							w.stat(&format!("fee-shift:aggregate-2+3:{}:{}", if have >= need { "enough" } else { "below" }, res));
							if have < need && res == "ok" {
								out.raw(&format!("#ORACLE-FAIL C14 under-paying-shifted-transaction-admitted hist={} t{} ({}): shifted fee {} < minimum {}", w.name, t, label, have, need));
							}
							if have >= need && res == "err:LowFee" {
								out.raw(&format!("#ORACLE-FAIL C14 adequately-paying-shifted-transaction-refused-as-LowFee hist={} t{} ({}): shifted fee {} >= minimum {}", w.name, t, label, have, need));
							}
						}
					}
				}
			}
			let txs = w.pool.prepare_mineable_transactions().unwrap_or_default();
			let parent = w.head;
			if let Some(id) = w.build_block(parent, 1, &txs) {
				w.deliver(out, id);
			}
		}
	}
	merge_stats(&w, total);
}

/// The NRD feature flag OFF (`global::is_nrd_enabled()` false: the mainnet configuration - every
/// other job runs with it on): `verify_kernel_variants` refuses any transaction with an NRD kernel
/// (`NRDKernelNotEnabled`) whatever the header version, on both paths, in both input forms, alone
/// or aggregated with a pooled transaction (after de-aggregation on the fluff path, as submitted on
/// the stem path); everything else is admitted, mined and reconciled as before.  Then the flag is
/// turned on and the same transactions are admitted (header version 4 is reached in the warm-up).
fn scenario_nrd_disabled(work: &str, out: &mut Out, total: &mut BTreeMap<String, u64>) {
	let mut rng = Rng::new(seed_from_env().wrapping_mul(41).wrapping_add(1207));
	let mut w = World::new(work, "nrd-disabled", Cfg { max_pool: 50, max_stem: 50, mine_w: 250 });
	let cfg_line = |w: &World, out: &mut Out, nrd: bool| {
		out.raw(&format!(
			"pool cfg max_pool={} max_stem={} mine_w={} fee_base={} max_tx_w={} max_block_w={} maturity={} nrd={}",
			w.cfg.max_pool,
			w.cfg.max_stem,
			w.cfg.mine_w,
			FEE_BASE,
			global::max_tx_weight(),
			global::max_block_weight(),
			MATURITY,
			if nrd { 1 } else { 0 }
		));
	};
	out.raw("pool reset");
	cfg_line(&w, out, false);
	// the flag is thread-local here; it is restored before the job ends (worker threads are reused)
	global::set_local_nrd_enabled(false);
	struct Restore;
	impl Drop for Restore {
		fn drop(&mut self) {
			global::set_local_nrd_enabled(true);
		}
	}
	let _restore = Restore;
	warm_up(&mut w, out, &mut rng, 11);
	w.print_head(out);
	w.obs(out, "start");
	let ver = w.node.head_header().map(|h| h.version.0).unwrap_or(0);
	out.raw(&format!("#STAT scenario:nrd-disabled:header-version-at-start={}", ver));
	let mut nrd_txs: Vec<usize> = vec![];
	for round in 0..3 {
		let free = w.free_utxo();
		if free.len() < 4 {
			break;
		}
		let mk_nrd = |w: &mut World, rng: &mut Rng, o: usize| {
			let fee = World::good_fee(rng, World::weight_of(1, 1));
			let f = KernelFeatures::NoRecentDuplicate {
				fee: FeeFields::new(0, fee).unwrap(),
				relative_height: NRDRelativeHeight::new(rng.range(1, 3)).unwrap(),
			};
			w.spend(&[o], 1, fee, Some(f))
		};
		// an NRD transaction alone: fluff and stem, every source, both forms
		if let Some(tx) = mk_nrd(&mut w, &mut rng, free[0]) {
			let t = w.add_tx(out, tx, vec![], "nrd-disabled:nrd-kernel");
			nrd_txs.push(t);
			for (k, form) in [Form::V3, Form::V2].into_iter().enumerate() {
				let r = w.submit_form(out, t, pick_src(&mut rng), false, true, form);
				w.stat(&format!("nrd-disabled:alone:fluff:{}", r));
				let r = w.submit_form(out, t, pick_src(&mut rng), true, k == 0, form);
				w.stat(&format!("nrd-disabled:alone:stem:{}", r));
			}
		}
		// a plain transaction is admitted as ever
		let fee = World::good_fee(&mut rng, World::weight_of(1, 2));
		let plain = w.spend(&[free[1]], 2, fee, None);
		if let Some(p) = plain.clone() {
			let t = w.add_tx(out, p, vec![], "nrd-disabled:plain");
			let r = w.submit(out, t, TxSource::Broadcast, round == 1, round != 1);
			w.stat(&format!("nrd-disabled:plain:{}", r));
		}
		// aggregate of the pooled plain transaction and a new NRD transaction: fluff (de-aggregated:
		// the remainder is the NRD transaction) and stem (as submitted)
		if let (Some(p), Some(n)) = (plain, mk_nrd(&mut w, &mut rng, free[2])) {
			let pooled: Vec<Transaction> = if w.pool.txpool.entries.iter().any(|e| e.tx.kernels() == p.kernels()) { vec![p.clone()] } else { vec![] };
			w.submit_aggregate(out, &pooled, &[n.clone()], "nrd-disabled:aggregate-with-nrd-part", TxSource::Broadcast, false, true);
			w.submit_aggregate(out, &pooled, &[n.clone()], "nrd-disabled:aggregate-with-nrd-part", TxSource::PushApi, true, true);
			let t = w.add_tx(out, n, vec![], "nrd-disabled:nrd-kernel");
			nrd_txs.push(t);
		}
		// a height-locked kernel is not an NRD kernel
		let nh = w.next_height();
		let fee = World::good_fee(&mut rng, World::weight_of(1, 1));
		let f = KernelFeatures::HeightLocked { fee: FeeFields::new(0, fee).unwrap(), lock_height: nh };
		if let Some(tx) = w.spend(&[free[3]], 1, fee, Some(f)) {
			let t = w.add_tx(out, tx, vec![], "nrd-disabled:height-locked");
			let r = w.submit(out, t, TxSource::Broadcast, false, true);
			w.stat(&format!("nrd-disabled:height-locked:{}", r));
		}
		// the next block from the mineable set
		let txs = w.pool.prepare_mineable_transactions().unwrap_or_default();
		let parent = w.head;
		if let Some(id) = w.build_block(parent, 1, &txs).or_else(|| w.build_block(parent, 1, &[])) {
			w.deliver(out, id);
		}
	}
	// the flag on: the same NRD transactions are admitted (those whose input is still unspent)
	global::set_local_nrd_enabled(true);
	cfg_line(&w, out, true);
	w.obs(out, "nrd feature flag turned on");
	for (k, t) in nrd_txs.iter().enumerate() {
		let r = w.submit(out, *t, TxSource::Broadcast, k % 2 == 1, true);
		w.stat(&format!("nrd-disabled:flag-on-again:{}", r));
	}
	let txs = w.pool.prepare_mineable_transactions().unwrap_or_default();
	let parent = w.head;
	if let Some(id) = w.build_block(parent, 1, &txs) {
		w.deliver(out, id);
	}
	merge_stats(&w, total);
}

/// `PoolConfig::accept_fee_base` DIFFERENT from `global::get_accept_fee_base()`.  The pool never reads
/// its own config field: `is_acceptable` calls `Transaction::accept_fee`, which reads the global
/// (src/bin/grin.rs copies the configured value into the global once at start-up).  The model's
/// `Cfg.feeBase` is the global; this job shows the code agrees: config 10x the global, config half
/// the global, config 0 - admission follows weight * GLOBAL in all of them, on both paths.
fn scenario_fee_base_config(work: &str, out: &mut Out, total: &mut BTreeMap<String, u64>) {
	let mut rng = Rng::new(seed_from_env().wrapping_mul(43).wrapping_add(1511));
	let mut w = World::new(work, "fee-base-config", Cfg { max_pool: 50, max_stem: 50, mine_w: 250 });
	print_cfg(&w, out);
	warm_up(&mut w, out, &mut rng, 9);
	w.print_head(out);
	w.obs(out, "start");
	for (k, cfg_base) in [FEE_BASE * 10, FEE_BASE / 2, 0, FEE_BASE].into_iter().enumerate() {
		w.pool.config.accept_fee_base = cfg_base;
		out.raw(&format!(
			"pool cfg max_pool={} max_stem={} mine_w={} fee_base={} max_tx_w={} max_block_w={} maturity={} cfg_fee_base={}",
			w.cfg.max_pool,
			w.cfg.max_stem,
			w.cfg.mine_w,
			global::get_accept_fee_base(),
			global::max_tx_weight(),
			global::max_block_weight(),
			MATURITY,
			cfg_base
		));
		let free = w.free_utxo();
		if free.len() < 4 {
			break;
		}
		let wt = World::weight_of(1, 1);
		// exactly the global minimum; one below it; exactly the CONFIGURED minimum (when that is lower:
		// refused; when higher: far more than needed); one below the configured minimum when higher
		let fees: Vec<(u64, &str)> = vec![
			(wt * FEE_BASE, "global-minimum"),
			(wt * FEE_BASE - 1, "global-minimum-less-1"),
			((wt * cfg_base).max(1), "configured-minimum"),
			((wt * cfg_base).max(2) - 1, "configured-minimum-less-1"),
		];
		for (j, (fee, label)) in fees.into_iter().enumerate() {
			if let Some(tx) = w.spend(&[free[j]], 1, fee, None) {
				let t = w.add_tx(out, tx, vec![], &format!("fee-base-config:{}", label));
				let stem = (j + k) % 2 == 1;
				let r = w.submit(out, t, TxSource::Broadcast, stem, true);
				let expect = if fee >= wt * FEE_BASE { "ok" } else { "err:LowFee" };
				w.stat(&format!(
					"fee-base-config:config={}x-global/2:{}:{}:{}",
					cfg_base * 2 / FEE_BASE,
					label,
					if r == expect { "follows-the-global" } else { "DOES-NOT-follow-the-global" },
					r
				));
			}
		}
		let txs = w.pool.prepare_mineable_transactions().unwrap_or_default();
		let parent = w.head;
		if let Some(id) = w.build_block(parent, 1, &txs).or_else(|| w.build_block(parent, 1, &[])) {
			w.deliver(out, id);
		}
	}
	merge_stats(&w, total);
}

/// NRD relative height at EXACTLY the boundary across a reorganisation that changes the height of the
/// earlier instance of the excess, and one excess in txpool + stempool + block at once.
/// Branch A: the excess K is confirmed at p+1, head A2 (next = p+3).  Branch B (more work): K confirmed at
/// p+2.  variant 0: B ends at B3 (next = p+4: a kernel with relative height 2 is admissible at exactly that
/// height, 3 is one too early - with the stale instance of branch A it would be admissible); variant 1: B ends
/// at B2 itself (next = p+3, head LOWER than... equal height, more work): the pooled kernel with relative
/// height 2, admitted under branch A at its boundary, is too recent now and must leave in the reconciliation.
fn scenario_nrd_reorg_boundary(work: &str, out: &mut Out, total: &mut BTreeMap<String, u64>, variant: usize) {
	let mut rng = Rng::new(seed_from_env().wrapping_mul(47).wrapping_add(1700 + variant as u64));
	let name = format!("nrd-reorg-boundary-{}", variant);
	let mut w = World::new(work, &name, Cfg { max_pool: 50, max_stem: 50, mine_w: 250 });
	print_cfg(&w, out);
	warm_up(&mut w, out, &mut rng, 12);
	// plenty of plain outputs
	for _ in 0..2 {
		let free = w.free_utxo();
		let mut txs = vec![];
		if let Some(o) = free.iter().cloned().find(|o| w.kit.outs[*o].coinbase) {
			if let Some(t) = w.spend(&[o], 8, World::weight_of(1, 8) * FEE_BASE, None) {
				txs.push(t);
			}
		}
		let parent = w.head;
		if let Some(id) = w.build_block(parent, 1, &txs).or_else(|| w.build_block(parent, 1, &[])) {
			w.deliver(out, id);
		}
	}
	w.print_head(out);
	w.obs(out, "start");
	const SLOT: usize = 9;
	let w11 = World::weight_of(1, 1);
	let fail = |out: &mut Out, w: &World, what: &str, lhs: &str, res: &str, detail: &str| {
		out.raw(&format!(
			"#ORACLE-FAIL C14 {} hist={} head height {} (next block {}): {} => {}; {}",
			what,
			w.name,
			w.kit.blks[w.head].height,
			w.kit.blks[w.head].height + 1,
			lhs,
			res,
			detail
		));
	};
	let mut spare: Vec<usize> = w.free_utxo().into_iter().filter(|o| !w.kit.outs[*o].coinbase).collect();
	if spare.len() < 9 {
		out.raw(&format!("#STAT scenario:{}:not-enough-plain-outputs={}", name, spare.len()));
		merge_stats(&w, total);
		return;
	}
	let mut nrd_tx = |w: &mut World, rel: u64, o: usize| -> Option<Transaction> {
		let v = w.kit.outs[o].value;
		let fee = w11 * FEE_BASE * 2;
		w.kit.build_tx(&TxSpec { inputs: vec![o], outputs: vec![(v - fee, None)], kernel: KSpec::Nrd(fee, rel, SLOT) }).ok()
	};
	let p = w.head;
	let hp = w.kit.blks[p].height;
	// the two confirmed instances (different transactions, same excess)
	let ka = nrd_tx(&mut w, 1, spare.remove(0));
	let kb = nrd_tx(&mut w, 1, spare.remove(0));
	let (ka, kb) = match (ka, kb) {
		(Some(a), Some(b)) => (a, b),
		_ => {
			merge_stats(&w, total);
			return;
		}
	};
	// branch A: K at p+1, then an empty block
	let a1 = w.build_block(p, 1, &[ka]);
	let a2 = a1.and_then(|a1| w.build_block(a1, 1, &[]));
	// branch B: empty, K at p+2 (heavier), (variant 0) one more
	let b1 = w.build_block(p, 1, &[]);
	let b2 = b1.and_then(|b1| w.build_block(b1, 6, &[kb]));
	let b3 = if variant == 0 { b2.and_then(|b2| w.build_block(b2, 1, &[])) } else { None };
	let (a1, a2, b1, b2) = match (a1, a2, b1, b2) {
		(Some(a), Some(b), Some(c), Some(d)) => (a, b, c, d),
		_ => {
			out.raw(&format!("#STAT scenario:{}:branches-not-built", name));
			merge_stats(&w, total);
			return;
		}
	};
	w.deliver(out, a1);
	w.deliver(out, a2);
	// probes: (relative height, path) against the instance at `h0` with the next block at `next`
	let mut probe = |w: &mut World, out: &mut Out, rel: u64, stem: bool, h0: u64, label: &str, spare: &mut Vec<usize>| -> String {
		let o = match spare.pop() {
			Some(o) => o,
			None => return "none".into(),
		};
		let tx = match nrd_tx(w, rel, o) {
			Some(t) => t,
			None => return "none".into(),
		};
		let next = w.next_height();
		let pooled_same = w.pool.txpool.entries.iter().chain(w.pool.stempool.entries.iter()).any(|e| e.tx.kernels().iter().any(|x| x.excess == tx.kernels()[0].excess));
		let t = w.add_tx(out, tx, vec![], &format!("nrd-reorg:{}", label));
		let res = w.submit(out, t, TxSource::Broadcast, stem, true);
		let lhs = format!("NRD kernel, relative height {}, excess last on the path of the head at height {}, next block {} ({})", rel, h0, next, label);
		w.stat(&format!("nrd-reorg:{}:{}:{}", label, if stem { "stem" } else { "fluff" }, res));
		if next < h0 + rel && res == "ok" {
			fail(out, w, "pool-admits-nrd-kernel-before-its-relative-height", &lhs, &res, "");
		} else if next >= h0 + rel && res != "ok" && !pooled_same {
			fail(out, w, "pool-refuses-nrd-kernel-at-its-relative-height", &lhs, &res, "");
		}
		res
	};
	// on branch A: K at p+1, next = p+3
	probe(&mut w, out, 3, false, hp + 1, "branch-A:one-below-the-boundary", &mut spare);
	probe(&mut w, out, 3, true, hp + 1, "branch-A:one-below-the-boundary", &mut spare);
	// admitted at exactly its boundary: this one stays in the txpool
	probe(&mut w, out, 2, false, hp + 1, "branch-A:at-the-boundary", &mut spare);
	// the same excess once more: on the stem path it meets the txpool's kernel in the aggregate, on the
	// fluff path the txpool's own
	probe(&mut w, out, 2, true, hp + 1, "branch-A:same-excess-already-in-txpool", &mut spare);
	probe(&mut w, out, 2, false, hp + 1, "branch-A:same-excess-already-in-txpool", &mut spare);
	// the reorganisation: K now at p+2
	w.deliver(out, b1);
	let r = w.deliver(out, b2);
	w.stat(&format!("nrd-reorg:deliver-heavy-block-with-the-excess:{}", r));
	if let Some(b3) = b3 {
		w.deliver(out, b3);
	}
	let still = w.pool.txpool.entries.iter().any(|e| e.tx.kernels().iter().any(|k| k.is_nrd()));
	let next = w.next_height();
	w.stat(&format!("nrd-reorg:variant-{}:next={}:instance-now-at-p+2:pooled-relative-height-2-kernel-{}", variant, next - hp, if still { "kept" } else { "dropped" }));
	if still && next < hp + 2 + 2 {
		fail(out, &w, "pool-keeps-nrd-kernel-that-is-too-recent-after-reorg", &format!("txpool entry with relative height 2, excess now at height {}, next block {}", hp + 2, next), "kept", "");
	}
	// on branch B: K at p+2
	probe(&mut w, out, 3, false, hp + 2, "branch-B:relative-height-3", &mut spare);
	probe(&mut w, out, 2, true, hp + 2, "branch-B:relative-height-2", &mut spare);
	// the next block from the mineable set; then once more
	for _ in 0..2 {
		let txs = w.pool.prepare_mineable_transactions().unwrap_or_default();
		let parent = w.head;
		if let Some(id) = w.build_block(parent, 1, &txs).or_else(|| w.build_block(parent, 1, &[])) {
			w.deliver(out, id);
		}
		let h0 = w.states.get(&w.head).and_then(|st| st.nrd.iter().find(|(e, _)| *e == nrd_excess_tag(&w.kit.kc, SLOT)).map(|x| x.1)).unwrap_or(hp + 2);
		let d = w.next_height() - h0;
		probe(&mut w, out, d + 1, false, h0, "after-mining:one-below-the-boundary", &mut spare);
		probe(&mut w, out, d.max(1), false, h0, "after-mining:at-the-boundary", &mut spare);
	}
	merge_stats(&w, total);
}

/// Every kernel variant (NoRecentDuplicate, HeightLocked, Plain) at EVERY header-version boundary:
/// the chain is grown from the genesis one block at a time to height 13 (AutomatedTesting: version k+1
/// from height 3k; heads at the last height of each version and the first of the next are all visited),
/// and at every head one transaction per variant is submitted (fluff / stem alternating).  Oracles: an
/// NRD kernel admitted while the head's header version is below 4 (what `verify_kernel_variants` reads)
/// or while the NEXT block's version is below 4 (what block validation demands) is #ORACLE-FAIL; after
/// every submission the block built from the mineable set on that head must be accepted by a chain
/// (oracle of `obs`); then the next block IS that block.
fn scenario_hf_boundaries(work: &str, out: &mut Out, total: &mut BTreeMap<String, u64>) {
	let mut rng = Rng::new(seed_from_env().wrapping_mul(53).wrapping_add(1901));
	let mut w = World::new(work, "hf-boundaries", Cfg { max_pool: 50, max_stem: 50, mine_w: 250 });
	print_cfg(&w, out);
	w.print_head(out);
	w.obs(out, "start");
	let mut combo = 0usize;
	for _ in 0..14 {
		let head_h = w.kit.blks[w.head].height;
		let next = head_h + 1;
		let hv = w.node.head_header().map(|h| h.version.0).unwrap_or(0);
		let nv = grin_core::consensus::header_version(next).0;
		// spendable (mature at the next block) plain or coinbase outputs; before height 2 only the
		// (immature) genesis coinbase exists: it is used all the same (the variant gate comes first)
		let mut free = w.free_utxo();
		if free.is_empty() {
			free = vec![0];
		}
		let mut k = 0usize;
		let mut take = |free: &Vec<usize>| -> usize {
			let o = free[k % free.len()];
			k += 1;
			o
		};
		// many outputs early on so that later heads have three distinct inputs
		let nout = if free.len() < 8 { 4 } else { 1 };
		let wt = World::weight_of(1, nout);
		for variant in ["nrd", "height-locked", "plain"] {
			let o = take(&free);
			let fee = wt * FEE_BASE * 2 + rng.below(wt);
			let f = match variant {
				"nrd" => Some(KernelFeatures::NoRecentDuplicate {
					fee: FeeFields::new(0, fee).unwrap(),
					relative_height: NRDRelativeHeight::new(1 + rng.below(3)).unwrap(),
				}),
				"height-locked" => Some(KernelFeatures::HeightLocked { fee: FeeFields::new(0, fee).unwrap(), lock_height: next }),
				_ => None,
			};
			let tx = match w.spend(&[o], nout, fee, f) {
				Some(t) => t,
				None => continue,
			};
			combo += 1;
			let stem = combo % 2 == 0;
			let form = if combo % 3 == 0 { Form::V2 } else { Form::V3 };
			let t = w.add_tx(out, tx, vec![], &format!("hf:{}", variant));
			let res = w.submit_form(out, t, pick_src(&mut rng), stem, combo % 4 != 0, form);
			w.stat(&format!("hf:head-v{}-next-v{}:height-{}:{}:{}:{}", hv, nv, head_h, variant, if stem { "stem" } else { "fluff" }, res));
			if variant == "nrd" && res == "ok" && (hv < 4 || nv < 4) {
				out.raw(&format!(
					"#ORACLE-FAIL C14 nrd-kernel-admitted-before-hf3 hist=hf-boundaries head height {} (header version {}), next block version {}: pool submit t{} stem={} => ok",
					head_h, hv, nv, t, stem
				));
			}
		}
		// the next block: what the pool offers for mining (an empty block if that is refused)
		let txs = w.pool.prepare_mineable_transactions().unwrap_or_default();
		let parent = w.head;
		match w.build_block(parent, 1, &txs) {
			Some(id) => {
				w.deliver(out, id);
			}
			None => {
				if !txs.is_empty() {
					w.stat("hf:block-from-the-mineable-set-refused-by-the-builder-chain");
				}
				if let Some(id) = w.build_block(parent, 1, &[]) {
					w.deliver(out, id);
				}
			}
		}
	}
	merge_stats(&w, total);
}

/// Eviction when the lowest-paying bucket is a dependent CHAIN whose aggregate is heavier than the
/// maximum TRANSACTION weight (226): `evict_transaction` buckets with `Weighting::NoLimit`, so the whole
/// chain is one bucket and the victim is its tail (a leaf).  variant 0: three 1-in/5-out transactions
/// (109 each; aggregated 109 / 196 / 283) and a 1-in/1-out descendant; variant 1: the boundary exactly -
/// aggregated weights 109 / 196 / 220 / 223 / 226 / 229: only the last link is over the limit.  The chain
/// pays the lowest rate of the pool, the pool is over capacity, and well-paying outsiders arrive: every
/// admission evicts one link, tail first; the victim is compared with the model's choice (`pool evicted`,
/// a specification value) and with the leaf oracle.
fn scenario_evict_heavy_chain(work: &str, out: &mut Out, total: &mut BTreeMap<String, u64>, variant: usize) {
	let mut rng = Rng::new(seed_from_env().wrapping_mul(59).wrapping_add(2100 + variant as u64));
	let shape: Vec<usize> = if variant == 0 { vec![5, 5, 5, 1] } else { vec![5, 5, 2, 1, 1, 1] };
	let name = format!("evict-heavy-chain-{}", variant);
	let max_pool = shape.len();
	let mut w = World::new(work, &name, Cfg { max_pool, max_stem: 5, mine_w: 250 });
	print_cfg(&w, out);
	warm_up(&mut w, out, &mut rng, 12);
	w.print_head(out);
	w.obs(out, "start");
	let mut free = w.free_utxo();
	if free.len() < 6 {
		out.raw(&format!("#STAT scenario:{}=not-enough-outputs({})", name, free.len()));
		merge_stats(&w, total);
		return;
	}
	// the chain: every link pays exactly the minimum for its own weight (rate 2, the lowest possible)
	let mut input = free.remove(0);
	let mut agg_w = 0u64;
	for (k, nout) in shape.iter().enumerate() {
		let wt = World::weight_of(1, *nout);
		let tx = match w.spend(&[input], *nout, wt * FEE_BASE, None) {
			Some(t) => t,
			None => break,
		};
		input = w.tx_outs(&tx)[0];
		agg_w = if k == 0 { wt } else { agg_w + wt - 22 };
		let t = w.add_tx(out, tx, vec![], &format!("heavy-chain:link-{}:aggregated-weight-{}", k, agg_w));
		let r = w.submit_form(out, t, TxSource::Broadcast, false, true, if k % 2 == 0 { Form::V3 } else { Form::V2 });
		w.stat(&format!("heavy-chain:variant-{}:link-{}:aggregated-weight-{}:{}:{}", variant, k, agg_w, if agg_w > global::max_tx_weight() { "over-max-tx-weight" } else { "within-max-tx-weight" }, r));
	}
	w.stat_max("heavy-chain:max-aggregated-weight-of-the-chain", agg_w);
	// one well-paying outsider brings the pool over capacity, the following ones evict
	let w11 = World::weight_of(1, 1);
	for k in 0..(shape.len() + 1) {
		if free.is_empty() {
			break;
		}
		let o = free.remove(0);
		if let Some(tx) = w.spend(&[o], 1, w11 * FEE_BASE * (5 + k as u64), None) {
			let before = w.pool.txpool.entries.len();
			let t = w.add_tx(out, tx, vec![], "heavy-chain:outsider");
			let r = w.submit(out, t, TxSource::Broadcast, false, true);
			let after = w.pool.txpool.entries.len();
			w.stat(&format!("heavy-chain:outsider:{}:txpool-{}-to-{}", r, before.min(9), after.min(9)));
		}
	}
	// explicit evictions as well
	for _ in 0..2 {
		if w.pool.txpool.entries.len() > 1 {
			w.evict(out);
		}
	}
	for _ in 0..3 {
		let txs = w.pool.prepare_mineable_transactions().unwrap_or_default();
		let parent = w.head;
		if let Some(id) = w.build_block(parent, 1, &txs).or_else(|| w.build_block(parent, 1, &[])) {
			w.deliver(out, id);
		}
	}
	merge_stats(&w, total);
}

fn run_history(
	work: &str,
	out: &mut Out,
	rng: &mut Rng,
	hist: usize,
	nops: usize,
	focus: bool,
	total: &mut BTreeMap<String, u64>,
) {
	let cfg = if focus {
		// eviction-focused: tiny capacities, mostly admissible submissions, few blocks
		Cfg { max_pool: 1 + hist % 3, max_stem: 1 + hist % 2, mine_w: 250 }
	} else {
		match hist % 4 {
			0 => Cfg { max_pool: 3, max_stem: 2, mine_w: 130 },
			1 => Cfg { max_pool: 50, max_stem: 50, mine_w: 250 },
			2 => Cfg { max_pool: 2, max_stem: 1, mine_w: 100 },
			_ => Cfg { max_pool: 5, max_stem: 3, mine_w: 75 },
		}
	};
	let mut w = World::new(work, &format!("{}{}", if focus { "e" } else { "h" }, hist), cfg);
	w.focus = focus;
	print_cfg(&w, out);
	let warm = rng.range(5, 9) as usize;
	warm_up(&mut w, out, rng, warm);
	w.print_head(out);
	w.obs(out, "start");
	let mut done = 0;
	let mut tries = 0;
	let mut replay_seen = 0u64;
	while done < nops && tries < nops * 6 {
		tries += 1;
		w.default_form = match rng.below(20) {
			0..=9 => Form::V3,
			10..=15 => Form::V2,
			16..=17 => Form::V2WrongFeatures,
			_ => Form::V2Unsorted,
		};
		// header-first propagation now and then; while bodies are outstanding the next block that
		// arrives is the oldest of them
		if !focus && w.pending_bodies.is_empty() && rng.chance(1, 22) {
			let n = rng.range(1, 2) as usize;
			if w.headers_first(out, n) {
				done += 1;
				continue;
			}
		}
		if !w.pending_bodies.is_empty() && rng.chance(1, 4) {
			w.deliver_pending(out);
			done += 1;
			continue;
		}
		// a stem entry that conflicts with a transaction only the reorg cache still holds: a reorg soon
		let conflicts = *w.stats.get("replay:stem-entry-conflicting-with-reorg-cache-admitted").unwrap_or(&0);
		if conflicts > replay_seen && w.pending_bodies.is_empty() && rng.chance(1, 2) {
			let stem_before = w.pool.stempool.entries.len();
			if random_reorg(&mut w, out, rng) {
				replay_seen = conflicts;
				w.stat("replay:reorg-while-a-stem-entry-conflicts-with-the-reorg-cache");
				if w.pool.stempool.entries.len() < stem_before {
					w.stat("replay:reorg-while-a-stem-entry-conflicts-with-the-reorg-cache:stem-entries-dropped");
				}
				done += 1;
				continue;
			}
		}
		let k = if focus {
			// 88% submissions, 6% blocks, 2% reorgs, 3% explicit evictions, 1% truncations
			match rng.below(100) {
				0..=87 => 0,
				88..=93 => 80,
				94..=95 => 90,
				96..=98 => 95,
				_ => 99,
			}
		} else {
			rng.below(100)
		};
		let ok = if k < 72 {
			random_submission(&mut w, out, rng)
		} else if k < 93 && !w.pending_bodies.is_empty() {
			w.deliver_pending(out)
		} else if k < 86 {
			random_block(&mut w, out, rng)
		} else if k < 93 {
			random_reorg(&mut w, out, rng)
		} else if k < 97 {
			if w.pool.txpool.entries.is_empty() {
				false
			} else {
				w.evict(out);
				true
			}
		} else {
			let n = w.pool.reorg_cache.read().len();
			if n < 2 {
				false
			} else {
				let k = rng.range(1, n as u64 - 1) as usize;
				w.truncate_cache(out, k);
				true
			}
		};
		if ok {
			done += 1;
		}
	}
	*total.entry(if focus { "histories:eviction-focused".to_string() } else { "histories".to_string() }).or_insert(0) += 1;
	*total.entry("ops".into()).or_insert(0) += done as u64;
	for (k, v) in &w.stats {
		if k.contains("max-") {
			let e = total.entry(k.clone()).or_insert(0);
			if *v > *e {
				*e = *v;
			}
		} else {
			*total.entry(k.clone()).or_insert(0) += v;
		}
	}
}

type Job = Box<dyn FnOnce(&str, &mut Out, &mut BTreeMap<String, u64>) + Send>;

/// Scenarios and histories are independent (each has its own chains and pool): they run on
/// worker threads, their output is collected and printed in the fixed job order.
fn main() {
	quiet_panics();
	setup_globals();
	global::set_local_accept_fee_base(FEE_BASE);
	let work = std::env::var("VERIF_WORK").unwrap_or_else(|_| "/verif/work/pool.d".to_string());
	let _ = std::fs::create_dir_all(&work);
	let seed = seed_from_env();
	let thorough = tier_thorough();
	let args: Vec<String> = std::env::args().collect();
	let mode = args.get(1).map(|s| s.as_str()).unwrap_or("all").to_string();
	let mut jobs: Vec<(String, Job)> = vec![];
	if mode == "maturity" {
		let rounds = if thorough { 16 } else { 8 };
		jobs.push(("maturity".into(), Box::new(move |w, o, t| scenario_maturity(w, o, t, rounds))));
		// header chain on a competing fork: fork point 0 .. maturity+3 below the body head
		for depth in 0..=(MATURITY as usize + 3) {
			for shape in 0..4usize {
				if shape == 2 && !thorough {
					continue;
				}
				jobs.push((format!("maturity-fork-{}-{}", depth, shape), Box::new(move |w, o, t| scenario_maturity_fork(w, o, t, depth, shape))));
			}
		}
	}
	if mode == "all" || mode == "scenarios" || mode == "part1" || mode == "part2" || mode == "random" {
		jobs.push(("evict-witness".into(), Box::new(|w, o, t| scenario_evict_witness(w, o, t))));
		jobs.push(("evict-chain".into(), Box::new(|w, o, t| scenario_evict_chain(w, o, t))));
		jobs.push(("low-fee-at-capacity".into(), Box::new(|w, o, t| scenario_low_fee_at_capacity(w, o, t))));
		jobs.push(("full-aggregate".into(), Box::new(|w, o, t| scenario_full_aggregate(w, o, t))));
		jobs.push(("aggregate-low-fee".into(), Box::new(|w, o, t| scenario_aggregate_low_fee(w, o, t))));
		jobs.push(("reorg-lower".into(), Box::new(|w, o, t| scenario_reorg_lower(w, o, t))));
		for v in 0..3 {
			jobs.push((format!("evict-children-{}", v), Box::new(move |w, o, t| scenario_evict_children(w, o, t, v))));
		}
		jobs.push(("forms".into(), Box::new(|w, o, t| scenario_forms(w, o, t))));
		jobs.push(("mine-limit".into(), Box::new(|w, o, t| scenario_mine_limit(w, o, t))));
		jobs.push(("fee-shift".into(), Box::new(|w, o, t| scenario_fee_shift(w, o, t))));
		jobs.push(("recreated-commitment".into(), Box::new(|w, o, t| scenario_recreated_commitment(w, o, t))));
		jobs.push(("header-gap".into(), Box::new(|w, o, t| scenario_header_gap(w, o, t))));
		jobs.push(("degenerate".into(), Box::new(|w, o, t| scenario_degenerate(w, o, t))));
		jobs.push(("stempool-reconcile".into(), Box::new(|w, o, t| scenario_stempool_reconcile(w, o, t))));
		jobs.push(("nrd-disabled".into(), Box::new(|w, o, t| scenario_nrd_disabled(w, o, t))));
		jobs.push(("fee-base-config".into(), Box::new(|w, o, t| scenario_fee_base_config(w, o, t))));
		jobs.push(("hf-boundaries".into(), Box::new(|w, o, t| scenario_hf_boundaries(w, o, t))));
		for v in 0..2 {
			jobs.push((format!("evict-heavy-chain-{}", v), Box::new(move |w, o, t| scenario_evict_heavy_chain(w, o, t, v))));
		}
		for v in 0..2 {
			jobs.push((format!("nrd-reorg-boundary-{}", v), Box::new(move |w, o, t| scenario_nrd_reorg_boundary(w, o, t, v))));
		}
		for v in 0..4 {
			jobs.push((format!("reorg-replay-stem-{}", v), Box::new(move |w, o, t| scenario_reorg_replay_stem(w, o, t, v))));
		}
		let nrand = if thorough { 12 } else { 0 };
		for part in 0..TREE_PARTS {
			jobs.push((format!("evict-trees-{}", part), Box::new(move |w, o, t| scenario_evict_trees(w, o, t, part, nrand))));
		}
	}
	// the scenarios in two registered runs (`part1`, `part2`) so that each stays inside the quick budget
	const PART1: [&str; 9] = ["evict-witness", "evict-chain", "low-fee-at-capacity", "full-aggregate", "aggregate-low-fee", "evict-children", "evict-trees", "evict-heavy-chain", "hf-boundaries"];
	// (three of the scenarios run with the random histories: run pool3)
	const PART3: [&str; 3] = ["mine-limit", "fee-shift", "stempool-reconcile"];
	if mode == "part1" {
		jobs.retain(|(n, _)| PART1.iter().any(|p| n.starts_with(p)));
	} else if mode == "part2" {
		jobs.retain(|(n, _)| !PART1.iter().any(|p| n.starts_with(p)) && !PART3.iter().any(|p| n.starts_with(p)));
	} else if mode == "random" {
		jobs.retain(|(n, _)| PART3.iter().any(|p| n.starts_with(p)));
	}
	if mode == "all" || mode == "random" {
		let nh: usize = args.get(2).and_then(|s| s.parse().ok()).unwrap_or(if thorough { 16 } else { 4 });
		let nops: usize = args.get(3).and_then(|s| s.parse().ok()).unwrap_or(if thorough { 100 } else { 45 });
		for h in 0..nh {
			jobs.push((
				format!("h{}", h),
				Box::new(move |w, o, t| {
					// one stream per history, derived from the seed
					let mut rng = Rng::new(seed.wrapping_mul(1_000_003).wrapping_add(7919 * (h as u64 + 1)));
					run_history(w, o, &mut rng, h, nops, false, t)
				}),
			));
		}
		let nf: usize = args.get(4).and_then(|s| s.parse().ok()).unwrap_or(if thorough { 12 } else { 3 });
		for h in 0..nf {
			jobs.push((
				format!("e{}", h),
				Box::new(move |w, o, t| {
					let mut rng = Rng::new(seed.wrapping_mul(1_000_003).wrapping_add(104_729 * (h as u64 + 1)));
					run_history(w, o, &mut rng, h, nops, true, t)
				}),
			));
		}
	}
	// development aid: VERIF_ONLY=<substring> keeps the jobs whose name contains it
	if let Ok(only) = std::env::var("VERIF_ONLY") {
		jobs.retain(|(n, _)| n.contains(&only));
	}
	let njobs = jobs.len();
	let nthreads: usize = std::env::var("VERIF_THREADS").ok().and_then(|s| s.parse().ok()).unwrap_or(8).max(1).min(njobs.max(1));
	// long jobs are started first (the output order stays the job order)
	let mut order: Vec<(usize, String, Job)> = jobs.into_iter().enumerate().map(|(i, (n, j))| (i, n, j)).collect();
	let cost = |n: &str| -> u32 {
		if n.starts_with("evict-trees") || n == "forms" || n == "maturity" || n == "stempool-reconcile" || n == "mine-limit" {
			0
		} else if n.starts_with('h') || n.starts_with('e') && !n.starts_with("evict-") || n == "fee-shift" || n == "aggregate-low-fee" || n.starts_with("evict-children") {
			1
		} else if n.starts_with("reorg-") || n == "nrd-disabled" || n.starts_with("nrd-reorg") || n == "hf-boundaries" || n.starts_with("evict-heavy") || n == "fee-base-config" || n == "degenerate" || n == "recreated-commitment" {
			2
		} else {
			3
		}
	};
	order.sort_by_key(|(i, n, _)| (cost(n), *i));
	let queue: Mutex<std::collections::VecDeque<(usize, String, Job)>> = Mutex::new(order.into_iter().collect());
	let results: Mutex<Vec<Option<(String, BTreeMap<String, u64>)>>> = Mutex::new((0..njobs).map(|_| None).collect());
	let t0 = std::time::Instant::now();
	// the message and location of the last panic on this thread (for the report of a job that dies)
	thread_local! { static LAST_PANIC: std::cell::RefCell<String> = std::cell::RefCell::new(String::new()); }
	std::panic::set_hook(Box::new(|info| {
		let text = format!("{}", info).replace('\n', " ");
		LAST_PANIC.with(|p| *p.borrow_mut() = text);
	}));
	use std::io::Write;
	let emit = |text: &str| {
		let stdout = std::io::stdout();
		let mut lock = stdout.lock();
		lock.write_all(text.as_bytes()).unwrap();
		lock.flush().unwrap();
	};
	emit(&format!(
		"#STAT config: accept_fee_base={} (global, what is_acceptable reads) max_tx_weight={} max_block_weight={} maturity={}; per history (max_pool_size,max_stempool_size,mineable_max_weight) in (3,2,130) (50,50,250) (2,1,100) (5,3,75); scenarios use (2,50,250) (1,50,250) (50,50,250), eviction-then-children (2,2,250) (3,2,250), forms (50,50,250)\n",
		FEE_BASE,
		global::max_tx_weight(),
		global::max_block_weight(),
		MATURITY
	));
	let mut total: BTreeMap<String, u64> = BTreeMap::new();
	let mut failed = false;
	std::thread::scope(|scope| {
		let mut handles = vec![];
		for _ in 0..nthreads {
			handles.push(scope.spawn(|| {
				setup_globals();
				global::set_local_accept_fee_base(FEE_BASE);
				loop {
					let next = queue.lock().unwrap_or_else(|e| e.into_inner()).pop_front();
					let (i, name, job) = match next {
						Some(x) => x,
						None => break,
					};
					let dir = format!("{}/{}", work, name);
					let _ = std::fs::create_dir_all(&dir);
					let mut out = Out::new();
					let mut stats = BTreeMap::new();
					let tjob = std::time::Instant::now();
					// a panic that escapes the guarded pool calls (in the harness itself, or in chain / pool
					// code reached through an oracle) must not take the whole run down silently
					let r = std::panic::catch_unwind(std::panic::AssertUnwindSafe(|| {
						job(&dir, &mut out, &mut stats);
						if std::env::var("VERIF_POOL_SELFTEST").as_deref() == Ok("panic") && name == "evict-chain" {
							panic!("selftest: a panic escaping a job");
						}
					}));
					if r.is_err() {
						let msg = LAST_PANIC.with(|p| p.borrow().clone());
						let lines = out.buf.lines().count();
						out.raw(&format!(
							"#ORACLE-FAIL C14 pool-harness-job-panicked job={} after {} lines of output: {} - the operations before it are printed above; nothing of this job was evaluated after that point",
							name, lines, msg
						));
					}
					let _ = std::fs::remove_dir_all(&dir);
					if std::env::var("VERIF_DEBUG").is_ok() {
						eprintln!("[{:7.2}s] done {} ({:.2}s)", t0.elapsed().as_secs_f64(), name, tjob.elapsed().as_secs_f64());
					}
					results.lock().unwrap_or_else(|e| e.into_inner())[i] = Some((out.buf, stats));
				}
			}));
		}
		// print every job's output as soon as it and all earlier ones are done: whatever happens
		// later (an abort cannot be caught), what was evaluated is on stdout
		for i in 0..njobs {
			loop {
				let r = results.lock().unwrap_or_else(|e| e.into_inner())[i].take();
				match r {
					Some((buf, stats)) => {
						emit(&buf);
						for (k, v) in stats {
							if k.contains("max-") {
								let e = total.entry(k).or_insert(0);
								if v > *e {
									*e = v;
								}
							} else {
								*total.entry(k).or_insert(0) += v;
							}
						}
						break;
					}
					None => {
						if handles.iter().all(|h| h.is_finished()) && results.lock().unwrap_or_else(|e| e.into_inner())[i].is_none() {
							emit(&format!("#ORACLE-FAIL C14 pool-harness-job-lost job index {}: its worker thread ended without a result\n", i));
							failed = true;
							break;
						}
						std::thread::sleep(std::time::Duration::from_millis(20));
					}
				}
			}
		}
	});
	let mut text = String::new();
	for (k, v) in total {
		text.push_str(&format!("#STAT {}={}\n", k, v));
	}
	emit(&text);
	if failed {
		std::process::exit(1);
	}
}
