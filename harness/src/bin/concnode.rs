//! C17, node level (session 9) — the locks a running node wraps AROUND the chain, driven on ONE real
//! node from six threads: the real `ServerTxPool = Arc<RwLock<TransactionPool>>` over the real
//! `PoolToChainAdapter` / `PoolToNetAdapter` (Dandelion epoch lock), a real `Chain` whose adapter IS
//! `servers::common::adapters::ChainToPoolAndNetAdapter` (so `Chain::process_block` calls back into the
//! pool: `block_accepted` write-locks the pool and reconciles it through `Chain::validate_tx` & co.), the
//! real `NetToChainAdapter` (what the p2p layer calls for every message) with a real `SyncState`, the real
//! miner entry `mine_block::get_block` and the real Dandelion monitor passes.
//!
//! Threads of one episode (everything pre-built by the kit; the interleaving is the OS scheduler's plus
//! seeded yields / sleeps / spins between ops):
//!   peerA   `block_received` of the trunk blocks above the preloaded part (some of them spend outputs the
//!           pool's transactions spend: the callback must evict those), duplicates;
//!   peerB   `header_received` + `block_received` of a heavier fork (a reorg: `reconcile_reorg_cache`);
//!   txpeer  `transaction_received` (stem / fluff, parents first, children of pooled outputs),
//!           `tx_kernel_received`, `get_transaction`;
//!   miner   `get_block` (= `build_block`: pool read lock held ACROSS `prepare_mineable_transactions`, i.e.
//!           across `Chain::validate_tx`; then `set_txhashset_roots` = both chain write locks);
//!   monitor `process_fluff_phase`, `process_expired_entries`, `is_expired` / `next_epoch`;
//!   status  `SyncState::{status, is_syncing, update_header_sync, update}` (NoSync -> NoSync),
//!           `locate_headers`, `total_difficulty`, `tx_pool.read().total_size()`, `Chain::validate(fast)`.
//! Oracles (`#ORACLE-FAIL C17 … node …`): progress watchdog (no thread completes a call for 60 s /
//! 120 s), no panic (catch_unwind around every call), after the join: head = the unique max-work block,
//! header head = head, `validate(fast)` passes, the pool is consistent with the chain it ends on (the
//! aggregate of the txpool validates against the head: nothing a delivered block spent is left behind by
//! the callback), (head, header head) = a twin fed the same blocks in order.
//! Lines: `conc nodeclass <entry> => <locks>` (the lock set the harness assumes per entry point against
//! the regenerated node table), `conc nodesim seed=… progs=… => finished` (the sequences really run,
//! replayed on the model), `conc nodetablecheck => ok`, `conc node round=… => ok`.
use grin_chain::{Chain, Options, SyncState, SyncStatus};
use grin_core::core::hash::Hashed;
use grin_core::core::{Block, Transaction};
use grin_core::pow;
use grin_p2p::types::{Capabilities, Direction, PeerAddr, PeerInfo, PeerLiveInfo};
use grin_p2p::ChainAdapter as P2pChainAdapter;
use grin_pool::types::PoolConfig;
use grin_pool::{DandelionConfig, TransactionPool};
use grin_servers::common::adapters::{ChainToPoolAndNetAdapter, DandelionAdapter, NetToChainAdapter, PoolToChainAdapter, PoolToNetAdapter};
use grin_servers::verif_export::{get_block, verif_process_expired_entries, verif_process_fluff_phase, VerifStratum};
use grin_util::RwLock;
use gvharness::chainkit::*;
use gvharness::*;
use std::collections::BTreeMap;
use std::panic::AssertUnwindSafe;
use std::sync::atomic::{AtomicBool, AtomicU64, Ordering};
use std::sync::{Arc, Mutex};
use std::time::{Duration, Instant};

const FEE: u64 = 60_000_000;

type Pool = Arc<RwLock<TransactionPool<PoolToChainAdapter, PoolToNetAdapter>>>;

struct NodeUnderTest {
	chain: Arc<Chain>,
	pool: Pool,
	net: Arc<PoolToNetAdapter>,
	recv: NetToChainAdapter<PoolToChainAdapter, PoolToNetAdapter>,
	sync: Arc<SyncState>,
	dcfg: DandelionConfig,
	_chain_adapter: Arc<ChainToPoolAndNetAdapter<PoolToChainAdapter, PoolToNetAdapter>>,
	/// the adapters hold Weak references only
	_peers: Arc<grin_p2p::Peers>,
	/// the node's api objects (api/src/foreign.rs, owner.rs), as servers/src/grin/server.rs hands them the Weak refs
	foreign: grin_api::Foreign<PoolToChainAdapter, PoolToNetAdapter>,
	owner: grin_api::Owner,
}

fn mk_node(dir: &str, genesis: &Block, stem_probability: u8) -> NodeUnderTest {
	let _ = std::fs::remove_dir_all(dir);
	let dcfg = DandelionConfig {
		epoch_secs: 60_000,
		embargo_secs: 0,
		aggregation_secs: 0,
		stem_probability,
		always_stem_our_txs: false,
	};
	let pool_adapter = Arc::new(PoolToChainAdapter::new());
	let store = grin_p2p::store::PeerStore::new(&format!("{}/peers", dir)).unwrap();
	let peers = Arc::new(grin_p2p::Peers::new(store, Arc::new(grin_p2p::DummyAdapter {}), grin_p2p::P2PConfig::default()));
	let net = Arc::new(PoolToNetAdapter::new(dcfg.clone()));
	net.init(peers.clone());
	let pool: Pool = Arc::new(RwLock::new(TransactionPool::new(
		PoolConfig {
			accept_fee_base: 1,
			reorg_cache_period: 30,
			max_pool_size: 50,
			max_stempool_size: 50,
			mineable_max_weight: 400,
		},
		pool_adapter.clone(),
		net.clone(),
	)));
	let chain_adapter = Arc::new(ChainToPoolAndNetAdapter::new(pool.clone(), vec![]));
	let chain = Arc::new(Chain::init(dir.to_string(), chain_adapter.clone(), genesis.clone(), pow::verify_size, false, None).unwrap());
	pool_adapter.set_chain(chain.clone());
	chain_adapter.init(peers.clone());
	let sync = Arc::new(SyncState::new());
	sync.update(SyncStatus::NoSync);
	let recv = NetToChainAdapter::new(sync.clone(), chain.clone(), pool.clone(), grin_servers::ServerConfig::default(), vec![]);
	recv.init(peers.clone());
	let foreign = grin_api::Foreign::new(Arc::downgrade(&chain), Arc::downgrade(&pool), Arc::downgrade(&sync));
	let owner = grin_api::Owner::new(Arc::downgrade(&chain), Arc::downgrade(&peers), Arc::downgrade(&sync));
	NodeUnderTest { chain, pool, net, recv, sync, dcfg, _chain_adapter: chain_adapter, _peers: peers, foreign, owner }
}

fn peer_info(port: u16) -> PeerInfo {
	PeerInfo {
		capabilities: Capabilities::UNKNOWN,
		user_agent: "verif".to_string(),
		version: grin_core::ser::ProtocolVersion::local(),
		addr: PeerAddr(format!("127.0.0.1:{}", port).parse().unwrap()),
		direction: Direction::Inbound,
		live_info: Arc::new(RwLock::new(PeerLiveInfo::new(grin_core::pow::Difficulty::min_dma()))),
	}
}

#[derive(Clone)]
enum Op {
	Block(usize),
	Header(usize),
	Tx(usize, bool),
	TxKernel(usize),
	GetTx(usize),
	Mine,
	Fluff,
	Expired,
	Epoch,
	Status,
	UpdateSync,
	Locate(usize),
	TotalDiff,
	PoolSize,
	ValidateFast,
	ApiTip,
	ApiHeader(u64),
	ApiBlock(u64),
	ApiKernel(usize),
	ApiPage,
	ApiPmmr,
	ApiPoolInfo,
	ApiPush(usize),
	OwnerStatus,
	OwnerValidate,
	OwnerCompact,
	/// one stratum episode: candidate from the real get_block, installed; stale / wrong-job / garbage shares; a real
	/// solution found by the pow solver, submitted (a full solution goes through chain.process_block(MINE))
	Stratum,
}

impl Op {
	/// entry points of the regenerated node table the op runs, in order
	fn entries(&self) -> Vec<&'static str> {
		match self {
			Op::Block(_) => vec!["NetToChainAdapter::block_received"],
			Op::Header(_) => vec!["NetToChainAdapter::header_received"],
			Op::Tx(..) => vec!["NetToChainAdapter::transaction_received"],
			Op::TxKernel(_) => vec!["NetToChainAdapter::tx_kernel_received"],
			Op::GetTx(_) => vec!["NetToChainAdapter::get_transaction"],
			Op::Mine => vec!["mine_block::get_block"],
			Op::Fluff => vec!["dandelion_monitor::process_fluff_phase"],
			Op::Expired => vec!["dandelion_monitor::process_expired_entries"],
			Op::Epoch => vec!["PoolToNetAdapter::is_expired", "PoolToNetAdapter::next_epoch"],
			Op::Status => vec!["SyncState::status", "SyncState::is_syncing"],
			Op::UpdateSync => vec!["SyncState::update_header_sync", "SyncState::update"],
			Op::Locate(_) => vec!["NetToChainAdapter::locate_headers"],
			Op::TotalDiff => vec!["NetToChainAdapter::total_difficulty"],
			Op::PoolSize => vec!["NetToChainAdapter::get_transaction"],
			Op::ValidateFast => vec!["Chain::validate"],
			Op::ApiTip => vec!["api::ChainHandler::get_tip"],
			Op::ApiHeader(_) => vec!["api::HeaderHandler::parse_inputs", "api::HeaderHandler::get_header_v2"],
			Op::ApiBlock(_) => vec!["api::BlockHandler::parse_inputs", "api::BlockHandler::get_block"],
			Op::ApiKernel(_) => vec!["api::KernelHandler::get_kernel_v2"],
			Op::ApiPage => vec!["api::OutputHandler::get_unspent_outputs"],
			Op::ApiPmmr => vec!["api::TxHashSetHandler::block_height_range_to_pmmr_indices"],
			Op::ApiPoolInfo => vec!["api::PoolHandler::get_pool_size", "api::PoolHandler::get_stempool_size", "api::PoolHandler::get_unconfirmed_transactions"],
			Op::ApiPush(_) => vec!["api::PoolHandler::push_transaction"],
			Op::OwnerStatus => vec!["api::StatusHandler::get_status"],
			Op::OwnerValidate => vec!["api::ChainValidationHandler::validate_chain"],
			Op::OwnerCompact => vec!["api::ChainCompactHandler::compact_chain"],
			Op::Stratum => vec!["mine_block::get_block", "Stratum::handle_rpc_requests", "Stratum::handle_rpc_requests", "Stratum::handle_rpc_requests"],
		}
	}
}

/// the lock set (with modes, sorted) this harness assumes each entry point takes; compared with the
/// regenerated node table by the driver
const CLASSES: &[(&str, &str)] = &[
	("NetToChainAdapter::block_received", "chain.batch.W,chain.deny.R,chain.hidx.W,chain.hp.R,chain.hp.W,chain.orph.R,chain.orph.W,chain.ts.R,chain.ts.W,p2pPeers.R,p2pPeers.W,peerSend.W,peerStop.W,pool.W,reorg.R,reorg.W,secp.W,syncCur.R"),
	("NetToChainAdapter::header_received", "chain.batch.W,chain.deny.R,chain.hp.W,chain.ts.W,p2pPeers.R,peerSend.W,syncCur.R"),
	("NetToChainAdapter::transaction_received", "chain.batch.W,chain.deny.R,chain.hp.R,chain.hp.W,chain.ts.R,chain.ts.W,dand.W,p2pPeers.R,p2pPeers.W,peerSend.W,peerStop.W,pool.W,reorg.W,secp.W,syncCur.R"),
	("NetToChainAdapter::tx_kernel_received", "p2pPeers.R,peerSend.W,pool.R,syncCur.R"),
	("NetToChainAdapter::get_transaction", "pool.R"),
	("NetToChainAdapter::locate_headers", "chain.hp.R"),
	("NetToChainAdapter::total_difficulty", "-"),
	("mine_block::get_block", "chain.batch.W,chain.deny.R,chain.hp.R,chain.hp.W,chain.ts.R,chain.ts.W,pool.R,secp.W"),
	("dandelion_monitor::process_fluff_phase", "chain.batch.W,chain.deny.R,chain.hp.R,chain.hp.W,chain.ts.R,chain.ts.W,dand.R,dand.W,p2pPeers.R,p2pPeers.W,peerSend.W,peerStop.W,pool.W,reorg.W,secp.W"),
	("dandelion_monitor::process_expired_entries", "chain.batch.W,chain.deny.R,chain.hp.R,chain.hp.W,chain.ts.R,chain.ts.W,dand.W,p2pPeers.R,p2pPeers.W,peerSend.W,peerStop.W,pool.W,reorg.W,secp.W"),
	("PoolToNetAdapter::is_expired", "dand.R"),
	("PoolToNetAdapter::next_epoch", "dand.W"),
	("SyncState::status", "syncCur.R"),
	("SyncState::is_syncing", "syncCur.R"),
	("SyncState::update_header_sync", "syncCur.W"),
	("SyncState::update", "syncCur.W"),
	("Chain::validate", "chain.batch.W,chain.deny.R,chain.hp.W,chain.ts.W"),
	("ChainToPoolAndNetAdapter::block_accepted", "chain.batch.W,chain.hp.R,chain.hp.W,chain.ts.R,chain.ts.W,p2pPeers.R,p2pPeers.W,peerSend.W,peerStop.W,pool.W,reorg.R,reorg.W,secp.W"),
];

struct Scenario {
	blocks: Vec<Block>,
	/// indices into `blocks`: trunk part delivered before the threads start / by peerA / fork by peerB
	preload: Vec<usize>,
	trunk: Vec<usize>,
	fork: Vec<usize>,
	txs: Vec<Transaction>,
	best: usize,
	work: Vec<u64>,
}

fn spend_spec(kit: &Kit, oid: usize, nout: usize) -> TxSpec {
	let v = kit.outs[oid].value - FEE;
	let each = v / nout as u64;
	let mut outs = vec![];
	for k in 0..nout {
		outs.push((if k + 1 == nout { v - each * (nout as u64 - 1) } else { each }, None));
	}
	TxSpec { inputs: vec![oid], outputs: outs, kernel: KSpec::Plain(FEE) }
}

fn build_scenario(work: &str, round: usize, rng: &mut Rng) -> Result<(Kit, Scenario), String> {
	let mut kit = Kit::new(&format!("{}/node_builder{}", work, round));
	let mut blocks = vec![kit.genesis.clone()];
	let mut ids = vec![0usize];
	let mut workv = vec![kit.blks[0].work];
	// coinbase output id per kit block id
	let mut cb: BTreeMap<usize, usize> = BTreeMap::new();
	let mut push = |kit: &mut Kit, id: usize, blocks: &mut Vec<Block>, ids: &mut Vec<usize>, workv: &mut Vec<u64>, cb: &mut BTreeMap<usize, usize>| {
		let b = kit.blks[id].block.clone();
		for o in b.outputs() {
			if o.is_coinbase() {
				if let Some(oid) = kit.by_commit.get(&o.commitment()) {
					cb.insert(id, *oid);
				}
			}
		}
		workv.push(kit.blks[id].work);
		blocks.push(b);
		ids.push(id);
		blocks.len() - 1
	};
	let pre_len = 8usize;
	let trunk_len = pre_len + 4 + rng.below(3) as usize;
	let mut preload = vec![];
	let mut trunk = vec![];
	let mut parent = 0usize;
	let mut trunk_ids = vec![0usize];
	// pool transactions spend the coinbases of blocks 1..5 (mature from height 4..8 on); trunk blocks above
	// the preload spend some of the same coinbases with OTHER transactions (the callback must evict)
	for h in 1..=trunk_len {
		let mut specs = vec![];
		if h > pre_len && h - pre_len <= 2 {
			// conflicts with pool tx #(h - pre_len - 1)
			let src = trunk_ids[h - pre_len];
			if let Some(oid) = cb.get(&src) {
				specs.push(spend_spec(&kit, *oid, 2));
			}
		}
		let id = kit.new_block(parent, 2 + rng.below(2), &specs)?;
		let ix = push(&mut kit, id, &mut blocks, &mut ids, &mut workv, &mut cb);
		if h <= pre_len { preload.push(ix) } else { trunk.push(ix) }
		trunk_ids.push(id);
		parent = id;
	}
	// the fork: from trunk height 6, heavier per block, long enough to win; spends coinbase 3 its own way
	let mut fork = vec![];
	let mut fparent = trunk_ids[6];
	let flen = trunk_len - 6 + 1;
	for k in 0..flen {
		let mut specs = vec![];
		if k == 3 {
			if let Some(oid) = cb.get(&trunk_ids[3]) {
				specs.push(spend_spec(&kit, *oid, 1));
			}
		}
		let id = kit.new_block(fparent, 4, &specs)?;
		let ix = push(&mut kit, id, &mut blocks, &mut ids, &mut workv, &mut cb);
		fork.push(ix);
		fparent = id;
	}
	// pool transactions: parents spend coinbases 1..5, children spend an output of a parent
	let mut txs = vec![];
	for i in 1..=5usize {
		let oid = *cb.get(&trunk_ids[i]).ok_or("coinbase not registered")?;
		let before = kit.outs.len();
		let t = kit.build_tx(&spend_spec(&kit, oid, 2))?;
		txs.push(t);
		if rng.chance(2, 3) {
			let child = kit.build_tx(&spend_spec(&kit, before, 2))?;
			txs.push(child);
		}
	}
	let best = (0..blocks.len()).max_by_key(|i| workv[*i]).unwrap();
	let nbest = workv.iter().filter(|w| **w == workv[best]).count();
	if nbest != 1 {
		return Err("max work not unique".into());
	}
	Ok((kit, Scenario { blocks, preload, trunk, fork, txs, best, work: workv }))
}

fn perturb(rng: &mut Rng) {
	match rng.below(8) {
		0 | 1 => std::thread::yield_now(),
		2 => std::thread::sleep(Duration::from_micros(5 + rng.below(400))),
		3 => {
			let n = rng.below(3000);
			let mut x = 0u64;
			for i in 0..n {
				x = x.wrapping_add(i * i);
			}
			std::hint::black_box(x);
		}
		_ => {}
	}
}

struct Shared {
	node: NodeUnderTest,
	sc: Scenario,
	steps: AtomicU64,
	current: Mutex<BTreeMap<usize, String>>,
	fails: Mutex<Vec<String>>,
	stats: Mutex<BTreeMap<String, u64>>,
	done: AtomicBool,
	stratum: VerifStratum,
	worker: usize,
	/// blocks mined through the stratum server that the chain accepted (they add work beyond the scenario)
	mined: Mutex<Vec<Block>>,
}

fn note(sh: &Shared, k: String) {
	*sh.stats.lock().unwrap().entry(k).or_insert(0) += 1;
}

fn short<T, E: std::fmt::Debug>(r: &Result<T, E>) -> String {
	match r {
		Ok(_) => "ok".into(),
		Err(e) => {
			let s = format!("{:?}", e);
			let s: String = s.chars().take_while(|c| c.is_alphanumeric() || *c == '_').collect();
			format!("err:{}", if s.is_empty() { "other".to_string() } else { s })
		}
	}
}

/// bounded version of core::pow::pow_size: a cycle on the header meeting `diff`, at most `tries` nonces
fn solve(bh: &mut grin_core::core::BlockHeader, diff: u64, tries: u64) -> bool {
	use grin_core::global;
	use grin_core::pow::PoWContext;
	for _ in 0..tries {
		if let Ok(mut ctx) = global::create_pow_context::<u32>(bh.height, global::min_edge_bits(), global::proofsize(), 10) {
			if ctx.set_header_nonce(bh.pre_pow(), None, true).is_ok() {
				if let Ok(proofs) = ctx.find_cycles() {
					bh.pow.proof = proofs[0].clone();
					if bh.pow.to_difficulty(bh.height).to_num() >= diff {
						return true;
					}
				}
			}
		}
		bh.pow.nonce = bh.pow.nonce.wrapping_add(1);
	}
	false
}

fn submit_line(id: u32, height: u64, job: u64, nonce: u64, edge_bits: u32, pow: &[u64]) -> String {
	let p: Vec<String> = pow.iter().map(|x| x.to_string()).collect();
	format!(
		"{{\"id\":\"{}\",\"jsonrpc\":\"2.0\",\"method\":\"submit\",\"params\":{{\"height\":{},\"job_id\":{},\"nonce\":{},\"edge_bits\":{},\"pow\":[{}]}}}}",
		id, height, job, nonce, edge_bits, p.join(",")
	)
}

fn resp_class(r: &Result<String, String>) -> String {
	match r {
		Err(_) => "unparsable".into(),
		Ok(s) => {
			if let Some(i) = s.find("\"code\":") {
				let c: String = s[i + 7..].chars().take_while(|c| c.is_ascii_digit() || *c == '-').collect();
				format!("error{}", c)
			} else if s.contains("blockfound") {
				"blockfound".into()
			} else {
				"ok".into()
			}
		}
	}
}

fn stratum_episode(sh: &Shared) {
	let n = &sh.node;
	let (b, _fees) = get_block(&n.chain, &n.pool, None, None);
	let prev = match n.chain.get_block_header(&b.header.prev_hash) {
		Ok(p) => p,
		Err(_) => return,
	};
	let diff = (b.header.total_difficulty() - prev.total_difficulty()).to_num();
	sh.stratum.install_candidate(b.clone(), true, diff);
	let h = b.header.height;
	let eb = grin_core::global::min_edge_bits() as u32;
	for (what, line) in [
		("getjobtemplate", "{\"id\":\"1\",\"jsonrpc\":\"2.0\",\"method\":\"getjobtemplate\",\"params\":null}".to_string()),
		("status", "{\"id\":\"2\",\"jsonrpc\":\"2.0\",\"method\":\"status\",\"params\":null}".to_string()),
		("keepalive", "{\"id\":\"3\",\"jsonrpc\":\"2.0\",\"method\":\"keepalive\",\"params\":null}".to_string()),
		("stale_height", submit_line(4, h + 1, 0, 1, eb, &[1, 2, 3, 4, 5, 6, 7, 8])),
		("wrong_job", submit_line(5, h, 7, 1, eb, &[1, 2, 3, 4, 5, 6, 7, 8])),
		("garbage_pow", submit_line(6, h, 0, 1, eb, &[1, 2, 3, 4, 5, 6, 7, 8])),
		("too_small_graph", submit_line(7, h, 0, 1, 5, &[1, 2, 3, 4, 5, 6, 7, 8])),
	] {
		let r = sh.stratum.request(&line, sh.worker);
		let c = resp_class(&r);
		// a refused share must be answered with an error, never accepted
		if what.contains('_') && !c.starts_with("error") {
			sh.fails.lock().unwrap().push(format!("stratum: the {} share `{}` was answered {:?}", what, line, r));
		}
		note(sh, format!("stratum_{}:{}", what, c));
	}
	// a real solution (bounded search)
	let mut hdr = b.header.clone();
	if solve(&mut hdr, diff, 300) {
		let line = submit_line(8, h, 0, hdr.pow.nonce, hdr.pow.proof.edge_bits as u32, &hdr.pow.proof.nonces);
		let r = sh.stratum.request(&line, sh.worker);
		let c = resp_class(&r);
		note(sh, format!("stratum_solution:{}", c));
		let mut mined = b.clone();
		mined.header = hdr;
		let stored = n.chain.block_exists(mined.hash()).unwrap_or(false);
		if c == "blockfound" || c == "ok" {
			if stored {
				sh.mined.lock().unwrap().push(mined);
				note(sh, "stratum_block_stored".into());
			} else if c == "blockfound" {
				sh.fails.lock().unwrap().push(format!("stratum answered blockfound for height {} but the block is not stored", h));
			}
		}
	} else {
		note(sh, "stratum_solution:none_in_300_nonces".into());
	}
}

fn run_op(sh: &Shared, tid: usize, op: &Op, pi: &PeerInfo) {
	let n = &sh.node;
	let label = op.entries().join("+");
	sh.current.lock().unwrap().insert(tid, label.clone());
	let r = std::panic::catch_unwind(AssertUnwindSafe(|| match op {
		Op::Block(b) => {
			let r = n.recv.block_received(sh.sc.blocks[*b].clone(), pi, Options::SKIP_POW);
			note(sh, format!("block_received:{}", short(&r)));
		}
		Op::Header(b) => {
			// Options::NONE inside: the kit's blocks carry no proof of work, the header stage takes its
			// locks and refuses at the PoW check
			let r = n.recv.header_received(sh.sc.blocks[*b].header.clone(), pi);
			note(sh, format!("header_received:{}", short(&r)));
		}
		Op::Tx(t, stem) => {
			let r = n.recv.transaction_received(sh.sc.txs[*t].clone(), *stem);
			note(sh, format!("transaction_received:{}:{}", if *stem { "stem" } else { "fluff" }, short(&r)));
		}
		Op::TxKernel(t) => {
			let r = n.recv.tx_kernel_received(sh.sc.txs[*t].kernels()[0].hash(), pi);
			note(sh, format!("tx_kernel_received:{}", short(&r)));
		}
		Op::GetTx(t) => {
			let r = n.recv.get_transaction(sh.sc.txs[*t].kernels()[0].hash());
			note(sh, format!("get_transaction:{}", if r.is_some() { "some" } else { "none" }));
		}
		Op::Mine => {
			let (b, _fees) = get_block(&n.chain, &n.pool, None, None);
			note(sh, format!("get_block:txs={}", b.kernels().len().saturating_sub(1).min(4)));
			// the template must sit on a block the node has
			if n.chain.get_block_header(&b.header.prev_hash).is_err() {
				sh.fails.lock().unwrap().push(format!("get_block built a template on an unknown parent {}", b.header.prev_hash));
			}
		}
		Op::Fluff => {
			let a: Arc<dyn DandelionAdapter> = n.net.clone();
			let r = verif_process_fluff_phase(&n.dcfg, &n.pool, &a);
			note(sh, format!("process_fluff_phase:{}", short(&r)));
		}
		Op::Expired => {
			let r = verif_process_expired_entries(&n.dcfg, &n.pool);
			note(sh, format!("process_expired_entries:{}", short(&r)));
		}
		Op::Epoch => {
			let _ = n.net.is_expired();
			n.net.next_epoch();
			note(sh, "next_epoch".into());
		}
		Op::Status => {
			let s = n.sync.status();
			let y = n.sync.is_syncing();
			if s != SyncStatus::NoSync || y {
				sh.fails.lock().unwrap().push(format!("SyncState answered {:?} / is_syncing={} although only NoSync was ever written", s, y));
			}
			note(sh, "status".into());
		}
		Op::UpdateSync => {
			if let Ok(t) = n.chain.header_head() {
				n.sync.update_header_sync(t);
			}
			n.sync.update(SyncStatus::NoSync);
			note(sh, "update_sync".into());
		}
		Op::Locate(b) => {
			let loc = vec![sh.sc.blocks[*b].hash(), sh.sc.blocks[0].hash()];
			let r = n.recv.locate_headers(&loc);
			note(sh, format!("locate_headers:{}", short(&r)));
		}
		Op::TotalDiff => {
			let r = n.recv.total_difficulty();
			note(sh, format!("total_difficulty:{}", short(&r)));
		}
		Op::PoolSize => {
			let sz = n.pool.read().total_size();
			note(sh, format!("pool_size:{}", sz.min(9)));
		}
		Op::ApiTip => {
			let r = n.foreign.get_tip();
			if let Ok(t) = &r {
				// work of successively observed tips never decreases (per thread: kept in the stats map under a key of its own)
				let mut st = sh.stats.lock().unwrap();
				let last = st.entry(format!("zz_last_tip_{}", tid)).or_insert(0);
				if t.total_difficulty < *last {
					sh.fails.lock().unwrap().push(format!("api get_tip total difficulty went down: {} after {}", t.total_difficulty, *last));
				}
				*last = t.total_difficulty;
			}
			note(sh, format!("api_get_tip:{}", short(&r)));
		}
		Op::ApiHeader(h) => {
			let r = n.foreign.get_header(Some(*h), None, None);
			if let Ok(x) = &r {
				if x.height != *h {
					sh.fails.lock().unwrap().push(format!("api get_header(height {}) answered a header of height {}", h, x.height));
				}
			}
			note(sh, format!("api_get_header:{}", short(&r)));
		}
		Op::ApiBlock(h) => {
			let r = n.foreign.get_block(Some(*h), None, None);
			if let Ok(x) = &r {
				if x.header.height != *h {
					sh.fails.lock().unwrap().push(format!("api get_block(height {}) answered a block of height {}", h, x.header.height));
				}
			}
			note(sh, format!("api_get_block:{}", short(&r)));
		}
		Op::ApiKernel(t) => {
			let ex = hex(&sh.sc.txs[*t].kernels()[0].excess.0);
			let r = n.foreign.get_kernel(ex, None, None);
			note(sh, format!("api_get_kernel:{}", short(&r)));
		}
		Op::ApiPage => {
			// one page sequence over the unspent outputs; per call: no commitment twice, a listed unspent output has a
			// position; over the sequence the same (commitment, position) never twice
			let mut start = 1u64;
			let mut seen = std::collections::BTreeSet::new();
			let mut pages = 0;
			// a duplicate across pages is legitimate when the head moved while the sequence ran (see conctorn.rs)
			let head_before = n.chain.head().map(|t| t.last_block_h).ok();
			let mut dups: Vec<(String, u64)> = vec![];
			loop {
				let page = match n.foreign.get_unspent_outputs(start, None, 5, Some(false)) {
					Ok(p) => p,
					Err(_) => break,
				};
				pages += 1;
				let mut in_call = std::collections::BTreeSet::new();
				for o in &page.outputs {
					if !in_call.insert(o.commit.0.to_vec()) {
						sh.fails.lock().unwrap().push(format!("api get_unspent_outputs(start {}) lists commitment {} twice in one call", start, hex(&o.commit.0[..6])));
					}
					if !o.spent && !seen.insert((o.commit.0.to_vec(), o.mmr_index)) {
						dups.push((hex(&o.commit.0[..6]), o.mmr_index));
					}
					if !o.spent && o.mmr_index == 0 {
						sh.fails.lock().unwrap().push(format!("api get_unspent_outputs lists {} unspent without a position", hex(&o.commit.0[..6])));
					}
				}
				if page.last_retrieved_index >= page.highest_index || page.outputs.is_empty() || pages > 40 {
					break;
				}
				start = page.last_retrieved_index + 1;
			}
			let head_after = n.chain.head().map(|t| t.last_block_h).ok();
			if !dups.is_empty() {
				if head_before == head_after {
					sh.fails.lock().unwrap().push(format!("api page sequence lists {:?} twice although the head did not move while it ran", dups));
				} else {
					note(sh, "api_page_sequence_duplicates_across_a_reorg".into());
				}
			}
			note(sh, format!("api_page_sequence:pages={}", pages.min(9)));
		}
		Op::ApiPmmr => {
			let r = n.foreign.get_pmmr_indices(1, None);
			note(sh, format!("api_get_pmmr_indices:{}", short(&r)));
		}
		Op::ApiPoolInfo => {
			let a = n.foreign.get_pool_size();
			let b = n.foreign.get_stempool_size();
			let c = n.foreign.get_unconfirmed_transactions();
			note(sh, format!("api_pool_info:{}:{}:{}", short(&a), short(&b), short(&c)));
		}
		Op::ApiPush(t) => {
			let r = n.foreign.push_transaction(sh.sc.txs[*t].clone(), Some(*t % 2 == 0));
			note(sh, format!("api_push_transaction:{}", short(&r)));
		}
		Op::OwnerStatus => {
			let r = n.owner.get_status();
			note(sh, format!("owner_get_status:{}", short(&r)));
		}
		Op::OwnerValidate => {
			let r = n.owner.validate_chain(true);
			if r.is_err() {
				sh.fails.lock().unwrap().push(format!("owner validate_chain(fast) failed mid-run: {}", short(&r)));
			}
			note(sh, format!("owner_validate_chain:{}", short(&r)));
		}
		Op::OwnerCompact => {
			let r = n.owner.compact_chain();
			note(sh, format!("owner_compact_chain:{}", short(&r)));
		}
		Op::Stratum => stratum_episode(sh),
		Op::ValidateFast => {
			let r = n.chain.validate(true);
			if r.is_err() {
				sh.fails.lock().unwrap().push(format!("validate(fast) failed mid-run: {}", short(&r)));
			}
			note(sh, format!("validate_fast:{}", short(&r)));
		}
	}));
	if let Err(e) = r {
		let msg = e.downcast_ref::<&str>().map(|s| s.to_string()).or_else(|| e.downcast_ref::<String>().cloned()).unwrap_or_else(|| "panic".into());
		sh.fails.lock().unwrap().push(format!("{} panicked on thread {}: {}", label, tid, msg));
	}
	sh.current.lock().unwrap().remove(&tid);
	sh.steps.fetch_add(1, Ordering::SeqCst);
}

/// NOT a registered run (`concnode stratumprobe`): shares with edge_bits >= 64 through the stratum request handler
fn stratum_probe(work: &str) {
	setup_globals();
	let mut rng = Rng::new(1);
	let (kit, sc) = build_scenario(work, 0, &mut rng).unwrap();
	let node = mk_node(&format!("{}/probe_subject", work), &kit.genesis, 10);
	for b in &sc.preload {
		let _ = node.chain.process_block(sc.blocks[*b].clone(), Options::SKIP_POW);
	}
	let mut st = VerifStratum::new(node.chain.clone(), node.sync.clone(), 1);
	let w = st.add_worker();
	let (b, _) = get_block(&node.chain, &node.pool, None, None);
	let prev = node.chain.get_block_header(&b.header.prev_hash).unwrap();
	let diff = (b.header.total_difficulty() - prev.total_difficulty()).to_num();
	st.install_candidate(b.clone(), true, diff);
	let h = b.header.height;
	let mut hdr = b.header.clone();
	let solved = solve(&mut hdr, diff, 2000);
	println!("# candidate height {} network difficulty {} ; real solution at edge_bits {} found: {} nonce {} pow {:?}", h, diff, hdr.pow.proof.edge_bits, solved, hdr.pow.nonce, hdr.pow.proof.nonces);
	let try_line = |what: &str, line: String| {
		let r = std::panic::catch_unwind(AssertUnwindSafe(|| st.request(&line, w)));
		match r {
			Ok(resp) => println!("PROBE {} | request {} | answered {:?}", what, line, resp),
			Err(e) => {
				let msg = e.downcast_ref::<&str>().map(|s| s.to_string()).or_else(|| e.downcast_ref::<String>().cloned()).unwrap_or_else(|| "panic".into());
				println!("PROBE {} | request {} | PANICKED inside handle_rpc_requests: {}", what, line, msg);
			}
		}
		// is the handler still usable afterwards (the guard on current_state released by the unwind)?
		let r2 = std::panic::catch_unwind(AssertUnwindSafe(|| st.request("{\"id\":\"9\",\"jsonrpc\":\"2.0\",\"method\":\"status\",\"params\":null}", w)));
		println!("      afterwards status request: {}", match r2 { Ok(Ok(_)) => "answered".to_string(), Ok(Err(e)) => e, Err(_) => "PANICKED".to_string() });
	};
	for eb in [63u32, 64, 65, 74, 95, 96, 127, 128, 202, 255, 256 + 10] {
		try_line(&format!("garbage-pow edge_bits={}", eb), submit_line(10, h, 0, 1, eb, &[1, 2, 3, 4, 5, 6, 7, 8]));
	}
	if solved {
		for add in [64u32, 128, 192] {
			let eb = hdr.pow.proof.edge_bits as u32 + add;
			try_line(&format!("REAL solution of edge_bits {} relabelled as {}", hdr.pow.proof.edge_bits, eb), submit_line(11, h, 0, hdr.pow.nonce, eb, &hdr.pow.proof.nonces));
			let hh = std::panic::catch_unwind(AssertUnwindSafe(|| { let mut x = hdr.clone(); x.pow.proof.edge_bits = eb as u8; x.hash() }));
			println!("      hash of the relabelled header computable: {} ; head height now {} (candidate height {})", hh.is_ok(), node.chain.head().map(|t| t.height).unwrap_or(0), h);
		}
	}
}

/// Registerable run `concnode stratumfuzz` (for C11: the stratum JSON-RPC request handler is a decoder reachable from
/// the network): submit with edge_bits swept over 0..=300, values around 2^8*k, 2^16, 2^31, u32::MAX, pow lists of 0, 1,
/// 8, 42, 43 nonces (garbage), a REAL solution relabelled with other widths, and malformed JSON-RPC lines - every
/// request under catch_unwind through `VerifStratum::request`.  A panic = `#ORACLE-FAIL C11 stratum-submit-edge-bits: <line>
/// -> <message>` (regression probe of C11-stratum-submit-edge-bits-panics, repaired by 7b054da53) or, for any other
/// request, `#ORACLE-FAIL C11 stratum-request-panicked`.  A relabelled solution answered ok / blockfound is an oracle
/// failure as well.  Answers are printed as a #STAT histogram; one `conc node round=stratumfuzz … => ok` line.
fn stratum_fuzz(work: &str, seed: u64) {
	setup_globals();
	let mut out = Out::stdout();
	let mut rng = Rng::new(seed);
	let (kit, sc) = match build_scenario(work, 0, &mut rng) {
		Ok(x) => x,
		Err(e) => {
			out.raw(&format!("#STAT stratumfuzz scenario not built: {}", e));
			out.flush();
			return;
		}
	};
	let node = mk_node(&format!("{}/fuzz_subject", work), &kit.genesis, 10);
	for b in &sc.preload {
		let _ = node.chain.process_block(sc.blocks[*b].clone(), Options::SKIP_POW);
	}
	let mut st = VerifStratum::new(node.chain.clone(), node.sync.clone(), 1);
	let w = st.add_worker();
	let (b, _) = get_block(&node.chain, &node.pool, None, None);
	let prev = node.chain.get_block_header(&b.header.prev_hash).unwrap();
	let diff = (b.header.total_difficulty() - prev.total_difficulty()).to_num();
	st.install_candidate(b.clone(), true, diff);
	let h = b.header.height;
	let mut hdr = b.header.clone();
	let solved = solve(&mut hdr, diff, 3000);
	let mut hist: BTreeMap<String, u64> = BTreeMap::new();
	let fails = std::cell::Cell::new(0u64);
	let cases = std::cell::Cell::new(0u64);
	let shorten = |l: &str| if l.len() > 600 { format!("{}…({} bytes)", &l[..600], l.len()) } else { l.to_string() };
	let powlen_seen = std::cell::Cell::new(0u64);
	let fire = |group: &str, line: &str, edge_sweep: bool, must_refuse: bool, out: &mut Out, hist: &mut BTreeMap<String, u64>| {
		cases.set(cases.get() + 1);
		let r = std::panic::catch_unwind(AssertUnwindSafe(|| st.request(line, w)));
		match r {
			Ok(resp) => {
				let c = resp_class(&resp);
				if must_refuse && (c == "ok" || c == "blockfound") {
					fails.set(fails.get() + 1);
					out.raw(&format!("#ORACLE-FAIL C11 stratum-share-accepted-under-wrong-width: {} -> answered {:?}", shorten(line), resp));
				}
				*hist.entry(format!("{}:{}", group, c)).or_insert(0) += 1;
			}
			Err(e) => {
				let msg = e.downcast_ref::<&str>().map(|s| s.to_string()).or_else(|| e.downcast_ref::<String>().cloned()).unwrap_or_else(|| "panic".into());
				// every panic is an oracle failure (a wrong `pow` length: regression probe of C11-stratum-submit-pow-length-panics,
				// repaired by e4c83ec68; found by this run on the tree repaired for the edge_bits panic only)
				if group.contains("wrongpowlen") {
					powlen_seen.set(powlen_seen.get() + 1);
				}
				fails.set(fails.get() + 1);
				out.raw(&format!(
					"#ORACLE-FAIL C11 {}: {} -> {}",
					if group.contains("wrongpowlen") { "stratum-submit-pow-length" } else if edge_sweep { "stratum-submit-edge-bits" } else { "stratum-request-panicked" },
					shorten(line),
					msg
				));
				*hist.entry(format!("{}:PANIC", group)).or_insert(0) += 1;
			}
		}
	};
	// ---- edge_bits sweep x pow lengths
	let mut widths: Vec<u64> = (0..=300u64).collect();
	for k in 1..=8u64 {
		for d in [-1i64, 0, 1] {
			widths.push((256 * k as i64 + d) as u64);
		}
	}
	widths.extend([65535, 65536, 65537, 65536 + 10, (1u64 << 31) - 1, 1u64 << 31, (1u64 << 31) + 10, u32::MAX as u64 - 1, u32::MAX as u64]);
	widths.sort();
	widths.dedup();
	for eb in &widths {
		for n in [0usize, 1, 8, 42, 43] {
			let pow: Vec<u64> = (1..=n as u64).map(|x| x * 3 + 1).collect();
			let p: Vec<String> = pow.iter().map(|x| x.to_string()).collect();
			let line = format!(
				"{{\"id\":\"10\",\"jsonrpc\":\"2.0\",\"method\":\"submit\",\"params\":{{\"height\":{},\"job_id\":0,\"nonce\":1,\"edge_bits\":{},\"pow\":[{}]}}}}",
				h, eb, p.join(",")
			);
			let group = format!("sweep:{}:n{}{}", if *eb < 64 { "below64" } else if *eb < 256 { "64to255" } else { "256up" }, n, if n != 0 && n != grin_core::global::proofsize() { ":wrongpowlen" } else { "" });
			fire(&group, &line, true, true, &mut out, &mut hist);
		}
	}
	// ---- the real solution under other widths (must be refused), then as it is (must be accepted)
	if solved {
		let eb0 = hdr.pow.proof.edge_bits as u64;
		let p: Vec<String> = hdr.pow.proof.nonces.iter().map(|x| x.to_string()).collect();
		let mk = |eb: u64| format!(
			"{{\"id\":\"11\",\"jsonrpc\":\"2.0\",\"method\":\"submit\",\"params\":{{\"height\":{},\"job_id\":0,\"nonce\":{},\"edge_bits\":{},\"pow\":[{}]}}}}",
			h, hdr.pow.nonce, eb, p.join(",")
		);
		for eb in [eb0 + 64, eb0 + 128, eb0 + 192, eb0 + 256, eb0 + 512, eb0 + 65536, eb0 + (1 << 31), eb0 + 1, eb0 - 1, 0, 63] {
			fire("relabelled_real_solution", &mk(eb), true, true, &mut out, &mut hist);
		}
		fire("real_solution", &mk(eb0), false, false, &mut out, &mut hist);
		if !node.chain.block_exists(hdr.hash()).unwrap_or(false) {
			fails.set(fails.get() + 1);
			out.raw(&format!("#ORACLE-FAIL C11 stratum-real-solution-not-stored: {}", mk(eb0)));
		}
	} else {
		out.raw("#STAT stratumfuzz no real solution found in 3000 nonces");
	}
	// ---- malformed JSON-RPC lines
	let big_pow: Vec<String> = (0..20000u64).map(|x| x.to_string()).collect();
	let malformed: Vec<String> = vec![
		"".into(),
		"{".into(),
		"null".into(),
		"[]".into(),
		"42".into(),
		"{}".into(),
		"{\"id\":\"1\",\"jsonrpc\":\"2.0\",\"method\":\"submit\"}".into(),
		"{\"id\":\"1\",\"jsonrpc\":\"2.0\",\"method\":\"submit\",\"params\":null}".into(),
		"{\"id\":\"1\",\"jsonrpc\":\"2.0\",\"method\":\"submit\",\"params\":[]}".into(),
		"{\"id\":\"1\",\"jsonrpc\":\"2.0\",\"method\":\"submit\",\"params\":{}}".into(),
		"{\"id\":\"1\",\"jsonrpc\":\"2.0\",\"method\":\"submit\",\"params\":\"x\"}".into(),
		format!("{{\"id\":\"1\",\"jsonrpc\":\"2.0\",\"method\":\"submit\",\"params\":{{\"height\":\"{}\",\"job_id\":0,\"nonce\":1,\"edge_bits\":10,\"pow\":[1,2,3,4,5,6,7,8]}}}}", h),
		format!("{{\"id\":\"1\",\"jsonrpc\":\"2.0\",\"method\":\"submit\",\"params\":{{\"height\":{},\"job_id\":-1,\"nonce\":1,\"edge_bits\":10,\"pow\":[1,2,3,4,5,6,7,8]}}}}", h),
		format!("{{\"id\":\"1\",\"jsonrpc\":\"2.0\",\"method\":\"submit\",\"params\":{{\"height\":{},\"job_id\":0,\"nonce\":1,\"edge_bits\":-10,\"pow\":[1,2,3,4,5,6,7,8]}}}}", h),
		format!("{{\"id\":\"1\",\"jsonrpc\":\"2.0\",\"method\":\"submit\",\"params\":{{\"height\":{},\"job_id\":0,\"nonce\":1,\"edge_bits\":10.5,\"pow\":[1,2,3,4,5,6,7,8]}}}}", h),
		format!("{{\"id\":\"1\",\"jsonrpc\":\"2.0\",\"method\":\"submit\",\"params\":{{\"height\":{},\"job_id\":0,\"nonce\":1,\"edge_bits\":4294967296,\"pow\":[1,2,3,4,5,6,7,8]}}}}", h),
		format!("{{\"id\":\"1\",\"jsonrpc\":\"2.0\",\"method\":\"submit\",\"params\":{{\"height\":{},\"job_id\":18446744073709551615,\"nonce\":18446744073709551615,\"edge_bits\":10,\"pow\":[18446744073709551615,2,3,4,5,6,7,8]}}}}", h),
		format!("{{\"id\":\"1\",\"jsonrpc\":\"2.0\",\"method\":\"submit\",\"params\":{{\"height\":{},\"job_id\":0,\"nonce\":18446744073709551616,\"edge_bits\":10,\"pow\":[1,2,3,4,5,6,7,8]}}}}", h),
		format!("{{\"id\":\"1\",\"jsonrpc\":\"2.0\",\"method\":\"submit\",\"params\":{{\"height\":1e400,\"job_id\":0,\"nonce\":1,\"edge_bits\":10,\"pow\":[1,2,3,4,5,6,7,8]}}}}"),
		format!("{{\"id\":\"1\",\"jsonrpc\":\"2.0\",\"method\":\"submit\",\"params\":{{\"height\":{},\"job_id\":0,\"nonce\":1,\"edge_bits\":10,\"pow\":[\"1\",2,3,4,5,6,7,8]}}}}", h),
		format!("{{\"id\":\"1\",\"jsonrpc\":\"2.0\",\"method\":\"submit\",\"params\":{{\"height\":{},\"job_id\":0,\"nonce\":1,\"edge_bits\":10,\"pow\":[[1,2],[3],{{}}]}}}}", h),
		format!("{{\"id\":\"1\",\"jsonrpc\":\"2.0\",\"method\":\"submit\",\"params\":{{\"height\":{},\"job_id\":0,\"nonce\":1,\"edge_bits\":10,\"pow\":null}}}}", h),
		format!("{{\"id\":\"1\",\"jsonrpc\":\"2.0\",\"method\":\"submit\",\"params\":{{\"height\":{},\"job_id\":0,\"nonce\":1,\"edge_bits\":10,\"pow\":[{}]}}}}", h, big_pow.join(",")),
		format!("{{\"id\":\"1\",\"jsonrpc\":\"2.0\",\"method\":\"submit\",\"params\":{{\"height\":{},\"job_id\":0,\"nonce\":1,\"edge_bits\":63,\"pow\":[{}]}}}}", h, big_pow.join(",")),
		format!("{{\"id\":{{\"a\":[[[[[[[[[[1]]]]]]]]]]}},\"jsonrpc\":\"2.0\",\"method\":\"submit\",\"params\":{{\"height\":{},\"job_id\":0,\"nonce\":1,\"edge_bits\":10,\"pow\":[1]}}}}", h),
		"{\"id\":1,\"jsonrpc\":\"2.0\",\"method\":\"submit\",\"params\":{\"x\":{\"y\":{\"z\":[1,2,{\"w\":null}]}}}}".into(),
		"{\"id\":1,\"jsonrpc\":\"2.0\",\"method\":\"nosuchmethod\",\"params\":null}".into(),
		"{\"id\":1,\"jsonrpc\":\"2.0\",\"method\":\"\",\"params\":null}".into(),
		"{\"id\":1,\"jsonrpc\":\"2.0\",\"method\":\"login\",\"params\":null}".into(),
		"{\"id\":1,\"jsonrpc\":\"2.0\",\"method\":\"login\",\"params\":{\"login\":1,\"pass\":2,\"agent\":3}}".into(),
		"{\"id\":1,\"jsonrpc\":\"2.0\",\"method\":\"login\",\"params\":{\"login\":\"a\",\"pass\":\"b\",\"agent\":\"c\"}}".into(),
		"{\"id\":1,\"jsonrpc\":\"2.0\",\"method\":\"status\",\"params\":{\"junk\":[1,2,3]}}".into(),
		"{\"id\":1,\"jsonrpc\":\"2.0\",\"method\":\"getjobtemplate\",\"params\":[[[]]]}".into(),
		"{\"id\":1,\"jsonrpc\":\"2.0\",\"method\":\"keepalive\",\"params\":\"\\u0000\"}".into(),
		"{\"jsonrpc\":\"2.0\",\"method\":\"status\"}".into(),
		"{\"id\":null,\"jsonrpc\":null,\"method\":null,\"params\":null}".into(),
	];
	for l in &malformed {
		fire(if l.len() > 50_000 { "malformed:wrongpowlen" } else { "malformed" }, l, false, false, &mut out, &mut hist);
	}
	// the handler must still answer
	fire("afterwards_status", "{\"id\":\"9\",\"jsonrpc\":\"2.0\",\"method\":\"status\",\"params\":null}", false, false, &mut out, &mut hist);
	let mut sline = String::new();
	for (k, v) in &hist {
		sline.push_str(&format!(" {}={}", k, v));
	}
	out.raw(&format!("#STAT stratumfuzz cases={} widths={} real_solution_found={} pow_length_panics={}{}", cases.get(), widths.len(), solved, powlen_seen.get(), sline));
	out.line(&format!("conc node round=stratumfuzz threads=1 cases={} seed={}", cases.get(), seed), if fails.get() == 0 { "ok" } else { "failed" });
	out.flush();
}

fn main() {
	if std::env::var("VERIF_LOUD").is_err() { quiet_panics(); }
	if std::env::args().nth(1).as_deref() == Some("stratumfuzz") {
		let work = std::env::var("VERIF_WORK").unwrap_or_else(|_| "/verif/work/concnode".to_string());
		let _ = std::fs::create_dir_all(&work);
		stratum_fuzz(&work, seed_from_env());
		return;
	}
	if std::env::args().nth(1).as_deref() == Some("stratumprobe") {
		let work = std::env::var("VERIF_WORK").unwrap_or_else(|_| "/verif/work/concnode".to_string());
		let _ = std::fs::create_dir_all(&work);
		stratum_probe(&work);
		return;
	}
	let seed = seed_from_env();
	let thorough = tier_thorough();
	let work = std::env::var("VERIF_WORK").unwrap_or_else(|_| "/verif/work/concnode".to_string());
	let _ = std::fs::create_dir_all(&work);
	let mut out = Out::stdout();
	let stall = if thorough { 120 } else { 60 };
	let rounds = if thorough { 6 } else { 2 };
	let execs = if thorough { 4 } else { 3 };
	setup_globals();
	out.line("conc nodetablecheck", "ok");
	for (e, c) in CLASSES {
		out.line(&format!("conc nodeclass {}", e), c);
	}
	let mut all_stats: BTreeMap<String, u64> = BTreeMap::new();
	for round in 0..rounds {
		let mut rng = Rng::new(seed.wrapping_mul(1000003).wrapping_add(round as u64));
		for ex in 0..execs {
			// rebuild deterministically (the kit is not Clone; same seed = same scenario)
			let mut rng = Rng::new(seed.wrapping_mul(1000003).wrapping_add(round as u64));
			let (kit, sc) = match build_scenario(&work, round, &mut rng) {
				Ok(x) => x,
				Err(e) => {
					out.raw(&format!("#STAT node round={} scenario not built: {}", round, e));
					continue;
				}
			};
			let mut xr = Rng::new(seed ^ ((round as u64) << 20) ^ ((ex as u64) << 8) ^ 0x5eed);
			let node = mk_node(&format!("{}/node_subject{}_{}", work, round, ex), &kit.genesis, if ex % 2 == 0 { 90 } else { 10 });
			for b in &sc.preload {
				let r = node.chain.process_block(sc.blocks[*b].clone(), Options::SKIP_POW);
				if r.is_err() {
					out.raw(&format!("#ORACLE-FAIL C17 node round={} exec={} seed={}: preload block {} refused: {}", round, ex, seed, b, short(&r)));
				}
			}
			// per-thread programs
			let ntx = sc.txs.len();
			let mut progs: Vec<Vec<Op>> = vec![vec![]; 9];
			for b in &sc.trunk {
				progs[0].push(Op::Block(*b));
				if xr.chance(1, 3) { progs[0].push(Op::Block(*b)); }
			}
			for b in &sc.fork {
				if xr.chance(1, 2) { progs[1].push(Op::Header(*b)); }
				progs[1].push(Op::Block(*b));
			}
			for t in 0..ntx {
				progs[2].push(Op::Tx(t, xr.chance(1, 2)));
				if xr.chance(1, 2) { progs[2].push(Op::TxKernel(t)); }
				if xr.chance(1, 2) { progs[2].push(Op::GetTx(xr.below(ntx as u64) as usize)); }
			}
			// a second pass: what was refused as an orphan of a pool output / evicted comes again
			for t in 0..ntx {
				if xr.chance(1, 2) { progs[2].push(Op::Tx(t, false)); }
			}
			for _ in 0..(4 + xr.below(3)) { progs[3].push(Op::Mine); }
			for _ in 0..(6 + xr.below(4)) {
				progs[4].push(match xr.below(4) { 0 => Op::Expired, 1 => Op::Epoch, _ => Op::Fluff });
			}
			for _ in 0..(14 + xr.below(6)) {
				progs[5].push(match xr.below(8) {
					0 | 1 => Op::Status,
					2 => Op::UpdateSync,
					3 => Op::Locate(xr.below(sc.blocks.len() as u64) as usize),
					4 => Op::TotalDiff,
					5 => Op::PoolSize,
					6 => Op::ValidateFast,
					_ => Op::Status,
				});
			}
			// api threads (increment 4): the Foreign api (readers + push_transaction = tx_pool.write()) and the Owner api
			let top = sc.blocks.len() as u64;
			for _ in 0..(14 + xr.below(6)) {
				progs[6].push(match xr.below(9) {
					0 => Op::ApiTip,
					1 => Op::ApiHeader(1 + xr.below(8)),
					2 => Op::ApiBlock(1 + xr.below(8)),
					3 => Op::ApiKernel(xr.below(ntx as u64) as usize),
					4 | 5 => Op::ApiPage,
					6 => Op::ApiPmmr,
					7 => Op::ApiPoolInfo,
					_ => Op::ApiPush(xr.below(ntx as u64) as usize),
				});
			}
			let _ = top;
			for _ in 0..(5 + xr.below(3)) {
				progs[7].push(match xr.below(4) { 0 => Op::OwnerValidate, 1 => Op::OwnerCompact, _ => Op::OwnerStatus });
			}
			for _ in 0..(2 + xr.below(2)) { progs[8].push(Op::Stratum); }
			let sim_progs: Vec<String> = progs.iter().map(|p| p.iter().flat_map(|o| o.entries()).collect::<Vec<_>>().join("+")).collect();
			let total_ops: u64 = progs.iter().map(|p| p.len() as u64).sum();
			let mut stratum = VerifStratum::new(node.chain.clone(), node.sync.clone(), 1);
			let worker = stratum.add_worker();
			let sh = Arc::new(Shared {
				node,
				sc,
				steps: AtomicU64::new(0),
				current: Mutex::new(BTreeMap::new()),
				fails: Mutex::new(vec![]),
				stats: Mutex::new(BTreeMap::new()),
				done: AtomicBool::new(false),
				stratum,
				worker,
				mined: Mutex::new(vec![]),
			});
			let gate = Arc::new(AtomicBool::new(false));
			let mut handles = vec![];
			for (tid, prog) in progs.into_iter().enumerate() {
				let sh = sh.clone();
				let gate = gate.clone();
				let tseed = xr.next();
				handles.push(std::thread::spawn(move || {
					setup_globals();
					let pi = peer_info(3000 + tid as u16);
					let mut r = Rng::new(tseed);
					while !gate.load(Ordering::SeqCst) {
						std::hint::spin_loop();
					}
					for op in &prog {
						perturb(&mut r);
						run_op(&sh, tid, op, &pi);
					}
				}));
			}
			let t0 = Instant::now();
			gate.store(true, Ordering::SeqCst);
			// progress watchdog
			let mut last = 0u64;
			let mut last_change = Instant::now();
			let mut stalled = false;
			loop {
				if handles.iter().all(|h| h.is_finished()) {
					break;
				}
				let s = sh.steps.load(Ordering::SeqCst);
				if s != last {
					last = s;
					last_change = Instant::now();
				} else if last_change.elapsed() > Duration::from_secs(stall) {
					stalled = true;
					break;
				}
				std::thread::sleep(Duration::from_millis(20));
			}
			if stalled {
				let cur = sh.current.lock().unwrap().clone();
				out.raw(&format!(
					"#ORACLE-FAIL C17 deadlock node round={} exec={} seed={}: no call completed for {} s; {} of {} calls done; calls in flight per thread: {:?}",
					round, ex, seed, stall, last, total_ops, cur
				));
				out.line(&format!("conc node round={} exec={} threads=9 seed={}", round, ex, seed), "stalled");
				out.flush();
				std::process::exit(0);
			}
			for h in handles {
				let _ = h.join();
			}
			sh.done.store(true, Ordering::SeqCst);
			let elapsed = t0.elapsed().as_millis();
			let mut fails = sh.fails.lock().unwrap().clone();
			let n = &sh.node;
			let sc = &sh.sc;
			// ---- final state
			// blocks mined through the stratum server add work beyond the scenario: the expected head is the max-work
			// block among the scenario's and the accepted mined ones (skipped when that maximum is not unique)
			let mined = sh.mined.lock().unwrap().clone();
			let mut best_hash = sc.blocks[sc.best].hash();
			let mut best_work = sc.work[sc.best];
			let mut unique = true;
			for m in &mined {
				let w = m.header.total_difficulty().to_num();
				if w > best_work {
					best_work = w;
					best_hash = m.hash();
					unique = true;
				} else if w == best_work {
					unique = false;
				}
			}
			note(&sh, format!("mined_blocks_stored:{}", mined.len().min(9)));
			if !unique {
				note(&sh, "final_max_work_tie_head_check_skipped".into());
			}
			match (n.chain.head(), n.chain.header_head()) {
				(Ok(h), Ok(hh)) => {
					if unique && h.last_block_h != best_hash {
						fails.push(format!("final head {} at height {} is not the max-work block {} (work {})", h.last_block_h, h.height, best_hash, sc.work[sc.best]));
					}
					if hh.last_block_h != h.last_block_h {
						fails.push(format!("final header head {} != head {}", hh.last_block_h, h.last_block_h));
					}
				}
				_ => fails.push("head()/header_head() failed after the run".into()),
			}
			let v = n.chain.validate(false);
			if v.is_err() {
				fails.push(format!("full validation after the run: {}", short(&v)));
			}
			// the pool against the chain it ended on: the txpool aggregate must validate against the head
			{
				let p = n.pool.read();
				let entries = p.txpool.entries.len();
				match p.txpool.all_transactions_aggregate(None) {
					Ok(Some(agg)) => {
						let r = n.chain.validate_tx(&agg);
						if r.is_err() {
							fails.push(format!("the txpool ({} entries) left by the callbacks does not validate against the final head: {}", entries, short(&r)));
						}
						note(&sh, format!("final_txpool:{}", entries.min(9)));
					}
					Ok(None) => note(&sh, "final_txpool:0".into()),
					Err(e) => fails.push(format!("txpool aggregate failed: {:?}", e)),
				}
				note(&sh, format!("final_stempool:{}", p.stempool.entries.len().min(9)));
			}
			// twin fed in order
			let twin = Subject::new(&format!("{}/node_twin{}_{}", work, round, ex), &kit.genesis);
			for b in sc.preload.iter().chain(sc.trunk.iter()).chain(sc.fork.iter()) {
				let _ = twin.deliver_block(&sc.blocks[*b]);
			}
			for m in &mined {
				let _ = twin.c().process_block(m.clone(), Options::MINE);
			}
			if let (Ok(a), Ok(b)) = (twin.c().head(), n.chain.head()) {
				if unique && a.last_block_h != b.last_block_h {
					fails.push(format!("head {} differs from the sequential twin's {}", b.last_block_h, a.last_block_h));
				}
			}
			for f in &fails {
				out.raw(&format!("#ORACLE-FAIL C17 node round={} exec={} seed={} threads=9: {}", round, ex, seed, f));
			}
			out.line(&format!("conc nodesim seed={} progs={}", xr.below(1 << 30), sim_progs.join(",")), "finished");
			out.line(
				&format!("conc node round={} exec={} threads=9 blocks={} fork={} txs={} seed={}", round, ex, sc.blocks.len() - 1, sc.fork.len(), sc.txs.len(), seed),
				if fails.is_empty() { "ok" } else { "failed" },
			);
			for (k, v) in sh.stats.lock().unwrap().iter().filter(|(k, _)| !k.starts_with("zz_")) {
				*all_stats.entry(k.clone()).or_insert(0) += v;
			}
			*all_stats.entry("executions".into()).or_insert(0) += 1;
			*all_stats.entry(format!("ms_bucket:{}", (elapsed / 500) * 500)).or_insert(0) += 1;
		}
	}
	let mut s = String::new();
	for (k, v) in &all_stats {
		s.push_str(&format!(" {}={}", k, v));
	}
	out.raw(&format!("#STAT node{}", s));
	out.flush();
}
