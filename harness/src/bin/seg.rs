//! C16 correspondence: PMMR segments (`core/src/core/pmmr/segment.rs`).
//!
//! `vec`    : segments over `PMMR<VecBackend>` for every size, heights 0..=4 and every index:
//!            `from_pmmr`, `root`, `first_unpruned_parent`, `validate`, `validate_with`, without
//!            bitmap and with random bitmaps (all data on file), every single-element corruption.
//! `store`  : the same over the real prunable `PMMRBackend` in prune states reached through the
//!            store's usage protocol: no spends, random spends, spent aligned subtrees, after
//!            `check_compact`, spends after compaction, spends after the bitmap snapshot.
//! `ident`  : identifiers with an empty / out-of-range / wrapped range (`catch`): regression probe
//!            for the repaired `Segment::root` (must refuse with an error, never panic).
//! `leafless`: segments that carry no leaves (one or more hashes, or nothing), a genuine or an
//!            arbitrary proof, decoded from a hand-written wire form at protocol versions 1..=3 (also as
//!            kernel segments), without bitmap and with three bitmaps: `root`, `first_unpruned_parent`,
//!            `validate`, `validate_with` under `catch`; leaves without the hashes the bitmap requires.
//! `bitmap` : `BitmapSegment` <-> `Segment<BitmapChunk>` and validation against the accumulator.
//! `e2e`    : source chain -> segmenter -> desegmenter of a fresh chain (random order, duplicates,
//!            tampered segments) -> `validate_complete_state` -> compare with the source.
//!
//! The harness evaluates the property's oracle on the implementation for every case (honest
//! segment validates; a corruption of anything the reconstruction depends on is rejected; a leaf
//! the bitmap marks unspent cannot be omitted) and prints a sample of the cases as protocol lines
//! for the model.
use croaring::Bitmap;
use grin_core::core::hash::{Hash, Hashed};
use grin_core::core::pmmr::segment::{Segment, SegmentError, SegmentIdentifier, SegmentProof};
use grin_core::core::pmmr::{self, Backend, ReadablePMMR, ReadonlyPMMR, VecBackend, PMMR};
use grin_core::ser::{self, PMMRIndexHashable, ProtocolVersion};
use grin_chain::txhashset::{BitmapAccumulator, BitmapChunk, BitmapSegment};
use grin_chain::types::SyncState;
use grin_core::core::{OutputIdentifier, TxKernel};
use grin_store::pmmr::PMMRBackend;
use grin_util::secp::pedersen::RangeProof;
use grin_util::StopState;
use gvharness::chainkit::{error_class, KSpec, Kit, Subject, TxSpec};
use std::sync::Arc;
use gvharness::elem::Elem;
use gvharness::*;
use std::collections::{BTreeMap, BTreeSet};
use std::panic::AssertUnwindSafe;

#[derive(Default)]
struct Stats {
	c: BTreeMap<String, u64>,
}
impl Stats {
	fn inc(&mut self, k: &str) {
		*self.c.entry(k.to_string()).or_insert(0) += 1;
	}
	fn add(&mut self, k: &str, n: u64) {
		*self.c.entry(k.to_string()).or_insert(0) += n;
	}
	fn dump(&self, out: &mut Out, tag: &str) {
		let parts: Vec<String> = self.c.iter().map(|(k, v)| format!("{}={}", k, v)).collect();
		out.raw(&format!("#STAT [{}] {}", tag, parts.join(" ")));
	}
}

fn err_str(e: &SegmentError) -> String {
	match e {
		SegmentError::MissingLeaf(p) => format!("err:missingleaf:{}", p),
		SegmentError::MissingHash(p) => format!("err:missinghash:{}", p),
		SegmentError::NonExistent => "err:nonexistent".to_string(),
		SegmentError::Mismatch => "err:mismatch".to_string(),
		// an error kind this harness does not know (a variant added to the code under test) must not
		// stop the harness from building: it is reported as what it is and compared like any other
		#[allow(unreachable_patterns)]
		other => format!("err:unknown-kind:{:?}", other).replace(' ', "_"),
	}
}

fn hashes(v: &[Hash]) -> String {
	let parts: Vec<String> = v.iter().map(|h| hex(h.as_bytes())).collect();
	format!("[{}]", parts.join(","))
}

/// the parts of a segment as plain vectors (so that they can be corrupted freely)
#[derive(Clone, Debug, PartialEq)]
struct Parts {
	height: u8,
	idx: u64,
	hash_pos: Vec<u64>,
	hashes: Vec<Hash>,
	leaf_pos: Vec<u64>,
	leaf_data: Vec<Vec<u8>>,
	proof: Vec<Hash>,
}

fn proof_hashes(p: &SegmentProof) -> Vec<Hash> {
	// SegmentProof has no accessor for its hashes: go through its serialisation
	let bytes = ser::ser_vec(p, ProtocolVersion(1)).unwrap();
	let n = u64::from_be_bytes(bytes[0..8].try_into().unwrap()) as usize;
	(0..n).map(|i| Hash::from_vec(&bytes[8 + 32 * i..8 + 32 * (i + 1)])).collect()
}

fn mk_proof(hs: &[Hash]) -> SegmentProof {
	let mut bytes = (hs.len() as u64).to_be_bytes().to_vec();
	for h in hs {
		bytes.extend_from_slice(h.as_bytes());
	}
	ser::deserialize_default(&mut &bytes[..]).unwrap()
}

trait LeafBytes: Clone {
	fn to_bytes(&self) -> Vec<u8>;
	fn from_bytes(b: &[u8]) -> Self;
}
impl LeafBytes for Elem {
	fn to_bytes(&self) -> Vec<u8> {
		self.0.clone()
	}
	fn from_bytes(b: &[u8]) -> Self {
		Elem(b.to_vec())
	}
}

impl LeafBytes for BitmapChunk {
	fn to_bytes(&self) -> Vec<u8> {
		ser::ser_vec(self, ProtocolVersion(1)).unwrap()
	}
	fn from_bytes(b: &[u8]) -> Self {
		// `BitVec::from_bytes` order: bit i of the chunk is bit 7 - i % 8 of byte i / 8
		let mut c = BitmapChunk::new();
		for (i, byte) in b.iter().enumerate() {
			for k in 0..8 {
				if byte & (0x80 >> k) != 0 {
					c.set((i * 8 + k) as u64, true);
				}
			}
		}
		c
	}
}

fn parts_of<T: LeafBytes>(s: &Segment<T>) -> Parts {
	let (id, hash_pos, hashes, leaf_pos, leaf_data, proof) = s.clone().parts();
	Parts {
		height: id.height,
		idx: id.idx,
		hash_pos,
		hashes,
		leaf_pos,
		leaf_data: leaf_data.iter().map(|d| d.to_bytes()).collect(),
		proof: proof_hashes(&proof),
	}
}

/// `Segment::from_parts` asserts on lengths / ordering: None when it does
fn build<T: LeafBytes>(p: &Parts) -> Option<Segment<T>> {
	let p = p.clone();
	catch(AssertUnwindSafe(move || {
		Segment::from_parts(
			SegmentIdentifier {
				height: p.height,
				idx: p.idx,
			},
			p.hash_pos,
			p.hashes,
			p.leaf_pos,
			p.leaf_data.iter().map(|d| T::from_bytes(d)).collect(),
			mk_proof(&p.proof),
		)
	}))
	.ok()
}

fn parts_str(p: &Parts) -> String {
	format!(
		"{} {} {} {} {} {} {}",
		p.height,
		p.idx,
		nat_list(&p.hash_pos),
		hashes(&p.hashes),
		nat_list(&p.leaf_pos),
		hex_list(&p.leaf_data),
		hashes(&p.proof)
	)
}

fn bm_str(bm: Option<&Bitmap>) -> String {
	match bm {
		None => "none".to_string(),
		Some(b) => nat_list(&b.iter().map(|x| x as u64).collect::<Vec<_>>()),
	}
}

fn flip(h: &Hash, rng: &mut Rng) -> Hash {
	let mut b = h.to_vec();
	b[rng.below(32) as usize] ^= 1 << rng.below(8);
	Hash::from_vec(&b)
}

fn unit_str(r: Result<Result<(), SegmentError>, String>) -> String {
	match r {
		Ok(Ok(())) => "ok".to_string(),
		Ok(Err(e)) => err_str(&e),
		Err(_) => "panic".to_string(),
	}
}

/// how a segment is validated: plain, or with the final hashing step of the merged output root
#[derive(Clone)]
struct Target {
	size: u64,
	root: Hash,
	with: Option<(u64, Hash, bool)>,
}

fn run_validate<T>(s: &Segment<T>, t: &Target, bm: Option<&Bitmap>) -> String
where
	T: PMMRIndexHashable,
{
	unit_str(catch(AssertUnwindSafe(|| match &t.with {
		None => s.validate(t.size, bm, t.root),
		Some((hlp, other, left)) => s.validate_with(t.size, bm, t.root, *hlp, *other, *left),
	})))
}

fn validate_lhs(p: &Parts, t: &Target, bm: Option<&Bitmap>) -> String {
	match &t.with {
		None => format!(
			"seg validate {} {} {} {}",
			t.size,
			bm_str(bm),
			hex(t.root.as_bytes()),
			parts_str(p)
		),
		Some((hlp, other, left)) => format!(
			"seg validatewith {} {} {} {} {} {} {}",
			t.size,
			bm_str(bm),
			hex(t.root.as_bytes()),
			hlp,
			hex(other.as_bytes()),
			if *left { 1 } else { 0 },
			parts_str(p)
		),
	}
}

struct Cx<'a> {
	out: &'a mut Out,
	rng: &'a mut Rng,
	st: Stats,
	tag: String,
}

impl<'a> Cx<'a> {
	/// validate a (possibly corrupted) segment; `must_reject`: the property's oracle
	fn check(
		&mut self,
		p: &Parts,
		t: &Target,
		bm: Option<&Bitmap>,
		kind: &str,
		expect: Expect,
		emit: bool,
	) -> String {
		let seg = match build::<Elem>(p) {
			Some(s) => s,
			None => {
				self.st.inc(&format!("{}:from_parts-asserts", kind));
				return "assert".to_string();
			}
		};
		let v = run_validate(&seg, t, bm);
		if emit {
			self.out.line(&validate_lhs(p, t, bm), &v);
		}
		self.st.inc(&format!("{}:{}", kind, if v == "ok" { "accepted" } else if v == "panic" { "panic" } else { "rejected" }));
		match expect {
			Expect::Accept => {
				if v != "ok" {
					self.out.raw(&format!(
						"#ORACLE-FAIL C16 {} [{}] honest segment not accepted ({}): {} => {}",
						self.tag,
						kind,
						kind,
						validate_lhs(p, t, bm),
						v
					));
				}
			}
			Expect::Reject => {
				if v == "ok" || v == "panic" {
					self.out.raw(&format!(
						"#ORACLE-FAIL C16 {} corrupted segment ({}) not rejected: {} => {}",
						self.tag,
						kind,
						validate_lhs(p, t, bm),
						v
					));
				}
			}
			Expect::Any => {
				if v == "panic" {
					self.out.raw(&format!(
						"#ORACLE-FAIL C16 {} validate panicked ({}): {}",
						self.tag,
						kind,
						validate_lhs(p, t, bm)
					));
				}
			}
		}
		v
	}
}

#[derive(Clone, Copy, PartialEq)]
enum Expect {
	Accept,
	Reject,
	Any,
}

fn view_line<B: Backend<Elem>>(out: &mut Out, ba: &B, size: u64) {
	let mmr = ReadonlyPMMR::<Elem, B>::at(ba, size);
	let mut data = vec![];
	let mut ff = vec![];
	let mut hs = vec![];
	for p in 0..size + 2 {
		if pmmr::is_leaf(p) {
			if let Some(d) = mmr.get_data_from_file(p) {
				data.push(format!("{}:{}", p, hex(&d.0)));
			}
		}
		if let Some(h) = mmr.get_from_file(p) {
			ff.push(format!("{}:{}", p, hex(h.as_bytes())));
		}
		if let Some(h) = mmr.get_hash(p) {
			hs.push(format!("{}:{}", p, hex(h.as_bytes())));
		}
	}
	out.raw(&format!(
		"seg view {} [{}] [{}] [{}]",
		size,
		data.join(","),
		ff.join(","),
		hs.join(",")
	));
}

/// everything done for one identifier on one MMR state
fn one_ident<B: Backend<Elem>>(
	cx: &mut Cx,
	ba: &B,
	size: u64,
	root: Hash,
	id: SegmentIdentifier,
	prunable: bool,
	bm: Option<&Bitmap>,
	emit: bool,
	allow_gen_err: bool,
) {
	let mmr = ReadonlyPMMR::<Elem, B>::at(ba, size);
	let res = catch(AssertUnwindSafe(|| Segment::<Elem>::from_pmmr(id, &mmr, prunable)));
	let n_leaves = pmmr::n_leaves(size);
	let cap = 1u64 << id.height;
	let exists = id.idx * cap < n_leaves;
	let lhs = format!("seg from {} {} {}", id.height, id.idx, if prunable { 1 } else { 0 });
	let seg = match res {
		Err(_) => {
			if emit {
				cx.out.line(&lhs, "panic");
			}
			cx.out.raw(&format!("#ORACLE-FAIL C16 {} from_pmmr panicked: size={} {}", cx.tag, size, lhs));
			return;
		}
		Ok(Err(e)) => {
			if emit {
				cx.out.line(&lhs, &err_str(&e));
			}
			cx.st.inc(&format!("from:{}", err_str(&e).split(':').nth(1).unwrap_or("?")));
			if exists && !(allow_gen_err && matches!(e, SegmentError::MissingHash(_)) && id.height == 0) {
				cx.out.raw(&format!(
					"#ORACLE-FAIL C16 {} from_pmmr failed for an existing segment: size={} {} => {}",
					cx.tag,
					size,
					lhs,
					err_str(&e)
				));
			}
			if exists {
				cx.st.inc("from:missinghash-height0-spent-sibling");
			}
			return;
		}
		Ok(Ok(s)) => s,
	};
	if !exists {
		cx.out.raw(&format!("#ORACLE-FAIL C16 {} from_pmmr produced a segment for a non-existent range: size={} {}", cx.tag, size, lhs));
	}
	let p = parts_of(&seg);
	if emit {
		cx.out.line(&lhs, &parts_str(&p));
	}
	cx.st.inc("from:ok");
	cx.st.inc(&format!("height:{}", id.height));
	if p.leaf_data.is_empty() {
		cx.st.inc(if p.hashes.len() == 1 && !p.hash_pos.is_empty() { "from:fully-pruned-or-hash-only" } else { "from:no-leaves" });
	}
	// range
	if emit {
		let (f, l) = seg.segment_pos_range(size);
		cx.out.line(
			&format!("seg range {} {} {}", id.height, id.idx, size),
			&format!("{} {}", f, l),
		);
	}
	// root and first unpruned parent
	let r = catch(AssertUnwindSafe(|| seg.root(size, bm)));
	let rs = match &r {
		Ok(Ok(Some(h))) => hex(h.as_bytes()),
		Ok(Ok(None)) => "none".to_string(),
		Ok(Err(e)) => err_str(e),
		Err(_) => "panic".to_string(),
	};
	if emit {
		cx.out.line(&format!("seg root {} {} {}", size, bm_str(bm), parts_str(&p)), &rs);
	}
	if rs == "none" {
		cx.st.inc("root:none(fully pruned)");
	}
	let f = catch(AssertUnwindSafe(|| seg.first_unpruned_parent(size, bm)));
	let fs = match &f {
		Ok(Ok((h, pos))) => format!("{} {}", hex(h.as_bytes()), pos),
		Ok(Err(e)) => err_str(e),
		Err(_) => "panic".to_string(),
	};
	if emit {
		cx.out.line(&format!("seg fup {} {} {}", size, bm_str(bm), parts_str(&p)), &fs);
	}
	// the segment root of a full segment is the MMR node hash at its last position
	if let Ok(Ok(Some(h))) = &r {
		let (_, l) = seg.segment_pos_range(size);
		if (id.idx + 1) * cap <= n_leaves {
			if let Some(node) = mmr.get_from_file(l) {
				if node != *h {
					cx.out.raw(&format!("#ORACLE-FAIL C16 {} segment root differs from the MMR node at {}: size={} {}", cx.tag, l, size, lhs));
				}
			}
		}
	}
	// validate (plain and with the extra hashing step)
	let plain = Target {
		size,
		root,
		with: None,
	};
	let other = Hash::from_vec(&cx.rng.bytes(32));
	let left = cx.rng.chance(1, 2);
	let hlp = if cx.rng.chance(1, 2) { size } else { cx.rng.below(1000) };
	let merged = if left {
		(other, root).hash_with_index(hlp)
	} else {
		(root, other).hash_with_index(hlp)
	};
	let with = Target {
		size,
		root: merged,
		with: Some((hlp, other, left)),
	};
	// Vec backend with an arbitrary bitmap: a height-0 segment whose leaf and sibling are both
	// unmarked has no root of its own and does not carry its hash (the store cannot produce such a
	// segment at all: `generate` fails on the spent sibling) -- compared with the model only
	let unservable = !allow_gen_err && id.height == 0 && rs == "none";
	let exp = if unservable { Expect::Any } else { Expect::Accept };
	let v = cx.check(&p, &plain, bm, if unservable { "height0-both-unmarked" } else { "honest" }, exp, emit);
	cx.check(&p, &with, bm, if unservable { "height0-both-unmarked" } else { "honest-with" }, exp, emit);
	if v != "ok" {
		return;
	}
	// a wrong side / wrong index / wrong other root in validate_with must be rejected
	{
		let mut w = with.clone();
		w.with = Some((hlp, other, !left));
		let e = emit && cx.rng.chance(1, 4);
		cx.check(&p, &w, bm, "with-wrong-side", Expect::Reject, e);
		let mut w = with.clone();
		w.with = Some((hlp + 1, other, left));
		let e = emit && cx.rng.chance(1, 4);
		cx.check(&p, &w, bm, "with-wrong-index", Expect::Reject, e);
		let mut w = with.clone();
		w.with = Some((hlp, flip(&other, cx.rng), left));
		let e = emit && cx.rng.chance(1, 4);
		cx.check(&p, &w, bm, "with-wrong-other", Expect::Reject, e);
	}
	let t = if cx.rng.chance(1, 3) { with } else { plain };
	corruptions(cx, &p, &t, bm, emit, size);
}

/// every single-element corruption of an accepted segment
fn corruptions(cx: &mut Cx, p: &Parts, t: &Target, bm: Option<&Bitmap>, emit: bool, size: u64) {
	let em = |cx: &mut Cx| emit && cx.rng.chance(1, 3);
	// wrong root
	{
		let mut t2 = t.clone();
		t2.root = flip(&t.root, cx.rng);
		let e = em(cx);
		cx.check(p, &t2, bm, "mmr-root", Expect::Reject, e);
	}
	// leaves
	for i in 0..p.leaf_pos.len() {
		// does the reconstruction depend on this leaf? (dropping it changes the verdict)
		let mut d = p.clone();
		d.leaf_pos.remove(i);
		d.leaf_data.remove(i);
		let pos = p.leaf_pos[i];
		let leaf_idx = pmmr::n_leaves(pos + 1) - 1;
		let marked = bm.map(|b| b.contains(leaf_idx as u32)).unwrap_or(true);
		let e = em(cx);
		let v = cx.check(
			&d,
			t,
			bm,
			if marked { "drop-unspent-leaf" } else { "drop-leaf" },
			if marked { Expect::Reject } else { Expect::Any },
			e,
		);
		let relevant = v != "ok";
		if !relevant {
			cx.st.inc("leaf:redundant");
		}
		let exp = if relevant { Expect::Reject } else { Expect::Any };
		// data altered
		let mut d = p.clone();
		let k = cx.rng.below(d.leaf_data[i].len() as u64) as usize;
		d.leaf_data[i][k] ^= 1 << cx.rng.below(8);
		let e = em(cx);
		cx.check(&d, t, bm, if relevant { "leaf-data" } else { "redundant-leaf-data" }, exp, e);
		// position altered (kept strictly ascending so that from_parts / the wire format admit it)
		let lo = if i == 0 { 0 } else { p.leaf_pos[i - 1] + 1 };
		let hi = if i + 1 < p.leaf_pos.len() { p.leaf_pos[i + 1] - 1 } else { pos + 3 };
		for np in [pos + 1, pos.wrapping_sub(1), lo, hi] {
			if np != pos && np >= lo && np <= hi && np < (1 << 40) {
				let mut d = p.clone();
				d.leaf_pos[i] = np;
				let e = em(cx);
				cx.check(&d, t, bm, if relevant { "leaf-pos" } else { "redundant-leaf-pos" }, exp, e);
			}
		}
		// data of two leaves exchanged
		if i + 1 < p.leaf_pos.len() && p.leaf_data[i] != p.leaf_data[i + 1] {
			let mut d = p.clone();
			d.leaf_data.swap(i, i + 1);
			let e = em(cx);
			let mut d2 = p.clone();
			d2.leaf_pos.remove(i + 1);
			d2.leaf_data.remove(i + 1);
			let other_relevant = match build::<Elem>(&d2) {
				Some(s) => run_validate(&s, t, bm) != "ok",
				None => true,
			};
			cx.check(&d, t, bm, "leaf-swap", if relevant || other_relevant { Expect::Reject } else { Expect::Any }, e);
		}
	}
	// hashes the root computation may read
	for i in 0..p.hash_pos.len() {
		let mut d = p.clone();
		d.hash_pos.remove(i);
		d.hashes.remove(i);
		let relevant = match build::<Elem>(&d) {
			Some(s) => run_validate(&s, t, bm) != "ok",
			None => true,
		};
		cx.st.inc(if relevant { "hash:read" } else { "hash:redundant" });
		let exp = if relevant { Expect::Reject } else { Expect::Accept };
		if relevant {
			let e = em(cx);
			cx.check(&d, t, bm, "drop-hash", Expect::Reject, e);
		}
		let mut d = p.clone();
		d.hashes[i] = flip(&p.hashes[i], cx.rng);
		let e = em(cx);
		cx.check(&d, t, bm, if relevant { "hash" } else { "redundant-hash-altered" }, exp, e);
		let pos = p.hash_pos[i];
		let lo = if i == 0 { 1 } else { p.hash_pos[i - 1] + 1 };
		let hi = if i + 1 < p.hash_pos.len() { p.hash_pos[i + 1] - 1 } else { pos + 3 };
		for np in [pos + 1, pos.wrapping_sub(1)] {
			if np != pos && np >= lo && np <= hi {
				let mut d = p.clone();
				d.hash_pos[i] = np;
				let e = em(cx);
				cx.check(&d, t, bm, if relevant { "hash-pos" } else { "redundant-hash-pos" }, if relevant { Expect::Reject } else { Expect::Any }, e);
			}
		}
	}
	// a redundant extra hash (position not read): not rejected
	if bm.is_some() || p.hash_pos.is_empty() {
		let mut d = p.clone();
		let np = p.hash_pos.last().map(|x| x + 1).unwrap_or(size + 5);
		d.hash_pos.push(np);
		d.hashes.push(Hash::from_vec(&cx.rng.bytes(32)));
		let e = em(cx);
		// appended after everything the honest segment holds, at a position nothing reads
		let reads_it = false;
		cx.check(&d, t, bm, "extra-hash", if reads_it { Expect::Any } else { Expect::Accept }, e);
	}
	// proof hashes: every one of an honest proof is consumed
	for i in 0..p.proof.len() {
		let mut d = p.clone();
		d.proof[i] = flip(&p.proof[i], cx.rng);
		let e = em(cx);
		cx.check(&d, t, bm, "proof-hash", Expect::Reject, e);
		let mut d = p.clone();
		d.proof.remove(i);
		let e = em(cx);
		cx.check(&d, t, bm, "proof-drop", Expect::Reject, e);
		if i + 1 < p.proof.len() && p.proof[i] != p.proof[i + 1] {
			let mut d = p.clone();
			d.proof.swap(i, i + 1);
			let e = em(cx);
			cx.check(&d, t, bm, "proof-swap", Expect::Reject, e);
		}
	}
	{
		let mut d = p.clone();
		d.proof.insert(0, Hash::from_vec(&cx.rng.bytes(32)));
		let e = em(cx);
		// (with an empty honest proof nothing is consumed, so the inserted hash is redundant too)
		cx.check(&d, t, bm, "proof-insert-front", if p.proof.is_empty() { Expect::Accept } else { Expect::Reject }, e);
		// a redundant hash after the consumed ones: not rejected
		let mut d = p.clone();
		d.proof.push(Hash::from_vec(&cx.rng.bytes(32)));
		let e = em(cx);
		cx.check(&d, t, bm, "proof-extra-tail", Expect::Accept, e);
	}
	// identifier / size altered: compared with the model only
	for (dh, di) in [(1i64, 0i64), (-1, 0), (0, 1), (0, -1)] {
		let h2 = p.height as i64 + dh;
		let i2 = p.idx as i64 + di;
		if h2 >= 0 && i2 >= 0 && h2 < 7 {
			let mut d = p.clone();
			d.height = h2 as u8;
			d.idx = i2 as u64;
			let e = em(cx);
			cx.check(&d, t, bm, "identifier", Expect::Any, e);
		}
	}
	for s2 in [size + 1, size - 1] {
		if s2 > 0 {
			let mut t2 = t.clone();
			t2.size = s2;
			let e = em(cx);
			cx.check(p, &t2, bm, "mmr-size", Expect::Any, e);
		}
	}
}

fn all_idents(size: u64, max_h: u8) -> Vec<SegmentIdentifier> {
	let mut v = vec![];
	for h in 0..=max_h {
		let n = SegmentIdentifier::count_segments_required(size, h) as u64;
		for idx in 0..=n {
			v.push(SegmentIdentifier { height: h, idx });
		}
	}
	v
}

fn vec_mode(out: &mut Out, rng: &mut Rng, thorough: bool) {
	let maxn: u64 = if thorough { 300 } else { 150 };
	let mut cx = Cx {
		out,
		rng,
		st: Stats::default(),
		tag: "vec".to_string(),
	};
	let mut ba = VecBackend::<Elem>::new();
	let mut size = 0u64;
	for n in 1..=maxn {
		let e = Elem(cx.rng.bytes(8));
		let mut p = PMMR::at(&mut ba, size);
		p.push(&e).unwrap();
		size = p.size;
		let root = p.root().unwrap();
		// which cases go to the model: everything for small sizes, a sample above
		let emit_state = n <= 20 || cx.rng.chance(1, if thorough { 6 } else { 10 });
		if emit_state {
			cx.out.raw("seg new");
			view_line(cx.out, &ba, size);
		}
		cx.st.inc("states");
		for id in all_idents(size, 4) {
			let emit = emit_state && (n <= 12 || cx.rng.chance(1, 4));
			one_ident(&mut cx, &ba, size, root, id, false, None, emit, false);
		}
		// prunable flavour over the same (complete) data with random bitmaps: every required
		// leaf is on file, so every bitmap must be accepted
		if n <= 40 || cx.rng.chance(1, 4) {
			let n_leaves = pmmr::n_leaves(size);
			let mut bm = Bitmap::new();
			let dens = *cx.rng.pick(&[0u64, 1, 3, 6, 9, 10]);
			for i in 0..n_leaves {
				if cx.rng.below(10) < dens {
					bm.add(i as u32);
				}
			}
			// spent aligned subtrees
			if cx.rng.chance(1, 2) && n_leaves >= 4 {
				let h = cx.rng.range(1, 3);
				let w = 1u64 << h;
				let k = cx.rng.below(n_leaves / w);
				bm.remove_range((k * w) as u32..(k * w + w) as u32);
			}
			cx.st.inc("states-bitmap");
			for id in all_idents(size, 4) {
				let emit = emit_state && (n <= 10 || cx.rng.chance(1, 5));
				one_ident(&mut cx, &ba, size, root, id, true, Some(&bm), emit, false);
			}
		}
	}
	cx.st.add("max_leaves", maxn);
	cx.st.dump(cx.out, "vec");
}

struct Dir(std::path::PathBuf);
fn work_dir(name: &str) -> Dir {
	let work = std::env::var("VERIF_WORK").expect("VERIF_WORK not set");
	let d = std::path::PathBuf::from(work).join(name);
	let _ = std::fs::remove_dir_all(&d);
	std::fs::create_dir_all(&d).unwrap();
	Dir(d)
}

fn prune_leaves(ba: &mut PMMRBackend<Elem>, size: u64, leaves: &[u64], unspent: &mut BTreeSet<u64>) {
	let mut mmr = PMMR::at(ba, size);
	for &i in leaves {
		if unspent.remove(&i) {
			mmr.prune(pmmr::insertion_to_pmmr_index(i)).unwrap();
		}
	}
}

fn to_bitmap(u: &BTreeSet<u64>) -> Bitmap {
	let mut b = Bitmap::new();
	for &i in u {
		b.add(i as u32);
	}
	b
}

fn store_mode(out: &mut Out, rng: &mut Rng, thorough: bool) {
	let rounds: u64 = if thorough { 120 } else { 40 };
	let maxn: u64 = if thorough { 300 } else { 150 };
	let mut cx = Cx {
		out,
		rng,
		st: Stats::default(),
		tag: "store".to_string(),
	};
	for round in 0..rounds {
		let n = if round < 24 { round + 1 } else { cx.rng.range(2, maxn) };
		let dir = work_dir(&format!("seg-store-{}", round));
		let mut ba = PMMRBackend::<Elem>::new(&dir.0, true, ProtocolVersion(1), None).unwrap();
		let mut size = 0;
		{
			let mut mmr = PMMR::new(&mut ba);
			for _ in 0..n {
				mmr.push(&Elem(cx.rng.bytes(8))).unwrap();
			}
			size = size.max(mmr.unpruned_size());
		}
		ba.sync().unwrap();
		let root = ReadonlyPMMR::<Elem, _>::at(&ba, size).root().unwrap();
		let mut unspent: BTreeSet<u64> = (0..n).collect();
		// a sequence of protocol steps; the state is examined after each
		let steps = cx.rng.range(1, 5);
		let mut snapshot: Option<Bitmap> = None;
		for step in 0..=steps {
			let kind: &str = if step == 0 {
				"no-spends"
			} else {
				*cx.rng.pick(&["random-spends", "subtree-spends", "compact", "compact", "spend-most", "snapshot-then-spends"])
			};
			match kind {
				"random-spends" => {
					let k = cx.rng.range(1, (n / 3).max(1));
					let ls: Vec<u64> = (0..k).map(|_| cx.rng.below(n)).collect();
					prune_leaves(&mut ba, size, &ls, &mut unspent);
					ba.sync().unwrap();
				}
				"subtree-spends" => {
					let h = cx.rng.range(1, 4);
					let w = 1u64 << h;
					if n >= w {
						let k = cx.rng.below(n / w);
						let ls: Vec<u64> = (k * w..k * w + w).collect();
						prune_leaves(&mut ba, size, &ls, &mut unspent);
						ba.sync().unwrap();
					}
				}
				"spend-most" => {
					let ls: Vec<u64> = (0..n).filter(|_| cx.rng.chance(9, 10)).collect();
					prune_leaves(&mut ba, size, &ls, &mut unspent);
					ba.sync().unwrap();
				}
				"compact" => {
					// spends after a bitmap snapshot must survive: the chain protects them through
					// the horizon (cutoff before the archive header); with a snapshot we do not compact
					if snapshot.is_none() {
						let cutoff = if cx.rng.chance(1, 2) { size } else { pmmr::insertion_to_pmmr_index(cx.rng.below(n + 1)) };
						ba.check_compact(cutoff, &Bitmap::new()).unwrap();
						ba.sync().unwrap();
						cx.st.inc("compactions");
					}
				}
				"snapshot-then-spends" => {
					if snapshot.is_none() {
						snapshot = Some(to_bitmap(&unspent));
					}
					let k = cx.rng.range(1, (n / 4).max(1));
					let ls: Vec<u64> = (0..k).map(|_| cx.rng.below(n)).collect();
					prune_leaves(&mut ba, size, &ls, &mut unspent);
					ba.sync().unwrap();
				}
				_ => {}
			}
			cx.st.inc(&format!("pattern:{}", kind));
			let bm = match &snapshot {
				Some(b) => b.clone(),
				None => to_bitmap(&unspent),
			};
			let root2 = ReadonlyPMMR::<Elem, _>::at(&ba, size).root().unwrap();
			if root2 != root {
				cx.out.raw(&format!("#ORACLE-FAIL C16 store root changed by pruning/compaction n={} step={}", n, kind));
			}
			let emit_state = n <= 12 || cx.rng.chance(1, if thorough { 5 } else { 8 });
			if emit_state {
				cx.out.raw("seg new");
				view_line(cx.out, &ba, size);
			}
			cx.st.inc("states");
			for id in all_idents(size, 4) {
				let emit = emit_state && (n <= 8 || cx.rng.chance(1, 4));
				one_ident(&mut cx, &ba, size, root, id, true, Some(&bm), emit, true);
			}
		}
		drop(ba);
		let _ = std::fs::remove_dir_all(&dir.0);
	}
	cx.st.dump(cx.out, "store");
}

/// identifiers whose range is empty / out of range / computed with wrapped arithmetic
fn ident_mode(out: &mut Out, rng: &mut Rng, _thorough: bool) {
	let mut st = Stats::default();
	let mut ba = VecBackend::<Elem>::new();
	let mut size = 0u64;
	let mut elems = vec![];
	for n in 1..=21u64 {
		let e = Elem(rng.bytes(8));
		let mut p = PMMR::at(&mut ba, size);
		p.push(&e).unwrap();
		elems.push(e);
		size = p.size;
		if ![1, 2, 3, 4, 7, 8, 10, 21].contains(&n) {
			continue;
		}
		let root = p.root().unwrap();
		out.raw("seg new");
		view_line(out, &ba, size);
		let mmr = ReadonlyPMMR::<Elem, _>::at(&ba, size);
		// a donor segment: the whole MMR as one segment
		let donor = Segment::<Elem>::from_pmmr(SegmentIdentifier { height: 5, idx: 0 }, &mmr, false).unwrap();
		let dp = parts_of(&donor);
		let nseg0 = n;
		let mut ids: Vec<(u8, u64)> = vec![
			(0, nseg0),
			(0, nseg0 + 1),
			(0, 1 << 40),
			(1, (n + 1) / 2),
			(2, (n + 3) / 4),
			(11, 5),
			(63, 0),
			(63, 1),
			(63, 3),
			(64, 0),
			(64, 1),
			(65, 0),
			(66, 1),
			(70, 0),
			(200, 1),
			(255, 0),
			(255, 1),
			(0, u64::MAX),
			(1, 1 << 63),
			(3, (1 << 61) + 1),
		];
		for _ in 0..6 {
			ids.push((rng.below(256) as u8, rng.below(4)));
		}
		for (h, idx) in ids {
			let id = SegmentIdentifier { height: h, idx };
			// arithmetic
			let r = catch(|| id.segment_pos_range(size));
			let span = match &r {
				Ok((f, l)) => {
					if l >= f {
						l - f
					} else {
						0
					}
				}
				Err(_) => 0,
			};
			out.line(
				&format!("seg range {} {} {}", h, idx, size),
				&match &r {
					Ok((f, l)) => format!("{} {}", f, l),
					Err(_) => "panic".to_string(),
				},
			);
			if span > 5000 {
				// the loop of `root` would run over billions of positions: not executed
				st.inc("skipped-huge-range");
				continue;
			}
			let f = catch(AssertUnwindSafe(|| Segment::<Elem>::from_pmmr(id, &mmr, false)));
			out.line(
				&format!("seg from {} {} 0", h, idx),
				&match &f {
					Ok(Ok(s)) => parts_str(&parts_of(s)),
					Ok(Err(e)) => err_str(e),
					Err(_) => "panic".to_string(),
				},
			);
			// an unsolicited segment carrying this identifier, as a peer could send it
			let mut p = dp.clone();
			p.height = h;
			p.idx = idx;
			let seg = build::<Elem>(&p).unwrap();
			for bm in [None, Some(Bitmap::new())] {
				let r = catch(AssertUnwindSafe(|| seg.root(size, bm.as_ref())));
				let rs = match &r {
					Ok(Ok(Some(h))) => hex(h.as_bytes()),
					Ok(Ok(None)) => "none".to_string(),
					Ok(Err(e)) => err_str(e),
					Err(_) => "panic".to_string(),
				};
				out.line(&format!("seg root {} {} {}", size, bm_str(bm.as_ref()), parts_str(&p)), &rs);
				let t = Target {
					size,
					root,
					with: None,
				};
				let v = run_validate(&seg, &t, bm.as_ref());
				out.line(&validate_lhs(&p, &t, bm.as_ref()), &v);
				st.inc(&format!("validate:{}", v.split(':').take(2).collect::<Vec<_>>().join(":")));
				// regression probe for the repaired `Segment::root` (commit 22ca8fd14): such a
				// segment must be refused with an error, never panic
				if v == "panic" || rs == "panic" {
					out.raw(&format!(
						"#ORACLE-FAIL C16 regression: Segment::validate/root panicked on an out-of-range identifier height={} idx={} mmr_size={} bitmap={}: {}",
						h,
						idx,
						size,
						if bm.is_some() { "some" } else { "none" },
						validate_lhs(&p, &t, bm.as_ref())
					));
				}
				if v == "ok" {
					st.inc("accepted-odd-identifier");
				}
			}
		}
	}
	st.dump(out, "ident");
}

// ---------------------------------------------------------------------------------------------
// leafless: segments that carry NO leaves (but hashes), with and without a bitmap, via the wire
// ---------------------------------------------------------------------------------------------

/// the wire form of a segment, written by hand (positions 1-based, strictly ascending on the wire)
fn wire_bytes(p: &Parts) -> Vec<u8> {
	let mut b = vec![p.height];
	b.extend_from_slice(&p.idx.to_be_bytes());
	b.extend_from_slice(&(p.hashes.len() as u64).to_be_bytes());
	for x in &p.hash_pos {
		b.extend_from_slice(&(1 + x).to_be_bytes());
	}
	for h in &p.hashes {
		b.extend_from_slice(h.as_bytes());
	}
	b.extend_from_slice(&(p.leaf_data.len() as u64).to_be_bytes());
	for x in &p.leaf_pos {
		b.extend_from_slice(&(1 + x).to_be_bytes());
	}
	for d in &p.leaf_data {
		b.extend_from_slice(d);
	}
	b.extend_from_slice(&(p.proof.len() as u64).to_be_bytes());
	for h in &p.proof {
		b.extend_from_slice(h.as_bytes());
	}
	b
}

fn root_str(r: &Result<Result<Option<Hash>, SegmentError>, String>) -> String {
	match r {
		Ok(Ok(Some(h))) => hex(h.as_bytes()),
		Ok(Ok(None)) => "none".to_string(),
		Ok(Err(e)) => err_str(e),
		Err(_) => "panic".to_string(),
	}
}

fn fup_str(f: &Result<Result<(Hash, u64), SegmentError>, String>) -> String {
	match f {
		Ok(Ok((h, pos))) => format!("{} {}", hex(h.as_bytes()), pos),
		Ok(Err(e)) => err_str(e),
		Err(_) => "panic".to_string(),
	}
}

/// (root, first_unpruned_parent, validate, validate_with) of one decoded segment, each under catch
fn four_calls<T: PMMRIndexHashable>(seg: &Segment<T>, size: u64, bm: Option<&Bitmap>, plain: &Target, with: &Target) -> [String; 4] {
	[
		root_str(&catch(AssertUnwindSafe(|| seg.root(size, bm)))),
		fup_str(&catch(AssertUnwindSafe(|| seg.first_unpruned_parent(size, bm)))),
		run_validate(seg, plain, bm),
		run_validate(seg, with, bm),
	]
}

/// what the harness expects of `validate` (independent of the model)
#[derive(Clone, Copy, PartialEq, Debug)]
enum Want {
	/// must be accepted
	Ok,
	/// must be refused with an error
	Err,
	/// only: no panic
	NoPanic,
}

fn leafless_mode(out: &mut Out, rng: &mut Rng, thorough: bool) {
	let maxn: u64 = if thorough { 64 } else { 40 };
	let mut st = Stats::default();
	let mut ba = VecBackend::<Elem>::new();
	let mut size = 0u64;
	let mut wire_min = usize::MAX;
	for n in 1..=maxn {
		let e = Elem(rng.bytes(8));
		let mut pm = PMMR::at(&mut ba, size);
		pm.push(&e).unwrap();
		size = pm.size;
		let root = pm.root().unwrap();
		let mmr = ReadonlyPMMR::<Elem, _>::at(&ba, size);
		let n_leaves = pmmr::n_leaves(size);
		let emit_state = n <= 12 || rng.chance(1, if thorough { 3 } else { 4 });
		if emit_state {
			out.raw("seg new");
		}
		st.inc("mmr-sizes");
		for height in 0..=4u8 {
			let cap = 1u64 << height;
			let nseg = (n_leaves + cap - 1) / cap;
			for idx in 0..nseg {
				let id = SegmentIdentifier { height, idx };
				let full = (idx + 1) * cap <= n_leaves;
				let (first, last) = id.segment_pos_range(size);
				st.inc(if full { "ident:full" } else { "ident:last-not-full" });
				st.inc(&format!("height:{}", height));
				// the honest segment (all leaves, no hashes) gives the genuine proof
				let honest = match Segment::<Elem>::from_pmmr(id, &mmr, false) {
					Ok(s) => parts_of(&s),
					Err(e) => {
						out.raw(&format!("#ORACLE-FAIL C16 leafless: from_pmmr failed for an existing segment size={} h={} idx={}: {:?}", size, height, idx, e));
						continue;
					}
				};
				let node = |p: u64| mmr.get_from_file(p).unwrap();
				let rand_hash = |rng: &mut Rng| Hash::from_vec(&rng.bytes(32));
				let rand_proof = |rng: &mut Rng| -> Vec<Hash> { (0..rng.below(7)).map(|_| Hash::from_vec(&rng.bytes(32))).collect() };
				let leaf_positions: Vec<u64> = (first..=last).filter(|p| pmmr::is_leaf(*p)).collect();
				let lo_leaf = pmmr::n_leaves(first + 1) - 1;
				// bitmaps: everything in the range spent (others random) / everything spent / one leaf of the range marked
				let mut bm_range_spent = Bitmap::new();
				for i in 0..n_leaves {
					let inside = i >= lo_leaf && i < lo_leaf + leaf_positions.len() as u64;
					if !inside && rng.chance(1, 2) {
						bm_range_spent.add(i as u32);
					}
				}
				let bm_empty = Bitmap::new();
				let mut bm_one = bm_range_spent.clone();
				let marked = lo_leaf + rng.below(leaf_positions.len() as u64);
				bm_one.add(marked as u32);

				// ---- the variants: (name, parts, expectation per bitmap kind [none, range-spent, empty, one-marked])
				let mut variants: Vec<(&'static str, Parts, [Want; 4])> = vec![];
				let base = Parts {
					height,
					idx,
					hash_pos: vec![],
					hashes: vec![],
					leaf_pos: vec![],
					leaf_data: vec![],
					proof: honest.proof.clone(),
				};
				// a completely pruned segment is accepted iff no leaf of its range is required: the bitmap
				// marks it or its sibling (which, for a height-0 segment, lies outside the range), or it is
				// the last position of the MMR; without a bitmap every leaf is required
				let leaf_req = |bm: Option<&Bitmap>, p: u64| -> bool {
					match bm {
						None => true,
						Some(b) => {
							let i1 = pmmr::n_leaves(p + 1) - 1;
							let i2 = if pmmr::is_left_sibling(p) { i1 + 1 } else { i1.wrapping_sub(1) };
							b.contains(i1 as u32) || b.contains(i2 as u32) || p == size - 1
						}
					}
				};
				let any_req: Vec<bool> = [None, Some(&bm_range_spent), Some(&bm_empty), Some(&bm_one)]
					.iter()
					.map(|bm| leaf_positions.iter().any(|p| leaf_req(*bm, *p)))
					.collect();
				let by_req = |if_pruned: [Want; 4]| -> [Want; 4] {
					let mut w = if_pruned;
					for i in 0..4 {
						if any_req[i] {
							w[i] = Want::Err;
						}
					}
					w
				};
				if full {
					// (1) the subtree root at the segment's last position, genuine proof
					let mut p = base.clone();
					p.hash_pos = vec![last];
					p.hashes = vec![node(last)];
					variants.push(("root-hash+genuine-proof", p.clone(), by_req([Want::Ok; 4])));
					// (1b) the same with one bit of the hash flipped
					let mut q = p.clone();
					q.hashes[0] = flip(&q.hashes[0], rng);
					variants.push(("root-hash-flipped+genuine-proof", q, [Want::Err, Want::Err, Want::Err, Want::Err]));
					// (1c) arbitrary proof
					let mut q = p.clone();
					q.proof = rand_proof(rng);
					// (hashes after the consumed ones are ignored: nothing is consumed when the genuine proof is empty)
					let w = if honest.proof.is_empty() { Want::NoPanic } else { Want::Err };
					variants.push(("root-hash+arbitrary-proof", q, by_req([w; 4])));
					// (2) a higher unpruned parent on the family branch, with the proof from there on
					let fb = pmmr::family_branch(last, size);
					if !fb.is_empty() {
						let j = rng.below(fb.len() as u64) as usize;
						let (p0, _) = fb[j];
						let mut q = base.clone();
						q.hash_pos = vec![p0];
						q.hashes = vec![node(p0)];
						q.proof = honest.proof[(j + 1).min(honest.proof.len())..].to_vec();
						// accepted only when the whole subtree under p0 is spent: true for the empty bitmap
						variants.push(("parent-hash+proof-suffix", q, by_req([Want::NoPanic, Want::NoPanic, Want::Ok, Want::NoPanic])));
					}
					// (3) the hashes of both children of the subtree root (redundant: nothing reads them)
					if height > 0 {
						let l = last - (1 << height);
						let r = last - 1;
						let mut q = base.clone();
						q.hash_pos = vec![l, r];
						q.hashes = vec![node(l), node(r)];
						variants.push(("children-hashes+genuine-proof", q, [Want::Err, Want::Err, Want::Err, Want::Err]));
						// every node hash of the range
						let mut q = base.clone();
						q.hash_pos = (first..=last).collect();
						q.hashes = q.hash_pos.iter().map(|p| node(*p)).collect();
						variants.push(("all-node-hashes+genuine-proof", q, by_req([Want::Ok; 4])));
					}
				} else {
					// the last, not full segment: its peaks as hashes
					let pk: Vec<u64> = pmmr::peaks(size).into_iter().filter(|p| *p >= first && *p <= last).collect();
					let mut q = base.clone();
					q.hash_pos = pk.clone();
					q.hashes = pk.iter().map(|p| node(*p)).collect();
					variants.push(("last-segment-peak-hashes+genuine-proof", q.clone(), [Want::Err, Want::NoPanic, Want::NoPanic, Want::Err]));
					let mut r = q.clone();
					r.proof = rand_proof(rng);
					variants.push(("last-segment-peak-hashes+arbitrary-proof", r, [Want::Err, Want::NoPanic, Want::NoPanic, Want::Err]));
				}
				// (4) arbitrary hashes at arbitrary (ascending) positions, inside and outside the range
				{
					let k = rng.range(1, 4) as usize;
					let mut pos: BTreeSet<u64> = BTreeSet::new();
					for _ in 0..k {
						pos.insert(match rng.below(4) {
							0 => last,
							1 => first + rng.below(last - first + 1),
							2 => rng.below(size + 3),
							_ => last + 1 + rng.below(8),
						});
					}
					let mut q = base.clone();
					q.hash_pos = pos.into_iter().collect();
					q.hashes = q.hash_pos.iter().map(|_| rand_hash(rng)).collect();
					if rng.chance(1, 2) {
						q.proof = rand_proof(rng);
					}
					variants.push(("arbitrary-hashes", q, [Want::Err, Want::Err, Want::Err, Want::Err]));
				}
				// (5) no leaves and no hashes
				{
					let q = base.clone();
					variants.push(("empty+genuine-proof", q, [Want::Err, Want::Err, Want::Err, Want::Err]));
					let mut q = base.clone();
					q.proof = rand_proof(rng);
					variants.push(("empty+arbitrary-proof", q, [Want::Err, Want::Err, Want::Err, Want::Err]));
				}
				// (6) leaves without the hashes the bitmap makes necessary: keep exactly the leaves the
				// one-marked bitmap requires; with / without the hashes of the pruned subtrees
				{
					let req = |p: u64| {
						let i1 = pmmr::n_leaves(p + 1) - 1;
						let i2 = if pmmr::is_left_sibling(p) { i1 + 1 } else { i1.wrapping_sub(1) };
						bm_one.contains(i1 as u32) || bm_one.contains(i2 as u32) || p == size - 1
					};
					let mut q = base.clone();
					for (lp, ld) in honest.leaf_pos.iter().zip(&honest.leaf_data) {
						if req(*lp) {
							q.leaf_pos.push(*lp);
							q.leaf_data.push(ld.clone());
						}
					}
					let dropped = honest.leaf_pos.len() - q.leaf_pos.len();
					// maximal pruned subtrees inside the range: nodes without a required leaf below whose parent has one
					let has_req = |p: u64| (pmmr::bintree_leftmost(p)..=p).any(|x| pmmr::is_leaf(x) && req(x));
					let mut with_h = q.clone();
					for p in first..=last {
						if has_req(p) {
							continue;
						}
						let is_top = match pmmr::family(p) {
							(parent, _) => parent > last || has_req(parent),
						};
						if is_top {
							with_h.hash_pos.push(p);
							with_h.hashes.push(node(p));
						}
					}
					let hashes_needed = full && !with_h.hashes.is_empty() && q.leaf_pos.len() > 0;
					variants.push((
						"required-leaves-only+no-hashes",
						q,
						[Want::NoPanic, Want::NoPanic, Want::NoPanic, if dropped == 0 { Want::Ok } else if hashes_needed { Want::Err } else { Want::NoPanic }],
					));
					variants.push((
						"required-leaves-only+pruned-subtree-hashes",
						with_h,
						[Want::NoPanic, Want::NoPanic, Want::NoPanic, if full { Want::Ok } else { Want::NoPanic }],
					));
				}

				let other = Hash::from_vec(&rng.bytes(32));
				let left = rng.chance(1, 2);
				let hlp = if rng.chance(1, 2) { size } else { rng.below(1000) };
				let merged = if left { (other, root).hash_with_index(hlp) } else { (root, other).hash_with_index(hlp) };
				let plain = Target { size, root, with: None };
				let with = Target { size, root: merged, with: Some((hlp, other, left)) };
				let bms: [(&'static str, Option<&Bitmap>); 4] = [
					("none", None),
					("range-spent", Some(&bm_range_spent)),
					("all-spent", Some(&bm_empty)),
					("one-leaf-marked", Some(&bm_one)),
				];
				for (vname, p, wants) in &variants {
					st.inc(&format!("variant:{}", vname));
					st.inc(&format!("n_hashes:{}", p.hashes.len().min(4)));
					let bytes = wire_bytes(p);
					wire_min = wire_min.min(bytes.len());
					// decode at protocol versions 1..=3, as a segment of test elements and (no leaves:
					// the leaf type is never read) as a kernel segment
					let mut per_version: Vec<Vec<[String; 4]>> = vec![];
					let mut decode_fail = false;
					for pv in 1..=3u32 {
						let de = catch(AssertUnwindSafe(|| {
							ser::deserialize::<Segment<Elem>, _>(&mut &bytes[..], ProtocolVersion(pv), ser::DeserializationMode::default())
						}));
						let seg = match de {
							Err(_) => {
								out.raw(&format!("#ORACLE-FAIL C16 leafless: Segment::read panicked at protocol version {} on {}", pv, hex(&bytes)));
								decode_fail = true;
								break;
							}
							Ok(Err(_)) => {
								st.inc("wire:refused");
								decode_fail = true;
								break;
							}
							Ok(Ok(s)) => s,
						};
						if parts_of(&seg) != *p {
							out.raw(&format!("#ORACLE-FAIL C16 leafless: wire form decodes to other parts (version {}): {} vs {}", pv, hex(&bytes), parts_str(p)));
						}
						if pv == 1 {
							// re-encoding gives the crafted bytes back
							if ser::ser_vec(&seg, ProtocolVersion(pv)).unwrap() != bytes {
								out.raw(&format!("#ORACLE-FAIL C16 leafless: re-encoding differs from the crafted wire form {}", hex(&bytes)));
							}
						}
						let kseg: Option<Segment<TxKernel>> = if p.leaf_data.is_empty() {
							ser::deserialize::<Segment<TxKernel>, _>(&mut &bytes[..], ProtocolVersion(pv), ser::DeserializationMode::default()).ok()
						} else {
							None
						};
						if p.leaf_data.is_empty() && kseg.is_none() {
							out.raw(&format!("#ORACLE-FAIL C16 leafless: bytes decode as Segment<Elem> but not as a kernel segment (version {}): {}", pv, hex(&bytes)));
						}
						let mut rows = vec![];
						for (_, bm) in bms.iter() {
							let r = four_calls(&seg, size, *bm, &plain, &with);
							if let Some(k) = &kseg {
								let rk = four_calls(k, size, *bm, &plain, &with);
								st.inc("calls:kernel-segment");
								if rk != r {
									out.raw(&format!(
										"#ORACLE-FAIL C16 leafless: kernel segment and element segment with the same parts answer differently ({:?} vs {:?}): size={} bitmap={} {}",
										rk, r, size, bm_str(*bm), parts_str(p)
									));
								}
							}
							rows.push(r);
						}
						per_version.push(rows);
					}
					if decode_fail {
						continue;
					}
					st.inc("wire:decoded-v1..3");
					if per_version[1] != per_version[0] || per_version[2] != per_version[0] {
						out.raw(&format!("#ORACLE-FAIL C16 leafless: verdicts differ between protocol versions: size={} {}", size, parts_str(p)));
					}
					for (bi, (bname, bm)) in bms.iter().enumerate() {
						let r = &per_version[0][bi];
						let emit = emit_state && (n <= 8 || rng.chance(1, 3));
						if emit {
							out.line(&format!("seg root {} {} {}", size, bm_str(*bm), parts_str(p)), &r[0]);
							out.line(&format!("seg fup {} {} {}", size, bm_str(*bm), parts_str(p)), &r[1]);
							out.line(&validate_lhs(p, &plain, *bm), &r[2]);
							out.line(&validate_lhs(p, &with, *bm), &r[3]);
						}
						st.add("calls", 12);
						let cls = |s: &str| -> String {
							if s == "ok" || s == "panic" || s == "none" {
								s.to_string()
							} else if s.starts_with("err:") {
								s.split(':').take(2).collect::<Vec<_>>().join(":")
							} else {
								"hash".to_string()
							}
						};
						st.inc(&format!("verdict[{}|{}]:{}", if p.leaf_data.is_empty() { "leafless" } else { "leaves" }, bname, cls(&r[2])));
						st.inc(&format!("root[{}]:{}", bname, cls(&r[0])));
						let lhs = validate_lhs(p, &plain, *bm);
						if r.iter().any(|x| x == "panic") {
							out.raw(&format!(
								"#ORACLE-FAIL C16 leafless: a stateless segment check panicked (root={} fup={} validate={} validate_with={}) variant={} bitmap={} wire={} :: {}",
								r[0], r[1], r[2], r[3], vname, bname, hex(&bytes), lhs
							));
						}
						// validate and validate_with must agree
						if (r[2] == "ok") != (r[3] == "ok") {
							out.raw(&format!("#ORACLE-FAIL C16 leafless: validate ({}) and validate_with ({}) disagree: variant={} bitmap={} :: {}", r[2], r[3], vname, bname, lhs));
						}
						match wants[bi] {
							Want::Ok => {
								if r[2] != "ok" {
									out.raw(&format!("#ORACLE-FAIL C16 leafless: genuine pruned segment not accepted ({}): variant={} bitmap={} :: {}", r[2], vname, bname, lhs));
								}
							}
							Want::Err => {
								if r[2] == "ok" {
									out.raw(&format!("#ORACLE-FAIL C16 leafless: segment accepted that must be refused: variant={} bitmap={} :: {}", vname, bname, lhs));
								}
							}
							Want::NoPanic => {}
						}
						// without a bitmap (kernel MMR) a segment without leaves is always MissingLeaf(first)
						if bm.is_none() && p.leaf_data.is_empty() {
							let exp = format!("err:missingleaf:{}", first);
							if r[0] != exp || r[1] != exp || r[2] != exp || r[3] != exp {
								out.raw(&format!(
									"#ORACLE-FAIL C16 leafless: without a bitmap a segment without leaves must answer MissingLeaf({}) (root={} fup={} validate={} validate_with={}): variant={} :: {}",
									first, r[0], r[1], r[2], r[3], vname, lhs
								));
							}
						}
					}
				}
			}
		}
	}
	st.add("max_leaves", maxn);
	st.add("smallest-wire-form-bytes", wire_min as u64);
	st.dump(out, "leafless");
}

// ---------------------------------------------------------------------------------------------
// ancestor: a pruned-subtree hash must not cover an unspent leaf
// ---------------------------------------------------------------------------------------------

/// A fully spent segment may be served as just the hash of its first unpruned parent: an ancestor
/// above the segment root, possibly a peak.  Adversarial segments of that shape (genuine ancestor
/// hash, genuine proof from there on) against bitmaps that mark exactly ONE leaf under the ancestor
/// unspent, in every position: `validate` / `validate_with` must refuse every one of them; with no
/// leaf under the ancestor marked they must accept.
fn ancestor_mode(out: &mut Out, rng: &mut Rng, thorough: bool) {
	let maxn: u64 = if thorough { 96 } else { 64 };
	let mut st = Stats::default();
	let mut ba = VecBackend::<Elem>::new();
	let mut size = 0u64;
	for n in 1..=maxn {
		let e = Elem(rng.bytes(8));
		let mut pm = PMMR::at(&mut ba, size);
		pm.push(&e).unwrap();
		size = pm.size;
		let root = pm.root().unwrap();
		let mmr = ReadonlyPMMR::<Elem, _>::at(&ba, size);
		let n_leaves = pmmr::n_leaves(size);
		let emit_state = n <= 10 || rng.chance(1, 5);
		if emit_state {
			out.raw("seg new");
		}
		for height in 0..=3u8 {
			let cap = 1u64 << height;
			for idx in 0..(n_leaves / cap) {
				// full segments only: a partial last segment has no single root
				let id = SegmentIdentifier { height, idx };
				let (first, last) = id.segment_pos_range(size);
				let honest = match Segment::<Elem>::from_pmmr(id, &mmr, false) {
					Ok(s) => parts_of(&s),
					Err(_) => continue,
				};
				let fb = pmmr::family_branch(last, size);
				let seg_lo = pmmr::n_leaves(first + 1) - 1;
				let seg_hi = seg_lo + cap;
				// ancestors: 1, 2, 3 levels up and the peak
				let mut levels: Vec<usize> = vec![0, 1, 2];
				if !fb.is_empty() {
					levels.push(fb.len() - 1);
				}
				levels.retain(|j| *j < fb.len());
				levels.sort();
				levels.dedup();
				for j in levels {
					let (a, _) = fb[j];
					let is_peak = j + 1 == fb.len();
					let a_lo = pmmr::n_leaves(1 + pmmr::bintree_leftmost(a)) - 1;
					let a_hi = pmmr::n_leaves(1 + pmmr::bintree_rightmost(a)).min(n_leaves);
					let p = Parts {
						height,
						idx,
						hash_pos: vec![a],
						hashes: vec![mmr.get_from_file(a).unwrap()],
						leaf_pos: vec![],
						leaf_data: vec![],
						proof: honest.proof[(j + 1).min(honest.proof.len())..].to_vec(),
					};
					let seg = match build::<Elem>(&p) {
						Some(s) => s,
						None => continue,
					};
					st.inc(&format!("ancestor-level:{}{}", j + 1, if is_peak { "(peak)" } else { "" }));
					st.inc(&format!("height:{}", height));
					// the leaves outside the ancestor are marked at random
					let mut base = Bitmap::new();
					for i in 0..n_leaves {
						if (i < a_lo || i >= a_hi) && rng.chance(1, 2) {
							base.add(i as u32);
						}
					}
					let other = Hash::from_vec(&rng.bytes(32));
					let left = rng.chance(1, 2);
					let hlp = if rng.chance(1, 2) { size } else { rng.below(1000) };
					let merged = if left { (other, root).hash_with_index(hlp) } else { (root, other).hash_with_index(hlp) };
					let plain = Target { size, root, with: None };
					let with = Target { size, root: merged, with: Some((hlp, other, left)) };
					// (what, marked leaf)
					let mut marks: Vec<(&'static str, Option<u64>)> = vec![("none-marked", None), ("leftmost", Some(a_lo)), ("rightmost", Some(a_hi - 1))];
					marks.push(("inside-own-range", Some(seg_lo + rng.below(cap))));
					let outside: Vec<u64> = (a_lo..a_hi).filter(|i| *i < seg_lo || *i >= seg_hi).collect();
					if !outside.is_empty() {
						marks.push(("sibling-subtree", Some(*rng.pick(&outside))));
						marks.push(("sibling-subtree", Some(*rng.pick(&outside))));
					}
					// the leaf next to the segment on either side (still under the ancestor)
					if seg_hi < a_hi {
						marks.push(("right-neighbour", Some(seg_hi)));
					}
					if seg_lo > a_lo {
						marks.push(("left-neighbour", Some(seg_lo - 1)));
					}
					for (what, m) in marks {
						let mut bm = base.clone();
						if let Some(i) = m {
							bm.add(i as u32);
						}
						st.inc(&format!("marked:{}", what));
						let v = run_validate(&seg, &plain, Some(&bm));
						let vw = run_validate(&seg, &with, Some(&bm));
						let emit = emit_state && (n <= 8 || rng.chance(1, 3));
						if emit {
							out.line(&validate_lhs(&p, &plain, Some(&bm)), &v);
							out.line(&validate_lhs(&p, &with, Some(&bm)), &vw);
							let f = catch(AssertUnwindSafe(|| seg.first_unpruned_parent(size, Some(&bm))));
							out.line(&format!("seg fup {} {} {}", size, bm_str(Some(&bm)), parts_str(&p)), &fup_str(&f));
						}
						let cls = |s: &str| -> String {
							if s.starts_with("err:") { s.split(':').take(2).collect::<Vec<_>>().join(":") } else { s.to_string() }
						};
						st.inc(&format!("verdict[{}]:{}", if m.is_some() { "one-leaf-marked" } else { "none-marked" }, cls(&vw)));
						let input = format!(
							"mmr_size={} ({} leaves) segment=({},{}) positions {}..={} ancestor_pos0={} (level {}{}, leaves {}..{}) marked_leaf={:?} ({}) :: {}",
							size, n_leaves, height, idx, first, last, a, j + 1, if is_peak { ", peak" } else { "" }, a_lo, a_hi, m, what,
							validate_lhs(&p, &with, Some(&bm))
						);
						if v == "panic" || vw == "panic" {
							out.raw(&format!("#ORACLE-FAIL C16 ancestor: validate panicked: {}", input));
						}
						match m {
							Some(_) => {
								if v == "ok" || vw == "ok" {
									out.raw(&format!(
										"#ORACLE-FAIL C16 ancestor: a pruned-subtree hash covering a leaf the bitmap marks unspent was accepted (validate={} validate_with={}): {}",
										v, vw, input
									));
								}
							}
							None => {
								// the last position of the MMR, when it is a leaf of the range, is required whatever the bitmap says
								let last_rule = last >= size - 1 && pmmr::is_leaf(size - 1);
								if !last_rule && (v != "ok" || vw != "ok") {
									out.raw(&format!(
										"#ORACLE-FAIL C16 ancestor: genuine hash of a completely spent ancestor not accepted (validate={} validate_with={}): {}",
										v, vw, input
									));
								}
							}
						}
					}
				}
			}
		}
	}
	st.add("max_leaves", maxn);
	st.dump(out, "ancestor");
}

/// (ii) `BitmapSegment` <-> `Segment<BitmapChunk>` and validation against the accumulator root
fn bitmap_mode(out: &mut Out, rng: &mut Rng, thorough: bool) {
	let mut st = Stats::default();
	let rounds = if thorough { 40 } else { 14 };
	for round in 0..rounds {
		// number of outputs: up to ~40 chunks; some exactly on chunk boundaries
		let n_chunks = if round < 6 { round + 1 } else { rng.range(1, if thorough { 70 } else { 40 }) };
		let n_out = match rng.below(3) {
			0 => n_chunks * 1024,
			1 => n_chunks * 1024 - rng.range(1, 1023),
			_ => (n_chunks - 1) * 1024 + 1,
		};
		let dens = *rng.pick(&[0u64, 1, 50, 500, 950, 999, 1000]);
		let mut unspent: Vec<u64> = (0..n_out).filter(|_| rng.below(1000) < dens).collect();
		if unspent.last() != Some(&(n_out - 1)) {
			unspent.push(n_out - 1);
		}
		let mut acc = BitmapAccumulator::new();
		acc.init(unspent.iter().cloned(), n_out).unwrap();
		let root = acc.root();
		let mmr = acc.readonly_pmmr();
		let size = mmr.unpruned_size();
		// the output PMMR root the bitmap root is merged with (any hash will do)
		let output_root = Hash::from_vec(&rng.bytes(32));
		let out_size = pmmr::insertion_to_pmmr_index(n_out);
		let merged = (root, output_root).hash_with_index(out_size);
		st.inc("accumulators");
		st.add("chunks", pmmr::n_leaves(size));
		for h in [0u8, 1, 2, 3, 5, 9] {
			let n = SegmentIdentifier::count_segments_required(size, h) as u64;
			for idx in 0..n {
				let id = SegmentIdentifier { height: h, idx };
				let seg = match Segment::<BitmapChunk>::from_pmmr(id, &mmr, false) {
					Ok(s) => s,
					Err(e) => {
						out.raw(&format!("#ORACLE-FAIL C16 bitmap from_pmmr failed n_out={} id=({},{}) {}", n_out, h, idx, err_str(&e)));
						continue;
					}
				};
				st.inc("segments");
				let p = parts_of(&seg);
				// round trip through the wire form
				let bs = BitmapSegment::from(seg.clone());
				let bytes = ser::ser_vec(&bs, ProtocolVersion(1)).unwrap();
				let back: Result<BitmapSegment, _> = ser::deserialize_default(&mut &bytes[..]);
				match back {
					Ok(b2) => {
						if b2 != bs {
							out.raw(&format!("#ORACLE-FAIL C16 BitmapSegment wire round trip differs n_out={} id=({},{})", n_out, h, idx));
						}
						match catch(AssertUnwindSafe(|| b2.into_segment())) {
							Ok(Ok(s2)) => {
								if s2 != seg {
									out.raw(&format!("#ORACLE-FAIL C16 BitmapSegment -> Segment<BitmapChunk> differs from the original n_out={} id=({},{})", n_out, h, idx));
								}
								st.inc("roundtrip-ok");
							}
							_ => out.raw(&format!("#ORACLE-FAIL C16 into_segment failed on an honest bitmap segment n_out={} id=({},{})", n_out, h, idx)),
						}
					}
					Err(e) => out.raw(&format!("#ORACLE-FAIL C16 honest BitmapSegment does not deserialise n_out={} id=({},{}) {:?}", n_out, h, idx, e)),
				}
				// validation: plain against the accumulator root, and the way the desegmenter does
				// it (`validate_with(size, None, merged_root, output_mmr_size, output_root, false)`)
				let plain = Target { size, root, with: None };
				let with = Target { size, root: merged, with: Some((out_size, output_root, false)) };
				let emit = n_chunks <= 3 || rng.chance(1, if thorough { 10 } else { 25 });
				for (t, kind) in [(&plain, "bitmap-honest"), (&with, "bitmap-honest-with")] {
					let v = run_validate(&seg, t, None);
					if emit {
						out.line(&validate_lhs(&p, t, None), &v);
					}
					st.inc(&format!("{}:{}", kind, v));
					if v != "ok" {
						out.raw(&format!("#ORACLE-FAIL C16 honest bitmap segment not accepted n_out={} id=({},{}) {}", n_out, h, idx, v));
					}
				}
				// a single bit of a chunk flipped / a chunk dropped / proof hash altered
				let mut tampered: Vec<(Parts, &str)> = vec![];
				{
					let mut d = p.clone();
					let i = rng.below(d.leaf_data.len() as u64) as usize;
					let k = rng.below(128) as usize;
					d.leaf_data[i][k] ^= 1 << rng.below(8);
					tampered.push((d, "bitmap-bit"));
					let mut d = p.clone();
					let i = rng.below(d.leaf_data.len() as u64) as usize;
					d.leaf_pos.remove(i);
					d.leaf_data.remove(i);
					tampered.push((d, "bitmap-drop-chunk"));
					if !p.proof.is_empty() {
						let mut d = p.clone();
						let i = rng.below(d.proof.len() as u64) as usize;
						d.proof[i] = flip(&p.proof[i], rng);
						tampered.push((d, "bitmap-proof-hash"));
					}
				}
				for (d, kind) in tampered {
					if let Some(s2) = build::<BitmapChunk>(&d) {
						let t = if rng.chance(1, 2) { &plain } else { &with };
						let v = run_validate(&s2, t, None);
						if emit && rng.chance(1, 2) {
							out.line(&validate_lhs(&d, t, None), &v);
						}
						st.inc(&format!("{}:{}", kind, if v == "ok" { "accepted" } else { "rejected" }));
						if v == "ok" || v == "panic" {
							out.raw(&format!("#ORACLE-FAIL C16 tampered bitmap segment ({}) not rejected n_out={} id=({},{}) {}", kind, n_out, h, idx, v));
						}
						// the tampered segment through the wire form: conversion must not panic
						let bs2 = catch(AssertUnwindSafe(|| BitmapSegment::from(s2.clone())));
						if let Ok(bs2) = bs2 {
							let bytes = ser::ser_vec(&bs2, ProtocolVersion(1)).unwrap();
							let back: Result<BitmapSegment, _> = ser::deserialize_default(&mut &bytes[..]);
							if let Ok(b3) = back {
								match catch(AssertUnwindSafe(|| b3.into_segment())) {
									Ok(_) => st.inc("tampered-wire:no-panic"),
									Err(_) => out.raw(&format!("#ORACLE-FAIL C16 into_segment panicked ({}) n_out={} id=({},{})", kind, n_out, h, idx)),
								}
							}
						}
					}
				}
			}
		}
	}
	// malformed wire forms of a BitmapSegment: never a panic
	{
		let mut acc = BitmapAccumulator::new();
		acc.init(vec![1u64, 5, 1500, 2047], 2048).unwrap();
		let mmr = acc.readonly_pmmr();
		let seg = Segment::<BitmapChunk>::from_pmmr(SegmentIdentifier { height: 1, idx: 0 }, &mmr, false).unwrap();
		let bytes = ser::ser_vec(&BitmapSegment::from(seg), ProtocolVersion(1)).unwrap();
		let n = if thorough { 20000 } else { 3000 };
		for _ in 0..n {
			let mut b = bytes.clone();
			match rng.below(3) {
				0 => {
					let i = rng.below(b.len().min(24) as u64) as usize;
					b[i] = rng.next() as u8;
				}
				1 => {
					let i = rng.below(b.len() as u64) as usize;
					b[i] ^= 1 << rng.below(8);
				}
				_ => {
					let l = rng.below(b.len() as u64) as usize;
					b.truncate(l);
				}
			}
			let r = catch(AssertUnwindSafe(|| {
				let back: Result<BitmapSegment, _> = ser::deserialize_default(&mut &b[..]);
				match back {
					Ok(bs) => match bs.into_segment() {
						Ok(s) => {
							let _ = s.validate(3, None, Hash::from_vec(&[0u8; 32]));
							"ok"
						}
						Err(_) => "into-err",
					},
					Err(_) => "read-err",
				}
			}));
			match r {
				Ok(k) => st.inc(&format!("malformed-wire:{}", k)),
				Err(m) => {
					out.raw(&format!("#ORACLE-FAIL C16 malformed BitmapSegment bytes panic ({}): {}", m, hex(&b)))
				}
			}
		}
	}
	// regression probe for the repaired `BitmapSegment::into_segment` (commit 823a23060; finding
	// C16-bitmap-segment-leaf-offset-wrap): leaf indices reaching 2^63 must be refused with an
	// error; the largest accepted ones (last leaf index 2^63 - 1) must not panic anywhere
	// downstream (conversion, root reconstruction, validation)
	{
		fn wire(h: u8, idx: u64, n_chunks: usize) -> Vec<u8> {
			let mut b = vec![h];
			b.extend_from_slice(&idx.to_be_bytes());
			let n_blocks = (n_chunks + 63) / 64;
			b.extend_from_slice(&(n_blocks as u16).to_be_bytes());
			let mut left = n_chunks;
			while left > 0 {
				let c = left.min(64);
				left -= c;
				b.push(c as u8);
				b.push(1); // positive indices
				b.extend_from_slice(&1u16.to_be_bytes());
				b.extend_from_slice(&5u16.to_be_bytes());
			}
			b.extend_from_slice(&0u64.to_be_bytes());
			b
		}
		let mut cases: Vec<(u8, u64, usize, &str)> = vec![(1, 1 << 62, 2, "original")];
		for h in 0..=13u8 {
			let cap = 1u64 << h;
			let per = (1u64 << 63) / cap;
			cases.push((h, per - 1, cap as usize, "last=2^63-1"));
			cases.push((h, per - 1, 1, "offset=2^63-2^h"));
			cases.push((h, per, 1, "offset=2^63"));
			cases.push((h, per, cap as usize, "offset=2^63,full"));
			cases.push((h, per + 1, 1, "offset>2^63"));
			if h == 0 {
				cases.push((0, (1 << 63) - 1, 1, "offset=2^63-1"));
			}
			if h >= 1 {
				cases.push((h, per - 1, cap as usize - 1, "last=2^63-2"));
				cases.push((h, u64::MAX / cap, 1, "offset-near-u64-max"));
				cases.push((h, u64::MAX / cap + 1, 1, "offset-overflows"));
			}
		}
		for (h, idx, n_chunks, what) in cases {
			let b = wire(h, idx, n_chunks);
			let r = catch(AssertUnwindSafe(|| {
				let back: Result<BitmapSegment, _> = ser::deserialize_default(&mut &b[..]);
				match back {
					Ok(bs) => match bs.into_segment() {
						Ok(seg) => {
							for size in [3u64, 10, (1 << 40) + 3, u64::MAX - 1, (1u64 << 63) - 1] {
								if let Ok((f, l)) = catch(|| seg.identifier().segment_pos_range(size)) {
									if l >= f && l - f > 70000 {
										continue;
									}
								}
								let _ = seg.root(size, None);
								let _ = seg.validate(size, None, Hash::from_vec(&[1u8; 32]));
								let _ = seg.validate_with(size, None, Hash::from_vec(&[1u8; 32]), 77, Hash::from_vec(&[2u8; 32]), true);
							}
							"accepted"
						}
						Err(_) => "into-err",
					},
					Err(_) => "read-err",
				}
			}));
			match r {
				Err(m) => out.raw(&format!(
					"#ORACLE-FAIL C16 regression (C16-bitmap-segment-leaf-offset-wrap): BitmapSegment height={} idx={} n_chunks={} ({}) panicked: {} bytes={}",
					h,
					idx,
					n_chunks,
					what,
					m,
					hex(&b[..b.len().min(40)])
				)),
				Ok(k) => {
					st.inc(&format!("offset-probe:{}:{}", what, k));
					let last = (idx as u128) * (1u128 << h) + n_chunks as u128 - 1;
					if k == "accepted" && last >= (1u128 << 63) {
						out.raw(&format!(
							"#ORACLE-FAIL C16 regression (C16-bitmap-segment-leaf-offset-wrap): BitmapSegment with last leaf index >= 2^63 accepted: height={} idx={} n_chunks={}",
							h, idx, n_chunks
						));
					}
				}
			}
		}
	}
	st.dump(out, "bitmap");
}

/// tamper with a segment: exchange the data of two neighbouring leaves (or, with a single leaf,
/// move it to another position).  Returns the segment and whether a leaf whose data validation
/// requires (`required(pos0)`) was touched -- data of spent leaves that an uncompacted source
/// still ships is redundant: validation ignores it (the property's caveat) and a tampered copy is
/// only caught by the final roots check.
fn tamper<T: Clone>(seg: &Segment<T>, rng: &mut Rng, required: &dyn Fn(u64) -> bool) -> Option<(Segment<T>, bool)> {
	let (id, hp, hs, mut lp, mut ld, proof) = seg.clone().parts();
	let req;
	if ld.len() >= 2 {
		let i = rng.below(ld.len() as u64 - 1) as usize;
		req = required(lp[i]) || required(lp[i + 1]);
		ld.swap(i, i + 1);
	} else if ld.len() == 1 {
		req = required(lp[0]);
		lp[0] += 1;
	} else {
		return None;
	}
	catch(AssertUnwindSafe(move || Segment::from_parts(id, hp, hs, lp, ld, proof))).ok().map(|s| (s, req))
}

/// the trunk of a source chain: `n_trunk` real blocks with transactions of the given style
/// ("small": 0-2 small transactions per block; "big": one 1-3-input 9-output transaction per
/// block; `exact`: the output count at the archive header is steered to exactly that number)
fn build_trunk(kit: &mut Kit, rng: &mut Rng, st: &mut Stats, n_trunk: u64, style: &str, exact: Option<u64>) -> Vec<usize> {
	let mut tip = 0usize;
	let mut trunk = vec![0usize];
	let mut spendable: Vec<(usize, u64)> = vec![(0, 0)];
	// the archive header of a chain of n_trunk blocks
	let planned_archive = {
		let t = n_trunk.saturating_sub(20);
		t - t % 10
	};
	for h in 1..=n_trunk {
		let mut specs = vec![];
		if h >= 4 && style == "small" {
			for _ in 0..rng.range(0, 2) {
				let cands: Vec<usize> = spendable
					.iter()
					.enumerate()
					.filter(|(_, (o, c))| (!kit.outs[*o].coinbase || h >= *c + 3) && kit.outs[*o].value > 5000)
					.map(|(i, _)| i)
					.collect();
				if cands.is_empty() {
					break;
				}
				let pick = *rng.pick(&cands);
				let (o, _) = spendable.remove(pick);
				let v = kit.outs[o].value;
				if rng.chance(1, 3) {
					specs.push(TxSpec { inputs: vec![o], outputs: vec![(v - 100, None)], kernel: KSpec::Plain(100) });
				} else {
					let a = rng.range(1, v / 2);
					specs.push(TxSpec { inputs: vec![o], outputs: vec![(a, None), (v - a - 200, None)], kernel: KSpec::Plain(200) });
				}
			}
		}
		if h >= 4 && style == "big" {
			// outputs so far (all ever created = leaves of the output MMR)
			let current = kit.outs.len() as u64;
			let n_out = match exact {
				Some(target) if h <= planned_archive => {
					// this block adds 1 coinbase + n_out; every later block up to the archive
					// header adds at least its coinbase
					let later = planned_archive - h;
					let room = target.saturating_sub(current + 1 + later);
					room.min(9)
				}
				_ => 9,
			};
			let n_in = rng.range(1, 3) as usize;
			let mut ins = vec![];
			let mut total = 0u64;
			for k in 0..n_in {
				if n_out == 0 {
					break;
				}
				let cands: Vec<usize> = spendable
					.iter()
					.enumerate()
					.filter(|(_, (o, c))| (!kit.outs[*o].coinbase || h >= *c + 3) && kit.outs[*o].value > 5000)
					.map(|(i, _)| i)
					.collect();
				if cands.is_empty() {
					break;
				}
				let pick = if k > 0 && rng.chance(1, 2) { cands[0] } else { *rng.pick(&cands) };
				let (o, _) = spendable.remove(pick);
				total += kit.outs[o].value;
				ins.push(o);
			}
			if !ins.is_empty() {
				let fee = 300u64;
				let each = (total - fee) / n_out;
				let mut outs: Vec<(u64, Option<usize>)> = (0..n_out - 1).map(|_| (each, None)).collect();
				outs.push((total - fee - each * (n_out - 1), None));
				specs.push(TxSpec { inputs: ins, outputs: outs, kernel: KSpec::Plain(fee) });
			}
		}
		let before = kit.outs.len();
		match kit.new_block(tip, 2, &specs) {
			Ok(id) => {
				tip = id;
				trunk.push(id);
				for o in before..kit.outs.len() {
					spendable.push((o, h));
				}
			}
			Err(e) => st.inc(&format!("generator:{}", e)),
		}
	}
	trunk
}

/// (iii) end to end: source chain -> segmenter -> desegmenter of a fresh chain
fn e2e_mode(out: &mut Out, rng: &mut Rng, thorough: bool) {
	let work = std::env::var("VERIF_WORK").expect("VERIF_WORK not set");
	let mut st = Stats::default();
	// (name, blocks, compact the source, style, exact number of outputs at the archive header)
	// style "small": 0-2 small transactions per block (one bitmap chunk: <= 1024 outputs, possible
	// since the repair 769a13f24 of `Desegmenter::new`); style "big": one 1-3-input 9-output
	// transaction per block (> 1024 outputs: two bitmap chunks); `Some(n)`: the output count at the
	// archive header is steered to exactly n
	let mut scenarios: Vec<(&str, u64, bool, &str, Option<u64>)> =
		vec![("small-uncompacted", 46, false, "small", None), ("small-compacted", 90, true, "small", None)];
	// NB compacted sources use a length with (n - 20) % 10 == 0: under AutomatedTesting
	// state_sync_threshold == cut_through_horizon == 20, so otherwise the archive header lies
	// *before* the compaction horizon, the source has compacted away outputs that were still
	// unspent at the archive header and its honest output / rangeproof segments are (rightly)
	// refused with MissingLeaf -- unreachable with mainnet parameters (2 days vs 1 week)
	if thorough {
		scenarios.push(("big-compacted", 140, true, "big", None));
		scenarios.push(("big-exactly-1024-outputs", 137, false, "big", Some(1024)));
		scenarios.push(("big-exactly-1025-outputs", 140, true, "big", Some(1025)));
	}
	for (name, n_trunk, compact, style, exact) in scenarios {
		let mut kit = Kit::new(&format!("{}/e2e_src_{}", work, name));
		let trunk = build_trunk(&mut kit, rng, &mut st, n_trunk, style, exact);
		let src = kit.builder();
		if compact {
			let tail_before = src.tail().map(|t| t.height).unwrap_or(0);
			if let Err(e) = src.compact() {
				out.raw(&format!("#ORACLE-FAIL C16 e2e harness: source compaction failed: {}", error_class(&e)));
			}
			let tail_after = src.tail().map(|t| t.height).unwrap_or(0);
			st.add(&format!("{}:source-compaction-moved-tail", name), (tail_after > tail_before) as u64);
		}
		let archive = src.txhashset_archive_header().unwrap();
		st.add(&format!("{}:blocks", name), n_trunk);
		st.add(&format!("{}:archive-height", name), archive.height);
		st.add(&format!("{}:output-leaves-at-archive", name), pmmr::n_leaves(archive.output_mmr_size));
		st.add(&format!("{}:kernel-leaves-at-archive", name), pmmr::n_leaves(archive.kernel_mmr_size));
		if let Some(target) = exact {
			if pmmr::n_leaves(archive.output_mmr_size) != target {
				out.raw(&format!(
					"#STAT [e2e] {}: steering missed: {} outputs at the archive header instead of {}",
					name,
					pmmr::n_leaves(archive.output_mmr_size),
					target
				));
			}
		}
		if archive.height == 0 {
			out.raw("#ORACLE-FAIL C16 e2e harness: no archive header above genesis");
			continue;
		}
		// reference: a node that processed every block up to the archive header
		let twin = Subject::new(&format!("{}/e2e_twin_{}", work, name), &kit.genesis);
		for i in &trunk[1..] {
			if kit.blks[*i].height <= archive.height {
				twin.deliver_block(&kit.blks[*i].block);
			}
		}
		let ref_obs = twin.utxo(&kit);
		let mut unspent_idx: BTreeSet<u64> = BTreeSet::new();
		for o in &kit.outs {
			if let Ok(Some((_, cp))) = twin.c().get_unspent(o.commit) {
				unspent_idx.insert(pmmr::n_leaves(cp.pos) - 1);
			}
		}
		let archive_out_size = archive.output_mmr_size;
		let req_out = |pos0: u64| -> bool {
			let i = pmmr::n_leaves(pos0 + 1) - 1;
			unspent_idx.contains(&i) || unspent_idx.contains(&(i ^ 1)) || pos0 + 1 == archive_out_size
		};
		let req_all = |_pos0: u64| -> bool { true };
		let ref_roots = twin.roots();
		let ref_valid = twin.c().validate(false).is_ok();
		// several receiving nodes with different arrival orders / tampering
		let receivers = if thorough { 4 } else { 2 };
		for rcv in 0..receivers {
			let dest = Subject::new(&format!("{}/e2e_dst_{}_{}", work, name, rcv), &kit.genesis);
			let headers: Vec<_> = trunk[1..].iter().map(|i| kit.blks[*i].block.header.clone()).collect();
			let r = dest.sync_headers(&headers);
			if r != "ok" {
				out.raw(&format!("#ORACLE-FAIL C16 e2e harness: header sync failed: {}", r));
				continue;
			}
			let ah = dest.c().txhashset_archive_header_header_only().unwrap();
			if ah.hash() != archive.hash() {
				out.raw("#ORACLE-FAIL C16 e2e harness: archive headers differ");
				continue;
			}
			let deseg = dest.c().desegmenter(&ah).unwrap();
			let segmenter = src.segmenter().unwrap();
			let mut rounds = 0;
			let mut complete = false;
			// a tampered copy of redundant data was accepted: the final roots check has to catch it
			let mut poisoned = false;
			while !complete && rounds < 60 {
				rounds += 1;
				// what the desegmenter asks for, plus unsolicited ones of every type, in random
				// order, with duplicates and tampered copies
				let mut wanted: Vec<(u8, SegmentIdentifier)> = vec![];
				if let Some(d) = deseg.write().as_mut() {
					for sid in d.next_desired_segments(12) {
						let t = match sid.segment_type {
							grin_core::core::pmmr::segment::SegmentType::Bitmap => 0,
							grin_core::core::pmmr::segment::SegmentType::Output => 1,
							grin_core::core::pmmr::segment::SegmentType::RangeProof => 2,
							grin_core::core::pmmr::segment::SegmentType::Kernel => 3,
						};
						wanted.push((t, sid.identifier));
					}
				}
				st.add("requested", wanted.len() as u64);
				if rng.chance(1, 2) {
					for t in 0..4u8 {
						let h = if t == 0 { 9 } else { 11 };
						let _ = style;
						wanted.push((t, SegmentIdentifier { height: h, idx: 0 }));
					}
				}
				let dup: Vec<_> = wanted.iter().filter(|_| rng.chance(1, 3)).cloned().collect();
				wanted.extend(dup);
				for i in (1..wanted.len()).rev() {
					let j = rng.below(i as u64 + 1) as usize;
					wanted.swap(i, j);
				}
				for (t, id) in wanted {
					let bad = rng.chance(1, 4);
					let mut guard = deseg.write();
					let d = match guard.as_mut() {
						Some(d) => d,
						None => break,
					};
					let mut redundant_only = false;
					let (res, tampered): (Result<(), grin_chain::Error>, bool) = match t {
						0 => match segmenter.bitmap_segment(id) {
							Ok((seg, root)) => {
								// a tampered bitmap segment: claim another output root
								if bad {
									(d.add_bitmap_segment(seg, Hash::from_vec(&rng.bytes(32))), true)
								} else {
									(d.add_bitmap_segment(seg, root), false)
								}
							}
							Err(_) => continue,
						},
						1 => match segmenter.output_segment(id) {
							Ok((seg, root)) => match (bad, tamper::<OutputIdentifier>(&seg, rng, &req_out)) {
								(true, Some((s2, req))) => {
									redundant_only = !req;
									(d.add_output_segment(s2, Some(root)), true)
								}
								_ => (d.add_output_segment(seg, Some(root)), false),
							},
							Err(_) => continue,
						},
						2 => match segmenter.rangeproof_segment(id) {
							Ok(seg) => match (bad, tamper::<RangeProof>(&seg, rng, &req_out)) {
								(true, Some((s2, req))) => {
									redundant_only = !req;
									(d.add_rangeproof_segment(s2), true)
								}
								_ => (d.add_rangeproof_segment(seg), false),
							},
							Err(_) => continue,
						},
						_ => match segmenter.kernel_segment(id) {
							Ok(seg) => match (bad, tamper::<TxKernel>(&seg, rng, &req_all)) {
								(true, Some((s2, _))) => (d.add_kernel_segment(s2), true),
								_ => (d.add_kernel_segment(seg), false),
							},
							Err(_) => continue,
						},
					};
					let kind = ["bitmap", "output", "rangeproof", "kernel"][t as usize];
					st.inc(&format!(
						"add-{}:{}:{}",
						kind,
						if tampered && redundant_only { "tampered-redundant-leaf" } else if tampered { "tampered" } else { "honest" },
						if res.is_ok() { "accepted" } else { "rejected" }
					));
					if tampered && redundant_only && res.is_ok() {
						poisoned = true;
					}
					if tampered && !redundant_only && res.is_ok() {
						out.raw(&format!(
							"#ORACLE-FAIL C16 e2e {}: tampered {} segment accepted by the desegmenter (id {},{})",
							name, kind, id.height, id.idx
						));
					}
				}
				let mut guard = deseg.write();
				if let Some(d) = guard.as_mut() {
					match catch(AssertUnwindSafe(|| d.apply_next_segments())) {
						Ok(Ok(())) => {}
						Ok(Err(e)) => st.inc(&format!("apply-err:{}", error_class(&e))),
						Err(m) => out.raw(&format!("#ORACLE-FAIL C16 e2e {}: apply_next_segments panicked: {}", name, m)),
					}
					// the server's completion test (`state_sync.rs`): `check_progress`, not
					// `is_complete()` -- the latter never turns true when the last output segment
					// is not full (`next_required_output_segment_index` keeps asking for it)
					complete = matches!(d.check_progress(Arc::new(SyncState::new())), Ok(true));
					if complete && !d.is_complete() {
						st.inc("complete-by-check_progress-but-is_complete-false");
					}
				}
			}
			st.add(&format!("{}:rounds", name), rounds);
			if !complete {
				let (o, r, k) = {
					let ts = dest.c().txhashset();
					let ts = ts.read();
					(ts.output_mmr_size(), ts.rangeproof_mmr_size(), ts.kernel_mmr_size())
				};
				let want: Vec<String> = match deseg.write().as_mut() {
					Some(d) => d.next_desired_segments(12).iter().map(|x| format!("{:?}:{}:{}", x.segment_type, x.identifier.height, x.identifier.idx)).collect(),
					None => vec![],
				};
				out.raw(&format!(
					"#ORACLE-FAIL C16 e2e {}: desegmenter not complete after {} rounds of honest + tampered deliveries: local sizes output={} rangeproof={} kernel={} archive output={} kernel={} still wanted={:?}",
					name, rounds, o, r, k, ah.output_mmr_size, ah.kernel_mmr_size, want
				));
				continue;
			}
			// finalise, as `StateSync` does: leaf sets, then full validation
			if let Some(d) = deseg.read().as_ref() {
				if let Err(e) = d.check_update_leaf_set_state() {
					out.raw(&format!("#ORACLE-FAIL C16 e2e {}: check_update_leaf_set_state failed: {}", name, error_class(&e)));
				}
			}
			let fin = {
				let guard = deseg.read();
				let d = guard.as_ref().unwrap();
				catch(AssertUnwindSafe(|| d.validate_complete_state(Arc::new(SyncState::new()), Arc::new(StopState::new()))))
			};
			let fin_s = match &fin {
				Ok(Ok(())) => "ok".to_string(),
				Ok(Err(e)) => format!("err:{}", error_class(e)),
				Err(m) => format!("panic:{}", m),
			};
			st.inc(&format!("validate_complete_state:{}", fin_s));
			// the roots of the assembled state vs the archive header
			let roots = dest.c().txhashset().read().roots().unwrap();
			let roots_match = roots.validate(&ah).is_ok();
			if fin_s == "ok" && !roots_match {
				out.raw(&format!("#ORACLE-FAIL C16 e2e {}: state finalised with roots other than the archive header's", name));
			}
			if poisoned {
				// redundant tampered data may have been applied: either outcome is fine as long
				// as nothing with other roots was finalised (checked above)
				st.inc(&format!("poisoned-receiver:{}", if fin_s == "ok" { "finalised-with-right-roots" } else { "refused-at-final-roots-check" }));
				if fin_s != "ok" {
					continue;
				}
			}
			if fin_s != "ok" {
				out.raw(&format!("#ORACLE-FAIL C16 e2e {}: honest segments (in random order, with duplicates and rejected tampered copies) did not lead to a finalised state: {}", name, fin_s));
				continue;
			}
			let head = dest.c().head().unwrap();
			if head.last_block_h != ah.hash() {
				out.raw(&format!("#ORACLE-FAIL C16 e2e {}: body head after state sync is not the archive header", name));
			}
			let obs = dest.utxo(&kit);
			let droots = dest.roots();
			let dvalid = dest.c().validate(false).is_ok();
			st.add(&format!("{}:unspent-at-archive", name), obs.len() as u64);
			if obs != ref_obs {
				out.raw(&format!("#ORACLE-FAIL C16 e2e {}: unspent set after state sync differs from block-by-block: {:?} vs {:?}", name, obs, ref_obs));
			}
			if droots != ref_roots {
				out.raw(&format!("#ORACLE-FAIL C16 e2e {}: roots after state sync differ from block-by-block: {} vs {}", name, droots, ref_roots));
			}
			if dvalid != ref_valid || !dvalid {
				out.raw(&format!("#ORACLE-FAIL C16 e2e {}: full validation after state sync {} vs block-by-block {}", name, dvalid, ref_valid));
			}
			st.inc("receivers-finalised-equal-to-block-by-block");
		}
	}
	// regression probe for the repaired `Desegmenter::new` (commit 769a13f24; finding
	// C16-desegmenter-new-panics-single-chunk): with at most 1024 outputs at the archive header
	// (one bitmap chunk) `calc_bitmap_mmr_sizes` used to panic through an eagerly evaluated
	// `unwrap` inside `unwrap_or(..)`
	{
		let mut kit = Kit::new(&format!("{}/e2e_small_src", work));
		let mut tip = 0usize;
		let mut headers = vec![];
		for _ in 1..=42u64 {
			if let Ok(id) = kit.new_block(tip, 2, &[]) {
				tip = id;
				headers.push(kit.blks[id].block.header.clone());
			}
		}
		let dest = Subject::new(&format!("{}/e2e_small_dst", work), &kit.genesis);
		let r = dest.sync_headers(&headers);
		let ah = dest.c().txhashset_archive_header_header_only().unwrap();
		let res = catch(AssertUnwindSafe(|| dest.c().desegmenter(&ah).map(|d| d.read().as_ref().map(|d| d.expected_bitmap_mmr_size()))));
		match res {
			Err(m) => out.raw(&format!(
				"#ORACLE-FAIL C16 regression (C16-desegmenter-new-panics-single-chunk): Chain::desegmenter panicked archive_height={} output_leaves={} headers={} panic=({})",
				ah.height,
				pmmr::n_leaves(ah.output_mmr_size),
				r,
				m
			)),
			Ok(Ok(Some(sz))) => {
				st.inc("single-chunk-desegmenter:constructed");
				if sz != 1 {
					out.raw(&format!("#ORACLE-FAIL C16 expected bitmap MMR size for one chunk is {} (must be 1)", sz));
				}
			}
			Ok(_) => out.raw("#ORACLE-FAIL C16 regression (C16-desegmenter-new-panics-single-chunk): Chain::desegmenter returned no desegmenter"),
		}
	}
	st.dump(out, "e2e");
}

// ---------------------------------------------------------------------------------------------
// assembly: multi-segment state sync with lowered segment heights (hook 19692181f)
// ---------------------------------------------------------------------------------------------

use grin_core::core::pmmr::segment::SegmentType;

fn tree_no(t: &SegmentType) -> u8 {
	match t {
		SegmentType::Bitmap => 0,
		SegmentType::Output => 1,
		SegmentType::RangeProof => 2,
		SegmentType::Kernel => 3,
	}
}

const TREE: [&str; 4] = ["bitmap", "output", "rangeproof", "kernel"];

#[derive(Clone, Copy, PartialEq, Debug)]
enum Pattern {
	InOrder,
	Shuffled,
	Reverse,
	/// every segment delivered twice while the first copy is still cached
	DupCached,
	/// segments that have ALREADY BEEN APPLIED are delivered again (idx 0, a middle one, the last applied)
	LateDup,
	/// the next required segment of every tree arrives two rounds late, the later ones on time
	Withhold,
	/// tampered copies before and after the honest one
	Tampered,
	/// valid segments nobody asked for that cannot be mistaken for a required one: the asked height
	/// far ahead of the request window, higher heights whose idx lies behind the next required one
	UnsolicitedBenign,
	/// valid segments of ANOTHER height whose idx may equal a required idx (lower heights with any
	/// idx, higher heights at or ahead of the next required idx)
	UnsolicitedForeign,
}

const PATTERNS: [Pattern; 9] = [
	Pattern::InOrder,
	Pattern::Shuffled,
	Pattern::Reverse,
	Pattern::DupCached,
	Pattern::LateDup,
	Pattern::Withhold,
	Pattern::Tampered,
	Pattern::UnsolicitedBenign,
	Pattern::UnsolicitedForeign,
];

struct Reference {
	obs: Vec<usize>,
	roots: String,
	valid: bool,
	unspent_idx: BTreeSet<u64>,
}

/// one delivery to the desegmenter; `tamper`: deliver a corrupted copy. Returns (accepted, was tampered, redundant-only)
fn deliver(
	d: &mut grin_chain::txhashset::Desegmenter,
	segmenter: &grin_chain::txhashset::Segmenter,
	t: u8,
	id: SegmentIdentifier,
	tamper_it: bool,
	rng: &mut Rng,
	req_out: &dyn Fn(u64) -> bool,
) -> Option<(bool, bool, bool, String)> {
	let req_all = |_p: u64| true;
	let mut redundant_only = false;
	let (res, tampered): (Result<(), grin_chain::Error>, bool) = match t {
		0 => match segmenter.bitmap_segment(id) {
			Ok((seg, root)) => {
				if tamper_it {
					(d.add_bitmap_segment(seg, Hash::from_vec(&rng.bytes(32))), true)
				} else {
					(d.add_bitmap_segment(seg, root), false)
				}
			}
			Err(_) => return None,
		},
		1 => match segmenter.output_segment(id) {
			Ok((seg, root)) => match (tamper_it, tamper::<OutputIdentifier>(&seg, rng, req_out)) {
				(true, Some((s2, req))) => {
					redundant_only = !req;
					(d.add_output_segment(s2, Some(root)), true)
				}
				_ => (d.add_output_segment(seg, Some(root)), false),
			},
			Err(_) => return None,
		},
		2 => match segmenter.rangeproof_segment(id) {
			Ok(seg) => match (tamper_it, tamper::<RangeProof>(&seg, rng, req_out)) {
				(true, Some((s2, req))) => {
					redundant_only = !req;
					(d.add_rangeproof_segment(s2), true)
				}
				_ => (d.add_rangeproof_segment(seg), false),
			},
			Err(_) => return None,
		},
		_ => match segmenter.kernel_segment(id) {
			Ok(seg) => match (tamper_it, tamper::<TxKernel>(&seg, rng, &req_all)) {
				(true, Some((s2, _))) => (d.add_kernel_segment(s2), true),
				_ => (d.add_kernel_segment(seg), false),
			},
			Err(_) => return None,
		},
	};
	let cls = match &res {
		Ok(()) => String::new(),
		Err(e) => error_class(e),
	};
	Some((res.is_ok(), tampered, redundant_only, cls))
}

fn assembly_mode(out: &mut Out, rng: &mut Rng, thorough: bool) {
	use grin_chain::pibd_params::verif_hooks::set_segment_heights;
	let work = std::env::var("VERIF_WORK").expect("VERIF_WORK not set");
	let mut st = Stats::default();
	let scenarios: Vec<(&str, u64, bool, &str)> = if thorough {
		vec![("small-uncompacted", 46, false, "small"), ("small-compacted", 90, true, "small"), ("big-compacted", 140, true, "big")]
	} else {
		vec![("small-compacted", 90, true, "small")]
	};
	// (bitmap, output, rangeproof, kernel) heights; None = the shipped defaults (9, 11, 11, 11)
	let height_sets: Vec<Option<(u8, u8, u8, u8)>> = if thorough {
		vec![Some((0, 2, 2, 1)), Some((1, 3, 3, 2)), Some((0, 1, 1, 1)), Some((1, 4, 2, 3)), None]
	} else {
		vec![Some((0, 2, 2, 1)), Some((1, 3, 3, 2)), None]
	};
	for (name, n_trunk, compact, style) in scenarios {
		let mut kit = Kit::new(&format!("{}/asm_src_{}", work, name));
		let trunk = build_trunk(&mut kit, rng, &mut st, n_trunk, style, None);
		let src = kit.builder();
		if compact {
			if let Err(e) = src.compact() {
				out.raw(&format!("#ORACLE-FAIL C16 assembly harness: source compaction failed: {}", error_class(&e)));
			}
		}
		let archive = src.txhashset_archive_header().unwrap();
		if archive.height == 0 {
			out.raw("#ORACLE-FAIL C16 assembly harness: no archive header above genesis");
			continue;
		}
		let n_out = pmmr::n_leaves(archive.output_mmr_size);
		let n_ker = pmmr::n_leaves(archive.kernel_mmr_size);
		let n_chunks = (n_out + 1023) / 1024;
		st.add(&format!("{}:output-leaves", name), n_out);
		st.add(&format!("{}:kernel-leaves", name), n_ker);
		st.add(&format!("{}:bitmap-chunks", name), n_chunks);
		// reference: a node that processed every block up to the archive header
		let twin = Subject::new(&format!("{}/asm_twin_{}", work, name), &kit.genesis);
		for i in &trunk[1..] {
			if kit.blks[*i].height <= archive.height {
				twin.deliver_block(&kit.blks[*i].block);
			}
		}
		let mut unspent_idx: BTreeSet<u64> = BTreeSet::new();
		for o in &kit.outs {
			if let Ok(Some((_, cp))) = twin.c().get_unspent(o.commit) {
				unspent_idx.insert(pmmr::n_leaves(cp.pos) - 1);
			}
		}
		let reference = Reference {
			obs: twin.utxo(&kit),
			roots: twin.roots(),
			valid: twin.c().validate(false).is_ok(),
			unspent_idx,
		};
		let archive_out_size = archive.output_mmr_size;
		let req_out = |pos0: u64| -> bool {
			let i = pmmr::n_leaves(pos0 + 1) - 1;
			reference.unspent_idx.contains(&i) || reference.unspent_idx.contains(&(i ^ 1)) || pos0 + 1 == archive_out_size
		};
		let headers: Vec<_> = trunk[1..].iter().map(|i| kit.blks[*i].block.header.clone()).collect();
		let segmenter = src.segmenter().unwrap();
		let mut rcv_no = 0;
		for hs in &height_sets {
			let (hb, ho, hr, hk) = hs.unwrap_or((9, 11, 11, 11));
			let heights = [hb, ho, hr, hk];
			let leaves = [n_chunks, n_out, n_out, n_ker];
			let totals: Vec<u64> = (0..4).map(|i| (leaves[i] + (1u64 << heights[i]) - 1) >> heights[i]).collect();
			let total_segments: u64 = totals.iter().sum();
			let patterns: Vec<Pattern> = if hs.is_none() {
				vec![Pattern::Shuffled, Pattern::LateDup]
			} else if thorough {
				PATTERNS.to_vec()
			} else if (hb, ho) == (0, 2) {
				PATTERNS.to_vec()
			} else {
				vec![Pattern::Shuffled, Pattern::LateDup, Pattern::Withhold, Pattern::UnsolicitedBenign, Pattern::UnsolicitedForeign]
			};
			for pat in patterns {
				rcv_no += 1;
				let tag = format!("{} heights={:?} pattern={:?}", name, heights, pat);
				st.inc(&format!("pattern:{:?}", pat));
				st.inc(&format!("heights:{}", hs.map(|h| format!("{:?}", h)).unwrap_or("default".to_string())));
				for i in 0..4 {
					st.inc(&format!("segments-per-tree[{}]:{}", TREE[i], match totals[i] { 1 => "1", 2..=4 => "2-4", 5..=16 => "5-16", 17..=64 => "17-64", _ => ">64" }));
				}
				let dest = Subject::new(&format!("{}/asm_dst_{}_{}", work, name, rcv_no), &kit.genesis);
				let r = dest.sync_headers(&headers);
				if r != "ok" {
					out.raw(&format!("#ORACLE-FAIL C16 assembly harness: header sync failed: {}", r));
					continue;
				}
				let ah = dest.c().txhashset_archive_header_header_only().unwrap();
				if ah.hash() != archive.hash() {
					out.raw("#ORACLE-FAIL C16 assembly harness: archive headers differ");
					continue;
				}
				set_segment_heights(*hs);
				let deseg = dest.c().desegmenter(&ah).unwrap();
				set_segment_heights(None);
				// the model follows every pattern in which only segments of the asked heights arrive
				let modelled = true;
				let mut foreign_accepted: Vec<String> = vec![];
				if modelled {
					out.raw("seg new");
					out.line(
						&format!("seg dsg new {} {} {} {} {} {} {}", hb, ho, hr, hk, n_chunks, n_out, n_ker),
						"ok",
					);
				}
				let bound = 30 + 3 * total_segments;
				let mut rounds = 0u64;
				let mut complete = false;
				let mut poisoned = false;
				// honest deliveries so far, per tree
				let mut delivered: [BTreeSet<u64>; 4] = Default::default();
				// (tree, id, due round) of withheld segments
				let mut withheld: Vec<(u8, SegmentIdentifier, u64)> = vec![];
				let mut late_dups_done = 0u64;
				let mut log: Vec<String> = vec![];
				let mut gave_up = false;
				let mut empty_rounds = 0u32;
				let mut last_sizes = (0u64, 0u64, 0u64);
				while !complete && rounds < bound {
					rounds += 1;
					let mut guard = deseg.write();
					let d = guard.as_mut().unwrap();
					// --- apply_next_segments, check_progress (as continue_pibd does)
					match catch(AssertUnwindSafe(|| d.apply_next_segments())) {
						Ok(Ok(())) => {}
						Ok(Err(e)) => {
							st.inc(&format!("apply-err:{}", error_class(&e)));
							log.push(format!("r{}:apply-err:{}", rounds, error_class(&e)));
						}
						Err(m) => {
							let ftag = if !foreign_accepted.is_empty() { " [desegmenter-foreign-height-segment-applied]" } else { "" };
							st.inc(&format!("apply-panic:{:?}", pat));
							out.raw(&format!(
								"#ORACLE-FAIL C16 assembly{} {}: apply_next_segments panicked in round {}: {}; valid segments of another height accepted before: {:?}; replay: seed={} deliveries=[{}]",
								ftag, tag, rounds, m, foreign_accepted, seed_from_env(), &log.join(" ")[..log.join(" ").len().min(2500)]
							));
							gave_up = true;
							break;
						}
					}
					complete = matches!(d.check_progress(Arc::new(SyncState::new())), Ok(true));
					let (so, sr, sk) = {
						let ts = dest.c().txhashset();
						let ts = ts.read();
						(ts.output_mmr_size(), ts.rangeproof_mmr_size(), ts.kernel_mmr_size())
					};
					if modelled {
						out.line("seg dsg apply", &format!("{} {} {} {}", so, sr, sk, if complete { 1 } else { 0 }));
					}
					if complete {
						break;
					}
					// --- next_desired_segments
					let wanted: Vec<(u8, SegmentIdentifier)> =
						d.next_desired_segments(15).iter().map(|x| (tree_no(&x.segment_type), x.identifier)).collect();
					st.add("requested", wanted.len() as u64);
					if modelled {
						let toks: Vec<String> = wanted.iter().map(|(t, id)| format!("{}:{}:{}", t, id.height, id.idx)).collect();
						out.line("seg dsg want", &format!("[{}]", toks.join(",")));
					}
					for (t, id) in &wanted {
						if id.height != heights[*t as usize] {
							out.raw(&format!("#ORACLE-FAIL C16 assembly {}: desegmenter asks for height {} of the {} tree", tag, id.height, TREE[*t as usize]));
						}
					}
					// --- the deliveries of this round: (tree, id, tampered copy?)
					let mut plan: Vec<(u8, SegmentIdentifier, bool)> = vec![];
					let mut due: Vec<(u8, SegmentIdentifier)> = vec![];
					withheld.retain(|(t, id, r)| {
						if *r <= rounds {
							due.push((*t, *id));
							false
						} else {
							true
						}
					});
					let mut base: Vec<(u8, SegmentIdentifier)> = wanted.clone();
					// (one empty list is normal: the round between the last bitmap segment being applied and
					// the bitmap being finalised by the next apply_next_segments call)
					// (nor is an empty list while cached segments are still being applied: sizes move)
					if wanted.is_empty() && withheld.is_empty() && (so, sr, sk) == last_sizes {
						empty_rounds += 1;
					} else {
						empty_rounds = 0;
					}
					last_sizes = (so, sr, sk);
					if empty_rounds >= 3 {
						// nothing asked for, nothing on its way, yet not complete: a stall. (Regression probe
						// for the repair d6b49984d: before it the bitmap branch of next_desired_segments
						// never asked for a segment that adds exactly one position, e.g. the only segment of
						// a one-chunk bitmap MMR.)
						let missing: Vec<String> = (0..4)
							.map(|t| format!("{}:{}/{}", TREE[t], delivered[t].len(), totals[t]))
							.collect();
						st.inc(&format!("STALL-empty-request-list:{:?}", pat));
						out.raw(&format!(
							"#ORACLE-FAIL C16 assembly STALL [desegmenter-bitmap-segment-never-requested] {}: next_desired_segments has returned an EMPTY list for 3 rounds in which no MMR grew (now round {}) although the sync is not complete (bitmap MMR of {} chunks, {} outputs at the archive header); local sizes output={} rangeproof={} kernel={} archive output={} kernel={}; honestly delivered {:?}; replay: seed={} deliveries=[{}]",
							tag, rounds, n_chunks, n_out, so, sr, sk, ah.output_mmr_size, ah.kernel_mmr_size, missing, seed_from_env(),
							&log.join(" ")[..log.join(" ").len().min(2500)]
						));
						gave_up = true;
						break;
					}
					if pat == Pattern::Withhold {
						// the first segment asked of each tree is held back for two rounds (unless it is
						// already on its way), everything else arrives
						let mut seen = [false; 4];
						base.retain(|(t, id)| {
							if withheld.iter().any(|(t2, id2, _)| t2 == t && id2 == id) {
								return false;
							}
							if !seen[*t as usize] {
								seen[*t as usize] = true;
								if rng.chance(2, 3) {
									withheld.push((*t, *id, rounds + 2));
									return false;
								}
							}
							true
						});
					}
					base.extend(due);
					match pat {
						Pattern::InOrder | Pattern::Withhold => {}
						Pattern::Reverse => base.reverse(),
						_ => shuffle_v(rng, &mut base),
					}
					for (t, id) in &base {
						match pat {
							Pattern::DupCached => {
								plan.push((*t, *id, false));
								plan.push((*t, *id, false));
							}
							Pattern::Tampered => {
								if rng.chance(1, 2) {
									plan.push((*t, *id, true));
								}
								plan.push((*t, *id, false));
								if rng.chance(1, 2) {
									plan.push((*t, *id, true));
								}
							}
							_ => plan.push((*t, *id, false)),
						}
					}
					if pat == Pattern::LateDup {
						// segments that were applied in earlier rounds, delivered once more: for every
						// tree idx 0, a middle one and the last applied one
						let sizes = [0, so, sr, sk];
						for t in 0..4u8 {
							let h = heights[t as usize];
							let applied: u64 = if t == 0 {
								// the bitmap accumulator is private: applied = delivered and no longer asked for
								delivered[0].iter().filter(|i| !wanted.iter().any(|(t2, id)| *t2 == 0 && id.idx == **i)).count() as u64
							} else {
								pmmr::n_leaves(sizes[t as usize]) >> h
							};
							if applied == 0 {
								continue;
							}
							let mut idxs = vec![0, applied / 2, applied - 1];
							idxs.dedup();
							for i in idxs {
								if delivered[t as usize].contains(&i) && rng.chance(2, 3) {
									plan.push((t, SegmentIdentifier { height: h, idx: i }, false));
									late_dups_done += 1;
									st.inc(&format!("late-duplicate[{}]", TREE[t as usize]));
								}
							}
						}
						shuffle_v(rng, &mut plan);
					}
					if pat == Pattern::UnsolicitedBenign || pat == Pattern::UnsolicitedForeign {
						let sizes = [0, so, sr, sk];
						for _ in 0..rng.range(1, 4) {
							let t = rng.below(4) as u8;
							let h = heights[t as usize];
							// next required idx of the asked height (bitmap: private, taken from the request list)
							let next_idx = if t == 0 {
								wanted.iter().filter(|(t2, _)| *t2 == 0).map(|(_, id)| id.idx).min().unwrap_or(u64::MAX)
							} else {
								pmmr::n_leaves(sizes[t as usize]) >> h
							};
							if pat == Pattern::UnsolicitedBenign {
								if rng.chance(1, 2) {
									// the asked height, far ahead of what was requested (an early arrival)
									if next_idx != u64::MAX {
										let idx = next_idx + 5 + rng.below(6);
										if idx < totals[t as usize] {
											plan.push((t, SegmentIdentifier { height: h, idx }, false));
										}
									}
								} else if next_idx != u64::MAX && next_idx > 0 {
									// higher height, idx strictly behind the next required one: cached, never selected
									let oh = h + 1 + rng.below(2) as u8;
									let cnt = (leaves[t as usize] + (1u64 << oh) - 1) >> oh;
									let idx = rng.below(next_idx.min(cnt));
									plan.push((t, SegmentIdentifier { height: oh, idx }, false));
								}
							} else if h > 0 && rng.chance(1, 2) {
								// lower height, any idx: selected by idx in place of the required segment, the rest
								// of the batch is then applied with a gap
								let oh = h - 1;
								let cnt = (leaves[t as usize] + (1u64 << oh) - 1) >> oh;
								plan.push((t, SegmentIdentifier { height: oh, idx: rng.below(cnt) }, false));
							} else {
								// higher height (also the shipped default), idx at or ahead of the next required one
								let oh = match rng.below(3) {
									0 => h + 1,
									1 => h + 2,
									_ => [9u8, 11, 11, 11][t as usize].max(h + 1),
								};
								let cnt = (leaves[t as usize] + (1u64 << oh.min(20)) - 1) >> oh.min(20);
								if next_idx != u64::MAX && next_idx + 1 < cnt {
									let idx = next_idx + 1 + rng.below((cnt - next_idx - 1).min(3));
									plan.push((t, SegmentIdentifier { height: oh, idx }, false));
								}
							}
						}
						shuffle_v(rng, &mut plan);
					}
					for (t, id, tamper_it) in plan {
						let r = catch(AssertUnwindSafe(|| deliver(d, &segmenter, t, id, tamper_it, rng, &req_out)));
						let (acc, tampered, redundant_only, err_cls) = match r {
							Err(m) => {
								out.raw(&format!("#ORACLE-FAIL C16 assembly {}: add_{}_segment panicked on ({},{}): {}", tag, TREE[t as usize], id.height, id.idx, m));
								continue;
							}
							Ok(None) => {
								st.inc(&format!("source-cannot-serve[{}]", TREE[t as usize]));
								continue;
							}
							Ok(Some(x)) => x,
						};
						let own = id.height == heights[t as usize];
						st.inc(&format!(
							"add-{}:{}:{}",
							TREE[t as usize],
							if tampered && redundant_only { "tampered-redundant-leaf" } else if tampered { "tampered" } else if own { "honest" } else { "honest-other-height" },
							if acc { "accepted" } else { "rejected" }
						));
						log.push(format!("r{}:{}{}:{}:{}:{}", rounds, if tampered { "T" } else { "" }, t, id.height, id.idx, if acc { "a" } else { "r" }));
						if modelled {
							out.line(
								&format!("seg dsg add {} {} {} {}", t, id.height, id.idx, if acc { 1 } else { 0 }),
								if acc { "cached" } else { "refused" },
							);
						}
						if !own {
							// regression probe for the repair 11f03601e: a segment of a height the desegmenter
							// did not ask for must be refused with InvalidSegmentHeight and change nothing
							if acc {
								foreign_accepted.push(format!("r{}:{}({},{})", rounds, TREE[t as usize], id.height, id.idx));
								out.raw(&format!(
									"#ORACLE-FAIL C16 assembly [desegmenter-foreign-height-segment-applied] {}: add_{}_segment accepted the valid segment ({},{}) although the desegmenter asks for height {} (round {})",
									tag, TREE[t as usize], id.height, id.idx, heights[t as usize], rounds
								));
							} else {
								st.inc(&format!("foreign-height-refused:{}", err_cls));
								if !err_cls.contains("InvalidSegmentHeight") {
									out.raw(&format!(
										"#ORACLE-FAIL C16 assembly [desegmenter-foreign-height-segment-applied] {}: add_{}_segment refused the segment ({},{}) of another height with {} instead of InvalidSegmentHeight",
										tag, TREE[t as usize], id.height, id.idx, err_cls
									));
								}
							}
						}
						if tampered && redundant_only && acc {
							poisoned = true;
						}
						if tampered && !redundant_only && acc {
							out.raw(&format!("#ORACLE-FAIL C16 assembly {}: tampered {} segment accepted by the desegmenter (id {},{})", tag, TREE[t as usize], id.height, id.idx));
						}
						if !tampered && own {
							if acc {
								delivered[t as usize].insert(id.idx);
							} else if t == 0 || d.next_desired_segments(15).iter().any(|x| tree_no(&x.segment_type) != 0) || t == 3 {
								// an honest segment of the asked height must be accepted (output / rangeproof
								// segments need the finished bitmap: refused before that)
								out.raw(&format!("#ORACLE-FAIL C16 assembly {}: honest {} segment ({},{}) refused", tag, TREE[t as usize], id.height, id.idx));
							}
						}
					}
				}
				st.add("rounds", rounds);
				st.add("late-duplicates-delivered", late_dups_done);
				let replay = format!("{} seed={} deliveries=[{}]", tag, seed_from_env(), log.join(" "));
				if gave_up {
					continue;
				}
				let ftag = if !foreign_accepted.is_empty() { " [desegmenter-foreign-height-segment-applied]" } else { "" };
				if !complete {
					let (o, r, k) = {
						let ts = dest.c().txhashset();
						let ts = ts.read();
						(ts.output_mmr_size(), ts.rangeproof_mmr_size(), ts.kernel_mmr_size())
					};
					let want: Vec<String> = match deseg.write().as_mut() {
						Some(d) => d.next_desired_segments(15).iter().map(|x| format!("{}:{}:{}", tree_no(&x.segment_type), x.identifier.height, x.identifier.idx)).collect(),
						None => vec![],
					};
					let all_delivered: Vec<String> = (0..4).map(|t| format!("{}:{}/{}", TREE[t], delivered[t].len(), totals[t])).collect();
					st.inc(&format!("STALL:{:?}", pat));
					out.raw(&format!(
						"#ORACLE-FAIL C16 assembly STALL{} {}: not complete after {} rounds (bound {}); local sizes output={} rangeproof={} kernel={} archive output={} kernel={}; honestly delivered {:?}; still asked for={:?}; replay: {}",
						ftag, tag, rounds, bound, o, r, k, ah.output_mmr_size, ah.kernel_mmr_size, all_delivered, want,
						&replay[..replay.len().min(3000)]
					));
					continue;
				}
				st.inc(&format!("complete:{:?}", pat));
				// finalise, as `StateSync` does
				if let Some(d) = deseg.read().as_ref() {
					if let Err(e) = d.check_update_leaf_set_state() {
						out.raw(&format!("#ORACLE-FAIL C16 assembly {}: check_update_leaf_set_state failed: {}", tag, error_class(&e)));
					}
				}
				let fin = {
					let guard = deseg.read();
					let d = guard.as_ref().unwrap();
					catch(AssertUnwindSafe(|| d.validate_complete_state(Arc::new(SyncState::new()), Arc::new(StopState::new()))))
				};
				let fin_s = match &fin {
					Ok(Ok(())) => "ok".to_string(),
					Ok(Err(e)) => format!("err:{}", error_class(e)),
					Err(m) => format!("panic:{}", m),
				};
				st.inc(&format!("validate_complete_state:{}", fin_s));
				let roots_match = match dest.c().txhashset().read().roots() {
					Ok(r) => r.validate(&ah).is_ok(),
					Err(_) => false,
				};
				if fin_s == "ok" && !roots_match {
					out.raw(&format!("#ORACLE-FAIL C16 assembly {}: state finalised with roots other than the archive header's; replay: {}", tag, &replay[..replay.len().min(3000)]));
				}
				if poisoned && fin_s != "ok" {
					st.inc("poisoned-receiver:refused-at-final-roots-check");
					continue;
				}
				if fin_s != "ok" {
					out.raw(&format!(
						"#ORACLE-FAIL C16 assembly{} {}: every desired segment was delivered honestly but the state was not finalised: {} (roots match archive header: {}); replay: {}",
						ftag, tag, fin_s, roots_match, &replay[..replay.len().min(3000)]
					));
					continue;
				}
				let head = dest.c().head().unwrap();
				if head.last_block_h != ah.hash() {
					out.raw(&format!("#ORACLE-FAIL C16 assembly {}: body head after state sync is not the archive header", tag));
				}
				let obs = dest.utxo(&kit);
				let droots = dest.roots();
				let dvalid = dest.c().validate(false).is_ok();
				if obs != reference.obs {
					out.raw(&format!("#ORACLE-FAIL C16 assembly {}: unspent set after state sync differs from block-by-block; replay: {}", tag, &replay[..replay.len().min(3000)]));
				}
				if droots != reference.roots {
					out.raw(&format!("#ORACLE-FAIL C16 assembly {}: roots after state sync differ from block-by-block: {} vs {}", tag, droots, reference.roots));
				}
				if dvalid != reference.valid || !dvalid {
					out.raw(&format!("#ORACLE-FAIL C16 assembly {}: full validation after state sync {} vs block-by-block {}", tag, dvalid, reference.valid));
				}
				st.inc("receivers-finalised-equal-to-block-by-block");
			}
		}
	}
	st.dump(out, "assembly");
}

fn shuffle_v<T>(rng: &mut Rng, v: &mut Vec<T>) {
	for i in (1..v.len()).rev() {
		let j = rng.below(i as u64 + 1) as usize;
		v.swap(i, j);
	}
}

// ---------------------------------------------------------------------------------------------
// chunks: the receiving side's arithmetic about the bitmap MMR at chunk boundaries
// ---------------------------------------------------------------------------------------------

/// Archive headers whose output leaf count sits on / next to a multiple of the 1024-bit chunk size,
/// driven through a REAL `Desegmenter` of a fresh header-only chain.  The serving side is synthetic:
/// a leaf set, the `BitmapAccumulator` TxHashSet builds over it (`init`), an output PMMR root, and a
/// header that commits to both (`output_root = H(output_mmr_size | pmmr_root | bitmap_root)`).
fn chunks_mode(out: &mut Out, rng: &mut Rng, thorough: bool) {
	use grin_chain::pibd_params::verif_hooks::set_segment_heights;
	use grin_core::core::BlockHeader;
	let work = std::env::var("VERIF_WORK").expect("VERIF_WORK not set");
	let mut st = Stats::default();
	let kit = Kit::new(&format!("{}/chunks_src", work));
	let mk_header = |n_out: u64, output_root: Hash| -> BlockHeader {
		let mut h = BlockHeader::default();
		h.version = grin_core::core::block::HeaderVersion(5);
		h.height = 1000 + n_out;
		h.output_mmr_size = pmmr::insertion_to_pmmr_index(n_out);
		h.kernel_mmr_size = pmmr::insertion_to_pmmr_index(7);
		h.output_root = output_root;
		h
	};
	// (1) the pure function, through Desegmenter::new: every output count 0..=5000 (thorough 0..=20000
	// and the neighbourhoods of 1024*k up to 2^20)
	{
		let dest = Subject::new(&format!("{}/chunks_sweep", work), &kit.genesis);
		let mut counts: Vec<u64> = (0..=(if thorough { 20000 } else { 5000 })).collect();
		for k in [5u64, 8, 16, 31, 32, 33, 64, 100, 255, 256, 511, 512, 513, 1023, 1024].iter() {
			for d in [-2i64, -1, 0, 1, 2].iter() {
				counts.push((1024 * k) .wrapping_add(*d as u64));
			}
		}
		for n in counts {
			let hdr = mk_header(n, Hash::from_vec(&[(n % 251) as u8; 32]));
			let r = catch(AssertUnwindSafe(|| dest.c().desegmenter(&hdr).map(|d| d.read().as_ref().map(|d| d.expected_bitmap_mmr_size()))));
			match r {
				Ok(Ok(Some(size))) => {
					out.line(&format!("seg bmsize {}", n), &format!("{} {}", pmmr::n_leaves(size), size));
					st.inc(&format!("sweep:n%1024={}", match n % 1024 { 0 => "0", 1 => "1", 1023 => "1023", _ => "other" }));
					// oracle, independent of the model: enough chunks to cover n, and not one more
					let chunks = pmmr::n_leaves(size);
					if chunks * 1024 < n || (n > 0 && (chunks - 1) * 1024 >= n) || (n == 0 && chunks != 0) || pmmr::insertion_to_pmmr_index(chunks) != size {
						out.raw(&format!(
							"#ORACLE-FAIL C16 chunks: Desegmenter expects a bitmap MMR of size {} ({} chunks) for an archive header with {} output leaves (output_mmr_size {})",
							size, chunks, n, hdr.output_mmr_size
						));
					}
				}
				Ok(_) => out.raw(&format!("#ORACLE-FAIL C16 chunks: Chain::desegmenter failed for an archive header with {} outputs", n)),
				Err(m) => out.raw(&format!("#ORACLE-FAIL C16 chunks: Chain::desegmenter panicked for an archive header with {} outputs: {}", n, m)),
			}
		}
	}
	// (2) the interesting counts with real segments
	let mut counts: Vec<u64> = vec![1, 2, 1023, 1024, 1025, 2047, 2048, 2049, 3071, 3072, 3073, 4095, 4096, 4097, 5000];
	if thorough {
		counts.extend_from_slice(&[5119, 5120, 5121, 8191, 8192, 8193, 16384, 16385, 33 * 1024, 33 * 1024 + 1]);
		for _ in 0..6 {
			counts.push(rng.range(1, 12000));
		}
	}
	let height_sets: Vec<Option<u8>> = if thorough { vec![None, Some(0), Some(1), Some(2), Some(3)] } else { vec![None, Some(0), Some(2)] };
	let mut rcv = 0;
	for n in counts {
		let out_size = pmmr::insertion_to_pmmr_index(n);
		// an output PMMR root: a real MMR over n elements (only its root enters the header)
		let pmmr_root = {
			let mut ba = VecBackend::<Elem>::new();
			let mut size = 0u64;
			for i in 0..n.min(300) {
				let mut p = PMMR::at(&mut ba, size);
				p.push(&Elem((i as u64 ^ n).to_be_bytes().to_vec())).unwrap();
				size = p.size;
			}
			PMMR::at(&mut ba, size).root().unwrap()
		};
		// leaf sets: the last leaf is unspent (outputs of the archive block); dense, sparse, a whole
		// middle chunk spent, only the last leaf
		let patterns: Vec<&'static str> = if thorough { vec!["dense", "sparse", "middle-chunk-spent", "only-last", "all"] } else { vec!["dense", "middle-chunk-spent", "only-last"] };
		for (pi, pat) in patterns.iter().enumerate() {
			let mut unspent: BTreeSet<u64> = BTreeSet::new();
			for i in 0..n {
				let keep = match *pat {
					"dense" => rng.below(10) < 8,
					"sparse" => rng.below(40) == 0,
					"middle-chunk-spent" => i / 1024 != (n / 1024) / 2 && rng.below(3) == 0,
					"only-last" => false,
					_ => true,
				};
				if keep {
					unspent.insert(i);
				}
			}
			unspent.insert(n - 1);
			let mut acc = BitmapAccumulator::new();
			acc.init(unspent.iter().cloned(), n).unwrap();
			let acc_size = acc.readonly_pmmr().unpruned_size();
			let acc_chunks = pmmr::n_leaves(acc_size);
			if n <= 2100 && (pi == 0 || thorough) {
				out.line(
					&format!("seg accchunks {} {}", n, nat_list(&unspent.iter().cloned().collect::<Vec<_>>())),
					&acc_chunks.to_string(),
				);
			}
			let bitmap_root = acc.root();
			let output_root = (pmmr_root, bitmap_root).hash_with_index(out_size);
			let hdr = mk_header(n, output_root);
			let hs = height_sets[(pi + (n as usize)) % height_sets.len()];
			let hb = hs.unwrap_or(9);
			rcv += 1;
			let tag = format!("outputs={} (n%1024={}) leafset={} unspent={} bitmap-height={}", n, n % 1024, pat, unspent.len(), hb);
			st.inc(&format!("real:n%1024={}", match n % 1024 { 0 => "0", 1 => "1", 1023 => "1023", _ => "other" }));
			st.inc(&format!("real:height={}", hb));
			st.inc(&format!("real:leafset={}", pat));
			let dest = Subject::new(&format!("{}/chunks_dst_{}", work, rcv), &kit.genesis);
			set_segment_heights(hs.map(|h| (h, 11, 11, 11)));
			let deseg = dest.c().desegmenter(&hdr).unwrap();
			set_segment_heights(None);
			let mut guard = deseg.write();
			let d = guard.as_mut().unwrap();
			let exp_size = d.expected_bitmap_mmr_size();
			if exp_size != acc_size {
				out.raw(&format!(
					"#ORACLE-FAIL C16 chunks: the Desegmenter expects a bitmap MMR of size {} ({} chunks) but the accumulator TxHashSet builds over the leaf set has size {} ({} chunks): {}",
					exp_size, pmmr::n_leaves(exp_size), acc_size, acc_chunks, tag
				));
				continue;
			}
			out.raw("seg new");
			out.line(&format!("seg dsg newh {} 11 11 11 {} 7", hb, n), "ok");
			let mmr = acc.readonly_pmmr();
			let n_segs = (acc_chunks + (1u64 << hb) - 1) >> hb;
			st.inc(&format!("real:bitmap-segments={}", match n_segs { 1 => "1", 2..=4 => "2-4", _ => ">4" }));
			let mut delivered: BTreeSet<u64> = BTreeSet::new();
			let mut finalised = false;
			let mut rounds = 0;
			while !finalised && rounds < 20 + 2 * n_segs {
				rounds += 1;
				if let Err(e) = d.apply_next_segments() {
					out.raw(&format!("#ORACLE-FAIL C16 chunks: apply_next_segments failed ({}): {}", error_class(&e), tag));
					break;
				}
				let (so, sr, sk) = {
					let ts = dest.c().txhashset();
					let ts = ts.read();
					(ts.output_mmr_size(), ts.rangeproof_mmr_size(), ts.kernel_mmr_size())
				};
				out.line("seg dsg apply", &format!("{} {} {} 0", so, sr, sk));
				let wanted: Vec<(u8, SegmentIdentifier)> = d.next_desired_segments(15).iter().map(|x| (tree_no(&x.segment_type), x.identifier)).collect();
				let toks: Vec<String> = wanted.iter().map(|(t, id)| format!("{}:{}:{}", t, id.height, id.idx)).collect();
				out.line("seg dsg want", &format!("[{}]", toks.join(",")));
				if wanted.iter().any(|(t, _)| *t != 0) {
					finalised = true;
					break;
				}
				// independent oracle: while the bitmap is incomplete, exactly the missing, not yet
				// delivered segments are asked for (up to 15), in index order
				let expect: Vec<u64> = (0..n_segs).filter(|i| !delivered.contains(i)).take(15).collect();
				let got: Vec<u64> = wanted.iter().map(|(_, id)| id.idx).collect();
				let all_in = delivered.len() as u64 == n_segs;
				if !all_in && got != expect {
					out.raw(&format!("#ORACLE-FAIL C16 chunks: next_desired_segments asks for bitmap segments {:?}, expected {:?}: {}", got, expect, tag));
				}
				let mut order = wanted.clone();
				if rounds % 2 == 0 {
					order.reverse();
				}
				for (_, id) in order {
					let seg = match Segment::<BitmapChunk>::from_pmmr(id, &mmr, false) {
						Ok(s) => s,
						Err(e) => {
							out.raw(&format!("#ORACLE-FAIL C16 chunks: the accumulator cannot serve bitmap segment ({},{}) the desegmenter asks for ({}): {}", id.height, id.idx, err_str(&e), tag));
							continue;
						}
					};
					// a wrong output PMMR root / a segment of the accumulator of a neighbouring leaf set must be refused
					if rng.chance(1, 3) {
						let bad = d.add_bitmap_segment(seg.clone(), Hash::from_vec(&rng.bytes(32)));
						out.line(&format!("seg dsg add 0 {} {} 0", id.height, id.idx), if bad.is_ok() { "cached" } else { "refused" });
						if bad.is_ok() {
							out.raw(&format!("#ORACLE-FAIL C16 chunks: bitmap segment accepted with a wrong output PMMR root: {}", tag));
						}
					}
					let r = d.add_bitmap_segment(seg, pmmr_root);
					out.line(&format!("seg dsg add 0 {} {} {}", id.height, id.idx, if r.is_ok() { 1 } else { 0 }), if r.is_ok() { "cached" } else { "refused" });
					st.inc(&format!("real:add:{}", if r.is_ok() { "accepted" } else { "refused" }));
					match r {
						Ok(()) => {
							delivered.insert(id.idx);
						}
						Err(e) => out.raw(&format!(
							"#ORACLE-FAIL C16 chunks: genuine bitmap segment ({},{}) of the accumulator over the leaf set refused ({}): {}",
							id.height, id.idx, error_class(&e), tag
						)),
					}
				}
			}
			drop(guard);
			if !finalised {
				out.raw(&format!("#ORACLE-FAIL C16 chunks: bitmap not finalised after {} rounds ({} of {} segments delivered): {}", rounds, delivered.len(), n_segs, tag));
				continue;
			}
			// the finalised bitmap equals the source leaf set: the accumulator the desegmenter handed to
			// the txhashset has the root of the source accumulator (the accumulator itself is private;
			// equal roots = equal chunks, blake2b)
			let got_root = dest.c().txhashset().read().roots().map(|r| r.output_roots.bitmap_root);
			match got_root {
				Ok(r) if r == bitmap_root => st.inc("real:finalised-bitmap-equals-leaf-set"),
				Ok(r) => out.raw(&format!(
					"#ORACLE-FAIL C16 chunks: the finalised bitmap differs from the source leaf set (bitmap root {} vs {}): {}",
					hex(r.as_bytes()), hex(bitmap_root.as_bytes()), tag
				)),
				Err(e) => out.raw(&format!("#ORACLE-FAIL C16 chunks: roots() failed after the bitmap was finalised ({}): {}", error_class(&e), tag)),
			}
		}
		// the same count with the whole last chunk spent: the accumulator is SHORTER than expected
		// (not reachable for an archive header, whose last leaves are unspent) - recorded only
		if n > 1024 && n % 1024 != 0 {
			let unspent: Vec<u64> = (0..(n - n % 1024)).filter(|i| i % 3 == 0).collect();
			let mut acc = BitmapAccumulator::new();
			acc.init(unspent.iter().cloned(), n).unwrap();
			let short = pmmr::n_leaves(acc.readonly_pmmr().unpruned_size());
			if n <= 3100 {
				out.line(&format!("seg accchunks {} {}", n, nat_list(&unspent)), &short.to_string());
				// and over an empty leaf set: no chunk at all
				let mut e = BitmapAccumulator::new();
				e.init(Vec::<u64>::new(), n).unwrap();
				out.line(&format!("seg accchunks {} []", n), &pmmr::n_leaves(e.readonly_pmmr().unpruned_size()).to_string());
			}
			if short < (n + 1023) / 1024 {
				st.inc("accumulator-shorter-when-last-chunk-all-spent(unreachable-for-archive-header)");
			}
		}
	}
	st.dump(out, "chunks");
}

// ---------------------------------------------------------------------------------------------
// beyond: segments whose identifier lies beyond the MMR, the empty MMR included
// ---------------------------------------------------------------------------------------------

/// run `f` on its own thread; `None` = it did not return within the watchdog time (a hang: before
/// the repair 362e7d94e `Segment::root` walked 2^64 positions for an empty MMR)
fn watchdog<R: Send + 'static, F: FnOnce() -> R + Send + 'static>(secs: u64, f: F) -> Option<R> {
	let (tx, rx) = std::sync::mpsc::channel();
	std::thread::spawn(move || {
		let _ = tx.send(f());
	});
	rx.recv_timeout(std::time::Duration::from_secs(secs)).ok()
}

fn beyond_mode(out: &mut Out, rng: &mut Rng, thorough: bool) {
	use grin_core::core::BlockHeader;
	let mut st = Stats::default();
	let mut hung = false;
	let mut ba = VecBackend::<Elem>::new();
	let mut size = 0u64;
	let mut sizes_by_leaves: Vec<u64> = vec![0];
	let maxn: u64 = if thorough { 40 } else { 24 };
	for _ in 1..=maxn {
		let e = Elem(rng.bytes(8));
		let mut p = PMMR::at(&mut ba, size);
		p.push(&e).unwrap();
		size = p.size;
		sizes_by_leaves.push(size);
	}
	let mmr = ReadonlyPMMR::<Elem, _>::at(&ba, size);
	let root = mmr.root().unwrap();
	out.raw("seg new");
	'outer: for height in 0..=4u8 {
		let cap = 1u64 << height;
		for idx in 0..((maxn + cap - 1) / cap) {
			let id = SegmentIdentifier { height, idx };
			// a genuine segment of the big MMR, and garbage with the same identifier
			let genuine = match Segment::<Elem>::from_pmmr(id, &mmr, false) {
				Ok(s) => parts_of(&s),
				Err(_) => continue,
			};
			let (first, _) = id.segment_pos_range(size);
			let mut garbage = genuine.clone();
			garbage.hash_pos = vec![first, first + 1 + rng.below(5)];
			garbage.hashes = vec![Hash::from_vec(&rng.bytes(32)), Hash::from_vec(&rng.bytes(32))];
			garbage.leaf_data = garbage.leaf_data.iter().map(|_| rng.bytes(8)).collect();
			garbage.proof = (0..rng.below(5)).map(|_| Hash::from_vec(&rng.bytes(32))).collect();
			let mut leafless = genuine.clone();
			leafless.leaf_pos = vec![];
			leafless.leaf_data = vec![];
			leafless.hash_pos = vec![first];
			leafless.hashes = vec![Hash::from_vec(&rng.bytes(32))];
			// MMR sizes in which the segment does not exist: the empty MMR and every size whose leaf
			// count is at most the segment's leaf offset (smaller than the segment's first position)
			let mut small: Vec<u64> = vec![0];
			let off = idx * cap;
			for k in [1u64, off / 2, off.saturating_sub(1), off].iter() {
				if *k >= 1 && *k <= off {
					small.push(sizes_by_leaves[*k as usize]);
				}
			}
			small.sort();
			small.dedup();
			for (pname, p) in [("genuine", &genuine), ("garbage", &garbage), ("leafless", &leafless)].iter() {
				for msize in &small {
					// no bitmap / a random bitmap / the EMPTY bitmap (nothing required: before the repair the
					// loop over the wrapped range of an empty MMR found nothing to stop at)
					for bm_kind in 0..3u8 {
						let with_bm = &(bm_kind > 0);
						let bm_idx: Vec<u32> = if bm_kind == 1 { (0..maxn as u32).filter(|_| rng.chance(1, 2)).collect() } else { vec![] };
						let bmo: Option<Bitmap> = if *with_bm { Some(bm_idx.iter().cloned().collect()) } else { None };
						let other = Hash::from_vec(&rng.bytes(32));
						let plain = Target { size: *msize, root, with: None };
						let with = Target { size: *msize, root, with: Some((*msize, other, rng.chance(1, 2))) };
						let (pp, pl, wi, bi, wb, ms) = ((*p).clone(), plain.clone(), with.clone(), bm_idx.clone(), *with_bm, *msize);
						let r = watchdog(if thorough { 8 } else { 4 }, move || {
							let seg = build::<Elem>(&pp)?;
							let bm: Option<Bitmap> = if wb { Some(bi.iter().cloned().collect()) } else { None };
							Some(four_calls(&seg, ms, bm.as_ref(), &pl, &wi))
						});
						st.inc(&format!("calls:{}:size={}", pname, if *msize == 0 { "0" } else { "below-first-position" }));
						let lhs = validate_lhs(p, &plain, bmo.as_ref());
						match r {
							None => {
								out.raw(&format!(
									"#ORACLE-FAIL C16 beyond: Segment::root / validate did not return within the watchdog time (hang) for a segment that does not exist in an MMR of size {}: identifier ({},{}) content={} bitmap={} :: {} (remaining cases skipped)",
									msize, height, idx, pname, if *with_bm { "some" } else { "none" }, lhs
								));
								hung = true;
								break 'outer;
							}
							Some(None) => st.inc("from_parts-asserts"),
							Some(Some(v)) => {
								out.line(&format!("seg root {} {} {}", msize, bm_str(bmo.as_ref()), parts_str(p)), &v[0]);
								out.line(&format!("seg fup {} {} {}", msize, bm_str(bmo.as_ref()), parts_str(p)), &v[1]);
								out.line(&lhs, &v[2]);
								out.line(&validate_lhs(p, &with, bmo.as_ref()), &v[3]);
								st.inc(&format!("verdict:{}", v[2].split(':').take(2).collect::<Vec<_>>().join(":")));
								if v.iter().any(|x| x != "err:nonexistent") {
									out.raw(&format!(
										"#ORACLE-FAIL C16 beyond: a segment whose identifier lies beyond the MMR must be refused with NonExistent by root / first_unpruned_parent / validate / validate_with, got {:?}: mmr_size={} ({} leaves) identifier ({},{}) leaf offset {} content={} :: {}",
										v, msize, pmmr::n_leaves(*msize), height, idx, off, pname, lhs
									));
								}
							}
						}
					}
				}
			}
		}
	}
	// the Desegmenter-level case: an archive header that claims output_mmr_size 0
	if !hung {
		use grin_chain::pibd_params::verif_hooks::set_segment_heights;
		let work = std::env::var("VERIF_WORK").expect("VERIF_WORK not set");
		let kit = Kit::new(&format!("{}/beyond_src", work));
		let mk_parts = |h: u8, idx: u64, rng: &mut Rng, hashes: usize| -> (SegmentIdentifier, Vec<u64>, Vec<Hash>, SegmentProof) {
			let hp: Vec<u64> = (0..hashes as u64).collect();
			let hs: Vec<Hash> = (0..hashes).map(|_| Hash::from_vec(&rng.bytes(32))).collect();
			let pr: Vec<Hash> = (0..rng.below(4)).map(|_| Hash::from_vec(&rng.bytes(32))).collect();
			(SegmentIdentifier { height: h, idx }, hp, hs, mk_proof(&pr))
		};
		for (ci, hs) in [None, Some((0u8, 1u8, 1u8, 1u8)), Some((2, 3, 3, 2))].iter().enumerate() {
			let (_, ho, hr, hk) = hs.unwrap_or((9, 11, 11, 11));
			let dest = Subject::new(&format!("{}/beyond_dst_{}", work, ci), &kit.genesis);
			let mut hdr = BlockHeader::default();
			hdr.version = grin_core::core::block::HeaderVersion(5);
			hdr.height = 77;
			hdr.output_mmr_size = 0;
			hdr.kernel_mmr_size = 0;
			hdr.output_root = Hash::from_vec(&rng.bytes(32));
			set_segment_heights(*hs);
			let deseg = dest.c().desegmenter(&hdr).unwrap();
			set_segment_heights(None);
			// zero outputs = zero bitmap chunks: the first apply_next_segments finalises the (empty)
			// bitmap, after which output / rangeproof segments are validated WITH a bitmap
			if ci > 0 {
				let d2 = deseg.clone();
				let r = watchdog(4, move || d2.write().as_mut().unwrap().apply_next_segments().is_ok());
				st.inc(&format!("desegmenter:apply-on-empty:{:?}", r));
				if r.is_none() {
					out.raw("#ORACLE-FAIL C16 beyond: apply_next_segments did not return for an archive header with output_mmr_size 0");
					hung = true;
				}
			}
			for idx in [0u64, 1, 5].iter() {
				if hung {
					break;
				}
				for nh in [0usize, 1, 3].iter() {
					for tree in ["output", "rangeproof", "kernel"].iter() {
						let h = match *tree { "output" => ho, "rangeproof" => hr, _ => hk };
						let (id, hp, hsh, proof) = mk_parts(h, *idx, rng, *nh);
						let d2 = deseg.clone();
						let t = tree.to_string();
						let r = watchdog(if thorough { 8 } else { 4 }, move || {
							let mut g = d2.write();
							let d = g.as_mut().unwrap();
							let res = match t.as_str() {
								"output" => d.add_output_segment(Segment::from_parts(id, hp, hsh, vec![], vec![], proof), None),
								"rangeproof" => d.add_rangeproof_segment(Segment::from_parts(id, hp, hsh, vec![], vec![], proof)),
								_ => d.add_kernel_segment(Segment::from_parts(id, hp, hsh, vec![], vec![], proof)),
							};
							match res {
								Ok(()) => "ok".to_string(),
								Err(e) => format!("err:{}", error_class(&e)),
							}
						});
						let tag = format!("archive header with output_mmr_size 0 / kernel_mmr_size 0, add_{}_segment of ({},{}) with {} hashes", tree, h, idx, nh);
						match r {
							None => {
								out.raw(&format!("#ORACLE-FAIL C16 beyond: the desegmenter did not return within the watchdog time (hang, with its lock held): {}", tag));
								hung = true;
							}
							Some(v) => {
								st.inc(&format!("desegmenter:add_{}:{}", tree, v));
								if v == "ok" {
									out.raw(&format!("#ORACLE-FAIL C16 beyond: a segment was accepted against an empty MMR: {}", tag));
								}
							}
						}
						if hung {
							break;
						}
					}
					if hung {
						break;
					}
				}
				if hung {
					break;
				}
			}
			if hung {
				break;
			}
		}
	}
	st.dump(out, "beyond");
	if hung {
		// a spinning thread cannot be stopped: end the process once everything is written
		out.flush();
		std::process::exit(0);
	}
}


// ---------------------------------------------------------------------------------------------
// zip: the state-archive path -- `util/src/zip.rs` (`create_zip`, `extract_files`),
// `txhashset::zip_read` / `zip_write` / `file_list`, `Chain::txhashset_read` / `txhashset_write` --
// and the life cycle of the cached `Segmenter` (`Chain::segmenter`) while the serving chain grows
// ---------------------------------------------------------------------------------------------

fn crc32(data: &[u8]) -> u32 {
	let mut c: u32 = 0xFFFF_FFFF;
	for b in data {
		c ^= *b as u32;
		for _ in 0..8 {
			c = if c & 1 != 0 { (c >> 1) ^ 0xEDB8_8320 } else { c >> 1 };
		}
	}
	!c
}

/// an entry of a zip archive (method "stored"), written / parsed by hand so that the archives the
/// receiving side is fed do not depend on the code under test
#[derive(Clone)]
struct ZEntry {
	name: String,
	data: Vec<u8>,
	crc_ok: bool,
}

fn write_zip(entries: &[ZEntry]) -> Vec<u8> {
	let mut o: Vec<u8> = vec![];
	let mut cd: Vec<u8> = vec![];
	for e in entries {
		let off = o.len() as u32;
		let crc = if e.crc_ok { crc32(&e.data) } else { crc32(&e.data) ^ 0x5a5a_5a5a };
		let n = e.name.as_bytes();
		let len = e.data.len() as u32;
		o.extend_from_slice(&0x0403_4b50u32.to_le_bytes());
		for v in [20u16, 0, 0, 0, 0x21] {
			o.extend_from_slice(&v.to_le_bytes());
		}
		o.extend_from_slice(&crc.to_le_bytes());
		o.extend_from_slice(&len.to_le_bytes());
		o.extend_from_slice(&len.to_le_bytes());
		o.extend_from_slice(&(n.len() as u16).to_le_bytes());
		o.extend_from_slice(&0u16.to_le_bytes());
		o.extend_from_slice(n);
		o.extend_from_slice(&e.data);
		cd.extend_from_slice(&0x0201_4b50u32.to_le_bytes());
		for v in [(3u16 << 8) | 20, 20, 0, 0, 0, 0x21] {
			cd.extend_from_slice(&v.to_le_bytes());
		}
		cd.extend_from_slice(&crc.to_le_bytes());
		cd.extend_from_slice(&len.to_le_bytes());
		cd.extend_from_slice(&len.to_le_bytes());
		cd.extend_from_slice(&(n.len() as u16).to_le_bytes());
		for v in [0u16, 0, 0, 0] {
			cd.extend_from_slice(&v.to_le_bytes());
		}
		cd.extend_from_slice(&(0o100644u32 << 16).to_le_bytes());
		cd.extend_from_slice(&off.to_le_bytes());
		cd.extend_from_slice(n);
	}
	let cd_off = o.len() as u32;
	o.extend_from_slice(&cd);
	o.extend_from_slice(&0x0605_4b50u32.to_le_bytes());
	for v in [0u16, 0, entries.len() as u16, entries.len() as u16] {
		o.extend_from_slice(&v.to_le_bytes());
	}
	o.extend_from_slice(&(cd.len() as u32).to_le_bytes());
	o.extend_from_slice(&cd_off.to_le_bytes());
	o.extend_from_slice(&0u16.to_le_bytes());
	o
}

fn parse_zip(b: &[u8]) -> Option<Vec<ZEntry>> {
	let rd16 = |i: usize| -> Option<usize> { b.get(i..i + 2).map(|x| u16::from_le_bytes([x[0], x[1]]) as usize) };
	let rd32 = |i: usize| -> Option<usize> { b.get(i..i + 4).map(|x| u32::from_le_bytes([x[0], x[1], x[2], x[3]]) as usize) };
	if b.len() < 22 {
		return None;
	}
	let mut eocd = b.len() - 22;
	loop {
		if rd32(eocd)? == 0x0605_4b50 {
			break;
		}
		if eocd == 0 {
			return None;
		}
		eocd -= 1;
	}
	let n = rd16(eocd + 10)?;
	let mut p = rd32(eocd + 16)?;
	let mut v = vec![];
	for _ in 0..n {
		if rd32(p)? != 0x0201_4b50 {
			return None;
		}
		let method = rd16(p + 10)?;
		let crc = rd32(p + 16)? as u32;
		let csize = rd32(p + 20)?;
		let nlen = rd16(p + 28)?;
		let elen = rd16(p + 30)?;
		let clen = rd16(p + 32)?;
		let off = rd32(p + 42)?;
		let name = String::from_utf8_lossy(b.get(p + 46..p + 46 + nlen)?).to_string();
		if method != 0 || rd32(off)? != 0x0403_4b50 {
			return None;
		}
		let lnlen = rd16(off + 26)?;
		let lelen = rd16(off + 28)?;
		let start = off + 30 + lnlen + lelen;
		let data = b.get(start..start + csize)?.to_vec();
		let crc_ok = crc32(&data) == crc;
		v.push(ZEntry { name, data, crc_ok });
		p += 46 + nlen + elen + clen;
	}
	Some(v)
}

fn walk_files(dir: &std::path::Path, base: &std::path::Path, m: &mut BTreeMap<String, Vec<u8>>) {
	if let Ok(rd) = std::fs::read_dir(dir) {
		for e in rd.flatten() {
			let p = e.path();
			if p.is_dir() {
				walk_files(&p, base, m);
			} else {
				let name = p.strip_prefix(base).map(|x| x.to_string_lossy().to_string()).unwrap_or_default();
				m.insert(name, std::fs::read(&p).unwrap_or_default());
			}
		}
	}
}

fn hx(b: &[u8]) -> String {
	if b.is_empty() {
		"-".to_string()
	} else {
		hex(b)
	}
}

fn entries_str(v: &[ZEntry]) -> String {
	let p: Vec<String> = v.iter().map(|e| format!("{}={}={}", e.name, hx(&e.data), e.crc_ok as u8)).collect();
	format!("[{}]", p.join(","))
}

/// `create_zip` / `extract_files` on small directory trees and hand-written archives, line by line
/// against `Model/SegZip.lean`
fn zip_util(out: &mut Out, rng: &mut Rng, st: &mut Stats, work: &str, cases: u64) {
	use std::path::PathBuf;
	let pool = ["a", "b/c", "b/d", "k/l/m", "output/pmmr_data.bin", "output/pmmr_hash.bin", "kernel/pmmr_data.bin", "x.y"];
	for case in 0..cases {
		// --- create_zip
		let root = PathBuf::from(format!("{}/zipmk/{}", work, case));
		let src = root.join("src");
		let _ = std::fs::create_dir_all(&src);
		let mut dir: BTreeMap<String, Vec<u8>> = BTreeMap::new();
		for p in pool.iter() {
			if rng.chance(3, 5) {
				let n = rng.below(6) as usize;
				let data = rng.bytes(n);
				let f = src.join(p);
				let _ = std::fs::create_dir_all(f.parent().unwrap());
				std::fs::write(&f, &data).unwrap();
				dir.insert(p.to_string(), data);
			}
		}
		let mut files: Vec<String> = vec![];
		let mut seen: BTreeSet<String> = BTreeSet::new();
		for _ in 0..rng.below(9) {
			let base = if rng.chance(1, 6) { (*rng.pick(&["nope", "b/zz", "output/pmmr_prun.bin"])).to_string() } else { (*rng.pick(&pool)).to_string() };
			if !seen.insert(base.clone()) {
				continue;
			}
			let deco = match rng.below(5) {
				0 => format!("./{}", base),
				1 => base.replace("/", "//"),
				2 => base.replace("/", "/./"),
				_ => base.clone(),
			};
			if deco != base {
				st.inc("mk:decorated-name");
			}
			files.push(deco);
		}
		let zp = root.join("out.zip");
		let res = {
			let f = std::fs::File::create(&zp).unwrap();
			catch(AssertUnwindSafe(|| grin_util::zip::create_zip(&f, &src, files.iter().map(PathBuf::from).collect())))
		};
		let rhs = match res {
			Ok(Ok(())) => match parse_zip(&std::fs::read(&zp).unwrap_or_default()) {
				Some(v) => {
					st.add("mk:entries", v.len() as u64);
					entries_str(&v)
				}
				None => "unparsable".to_string(),
			},
			Ok(Err(_)) => "err".to_string(),
			Err(_) => "panic".to_string(),
		};
		let d: Vec<String> = dir.iter().map(|(k, v)| format!("{}={}", k, hx(v))).collect();
		out.line(&format!("seg zip mk [{}] [{}]", d.join(","), files.join(",")), &rhs);
		st.inc("mk:cases");
		let _ = std::fs::remove_dir_all(&root);

		// --- extract_files from a hand-written archive
		let root = PathBuf::from(format!("{}/zipx/{}", work, case));
		let dest = root.join("in").join("dest");
		let _ = std::fs::create_dir_all(&dest);
		let evil = ["../evil", "/abs/evil", "q/../../evil2", "b\\c", "./x.y", "..", "k/l/m/", "../../../evil3", "output/../../evil4"];
		let mut entries: Vec<ZEntry> = vec![];
		for _ in 0..rng.below(8) {
			let name = if rng.chance(1, 3) { (*rng.pick(&evil)).to_string() } else { (*rng.pick(&pool)).to_string() };
			let n = rng.below(5) as usize;
			entries.push(ZEntry { name, data: rng.bytes(n), crc_ok: !rng.chance(1, 10) });
		}
		let mut files: Vec<String> = vec![];
		for e in &entries {
			if rng.chance(3, 5) {
				files.push(e.name.clone());
			}
		}
		for _ in 0..rng.below(3) {
			files.push((*rng.pick(&["nope", "b/zz", "../evil", "a"])).to_string());
		}
		for i in (1..files.len()).rev() {
			let j = rng.below(i as u64 + 1) as usize;
			files.swap(i, j);
		}
		let zp = root.join("in.zip");
		std::fs::write(&zp, write_zip(&entries)).unwrap();
		let res = {
			let f = std::fs::File::open(&zp).unwrap();
			catch(AssertUnwindSafe(|| grin_util::zip::extract_files(f, &dest, files.iter().map(PathBuf::from).collect())))
		};
		let _ = std::fs::remove_file(&zp);
		let mut found: BTreeMap<String, Vec<u8>> = BTreeMap::new();
		walk_files(&root, &root, &mut found);
		let mut shown: Vec<String> = vec![];
		for (k, v) in &found {
			match k.strip_prefix("in/dest/") {
				Some(rel) => shown.push(format!("{}={}", rel, hx(v))),
				None => {
					out.raw(&format!(
						"#ORACLE-FAIL C16 zip: extract_files wrote outside its destination directory: {} (archive {} files [{}])",
						k,
						entries_str(&entries),
						files.join(",")
					));
				}
			}
		}
		let listed: BTreeSet<&String> = files.iter().collect();
		let rhs = match res {
			Ok(Ok(())) => {
				st.add("x:files-written", shown.len() as u64);
				st.add("x:unlisted-entries-ignored", entries.iter().filter(|e| !listed.contains(&e.name)).count() as u64);
				format!("[{}]", shown.join(","))
			}
			Ok(Err(_)) => {
				st.inc("x:err");
				"err".to_string()
			}
			Err(_) => "panic".to_string(),
		};
		out.line(&format!("seg zip x {} [{}]", entries_str(&entries), files.join(",")), &rhs);
		st.inc("x:cases");
		let _ = std::fs::remove_dir_all(&root);
	}
}

/// what a node shows of its state: (head hash, roots, unspent outputs, full validation)
fn node_obs_c(c: &grin_chain::Chain, kit: &Kit) -> (Hash, String, Vec<usize>, bool) {
	let roots = {
		let ts = c.txhashset();
		let ts = ts.read();
		match ts.roots() {
			Ok(r) => format!(
				"{}:{}:{}:{}",
				hex(&r.output_roots.pmmr_root.as_bytes()[..8]),
				hex(&r.output_roots.bitmap_root.as_bytes()[..8]),
				hex(&r.rproof_root.as_bytes()[..8]),
				hex(&r.kernel_root.as_bytes()[..8])
			),
			Err(_) => "no-roots".to_string(),
		}
	};
	let mut u = vec![];
	for o in &kit.outs {
		if let Ok(Some(_)) = c.get_unspent(o.commit) {
			u.push(o.id);
		}
	}
	(c.head().unwrap().last_block_h, roots, u, c.validate(false).is_ok())
}
fn node_obs(s: &Subject, kit: &Kit) -> (Hash, String, Vec<usize>, bool) {
	node_obs_c(s.c(), kit)
}

/// a fresh node with the headers synced, in its own directory (the sandbox of `txhashset_write`
/// is `<parent of the chain dir>/tmp`)
fn fresh_receiver(work: &str, tag: &str, kit: &Kit, headers: &[grin_core::core::BlockHeader]) -> Option<Subject> {
	let dir = format!("{}/{}/chain", work, tag);
	let _ = std::fs::create_dir_all(&dir);
	let dest = Subject::new(&dir, &kit.genesis);
	if dest.sync_headers(headers) != "ok" {
		return None;
	}
	Some(dest)
}

/// one `Chain::txhashset_write` of the archive `bytes`: "replaced" | "ban" | "notneeded" | "failed:<class>" | "panic"
fn zip_write_once(dest: &Subject, work: &str, tag: &str, h: Hash, bytes: &[u8]) -> String {
	let path = format!("{}/{}/incoming.zip", work, tag);
	let _ = std::fs::create_dir_all(format!("{}/{}", work, tag));
	std::fs::write(&path, bytes).unwrap();
	let f = std::fs::File::open(&path).unwrap();
	let status = SyncState::new();
	let r = catch(AssertUnwindSafe(|| dest.c().txhashset_write(h, f, &status)));
	let _ = std::fs::remove_file(&path);
	match r {
		Ok(Ok(false)) => "replaced".to_string(),
		Ok(Ok(true)) => "ban".to_string(),
		Ok(Err(e)) => {
			let c = error_class(&e);
			if format!("{:?}", e).contains("not needed") {
				"notneeded".to_string()
			} else {
				format!("failed:{}", c)
			}
		}
		Err(m) => format!("panic:{}", m),
	}
}

/// up to `max_rounds` rounds of the sync loop against `segmenter`, every requested segment served
/// honestly and in the order asked: Ok(Some(rounds)) when `check_progress` reported completion,
/// Ok(None) when the rounds ran out first
fn pibd_rounds(dest: &Subject, segmenter: &grin_chain::txhashset::Segmenter, ah: &grin_core::core::BlockHeader, max_rounds: u64) -> Result<Option<u64>, String> {
	let deseg = dest.c().desegmenter(ah).map_err(|e| format!("desegmenter: {}", error_class(&e)))?;
	let mut rounds = 0u64;
	loop {
		if rounds >= max_rounds {
			return Ok(None);
		}
		rounds += 1;
		let mut guard = deseg.write();
		let d = guard.as_mut().ok_or("no desegmenter")?;
		for sid in d.next_desired_segments(15) {
			let id = sid.identifier;
			let r = match sid.segment_type {
				SegmentType::Bitmap => segmenter.bitmap_segment(id).and_then(|(s, r)| d.add_bitmap_segment(s, r)),
				SegmentType::Output => segmenter.output_segment(id).and_then(|(s, r)| d.add_output_segment(s, Some(r))),
				SegmentType::RangeProof => segmenter.rangeproof_segment(id).and_then(|s| d.add_rangeproof_segment(s)),
				SegmentType::Kernel => segmenter.kernel_segment(id).and_then(|s| d.add_kernel_segment(s)),
			};
			if let Err(e) = r {
				return Err(format!("honest {:?} segment ({},{}) not served / refused: {}", sid.segment_type, id.height, id.idx, error_class(&e)));
			}
		}
		match catch(AssertUnwindSafe(|| d.apply_next_segments())) {
			Ok(_) => {}
			Err(m) => return Err(format!("apply_next_segments panicked: {}", m)),
		}
		if matches!(d.check_progress(Arc::new(SyncState::new())), Ok(true)) {
			return Ok(Some(rounds));
		}
	}
}

/// the end of a state sync as `StateSync` does it: leaf sets, then `validate_complete_state`
fn pibd_finalize(dest: &Subject, ah: &grin_core::core::BlockHeader) -> Result<(), String> {
	let deseg = dest.c().desegmenter(ah).map_err(|e| format!("desegmenter: {}", error_class(&e)))?;
	let guard = deseg.read();
	let d = guard.as_ref().ok_or("no desegmenter")?;
	d.check_update_leaf_set_state().map_err(|e| format!("check_update_leaf_set_state: {}", error_class(&e)))?;
	match catch(AssertUnwindSafe(|| d.validate_complete_state(Arc::new(SyncState::new()), Arc::new(StopState::new())))) {
		Ok(Ok(())) => Ok(()),
		Ok(Err(e)) => Err(format!("validate_complete_state: {}", error_class(&e))),
		Err(m) => Err(format!("validate_complete_state panicked: {}", m)),
	}
}

/// state sync of a fresh node from `segmenter`: Ok(rounds) when `validate_complete_state` succeeded
fn plain_pibd(dest: &Subject, segmenter: &grin_chain::txhashset::Segmenter, ah: &grin_core::core::BlockHeader) -> Result<u64, String> {
	match pibd_rounds(dest, segmenter, ah, 80)? {
		Some(rounds) => pibd_finalize(dest, ah).map(|_| rounds),
		None => Err("not complete after 80 rounds of honest service".to_string()),
	}
}

/// what `StateSync::check_run` does when the sync state says "errored": forget everything and start again
fn pibd_restart(dest: &Subject, ah: &grin_core::core::BlockHeader) -> Result<(), String> {
	let deseg = dest.c().desegmenter(ah).map_err(|e| format!("desegmenter: {}", error_class(&e)))?;
	if let Some(d) = deseg.write().as_mut() {
		d.reset();
	}
	dest.c().reset_pibd_head().map_err(|e| format!("reset_pibd_head: {}", error_class(&e)))?;
	dest.c().reset_chain_head_to_genesis().map_err(|e| format!("reset_chain_head_to_genesis: {}", error_class(&e)))?;
	dest.c().reset_prune_lists().map_err(|e| format!("reset_prune_lists: {}", error_class(&e)))?;
	Ok(())
}

/// grow the source chain by `n` blocks on top of `tip`, each spending up to two outputs that are
/// unspent (and mature) at the head -- outputs the archive header still counts as unspent
fn grow(kit: &mut Kit, rng: &mut Rng, st: &mut Stats, tip: &mut usize, trunk: &mut Vec<usize>, n: u64) {
	for _ in 0..n {
		let h = kit.blks[*tip].height + 1;
		let mut specs = vec![];
		let mut used: BTreeSet<usize> = BTreeSet::new();
		for _ in 0..2 {
			let cands: Vec<usize> = kit
				.outs
				.iter()
				.filter(|o| o.value > 5000 && !used.contains(&o.id))
				.filter(|o| match kit.builder().get_unspent(o.commit) {
					Ok(Some((_, cp))) => !o.coinbase || h >= cp.height + 3,
					_ => false,
				})
				.map(|o| o.id)
				.collect();
			if cands.is_empty() {
				break;
			}
			// prefer old outputs: they sit below the archive header
			let o = cands[rng.below((cands.len() as u64 + 1) / 2) as usize];
			used.insert(o);
			let v = kit.outs[o].value;
			let a = rng.range(1, v / 2);
			specs.push(TxSpec { inputs: vec![o], outputs: vec![(a, None), (v - a - 200, None)], kernel: KSpec::Plain(200) });
		}
		match kit.new_block(*tip, 2, &specs) {
			Ok(id) => {
				*tip = id;
				trunk.push(id);
				st.add("grow:spends", specs.len() as u64);
			}
			Err(e) => st.inc(&format!("generator:{}", e)),
		}
	}
}

fn zip_mode(out: &mut Out, rng: &mut Rng, thorough: bool) {
	let work = std::env::var("VERIF_WORK").expect("VERIF_WORK not set");
	let mut st = Stats::default();
	let t0 = std::time::Instant::now();
	zip_util(out, rng, &mut st, &work, if thorough { 4000 } else { 400 });
	st.add("millis:util", t0.elapsed().as_millis() as u64);

	let scenarios: Vec<(&str, u64, bool)> = if thorough { vec![("compacted", 90, true), ("uncompacted", 46, false), ("compacted-70", 70, true)] } else { vec![("compacted", 90, true)] };
	for (name, n_trunk, compact) in scenarios {
		let mut kit = Kit::new(&format!("{}/zip_src_{}/chain", work, name));
		let mut trunk = build_trunk(&mut kit, rng, &mut st, n_trunk, "small", None);
		let mut tip = *trunk.last().unwrap();
		if compact {
			if let Err(e) = kit.builder().compact() {
				out.raw(&format!("#ORACLE-FAIL C16 zip harness: source compaction failed: {}", error_class(&e)));
			}
		}
		st.add("millis:source-built", t0.elapsed().as_millis() as u64);
		let archive = kit.builder().txhashset_archive_header().unwrap();
		if archive.height == 0 {
			out.raw("#ORACLE-FAIL C16 zip harness: no archive header above genesis");
			continue;
		}
		st.add(&format!("{}:archive-height", name), archive.height);
		st.add(&format!("{}:head-height", name), kit.blks[tip].height);
		// reference: a node that processed every block up to the archive header
		let twin = Subject::new(&format!("{}/zip_twin_{}/chain", work, name), &kit.genesis);
		for i in &trunk[1..] {
			if kit.blks[*i].height <= archive.height {
				twin.deliver_block(&kit.blks[*i].block);
			}
		}
		let ref_obs = node_obs(&twin, &kit);
		st.add(&format!("{}:unspent-at-archive", name), ref_obs.2.len() as u64);
		let headers: Vec<_> = trunk[1..].iter().map(|i| kit.blks[*i].block.header.clone()).collect();

		// ---- serving side: Chain::txhashset_read (twice: the second call reuses the zip)
		let read = |kit: &Kit| -> Result<(u64, u64, Vec<u8>), String> {
			use std::io::Read;
			match catch(AssertUnwindSafe(|| kit.builder().txhashset_read(archive.hash()))) {
				Ok(Ok((o, k, mut f))) => {
					let mut b = vec![];
					f.read_to_end(&mut b).map_err(|e| format!("read: {}", e))?;
					Ok((o, k, b))
				}
				Ok(Err(e)) => Err(format!("err:{}", error_class(&e))),
				Err(m) => Err(format!("panic:{}", m)),
			}
		};
		let src_before = node_obs_c(kit.builder(), &kit);
		let (o_sz, k_sz, bytes) = match read(&kit) {
			Ok(x) => x,
			Err(e) => {
				out.raw(&format!("#ORACLE-FAIL C16 zip {}: Chain::txhashset_read of the archive header failed: {}", name, e));
				continue;
			}
		};
		if (o_sz, k_sz) != (archive.output_mmr_size, archive.kernel_mmr_size) {
			out.raw(&format!(
				"#ORACLE-FAIL C16 zip {}: txhashset_read answered sizes ({},{}) but the archive header has ({},{})",
				name, o_sz, k_sz, archive.output_mmr_size, archive.kernel_mmr_size
			));
		}
		match read(&kit) {
			Ok((_, _, b2)) if b2 == bytes => st.inc("read:second-call-same-bytes"),
			Ok(_) => out.raw(&format!("#ORACLE-FAIL C16 zip {}: a second txhashset_read for the same header returned another archive", name)),
			Err(e) => out.raw(&format!("#ORACLE-FAIL C16 zip {}: a second txhashset_read failed: {}", name, e)),
		}
		let src_after = node_obs_c(kit.builder(), &kit);
		if src_before != src_after {
			out.raw(&format!("#ORACLE-FAIL C16 zip {}: txhashset_read changed the serving node's own state (head / roots / unspent set / validation)", name));
		}
		let honest = match parse_zip(&bytes) {
			Some(v) => v,
			None => {
				out.raw(&format!("#ORACLE-FAIL C16 zip {}: the archive txhashset_read built cannot be parsed as a stored zip", name));
				continue;
			}
		};
		st.add(&format!("{}:archive-bytes", name), bytes.len() as u64);
		// the entry names against `file_list` (model): exactly the listed files that exist
		{
			let mut present: BTreeMap<String, Vec<u8>> = BTreeMap::new();
			let base = std::path::Path::new(&kit.dir).join("txhashset");
			walk_files(&base, &base, &mut present);
			let names: Vec<String> = present.keys().cloned().collect();
			let got: Vec<String> = honest.iter().map(|e| e.name.clone()).collect();
			out.line(&format!("seg zip archive {} [{}]", archive.hash(), names.join(",")), &format!("[{}]", got.join(",")));
			for e in &honest {
				if !e.crc_ok {
					out.raw(&format!("#ORACLE-FAIL C16 zip {}: entry {} of the served archive has a wrong CRC", name, e.name));
				}
			}
		}
		let leaf_o = format!("output/pmmr_leaf.bin.{}", archive.hash());
		let leaf_r = format!("rangeproof/pmmr_leaf.bin.{}", archive.hash());
		let live_leaf = |tree: &str| -> Vec<u8> { std::fs::read(std::path::Path::new(&kit.dir).join("txhashset").join(tree).join("pmmr_leaf.bin")).unwrap_or_default() };
		let get = |v: &Vec<ZEntry>, n: &str| -> Option<usize> { v.iter().position(|e| e.name == n) };

		let seg_a0 = match kit.builder().segmenter() {
			Ok(s) => s,
			Err(e) => {
				out.raw(&format!("#ORACLE-FAIL C16 zip {}: Chain::segmenter failed: {}", name, error_class(&e)));
				continue;
			}
		};
		st.add("millis:archive-read", t0.elapsed().as_millis() as u64);
		// ---- receiving side
		// (variant name, archive, must the honest state result? Some(true) = must be accepted,
		//  Some(false) = must be refused, None = either, as long as an accepted state is the twin's)
		let mut variants: Vec<(String, Vec<u8>, Option<bool>)> = vec![];
		variants.push(("honest-as-served".into(), bytes.clone(), Some(true)));
		variants.push(("honest-rewritten".into(), write_zip(&honest), Some(true)));
		{
			// extra entries: ignored, never written anywhere
			let mut v = honest.clone();
			v.insert(0, ZEntry { name: "../../evil.bin".into(), data: vec![1, 2, 3], crc_ok: true });
			v.push(ZEntry { name: "output/evil.bin".into(), data: vec![4, 5], crc_ok: true });
			v.push(ZEntry { name: "/abs/evil.bin".into(), data: vec![6], crc_ok: false });
			variants.push(("extra-entries".into(), write_zip(&v), Some(true)));
		}
		let drop_entry = |n: &str| -> Option<Vec<u8>> {
			let mut v = honest.clone();
			get(&v, n).map(|i| {
				v.remove(i);
				write_zip(&v)
			})
		};
		if let Some(b) = drop_entry(&leaf_o) {
			variants.push(("drop-output-leafset".into(), b, Some(false)));
		}
		{
			// the leaf sets of the serving node's HEAD instead of the ones rewound to the archive header
			let mut v = honest.clone();
			let mut changed = false;
			if let Some(i) = get(&v, &leaf_o) {
				let l = live_leaf("output");
				changed |= l != v[i].data;
				v[i].data = l;
			}
			if let Some(i) = get(&v, &leaf_r) {
				v[i].data = live_leaf("rangeproof");
			}
			if changed {
				variants.push(("leafsets-of-the-head".into(), write_zip(&v), Some(false)));
			} else {
				st.inc("variant-skipped:head-leafset-equals-archive-leafset");
			}
		}
		let flip_in = |n: &str, lo: usize, hi: usize, rng: &mut Rng| -> Option<Vec<u8>> {
			let mut v = honest.clone();
			let i = get(&v, n)?;
			let hi = hi.min(v[i].data.len());
			if lo >= hi {
				return None;
			}
			let at = lo + rng.below((hi - lo) as u64) as usize;
			v[i].data[at] ^= 1 << rng.below(8);
			Some(write_zip(&v))
		};
		let out_hash_len = archive.output_mmr_size as usize * 32;
		let ker_hash_len = archive.kernel_mmr_size as usize * 32;
		// NB after compaction the hash files are shorter than size * 32 (pruned positions are gone)
		if let Some(b) = flip_in("kernel/pmmr_hash.bin", 0, ker_hash_len, rng) {
			variants.push(("flip-kernel-hash".into(), b, Some(false)));
		}
		if let Some(b) = flip_in("kernel/pmmr_data.bin", 0, 100, rng) {
			variants.push(("flip-kernel-data".into(), b, None));
		}
		let rest: Vec<(&str, Option<Vec<u8>>, Option<bool>)> = vec![
			("drop-rangeproof-leafset", drop_entry(&leaf_r), None),
			("drop-output-prunelist", drop_entry("output/pmmr_prun.bin"), None),
			("drop-kernel-data", drop_entry("kernel/pmmr_data.bin"), Some(false)),
			("drop-output-hash", drop_entry("output/pmmr_hash.bin"), Some(false)),
			("flip-output-hash", flip_in("output/pmmr_hash.bin", 0, out_hash_len / 2, rng), None),
			("flip-output-data", flip_in("output/pmmr_data.bin", 0, 200, rng), None),
			("flip-rangeproof-data", flip_in("rangeproof/pmmr_data.bin", 0, 2000, rng), None),
			("flip-rangeproof-hash", flip_in("rangeproof/pmmr_hash.bin", 0, out_hash_len / 2, rng), None),
			("flip-output-leafset", flip_in(&leaf_o, 0, usize::MAX, rng), None),
			("truncated", Some(bytes[..bytes.len() / 2].to_vec()), Some(false)),
			("garbage", Some(rng.bytes(300)), Some(false)),
			("empty-archive", Some(write_zip(&[])), Some(false)),
			("bad-crc-output-data", {
				let mut v = honest.clone();
				get(&v, "output/pmmr_data.bin").map(|i| {
					v[i].crc_ok = false;
					write_zip(&v)
				})
			}, Some(false)),
		];
		let rest: Vec<(String, Vec<u8>, Option<bool>)> = rest.into_iter().filter_map(|(n, b, m)| b.map(|b| (n.to_string(), b, m))).collect();
		variants.extend(rest);

		for (vi, (vname, vbytes, must)) in variants.iter().enumerate() {
			let tag = format!("zip_dst_{}_{}", name, vi);
			let dest = match fresh_receiver(&work, &tag, &kit, &headers) {
				Some(d) => d,
				None => {
					out.raw("#ORACLE-FAIL C16 zip harness: header sync failed");
					continue;
				}
			};
			let before = node_obs(&dest, &kit);
			let r = zip_write_once(&dest, &work, &tag, archive.hash(), vbytes);
			st.inc(&format!("write[{}]:{}", vname, r.split(':').next().unwrap_or("")));
			if r.starts_with("panic") {
				out.raw(&format!("#ORACLE-FAIL C16 zip {}: txhashset_write panicked on archive variant {}: {}", name, vname, r));
			}
			// nothing may be written outside the node's own directories
			{
				let base = std::path::PathBuf::from(format!("{}/{}", work, tag));
				let mut all: BTreeMap<String, Vec<u8>> = BTreeMap::new();
				walk_files(&base, &base, &mut all);
				let wbase = std::path::PathBuf::from(&work);
				let mut top: BTreeMap<String, Vec<u8>> = BTreeMap::new();
				if let Ok(rd) = std::fs::read_dir(&wbase) {
					for e in rd.flatten() {
						if e.path().is_file() {
							top.insert(e.path().to_string_lossy().to_string(), vec![]);
						}
					}
				}
				for k in all.keys().chain(top.keys()) {
					if k.contains("evil") {
						out.raw(&format!("#ORACLE-FAIL C16 zip {}: an entry that is not on the file list was extracted: {} (variant {})", name, k, vname));
					}
				}
			}
			let after = node_obs(&dest, &kit);
			if r == "replaced" {
				if after != ref_obs {
					out.raw(&format!(
						"#ORACLE-FAIL C16 zip {}: txhashset_write accepted archive variant {} and the node's state differs from a node that processed every block: head {} vs {}, roots {} vs {}, unspent {:?} vs {:?}, full validation {} vs {}",
						name, vname, after.0, ref_obs.0, after.1, ref_obs.1, after.2, ref_obs.2, after.3, ref_obs.3
					));
				}
				// the roots it finalised are the header's
				let roots_ok = dest.c().txhashset().read().roots().map(|r| r.validate(&archive).is_ok()).unwrap_or(false);
				if !roots_ok {
					out.raw(&format!("#ORACLE-FAIL C16 zip {}: state finalised by txhashset_write (variant {}) has roots other than the archive header's", name, vname));
				}
				if *must == Some(false) {
					out.raw(&format!("#ORACLE-FAIL C16 zip {}: archive variant {} was accepted", name, vname));
				}
				if vname.starts_with("honest") {
					out.line("seg zip write 1 1 1", "replaced");
				}
			} else {
				if after != before {
					out.raw(&format!(
						"#ORACLE-FAIL C16 zip {}: txhashset_write refused archive variant {} ({}) but the node's state changed: head {} -> {}, roots {} -> {}",
						name, vname, r, before.0, after.0, before.1, after.1
					));
				}
				if *must == Some(true) {
					out.raw(&format!("#ORACLE-FAIL C16 zip {}: honest archive (variant {}) was refused: {}", name, vname, r));
					if vname.starts_with("honest") {
						out.line("seg zip write 1 1 1", &r);
					}
				} else {
					// a refused archive must not spoil the next attempt: the honest one still goes through
					let r2 = zip_write_once(&dest, &work, &tag, archive.hash(), &bytes);
					st.inc(&format!("retry-after[{}]:{}", vname, r2.split(':').next().unwrap_or("")));
					let after2 = node_obs(&dest, &kit);
					if r2 != "replaced" || after2 != ref_obs {
						out.raw(&format!(
							"#ORACLE-FAIL C16 zip {}: after the refused archive variant {} the honest archive no longer leads to the state of a node that processed every block: {} (roots {} vs {})",
							name, vname, r2, after2.1, ref_obs.1
						));
					}
				}
			}
			drop(dest);
			let _ = std::fs::remove_dir_all(format!("{}/{}", work, tag));
		}
		// not needed: a node that has the blocks (the twin: its fork point is its header head)
		{
			let before = node_obs(&twin, &kit);
			let r = zip_write_once(&twin, &work, &format!("zip_twin_{}", name), archive.hash(), &bytes);
			out.line("seg zip write 0 1 1", &r);
			// ... and the "not needed" exit comes before the header lookup
			let r = zip_write_once(&twin, &work, &format!("zip_twin_{}", name), Hash::from_vec(&rng.bytes(32)), &bytes);
			out.line("seg zip write 0 0 1", &r);
			if node_obs(&twin, &kit) != before {
				out.raw(&format!("#ORACLE-FAIL C16 zip {}: an archive that was not needed changed the node's state", name));
			}
		}
		// unknown header: "bannable"
		{
			let tag = format!("zip_dst_{}_unknown", name);
			if let Some(dest) = fresh_receiver(&work, &tag, &kit, &headers) {
				let before = node_obs(&dest, &kit);
				let r = zip_write_once(&dest, &work, &tag, Hash::from_vec(&rng.bytes(32)), &bytes);
				out.line("seg zip write 1 0 1", &r);
				if node_obs(&dest, &kit) != before {
					out.raw(&format!("#ORACLE-FAIL C16 zip {}: an archive for an unknown header changed the node's state", name));
				}
			}
			let _ = std::fs::remove_dir_all(format!("{}/{}", work, tag));
		}

		// ---- an interrupted / errored PIBD attempt, then: restart (as StateSync does), or fall back to the archive
		{
			let ah = archive.clone();
			// assemble with small segments so that the attempt can be cut anywhere
			grin_chain::pibd_params::verif_hooks::set_segment_heights(Some((0, 2, 2, 1)));
			let cuts: Vec<u64> = if thorough { vec![1, 2, 3, 5, 9, 200] } else { vec![2, 5, 200] };
			for (ci, cut) in cuts.iter().enumerate() {
				for fallback in [false, true] {
					let tag = format!("restart_dst_{}_{}_{}", name, ci, fallback as u8);
					let dest = match fresh_receiver(&work, &tag, &kit, &headers) {
						Some(d) => d,
						None => continue,
					};
					let first = pibd_rounds(&dest, &seg_a0, &ah, *cut);
					let how = match &first {
						Ok(Some(_)) => "all-segments-applied",
						Ok(None) => "cut-midway",
						Err(_) => "attempt-failed",
					};
					if let Err(e) = &first {
						out.raw(&format!("#ORACLE-FAIL C16 restart {}: honest state sync with small segments failed: {}", name, e));
					}
					st.inc(&format!("restart:first-attempt:{}", how));
					let res: Result<(), String> = if fallback {
						// give up on PIBD: the state archive on top of whatever the attempt left behind
						let r = zip_write_once(&dest, &work, &tag, ah.hash(), &bytes);
						if r == "replaced" {
							Ok(())
						} else {
							Err(format!("txhashset_write after an abandoned PIBD attempt: {}", r))
						}
					} else {
						pibd_restart(&dest, &ah).and_then(|_| plain_pibd(&dest, &seg_a0, &ah).map(|_| ()))
					};
					let got = node_obs(&dest, &kit);
					match res {
						Ok(()) if got == ref_obs => st.inc(&format!("restart:{}:equal-to-block-by-block", if fallback { "archive-fallback" } else { "pibd-again" })),
						Ok(()) => out.raw(&format!(
							"#ORACLE-FAIL C16 restart {}: PIBD attempt cut after {} rounds ({}), then {}: final state differs from block-by-block: roots {} vs {}, unspent {:?} vs {:?}, validation {} vs {}",
							name, cut, how, if fallback { "the state archive" } else { "reset + PIBD again" }, got.1, ref_obs.1, got.2, ref_obs.2, got.3, ref_obs.3
						)),
						Err(e) => out.raw(&format!(
							"#ORACLE-FAIL C16 restart {}: PIBD attempt cut after {} rounds ({}), then {}: {}",
							name, cut, how, if fallback { "the state archive" } else { "reset + PIBD again" }, e
						)),
					}
					drop(dest);
					let _ = std::fs::remove_dir_all(format!("{}/{}", work, tag));
				}
			}
			grin_chain::pibd_params::verif_hooks::set_segment_heights(None);
		}
		st.add("millis:variants-done", t0.elapsed().as_millis() as u64);
		// ---- life cycle of the cached segmenter while the serving chain grows
		let seg_a = match kit.builder().segmenter() {
			Ok(s) => s,
			Err(e) => {
				out.raw(&format!("#ORACLE-FAIL C16 zip {}: Chain::segmenter failed: {}", name, error_class(&e)));
				continue;
			}
		};
		if seg_a.header().hash() != archive.hash() {
			out.raw(&format!("#ORACLE-FAIL C16 lifecycle {}: the segmenter's header is not the archive header", name));
		}
		let mut twin_at = archive.height;
		let mut prev_archive = archive.clone();
		// NB the source is compacted again only at heads with (head - 20) % 10 == 0: under AutomatedTesting
		// state_sync_threshold == cut_through_horizon == 20, so at any other head the archive header lies
		// BELOW the compaction horizon and the source has (rightly) compacted away outputs that were
		// unspent at the archive header -- unreachable with mainnet parameters (2 days vs 1 week)
		let steps: Vec<u64> = if thorough { vec![4, 6, 3, 7, 5] } else { vec![4, 6] };
		for (si, n_blocks) in steps.iter().enumerate() {
			grow(&mut kit, rng, &mut st, &mut tip, &mut trunk, *n_blocks);
			let compact_now = &(compact && kit.blks[tip].height % 10 == 0);
			if *compact_now {
				st.inc("lifecycle:source-compacted-again");
				if let Err(e) = kit.builder().compact() {
					out.raw(&format!("#ORACLE-FAIL C16 lifecycle harness: source compaction failed: {}", error_class(&e)));
				}
			}
			let now_archive = kit.builder().txhashset_archive_header().unwrap();
			let moved = now_archive.hash() != prev_archive.hash();
			st.inc(&format!("lifecycle:archive-header-{}", if moved { "moved" } else { "same" }));
			let sg = match kit.builder().segmenter() {
				Ok(s) => s,
				Err(e) => {
					out.raw(&format!("#ORACLE-FAIL C16 lifecycle {}: Chain::segmenter failed after the chain grew to height {}: {}", name, kit.blks[tip].height, error_class(&e)));
					break;
				}
			};
			if sg.header().hash() != now_archive.hash() {
				out.raw(&format!(
					"#ORACLE-FAIL C16 lifecycle {}: head at {}: Chain::segmenter serves the header at height {} but the archive header is at height {} (stale cached segmenter)",
					name,
					kit.blks[tip].height,
					sg.header().height,
					now_archive.height
				));
			}
			// the twin follows the archive header
			for i in &trunk[1..] {
				let hh = kit.blks[*i].height;
				if hh > twin_at && hh <= now_archive.height {
					twin.deliver_block(&kit.blks[*i].block);
				}
			}
			twin_at = twin_at.max(now_archive.height);
			let ref_now = node_obs(&twin, &kit);
			let headers: Vec<_> = trunk[1..].iter().map(|i| kit.blks[*i].block.header.clone()).collect();
			let tag = format!("life_dst_{}_{}", name, si);
			if let Some(dest) = fresh_receiver(&work, &tag, &kit, &headers) {
				let ah = dest.c().txhashset_archive_header_header_only().unwrap();
				if ah.hash() != now_archive.hash() {
					out.raw("#ORACLE-FAIL C16 lifecycle harness: archive headers of source and receiver differ");
				}
				match plain_pibd(&dest, &sg, &ah) {
					Ok(rounds) => {
						st.add("lifecycle:rounds", rounds);
						let got = node_obs(&dest, &kit);
						if got != ref_now {
							out.raw(&format!(
								"#ORACLE-FAIL C16 lifecycle {}: head at {} (archive header at {}, {} blocks with spends after the first segmenter was made{}): state synced from Chain::segmenter differs from block-by-block: roots {} vs {}, unspent {:?} vs {:?}, validation {} vs {}",
								name,
								kit.blks[tip].height,
								now_archive.height,
								kit.blks[tip].height - n_trunk,
								if *compact_now { ", compacted" } else { "" },
								got.1,
								ref_now.1,
								got.2,
								ref_now.2,
								got.3,
								ref_now.3
							));
						} else {
							st.inc("lifecycle:receivers-equal-to-block-by-block");
						}
					}
					Err(e) => out.raw(&format!(
						"#ORACLE-FAIL C16 lifecycle {}: head at {} (archive header at {}): honest state sync from Chain::segmenter failed: {}",
						name,
						kit.blks[tip].height,
						now_archive.height,
						e
					)),
				}
				// the same archive through the zip path
				match catch(AssertUnwindSafe(|| kit.builder().txhashset_read(now_archive.hash()))) {
					Ok(Ok((_, _, mut f))) => {
						use std::io::Read;
						let mut b = vec![];
						let _ = f.read_to_end(&mut b);
						let tag2 = format!("life_zip_{}_{}", name, si);
						if let Some(d2) = fresh_receiver(&work, &tag2, &kit, &headers) {
							let r = zip_write_once(&d2, &work, &tag2, now_archive.hash(), &b);
							let got = node_obs(&d2, &kit);
							if r != "replaced" || got != ref_now {
								out.raw(&format!(
									"#ORACLE-FAIL C16 lifecycle {}: head at {} (archive header at {}): the state archive served by txhashset_read gives {} and roots {} vs block-by-block {}",
									name,
									kit.blks[tip].height,
									now_archive.height,
									r,
									got.1,
									ref_now.1
								));
							} else {
								st.inc("lifecycle:zip-receivers-equal-to-block-by-block");
							}
						}
						let _ = std::fs::remove_dir_all(format!("{}/{}", work, tag2));
					}
					Ok(Err(e)) => out.raw(&format!("#ORACLE-FAIL C16 lifecycle {}: txhashset_read failed after the chain grew: {}", name, error_class(&e))),
					Err(m) => out.raw(&format!("#ORACLE-FAIL C16 lifecycle {}: txhashset_read panicked: {}", name, m)),
				}
			}
			let _ = std::fs::remove_dir_all(format!("{}/{}", work, tag));
			prev_archive = now_archive;
		}
	}
	st.add("millis:total", t0.elapsed().as_millis() as u64);
	st.dump(out, "zip");
}

fn main() {
	if std::env::var("VERIF_DEBUG").is_err() {
		quiet_panics();
	}
	let args: Vec<String> = std::env::args().collect();
	let mode = args.get(1).map(|s| s.as_str()).unwrap_or("all");
	let mut rng = Rng::new(seed_from_env());
	let thorough = tier_thorough();
	let mut out = Out::stdout();
	if mode == "vec" || mode == "all" {
		vec_mode(&mut out, &mut rng, thorough);
	}
	if mode == "store" || mode == "all" {
		store_mode(&mut out, &mut rng, thorough);
	}
	if mode == "bitmap" || mode == "all" {
		bitmap_mode(&mut out, &mut rng, thorough);
	}
	if mode == "e2e" {
		e2e_mode(&mut out, &mut rng, thorough);
	}
	if mode == "assembly" {
		assembly_mode(&mut out, &mut rng, thorough);
	}
	if mode == "zip" {
		zip_mode(&mut out, &mut rng, thorough);
	}
	if mode == "chunks" {
		chunks_mode(&mut out, &mut rng, thorough);
	}
	if mode == "beyond" {
		beyond_mode(&mut out, &mut rng, thorough);
	}
	if mode == "ident" || mode == "all" {
		ident_mode(&mut out, &mut rng, thorough);
	}
	if mode == "leafless" || mode == "all" {
		leafless_mode(&mut out, &mut rng, thorough);
	}
	if mode == "ancestor" || mode == "all" {
		ancestor_mode(&mut out, &mut rng, thorough);
	}
	out.flush();
}

#[allow(dead_code)]
fn _unused() {
	let _ = Elem(vec![]).hash();
}
