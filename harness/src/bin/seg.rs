//! C16 correspondence: PMMR segments (`core/src/core/pmmr/segment.rs`).
//!
//! `vec`    : segments over `PMMR<VecBackend>` for every size, heights 0..=4 and every index:
//!            `from_pmmr`, `root`, `first_unpruned_parent`, `validate`, `validate_with`, without
//!            bitmap and with random bitmaps (all data on file), every single-element corruption.
//! `store`  : the same over the real prunable `PMMRBackend` in prune states reached through the
//!            store's usage protocol: no spends, random spends, spent aligned subtrees, after
//!            `check_compact`, spends after compaction, spends after the bitmap snapshot.
//! `ident`  : identifiers with an empty / out-of-range / wrapped range (`catch`).
//! `bitmap` : `BitmapSegment` <-> `Segment<BitmapChunk>` and validation against the accumulator.
//! `e2e`    : source chain -> segmenter -> desegmenter of a fresh chain (random order, duplicates,
//!            tampered segments) -> `validate_complete_state` -> compare with the source.
//!
//! The harness evaluates the property's oracle on the implementation for every case (honest
//! segment validates; a corruption of anything the reconstruction depends on is rejected; a leaf
//! the bitmap marks unspent cannot be omitted) and prints a sample of the cases as protocol lines
//! for the model.
use croaring::Bitmap;
use grin_core::core::hash::{Hash, Hashed};
use grin_core::core::pmmr::segment::{Segment, SegmentError, SegmentIdentifier, SegmentProof};
use grin_core::core::pmmr::{self, Backend, ReadablePMMR, ReadonlyPMMR, VecBackend, PMMR};
use grin_core::ser::{self, PMMRIndexHashable, ProtocolVersion};
use grin_store::pmmr::PMMRBackend;
use gvharness::elem::Elem;
use gvharness::*;
use std::collections::{BTreeMap, BTreeSet};
use std::panic::AssertUnwindSafe;

#[derive(Default)]
struct Stats {
	c: BTreeMap<String, u64>,
}
impl Stats {
	fn inc(&mut self, k: &str) {
		*self.c.entry(k.to_string()).or_insert(0) += 1;
	}
	fn add(&mut self, k: &str, n: u64) {
		*self.c.entry(k.to_string()).or_insert(0) += n;
	}
	fn dump(&self, out: &mut Out, tag: &str) {
		let parts: Vec<String> = self.c.iter().map(|(k, v)| format!("{}={}", k, v)).collect();
		out.raw(&format!("#STAT [{}] {}", tag, parts.join(" ")));
	}
}

fn err_str(e: &SegmentError) -> String {
	match e {
		SegmentError::MissingLeaf(p) => format!("err:missingleaf:{}", p),
		SegmentError::MissingHash(p) => format!("err:missinghash:{}", p),
		SegmentError::NonExistent => "err:nonexistent".to_string(),
		SegmentError::Mismatch => "err:mismatch".to_string(),
	}
}

fn hashes(v: &[Hash]) -> String {
	let parts: Vec<String> = v.iter().map(|h| hex(h.as_bytes())).collect();
	format!("[{}]", parts.join(","))
}

/// the parts of a segment as plain vectors (so that they can be corrupted freely)
#[derive(Clone, Debug, PartialEq)]
struct Parts {
	height: u8,
	idx: u64,
	hash_pos: Vec<u64>,
	hashes: Vec<Hash>,
	leaf_pos: Vec<u64>,
	leaf_data: Vec<Vec<u8>>,
	proof: Vec<Hash>,
}

fn proof_hashes(p: &SegmentProof) -> Vec<Hash> {
	// SegmentProof has no accessor for its hashes: go through its serialisation
	let bytes = ser::ser_vec(p, ProtocolVersion(1)).unwrap();
	let n = u64::from_be_bytes(bytes[0..8].try_into().unwrap()) as usize;
	(0..n).map(|i| Hash::from_vec(&bytes[8 + 32 * i..8 + 32 * (i + 1)])).collect()
}

fn mk_proof(hs: &[Hash]) -> SegmentProof {
	let mut bytes = (hs.len() as u64).to_be_bytes().to_vec();
	for h in hs {
		bytes.extend_from_slice(h.as_bytes());
	}
	ser::deserialize_default(&mut &bytes[..]).unwrap()
}

trait LeafBytes: Clone {
	fn to_bytes(&self) -> Vec<u8>;
	fn from_bytes(b: &[u8]) -> Self;
}
impl LeafBytes for Elem {
	fn to_bytes(&self) -> Vec<u8> {
		self.0.clone()
	}
	fn from_bytes(b: &[u8]) -> Self {
		Elem(b.to_vec())
	}
}

fn parts_of<T: LeafBytes>(s: &Segment<T>) -> Parts {
	let (id, hash_pos, hashes, leaf_pos, leaf_data, proof) = s.clone().parts();
	Parts {
		height: id.height,
		idx: id.idx,
		hash_pos,
		hashes,
		leaf_pos,
		leaf_data: leaf_data.iter().map(|d| d.to_bytes()).collect(),
		proof: proof_hashes(&proof),
	}
}

/// `Segment::from_parts` asserts on lengths / ordering: None when it does
fn build<T: LeafBytes>(p: &Parts) -> Option<Segment<T>> {
	let p = p.clone();
	catch(AssertUnwindSafe(move || {
		Segment::from_parts(
			SegmentIdentifier {
				height: p.height,
				idx: p.idx,
			},
			p.hash_pos,
			p.hashes,
			p.leaf_pos,
			p.leaf_data.iter().map(|d| T::from_bytes(d)).collect(),
			mk_proof(&p.proof),
		)
	}))
	.ok()
}

fn parts_str(p: &Parts) -> String {
	format!(
		"{} {} {} {} {} {} {}",
		p.height,
		p.idx,
		nat_list(&p.hash_pos),
		hashes(&p.hashes),
		nat_list(&p.leaf_pos),
		hex_list(&p.leaf_data),
		hashes(&p.proof)
	)
}

fn bm_str(bm: Option<&Bitmap>) -> String {
	match bm {
		None => "none".to_string(),
		Some(b) => nat_list(&b.iter().map(|x| x as u64).collect::<Vec<_>>()),
	}
}

fn flip(h: &Hash, rng: &mut Rng) -> Hash {
	let mut b = h.to_vec();
	b[rng.below(32) as usize] ^= 1 << rng.below(8);
	Hash::from_vec(&b)
}

fn unit_str(r: Result<Result<(), SegmentError>, String>) -> String {
	match r {
		Ok(Ok(())) => "ok".to_string(),
		Ok(Err(e)) => err_str(&e),
		Err(_) => "panic".to_string(),
	}
}

/// how a segment is validated: plain, or with the final hashing step of the merged output root
#[derive(Clone)]
struct Target {
	size: u64,
	root: Hash,
	with: Option<(u64, Hash, bool)>,
}

fn run_validate<T>(s: &Segment<T>, t: &Target, bm: Option<&Bitmap>) -> String
where
	T: PMMRIndexHashable,
{
	unit_str(catch(AssertUnwindSafe(|| match &t.with {
		None => s.validate(t.size, bm, t.root),
		Some((hlp, other, left)) => s.validate_with(t.size, bm, t.root, *hlp, *other, *left),
	})))
}

fn validate_lhs(p: &Parts, t: &Target, bm: Option<&Bitmap>) -> String {
	match &t.with {
		None => format!(
			"seg validate {} {} {} {}",
			t.size,
			bm_str(bm),
			hex(t.root.as_bytes()),
			parts_str(p)
		),
		Some((hlp, other, left)) => format!(
			"seg validatewith {} {} {} {} {} {} {}",
			t.size,
			bm_str(bm),
			hex(t.root.as_bytes()),
			hlp,
			hex(other.as_bytes()),
			if *left { 1 } else { 0 },
			parts_str(p)
		),
	}
}

struct Cx<'a> {
	out: &'a mut Out,
	rng: &'a mut Rng,
	st: Stats,
	tag: String,
}

impl<'a> Cx<'a> {
	/// validate a (possibly corrupted) segment; `must_reject`: the property's oracle
	fn check(
		&mut self,
		p: &Parts,
		t: &Target,
		bm: Option<&Bitmap>,
		kind: &str,
		expect: Expect,
		emit: bool,
	) -> String {
		let seg = match build::<Elem>(p) {
			Some(s) => s,
			None => {
				self.st.inc(&format!("{}:from_parts-asserts", kind));
				return "assert".to_string();
			}
		};
		let v = run_validate(&seg, t, bm);
		if emit {
			self.out.line(&validate_lhs(p, t, bm), &v);
		}
		self.st.inc(&format!("{}:{}", kind, if v == "ok" { "accepted" } else if v == "panic" { "panic" } else { "rejected" }));
		match expect {
			Expect::Accept => {
				if v != "ok" {
					self.out.raw(&format!(
						"#ORACLE-FAIL C16 {} [{}] honest segment not accepted ({}): {} => {}",
						self.tag,
						kind,
						kind,
						validate_lhs(p, t, bm),
						v
					));
				}
			}
			Expect::Reject => {
				if v == "ok" || v == "panic" {
					self.out.raw(&format!(
						"#ORACLE-FAIL C16 {} corrupted segment ({}) not rejected: {} => {}",
						self.tag,
						kind,
						validate_lhs(p, t, bm),
						v
					));
				}
			}
			Expect::Any => {}
		}
		v
	}
}

#[derive(Clone, Copy, PartialEq)]
enum Expect {
	Accept,
	Reject,
	Any,
}

fn view_line<B: Backend<Elem>>(out: &mut Out, ba: &B, size: u64) {
	let mmr = ReadonlyPMMR::<Elem, B>::at(ba, size);
	let mut data = vec![];
	let mut ff = vec![];
	let mut hs = vec![];
	for p in 0..size + 2 {
		if pmmr::is_leaf(p) {
			if let Some(d) = mmr.get_data_from_file(p) {
				data.push(format!("{}:{}", p, hex(&d.0)));
			}
		}
		if let Some(h) = mmr.get_from_file(p) {
			ff.push(format!("{}:{}", p, hex(h.as_bytes())));
		}
		if let Some(h) = mmr.get_hash(p) {
			hs.push(format!("{}:{}", p, hex(h.as_bytes())));
		}
	}
	out.raw(&format!(
		"seg view {} [{}] [{}] [{}]",
		size,
		data.join(","),
		ff.join(","),
		hs.join(",")
	));
}

/// everything done for one identifier on one MMR state
fn one_ident<B: Backend<Elem>>(
	cx: &mut Cx,
	ba: &B,
	size: u64,
	root: Hash,
	id: SegmentIdentifier,
	prunable: bool,
	bm: Option<&Bitmap>,
	emit: bool,
	allow_gen_err: bool,
) {
	let mmr = ReadonlyPMMR::<Elem, B>::at(ba, size);
	let res = catch(AssertUnwindSafe(|| Segment::<Elem>::from_pmmr(id, &mmr, prunable)));
	let n_leaves = pmmr::n_leaves(size);
	let cap = 1u64 << id.height;
	let exists = id.idx * cap < n_leaves;
	let lhs = format!("seg from {} {} {}", id.height, id.idx, if prunable { 1 } else { 0 });
	let seg = match res {
		Err(_) => {
			if emit {
				cx.out.line(&lhs, "panic");
			}
			cx.out.raw(&format!("#ORACLE-FAIL C16 {} from_pmmr panicked: size={} {}", cx.tag, size, lhs));
			return;
		}
		Ok(Err(e)) => {
			if emit {
				cx.out.line(&lhs, &err_str(&e));
			}
			cx.st.inc(&format!("from:{}", err_str(&e).split(':').nth(1).unwrap_or("?")));
			if exists && !(allow_gen_err && matches!(e, SegmentError::MissingHash(_)) && id.height == 0) {
				cx.out.raw(&format!(
					"#ORACLE-FAIL C16 {} from_pmmr failed for an existing segment: size={} {} => {}",
					cx.tag,
					size,
					lhs,
					err_str(&e)
				));
			}
			if exists {
				cx.st.inc("from:missinghash-height0-spent-sibling");
			}
			return;
		}
		Ok(Ok(s)) => s,
	};
	if !exists {
		cx.out.raw(&format!("#ORACLE-FAIL C16 {} from_pmmr produced a segment for a non-existent range: size={} {}", cx.tag, size, lhs));
	}
	let p = parts_of(&seg);
	if emit {
		cx.out.line(&lhs, &parts_str(&p));
	}
	cx.st.inc("from:ok");
	cx.st.inc(&format!("height:{}", id.height));
	if p.leaf_data.is_empty() {
		cx.st.inc(if p.hashes.len() == 1 && !p.hash_pos.is_empty() { "from:fully-pruned-or-hash-only" } else { "from:no-leaves" });
	}
	// range
	if emit {
		let (f, l) = seg.segment_pos_range(size);
		cx.out.line(
			&format!("seg range {} {} {}", id.height, id.idx, size),
			&format!("{} {}", f, l),
		);
	}
	// root and first unpruned parent
	let r = catch(AssertUnwindSafe(|| seg.root(size, bm)));
	let rs = match &r {
		Ok(Ok(Some(h))) => hex(h.as_bytes()),
		Ok(Ok(None)) => "none".to_string(),
		Ok(Err(e)) => err_str(e),
		Err(_) => "panic".to_string(),
	};
	if emit {
		cx.out.line(&format!("seg root {} {} {}", size, bm_str(bm), parts_str(&p)), &rs);
	}
	if rs == "none" {
		cx.st.inc("root:none(fully pruned)");
	}
	let f = catch(AssertUnwindSafe(|| seg.first_unpruned_parent(size, bm)));
	let fs = match &f {
		Ok(Ok((h, pos))) => format!("{} {}", hex(h.as_bytes()), pos),
		Ok(Err(e)) => err_str(e),
		Err(_) => "panic".to_string(),
	};
	if emit {
		cx.out.line(&format!("seg fup {} {} {}", size, bm_str(bm), parts_str(&p)), &fs);
	}
	// the segment root of a full segment is the MMR node hash at its last position
	if let Ok(Ok(Some(h))) = &r {
		let (_, l) = seg.segment_pos_range(size);
		if (id.idx + 1) * cap <= n_leaves {
			if let Some(node) = mmr.get_from_file(l) {
				if node != *h {
					cx.out.raw(&format!("#ORACLE-FAIL C16 {} segment root differs from the MMR node at {}: size={} {}", cx.tag, l, size, lhs));
				}
			}
		}
	}
	// validate (plain and with the extra hashing step)
	let plain = Target {
		size,
		root,
		with: None,
	};
	let other = Hash::from_vec(&cx.rng.bytes(32));
	let left = cx.rng.chance(1, 2);
	let hlp = if cx.rng.chance(1, 2) { size } else { cx.rng.below(1000) };
	let merged = if left {
		(other, root).hash_with_index(hlp)
	} else {
		(root, other).hash_with_index(hlp)
	};
	let with = Target {
		size,
		root: merged,
		with: Some((hlp, other, left)),
	};
	// Vec backend with an arbitrary bitmap: a height-0 segment whose leaf and sibling are both
	// unmarked has no root of its own and does not carry its hash (the store cannot produce such a
	// segment at all: `generate` fails on the spent sibling) -- compared with the model only
	let unservable = !allow_gen_err && id.height == 0 && rs == "none";
	let exp = if unservable { Expect::Any } else { Expect::Accept };
	let v = cx.check(&p, &plain, bm, if unservable { "height0-both-unmarked" } else { "honest" }, exp, emit);
	cx.check(&p, &with, bm, if unservable { "height0-both-unmarked" } else { "honest-with" }, exp, emit);
	if v != "ok" {
		return;
	}
	// a wrong side / wrong index / wrong other root in validate_with must be rejected
	{
		let mut w = with.clone();
		w.with = Some((hlp, other, !left));
		let e = emit && cx.rng.chance(1, 4);
		cx.check(&p, &w, bm, "with-wrong-side", Expect::Reject, e);
		let mut w = with.clone();
		w.with = Some((hlp + 1, other, left));
		let e = emit && cx.rng.chance(1, 4);
		cx.check(&p, &w, bm, "with-wrong-index", Expect::Reject, e);
		let mut w = with.clone();
		w.with = Some((hlp, flip(&other, cx.rng), left));
		let e = emit && cx.rng.chance(1, 4);
		cx.check(&p, &w, bm, "with-wrong-other", Expect::Reject, e);
	}
	let t = if cx.rng.chance(1, 3) { with } else { plain };
	corruptions(cx, &p, &t, bm, emit, size);
}

/// every single-element corruption of an accepted segment
fn corruptions(cx: &mut Cx, p: &Parts, t: &Target, bm: Option<&Bitmap>, emit: bool, size: u64) {
	let em = |cx: &mut Cx| emit && cx.rng.chance(1, 3);
	// wrong root
	{
		let mut t2 = t.clone();
		t2.root = flip(&t.root, cx.rng);
		let e = em(cx);
		cx.check(p, &t2, bm, "mmr-root", Expect::Reject, e);
	}
	// leaves
	for i in 0..p.leaf_pos.len() {
		// does the reconstruction depend on this leaf? (dropping it changes the verdict)
		let mut d = p.clone();
		d.leaf_pos.remove(i);
		d.leaf_data.remove(i);
		let pos = p.leaf_pos[i];
		let leaf_idx = pmmr::n_leaves(pos + 1) - 1;
		let marked = bm.map(|b| b.contains(leaf_idx as u32)).unwrap_or(true);
		let e = em(cx);
		let v = cx.check(
			&d,
			t,
			bm,
			if marked { "drop-unspent-leaf" } else { "drop-leaf" },
			if marked { Expect::Reject } else { Expect::Any },
			e,
		);
		let relevant = v != "ok";
		if !relevant {
			cx.st.inc("leaf:redundant");
		}
		let exp = if relevant { Expect::Reject } else { Expect::Any };
		// data altered
		let mut d = p.clone();
		let k = cx.rng.below(d.leaf_data[i].len() as u64) as usize;
		d.leaf_data[i][k] ^= 1 << cx.rng.below(8);
		let e = em(cx);
		cx.check(&d, t, bm, if relevant { "leaf-data" } else { "redundant-leaf-data" }, exp, e);
		// position altered (kept strictly ascending so that from_parts / the wire format admit it)
		let lo = if i == 0 { 0 } else { p.leaf_pos[i - 1] + 1 };
		let hi = if i + 1 < p.leaf_pos.len() { p.leaf_pos[i + 1] - 1 } else { pos + 3 };
		for np in [pos + 1, pos.wrapping_sub(1), lo, hi] {
			if np != pos && np >= lo && np <= hi && np < (1 << 40) {
				let mut d = p.clone();
				d.leaf_pos[i] = np;
				let e = em(cx);
				cx.check(&d, t, bm, if relevant { "leaf-pos" } else { "redundant-leaf-pos" }, exp, e);
			}
		}
		// data of two leaves exchanged
		if i + 1 < p.leaf_pos.len() && p.leaf_data[i] != p.leaf_data[i + 1] {
			let mut d = p.clone();
			d.leaf_data.swap(i, i + 1);
			let e = em(cx);
			let mut d2 = p.clone();
			d2.leaf_pos.remove(i + 1);
			d2.leaf_data.remove(i + 1);
			let other_relevant = match build::<Elem>(&d2) {
				Some(s) => run_validate(&s, t, bm) != "ok",
				None => true,
			};
			cx.check(&d, t, bm, "leaf-swap", if relevant || other_relevant { Expect::Reject } else { Expect::Any }, e);
		}
	}
	// hashes the root computation may read
	for i in 0..p.hash_pos.len() {
		let mut d = p.clone();
		d.hash_pos.remove(i);
		d.hashes.remove(i);
		let relevant = match build::<Elem>(&d) {
			Some(s) => run_validate(&s, t, bm) != "ok",
			None => true,
		};
		cx.st.inc(if relevant { "hash:read" } else { "hash:redundant" });
		let exp = if relevant { Expect::Reject } else { Expect::Accept };
		if relevant {
			let e = em(cx);
			cx.check(&d, t, bm, "drop-hash", Expect::Reject, e);
		}
		let mut d = p.clone();
		d.hashes[i] = flip(&p.hashes[i], cx.rng);
		let e = em(cx);
		cx.check(&d, t, bm, if relevant { "hash" } else { "redundant-hash-altered" }, exp, e);
		let pos = p.hash_pos[i];
		let lo = if i == 0 { 1 } else { p.hash_pos[i - 1] + 1 };
		let hi = if i + 1 < p.hash_pos.len() { p.hash_pos[i + 1] - 1 } else { pos + 3 };
		for np in [pos + 1, pos.wrapping_sub(1)] {
			if np != pos && np >= lo && np <= hi {
				let mut d = p.clone();
				d.hash_pos[i] = np;
				let e = em(cx);
				cx.check(&d, t, bm, if relevant { "hash-pos" } else { "redundant-hash-pos" }, if relevant { Expect::Reject } else { Expect::Any }, e);
			}
		}
	}
	// a redundant extra hash (position not read): not rejected
	if bm.is_some() || p.hash_pos.is_empty() {
		let mut d = p.clone();
		let np = p.hash_pos.last().map(|x| x + 1).unwrap_or(size + 5);
		d.hash_pos.push(np);
		d.hashes.push(Hash::from_vec(&cx.rng.bytes(32)));
		let e = em(cx);
		// appended after everything the honest segment holds, at a position nothing reads
		let reads_it = false;
		cx.check(&d, t, bm, "extra-hash", if reads_it { Expect::Any } else { Expect::Accept }, e);
	}
	// proof hashes: every one of an honest proof is consumed
	for i in 0..p.proof.len() {
		let mut d = p.clone();
		d.proof[i] = flip(&p.proof[i], cx.rng);
		let e = em(cx);
		cx.check(&d, t, bm, "proof-hash", Expect::Reject, e);
		let mut d = p.clone();
		d.proof.remove(i);
		let e = em(cx);
		cx.check(&d, t, bm, "proof-drop", Expect::Reject, e);
		if i + 1 < p.proof.len() && p.proof[i] != p.proof[i + 1] {
			let mut d = p.clone();
			d.proof.swap(i, i + 1);
			let e = em(cx);
			cx.check(&d, t, bm, "proof-swap", Expect::Reject, e);
		}
	}
	{
		let mut d = p.clone();
		d.proof.insert(0, Hash::from_vec(&cx.rng.bytes(32)));
		let e = em(cx);
		// (with an empty honest proof nothing is consumed, so the inserted hash is redundant too)
		cx.check(&d, t, bm, "proof-insert-front", if p.proof.is_empty() { Expect::Accept } else { Expect::Reject }, e);
		// a redundant hash after the consumed ones: not rejected
		let mut d = p.clone();
		d.proof.push(Hash::from_vec(&cx.rng.bytes(32)));
		let e = em(cx);
		cx.check(&d, t, bm, "proof-extra-tail", Expect::Accept, e);
	}
	// identifier / size altered: compared with the model only
	for (dh, di) in [(1i64, 0i64), (-1, 0), (0, 1), (0, -1)] {
		let h2 = p.height as i64 + dh;
		let i2 = p.idx as i64 + di;
		if h2 >= 0 && i2 >= 0 && h2 < 7 {
			let mut d = p.clone();
			d.height = h2 as u8;
			d.idx = i2 as u64;
			let e = em(cx);
			cx.check(&d, t, bm, "identifier", Expect::Any, e);
		}
	}
	for s2 in [size + 1, size - 1] {
		if s2 > 0 {
			let mut t2 = t.clone();
			t2.size = s2;
			let e = em(cx);
			cx.check(p, &t2, bm, "mmr-size", Expect::Any, e);
		}
	}
}

fn all_idents(size: u64, max_h: u8) -> Vec<SegmentIdentifier> {
	let mut v = vec![];
	for h in 0..=max_h {
		let n = SegmentIdentifier::count_segments_required(size, h) as u64;
		for idx in 0..=n {
			v.push(SegmentIdentifier { height: h, idx });
		}
	}
	v
}

fn vec_mode(out: &mut Out, rng: &mut Rng, thorough: bool) {
	let maxn: u64 = if thorough { 300 } else { 150 };
	let mut cx = Cx {
		out,
		rng,
		st: Stats::default(),
		tag: "vec".to_string(),
	};
	let mut ba = VecBackend::<Elem>::new();
	let mut size = 0u64;
	for n in 1..=maxn {
		let e = Elem(cx.rng.bytes(8));
		let mut p = PMMR::at(&mut ba, size);
		p.push(&e).unwrap();
		size = p.size;
		let root = p.root().unwrap();
		// which cases go to the model: everything for small sizes, a sample above
		let emit_state = n <= 20 || cx.rng.chance(1, if thorough { 6 } else { 10 });
		if emit_state {
			cx.out.raw("seg new");
			view_line(cx.out, &ba, size);
		}
		cx.st.inc("states");
		for id in all_idents(size, 4) {
			let emit = emit_state && (n <= 12 || cx.rng.chance(1, 4));
			one_ident(&mut cx, &ba, size, root, id, false, None, emit, false);
		}
		// prunable flavour over the same (complete) data with random bitmaps: every required
		// leaf is on file, so every bitmap must be accepted
		if n <= 40 || cx.rng.chance(1, 4) {
			let n_leaves = pmmr::n_leaves(size);
			let mut bm = Bitmap::new();
			let dens = *cx.rng.pick(&[0u64, 1, 3, 6, 9, 10]);
			for i in 0..n_leaves {
				if cx.rng.below(10) < dens {
					bm.add(i as u32);
				}
			}
			// spent aligned subtrees
			if cx.rng.chance(1, 2) && n_leaves >= 4 {
				let h = cx.rng.range(1, 3);
				let w = 1u64 << h;
				let k = cx.rng.below(n_leaves / w);
				bm.remove_range((k * w) as u32..(k * w + w) as u32);
			}
			cx.st.inc("states-bitmap");
			for id in all_idents(size, 4) {
				let emit = emit_state && (n <= 10 || cx.rng.chance(1, 5));
				one_ident(&mut cx, &ba, size, root, id, true, Some(&bm), emit, false);
			}
		}
	}
	cx.st.add("max_leaves", maxn);
	cx.st.dump(cx.out, "vec");
}

struct Dir(std::path::PathBuf);
fn work_dir(name: &str) -> Dir {
	let work = std::env::var("VERIF_WORK").expect("VERIF_WORK not set");
	let d = std::path::PathBuf::from(work).join(name);
	let _ = std::fs::remove_dir_all(&d);
	std::fs::create_dir_all(&d).unwrap();
	Dir(d)
}

fn prune_leaves(ba: &mut PMMRBackend<Elem>, size: u64, leaves: &[u64], unspent: &mut BTreeSet<u64>) {
	let mut mmr = PMMR::at(ba, size);
	for &i in leaves {
		if unspent.remove(&i) {
			mmr.prune(pmmr::insertion_to_pmmr_index(i)).unwrap();
		}
	}
}

fn to_bitmap(u: &BTreeSet<u64>) -> Bitmap {
	let mut b = Bitmap::new();
	for &i in u {
		b.add(i as u32);
	}
	b
}

fn store_mode(out: &mut Out, rng: &mut Rng, thorough: bool) {
	let rounds: u64 = if thorough { 120 } else { 40 };
	let maxn: u64 = if thorough { 300 } else { 150 };
	let mut cx = Cx {
		out,
		rng,
		st: Stats::default(),
		tag: "store".to_string(),
	};
	for round in 0..rounds {
		let n = if round < 24 { round + 1 } else { cx.rng.range(2, maxn) };
		let dir = work_dir(&format!("seg-store-{}", round));
		let mut ba = PMMRBackend::<Elem>::new(&dir.0, true, ProtocolVersion(1), None).unwrap();
		let mut size = 0;
		{
			let mut mmr = PMMR::new(&mut ba);
			for _ in 0..n {
				mmr.push(&Elem(cx.rng.bytes(8))).unwrap();
			}
			size = size.max(mmr.unpruned_size());
		}
		ba.sync().unwrap();
		let root = ReadonlyPMMR::<Elem, _>::at(&ba, size).root().unwrap();
		let mut unspent: BTreeSet<u64> = (0..n).collect();
		// a sequence of protocol steps; the state is examined after each
		let steps = cx.rng.range(1, 5);
		let mut snapshot: Option<Bitmap> = None;
		for step in 0..=steps {
			let kind: &str = if step == 0 {
				"no-spends"
			} else {
				*cx.rng.pick(&["random-spends", "subtree-spends", "compact", "compact", "spend-most", "snapshot-then-spends"])
			};
			match kind {
				"random-spends" => {
					let k = cx.rng.range(1, (n / 3).max(1));
					let ls: Vec<u64> = (0..k).map(|_| cx.rng.below(n)).collect();
					prune_leaves(&mut ba, size, &ls, &mut unspent);
					ba.sync().unwrap();
				}
				"subtree-spends" => {
					let h = cx.rng.range(1, 4);
					let w = 1u64 << h;
					if n >= w {
						let k = cx.rng.below(n / w);
						let ls: Vec<u64> = (k * w..k * w + w).collect();
						prune_leaves(&mut ba, size, &ls, &mut unspent);
						ba.sync().unwrap();
					}
				}
				"spend-most" => {
					let ls: Vec<u64> = (0..n).filter(|_| cx.rng.chance(9, 10)).collect();
					prune_leaves(&mut ba, size, &ls, &mut unspent);
					ba.sync().unwrap();
				}
				"compact" => {
					// spends after a bitmap snapshot must survive: the chain protects them through
					// the horizon (cutoff before the archive header); with a snapshot we do not compact
					if snapshot.is_none() {
						let cutoff = if cx.rng.chance(1, 2) { size } else { pmmr::insertion_to_pmmr_index(cx.rng.below(n + 1)) };
						ba.check_compact(cutoff, &Bitmap::new()).unwrap();
						ba.sync().unwrap();
						cx.st.inc("compactions");
					}
				}
				"snapshot-then-spends" => {
					if snapshot.is_none() {
						snapshot = Some(to_bitmap(&unspent));
					}
					let k = cx.rng.range(1, (n / 4).max(1));
					let ls: Vec<u64> = (0..k).map(|_| cx.rng.below(n)).collect();
					prune_leaves(&mut ba, size, &ls, &mut unspent);
					ba.sync().unwrap();
				}
				_ => {}
			}
			cx.st.inc(&format!("pattern:{}", kind));
			let bm = match &snapshot {
				Some(b) => b.clone(),
				None => to_bitmap(&unspent),
			};
			let root2 = ReadonlyPMMR::<Elem, _>::at(&ba, size).root().unwrap();
			if root2 != root {
				cx.out.raw(&format!("#ORACLE-FAIL C16 store root changed by pruning/compaction n={} step={}", n, kind));
			}
			let emit_state = n <= 12 || cx.rng.chance(1, if thorough { 5 } else { 8 });
			if emit_state {
				cx.out.raw("seg new");
				view_line(cx.out, &ba, size);
			}
			cx.st.inc("states");
			for id in all_idents(size, 4) {
				let emit = emit_state && (n <= 8 || cx.rng.chance(1, 4));
				one_ident(&mut cx, &ba, size, root, id, true, Some(&bm), emit, true);
			}
		}
		drop(ba);
		let _ = std::fs::remove_dir_all(&dir.0);
	}
	cx.st.dump(cx.out, "store");
}

/// identifiers whose range is empty / out of range / computed with wrapped arithmetic
fn ident_mode(out: &mut Out, rng: &mut Rng, _thorough: bool) {
	let mut st = Stats::default();
	let mut ba = VecBackend::<Elem>::new();
	let mut size = 0u64;
	let mut elems = vec![];
	for n in 1..=21u64 {
		let e = Elem(rng.bytes(8));
		let mut p = PMMR::at(&mut ba, size);
		p.push(&e).unwrap();
		elems.push(e);
		size = p.size;
		if ![1, 2, 3, 4, 7, 8, 10, 21].contains(&n) {
			continue;
		}
		let root = p.root().unwrap();
		out.raw("seg new");
		view_line(out, &ba, size);
		let mmr = ReadonlyPMMR::<Elem, _>::at(&ba, size);
		// a donor segment: the whole MMR as one segment
		let donor = Segment::<Elem>::from_pmmr(SegmentIdentifier { height: 5, idx: 0 }, &mmr, false).unwrap();
		let dp = parts_of(&donor);
		let nseg0 = n;
		let mut ids: Vec<(u8, u64)> = vec![
			(0, nseg0),
			(0, nseg0 + 1),
			(0, 1 << 40),
			(1, (n + 1) / 2),
			(2, (n + 3) / 4),
			(11, 5),
			(63, 0),
			(63, 1),
			(63, 3),
			(64, 0),
			(64, 1),
			(65, 0),
			(66, 1),
			(70, 0),
			(200, 1),
			(255, 0),
			(255, 1),
			(0, u64::MAX),
			(1, 1 << 63),
			(3, (1 << 61) + 1),
		];
		for _ in 0..6 {
			ids.push((rng.below(256) as u8, rng.below(4)));
		}
		for (h, idx) in ids {
			let id = SegmentIdentifier { height: h, idx };
			// arithmetic
			let r = catch(|| id.segment_pos_range(size));
			let span = match &r {
				Ok((f, l)) => {
					if l >= f {
						l - f
					} else {
						0
					}
				}
				Err(_) => 0,
			};
			out.line(
				&format!("seg range {} {} {}", h, idx, size),
				&match &r {
					Ok((f, l)) => format!("{} {}", f, l),
					Err(_) => "panic".to_string(),
				},
			);
			if span > 5000 {
				// the loop of `root` would run over billions of positions: not executed
				st.inc("skipped-huge-range");
				continue;
			}
			let f = catch(AssertUnwindSafe(|| Segment::<Elem>::from_pmmr(id, &mmr, false)));
			out.line(
				&format!("seg from {} {} 0", h, idx),
				&match &f {
					Ok(Ok(s)) => parts_str(&parts_of(s)),
					Ok(Err(e)) => err_str(e),
					Err(_) => "panic".to_string(),
				},
			);
			// an unsolicited segment carrying this identifier, as a peer could send it
			let mut p = dp.clone();
			p.height = h;
			p.idx = idx;
			let seg = build::<Elem>(&p).unwrap();
			for bm in [None, Some(Bitmap::new())] {
				let r = catch(AssertUnwindSafe(|| seg.root(size, bm.as_ref())));
				let rs = match &r {
					Ok(Ok(Some(h))) => hex(h.as_bytes()),
					Ok(Ok(None)) => "none".to_string(),
					Ok(Err(e)) => err_str(e),
					Err(_) => "panic".to_string(),
				};
				out.line(&format!("seg root {} {} {}", size, bm_str(bm.as_ref()), parts_str(&p)), &rs);
				let t = Target {
					size,
					root,
					with: None,
				};
				let v = run_validate(&seg, &t, bm.as_ref());
				out.line(&validate_lhs(&p, &t, bm.as_ref()), &v);
				st.inc(&format!("validate:{}", v.split(':').take(2).collect::<Vec<_>>().join(":")));
				if v == "panic" {
					out.raw(&format!(
						"#KNOWN-PROBE C16 segment-validate-panics-on-out-of-range-identifier height={} idx={} mmr_size={} bitmap={} (Segment::validate -> Segment::root unwrap on None)",
						h,
						idx,
						size,
						if bm.is_some() { "some" } else { "none" }
					));
				}
				if v == "ok" {
					st.inc("accepted-odd-identifier");
				}
			}
		}
	}
	st.dump(out, "ident");
}

fn main() {
	quiet_panics();
	let args: Vec<String> = std::env::args().collect();
	let mode = args.get(1).map(|s| s.as_str()).unwrap_or("all");
	let mut rng = Rng::new(seed_from_env());
	let thorough = tier_thorough();
	let mut out = Out::stdout();
	if mode == "vec" || mode == "all" {
		vec_mode(&mut out, &mut rng, thorough);
	}
	if mode == "store" || mode == "all" {
		store_mode(&mut out, &mut rng, thorough);
	}
	if mode == "ident" || mode == "all" {
		ident_mode(&mut out, &mut rng, thorough);
	}
	out.flush();
}

#[allow(dead_code)]
fn _unused() {
	let _ = Elem(vec![]).hash();
}
