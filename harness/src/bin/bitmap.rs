//! C15 correspondence: the bitmap accumulator (`BitmapAccumulator`, `BitmapChunk`) driven the
//! way `Extension::apply_to_bitmap_accumulator` / `TxHashSet::bitmap_accumulator` drive it,
//! over random histories of block application, rewind and reopen.
//!
//! `hist`: histories; `respect=1` ones keep the chain invariant "the last output leaf is
//! unspent at every block boundary" (there the property oracle "incremental root = root computed
//! from scratch over the actual unspent set" is evaluated), `respect=0` ones break it on purpose
//! (there only model = implementation is compared, and whether incremental = scratch is itself an
//! observable).
//! `raw`: chunk serialisation, direct `init`/`apply` calls with unsorted / out-of-range /
//! duplicate arguments, the documented counter-example, `TxHashSetRoots::validate` on tampered
//! bitmap roots.
use std::collections::BTreeSet;
use std::panic::AssertUnwindSafe;
use std::path::Path;
use std::sync::Arc;

use grin_chain::txhashset::{self, BitmapAccumulator, BitmapChunk, ExtensionPair, PMMRHandle, TxHashSet};
use grin_chain::{ChainStore, Tip};
use grin_core::core::hash::Hashed;
use grin_core::core::{Block, Input, Inputs, Output, OutputFeatures, TransactionBody};
use grin_util::secp::constants::MAX_PROOF_SIZE;
use grin_util::secp::pedersen::{Commitment, RangeProof};
use grin_chain::types::{OutputRoots, TxHashSetRoots};
use grin_core::core::hash::{Hash, ZERO_HASH};
use grin_core::core::pmmr::{self, ReadablePMMR};
use grin_core::core::{BlockHeader, HeaderVersion};
use grin_core::ser::{self, ProtocolVersion};
use gvharness::*;

const NBITS: u64 = 1024;

fn root_str(acc: &BitmapAccumulator) -> String {
	match catch(AssertUnwindSafe(|| acc.root())) {
		Ok(h) => {
			if h == ZERO_HASH {
				"zero".to_string()
			} else {
				hex(h.as_bytes())
			}
		}
		Err(_) => "panic".to_string(),
	}
}

/// `root nleaves card sum wsum sqsum` (of `as_bitmap()`)
fn acc_str(acc: &BitmapAccumulator) -> String {
	let nleaves = pmmr::n_leaves(acc.readonly_pmmr().unpruned_size());
	let bm = match catch(AssertUnwindSafe(|| acc.as_bitmap())) {
		Ok(Ok(b)) => {
			let sum: u64 = b.iter().map(|x| x as u64).sum();
			// rank-weighted sum and sum of squares: a fingerprint of the WHOLE derived bitmap
			let mut w: u64 = 0;
			let mut q: u64 = 0;
			for (j, x) in b.iter().enumerate() {
				w = (w + (j as u64 + 1) * x as u64) % 1_000_000_007;
				q = (q + (x as u64) * (x as u64)) % 1_000_000_007;
			}
			format!("{} {} {} {}", b.cardinality(), sum, w, q)
		}
		Ok(Err(_)) => "err".to_string(),
		Err(_) => "panic".to_string(),
	};
	format!("{} {} {}", root_str(acc), nleaves, bm)
}

fn scratch_acc(unspent: &BTreeSet<u64>, n: u64) -> BitmapAccumulator {
	// TxHashSet::bitmap_accumulator: init(leaf_idx_iter(0), n_leaves(size))
	let mut a = BitmapAccumulator::new();
	a.init(unspent.iter().cloned(), n).expect("init");
	a
}

struct BlockRec {
	n_before: u64,
	spent: Vec<u64>,
}

#[derive(Default)]
struct Stats {
	histories: [u64; 2],
	steps: u64,
	blocks: u64,
	rewinds: u64,
	rewinds_cross: u64,
	rewinds_multi: u64,
	touches: u64,
	reopens: u64,
	max_n: u64,
	max_chunks: u64,
	pat: std::collections::BTreeMap<&'static str, u64>,
	kpat: std::collections::BTreeMap<&'static str, u64>,
	last_chunk_all_spent: u64,
	empty_mid_chunk: u64,
	differ: u64,
	same: u64,
	scratch_checks: u64,
	last_leaf_spent_states: u64,
}

struct Sim {
	acc: BitmapAccumulator,
	n: u64,
	unspent: BTreeSet<u64>,
	blocks: Vec<BlockRec>,
	respect: bool,
}

fn pos1(idx: u64) -> u64 {
	pmmr::insertion_to_pmmr_index(idx) + 1
}

impl Sim {
	/// `Extension::apply_to_bitmap_accumulator(output_pos)`, argument for argument
	fn ext_apply(&mut self, output_pos: &[u64]) -> String {
		let mut output_idx: Vec<u64> = output_pos
			.iter()
			.map(|x| pmmr::n_leaves(*x).saturating_sub(1))
			.collect();
		output_idx.sort_unstable();
		let min_idx = output_idx.first().cloned().unwrap_or(0);
		let output_mmr_size = pmmr::insertion_to_pmmr_index(self.n);
		let size = pmmr::n_leaves(output_mmr_size);
		let from = BitmapAccumulator::chunk_start_idx(min_idx);
		let iter: Vec<u64> = self.unspent.range(from..).cloned().collect();
		let acc = &mut self.acc;
		match catch(AssertUnwindSafe(|| acc.apply(output_idx, iter, size))) {
			Ok(Ok(())) => acc_str(&self.acc),
			Ok(Err(_)) => "err".to_string(),
			Err(_) => "panic".to_string(),
		}
	}

	fn n_chunks_nominal(&self) -> u64 {
		(self.n + NBITS - 1) / NBITS
	}

	fn after_step(&mut self, out: &mut Out, st: &mut Stats, what: &str) {
		st.steps += 1;
		st.max_n = st.max_n.max(self.n);
		st.max_chunks = st.max_chunks.max(self.n_chunks_nominal());
		if self.n > 0 {
			let lc = (self.n - 1) / NBITS;
			if self.unspent.range(lc * NBITS..).next().is_none() {
				st.last_chunk_all_spent += 1;
			}
			if !self.unspent.contains(&(self.n - 1)) {
				st.last_leaf_spent_states += 1;
			}
			for c in 0..lc {
				if self.unspent.range(c * NBITS..(c + 1) * NBITS).next().is_none() {
					st.empty_mid_chunk += 1;
					break;
				}
			}
		}
		let inc = root_str(&self.acc);
		let scr = root_str(&scratch_acc(&self.unspent, self.n));
		if self.respect {
			// property oracle on the implementation: incremental = from scratch (= after restart)
			st.scratch_checks += 1;
			if inc != scr {
				out.raw(&format!(
					"#ORACLE-FAIL C15 incremental bitmap root {} != from-scratch root {} after {} (n={} unspent={})",
					inc,
					scr,
					what,
					self.n,
					nat_list(&self.unspent.iter().cloned().collect::<Vec<_>>())
				));
			}
			out.line("bitmap scratch", &inc);
		} else {
			if inc == scr {
				st.same += 1
			} else {
				st.differ += 1
			}
			out.line("bitmap probe", if inc == scr { "same" } else { "differ" });
		}
	}
}

fn pick_k(rng: &mut Rng, n: u64, maxn: u64, st: &mut Stats) -> u64 {
	let room = maxn.saturating_sub(n);
	let to_boundary = NBITS - n % NBITS; // n + to_boundary is a multiple of 1024
	let (name, k) = match rng.below(10) {
		0 | 1 => ("one", 1),
		2 | 3 => ("few", rng.range(2, 40)),
		4 => ("to-boundary", to_boundary),
		5 => ("to-boundary+1", to_boundary + 1),
		6 => ("to-boundary-1", if to_boundary > 1 { to_boundary - 1 } else { 1 }),
		7 => ("hundreds", rng.range(100, 900)),
		8 => ("cross-one", rng.range(1024, 1300)),
		_ => ("cross-two", rng.range(2048, 2500)),
	};
	let k = if room == 0 { 1 } else { k.min(room).max(1) };
	*st.kpat.entry(name).or_insert(0) += 1;
	k
}

/// choose the spent set among `cands` (currently unspent, spendable) per the quantifier text
fn pick_spends(rng: &mut Rng, cands: &BTreeSet<u64>, n_old: u64, st: &mut Stats) -> Vec<u64> {
	if cands.is_empty() || n_old == 0 {
		*st.pat.entry("none").or_insert(0) += 1;
		return vec![];
	}
	let last_chunk = (n_old - 1) / NBITS;
	let in_chunk = |c: u64| -> Vec<u64> { cands.range(c * NBITS..(c + 1) * NBITS).cloned().collect() };
	let some_of = |rng: &mut Rng, v: Vec<u64>, num: u64, den: u64| -> Vec<u64> {
		v.into_iter().filter(|_| rng.chance(num, den)).collect()
	};
	let (name, v): (&'static str, Vec<u64>) = match rng.below(12) {
		0 => ("none", vec![]),
		1 => ("old-chunk-few", some_of(rng, in_chunk(0), 1, 50)),
		2 => {
			let c = rng.below(last_chunk + 1);
			("old-chunk-many", some_of(rng, in_chunk(c), 1, 2))
		}
		3 => {
			let c = rng.below(last_chunk + 1);
			("whole-chunk", in_chunk(c))
		}
		4 | 5 => {
			let mut v = vec![];
			for c in 1..=last_chunk + 1 {
				for d in [c * NBITS - 2, c * NBITS - 1, c * NBITS, c * NBITS + 1] {
					if cands.contains(&d) && rng.chance(2, 3) {
						v.push(d);
					}
				}
			}
			if cands.contains(&0) && rng.chance(1, 2) {
				v.insert(0, 0);
			}
			("chunk-boundaries", v)
		}
		6 => ("last-partial-few", some_of(rng, in_chunk(last_chunk), 1, 8)),
		7 => ("last-chunk-all", in_chunk(last_chunk)),
		8 => {
			// everything from some point to the end
			let from = rng.below(n_old);
			("tail-all", cands.range(from..).cloned().collect())
		}
		9 => {
			let x = *cands.iter().nth(rng.below(cands.len() as u64) as usize).unwrap();
			("single", vec![x])
		}
		_ => ("random", {
			let den = rng.range(2, 200);
			some_of(rng, cands.iter().cloned().collect(), 1, den)
		}),
	};
	*st.pat.entry(name).or_insert(0) += 1;
	v
}

fn history(out: &mut Out, rng: &mut Rng, st: &mut Stats, respect: bool, steps: u64, maxn: u64) {
	st.histories[respect as usize] += 1;
	out.raw(&format!("bitmap new {}", respect as u8));
	let mut sim = Sim {
		acc: BitmapAccumulator::new(),
		n: 0,
		unspent: BTreeSet::new(),
		blocks: vec![],
		respect,
	};
	// start: empty chain, or a pre-existing state built with init (as after a restart / fast sync)
	if rng.chance(2, 3) {
		let n = match rng.below(4) {
			0 => rng.range(1, 1100),
			1 => *rng.pick(&[1023u64, 1024, 1025, 2047, 2048, 2049, 3072, 4096, 4097]),
			_ => rng.range(1100, maxn * 3 / 4),
		};
		let den = rng.range(2, 12);
		let mut u: BTreeSet<u64> = (0..n).filter(|_| rng.chance(1, den)).collect();
		if rng.chance(1, 3) {
			// an old chunk entirely spent
			let c = rng.below((n + NBITS - 1) / NBITS);
			u = u.into_iter().filter(|x| x / NBITS != c).collect();
		}
		if respect || rng.chance(1, 2) {
			u.insert(n - 1);
		}
		let ul: Vec<u64> = u.iter().cloned().collect();
		sim.acc.init(ul.iter().cloned(), n).expect("init");
		sim.n = n;
		sim.unspent = u;
		out.line(&format!("bitmap init {} {}", nat_list(&ul), n), &acc_str(&sim.acc));
		sim.after_step(out, st, "init");
	}
	let base_n = sim.n;
	// planned spend sets for the next "blocks without outputs" (non-respecting histories only)
	let mut pending: Vec<Vec<u64>> = vec![];
	for _ in 0..steps {
		let kind = rng.below(20);
		if !respect && pending.is_empty() && sim.n > NBITS && rng.chance(1, 6) {
			// empty an older chunk c-1 entirely, then everything from chunk c on: the second
			// apply finds no unspent index from its chunk start, the situation in which
			// apply_from (`if chunk.any()`) and pad_left disagree
			let c = rng.range(1, (sim.n - 1) / NBITS);
			pending.push(sim.unspent.range(c * NBITS..).cloned().collect());
			pending.push(sim.unspent.range((c - 1) * NBITS..c * NBITS).cloned().collect());
		}
		if let Some(spent) = pending.pop() {
			if spent.is_empty() {
				continue;
			}
			for s in &spent {
				sim.unspent.remove(s);
			}
			let affected: Vec<u64> = spent.iter().map(|i| pos1(*i)).collect();
			let r = sim.ext_apply(&affected);
			out.line(&format!("bitmap block 0 {}", nat_list(&spent)), &r);
			sim.blocks.push(BlockRec { n_before: sim.n, spent });
			st.blocks += 1;
			*st.pat.entry("planned-empty-chunk-then-tail").or_insert(0) += 1;
			sim.after_step(out, st, "block-no-outputs");
			continue;
		}
		if kind < 13 || sim.blocks.is_empty() {
			// ---- apply_block: k new outputs at the end, then spends
			let n_old = sim.n;
			let mut k = pick_k(rng, sim.n, maxn, st);
			if sim.n >= maxn && !sim.blocks.is_empty() {
				k = 1;
			}
			let mut cands = sim.unspent.clone();
			let mut name = "block";
			if !respect && rng.chance(1, 3) {
				// outside the chain invariant: a "block" without outputs, or one that spends
				// its own last output, so that the last leaf may end up spent
				if rng.chance(1, 2) {
					k = 0;
					name = "block-no-outputs";
				} else {
					for i in n_old..n_old + k {
						cands.insert(i);
					}
					name = "block-spends-own";
				}
			}
			let mut spent = pick_spends(rng, &cands, if name == "block-spends-own" { n_old + k } else { n_old }, st);
			if name != "block" && !spent.is_empty() && rng.chance(1, 2) {
				// make sure the very last leaf goes
				let last = n_old + k;
				if last > 0 && cands.contains(&(last - 1)) && !spent.contains(&(last - 1)) {
					spent.push(last - 1);
				}
			}
			spent.sort_unstable();
			spent.dedup();
			let created: Vec<u64> = (n_old..n_old + k).collect();
			for i in &created {
				sim.unspent.insert(*i);
			}
			for s in &spent {
				sim.unspent.remove(s);
			}
			sim.n = n_old + k;
			// affected_pos as collected by apply_block: new output pos, then spent pos
			let affected: Vec<u64> = created.iter().chain(spent.iter()).map(|i| pos1(*i)).collect();
			let r = sim.ext_apply(&affected);
			out.line(&format!("bitmap block {} {}", k, nat_list(&spent)), &r);
			sim.blocks.push(BlockRec { n_before: n_old, spent });
			st.blocks += 1;
			sim.after_step(out, st, name);
		} else if kind < 17 {
			// ---- rewind to an earlier block boundary: Extension::rewind
			// respecting histories never rewind below the first block of an initially empty chain
			// (a chain cannot be rewound to "no outputs at all")
			let keep = if respect && base_n == 0 { 1 } else { 0 };
			let max_depth = sim.blocks.len() as u64 - keep;
			if max_depth == 0 {
				continue;
			}
			let depth: usize = if rng.chance(1, 2) { 1 } else { rng.range(1, max_depth) as usize };
			let n_old = sim.n;
			let mut affected: Vec<u64> = vec![];
			let mut restored: BTreeSet<u64> = BTreeSet::new();
			for _ in 0..depth {
				// rewind_single_block: un-spend, truncate to the previous header's size,
				// affected = spent_pos ++ [output_pmmr.size]
				let b = sim.blocks.pop().unwrap();
				for s in &b.spent {
					affected.push(pos1(*s));
					if *s < b.n_before {
						restored.insert(*s);
					}
				}
				affected.push(pmmr::insertion_to_pmmr_index(b.n_before));
				sim.n = b.n_before;
			}
			let n_new = sim.n;
			sim.unspent = sim.unspent.iter().cloned().filter(|x| *x < n_new).collect();
			let restored: Vec<u64> = restored.into_iter().filter(|x| *x < n_new).collect();
			for r in &restored {
				sim.unspent.insert(*r);
			}
			let r = sim.ext_apply(&affected);
			out.line(
				&format!("bitmap rewind {} {} {}", n_new, nat_list(&restored), nat_list(&affected)),
				&r,
			);
			st.rewinds += 1;
			if depth > 1 {
				st.rewinds_multi += 1;
			}
			if n_new == 0 || (n_old > 0 && (n_new - 1) / NBITS < (n_old - 1) / NBITS) {
				st.rewinds_cross += 1;
			}
			sim.after_step(out, st, "rewind");
		} else if kind < 19 {
			// ---- "nothing to rewind" branch of Extension::rewind: apply_to_bitmap_accumulator(&[header.output_mmr_size])
			let affected = vec![pmmr::insertion_to_pmmr_index(sim.n)];
			let r = sim.ext_apply(&affected);
			out.line(&format!("bitmap touch {}", nat_list(&affected)), &r);
			st.touches += 1;
			sim.after_step(out, st, "touch");
		} else {
			// ---- restart: TxHashSet::open rebuilds the accumulator from the leaf set
			sim.acc = scratch_acc(&sim.unspent, sim.n);
			out.line("bitmap reopen", &acc_str(&sim.acc));
			st.reopens += 1;
			sim.after_step(out, st, "reopen");
		}
	}
}

fn hist(out: &mut Out, rng: &mut Rng, thorough: bool) {
	let mut st = Stats::default();
	let (nh, steps) = if thorough { (420, 70) } else { (36, 30) };
	for h in 0..nh {
		let respect = h % 3 != 2;
		let maxn = *rng.pick(&[2600u64, 4200, 6200, 6200]);
		history(out, rng, &mut st, respect, steps, maxn);
	}
	out.raw(&format!(
		"#STAT histories respecting={} non-respecting={} steps={} blocks={} rewinds={} (multi-block {} / shrinking across a chunk boundary {}) touches={} reopens={}",
		st.histories[1], st.histories[0], st.steps, st.blocks, st.rewinds, st.rewinds_multi, st.rewinds_cross, st.touches, st.reopens
	));
	out.raw(&format!(
		"#STAT max leaves={} max chunks={} states with last chunk entirely spent={} states with an entirely spent older chunk={} states with last leaf spent={}",
		st.max_n, st.max_chunks, st.last_chunk_all_spent, st.empty_mid_chunk, st.last_leaf_spent_states
	));
	out.raw(&format!("#STAT spend patterns {:?}", st.pat));
	out.raw(&format!("#STAT created-output patterns {:?}", st.kpat));
	out.raw(&format!(
		"#STAT oracle evaluations (incremental = scratch) in respecting histories={}; non-respecting histories: incremental = scratch in {} states, differs in {} states",
		st.scratch_checks, st.same, st.differ
	));
}

fn chunk_line(out: &mut Out, bits: &[u64]) {
	let mut c = BitmapChunk::new();
	for b in bits {
		c.set(*b % NBITS, true);
	}
	let bytes = ser::ser_vec(&c, ProtocolVersion(1)).expect("ser");
	out.line(&format!("bitmap chunk {}", nat_list(bits)), &hex(&bytes));
}

fn raw(out: &mut Out, rng: &mut Rng, thorough: bool) {
	// --- chunk serialisation (the hashed leaf element): every single bit, then random sets
	for b in 0..NBITS {
		chunk_line(out, &[b]);
	}
	chunk_line(out, &[]);
	chunk_line(out, &(0..NBITS).collect::<Vec<_>>());
	for _ in 0..(if thorough { 400 } else { 60 }) {
		let den = rng.range(2, 60);
		let bits: Vec<u64> = (0..NBITS).filter(|_| rng.chance(1, den)).collect();
		chunk_line(out, &bits);
	}
	// --- the documented counter-example (DESIGN §9 / Props.C15.without_hyp_counterexample)
	{
		let mut a = BitmapAccumulator::new();
		a.init(vec![5u64, 2100], 2500).unwrap();
		a.apply(vec![2100u64], Vec::<u64>::new(), 2500).unwrap();
		let mut b = BitmapAccumulator::new();
		b.init(vec![5u64], 2500).unwrap();
		out.line(
			"bitmap cex [5,2100] [2100] [] [5] 2500",
			&format!("{} {}", root_str(&a), root_str(&b)),
		);
		if root_str(&a) != root_str(&b) {
			out.raw("#STAT counter-example outside the last-leaf hypothesis reproduced on the real BitmapAccumulator: init [5,2100]; apply [2100] [] vs init [5] at size 2500 give different roots");
		} else {
			out.raw("#STAT counter-example NOT reproduced on the real code (roots equal)");
		}
	}
	// --- direct API calls with arbitrary arguments (unsorted, duplicates, >= size, far invalidated idx)
	let rounds = if thorough { 400 } else { 80 };
	let mut n_err = 0u64;
	let mut n_calls = 0u64;
	for _ in 0..rounds {
		out.raw("bitmap new 0");
		let mut acc = BitmapAccumulator::new();
		let size = match rng.below(4) {
			0 => rng.range(0, 30),
			1 => *rng.pick(&[1023u64, 1024, 1025, 2048]),
			_ => rng.range(30, 5000),
		};
		let gen_idx = |rng: &mut Rng, size: u64| -> Vec<u64> {
			let cnt = rng.range(0, 60);
			let mut v: Vec<u64> = (0..cnt).map(|_| rng.below(size + 200)).collect();
			match rng.below(4) {
				0 => {}                     // unsorted, maybe duplicates
				1 => v.sort_unstable(),     // sorted with duplicates
				_ => {
					v.sort_unstable();
					v.dedup();
				}
			}
			v
		};
		let idx = gen_idx(rng, size);
		let r = match catch(AssertUnwindSafe(|| acc.init(idx.clone(), size))) {
			Ok(Ok(())) => acc_str(&acc),
			Ok(Err(_)) => {
				n_err += 1;
				"err".to_string()
			}
			Err(_) => "panic".to_string(),
		};
		n_calls += 1;
		out.line(&format!("bitmap rawinit {} {}", nat_list(&idx), size), &r);
		for _ in 0..rng.range(1, 6) {
			let size2 = if rng.chance(1, 2) { size } else { rng.range(0, 6000) };
			let idx = gen_idx(rng, size2);
			let inval: Vec<u64> = match rng.below(5) {
				0 => vec![],
				1 => vec![rng.below(size2 + 3000)],
				_ => {
					let mut v: Vec<u64> = (0..rng.range(1, 5)).map(|_| rng.below(size2 + 1)).collect();
					if rng.chance(2, 3) {
						v.sort_unstable();
					}
					v
				}
			};
			let r = match catch(AssertUnwindSafe(|| acc.apply(inval.clone(), idx.clone(), size2))) {
				Ok(Ok(())) => acc_str(&acc),
				Ok(Err(_)) => {
					n_err += 1;
					"err".to_string()
				}
				Err(_) => "panic".to_string(),
			};
			n_calls += 1;
			out.line(
				&format!("bitmap rawapply {} {} {}", nat_list(&inval), nat_list(&idx), size2),
				&r,
			);
		}
	}
	out.raw(&format!("#STAT raw init/apply calls={} errors={}", n_calls, n_err));
	// --- systematic chunk-boundary cases: sizes 1024k-1, 1024k, 1024k+1, unspent sets dense at the
	// boundaries / only the last leaf / sparse, the (single looked-at) invalidated index at
	// 1024j-1, 1024j, 1024j+1 for every chunk incl. the two after the last, at size-1, size, size+1
	// and far beyond the size (pad_left then appends empty chunks past the output set)
	let mut n_edge = 0u64;
	let mut n_edge_err = 0u64;
	let mut n_beyond = 0u64;
	let sizes: Vec<u64> = if thorough {
		vec![0, 1, 2, 1023, 1024, 1025, 2047, 2048, 2049, 3071, 3072, 3073, 4095, 4096, 4097, 5120]
	} else {
		vec![0, 1, 1023, 1024, 1025, 2047, 2048, 2049, 3072, 3073]
	};
	let mut call = |out: &mut Out, acc: &mut BitmapAccumulator, inval: Option<Vec<u64>>, idx: Vec<u64>, size: u64| {
		let r = match catch(AssertUnwindSafe(|| match &inval {
			None => acc.init(idx.clone(), size),
			Some(iv) => acc.apply(iv.clone(), idx.clone(), size),
		})) {
			Ok(Ok(())) => acc_str(acc),
			Ok(Err(_)) => {
				n_edge_err += 1;
				"err".to_string()
			}
			Err(_) => "panic".to_string(),
		};
		n_edge += 1;
		match inval {
			None => out.line(&format!("bitmap rawinit {} {}", nat_list(&idx), size), &r),
			Some(iv) => out.line(&format!("bitmap rawapply {} {} {}", nat_list(&iv), nat_list(&idx), size), &r),
		}
	};
	for &size in &sizes {
		let near: Vec<u64> = (0..size).filter(|x| x % NBITS <= 1 || x % NBITS >= NBITS - 2).collect();
		let last_only: Vec<u64> = if size > 0 { vec![size - 1] } else { vec![] };
		let sparse: Vec<u64> = (0..size).step_by(97).collect();
		for (si, u) in [near, last_only, sparse].iter().enumerate() {
			let mut invals: Vec<u64> = vec![];
			for j in 0..=(size / NBITS + 2) {
				for d in [-1i64, 0, 1] {
					let v = (j * NBITS) as i64 + d;
					if v >= 0 {
						invals.push(v as u64);
					}
				}
			}
			invals.extend([size.saturating_sub(1), size, size + 1, size + 1023, size + 1024, size + 1025, size + 5000]);
			invals.sort_unstable();
			invals.dedup();
			for &iv in &invals {
				if iv >= size {
					n_beyond += 1;
				}
				out.raw("bitmap new 0");
				let mut acc = BitmapAccumulator::new();
				call(out, &mut acc, None, u.clone(), size);
				// what the chain hands over: the unspent indices from the start of the invalidated chunk,
				// here with some of them spent
				let from = BitmapAccumulator::chunk_start_idx(iv);
				let idx2: Vec<u64> = u.iter().cloned().filter(|x| *x >= from && rng.chance(7, 8)).collect();
				call(out, &mut acc, Some(vec![iv]), idx2, size);
				// then the output set grows / shrinks by one leaf across the boundary
				let size2 = if si % 2 == 0 { size + 1 } else { size.saturating_sub(1) };
				let iv2 = iv.min(size2.saturating_sub(1));
				let from2 = BitmapAccumulator::chunk_start_idx(iv2);
				let mut idx3: Vec<u64> = u.iter().cloned().filter(|x| *x >= from2 && *x < size2).collect();
				if size2 > size {
					idx3.push(size);
				}
				call(out, &mut acc, Some(vec![iv2]), idx3, size2);
			}
		}
	}
	drop(call);
	// --- the derived view `as_bitmap()` on chunk patterns with ALL-ZERO chunks in the middle: a
	// 1024-aligned fully spent run of 1..3 chunks followed by unspent leaves (>= 1025 leaves),
	// reached by init and by apply; every set bit is printed and compared (not only the root)
	let mut n_zero_mid = 0u64;
	let asbitmap_line = |out: &mut Out, acc: &BitmapAccumulator, expect: &[u64], how: &str| {
		let r = match catch(AssertUnwindSafe(|| acc.as_bitmap())) {
			Ok(Ok(b)) => {
				let v: Vec<u64> = b.iter().map(|x| x as u64).collect();
				if v != expect {
					out.raw(&format!(
						"#ORACLE-FAIL C15 as_bitmap() of an accumulator with all-zero chunks in the middle is not the set of set bits ({}): expected {} got {}",
						how,
						nat_list(expect),
						nat_list(&v)
					));
				}
				nat_list(&v)
			}
			Ok(Err(_)) => "err".to_string(),
			Err(_) => "panic".to_string(),
		};
		out.line("bitmap asbitmap", &r);
	};
	for zero_from in 0..3u64 {
		for zero_len in 1..=3u64 {
			for tail in [1u64, 2, 1023, 1024, 1025] {
				let start = zero_from * NBITS;
				let end = start + zero_len * NBITS;
				let size = end + tail;
				let mut u: Vec<u64> = vec![];
				for c in 0..zero_from {
					u.extend([c * NBITS, c * NBITS + 1 + rng.below(1000), c * NBITS + 1023]);
				}
				let mut t: Vec<u64> = vec![end, size - 1];
				if tail > 2 {
					t.push(end + 1 + rng.below(tail - 2));
				}
				t.sort_unstable();
				t.dedup();
				u.extend(t);
				// (a) from scratch
				out.raw("bitmap new 0");
				let mut acc = BitmapAccumulator::new();
				let r = match catch(AssertUnwindSafe(|| acc.init(u.clone(), size))) {
					Ok(Ok(())) => acc_str(&acc),
					Ok(Err(_)) => "err".to_string(),
					Err(_) => "panic".to_string(),
				};
				out.line(&format!("bitmap rawinit {} {}", nat_list(&u), size), &r);
				asbitmap_line(out, &acc, &u, "init");
				// (b) incrementally: everything unspent in the run first, then the whole run spent
				let mut full: Vec<u64> = u.iter().cloned().filter(|x| *x < start).collect();
				full.extend(start..end);
				full.extend(u.iter().cloned().filter(|x| *x >= end));
				out.raw("bitmap new 0");
				let mut acc = BitmapAccumulator::new();
				let r = match catch(AssertUnwindSafe(|| acc.init(full.clone(), size))) {
					Ok(Ok(())) => acc_str(&acc),
					Ok(Err(_)) => "err".to_string(),
					Err(_) => "panic".to_string(),
				};
				out.line(&format!("bitmap rawinit {} {}", nat_list(&full), size), &r);
				let idx: Vec<u64> = u.iter().cloned().filter(|x| *x >= start).collect();
				let inval: Vec<u64> = vec![start, start + 1023];
				let r = match catch(AssertUnwindSafe(|| acc.apply(inval.clone(), idx.clone(), size))) {
					Ok(Ok(())) => acc_str(&acc),
					Ok(Err(_)) => "err".to_string(),
					Err(_) => "panic".to_string(),
				};
				out.line(&format!("bitmap rawapply {} {} {}", nat_list(&inval), nat_list(&idx), size), &r);
				asbitmap_line(out, &acc, &u, "apply spending the whole run");
				n_zero_mid += 2;
			}
		}
	}
	out.raw(&format!(
		"#STAT raw as_bitmap() compared bit by bit on accumulators with 1..3 all-zero chunks in the middle followed by unspent leaves={}",
		n_zero_mid
	));
	out.raw(&format!(
		"#STAT raw chunk-boundary init/apply calls={} errors={} with the invalidated index at or beyond the size={}",
		n_edge, n_edge_err, n_beyond
	));
	// --- TxHashSetRoots::validate: a header committing to another bitmap root must be refused (version >= 3)
	let mut n_tamper = 0u64;
	for _ in 0..(if thorough { 600 } else { 120 }) {
		let ver = rng.range(1, 5) as u16;
		let pmmr_root = Hash::from_vec(&rng.bytes(32));
		let n = rng.range(1, 5000);
		let u: Vec<u64> = (0..n).filter(|_| rng.chance(1, 3)).collect();
		let bitmap_root = {
			let mut a = BitmapAccumulator::new();
			a.init(u.iter().cloned(), n).unwrap();
			a.root()
		};
		let size = pmmr::insertion_to_pmmr_index(n);
		let roots = TxHashSetRoots {
			output_roots: OutputRoots { pmmr_root, bitmap_root },
			rproof_root: ZERO_HASH,
			kernel_root: ZERO_HASH,
		};
		let mut header = BlockHeader::default();
		header.version = HeaderVersion(ver);
		header.output_mmr_size = size;
		header.range_proof_root = ZERO_HASH;
		header.kernel_root = ZERO_HASH;
		// honest header
		header.output_root = roots.output_root(&header);
		let honest = roots.validate(&header).is_ok();
		if !honest {
			out.raw(&format!("#ORACLE-FAIL C15 honest header refused: version {} size {}", ver, size));
		}
		out.line(
			&format!(
				"bitmap merged {} {} {} {} {}",
				ver,
				hex(pmmr_root.as_bytes()),
				hex(bitmap_root.as_bytes()),
				size,
				hex(header.output_root.as_bytes())
			),
			if honest { "ok" } else { "invalid" },
		);
		// header that commits to another bitmap (one output more spent / unspent, or random root)
		let other_root = if rng.chance(1, 4) {
			Hash::from_vec(&rng.bytes(32))
		} else {
			let mut u2: BTreeSet<u64> = u.iter().cloned().collect();
			let flip = rng.below(n);
			if !u2.remove(&flip) {
				u2.insert(flip);
			}
			let mut a = BitmapAccumulator::new();
			a.init(u2.iter().cloned(), n).unwrap();
			a.root()
		};
		if other_root == bitmap_root {
			continue;
		}
		let other = TxHashSetRoots {
			output_roots: OutputRoots { pmmr_root, bitmap_root: other_root },
			rproof_root: ZERO_HASH,
			kernel_root: ZERO_HASH,
		};
		header.output_root = other.output_root(&header);
		let accepted = roots.validate(&header).is_ok();
		n_tamper += 1;
		if ver >= 3 && accepted {
			out.raw(&format!(
				"#ORACLE-FAIL C15 header committing to another bitmap root accepted: version {} size {} bitmap_root {} header commits to {}",
				ver,
				size,
				hex(bitmap_root.as_bytes()),
				hex(other_root.as_bytes())
			));
		}
		out.line(
			&format!(
				"bitmap merged {} {} {} {} {}",
				ver,
				hex(pmmr_root.as_bytes()),
				hex(bitmap_root.as_bytes()),
				size,
				hex(header.output_root.as_bytes())
			),
			if accepted { "ok" } else { "invalid" },
		);
	}
	out.raw(&format!("#STAT tampered-bitmap-root headers={} (versions 1-2 do not commit to the bitmap: accepted there by design)", n_tamper));
}


// ---------------------------------------------------------------------------------------------
// `ext`: the REAL `Extension::{apply_block, rewind}` on an on-disk TxHashSet, synthetic blocks.
// Nothing at this level verifies signatures, range proofs or PoW, so blocks are just unique
// dummy commitments; what is exercised is how the Extension collects `affected_pos` (new output
// pos + spent pos in apply_block; spent pos + output_pmmr.size per rewound block, aggregated over
// all rewound blocks, in rewind) and hands it to the bitmap accumulator.
// ---------------------------------------------------------------------------------------------

struct Obs {
	acc: String,
	committed: String,
	scratch: String,
	leaf_set: Vec<u64>,
	merged_lines: Vec<(String, String)>,
	oracle_msgs: Vec<String>,
}

/// observe the extension: committed bitmap root, the accumulator, the from-scratch accumulator
/// over the extension's actual output PMMR, and validate_roots on an honest / a tampered header
fn observe(ext: &mut ExtensionPair<'_>, header: &BlockHeader, rng_flip: u64) -> Result<Obs, grin_chain::Error> {
	let roots = ext.extension.roots()?;
	let committed = roots.output_roots.bitmap_root;
	let (scratch_root, leaf_set, nl) = {
		let pmmr = ext.extension.output_readonly_pmmr();
		let nl = pmmr::n_leaves(pmmr.unpruned_size());
		let leaf_set: Vec<u64> = pmmr.leaf_idx_iter(0).collect();
		let mut a = BitmapAccumulator::new();
		a.init(&mut pmmr.leaf_idx_iter(0), nl)?;
		(a.root(), leaf_set, nl)
	};
	let acc = ext.extension.bitmap_accumulator();
	let mut merged_lines = vec![];
	let mut oracle_msgs = vec![];
	if header.height > 0 {
		let mut h = header.clone();
		h.range_proof_root = roots.rproof_root;
		h.kernel_root = roots.kernel_root;
		h.output_root = roots.output_root(&h);
		let honest = ext.extension.validate_roots(&h).is_ok();
		if !honest {
			oracle_msgs.push(format!("header committing to the true bitmap root refused by validate_roots at height {}", h.height));
		}
		let v: u16 = h.version.into();
		merged_lines.push((
			format!(
				"bitmap merged {} {} {} {} {}",
				v,
				hex(roots.output_roots.pmmr_root.as_bytes()),
				hex(committed.as_bytes()),
				h.output_mmr_size,
				hex(h.output_root.as_bytes())
			),
			(if honest { "ok" } else { "invalid" }).to_string(),
		));
		// a header committing to another bitmap: one output more spent / unspent
		if nl > 0 {
			let mut u2: BTreeSet<u64> = leaf_set.iter().cloned().collect();
			let flip = rng_flip % nl;
			if !u2.remove(&flip) {
				u2.insert(flip);
			}
			let mut a = BitmapAccumulator::new();
			a.init(u2.iter().cloned(), nl)?;
			let other_root = a.root();
			if other_root != committed {
				let other = OutputRoots {
					pmmr_root: roots.output_roots.pmmr_root,
					bitmap_root: other_root,
				};
				h.output_root = other.root(&h);
				let accepted = ext.extension.validate_roots(&h).is_ok();
				if accepted && v >= 3 {
					oracle_msgs.push(format!(
						"header committing to another bitmap (leaf {} flipped) accepted by validate_roots at height {}",
						flip, h.height
					));
				}
				merged_lines.push((
					format!(
						"bitmap merged {} {} {} {} {}",
						v,
						hex(roots.output_roots.pmmr_root.as_bytes()),
						hex(committed.as_bytes()),
						h.output_mmr_size,
						hex(h.output_root.as_bytes())
					),
					(if accepted { "ok" } else { "invalid" }).to_string(),
				));
			}
		}
	}
	let hs = |h: Hash| if h == ZERO_HASH { "zero".to_string() } else { hex(h.as_bytes()) };
	Ok(Obs {
		acc: acc_str(&acc),
		committed: hs(committed),
		scratch: hs(scratch_root),
		leaf_set,
		merged_lines,
		oracle_msgs,
	})
}

#[derive(Default)]
struct XStats {
	ro_rewinds: u64,
	ro_same_card: u64,
	ro_cross: u64,
	ro_then_block: u64,
	ro_then_restart: u64,
	balanced_blocks: u64,
	discarded: u64,
	discarded_old_chunk: u64,
	histories: u64,
	blocks: u64,
	growth_blocks: u64,
	fork_blocks: u64,
	rewinds: u64,
	depth: [u64; 5],
	rewinds_cross: u64,
	rewinds_newer_older_chunk: u64,
	restarts: u64,
	max_n: u64,
	max_chunks: u64,
	oracle_evals: u64,
	validate_honest: u64,
	validate_tampered: u64,
	pat: std::collections::BTreeMap<&'static str, u64>,
}

struct XChain {
	dir: String,
	store: Arc<ChainStore>,
	header_pmmr: PMMRHandle<BlockHeader>,
	txhs: Option<TxHashSet>,
	/// current chain path, index = height
	headers: Vec<BlockHeader>,
	/// per height >= 1
	recs: Vec<BlockRec>,
	n: u64,
	unspent: BTreeSet<u64>,
	/// commitment of leaf idx (truncated on rewind)
	commits: Vec<Commitment>,
	counter: u64,
	log: Vec<String>,
}

fn fake_commit(n: u64) -> Commitment {
	let mut v = vec![0u8; 33];
	v[0] = 0x09;
	v[1..9].copy_from_slice(&n.to_be_bytes());
	v[32] = 1;
	Commitment::from_vec(v)
}

fn xerr<T, E: std::fmt::Debug>(r: Result<T, E>, what: &str) -> T {
	match r {
		Ok(v) => v,
		Err(e) => {
			eprintln!("bitmap ext: {} failed: {:?}", what, e);
			std::process::exit(3);
		}
	}
}

impl XChain {
	fn new(dir: String) -> XChain {
		let _ = std::fs::remove_dir_all(&dir);
		xerr(std::fs::create_dir_all(&dir), "mkdir");
		let store = Arc::new(xerr(ChainStore::new(&dir, None), "ChainStore::new"));
		let txhs = xerr(TxHashSet::open(dir.clone(), store.clone(), None), "TxHashSet::open");
		let header_pmmr = xerr(
			PMMRHandle::<BlockHeader>::new(
				Path::new(&dir).join("header").join("header_head"),
				false,
				ProtocolVersion(1),
				None,
			),
			"header PMMRHandle",
		);
		let genesis = BlockHeader::default();
		{
			let mut batch = xerr(store.batch(), "batch");
			xerr(batch.save_block_header(&genesis), "save genesis header");
			xerr(batch.save_block(&Block::with_header(genesis.clone())), "save genesis");
			let tip = Tip::from_header(&genesis);
			xerr(batch.save_body_head(&tip), "body head");
			xerr(batch.save_header_head(&tip), "header head");
			xerr(batch.commit(), "commit");
		}
		XChain {
			dir,
			store,
			header_pmmr,
			txhs: Some(txhs),
			headers: vec![genesis],
			recs: vec![],
			n: 0,
			unspent: BTreeSet::new(),
			commits: vec![],
			counter: 0,
			log: vec![],
		}
	}

	/// after every step: self-check of the harness bookkeeping, driver lines, oracle in Rust
	fn report(&mut self, out: &mut Out, st: &mut XStats, lhs: &str, obs: Obs) {
		let tracked: Vec<u64> = self.unspent.iter().cloned().collect();
		if tracked != obs.leaf_set {
			eprintln!(
				"bitmap ext: harness bookkeeping differs from the real leaf set after {} (history: {})",
				lhs,
				self.log.join("; ")
			);
			std::process::exit(3);
		}
		st.max_n = st.max_n.max(self.n);
		st.max_chunks = st.max_chunks.max((self.n + NBITS - 1) / NBITS);
		// model line: the accumulator the Extension holds vs the model's extApply with the
		// affected positions derived from the block contents
		out.line(lhs, &obs.acc);
		// property oracle on the real code
		st.oracle_evals += 1;
		if obs.committed != obs.scratch {
			out.raw(&format!(
				"#ORACLE-FAIL C15 committed bitmap root differs from the from-scratch root of the actual unspent set: committed {} scratch {} after [{}]",
				obs.committed,
				obs.scratch,
				self.log.join("; ")
			));
		}
		// the same against the model's from-scratch root (cmpSpec)
		out.line("bitmap scratch", &obs.committed);
		for m in &obs.oracle_msgs {
			out.raw(&format!("#ORACLE-FAIL C15 {} after [{}]", m, self.log.join("; ")));
		}
		for (i, (l, r)) in obs.merged_lines.iter().enumerate() {
			if i == 0 {
				st.validate_honest += 1
			} else {
				st.validate_tampered += 1
			}
			out.line(l, r);
		}
	}

	fn apply_block(&mut self, out: &mut Out, st: &mut XStats, rng: &mut Rng, k: u64, spent: Vec<u64>) {
		let n_before = self.n;
		let proof = RangeProof {
			proof: [0; MAX_PROOF_SIZE],
			plen: MAX_PROOF_SIZE,
		};
		let outputs: Vec<Output> = (0..k)
			.map(|_| {
				self.counter += 1;
				Output::new(OutputFeatures::Plain, fake_commit(self.counter), proof)
			})
			.collect();
		let inputs: Vec<Input> = spent
			.iter()
			.map(|i| Input::new(OutputFeatures::Plain, self.commits[*i as usize]))
			.collect();
		let body = xerr(
			TransactionBody::init(Inputs::from(&inputs[..]), &outputs, &[], false),
			"TransactionBody::init",
		);
		let prev = self.headers.last().unwrap().clone();
		let mut header = BlockHeader::default();
		header.version = HeaderVersion(5);
		header.height = prev.height + 1;
		header.prev_hash = prev.hash();
		self.counter += 1;
		header.pow.nonce = self.counter;
		*header.pow.proof.nonces.last_mut().unwrap() = self.counter;
		header.output_mmr_size = pmmr::insertion_to_pmmr_index(n_before + k);
		header.kernel_mmr_size = 0;
		let block = Block { header, body };
		for o in block.outputs() {
			self.commits.push(o.commitment());
		}
		for i in n_before..n_before + k {
			self.unspent.insert(i);
		}
		for s in &spent {
			self.unspent.remove(s);
		}
		self.n = n_before + k;
		self.log.push(format!("block h={} k={} spent={}", block.header.height, k, nat_list(&spent)));
		let flip = rng.next();
		let obs = {
			let mut batch = xerr(self.store.batch(), "batch");
			xerr(batch.save_block_header(&block.header), "save_block_header");
			xerr(batch.save_block(&block), "save_block");
			let obs = xerr(
				txhashset::extending(
					&mut self.header_pmmr,
					self.txhs.as_mut().unwrap(),
					&mut batch,
					|ext, batch| {
						ext.extension.apply_block(&block, ext.header_extension, batch)?;
						observe(ext, &block.header, flip)
					},
				),
				"extending/apply_block",
			);
			let tip = Tip::from_header(&block.header);
			xerr(batch.save_body_head(&tip), "body head");
			xerr(batch.save_header_head(&tip), "header head");
			xerr(batch.commit(), "commit");
			obs
		};
		self.headers.push(block.header.clone());
		self.recs.push(BlockRec { n_before, spent: spent.clone() });
		st.blocks += 1;
		self.report(out, st, &format!("bitmap block {} {}", k, nat_list(&spent)), obs);
	}

	/// ONE `Extension::rewind` call over `depth` blocks
	fn rewind(&mut self, out: &mut Out, st: &mut XStats, rng: &mut Rng, depth: usize) {
		let n_old = self.n;
		let target_h = self.headers.len() - 1 - depth;
		let target = self.headers[target_h].clone();
		// what the Extension must collect: for each rewound block, newest first,
		// its spent pos, then output_pmmr.size after rewinding it
		let mut affected: Vec<u64> = vec![];
		let mut restored: BTreeSet<u64> = BTreeSet::new();
		let mut min_chunk_per_block: Vec<u64> = vec![];
		for _ in 0..depth {
			let b = self.recs.pop().unwrap();
			self.headers.pop();
			let mut minc = u64::MAX;
			for s in &b.spent {
				affected.push(pos1(*s));
				restored.insert(*s);
				minc = minc.min(*s / NBITS);
			}
			affected.push(pmmr::insertion_to_pmmr_index(b.n_before));
			minc = minc.min(b.n_before.saturating_sub(1) / NBITS);
			min_chunk_per_block.push(minc);
			self.n = b.n_before;
		}
		let n_new = self.n;
		self.commits.truncate(n_new as usize);
		self.unspent = self.unspent.iter().cloned().filter(|x| *x < n_new).collect();
		let restored: Vec<u64> = restored.into_iter().filter(|x| *x < n_new).collect();
		for r in &restored {
			self.unspent.insert(*r);
		}
		self.log.push(format!("rewind depth={} to h={} n={}", depth, target_h, n_new));
		let flip = rng.next();
		let obs = {
			let mut batch = xerr(self.store.batch(), "batch");
			let obs = xerr(
				txhashset::extending(
					&mut self.header_pmmr,
					self.txhs.as_mut().unwrap(),
					&mut batch,
					|ext, batch| {
						ext.extension.rewind(&target, batch)?;
						observe(ext, &target, flip)
					},
				),
				"extending/rewind",
			);
			let tip = Tip::from_header(&target);
			xerr(batch.save_body_head(&tip), "body head");
			xerr(batch.save_header_head(&tip), "header head");
			xerr(batch.commit(), "commit");
			obs
		};
		st.rewinds += 1;
		st.depth[depth.min(4)] += 1;
		if n_new == 0 || (n_old > 0 && (n_new - 1) / NBITS < (n_old - 1) / NBITS) {
			st.rewinds_cross += 1;
		}
		// min_chunk_per_block is newest-first; the oldest rewound block is the last entry
		if depth >= 2 {
			let oldest = *min_chunk_per_block.last().unwrap();
			if min_chunk_per_block[..depth - 1].iter().any(|c| *c < oldest) {
				st.rewinds_newer_older_chunk += 1;
			}
		}
		self.report(
			out,
			st,
			&format!("bitmap rewind {} {} {}", n_new, nat_list(&restored), nat_list(&affected)),
			obs,
		);
	}

	/// A fork block processed and then discarded, the way `pipe::process_block` treats a block
	/// that does not become head (`force_rollback`) or that fails late (`Err` out of the closure):
	/// inside ONE `txhashset::extending` call rewind `depth` blocks, apply a sibling with other
	/// spends, then roll everything back. Nothing may remain: the accumulator the TxHashSet holds
	/// must still be the one of the head state.
	fn discarded_fork(&mut self, out: &mut Out, st: &mut XStats, rng: &mut Rng, depth: usize, fail: bool) {
		let target_h = self.headers.len() - 1 - depth;
		let target = self.headers[target_h].clone();
		// the state at the fork point: undo the bookkeeping of the last `depth` blocks on a copy
		let mut unspent_t = self.unspent.clone();
		let mut n_t = self.n;
		for b in self.recs.iter().rev().take(depth) {
			unspent_t = unspent_t.into_iter().filter(|x| *x < b.n_before).collect();
			for s in &b.spent {
				if *s < b.n_before {
					unspent_t.insert(*s);
				}
			}
			n_t = b.n_before;
		}
		if n_t == 0 {
			return;
		}
		// the sibling spends old-chunk outputs that the branch being kept did NOT spend (they are
		// still unspent at the head too) and leaves alone what the kept branch spent
		let cands: Vec<u64> = unspent_t.iter().cloned().filter(|x| self.unspent.contains(x) && *x + 1 < n_t).collect();
		let mut spent: Vec<u64> = vec![];
		for _ in 0..rng.range(1, 4) {
			if cands.is_empty() {
				break;
			}
			let c = cands[rng.below(cands.len() as u64) as usize];
			if !spent.contains(&c) {
				spent.push(c);
			}
		}
		if let Some(first) = cands.first() {
			if rng.chance(1, 2) && !spent.contains(first) {
				spent.push(*first);
			}
		}
		spent.sort_unstable();
		let k = rng.range(1, 5);
		let proof = RangeProof {
			proof: [0; MAX_PROOF_SIZE],
			plen: MAX_PROOF_SIZE,
		};
		let outputs: Vec<Output> = (0..k)
			.map(|_| {
				self.counter += 1;
				Output::new(OutputFeatures::Plain, fake_commit(self.counter), proof)
			})
			.collect();
		let inputs: Vec<Input> = spent
			.iter()
			.map(|i| Input::new(OutputFeatures::Plain, self.commits[*i as usize]))
			.collect();
		let body = xerr(
			TransactionBody::init(Inputs::from(&inputs[..]), &outputs, &[], false),
			"TransactionBody::init",
		);
		let mut header = BlockHeader::default();
		header.version = HeaderVersion(5);
		header.height = target.height + 1;
		header.prev_hash = target.hash();
		self.counter += 1;
		header.pow.nonce = self.counter;
		*header.pow.proof.nonces.last_mut().unwrap() = self.counter;
		header.output_mmr_size = pmmr::insertion_to_pmmr_index(n_t + k);
		header.kernel_mmr_size = 0;
		let block = Block { header, body };
		self.log.push(format!(
			"discarded fork block on h={} (depth {}) k={} spent={} ({})",
			target_h,
			depth,
			k,
			nat_list(&spent),
			if fail { "closure fails" } else { "force_rollback" }
		));
		{
			let mut batch = xerr(self.store.batch(), "batch");
			let r = txhashset::extending(&mut self.header_pmmr, self.txhs.as_mut().unwrap(), &mut batch, |ext, batch| {
				ext.extension.rewind(&target, batch)?;
				ext.extension.apply_block(&block, ext.header_extension, batch)?;
				if fail {
					return Err(grin_chain::Error::Other("late failure of a fork block".into()));
				}
				ext.extension.force_rollback();
				Ok(())
			});
			if r.is_ok() == fail {
				eprintln!("bitmap ext: discarded fork: unexpected result {:?}", r.map(|_| ()));
				std::process::exit(3);
			}
			// the batch is dropped, nothing is committed
		}
		let head = self.headers.last().unwrap().clone();
		let flip = rng.next();
		let obs = xerr(
			txhashset::extending_readonly(&mut self.header_pmmr, self.txhs.as_mut().unwrap(), |ext, _batch| {
				observe(ext, &head, flip)
			}),
			"extending_readonly",
		);
		st.discarded += 1;
		if spent.iter().any(|x| *x / NBITS < (self.n - 1) / NBITS) {
			st.discarded_old_chunk += 1;
		}
		// same observation as after a restart: the model's state is unchanged
		self.report(out, st, "bitmap reopen", obs);
	}

	/// A READ-ONLY rewind that is then discarded, the way `Chain::get_merkle_proof`,
	/// `txhashset_read` and the segmenter use `txhashset::extending_readonly`: rewind `depth`
	/// blocks inside the read-only extension, observe the rewound state there (accumulator,
	/// committed = from-scratch root, leaf set = unspent set at the target), leave. Afterwards the
	/// head state must be untouched: leaf set (element by element, not its cardinality), the
	/// accumulator the TxHashSet holds, the committed root. Returns false when the history cannot
	/// go on (an oracle failure was printed).
	fn readonly_rewind(&mut self, out: &mut Out, st: &mut XStats, rng: &mut Rng, depth: usize) -> bool {
		let target_h = self.headers.len() - 1 - depth;
		let target = self.headers[target_h].clone();
		let mut affected: Vec<u64> = vec![];
		let mut restored: BTreeSet<u64> = BTreeSet::new();
		let mut n_t = self.n;
		for b in self.recs.iter().rev().take(depth) {
			for s in &b.spent {
				affected.push(pos1(*s));
				restored.insert(*s);
			}
			affected.push(pmmr::insertion_to_pmmr_index(b.n_before));
			n_t = b.n_before;
		}
		let mut unspent_t: BTreeSet<u64> = self.unspent.iter().cloned().filter(|x| *x < n_t).collect();
		let restored: Vec<u64> = restored.into_iter().filter(|x| *x < n_t).collect();
		for r in &restored {
			unspent_t.insert(*r);
		}
		self.log.push(format!("read-only rewind depth={} to h={} n={} then discard", depth, target_h, n_t));
		let flip = rng.next();
		let inside = xerr(
			txhashset::extending_readonly(&mut self.header_pmmr, self.txhs.as_mut().unwrap(), |ext, batch| {
				ext.extension.rewind(&target, batch)?;
				observe(ext, &target, flip)
			}),
			"extending_readonly/rewind",
		);
		st.ro_rewinds += 1;
		if unspent_t.len() == self.unspent.len() {
			st.ro_same_card += 1;
		}
		if n_t == 0 || (n_t - 1) / NBITS < (self.n - 1) / NBITS {
			st.ro_cross += 1;
		}
		let exp: Vec<u64> = unspent_t.iter().cloned().collect();
		if inside.leaf_set != exp {
			out.raw(&format!(
				"#ORACLE-FAIL C15 leaf set inside a read-only rewind is not the unspent set at the target (expected {} entries, got {}; first difference at {:?}) after [{}]",
				exp.len(),
				inside.leaf_set.len(),
				exp.iter().zip(inside.leaf_set.iter()).find(|(a, b)| a != b),
				self.log.join("; ")
			));
		}
		out.line(
			&format!("bitmap peekrewind {} {} {}", n_t, nat_list(&restored), nat_list(&affected)),
			&inside.acc,
		);
		if inside.committed != inside.scratch {
			out.raw(&format!(
				"#ORACLE-FAIL C15 bitmap root inside a read-only rewind differs from the from-scratch root of the rewound unspent set: {} scratch {} after [{}]",
				inside.committed,
				inside.scratch,
				self.log.join("; ")
			));
		}
		for m in &inside.oracle_msgs {
			out.raw(&format!("#ORACLE-FAIL C15 {} (inside a read-only rewind) after [{}]", m, self.log.join("; ")));
		}
		for (l, r) in &inside.merged_lines {
			out.line(l, r);
		}
		// after the discard
		let head = self.headers.last().unwrap().clone();
		let flip = rng.next();
		let obs = xerr(
			txhashset::extending_readonly(&mut self.header_pmmr, self.txhs.as_mut().unwrap(), |ext, _batch| {
				observe(ext, &head, flip)
			}),
			"extending_readonly",
		);
		let tracked: Vec<u64> = self.unspent.iter().cloned().collect();
		if obs.leaf_set != tracked {
			let only_real: Vec<u64> = obs.leaf_set.iter().cloned().filter(|x| !self.unspent.contains(x)).take(8).collect();
			let real: BTreeSet<u64> = obs.leaf_set.iter().cloned().collect();
			let only_exp: Vec<u64> = tracked.iter().cloned().filter(|x| !real.contains(x)).take(8).collect();
			out.raw(&format!(
				"#ORACLE-FAIL C15 a discarded read-only rewind changed the leaf set of the head state: {} entries before, {} after; now unspent but should not be {:?}; missing {:?}; committed bitmap root {} from-scratch root of the leaf set now {} after [{}]",
				tracked.len(),
				obs.leaf_set.len(),
				only_real,
				only_exp,
				obs.committed,
				obs.scratch,
				self.log.join("; ")
			));
			return false;
		}
		self.report(out, st, "bitmap reopen", obs);
		true
	}

	/// a block with as many spends as outputs (the leaf set keeps its cardinality)
	fn balanced_block(&mut self, out: &mut Out, st: &mut XStats, rng: &mut Rng) {
		let cands: Vec<u64> = self.unspent.iter().cloned().filter(|x| *x + 1 < self.n).collect();
		if cands.is_empty() {
			return;
		}
		let k = rng.range(1, 4).min(cands.len() as u64);
		let mut spent: Vec<u64> = vec![];
		while (spent.len() as u64) < k {
			let c = cands[rng.below(cands.len() as u64) as usize];
			if !spent.contains(&c) {
				spent.push(c);
			}
		}
		spent.sort_unstable();
		st.balanced_blocks += 1;
		self.apply_block(out, st, rng, k, spent);
	}

	fn restart(&mut self, out: &mut Out, st: &mut XStats, rng: &mut Rng) {
		self.txhs = None; // drop: closes the backend files
		self.txhs = Some(xerr(
			TxHashSet::open(self.dir.clone(), self.store.clone(), None),
			"TxHashSet::open (restart)",
		));
		self.log.push("restart".to_string());
		let head = self.headers.last().unwrap().clone();
		let flip = rng.next();
		let obs = xerr(
			txhashset::extending_readonly(&mut self.header_pmmr, self.txhs.as_mut().unwrap(), |ext, _batch| {
				observe(ext, &head, flip)
			}),
			"extending_readonly",
		);
		st.restarts += 1;
		self.report(out, st, "bitmap reopen", obs);
	}
}

/// spends for the `ext` histories, placed per the quantifier text
fn pick_spends_ext(rng: &mut Rng, cands: &BTreeSet<u64>, n: u64, st: &mut XStats) -> Vec<u64> {
	if cands.is_empty() || n == 0 {
		return vec![];
	}
	let last_chunk = (n - 1) / NBITS;
	let in_chunk = |c: u64| -> Vec<u64> { cands.range(c * NBITS..(c + 1) * NBITS).cloned().collect() };
	let few = |rng: &mut Rng, v: Vec<u64>, max: u64| -> Vec<u64> {
		let mut r = vec![];
		if v.is_empty() {
			return r;
		}
		for _ in 0..rng.range(1, max) {
			r.push(*rng.pick(&v));
		}
		r
	};
	let (name, mut v): (&'static str, Vec<u64>) = match rng.below(9) {
		0 => ("none", vec![]),
		1 | 2 => {
			let c = rng.below(last_chunk.max(1));
			("old-chunk", few(rng, in_chunk(c), 6))
		}
		3 => ("chunk-0", few(rng, in_chunk(0), 4)),
		4 | 5 => {
			let mut v = vec![];
			for c in 1..=last_chunk + 1 {
				for d in [c * NBITS - 1, c * NBITS] {
					if cands.contains(&d) && rng.chance(1, 2) {
						v.push(d);
					}
				}
			}
			("chunk-boundaries", v)
		}
		6 => ("last-partial", few(rng, in_chunk(last_chunk), 8)),
		7 => ("last-chunk-many", in_chunk(last_chunk).into_iter().filter(|_| rng.chance(1, 2)).collect()),
		_ => {
			let c = rng.below(last_chunk.max(1));
			("whole-old-chunk", in_chunk(c))
		}
	};
	*st.pat.entry(name).or_insert(0) += 1;
	v.sort_unstable();
	v.dedup();
	v
}

fn ext(out: &mut Out, rng: &mut Rng, thorough: bool) {
	let work = std::env::var("VERIF_WORK").unwrap_or_else(|_| "target/verif_work_bitmap".to_string());
	let mut st = XStats::default();
	let (nh, steps) = if thorough { (150, 45) } else { (14, 28) };
	for h in 0..nh {
		st.histories += 1;
		out.raw("bitmap new 2");
		let mut x = XChain::new(format!("{}/ext{}", work, h));
		// growth: blocks of 300-700 outputs up to 2000-4500 leaves, a few spends on the way
		let target = rng.range(2000, 4500);
		while x.n < target {
			let k = rng.range(300, 700);
			let spent = if x.n > 0 && rng.chance(1, 2) {
				let c = x.unspent.clone();
				pick_spends_ext(rng, &c, x.n, &mut st)
			} else {
				vec![]
			};
			x.apply_block(out, &mut st, rng, k, spent);
			st.growth_blocks += 1;
		}
		let base_blocks = x.recs.len();
		let mut since_rewind = 0u64;
		for _ in 0..steps {
			let kind = rng.below(24);
			let avail = x.recs.len().saturating_sub(1); // never rewind below the first block
			if kind >= 20 && avail >= 1 {
				// read-only rewind, discarded; often over a range of balanced blocks only
				let mut j = 0usize;
				if rng.chance(2, 3) {
					for _ in 0..rng.range(1, 3) {
						let before = x.recs.len();
						x.balanced_block(out, &mut st, rng);
						if x.recs.len() > before {
							j += 1;
						}
					}
				}
				let avail = x.recs.len() - 1;
				let depth = if j > 0 && rng.chance(1, 2) { j } else { rng.range(1, (avail as u64).min(4)) as usize };
				if !x.readonly_rewind(out, &mut st, rng, depth) {
					break;
				}
				match rng.below(3) {
					0 => {
						// the next committed block must start from a clean backend
						let c = x.unspent.clone();
						let spent = pick_spends_ext(rng, &c, x.n, &mut st);
						let k = rng.range(1, 6);
						x.apply_block(out, &mut st, rng, k, spent);
						st.ro_then_block += 1;
					}
					1 => {
						x.restart(out, &mut st, rng);
						st.ro_then_restart += 1;
					}
					_ => {}
				}
			} else if kind < 11 || avail == 0 {
				let to_boundary = NBITS - x.n % NBITS;
				let k = match rng.below(8) {
					0 => to_boundary,
					1 => to_boundary + 1,
					2 => (to_boundary - 1).max(1),
					3 => rng.range(20, 200),
					_ => rng.range(1, 6),
				};
				let c = x.unspent.clone();
				let spent = pick_spends_ext(rng, &c, x.n, &mut st);
				x.apply_block(out, &mut st, rng, k, spent);
				if x.recs.len() <= base_blocks || since_rewind > 0 {
					st.fork_blocks += 1;
				}
			} else if kind < 13 && avail >= 2 {
				// the shape the aggregate affected_pos is about: an older block that only touches
				// the last chunk, then a newer one spending in an old chunk, then ONE rewind of both
				let c = x.unspent.clone();
				let last_chunk = (x.n - 1) / NBITS;
				let s1: Vec<u64> = c.range(last_chunk * NBITS..).take(2).cloned().collect();
				let k1 = rng.range(1, 4);
				x.apply_block(out, &mut st, rng, k1, s1);
				let c = x.unspent.clone();
				let oc = rng.below(last_chunk.max(1));
				let mut s2: Vec<u64> = c.range(oc * NBITS..(oc + 1) * NBITS).cloned().collect();
				s2.truncate(rng.range(1, 3) as usize);
				let k2 = rng.range(1, 4);
				x.apply_block(out, &mut st, rng, k2, s2);
				*st.pat.entry("planned-newer-block-spends-older-chunk").or_insert(0) += 2;
				let extra = if rng.chance(1, 3) && x.recs.len() - 1 >= 3 { 1 } else { 0 };
				x.rewind(out, &mut st, rng, 2 + extra);
				since_rewind = 1;
			} else if kind < 16 {
				let depth = rng.range(1, (avail as u64).min(4)) as usize;
				x.rewind(out, &mut st, rng, depth);
				since_rewind = 1;
			} else if kind < 18 {
				let depth = rng.range(1, (avail as u64).min(3)) as usize;
				let fail = rng.chance(1, 3);
				x.discarded_fork(out, &mut st, rng, depth, fail);
			} else {
				x.restart(out, &mut st, rng);
			}
		}
		drop(x);
		let _ = std::fs::remove_dir_all(format!("{}/ext{}", work, h));
	}
	out.raw(&format!(
		"#STAT ext histories={} real Extension::apply_block calls={} (growth {} / after a rewind or beyond {}) Extension::rewind calls={} depth1={} depth2={} depth3={} depth4+={} restarts={}",
		st.histories, st.blocks, st.growth_blocks, st.fork_blocks, st.rewinds, st.depth[1], st.depth[2], st.depth[3], st.depth[4], st.restarts
	));
	out.raw(&format!(
		"#STAT ext max leaves={} max chunks={} rewinds shrinking across a chunk boundary={} multi-block rewinds where a NEWER rewound block touched an OLDER chunk than the oldest rewound block={}",
		st.max_n, st.max_chunks, st.rewinds_cross, st.rewinds_newer_older_chunk
	));
	out.raw(&format!(
		"#STAT ext fork blocks processed and discarded inside one extending() call (force_rollback or late error)={} of which spending in an older chunk than the last={}",
		st.discarded, st.discarded_old_chunk
	));
	out.raw(&format!(
		"#STAT ext read-only rewinds (extending_readonly + Extension::rewind, discarded)={} of which leaf-set cardinality equal before and after the rewind={} shrinking across a chunk boundary={} followed by a committed block={} followed by a restart={}; balanced blocks (k spends, k outputs)={}",
		st.ro_rewinds, st.ro_same_card, st.ro_cross, st.ro_then_block, st.ro_then_restart, st.balanced_blocks
	));
	out.raw(&format!("#STAT ext spend patterns {:?}", st.pat));
	out.raw(&format!(
		"#STAT ext oracle evaluations committed root = from-scratch root={} validate_roots honest headers={} tampered-bitmap headers={}",
		st.oracle_evals, st.validate_honest, st.validate_tampered
	));
}

fn main() {
	if std::env::var("VERIF_LOUD").is_err() {
		quiet_panics();
	}
	let args: Vec<String> = std::env::args().collect();
	let mode = args.get(1).map(|s| s.as_str()).unwrap_or("hist");
	// `ext` needs mainnet block weight (hundreds of outputs per block)
	grin_core::global::set_local_chain_type(if mode == "ext" {
		grin_core::global::ChainTypes::Mainnet
	} else {
		grin_core::global::ChainTypes::AutomatedTesting
	});
	let mut rng = Rng::new(seed_from_env() ^ match mode {
		"raw" => 0x5151,
		"ext" => 0xe7e7,
		_ => 0,
	});
	let mut out = Out::stdout();
	let thorough = tier_thorough();
	match mode {
		"hist" => hist(&mut out, &mut rng, thorough),
		"raw" => raw(&mut out, &mut rng, thorough),
		"ext" => ext(&mut out, &mut rng, thorough),
		_ => {
			eprintln!("usage: bitmap hist|raw|ext");
			std::process::exit(2);
		}
	}
	out.flush();
}
