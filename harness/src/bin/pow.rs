//! C05 correspondence: siphash, the five Cuckoo-cycle verifiers, Proof packing / difficulty.
//!
//! modes (first arg): `sip`, `exh`, `solve`, `pack`, `select`; internal: `hangprobe`.
//!
//! The siphash functions live in a private module of grin_core; the *real source file* is
//! compiled into this binary by path, so `siphash24` / `siphash_block` below are the code of
//! /repo's working tree. The siphash keys are observed from the real `CuckatooContext`
//! (`sipkey_hex`), which shares `CuckooParams::reset_header_nonce` with the other contexts.
#[allow(dead_code)]
#[path = "/repo/core/src/pow/siphash.rs"]
mod siphash;

use grin_core::global::{self, ChainTypes};
use grin_core::pow::{
	new_cuckaroo_ctx, new_cuckarood_ctx, new_cuckaroom_ctx, new_cuckarooz_ctx, new_cuckatoo_ctx,
	CuckatooContext, Error, PoWContext, Proof,
};
use grin_core::ser;
use gvharness::*;
use siphash::{siphash24, siphash_block};
use std::collections::HashMap;

#[derive(Clone, Copy, PartialEq, Eq, Debug)]
enum Var {
	Cuckatoo,
	Cuckaroo,
	Cuckarood,
	Cuckaroom,
	Cuckarooz,
}
const VARS: [Var; 5] = [
	Var::Cuckatoo,
	Var::Cuckaroo,
	Var::Cuckarood,
	Var::Cuckaroom,
	Var::Cuckarooz,
];

impl Var {
	fn name(self) -> &'static str {
		match self {
			Var::Cuckatoo => "cuckatoo",
			Var::Cuckaroo => "cuckaroo",
			Var::Cuckarood => "cuckarood",
			Var::Cuckaroom => "cuckaroom",
			Var::Cuckarooz => "cuckarooz",
		}
	}
	fn from_name(s: &str) -> Var {
		*VARS.iter().find(|v| v.name() == s).expect("variant")
	}
	fn ctx(self, eb: u8, ps: usize) -> Box<dyn PoWContext> {
		match self {
			Var::Cuckatoo => new_cuckatoo_ctx(eb, ps, 4).unwrap(),
			Var::Cuckaroo => new_cuckaroo_ctx(eb, ps).unwrap(),
			Var::Cuckarood => new_cuckarood_ctx(eb, ps).unwrap(),
			Var::Cuckaroom => new_cuckaroom_ctx(eb, ps).unwrap(),
			Var::Cuckarooz => new_cuckarooz_ctx(eb, ps).unwrap(),
		}
	}
	/// endpoints of edge `n` as each `verify` derives them inline
	fn ep(self, keys: &[u64; 4], eb: u8, n: u64) -> (u64, u64) {
		match self {
			Var::Cuckatoo => {
				let nm = (1u64 << eb) - 1;
				(siphash24(keys, 2 * n) & nm, siphash24(keys, 2 * n + 1) & nm)
			}
			_ => {
				let (nb, rot, xa) = match self {
					Var::Cuckaroo => (eb, 21, false),
					Var::Cuckarood => (eb - 1, 25, false),
					Var::Cuckaroom => (eb, 21, true),
					_ => (eb + 1, 21, true),
				};
				let nm = (1u64 << nb) - 1;
				let e = siphash_block(keys, n, rot, xa);
				(e & nm, (e >> 32) & nm)
			}
		}
	}
	/// vertex key of slot `s` (0 = u end, 1 = v end) of an edge
	fn vkey(self, s: usize, node: u64) -> u64 {
		match self {
			Var::Cuckaroo | Var::Cuckarood => ((s as u64) << 40) | node,
			Var::Cuckatoo => ((s as u64) << 40) | (node >> 1),
			Var::Cuckaroom | Var::Cuckarooz => node,
		}
	}
}

fn err_name(r: &Result<(), Error>) -> &'static str {
	match r {
		Ok(()) => "ok",
		Err(Error::Verification(s)) => match s.as_str() {
			"wrong cycle length" => "wronglen",
			"edge too big" => "toobig",
			"edges not ascending" => "notasc",
			"edges not balanced" => "notbal",
			"endpoints don't match up" => "nomatch",
			"branch in cycle" => "branch",
			"cycle dead ends" => "deadend",
			"cycle too short" => "tooshort",
			"cycle does not close" => "noclose",
			_ => "other",
		},
		Err(_) => "othererr",
	}
}
fn err_char(name: &str) -> char {
	match name {
		"ok" => 'A',
		"wronglen" => 'L',
		"toobig" => 'B',
		"notasc" => 'N',
		"notbal" => 'U',
		"nomatch" => 'X',
		"branch" => 'R',
		"deadend" => 'D',
		"tooshort" => 'S',
		"noclose" => 'C',
		"hang" => 'H',
		"panic" => 'P',
		_ => '?',
	}
}

/// header bytes for a seed
fn header(seed: u64) -> Vec<u8> {
	let mut h = vec![0u8; 80];
	h[..8].copy_from_slice(&seed.to_le_bytes());
	h
}

/// the siphash keys the real code derives (observed through the Cuckatoo context)
fn real_keys(hdr: &[u8], nonce: Option<u32>) -> [u64; 4] {
	let mut c = CuckatooContext::new_impl(10, 8, 1).unwrap();
	c.set_header_nonce_impl(hdr.to_vec(), nonce, false).unwrap();
	let mut k = [0u64; 4];
	for i in 0..4 {
		k[i] = u64::from_str_radix(&c.sipkey_hex(i).unwrap(), 16).unwrap();
	}
	k
}

fn keys_str(k: &[u64; 4]) -> String {
	format!("{} {} {} {}", k[0], k[1], k[2], k[3])
}

/// independent oracle (degree counting + union-find): do the edges form one simple cycle
/// through all of them, with the count / range / ascending conditions of the property text
fn oracle(v: Var, ps: usize, edge_mask: u64, eps: &[(u64, u64)], nonces: &[u64]) -> bool {
	let l = nonces.len();
	if l != ps || l == 0 {
		return false;
	}
	if nonces.iter().any(|n| *n > edge_mask) {
		return false;
	}
	if nonces.windows(2).any(|w| w[0] >= w[1]) {
		return false;
	}
	// group the 2l edge ends by vertex (sort by vertex key): every vertex must have exactly two
	let mut ends: Vec<(u64, usize)> = Vec::with_capacity(2 * l);
	for (e, (a, b)) in eps.iter().enumerate() {
		ends.push((v.vkey(0, *a), 2 * e));
		ends.push((v.vkey(1, *b), 2 * e + 1));
	}
	ends.sort_unstable();
	let node = |s: usize| if s % 2 == 0 { eps[s / 2].0 } else { eps[s / 2].1 };
	let mut uf: Vec<usize> = (0..l).collect();
	fn find(uf: &mut Vec<usize>, x: usize) -> usize {
		let mut r = x;
		while uf[r] != r {
			r = uf[r];
		}
		uf[x] = r;
		r
	}
	let mut i = 0;
	while i < ends.len() {
		if i + 1 >= ends.len() || ends[i + 1].0 != ends[i].0 {
			return false; // a vertex with one edge end
		}
		if i + 2 < ends.len() && ends[i + 2].0 == ends[i].0 {
			return false; // three or more
		}
		let (a, b) = (ends[i].1, ends[i + 1].1);
		let good = match v {
			Var::Cuckatoo => node(a) != node(b),
			Var::Cuckarood => (nonces[a / 2] & 1) != (nonces[b / 2] & 1),
			Var::Cuckaroom => a % 2 != b % 2,
			_ => true,
		};
		if !good {
			return false;
		}
		let (ra, rb) = (find(&mut uf, a / 2), find(&mut uf, b / 2));
		uf[ra] = rb;
		i += 2;
	}
	if v == Var::Cuckarood {
		let d0 = nonces.iter().filter(|n| *n & 1 == 0).count();
		if 2 * d0 != l {
			return false;
		}
	}
	let r0 = find(&mut uf, 0);
	(0..l).all(|e| find(&mut uf, e) == r0)
}

/// Would cuckarood's `verify` loop forever on this input? (re-implementation of its walk
/// without the bucket lists, with a step bound: the walk is deterministic on 2*size slots)
fn rood_hangs(ps: usize, edge_mask: u64, eps: &[(u64, u64)], nonces: &[u64]) -> bool {
	let size = nonces.len();
	if size != ps {
		return false;
	}
	let mut uvs = vec![0u64; 2 * size];
	let mut sdir = vec![2usize; 2 * size];
	let mut ndir = [0usize; 2];
	let (mut x0, mut x1) = (0u64, 0u64);
	for n in 0..size {
		let dir = (nonces[n] & 1) as usize;
		if ndir[dir] >= size / 2 || nonces[n] > edge_mask || (n > 0 && nonces[n] <= nonces[n - 1]) {
			return false;
		}
		let idx = 4 * ndir[dir] + 2 * dir;
		uvs[idx] = eps[n].0;
		uvs[idx + 1] = eps[n].1;
		sdir[idx] = dir;
		sdir[idx + 1] = dir;
		x0 ^= eps[n].0;
		x1 ^= eps[n].1;
		ndir[dir] += 1;
	}
	if x0 | x1 != 0 {
		return false;
	}
	let mut i = 0usize;
	for _ in 0..(2 * size + 2) {
		let want = if i & 1 == 0 { 1 } else { 0 };
		let m: Vec<usize> = (0..2 * size)
			.filter(|k| k % 2 == i % 2 && sdir[*k] == want && uvs[*k] == uvs[i])
			.collect();
		if m.len() != 1 {
			return false;
		}
		i = m[0] ^ 1;
		if i == 0 {
			return false;
		}
	}
	true
}

struct Stats {
	h: HashMap<(String, String), u64>,
	hang_confirmed: u64,
	hang_predicted: u64,
}
impl Stats {
	fn new() -> Stats {
		Stats {
			h: HashMap::new(),
			hang_confirmed: 0,
			hang_predicted: 0,
		}
	}
	fn add(&mut self, v: Var, r: &str) {
		*self.h.entry((v.name().to_string(), r.to_string())).or_insert(0) += 1;
	}
	fn print(&self, out: &mut Out, what: &str) {
		for v in VARS.iter() {
			let mut parts: Vec<String> = self
				.h
				.iter()
				.filter(|((n, _), _)| n == v.name())
				.map(|((_, r), c)| format!("{}={}", r, c))
				.collect();
			parts.sort();
			if !parts.is_empty() {
				out.raw(&format!("#STAT {} {} verdicts: {}", what, v.name(), parts.join(" ")));
			}
		}
		if self.hang_predicted > 0 {
			out.raw(&format!(
				"#STAT {} cuckarood inputs on which the unrepaired walk would spin forever: {} (child-process probes that hung: {})",
				what, self.hang_predicted, self.hang_confirmed
			));
		}
	}
}

/// run the real verifier; cuckarood inputs predicted to loop forever are run in a child process
/// with a timeout (at most `budget` times), never in-process
struct Runner {
	v: Var,
	eb: u8,
	ps: usize,
	ctx: Box<dyn PoWContext>,
	keys: [u64; 4],
	seed: u64,
	eps_all: Vec<(u64, u64)>,
}
static mut HANG_BUDGET: u32 = 6;
static mut HANG_SEEN: bool = false;

impl Runner {
	fn new(v: Var, eb: u8, ps: usize, ctx_ps: usize, seed: u64, with_table: bool) -> Runner {
		let hdr = header(seed);
		let mut ctx = v.ctx(eb, ctx_ps);
		ctx.set_header_nonce(hdr.clone(), None, false).unwrap();
		let keys = real_keys(&hdr, None);
		let eps_all = if with_table {
			(0..(1u64 << eb)).map(|n| v.ep(&keys, eb, n)).collect()
		} else {
			vec![]
		};
		Runner {
			v,
			eb,
			ps,
			ctx,
			keys,
			seed,
			eps_all,
		}
	}
	fn eps(&self, nonces: &[u64]) -> Vec<(u64, u64)> {
		nonces
			.iter()
			.map(|n| {
				if (*n as usize) < self.eps_all.len() {
					self.eps_all[*n as usize]
				} else {
					self.v.ep(&self.keys, self.eb, *n)
				}
			})
			.collect()
	}
	/// implementation verdict name
	fn verify(&self, nonces: &[u64], stats: &mut Stats, out: &mut Out) -> &'static str {
		let edge_mask = (1u64 << self.eb) - 1;
		if self.v == Var::Cuckarood {
			let eps = self.eps(nonces);
			if rood_hangs(self.ps, edge_mask, &eps, nonces) {
				// regression probe for the repaired endless walk (/repo df0049399): such inputs
				// made verify spin forever. The first few are run in a child process with a
				// timeout before the in-process call; if one hangs, none is run in-process.
				stats.hang_predicted += 1;
				let budget = unsafe { HANG_BUDGET };
				if budget > 0 {
					unsafe { HANG_BUDGET -= 1 };
					if hang_child(self.eb, self.ps, self.seed, nonces) {
						unsafe { HANG_SEEN = true };
						stats.hang_confirmed += 1;
						out.raw(&format!(
							"#ORACLE-FAIL C05 cuckarood-verify-nonterminating: CuckaroodContext::verify did not return within 400 ms (child process killed) edge_bits={} proofsize={} header=seed{} keys=[{}] nonces={}",
							self.eb, self.ps, self.seed, keys_str(&self.keys), nat_list(nonces)
						));
					}
				}
				if unsafe { HANG_SEEN } {
					return "hang";
				}
			}
		}
		let p = Proof {
			edge_bits: self.eb,
			nonces: nonces.to_vec(),
		};
		let ctx = std::panic::AssertUnwindSafe(&self.ctx);
		match catch(move || {
			let r = ctx.verify(&p);
			err_name(&r)
		}) {
			Ok(s) => s,
			Err(_) => "panic",
		}
	}
}

/// child: `pow hangprobe eb ps seed n1,n2,…` runs the real cuckarood verify and exits 0
fn hang_child(eb: u8, ps: usize, seed: u64, nonces: &[u64]) -> bool {
	let exe = std::env::current_exe().unwrap();
	let ns: Vec<String> = nonces.iter().map(|n| n.to_string()).collect();
	let mut child = std::process::Command::new(exe)
		.args(&[
			"hangprobe".to_string(),
			eb.to_string(),
			ps.to_string(),
			seed.to_string(),
			ns.join(","),
		])
		.stdout(std::process::Stdio::null())
		.stderr(std::process::Stdio::null())
		.spawn()
		.unwrap();
	let t0 = std::time::Instant::now();
	loop {
		match child.try_wait().unwrap() {
			Some(_) => return false,
			None => {
				if t0.elapsed().as_millis() > 400 {
					let _ = child.kill();
					let _ = child.wait();
					return true;
				}
				std::thread::sleep(std::time::Duration::from_millis(5));
			}
		}
	}
}

fn set_chain_for(ps: usize) {
	global::set_local_chain_type(if ps == 8 {
		ChainTypes::AutomatedTesting
	} else {
		ChainTypes::UserTesting
	});
}

fn hangprobe(args: &[String]) {
	let eb: u8 = args[0].parse().unwrap();
	let ps: usize = args[1].parse().unwrap();
	let seed: u64 = args[2].parse().unwrap();
	let nonces: Vec<u64> = args[3].split(',').map(|s| s.parse().unwrap()).collect();
	set_chain_for(ps);
	let mut ctx = Var::Cuckarood.ctx(eb, ps);
	ctx.set_header_nonce(header(seed), None, false).unwrap();
	let _ = ctx.verify(&Proof {
		edge_bits: eb,
		nonces,
	});
}

// ---------------------------------------------------------------------------------------------
// (i) siphash

fn sip(out: &mut Out, rng: &mut Rng, thorough: bool) {
	let vec24: [([u64; 4], u64); 4] = [
		([1, 2, 3, 4], 10),
		([1, 2, 3, 4], 111),
		([9, 7, 6, 7], 12),
		([9, 7, 6, 7], 10),
	];
	for (k, n) in vec24.iter() {
		out.line(&format!("pow sip24 {} {}", keys_str(k), n), &siphash24(k, *n).to_string());
	}
	let n = if thorough { 20000 } else { 2500 };
	for i in 0..n {
		let k = [rng.next(), rng.next(), rng.next(), rng.next()];
		let bits = rng.range(1, 64);
		let nonce = match i % 8 {
			0 => rng.below(64),
			1 => u64::MAX - rng.below(70),
			_ => rng.next() >> (64 - bits),
		};
		out.line(
			&format!("pow sip24 {} {}", keys_str(&k), nonce),
			&siphash24(&k, nonce).to_string(),
		);
		// siphash_block: nonce0 + i wraps only above u64::MAX - 63, which no verifier reaches
		let nonce_b = if nonce > u64::MAX - 64 { nonce >> 1 } else { nonce };
		let rot = if rng.chance(1, 2) { 21 } else { 25 };
		let xa = rng.chance(1, 2);
		out.line(
			&format!("pow sipblock {} {} {} {}", keys_str(&k), nonce_b, rot, xa),
			&siphash_block(&k, nonce_b, rot, xa).to_string(),
		);
	}
	// every position inside one block, both flags (the xor range depends on the position)
	let k = [rng.next(), rng.next(), rng.next(), rng.next()];
	for pos in 0..64u64 {
		for xa in [false, true].iter() {
			for rot in [21u8, 25u8].iter() {
				out.line(
					&format!("pow sipblock {} {} {} {}", keys_str(&k), 4096 + pos, rot, xa),
					&siphash_block(&k, 4096 + pos, *rot, *xa).to_string(),
				);
			}
		}
	}
	// header -> keys (blake2b, 4 LE words), with and without the trailing nonce
	for i in 0..(if thorough { 400 } else { 60 }) {
		let len = if i % 5 == 0 { rng.range(4, 300) as usize } else { 80 };
		let hdr = rng.bytes(len);
		let nonce = if i % 2 == 0 { Some(rng.next() as u32) } else { None };
		let k = real_keys(&hdr, nonce);
		out.line(
			&format!(
				"pow keys {} {}",
				hex(&hdr),
				nonce.map(|n| n.to_string()).unwrap_or("none".to_string())
			),
			&keys_str(&k),
		);
	}
	// endpoint derivation of each variant (as re-derived by the harness, used by its solver)
	for _ in 0..(if thorough { 3000 } else { 400 }) {
		let k = [rng.next(), rng.next(), rng.next(), rng.next()];
		let eb = rng.range(4, 31) as u8;
		let n = rng.below(1u64 << eb);
		for v in VARS.iter() {
			let (a, b) = v.ep(&k, eb, n);
			out.line(
				&format!("pow ep {} {} {} {}", v.name(), eb, keys_str(&k), n),
				&format!("{} {}", a, b),
			);
		}
	}
}

// ---------------------------------------------------------------------------------------------
// (ii) exhaustive tiny graphs

fn for_each_tuple<F: FnMut(&[u64])>(n: u64, k: usize, f: &mut F) {
	fn rec<F: FnMut(&[u64])>(n: u64, k: usize, start: u64, cur: &mut Vec<u64>, f: &mut F) {
		if cur.len() == k {
			f(cur);
			return;
		}
		let need = (k - cur.len()) as u64;
		let mut x = start;
		while x + need <= n {
			cur.push(x);
			rec(n, k, x + 1, cur, f);
			cur.pop();
			x += 1;
		}
	}
	rec(n, k, 0, &mut Vec::with_capacity(k), f);
}

/// a header seed whose graph contains a `ps`-cycle (found by the harness DFS), if one turns up
fn seed_with_cycle(v: Var, eb: u8, ps: usize, rng: &mut Rng, tries: u32) -> Option<(u64, Vec<u64>)> {
	for _ in 0..tries {
		let seed = rng.next();
		let keys = real_keys(&header(seed), None);
		let eps: Vec<(u64, u64)> = (0..(1u64 << eb)).map(|n| v.ep(&keys, eb, n)).collect();
		let mut budget = 50_000u64;
		let c = find_cycles(v, &eps, ps, &mut budget, 1);
		if let Some(c) = c.into_iter().next() {
			return Some((seed, c));
		}
	}
	None
}

fn exh(out: &mut Out, rng: &mut Rng, thorough: bool) {
	let ps = 8usize;
	set_chain_for(ps);
	let mut stats = Stats::new();
	let mut ntuples = 0u64;
	// edge_bits 4: every ascending 8-tuple of the 16 edges, whole verdict string to the driver
	let nseeds = if thorough { 40 } else { 6 };
	for v in VARS.iter() {
		for si in 0..nseeds {
			// every other seed is chosen so that its 16-edge graph contains an 8-cycle
			let seed = if si % 2 == 0 {
				seed_with_cycle(*v, 4, ps, rng, 20000).map(|x| x.0).unwrap_or_else(|| rng.next())
			} else {
				rng.next()
			};
			let r = Runner::new(*v, 4, ps, ps, seed, true);
			let mut s = String::with_capacity(13000);
			let mut acc = vec![];
			for_each_tuple(16, ps, &mut |t: &[u64]| {
				let res = r.verify(t, &mut stats, out);
				stats.add(*v, res);
				let o = oracle(*v, ps, 15, &r.eps(t), t);
				if (res == "ok") != o {
					out.raw(&format!(
						"#ORACLE-FAIL C05 {} edge_bits=4 seed={} keys=[{}] nonces={} verdict={} but simple-cycle oracle says {}",
						v.name(), seed, keys_str(&r.keys), nat_list(t), res, if o { "accept" } else { "reject" }
					));
				}
				if res == "ok" {
					acc.push(t.to_vec());
				}
				s.push(err_char(res));
				ntuples += 1;
			});
			out.line(
				&format!("pow exh {} 4 {} {}", v.name(), ps, keys_str(&r.keys)),
				&s,
			);
			for t in acc {
				out.line(
					&format!(
						"pow verify {} 4 {} {} {} {}",
						v.name(),
						ps,
						ps,
						keys_str(&r.keys),
						nat_list(&t)
					),
					"ok",
				);
			}
		}
	}
	out.raw(&format!("#STAT exh edge_bits=4 proofsize=8 seeds/variant={} tuples={}", nseeds, ntuples));
	// edge_bits 5 and 6: the oracle is evaluated here on every tuple (eb 5, thorough: all
	// 10 518 300 tuples of one seed per variant) or on random ascending tuples; accepted ones and a
	// sample of the rejected go to the driver
	let mut n5 = 0u64;
	for v in VARS.iter() {
		for eb in [5u8, 6u8].iter() {
			let full = thorough && *eb == 5;
			let seeds = if full { 1 } else if thorough { 12 } else { 4 };
			for _ in 0..seeds {
				let (seed, cyc) = match seed_with_cycle(*v, *eb, ps, rng, 5000) {
					Some((s, c)) => (s, Some(c)),
					None => (rng.next(), None),
				};
				let r = Runner::new(*v, *eb, ps, ps, seed, true);
				let edge_mask = (1u64 << eb) - 1;
				let mut sampled = 0u64;
				let mut check = |t: &[u64], stats: &mut Stats, out: &mut Out, force: bool| {
					let res = r.verify(t, stats, out);
					stats.add(*v, res);
					let o = oracle(*v, ps, edge_mask, &r.eps(t), t);
					if (res == "ok") != o {
						out.raw(&format!(
							"#ORACLE-FAIL C05 {} edge_bits={} seed={} keys=[{}] nonces={} verdict={} but simple-cycle oracle says {}",
							v.name(), eb, seed, keys_str(&r.keys), nat_list(t), res, if o { "accept" } else { "reject" }
						));
					}
					let interesting = res != "nomatch";
					if force || res == "ok" || (interesting && sampled < 3000) {
						if interesting {
							sampled += 1;
						}
						out.line(
							&format!(
								"pow verify {} {} {} {} {} {}",
								v.name(),
								eb,
								ps,
								ps,
								keys_str(&r.keys),
								nat_list(t)
							),
							res,
						);
					}
				};
				// the cycle itself and its whole 1-neighbourhood (each nonce replaced by every other edge)
				if let Some(c) = &cyc {
					check(c, &mut stats, out, true);
					for i in 0..ps {
						for x in 0..(1u64 << eb) {
							if c.contains(&x) {
								continue;
							}
							let mut t = c.clone();
							t[i] = x;
							t.sort_unstable();
							check(&t, &mut stats, out, true);
							n5 += 1;
						}
					}
				}
				if full {
					let mut cnt = 0u64;
					let mut local_rng = Rng::new(seed);
					for_each_tuple(1u64 << eb, ps, &mut |t: &[u64]| {
						cnt += 1;
						let force = local_rng.below(4000) == 0;
						check(t, &mut stats, out, force);
					});
					n5 += cnt;
				} else {
					let cnt = if thorough { 400_000 } else { 15_000 };
					for i in 0..cnt {
						let mut t: Vec<u64> = vec![];
						while t.len() < ps {
							let x = rng.below(1u64 << eb);
							if !t.contains(&x) {
								t.push(x);
							}
						}
						t.sort_unstable();
						check(&t, &mut stats, out, i % 200 == 0);
					}
					n5 += cnt;
				}
			}
		}
	}
	out.raw(&format!("#STAT exh edge_bits=5,6 tuples checked against the harness oracle={}", n5));
	stats.print(out, "exh");
}

// ---------------------------------------------------------------------------------------------
// (iii) solver-found cycles and near misses

/// all simple cycles of length `len` (as sorted edge lists); brute-force DFS over the graph of
/// all 2^eb edges. `budget` bounds the DFS steps.
fn find_cycles(v: Var, eps: &[(u64, u64)], len: usize, budget: &mut u64, max: usize) -> Vec<Vec<u64>> {
	let mut adj: HashMap<u64, Vec<usize>> = HashMap::new(); // vertex -> slots
	for (e, (a, b)) in eps.iter().enumerate() {
		adj.entry(v.vkey(0, *a)).or_default().push(2 * e);
		adj.entry(v.vkey(1, *b)).or_default().push(2 * e + 1);
	}
	let node = |s: usize| if s % 2 == 0 { eps[s / 2].0 } else { eps[s / 2].1 };
	let key = |s: usize| v.vkey(s % 2, node(s));
	// may the cycle continue from slot a (arrived) into slot b (leave) at their common vertex?
	let cont = |a: usize, b: usize| -> bool {
		a / 2 != b / 2
			&& match v {
				Var::Cuckatoo => node(a) != node(b),
				Var::Cuckarood => (a / 2) % 2 != (b / 2) % 2,
				Var::Cuckaroom => a % 2 == 1 && b % 2 == 0,
				_ => true,
			}
	};
	let mut res: Vec<Vec<u64>> = vec![];
	let mut path: Vec<usize> = vec![]; // arrival slots
	fn dfs(
		start: usize,
		cur: usize,
		len: usize,
		path: &mut Vec<usize>,
		adj: &HashMap<u64, Vec<usize>>,
		key: &dyn Fn(usize) -> u64,
		cont: &dyn Fn(usize, usize) -> bool,
		res: &mut Vec<Vec<u64>>,
		budget: &mut u64,
		max: usize,
	) {
		if *budget == 0 || res.len() >= max {
			return;
		}
		*budget -= 1;
		// cur = slot at which we arrived; leave through another slot of the same vertex
		for &b in adj[&key(cur)].iter() {
			if !cont(cur, b) {
				continue;
			}
			let e = b / 2;
			if path.len() == len {
				if b == start {
					let mut c: Vec<u64> = path.iter().map(|s| (*s / 2) as u64).collect();
					c.sort_unstable();
					c.dedup();
					if c.len() == len && !res.contains(&c) {
						res.push(c);
					}
				}
				continue;
			}
			if e <= start / 2 || path.iter().any(|s| s / 2 == e) {
				continue;
			}
			// no vertex twice
			if path.iter().any(|s| key(*s) == key(b ^ 1)) && !(path.len() + 1 == len && key(b ^ 1) == key(start)) {
				continue;
			}
			path.push(b ^ 1);
			dfs(start, b ^ 1, len, path, adj, key, cont, res, budget, max);
			path.pop();
		}
	}
	for e0 in 0..eps.len() {
		// leave edge e0 through its v end (slot 2*e0+1 is the arrival slot of the first vertex);
		// the cycle must come back into slot 2*e0
		path.clear();
		path.push(2 * e0 + 1);
		dfs(2 * e0, 2 * e0 + 1, len, &mut path, &adj, &key, &cont, &mut res, budget, max);
		if v == Var::Cuckarooz {
			// one node space: edge e0 may also be traversed the other way round
			path.clear();
			path.push(2 * e0);
			dfs(2 * e0 + 1, 2 * e0, len, &mut path, &adj, &key, &cont, &mut res, budget, max);
		}
	}
	res
}

fn verify_line(r: &Runner, ctx_ps: usize, nonces: &[u64], what: &str, stats: &mut Stats, out: &mut Out, expect_reject: bool) {
	let res = r.verify(nonces, stats, out);
	stats.add(r.v, &format!("{}:{}", what, res));
	let edge_mask = (1u64 << r.eb) - 1;
	if ctx_ps == r.ps {
		let o = oracle(r.v, r.ps, edge_mask, &r.eps(nonces), nonces);
		if (res == "ok") != o || (expect_reject && res == "ok") {
			out.raw(&format!(
				"#ORACLE-FAIL C05 {} {} edge_bits={} seed={} keys=[{}] nonces={} verdict={} oracle={}",
				r.v.name(), what, r.eb, r.seed, keys_str(&r.keys), nat_list(nonces), res, if o { "accept" } else { "reject" }
			));
		}
	}
	out.line(
		&format!(
			"pow verify {} {} {} {} {} {}",
			r.v.name(),
			r.eb,
			r.ps,
			ctx_ps,
			keys_str(&r.keys),
			nat_list(nonces)
		),
		res,
	);
}

fn near_misses(r: &Runner, cyc: &[u64], rng: &mut Rng, stats: &mut Stats, out: &mut Out) {
	let ps = r.ps;
	let n_edges = 1u64 << r.eb;
	verify_line(r, ps, cyc, "cycle", stats, out, false);
	// one nonce changed (to a different edge not in the proof), kept ascending
	for _ in 0..3 {
		let i = rng.below(ps as u64) as usize;
		let mut t = cyc.to_vec();
		let x = rng.below(n_edges);
		if t.contains(&x) {
			continue;
		}
		t[i] = x;
		t.sort_unstable();
		verify_line(r, ps, &t, "changed", stats, out, false);
	}
	// neighbour nonce (same siphash block, adjacent index)
	{
		let i = rng.below(ps as u64) as usize;
		let mut t = cyc.to_vec();
		let x = t[i] ^ 1;
		if !t.contains(&x) {
			t[i] = x;
			t.sort_unstable();
			verify_line(r, ps, &t, "changed", stats, out, false);
		}
	}
	// two swapped: not ascending
	{
		let i = rng.below(ps as u64 - 1) as usize;
		let j = rng.range(i as u64 + 1, ps as u64 - 1) as usize;
		let mut t = cyc.to_vec();
		t.swap(i, j);
		verify_line(r, ps, &t, "swapped", stats, out, true);
		let mut t = cyc.to_vec();
		t.reverse();
		verify_line(r, ps, &t, "swapped", stats, out, true);
		// rotation: same cycle, not ascending
		let mut t = cyc.to_vec();
		t.rotate_left(1);
		verify_line(r, ps, &t, "swapped", stats, out, true);
	}
	// duplicated nonce
	{
		let i = rng.below(ps as u64 - 1) as usize;
		let mut t = cyc.to_vec();
		t[i + 1] = t[i];
		verify_line(r, ps, &t, "duplicated", stats, out, true);
		let mut t = cyc.to_vec();
		t[i] = t[i + 1];
		verify_line(r, ps, &t, "duplicated", stats, out, true);
	}
	// out of range: same low bits, above the edge mask (sip input differs; must be refused first)
	{
		let mut t = cyc.to_vec();
		t[ps - 1] += n_edges;
		verify_line(r, ps, &t, "outofrange", stats, out, true);
		let mut t = cyc.to_vec();
		let i = rng.below(ps as u64) as usize;
		t[i] += n_edges << rng.below(8);
		verify_line(r, ps, &t, "outofrange", stats, out, true);
		let mut t = cyc.to_vec();
		t[ps - 1] = n_edges;
		verify_line(r, ps, &t, "outofrange", stats, out, true);
	}
	// wrong count
	{
		let t = cyc[..ps - 1].to_vec();
		verify_line(r, ps, &t, "wrongcount", stats, out, true);
		let mut t = cyc.to_vec();
		t.push(cyc[ps - 1] + 1);
		verify_line(r, ps, &t, "wrongcount", stats, out, true);
		verify_line(r, ps, &[], "wrongcount", stats, out, true);
		let t = cyc[..ps / 2].to_vec();
		verify_line(r, ps, &t, "wrongcount", stats, out, true);
	}
}

fn solve(out: &mut Out, rng: &mut Rng, thorough: bool) {
	let ps = 8usize;
	set_chain_for(ps);
	let mut stats = Stats::new();
	let mut shapes: HashMap<String, u64> = HashMap::new();
	let graphs = if thorough { 2500 } else { 260 };
	for v in VARS.iter() {
		let mut found = 0u64;
		for g in 0..graphs {
			let eb: u8 = match g % 4 {
				0 => 7,
				1 => 8,
				2 => 10,
				_ => rng.range(6, 12) as u8,
			};
			let seed = rng.next();
			let r = Runner::new(*v, eb, ps, ps, seed, true);
			let mut budget = 400_000u64;
			let cycles = find_cycles(*v, &r.eps_all, ps, &mut budget, 6);
			for c in cycles.iter() {
				found += 1;
				near_misses(&r, c, rng, &mut stats, out);
			}
			// Cuckatoo: the repo's own solver on the same graph
			if *v == Var::Cuckatoo && g % 8 == 0 {
				let mut sc = CuckatooContext::new_impl(eb, ps, 4).unwrap();
				sc.set_header_nonce_impl(header(seed), None, true).unwrap();
				match catch(std::panic::AssertUnwindSafe(move || sc.find_cycles_iter(0..(1u64 << eb)))) {
					Ok(Ok(sols)) => {
						for s in sols.iter() {
							*shapes.entry("cuckatoo-own-solver".to_string()).or_insert(0) += 1;
							verify_line(&r, ps, &s.nonces, "ownsolver", &mut stats, out, false);
							if !cycles.contains(&s.nonces) && budget > 0 && cycles.len() < 6 {
								out.raw(&format!("#ORACLE-FAIL C05 cuckatoo solver found {:?} which the harness DFS did not (seed {})", s.nonces, seed));
							}
						}
					}
					Ok(Err(_)) => {}
					Err(_) => {
						out.raw(&format!("#STAT cuckatoo find_cycles panicked eb={} seed={}", eb, seed));
					}
				}
			}
			// shapes built from half-length cycles: two disjoint ones, figure-eight (sharing a vertex)
			let mut b2 = 200_000u64;
			let halves = find_cycles(*v, &r.eps_all, ps / 2, &mut b2, 8);
			for a in 0..halves.len() {
				for b in (a + 1)..halves.len() {
					let mut t: Vec<u64> = halves[a].iter().chain(halves[b].iter()).cloned().collect();
					t.sort_unstable();
					t.dedup();
					if t.len() != ps {
						continue;
					}
					let eps = r.eps(&t);
					let mut keys: Vec<u64> = vec![];
					for (x, y) in eps.iter() {
						keys.push(v.vkey(0, *x));
						keys.push(v.vkey(1, *y));
					}
					keys.sort_unstable();
					keys.dedup();
					let what = if keys.len() == ps { "twohalves" } else { "figure8" };
					*shapes.entry(what.to_string()).or_insert(0) += 1;
					verify_line(&r, ps, &t, what, &mut stats, out, true);
					// Cuckarooz compares the walk length with the context's proof_size, every other
					// variant with the proof's: a context built with proof_size 4 accepts two 4-cycles
					if *v == Var::Cuckarooz && what == "twohalves" {
						let r4 = Runner::new(*v, eb, ps, ps / 2, seed, true);
						verify_line(&r4, ps / 2, &t, "twohalves-ctx4", &mut stats, out, false);
					}
				}
			}
			// paths: a cycle of length ps+2 minus two adjacent edges … simpler: a longer cycle's prefix
			if g % 3 == 0 {
				let mut b3 = 100_000u64;
				let longer = find_cycles(*v, &r.eps_all, ps + 2, &mut b3, 2);
				for c in longer.iter() {
					// drop two edges: what remains is one or two paths
					let i = rng.below(c.len() as u64) as usize;
					let mut t = c.clone();
					t.remove(i);
					let j = rng.below(t.len() as u64) as usize;
					t.remove(j);
					*shapes.entry("path".to_string()).or_insert(0) += 1;
					verify_line(&r, ps, &t, "path", &mut stats, out, true);
				}
			}
		}
		out.raw(&format!("#STAT solve {} graphs={} cycles found by the harness DFS={}", v.name(), graphs, found));
	}
	// proof size 42 (UserTesting): cycles at small edge_bits
	let ps42 = 42usize;
	set_chain_for(ps42);
	for v in VARS.iter() {
		let mut found = 0;
		let tries = if thorough { 1200 } else { 150 };
		for _ in 0..tries {
			if found >= (if thorough { 6 } else { 1 }) {
				break;
			}
			let eb = 11u8;
			let seed = rng.next();
			let r = Runner::new(*v, eb, ps42, ps42, seed, true);
			let mut budget = 300_000u64;
			let cycles = find_cycles(*v, &r.eps_all, ps42, &mut budget, 1);
			for c in cycles.iter() {
				found += 1;
				near_misses(&r, c, rng, &mut stats, out);
			}
		}
		out.raw(&format!("#STAT solve {} proofsize=42 edge_bits=11 cycles found={}", v.name(), found));
	}
	let mut sh: Vec<String> = shapes.iter().map(|(k, v)| format!("{}={}", k, v)).collect();
	sh.sort();
	out.raw(&format!("#STAT solve shapes: {}", sh.join(" ")));
	stats.print(out, "solve");
}

// ---------------------------------------------------------------------------------------------
// Proof packing, padding bits, difficulty

fn pack(out: &mut Out, rng: &mut Rng, thorough: bool) {
	use grin_core::core::hash::Hashed;
	let mut ok = 0u64;
	let mut refused = 0u64;
	for (ct, ps) in [(ChainTypes::AutomatedTesting, 8usize), (ChainTypes::Mainnet, 42usize)].iter() {
		global::set_local_chain_type(*ct);
		for w in 1u8..=63 {
			for rep in 0..(if thorough { 30 } else { 4 }) {
				let mut nonces: Vec<u64> = (0..*ps)
					.map(|_| match rep % 4 {
						0 => rng.next() & ((1u64 << w) - 1),
						1 => (1u64 << w) - 1,
						2 => (1u64 << (w - 1)) | (rng.next() & ((1u64 << w) - 1)),
						_ => rng.below(3),
					})
					.collect();
				if rep % 2 == 0 {
					nonces.sort_unstable();
				}
				let p = Proof {
					edge_bits: w,
					nonces: nonces.clone(),
				};
				let pc = p.clone();
				let packed = match catch(move || pc.pack_nonces()) {
					Ok(b) => b,
					Err(_) => {
						out.line(&format!("pow pack {} {} {}", w, ps, nat_list(&nonces)), "panic");
						continue;
					}
				};
				out.line(&format!("pow pack {} {} {}", w, ps, nat_list(&nonces)), &hex(&packed));
				// serialise / deserialise through the real Writeable / Readable
				let bytes = ser::ser_vec(&p, ser::ProtocolVersion::local()).unwrap();
				if bytes[0] != w || bytes[1..] != packed[..] {
					out.raw(&format!("#ORACLE-FAIL C05 Proof::write is not edge_bits byte + packed nonces for w={} {:?}", w, nonces));
				}
				let back: Result<Proof, ser::Error> = ser::deserialize(
					&mut &bytes[..],
					ser::ProtocolVersion::local(),
					ser::DeserializationMode::default(),
				);
				match &back {
					Ok(q) => {
						ok += 1;
						out.line(&format!("pow unpack {} {} {}", w, ps, hex(&packed)), &nat_list(&q.nonces));
						if q.nonces != nonces || q.edge_bits != w {
							out.raw(&format!("#ORACLE-FAIL C05 proof does not survive serialisation: w={} {:?} -> {:?}", w, nonces, q.nonces));
						}
					}
					Err(_) => {
						out.line(&format!("pow unpack {} {} {}", w, ps, hex(&packed)), "err");
						if packed.len() >= 8 {
							out.raw(&format!("#ORACLE-FAIL C05 well-formed proof refused on read: w={} {:?}", w, nonces));
						}
					}
				}
				// difficulty is a function of the packed nonces only
				if packed.len() >= 8 {
					let h = p.hash();
					let scale = rng.range(1, 1 << 20);
					let d = (((scale as u128) << 64) / (std::cmp::max(1, h.to_u64()) as u128)).min(u64::MAX as u128) as u64;
					let mut pow = grin_core::pow::ProofOfWork::default();
					pow.proof = p.clone();
					let unscaled = pow.to_unscaled_difficulty().to_num();
					out.line(&format!("pow diff 1 {}", hex(&packed)), &std::cmp::max(unscaled, 1).to_string());
					out.line(&format!("pow diff {} {}", scale, hex(&packed)), &d.to_string());
				}
				// non-zero padding bits must be refused
				let total_bits = packed.len() * 8;
				let used = *ps * (w as usize);
				if total_bits > used && packed.len() >= 8 {
					let bit = used + rng.below((total_bits - used) as u64) as usize;
					let mut bad = bytes.clone();
					bad[1 + bit / 8] |= 1 << (bit % 8);
					let back: Result<Proof, ser::Error> = ser::deserialize(
						&mut &bad[..],
						ser::ProtocolVersion::local(),
						ser::DeserializationMode::default(),
					);
					out.line(
						&format!("pow unpack {} {} {}", w, ps, hex(&bad[1..])),
						&match &back {
							Ok(q) => nat_list(&q.nonces),
							Err(_) => "err".to_string(),
						},
					);
					match back {
						Ok(_) => out.raw(&format!("#ORACLE-FAIL C05 non-zero padding bit {} accepted: w={} ps={} bytes={}", bit, w, ps, hex(&bad))),
						Err(_) => refused += 1,
					}
				}
				// random byte strings of the right length
				let rb = rng.bytes(packed.len());
				let mut rbytes = vec![w];
				rbytes.extend_from_slice(&rb);
				let back: Result<Proof, String> = catch(move || {
					ser::deserialize::<Proof, _>(
						&mut &rbytes[..],
						ser::ProtocolVersion::local(),
						ser::DeserializationMode::default(),
					)
				})
				.map_err(|_| "panic".to_string())
				.and_then(|r| r.map_err(|_| "err".to_string()));
				out.line(
					&format!("pow unpack {} {} {}", w, ps, hex(&rb)),
					&match &back {
						Ok(q) => nat_list(&q.nonces),
						Err(e) => e.clone(),
					},
				);
			}
		}
	}
	// malformed in-memory proofs (not producible by Proof::read): a nonce wider than edge_bits,
	// a nonce count different from global::proofsize(). pack_nonces (and so Proof::hash,
	// to_difficulty, write) can panic on these; the model has the same panic outcomes.
	let mut panics = 0u64;
	let mut nopanic = 0u64;
	for (ct, ps) in [(ChainTypes::AutomatedTesting, 8usize), (ChainTypes::Mainnet, 42usize)].iter() {
		global::set_local_chain_type(*ct);
		for w in 1u8..=63 {
			for kind in 0..4 {
				let mut nonces: Vec<u64> = (0..*ps).map(|_| rng.next() & ((1u64 << w) - 1)).collect();
				match kind {
					0 => nonces[*ps - 1] |= 1u64 << w,
					1 => {
						let i = rng.below(*ps as u64) as usize;
						nonces[i] = rng.next() | (1u64 << w);
					}
					2 => {
						for _ in 0..rng.range(1, 6) {
							nonces.push(rng.next() & ((1u64 << w) - 1));
						}
					}
					_ => nonces.truncate(rng.below(*ps as u64) as usize),
				}
				let p = Proof {
					edge_bits: w,
					nonces: nonces.clone(),
				};
				match catch(move || p.pack_nonces()) {
					Ok(b) => {
						nopanic += 1;
						out.line(&format!("pow pack {} {} {}", w, ps, nat_list(&nonces)), &hex(&b));
					}
					Err(_) => {
						panics += 1;
						out.line(&format!("pow pack {} {} {}", w, ps, nat_list(&nonces)), "panic");
					}
				}
			}
		}
	}
	out.raw(&format!(
		"#STAT pack_nonces on in-memory proofs with an over-wide nonce or a nonce count != proofsize: panicked={} returned={}",
		panics, nopanic
	));
	out.raw(&format!("#STAT pack round-trips ok={} padding-bit corruptions refused={}", ok, refused));
}

fn main() {
	quiet_panics();
	let args: Vec<String> = std::env::args().collect();
	let mode = args.get(1).map(|s| s.as_str()).unwrap_or("sip");
	if mode == "hangprobe" {
		hangprobe(&args[2..]);
		return;
	}
	let _ = Var::from_name("cuckatoo");
	global::set_local_chain_type(ChainTypes::AutomatedTesting);
	let mut rng = Rng::new(seed_from_env() ^ (mode.len() as u64 * 7919));
	let thorough = tier_thorough();
	let mut out = Out::stdout();
	match mode {
		"sip" => sip(&mut out, &mut rng, thorough),
		"exh" => exh(&mut out, &mut rng, thorough),
		"solve" => solve(&mut out, &mut rng, thorough),
		"pack" => pack(&mut out, &mut rng, thorough),
		_ => panic!("unknown mode"),
	}
	out.flush();
}
